From Coq Require Import List ZArith Lia Bool.
Import ListNotations.
Require Import Base Tree Rdr Link Collect ShapesBase ShapesR IFBase IFLink EolCRLFDefs EolCRLFSimBytes EolCRLFSimStream
  EolGenCrlfRdrDefs EolGenCrlfRdrStep EolGenCrlfRdrNext EolGenCrlfRdrLink EolGenCrlfRdrLink2.
Open Scope Z_scope.

Definition mapS (R : bytes) (s : Z * Z) : Z * Z := (phiP R (fst s), phiP R (snd s)).

Section LinkSim3.
  Variable R : bytes.
  Variable Eb : Z.
  Hypothesis R13 : ~ In 13 R.
  Notation P := (phiP R).
  Notation R' := (crlf R).
  Notation F := (phiI R).
  Notation RR := (RR R Eb).
  Notation RM := (RM R Eb).
  Notation PVc := (PVc R).
  Notation SPI := (SPI R Eb).
  Notation W := (W R Eb).
  Notation mapS := (mapS R).

  Ltac f0 HW := exfalso; destruct (W_PL R Eb _ _ HW) as [?P1 ?P2]; first [eapply (fuel0 R); eassumption|eapply (fuel0 R'); eassumption].

  Definition Res3 (x y : (Z * Z) * (Z * Z) * reader) : Prop :=
    fst (fst y) = mapS (fst (fst x)) /\ snd (fst y) = mapS (snd (fst x)) /\ RR (snd x) (snd y).
  Lemma Res3_null r r' : RR r r' -> Res3 (nullSpan, nullSpan, r) (nullSpan, nullSpan, r').
  Proof. intros H. split; [reflexivity|]. split; [reflexivity|exact H]. Qed.
  Lemma Res3_mk a b c d a' b' c' d' r r' : a' = P a -> b' = P b -> c' = P c -> d' = P d -> RR r r' -> Res3 ((a, b), (c, d), r) ((a', b'), (c', d'), r').
  Proof. intros -> -> -> -> H. split; [reflexivity|]. split; [reflexivity|exact H]. Qed.

  (* ---------------------------------------------------------------- parseLinkLabel *)
  Lemma parseLinkLabel_sim f f' r r' : RR r r' -> nu R r < Z.of_nat f -> nu R' r' < Z.of_nat f' -> nu R r < 999 -> nu R' r' < 999 ->
    Res3 (parseLinkLabel f r) (parseLinkLabel f' r').
  Proof.
    intros H Hn Hn' Hb Hb'. unfold parseLinkLabel. destruct (current r) as [c r0] eqn:Ec. destruct (current r') as [c' r0'] eqn:Ec'.
    destruct (currentE_RR R Eb R13 _ _ _ _ _ _ H Ec Ec') as (-> & H0 & Hc & N0 & N0' & Hp0 & Hp0' & _).
    rewrite m13_eqb by discriminate. destruct (Z.eqb_spec c 91) as [->|N91]; cbn [negb]; [|apply Res3_null, H0].
    pose proof (ll_skip_sim R Eb R13 f' f r0 r0' 0 0 (or_introl H0) ltac:(lia) ltac:(lia) ltac:(lia) ltac:(lia) ltac:(lia) ltac:(lia)) as Hs.
    destruct (RR_PL R Eb _ _ H0) as [Q0 Q0'].
    destruct (ll_skip f r0 0) as [[r1 ch]|] eqn:E1; destruct (ll_skip f' r0' 0) as [[r1' ch']|] eqn:E1'; cbn [SimL] in Hs; try contradiction; [|apply Res3_null, H0].
    destruct Hs as (H1 & B1 & B1' & C1 & C1' & Hns).
    destruct (ll_skip_prog R f r0 0 r1 ch Q0 E1) as (_ & _ & G1 & _). destruct (ll_skip_prog R' f' r0' 0 r1' ch' Q0' E1') as (_ & _ & G1' & _).
    pose proof (ll_body_sim R Eb R13 f' f r1 r1' ch ch' (-1) (or_introl H1) ltac:(lia) ltac:(lia) B1 B1' C1 C1') as Hb2.
    change (P (-1)) with (-1) in Hb2.
    destruct (ll_body f r1 ch (-1)) as [[r2 ie]|]; destruct (ll_body f' r1' ch' (-1)) as [[r2' ie']|]; cbn [SimB] in Hb2; try contradiction; [|apply Res3_null, H1].
    destruct Hb2 as (H2 & -> & _ & _).
    destruct (current r2) as [c2 r3] eqn:Ec2. destruct (current r2') as [c2' r3'] eqn:Ec2'.
    destruct (currentE_RR R Eb R13 _ _ _ _ _ _ H2 Ec2 Ec2') as (-> & H3 & Hc3 & _ & _ & _ & _ & _).
    rewrite m13_eqb by discriminate. destruct (Z.eqb_spec c2 93) as [->|N93]; cbn [negb]; [|apply Res3_null, H3].
    destruct (next r3) as [ok r4] eqn:En. destruct (next r3') as [ok' r4'] eqn:En'.
    destruct (nextE_RR R Eb _ _ _ _ _ _ H3 ltac:(rewrite Hc3; discriminate) En En') as (_ & H4 & _).
    apply Res3_mk; [rewrite Hp0, Hp0'; apply (RR_pos R Eb), H|apply (pos_succ R Eb); [exact H3|rewrite Hc3; discriminate|rewrite Hc3; discriminate]|apply (RR_pos R Eb), H1|reflexivity|exact H4].
  Qed.

  (* ---------------------------------------------------------------- parseLinkDestination *)
  Lemma ld_angle_sim : forall f' f r r' st st', RR r r' -> cur r <> 10 -> st' = P st -> st' + 1 = P (st + 1) ->
    nu R r < Z.of_nat f -> nu R' r' < Z.of_nat f' -> Res3 (ld_angle f r st) (ld_angle f' r' st').
  Proof.
    induction f' as [|f' IH]; intros f r r' st st' H N10 Es Es1 Hn Hn'; [f0 (or_introl H : W r r')|]. destruct f as [|f]; [f0 (or_introl H : W r r')|].
    cbn [ld_angle]. destruct (next r) as [ok r1] eqn:En. destruct (next r') as [ok' r1'] eqn:En'.
    destruct (nextE_RR R Eb _ _ _ _ _ _ H N10 En En') as (-> & H1 & _ & [U1 U2] & [U1' U2']).
    destruct ok; cbn [negb]; [|apply Res3_null, H1]. specialize (U2 eq_refl). specialize (U2' eq_refl).
    pose proof (next_InNode R Eb r r1 (RR_SPI R Eb _ _ H) En) as I1.
    destruct (current r1) as [c r2] eqn:Ec. destruct (current r1') as [c' r2'] eqn:Ec'.
    destruct (currentE_RR R Eb R13 _ _ _ _ _ _ H1 Ec Ec') as (-> & H2 & Hc & N2 & N2' & _ & _ & C13).
    pose proof (InNode_currentE r1 c r2 I1 Ec) as I2.
    rewrite (m13_13 c C13), (m13_10 c C13). replace (c =? 13) with false by (symmetry; apply Z.eqb_neq; exact C13).
    rewrite orb_false_r. cbn [orb]. destruct (Z.eqb_spec c 10) as [->|Nc]; [apply Res3_null, H2|].
    rewrite (m13_n c Nc).
    destruct (next r2) as [ok2 r3] eqn:En2. destruct (next r2') as [ok2' r3'] eqn:En2'.
    destruct (nextE_RR R Eb _ _ _ _ _ _ H2 ltac:(rewrite Hc; exact Nc) En2 En2') as (-> & H3 & _ & [V1 V2] & [V1' V2']).
    destruct (Z.eqb_spec c 92) as [->|N92].
    - destruct ok2; cbn [negb]; [|apply Res3_null, H3]. specialize (V2 eq_refl). specialize (V2' eq_refl).
      destruct (current r3) as [c2 r4] eqn:Ec2. destruct (current r3') as [c2' r4'] eqn:Ec2'.
      destruct (currentE_RR R Eb R13 _ _ _ _ _ _ H3 Ec2 Ec2') as (-> & H4 & Hc4 & N4 & N4' & _ & _ & C213).
      rewrite (m13_13 c2 C213), (m13_10 c2 C213). replace (c2 =? 13) with false by (symmetry; apply Z.eqb_neq; exact C213).
      rewrite orb_false_r. cbn [orb]. destruct (Z.eqb_spec c2 10) as [->|Nc2]; [apply Res3_null, H4|].
      apply IH; [exact H4|rewrite Hc4; exact Nc2|exact Es|exact Es1|lia|lia].
    - destruct (Z.eqb_spec c 62) as [->|N62].
      + destruct (prevE_in R Eb _ _ _ _ _ _ H2 I2 ltac:(rewrite Hc; discriminate) ltac:(rewrite Hc; discriminate) En2 En2') as [A B].
        apply Res3_mk; [exact Es|exact B|exact Es1|exact A|exact H3].
      + apply IH; [exact H2|rewrite Hc; exact Nc|exact Es|exact Es1|lia|lia].
  Qed.

  Lemma ld_bare_sim : forall f' f r r' paren, RR r r' -> nu R r < Z.of_nat f -> nu R' r' < Z.of_nat f' ->
    RR (ld_bare f r paren) (ld_bare f' r' paren).
  Proof.
    induction f' as [|f' IH]; intros f r r' paren H Hn Hn'; [f0 (or_introl H : W r r')|]. destruct f as [|f]; [f0 (or_introl H : W r r')|].
    cbn [ld_bare]. destruct (current r) as [c r1] eqn:Ec. destruct (current r') as [c' r1'] eqn:Ec'.
    destruct (currentE_RR R Eb R13 _ _ _ _ _ _ H Ec Ec') as (-> & H1 & Hc & N1 & N1' & _).
    rewrite m13_ctrl, !m13_eqb by discriminate. destruct (isASCIIControl c || (c =? 32)) eqn:Ect; [exact H1|].
    assert (Nc : c <> 10) by (intros ->; discriminate Ect).
    destruct (next r1) as [ok r2] eqn:En. destruct (next r1') as [ok' r2'] eqn:En'.
    destruct (nextE_RR R Eb _ _ _ _ _ _ H1 ltac:(rewrite Hc; exact Nc) En En') as (-> & H2 & _ & [U1 U2] & [U1' U2']).
    destruct (Z.eqb_spec c 92) as [->|N92].
    - destruct ok; cbn [negb]; [|exact H2]. specialize (U2 eq_refl). specialize (U2' eq_refl).
      destruct (current r2) as [c2 r3] eqn:Ec2. destruct (current r2') as [c2' r3'] eqn:Ec2'.
      destruct (currentE_RR R Eb R13 _ _ _ _ _ _ H2 Ec2 Ec2') as (-> & H3 & Hc3 & N3 & N3' & _).
      rewrite m13_ctrl, !m13_eqb by discriminate. destruct (isASCIIControl c2 || (c2 =? 32)) eqn:Ect2; [exact H3|].
      assert (Nc2 : c2 <> 10) by (intros ->; discriminate Ect2).
      destruct (next r3) as [ok2 r4] eqn:En3. destruct (next r3') as [ok2' r4'] eqn:En3'.
      destruct (nextE_RR R Eb _ _ _ _ _ _ H3 ltac:(rewrite Hc3; exact Nc2) En3 En3') as (-> & H4 & _ & [V1 V2] & [V1' V2']).
      destruct ok2; [|exact H4]. apply IH; [exact H4|specialize (V2 eq_refl); lia|specialize (V2' eq_refl); lia].
    - destruct (c =? 40).
      { destruct ok; [|exact H2]. apply IH; [exact H2|specialize (U2 eq_refl); lia|specialize (U2' eq_refl); lia]. }
      destruct (c =? 41).
      { destruct (paren - 1 <? 0); [exact H1|]. destruct ok; [|exact H2]. apply IH; [exact H2|specialize (U2 eq_refl); lia|specialize (U2' eq_refl); lia]. }
      destruct ok; [|exact H2]. apply IH; [exact H2|specialize (U2 eq_refl); lia|specialize (U2' eq_refl); lia].
  Qed.

  Lemma parseLinkDestination_sim f f' r r' : RR r r' -> nu R r < Z.of_nat f -> nu R' r' < Z.of_nat f' ->
    Res3 (parseLinkDestination f r) (parseLinkDestination f' r').
  Proof.
    intros H Hn Hn'. unfold parseLinkDestination. destruct (current r) as [c r0] eqn:Ec. destruct (current r') as [c' r0'] eqn:Ec'.
    destruct (currentE_RR R Eb R13 _ _ _ _ _ _ H Ec Ec') as (-> & H0 & Hc & N0 & N0' & Hp0 & Hp0' & _).
    rewrite m13_ctrl, !m13_eqb by discriminate.
    destruct (Z.eqb_spec c 60) as [->|N60].
    - apply ld_angle_sim; [exact H0|rewrite Hc; discriminate|apply (RR_pos R Eb), H0| |lia|lia].
      apply (pos_succ R Eb); [exact H0|rewrite Hc; discriminate|rewrite Hc; discriminate].
    - destruct (negb (isASCIIControl c) && negb (c =? 32) && negb (c =? 41)); [|apply Res3_null, H0].
      pose proof (ld_bare_sim f' f r0 r0' 0 H0 ltac:(lia) ltac:(lia)) as H1.
      apply Res3_mk; [apply (RR_pos R Eb), H0|apply (RR_pos R Eb), H1|apply (RR_pos R Eb), H0|apply (RR_pos R Eb), H1|exact H1].
  Qed.

  (* ---------------------------------------------------------------- parseLinkTitle *)
  Lemma lt_loop_sim : forall f' f r r' st st' term, W r r' -> term <> 10 -> term <> 13 -> term <> 32 -> st' = P st -> st' + 1 = P (st + 1) ->
    nu R r < Z.of_nat f -> nu R' r' < Z.of_nat f' -> Res3 (lt_loop f r st term) (lt_loop f' r' st' term).
  Proof.
    induction f' as [|f' IH]; intros f r r' st st' term HW T1 T2 T3 Es Es1 Hn Hn'; [f0 HW|]. destruct f as [|f]; [f0 HW|].
    assert (T : forall r1 r1' : reader, RR r1 r1' -> InNode r1 -> nu R r1 < nu R r -> nu R' r1' < nu R' r' ->
       Res3 (let '(c, r2) := current r1 in
             if c =? 92 then let '(ok2, r3) := next r2 in if negb ok2 then (nullSpan, nullSpan, r3) else lt_loop f r3 st term
             else if c =? term then let '(_, r3) := next r2 in ((st, r_prev r3 + 1), (st + 1, r_prev r3), r3)
             else lt_loop f r2 st term)
            (let '(c, r2) := current r1' in
             if c =? 92 then let '(ok2, r3) := next r2 in if negb ok2 then (nullSpan, nullSpan, r3) else lt_loop f' r3 st' term
             else if c =? term then let '(_, r3) := next r2 in ((st', r_prev r3 + 1), (st' + 1, r_prev r3), r3)
             else lt_loop f' r2 st' term)).
    { intros r1 r1' H1 I1 L1 L1'. destruct (current r1) as [c r2] eqn:Ec. destruct (current r1') as [c' r2'] eqn:Ec'.
      destruct (currentE_RR R Eb R13 _ _ _ _ _ _ H1 Ec Ec') as (-> & H2 & Hc & N2 & N2' & _).
      pose proof (InNode_currentE r1 c r2 I1 Ec) as I2.
      rewrite (m13_eqb c 92) by discriminate. rewrite (m13_eqb c term T1 T2).
      destruct (next r2) as [ok2 r3] eqn:En2. destruct (next r2') as [ok2' r3'] eqn:En2'.
      destruct (Z.eqb_spec c 92) as [->|N92].
      - destruct (nextE_RR R Eb _ _ _ _ _ _ H2 ltac:(rewrite Hc; discriminate) En2 En2') as (-> & H3 & _ & [V1 V2] & [V1' V2']).
        destruct ok2; cbn [negb]; [|apply Res3_null, H3]. apply IH; try assumption; [left; exact H3|specialize (V2 eq_refl); lia|specialize (V2' eq_refl); lia].
      - destruct (Z.eqb_spec c term) as [->|Nt].
        + destruct (nextE_RR R Eb _ _ _ _ _ _ H2 ltac:(rewrite Hc; exact T1) En2 En2') as (_ & H3 & _).
          destruct (prevE_in R Eb r2 r2' ok2 r3 ok2' r3' H2 I2 ltac:(rewrite Hc; exact T1) ltac:(rewrite Hc; exact T3) En2 En2') as [A B].
          apply Res3_mk; [exact Es|exact B|exact Es1|exact A|exact H3].
        + apply IH; try assumption; [left; exact H2|lia|lia]. }
    destruct (next r) as [ok r1] eqn:En. destruct (next r') as [ok' r1'] eqn:En'.
    destruct HW as [H|H].
    - destruct (Z.eq_dec (cur r) 10) as [E10|N10].
      + destruct (nextE_RR10 R Eb _ _ _ _ _ _ H E10 En En') as [(-> & -> & H2 & _)|(-> & HM & Hlt)].
        * cbn [lt_loop]. rewrite En, En'. cbn [negb]. apply Res3_null, H2.
        * destruct (current r) as [c0 r0] eqn:Ec0. destruct (current r1') as [c' r2'] eqn:Ec'.
          destruct (currentE_RM R Eb _ _ _ _ _ _ HM Ec0 Ec') as (_ & -> & HM2 & _ & N2' & _).
          assert (E' : lt_loop (S f') r' st' term = lt_loop f' r2' st' term).
          { cbn [lt_loop]. rewrite En'. cbn [negb]. rewrite Ec'. change (10 =? 92) with false. cbv iota.
            destruct (Z.eqb_spec 10 term) as [E|E]; [exfalso; apply T1; symmetry; exact E|reflexivity]. }
          rewrite E'. apply IH; try assumption; [right; apply (RM_uncur R Eb r c0 r0); [apply (RR_SPI R Eb _ _ H)|exact Ec0|exact HM2]|lia].
      + destruct (nextE_RR R Eb _ _ _ _ _ _ H N10 En En') as (-> & H2 & _ & [U1 U2] & [U1' U2']).
        cbn [lt_loop]. rewrite En, En'. destruct ok; cbn [negb]; [|apply Res3_null, H2].
        apply T; [exact H2|apply (next_InNode R Eb r r1 (RR_SPI R Eb _ _ H) En)|apply U2; reflexivity|apply U2'; reflexivity].
    - destruct (nextE_RM R Eb _ _ _ _ _ _ H En En') as (-> & H2 & _ & [U1 U2] & [U1' U2']).
      cbn [lt_loop]. rewrite En, En'. destruct ok; cbn [negb]; [|apply Res3_null, H2].
      destruct H as (_ & _ & _ & _ & _ & G & _).
      apply T; [exact H2|apply (next_InNode R Eb r r1 G En)|apply U2; reflexivity|apply U2'; reflexivity].
  Qed.

  Lemma parseLinkTitle_sim f f' r r' : RR r r' -> nu R r < Z.of_nat f -> nu R' r' < Z.of_nat f' ->
    Res3 (parseLinkTitle f r) (parseLinkTitle f' r').
  Proof.
    intros H Hn Hn'. unfold parseLinkTitle. destruct (current r) as [c r0] eqn:Ec. destruct (current r') as [c' r0'] eqn:Ec'.
    destruct (currentE_RR R Eb R13 _ _ _ _ _ _ H Ec Ec') as (-> & H0 & Hc & N0 & N0' & Hp0 & Hp0' & _).
    rewrite !m13_eqb by discriminate.
    destruct ((c =? 39) || (c =? 34) || (c =? 40)) eqn:Eq; cbn [negb]; [|apply Res3_null, H0].
    assert (Nc : c <> 10 /\ c <> 32 /\ c <> 13) by (repeat split; intros ->; discriminate Eq). destruct Nc as (Nc1 & Nc2 & Nc3).
    rewrite (m13_n c Nc1).
    apply lt_loop_sim; [left; exact H0| | | |apply (RR_pos R Eb), H0| |lia|lia].
    - destruct (c =? 40); [discriminate|exact Nc1].
    - destruct (c =? 40); [discriminate|exact Nc3].
    - destruct (c =? 40); [discriminate|exact Nc2].
    - apply (pos_succ R Eb); [exact H0|rewrite Hc; exact Nc1|rewrite Hc; exact Nc2].
  Qed.
End LinkSim3.
