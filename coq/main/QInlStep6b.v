(* QInlStep6b.v -- T64 (asm): single-run facts about Inl3d.parseInlineLink: the destination and the title start at or behind the
   position where the scan started. *)
From Coq Require Import List ZArith Lia Bool.
Import ListNotations.
Require Import Base Tables Utf8 Tree Rdr Link Collect Html Recog Inl3a Inl3b Inl3c Inl3d.
Require Import ShapesBase ShapesR IFBase BSRdr ExRdr.
Open Scope Z_scope.

Lemma ld_angle_fst : forall f r st, fst (fst (ld_angle f r st)) = nullSpan \/ fst (fst (fst (ld_angle f r st))) = st.
Proof.
  induction f as [|f IH]; intros r st; [left; reflexivity|]. cbn [ld_angle].
  destruct (next r) as [ok r1]. destruct (negb ok); [left; reflexivity|]. destruct (current r1) as [c r2].
  destruct (_ || _); [left; reflexivity|]. destruct (c =? 92).
  - destruct (next r2) as [ok2 r3]. destruct (negb ok2); [left; reflexivity|]. destruct (current r3) as [c2 r4].
    destruct (_ || _); [left; reflexivity|apply IH].
  - destruct (c =? 62); [|apply IH]. destruct (next r2) as [ok3 r3]. right. reflexivity.
Qed.
Lemma lt_loop_fst : forall f r st term, fst (fst (lt_loop f r st term)) = nullSpan \/ fst (fst (fst (lt_loop f r st term))) = st.
Proof.
  induction f as [|f IH]; intros r st term; [left; reflexivity|]. cbn [lt_loop].
  destruct (next r) as [ok r1]. destruct (negb ok); [left; reflexivity|]. destruct (current r1) as [c r2].
  destruct (c =? 92).
  - destruct (next r2) as [ok2 r3]. destruct (negb ok2); [left; reflexivity|apply IH].
  - destruct (c =? term); [|apply IH]. destruct (next r2) as [ok3 r3]. right. reflexivity.
Qed.
Lemma pld_start f r : spanValid (fst (fst (parseLinkDestination f r))) = true -> fst (fst (fst (parseLinkDestination f r))) = r_pos r.
Proof.
  unfold parseLinkDestination. destruct (current_pos r) as [Ep _]. destruct (current r) as [c r0]. cbn [snd] in Ep.
  destruct (c =? 60).
  - destruct (ld_angle_fst f r0 (r_pos r0)) as [E|E]; [rewrite E; discriminate|]. rewrite E, Ep. reflexivity.
  - destruct (_ && _ && _); [|discriminate]. cbn [fst snd]. intros _. exact Ep.
Qed.
Lemma plt_start f r : spanValid (fst (fst (parseLinkTitle f r))) = true -> fst (fst (fst (parseLinkTitle f r))) = r_pos r.
Proof.
  unfold parseLinkTitle. destruct (current_pos r) as [Ep _]. destruct (current r) as [c r0]. cbn [snd] in Ep.
  destruct (negb _); [discriminate|].
  destruct (lt_loop_fst f r0 (r_pos r0) (if c =? 40 then 41 else c)) as [E|E]; [rewrite E; discriminate|]. rewrite E, Ep. reflexivity.
Qed.

Section Lower.
  Variables (src : bytes) (lo : Z).
  Definition LP (r : reader) : Prop := PL src r /\ lo <= r_pos r.
  Lemma LP_current r : LP r -> LP (snd (current r)).
  Proof. intros [A B]. split; [apply PL_current, A|]. destruct (current_pos r) as [E _]. rewrite E. exact B. Qed.
  Lemma LP_next r : LP r -> LP (snd (next r)).
  Proof. intros [A B]. destruct (next_W src r A) as (C & D & _). split; [exact C|lia]. Qed.

  Lemma pil_lower f (st : ist) s1 ispan dspan dtext tspan ttext : isrc st = src -> spW src (unpFrom st) = true -> lo <= s1 + 1 ->
    parseInlineLink f st s1 = (ispan, (dspan, dtext), (tspan, ttext)) -> ispan <> nullSpan ->
    (spanValid dspan = true -> lo <= fst dspan) /\ (spanValid tspan = true -> lo <= fst tspan) /\ lo <= snd ispan - 1.
  Proof.
    intros Es W Hlo E Hv. unfold parseInlineLink in E. cbv zeta in E. rewrite Es in E.
    assert (H0 : LP (newReader src (unpFrom st) (s1 + 1))) by (split; [apply PL_new, W|cbn; lia]).
    pose proof (P_skipLinkSpace LP LP_current LP_next f _ H0) as H1.
    destruct (skipLinkSpace f (newReader src (unpFrom st) (s1 + 1))) as [ok r1]. cbn [snd] in H1.
    destruct (negb ok); [inversion E; subst; contradiction|].
    pose proof (pld_start f r1) as Hd. pose proof (P_parseLinkDestination LP LP_current LP_next f r1 H1) as H2.
    destruct (parseLinkDestination f r1) as [[ds dt] r2]. cbn [fst snd] in Hd, H2.
    assert (H3 : LP (snd (if spanValid ds then skipLinkSpace f r2 else (true, r2)))).
    { destruct (spanValid ds); [apply (P_skipLinkSpace LP LP_current LP_next), H2|exact H2]. }
    destruct (if spanValid ds then skipLinkSpace f r2 else (true, r2)) as [ok2 r3]. cbn [snd] in H3.
    destruct (negb ok2); [inversion E; subst; contradiction|].
    pose proof (plt_start f r3) as Ht.
    pose proof (P_parseLinkTitle LP LP_current LP_next f r3 H3) as H4.
    destruct (parseLinkTitle f r3) as [[ts tt] r4]. cbn [fst snd] in Ht, H4.
    assert (H5 : LP (snd (if spanValid ts then skipLinkSpace f r4 else (true, r4)))).
    { destruct (spanValid ts); [apply (P_skipLinkSpace LP LP_current LP_next), H4|exact H4]. }
    destruct (if spanValid ts then skipLinkSpace f r4 else (true, r4)) as [ok3 r5]. cbn [snd] in H5.
    destruct (negb ok3); [inversion E; subst; contradiction|]. destruct (negb (cur r5 =? 41)); [inversion E; subst; contradiction|].
    inversion E; subst. split; [|split].
    - intros V. rewrite (Hd V). apply H1.
    - intros V. rewrite (Ht V). apply H3.
    - cbn [snd]. destruct H5 as [_ H5]. lia.
  Qed.
End Lower.
Print Assumptions pil_lower.
