From Coq Require Import List ZArith Lia Bool.
Import ListNotations.
Require Import Base Tree Rdr Link Collect Html Recog LP Rules Starts Driver Render L2Kind L2CC GramDefs GramTree GramLP GramLP2 GramLP3 GramLP4.
Require L2Kind2.
Require Import TDefs TInv TDesc TStarts TLine BSLine1 BSLine3 TilLP1 TilLP8 TilLP10 TilLP11 ReparsePass.
Open Scope Z_scope.

(* T50 continuation, file 8: lines that do not close the open root child.  open1r: the root has exactly one child, and it is open. *)
Definition open1r (rt : block) : Prop := exists x, bkids rt = [x] /\ isOpen x = true.

Lemma open1_updAt f d rt : (1 <= d)%nat -> (forall b, bend (f b) = bend b) -> open1r rt -> open1r (updAt d f rt).
Proof.
  intros Hd Hf (x & Ek & Ho). destruct d as [|d]; [lia|]. cbn [updAt].
  assert (El : lastBlock rt = Some x) by (unfold lastBlock; rewrite Ek; reflexivity). rewrite El.
  exists (updAt d f x). split.
  - rewrite (bkids_set_lastBlocks rt [] x _ Ek). reflexivity.
  - unfold isOpen in *. rewrite (TDesc.bend_updAt f d x (fun _ => Hf x)). exact Ho.
Qed.
Lemma open1_updAt0 f rt : (forall b, bkids (f b) = bkids b) -> open1r rt -> open1r (updAt 0 f rt).
Proof. intros Hf (x & Ek & Ho). exists x. cbn [updAt]. rewrite Hf. tauto. Qed.
Lemma open1_setLB v : forall d rt, open1r rt -> open1r (setLastBlankUpTo d v rt).
Proof.
  assert (Step : forall d rt, open1r rt -> open1r (updAt d (fun b => set_blast b v) rt)).
  { intros [|d] rt H; [apply open1_updAt0; [intros b; destruct b; reflexivity|exact H]|].
    apply open1_updAt; [lia|intros b; destruct b; reflexivity|exact H]. }
  induction d as [|d IH]; intros rt H; cbn [setLastBlankUpTo]; [apply Step, H|apply IH, Step, H].
Qed.
Lemma bend_fblast b : bend (fblast b) = bend b.
Proof. unfold fblast. destruct (lastBlock b); [apply bend_set_lastBlocks|reflexivity]. Qed.

Lemma open1_updCont p f : (1 <= cdepth p)%nat -> (forall b, bend (f b) = bend b) -> open1r (root p) -> open1r (root (updCont p f)).
Proof. intros Hd Hf H. unfold updCont. cbn [root withRoot setLP]. apply open1_updAt; assumption. Qed.

Lemma root_goF_open q : (1 <= cdepth q)%nat -> open1r (root q) -> open1r (root (goF q)).
Proof.
  intros Hd H. unfold goF. cbv zeta.
  set (q' := updCont q _).
  assert (H' : open1r (root q')) by (apply open1_updCont; [exact Hd|intros b; destruct b; reflexivity|exact H]).
  destruct (_ && _); [|exact H']. apply open1_updCont; [exact Hd|intros b; destruct b; reflexivity|exact H'].
Qed.

(* addLineText when no paragraph is opened: the line is blank, or the container takes lines *)
Lemma addLineText_stays p : (1 <= cdepth p)%nat -> open1r (root p) ->
  (acceptsLines (containerKind p) = true \/ isRestBlank p = true) -> open1r (root (addLineText p)).
Proof.
  intros Hd H Hc. rewrite addLineText_eq.
  assert (D1 : cdepth (alP1 p) = cdepth p) by (unfold alP1; destruct (isRestBlank p); reflexivity).
  assert (H1 : open1r (root (alP1 p))).
  { unfold alP1. destruct (isRestBlank p); [|exact H]. apply open1_updCont; [exact Hd|apply bend_fblast|exact H]. }
  assert (K1 : containerKind (alP1 p) = containerKind p).
  { unfold alP1. destruct (isRestBlank p); [|reflexivity]. apply L2Kind2.containerKind_updCont.
    intros b. unfold fblast. destruct (lastBlock b); [destruct b; reflexivity|reflexivity]. }
  assert (D2 : cdepth (alP2 p) = cdepth p) by (unfold alP2; cbn [cdepth container withRoot setLP]; exact D1).
  assert (H2 : open1r (root (alP2 p))) by (unfold alP2; cbn [root withRoot setLP]; apply open1_setLB, H1).
  rewrite K1. destruct (acceptsLines (containerKind p)) eqn:Ea.
  - assert (HI : (1 <= cdepth (addInd (alP2 p)))%nat /\ open1r (root (addInd (alP2 p)))).
    { unfold addInd. set (q := updCont (alP2 p) _). destruct (same_consumeIndent q (tabRem (alP2 p))) as [R C].
      unfold cdepth. rewrite C, R. fold (cdepth q). split; [change (cdepth q) with (cdepth (alP2 p)); lia|].
      unfold q. apply open1_updCont; [lia|intros b; destruct b; reflexivity|exact H2]. }
    apply root_goF_open; destruct (tabCond (alP2 p)); try apply HI; [lia|exact H2].
  - destruct Hc as [Hc|Hc]; [discriminate|]. rewrite Hc. cbn [negb]. exact H2.
Qed.
