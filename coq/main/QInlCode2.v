(* QInlCode2.v -- T64 (code spans, part 2): collectCodeSpan in the two-run setting of the inline pass.
   The children made by cs_addSpan are Text / Indent nodes that lie inside ONE entry each (so the node map qP does not cut them and
   is a translation on them); stripCodeSpanSpace reads bytes of the source only and commutes with the map; the new CodeSpan node
   [pos, sE) is mapped to [sg pos, sg (sE - 1) + 1). *)
From Coq Require Import List ZArith Lia Bool.
Import ListNotations.
Require Import Base Tables Utf8 Tree Rdr Link Collect Html Recog Inl3a Inl3b Inl3c Inl3d Driver Inl3e ShapesBase ShapesR IFBase QCutsDef QCuts QIRdrBase QInlDefs EolCRInlB QInlCode1.
Open Scope Z_scope.

Lemma nth_map_in {A B} (f : A -> B) (d : A) (d' : B) : forall (l : list A) n, (n < length l)%nat -> nth n (map f l) d' = f (nth n l d).
Proof.
  induction l as [|x l IH]; intros n H; [cbn in H; lia|]. destruct n as [|n]; [reflexivity|]. cbn [map nth]. apply IH. cbn in H. lia.
Qed.
Lemma existsb_map_c {A B} (f : B -> bool) (g : A -> B) : forall l, existsb f (map g l) = existsb (fun x => f (g x)) l.
Proof. induction l as [|x l IH]; [reflexivity|]. cbn [map existsb]. rewrite IH. reflexivity. Qed.
Lemma existsb_ext_in {A} (f g : A -> bool) : forall l, (forall x, In x l -> f x = g x) -> existsb f l = existsb g l.
Proof.
  induction l as [|x l IH]; intros H; [reflexivity|]. cbn [existsb]. rewrite (H x (or_introl eq_refl)), IH; [reflexivity|].
  intros y Hy. apply H. right. exact Hy.
Qed.

Section K.
  Variables (sD sQ : bytes) (sg : Z -> Z) (IK : list inline).
  Hypothesis SG : SGood sD sQ sg.
  Notation gsp := (QIRdrBase.gsp sD sg IK).

  (* the shift of an entry *)
  Definition dsh (u : inline) : Z := sg (istart u) - istart u.
  Lemma gsp_sg u x : gsp u -> istart u <= x < iend u -> sg x = x + dsh u.
  Proof. intros (_ & _ & _ & T & _) H. unfold dsh. rewrite (T x H). lia. Qed.
  Lemma gsp_dsh_nn u x : gsp u -> istart u <= x -> 0 <= x + dsh u.
  Proof. intros (A & _) H. unfold dsh. pose proof (SG_nn _ _ _ SG (istart u) A). lia. Qed.
  Lemma gsp_dsh_le u x : gsp u -> istart u <= x <= iend u -> x + dsh u <= len sQ.
  Proof.
    intros Gu H. pose proof Gu as (A & B & C & T & _). destruct (Z.eq_dec x (istart u)) as [->|Ne].
    - unfold dsh. pose proof (SG_lt _ _ _ SG (istart u) ltac:(lia)). lia.
    - pose proof (SG_lt _ _ _ SG (x - 1) ltac:(lia)) as L. rewrite (gsp_sg u (x - 1) Gu) in L by lia. lia.
  Qed.
  Lemma sub_q u s e : gsp u -> istart u <= s -> s <= e -> e <= iend u -> sub sQ (s + dsh u) (e + dsh u) = sub sD s e.
  Proof.
    intros Gu H1 H2 H3. pose proof Gu as (A & B & C & T & _).
    replace (e + dsh u) with ((s + dsh u) + (e - s)) by lia. replace e with (s + (e - s)) at 2 by lia.
    apply (sub_ext sD sQ (SG_pos _ _ _ SG)); try lia.
    - apply (gsp_dsh_nn u s Gu H1).
    - pose proof (gsp_dsh_le u e Gu ltac:(lia)). lia.
    - intros i Hi. replace (s + dsh u + i) with ((s + i) + dsh u) by lia. rewrite <- (gsp_sg u (s + i) Gu) by lia. apply (SG_at _ _ _ SG). lia.
  Qed.

  (* nodes that lie inside one entry and have no children; on them the node map is a translation *)
  Definition LN (n : pn) : Prop := pkids n = [] /\ exists u, gsp u /\ istart u <= ps n /\ ps n < pe n /\ pe n <= iend u.
  Definition q1 (n : pn) : pn := PN (pid n) (pkind n) (sg (ps n)) (sg (ps n) + (pe n - ps n)) (pind n) (pref n) [].
  Lemma qP_LN n : LN n -> qP sD sg n = [q1 n].
  Proof.
    destruct n as [id k s e ind rf ks]. intros (Ek & u & Gu & H1 & H2 & H3). cbn [pkids ps pe] in *. subst ks. unfold q1. cbn [qP flat_map pid pkind ps pe pind pref]. cbv zeta.
    assert (Ee : sg (e - 1) + 1 = sg s + (e - s)) by (rewrite (gsp_sg u (e - 1) Gu), (gsp_sg u s Gu) by lia; lia).
    destruct (splitK k && (s <? e)).
    - rewrite (cuts_single sD s e H2). { cbn [map fst snd]. rewrite Ee. reflexivity. }
      intros x Hx. apply (gsp_nolf sD sQ sg IK SG u x Gu); lia.
    - unfold eE. destruct (Z.ltb_spec s e); [|lia]. rewrite Ee. reflexivity.
  Qed.
  Lemma qPs_LN : forall l, Forall LN l -> qPs sD sg l = map q1 l.
  Proof. induction l as [|n l IH]; intros H; [reflexivity|]. inversion H as [|? ? Hn Hl]; subst. unfold qPs in *. cbn [flat_map map]. rewrite (qP_LN n Hn), (IH Hl). reflexivity. Qed.

  (* ---------------------------------------------------------------- cs_addSpan *)
  Lemma spanLen_in a b : 0 <= a -> a <= b -> spanLen a b = b - a.
  Proof. intros A B. unfold spanLen. destruct (Z.leb_spec 0 a); [|lia]. destruct (Z.leb_spec 0 b); [|lia]. destruct (Z.leb_spec a b); [|lia]. reflexivity. Qed.

  Lemma addSpan_q u acc s e : gsp u -> istart u <= s -> s <= e -> e <= iend u -> Forall LN acc ->
    cs_addSpan sQ (map q1 acc) (s + dsh u) (e + dsh u) = map q1 (cs_addSpan sD acc s e) /\ Forall LN (cs_addSpan sD acc s e).
  Proof.
    intros Gu H1 H2 H3 Hacc. pose proof Gu as (A & B & C & T & _). unfold cs_addSpan. cbv zeta. rewrite (sub_q u s e Gu H1 H2 H3).
    assert (El : len (sub sD s e) = e - s) by (apply len_sub_in; lia). rewrite El.
    set (t := sub sD s e) in *.
    set (trim := if (2 <=? e - s) && (at_ t (e - s - 2) =? 13) && (at_ t (e - s - 1) =? 10) then 2
                 else if (1 <=? e - s) && ((at_ t (e - s - 1) =? 10) || (at_ t (e - s - 1) =? 13)) then 1 else 0).
    assert (Htrim : 0 <= trim <= e - s).
    { unfold trim. destruct (Z.leb_spec 2 (e - s)); cbn [andb].
      - destruct (_ && _); [lia|]. destruct (Z.leb_spec 1 (e - s)); cbn [andb]; [destruct (_ || _); lia|lia].
      - destruct (Z.leb_spec 1 (e - s)); cbn [andb]; [destruct (_ || _); lia|lia]. }
    pose proof (gsp_dsh_nn u s Gu H1) as Nn.
    rewrite (spanLen_in (s + dsh u) (e + dsh u - trim)) by lia. rewrite (spanLen_in s (e - trim)) by lia.
    replace (e + dsh u - trim - (s + dsh u)) with (e - trim - s) by lia.
    assert (HT : 0 < e - trim - s -> q1 (PN 0 TextKind s (e - trim) 0 [] []) = PN 0 TextKind (s + dsh u) (e + dsh u - trim) 0 [] [] /\ LN (PN 0 TextKind s (e - trim) 0 [] [])).
    { intros L. split.
      - unfold q1. cbn [pid pkind ps pe pind pref]. rewrite (gsp_sg u s Gu) by lia. f_equal. lia.
      - split; [reflexivity|]. exists u. cbn [ps pe]. split; [exact Gu|lia]. }
    assert (HI : 0 < trim -> q1 (PN 0 IndentKind (e - trim) (e - trim + trim) 1 [] []) = PN 0 IndentKind (e + dsh u - trim) (e + dsh u - trim + trim) 1 [] [] /\
                              LN (PN 0 IndentKind (e - trim) (e - trim + trim) 1 [] [])).
    { intros L. split.
      - unfold q1. cbn [pid pkind ps pe pind pref]. rewrite (gsp_sg u (e - trim) Gu) by lia. f_equal; lia.
      - split; [reflexivity|]. exists u. cbn [ps pe]. split; [exact Gu|lia]. }
    destruct (Z.ltb_spec 0 (e - trim - s)) as [L1|L1]; destruct (Z.ltb_spec 0 trim) as [L2|L2].
    - destruct (HT L1) as [E1 N1]. destruct (HI L2) as [E2 N2]. rewrite !map_app. cbn [map]. rewrite E1, E2. split; [reflexivity|].
      apply Forall_app. split; [apply Forall_app; split; [exact Hacc|constructor; [exact N1|constructor]]|constructor; [exact N2|constructor]].
    - destruct (HT L1) as [E1 N1]. rewrite !map_app. cbn [map]. rewrite E1. split; [reflexivity|].
      apply Forall_app; split; [exact Hacc|constructor; [exact N1|constructor]].
    - destruct (HI L2) as [E2 N2]. rewrite !map_app. cbn [map]. rewrite E2. split; [reflexivity|].
      apply Forall_app; split; [exact Hacc|constructor; [exact N2|constructor]].
    - split; [reflexivity|exact Hacc].
  Qed.

  (* ---------------------------------------------------------------- stripCodeSpanSpace *)
  Lemma LN_bytes n : LN n -> sub sQ (ps (q1 n)) (pe (q1 n)) = sub sD (ps n) (pe n) /\ at_ sQ (ps (q1 n)) = at_ sD (ps n) /\ at_ sQ (pe (q1 n) - 1) = at_ sD (pe n - 1) /\ 0 <= ps n.
  Proof.
    intros (_ & u & Gu & H1 & H2 & H3). pose proof Gu as (A & B & C & T & _). unfold q1. cbn [ps pe].
    rewrite (gsp_sg u (ps n) Gu) by lia. split; [|split; [|split; [|lia]]].
    - replace (ps n + dsh u + (pe n - ps n)) with (pe n + dsh u) by lia. apply (sub_q u); [exact Gu|lia|lia|lia].
    - rewrite <- (gsp_sg u (ps n) Gu) by lia. apply (SG_at _ _ _ SG). lia.
    - replace (ps n + dsh u + (pe n - ps n) - 1) with ((pe n - 1) + dsh u) by lia. rewrite <- (gsp_sg u (pe n - 1) Gu) by lia. apply (SG_at _ _ _ SG). lia.
  Qed.
  Lemma q1_fields n : pid (q1 n) = pid n /\ pkind (q1 n) = pkind n /\ pind (q1 n) = pind n. Proof. repeat split. Qed.
  Lemma q1_setInd n v : q1 (setInd n v) = setInd (q1 n) v. Proof. destruct n; reflexivity. Qed.
  Lemma LN_setInd n v : LN n -> LN (setInd n v). Proof. destruct n; exact (fun H => H). Qed.
  Lemma pind_setInd n v : pind (setInd n v) = v. Proof. destruct n; reflexivity. Qed.
  (* dropping the first byte *)
  Lemma q1_first n : LN n -> plen (setSpan (q1 n) (ps (q1 n) + 1) (pe (q1 n))) = plen (setSpan n (ps n + 1) (pe n)) /\
    (plen (setSpan n (ps n + 1) (pe n)) <> 0 -> setSpan (q1 n) (ps (q1 n) + 1) (pe (q1 n)) = q1 (setSpan n (ps n + 1) (pe n)) /\ LN (setSpan n (ps n + 1) (pe n))).
  Proof.
    destruct n as [id k s e ind rf ks]. intros (Ek & u & Gu & H1 & H2 & H3). cbn [pkids ps pe] in *. subst ks. pose proof Gu as (A & B & C & T & _).
    unfold q1, plen. cbn [setSpan pid pkind ps pe pind pref]. pose proof (SG_nn _ _ _ SG s ltac:(lia)) as Nn.
    rewrite (spanLen_in (sg s + 1) (sg s + (e - s))) by lia. rewrite (spanLen_in (s + 1) e) by lia. split; [lia|]. intros Hne.
    split; [rewrite (gsp_sg u (s + 1) Gu), (gsp_sg u s Gu) by lia; f_equal; lia|]. split; [reflexivity|]. exists u. cbn [ps pe]. split; [exact Gu|lia].
  Qed.
  (* dropping the last byte *)
  Lemma q1_last n : LN n -> plen (setSpan (q1 n) (ps (q1 n)) (pe (q1 n) - 1)) = plen (setSpan n (ps n) (pe n - 1)) /\
    (plen (setSpan n (ps n) (pe n - 1)) <> 0 -> setSpan (q1 n) (ps (q1 n)) (pe (q1 n) - 1) = q1 (setSpan n (ps n) (pe n - 1)) /\ LN (setSpan n (ps n) (pe n - 1))).
  Proof.
    destruct n as [id k s e ind rf ks]. intros (Ek & u & Gu & H1 & H2 & H3). cbn [pkids ps pe] in *. subst ks. pose proof Gu as (A & B & C & T & _).
    unfold q1, plen. cbn [setSpan pid pkind ps pe pind pref]. pose proof (SG_nn _ _ _ SG s ltac:(lia)) as Nn.
    rewrite (spanLen_in (sg s) (sg s + (e - s) - 1)) by lia. rewrite (spanLen_in s (e - 1)) by lia. split; [lia|]. intros Hne.
    split; [f_equal; lia|]. split; [reflexivity|]. exists u. cbn [ps pe]. split; [exact Gu|lia].
  Qed.

  Lemma strip_q sl : Forall LN sl ->
    stripCodeSpanSpace sQ (map q1 sl) = map q1 (stripCodeSpanSpace sD sl) /\ Forall LN (stripCodeSpanSpace sD sl).
  Proof.
    intros HL. unfold stripCodeSpanSpace.
    assert (Ex : existsb (fun n => negb (pkind n =? IndentKind) && negb (isOnlySpaces (sub sQ (ps n) (pe n)))) (map q1 sl) =
                 existsb (fun n => negb (pkind n =? IndentKind) && negb (isOnlySpaces (sub sD (ps n) (pe n)))) sl).
    { rewrite existsb_map_c. apply existsb_ext_in. intros x Hx. rewrite Forall_forall in HL. destruct (LN_bytes x (HL x Hx)) as (Eb & _). rewrite Eb. reflexivity. }
    rewrite Ex. destruct (negb (existsb _ sl)); [split; [reflexivity|exact HL]|].
    destruct sl as [|first r]; [split; [reflexivity|exact HL]|].
    change (map q1 (first :: r)) with (q1 first :: map q1 r) at 1. cbv iota beta.
    change (q1 first :: map q1 r) with (map q1 (first :: r)). rewrite <- map_rev.
    pose proof (Forall_rev HL) as HLr. inversion HL as [|? ? Lf Lr]; subst.
    destruct (rev (first :: r)) as [|last rr] eqn:Er; [split; [reflexivity|exact HL]|]. cbn [map]. cbv iota beta.
    inversion HLr as [|? ? Ll Lrr]; subst.
    destruct (LN_bytes first Lf) as (_ & Ef & _). destruct (LN_bytes last Ll) as (_ & _ & El & _).
    rewrite Ef, El. change (pkind (q1 first)) with (pkind first). change (pkind (q1 last)) with (pkind last).
    destruct (negb ((pkind first =? IndentKind) || (at_ sD (ps first) =? 32)) || negb ((pkind last =? IndentKind) || (at_ sD (pe last - 1) =? 32))); [split; [reflexivity|exact HL]|].
    (* the first node *)
    set (sl1 := if pkind first =? IndentKind then (if pind (setInd first (pind first - 1)) =? 0 then r else setInd first (pind first - 1) :: r)
                else (if plen (setSpan first (ps first + 1) (pe first)) =? 0 then r else setSpan first (ps first + 1) (pe first) :: r)).
    assert (H1 : (if pkind first =? IndentKind then (if pind (setInd (q1 first) (pind (q1 first) - 1)) =? 0 then map q1 r else setInd (q1 first) (pind (q1 first) - 1) :: map q1 r)
                  else (if plen (setSpan (q1 first) (ps (q1 first) + 1) (pe (q1 first))) =? 0 then map q1 r else setSpan (q1 first) (ps (q1 first) + 1) (pe (q1 first)) :: map q1 r)) = map q1 sl1 /\ Forall LN sl1).
    { unfold sl1. destruct (pkind first =? IndentKind).
      - change (pind (q1 first)) with (pind first). rewrite !pind_setInd. destruct (pind first - 1 =? 0); [split; [reflexivity|exact Lr]|].
        cbn [map]. rewrite q1_setInd. split; [reflexivity|constructor; [apply LN_setInd, Lf|exact Lr]].
      - destruct (q1_first first Lf) as [Ep Hn]. rewrite Ep. destruct (Z.eqb_spec (plen (setSpan first (ps first + 1) (pe first))) 0) as [E0|N0]; [split; [reflexivity|exact Lr]|].
        destruct (Hn N0) as [Eq Ln]. cbn [map]. rewrite Eq. split; [reflexivity|constructor; [exact Ln|exact Lr]]. }
    destruct H1 as [H1 L1].
    match goal with |- (match rev ?X with _ => _ end = _) /\ _ => replace X with (map q1 sl1) end.
    fold sl1. rewrite <- map_rev. pose proof (Forall_rev L1) as L1r.
    destruct (rev sl1) as [|l rr1] eqn:Er1; [split; [reflexivity|exact L1]|]. cbn [map]. cbv iota beta.
    inversion L1r as [|? ? Ll1 Lrr1]; subst. change (pkind (q1 l)) with (pkind l).
    assert (Lrev : Forall LN (rev rr1)) by (apply Forall_rev, Lrr1).
    destruct (pkind l =? IndentKind).
    - change (pind (q1 l)) with (pind l). rewrite !pind_setInd. destruct (pind l - 1 =? 0).
      + rewrite <- map_rev. split; [reflexivity|exact Lrev].
      + change (setInd (q1 l) (pind l - 1) :: map q1 rr1) with (map q1 (setInd l (pind l - 1) :: rr1)) || (rewrite <- q1_setInd; change (q1 (setInd l (pind l - 1)) :: map q1 rr1) with (map q1 (setInd l (pind l - 1) :: rr1))).
        rewrite <- map_rev. split; [reflexivity|]. apply Forall_rev. constructor; [apply LN_setInd, Ll1|exact Lrr1].
    - destruct (q1_last l Ll1) as [Ep Hn]. rewrite Ep. destruct (Z.eqb_spec (plen (setSpan l (ps l) (pe l - 1))) 0) as [E0|N0].
      + rewrite <- map_rev. split; [reflexivity|exact Lrev].
      + destruct (Hn N0) as [Eq Ln]. rewrite Eq. change (q1 (setSpan l (ps l) (pe l - 1)) :: map q1 rr1) with (map q1 (setSpan l (ps l) (pe l - 1) :: rr1)).
        rewrite <- map_rev. split; [reflexivity|]. apply Forall_rev. constructor; [exact Ln|exact Lrr1].
  Qed.
End K.

(* ---------------------------------------------------------------- collectCodeSpan *)
Section C.
  Variables (sD sQ : bytes) (sg : Z -> Z).
  Hypothesis SG : SGood sD sQ sg.
  Variables (st st' : ist).
  Hypothesis HIR : IR sD sQ sg st st'.
  Hypothesis G : Forall (gsp sD sg (unp st)) (unp st).
  Notation IK := (unp st).
  Notation gsp := (QIRdrBase.gsp sD sg (unp st)).
  Notation LN := (LN sD sg (unp st)).
  Notation q1 := (q1 sg).
  Notation dshS := (dsh sg).
  Notation unpAt := (fun i : Z => nth (Z.to_nat i) (unp st) (mkI 0 0 0)).
  Notation unpAt' := (fun i : Z => nth (Z.to_nat i) (map (mvS sg) (unp st)) (mkI 0 0 0)).

  Lemma unpAt_q i : 0 <= i < len IK -> unpAt' i = mvS sg (unpAt i) /\ gsp (unpAt i).
  Proof.
    intros H. unfold len in H. split; [apply nth_map_in; lia|]. rewrite Forall_forall in G. apply G, nth_In. lia.
  Qed.
  Lemma mvS_fields u : gsp u -> ikind (mvS sg u) = UnparsedKind /\ ikind u = UnparsedKind /\ istart (mvS sg u) = istart u + dshS u /\ iend (mvS sg u) = iend u + dshS u.
  Proof. intros (_ & _ & _ & _ & K & _). rewrite ikind_mvS, istart_mvS, iend_mvS. unfold dsh. split; [exact K|]. split; [exact K|]. split; lia. Qed.

  Lemma mid_q : forall k acc up, 0 <= up -> up + Z.of_nat k < len IK -> Forall LN acc ->
    ccs_mid sQ unpAt' k (map q1 acc) up = (map q1 (fst (ccs_mid sD unpAt k acc up)), up + Z.of_nat k) /\
    snd (ccs_mid sD unpAt k acc up) = up + Z.of_nat k /\ Forall LN (fst (ccs_mid sD unpAt k acc up)).
  Proof.
    induction k as [|k IH]; intros acc up H0 H1 HL.
    { cbn [ccs_mid fst snd]. replace (up + Z.of_nat 0) with up by lia. repeat split. exact HL. }
    cbn [ccs_mid]. cbv zeta. destruct (unpAt_q (up + 1) ltac:(lia)) as [Eq Gu]. cbv beta in Eq, Gu |- *. rewrite Eq.
    set (u := nth (Z.to_nat (up + 1)) (unp st) (mkI 0 0 0)) in *.
    destruct (mvS_fields _ Gu) as (K1 & K2 & K3 & K4). rewrite K1, K2, K3, K4. change (UnparsedKind =? UnparsedKind) with true. cbv iota.
    pose proof Gu as (A & B & C & _).
    destruct (addSpan_q sD sQ sg IK SG u acc (istart u) (iend u) Gu ltac:(lia) ltac:(lia) ltac:(lia) HL) as [Ea La].
    rewrite Ea.
    destruct (IH _ (up + 1) ltac:(lia) ltac:(lia) La) as (I1 & I2 & I3). rewrite I1, I2. replace (up + 1 + Z.of_nat k) with (up + Z.of_nat (Datatypes.S k)) by lia.
    split; [reflexivity|]. split; [reflexivity|exact I3].
  Qed.

  Lemma IR_setUpos v : IR sD sQ sg (setUpos st v) (setUpos st' v).
  Proof. destruct HIR as (A & B & C & D & E & F & I & J & K & L). unfold IR. cbn. repeat split; try assumption; apply J. Qed.
End C.

Lemma addNode_q sD sQ sg IK (SG : SGood sD sQ sg) st2 st2' pos sE kids : IR sD sQ sg st2 st2' -> Forall (LN sD sg IK) kids -> 0 <= pos -> pos < sE -> sE <= len sD ->
  IR sD sQ sg (fst (addNode st2 CodeSpanKind pos sE kids)) (fst (addNode st2' CodeSpanKind (sg pos) (sg (sE - 1) + 1) (map (q1 sg) kids))).
Proof.
  intros (A & B & C & D & E & F & I & J & K & L) HL H0 H1 H2. unfold addNode.
  pose proof (SG_nn _ _ _ SG pos H0) as N0.
  assert (N1 : sg pos <= sg (sE - 1)).
  { destruct (Z.eq_dec pos (sE - 1)) as [->|Ne]; [lia|]. pose proof (SG_mono _ _ _ SG pos (sE - 1) H0 ltac:(lia)). lia. }
  rewrite (spanLen_in pos sE) by lia. rewrite (spanLen_in (sg pos) (sg (sE - 1) + 1)) by lia.
  destruct (Z.eqb_spec (sE - pos) 0); [lia|]. destruct (Z.eqb_spec (sg (sE - 1) + 1 - sg pos) 0); [lia|]. cbn [fst].
  unfold IR. cbn [bumpId setRk isrc unp upos stk ign nid rootEnd matcher rk].
  split; [exact A|]. split; [exact B|]. split; [exact C|]. split; [exact D|]. split; [exact E|]. split; [exact F|]. split; [rewrite I; reflexivity|]. split; [exact J|]. split; [exact K|].
  rewrite L, I. unfold qPs. rewrite flat_map_app. f_equal. cbn [flat_map]. rewrite app_nil_r. cbn [qP]. cbv zeta.
  change (splitK CodeSpanKind) with false. cbn [andb]. cbv iota. unfold eE. destruct (Z.ltb_spec pos sE); [|lia].
  fold (qPs sD sg kids). rewrite (qPs_LN sD sQ sg IK SG kids HL). reflexivity.
Qed.

(* 2. collectCodeSpan keeps the relation of the two tokeniser states *)
Theorem q_collectCodeSpan sD sQ sg (SG : SGood sD sQ sg) st st' pos cS cE sE :
  IR sD sQ sg st st' -> Forall (gsp sD sg (unp st)) (unp st) -> spW sD (unp st) = true -> 0 <= upos st < len (unp st) ->
  CSValid sD st pos cS cE sE ->
  IR sD sQ sg (collectCodeSpan st pos sE cS cE) (collectCodeSpan st' (sg pos) (sg (sE - 1) + 1) (sg cS) (sg cE)).
Proof.
  intros HIR G W Hup HV. unfold CSValid in HV. cbv zeta in HV.
  destruct HV as (V1 & V2 & V3 & V4 & V5 & V6 & V7 & V8 & V9 & V10 & _ & _).
  rewrite !collectCodeSpan_eq. cbv zeta.
  pose proof HIR as (Es & Es' & Eu & Ep & _). rewrite Es, Es', Eu, Ep, (unpFrom_q sD sQ sg st st' HIR).
  destruct (unpAt_q sD sg st G (upos st) Hup) as [Eq0 G0]. cbv beta in Eq0, G0.
  pose proof G0 as (A0 & B0 & C0 & _).
  assert (Hk : 0 <= upos st + nodeIndexForPosition (unpFrom st) cE < len (unp st)) by lia.
  destruct (unpAt_q sD sg st G _ Hk) as [EqE GE]. cbv beta in EqE, GE.
  pose proof GE as (AE & BE & CE & _).
  assert (EcE : sg cE = QIRdrBase.sgE sD sg cE) by (symmetry; apply (bsgE_in sD sQ sg SG); lia).
  assert (Enc : nodeIndexForPosition (map (mvS sg) (unpFrom st)) (sg cE) = nodeIndexForPosition (unpFrom st) cE).
  { unfold nodeIndexForPosition. rewrite EcE. apply (bnodeIdx_mvS sD sQ sg (unp st) SG (unpFrom st) cE 0 (unpFrom_gsp sD sg st G)). lia. }
  rewrite Enc.
  set (k := nodeIndexForPosition (unpFrom st) cE) in *.
  assert (HN : Forall (LN sD sg (unp st)) []) by constructor.
  assert (Hpos : 0 <= pos) by lia.
  destruct (Z.eqb_spec k 0) as [K0|K0].
  - rewrite K0 in *. replace (upos st + 0) with (upos st) in * by lia.
    destruct (addSpan_q sD sQ sg (unp st) SG _ [] cS cE G0 ltac:(lia) V4 ltac:(lia) HN) as [Ea La]. cbn [map] in Ea.
    rewrite <- (gsp_sg sD sg (unp st) _ cS G0), <- (gsp_sg sD sg (unp st) _ cE G0) in Ea by lia. rewrite Ea.
    destruct (strip_q sD sQ sg (unp st) SG _ La) as [Es2 Ls]. rewrite Es2.
    apply (addNode_q sD sQ sg (unp st) SG); try assumption; lia.
  - rewrite Eq0. destruct (mvS_fields sD sg st _ G0) as (_ & _ & _ & K4). rewrite K4.
    destruct (addSpan_q sD sQ sg (unp st) SG _ [] cS (iend (nth (Z.to_nat (upos st)) (unp st) (mkI 0 0 0))) G0 ltac:(lia) ltac:(lia) ltac:(lia) HN) as [Ea La]. cbn [map] in Ea.
    rewrite <- (gsp_sg sD sg (unp st) _ cS G0) in Ea by lia. rewrite Ea.
    destruct (mid_q sD sQ sg SG st G (Z.to_nat (k - 1)) _ (upos st) ltac:(lia) ltac:(lia) La) as (M1 & M2 & M3). rewrite M1.
    destruct (ccs_mid sD _ (Z.to_nat (k - 1)) _ (upos st)) as [accP upP]. cbn [fst snd] in M2, M3 |- *. subst upP.
    replace (upos st + Z.of_nat (Z.to_nat (k - 1)) + 1) with (upos st + k) by lia.
    rewrite EqE. destruct (mvS_fields sD sg st _ GE) as (_ & _ & K3 & _). rewrite K3.
    destruct (addSpan_q sD sQ sg (unp st) SG _ accP (istart (nth (Z.to_nat (upos st + k)) (unp st) (mkI 0 0 0))) cE GE ltac:(lia) ltac:(lia) ltac:(lia) M3) as [Eb Lb].
    rewrite <- (gsp_sg sD sg (unp st) _ cE GE) in Eb by lia. rewrite Eb.
    destruct (strip_q sD sQ sg (unp st) SG _ Lb) as [Es2 Ls]. rewrite Es2.
    apply (addNode_q sD sQ sg (unp st) SG); try assumption; try lia. apply IR_setUpos, HIR.
Qed.
Print Assumptions q_collectCodeSpan.
