From Coq Require Import List ZArith Lia Bool.
Import ListNotations.
Require Import Base Tables Utf8 Tree Rdr Link Collect Html Recog Inl3a Inl3b Inl3c Inl3d Inl3e LP Rules Starts Driver Clos12 L2Kind2.
Open Scope Z_scope.

(* a block that holds an Unparsed entry holds only childless, label-free leaf entries *)
Lemma unparsed_block_plain K ik m : forallb (ek K) ik = true -> existsb (fun i => ikind i =? UnparsedKind) ik = true ->
  forallb (rfI m) ik = true.
Proof.
  intros H Hu.
  assert (HK : isCode K = false /\ (K =? LinkReferenceDefinitionKind) = false).
  { apply existsb_exists in Hu. destruct Hu as (u & Hin & Eu). rewrite forallb_forall in H. specialize (H u Hin).
    unfold ek in H. cbv zeta in H. rewrite Eu in H.
    apply andb_true_iff in H. destruct H as [H N2]. apply andb_true_iff in H. destruct H as [_ N1].
    apply negb_true_iff in N1, N2. tauto. }
  destruct HK as [Hc Hr].
  rewrite forallb_forall in *. intros u Hin. specialize (H u Hin).
  destruct u as [k s e ind r ks]. unfold ek, kidless in H. cbn [ikind ikids iref] in H. cbv zeta in H. rewrite Hc, Hr in H.
  assert (Leaf : (match ks with [] => len r =? 0 | _ :: _ => false end) = true -> rfI m (Inl k s e ind r ks) = true).
  { intros L. destruct ks; [|discriminate]. cbn [rfI forallb]. unfold refIn. rewrite L. reflexivity. }
  destruct (k =? UnparsedKind); [apply Leaf; apply andb_true_iff in H; destruct H as [H _]; apply andb_true_iff in H; tauto|].
  destruct ((k =? TextKind) || (k =? SoftLineBreakKind)); [rewrite andb_false_r in H; discriminate|].
  destruct ((k =? RawHTMLKind) || (k =? IndentKind)); [apply Leaf, H|].
  destruct (k =? InfoStringKind).
  { apply Z.eqb_eq in H. subst K. discriminate. }
  rewrite andb_false_r in H. discriminate.
Qed.

(* every call of the inline parser that Rewrite makes yields label-closed inline trees *)
Fixpoint closedAt (fuel : nat) (src : bytes) (m : list bytes) (b : block) : Prop :=
  match fuel with
  | O => True
  | S f =>
    if (0 <? len (bik b)) && hasUnparsed b then forallb (rfI m) (parseInlines src m b) = true
    else Forall (closedAt f src m) (bkids b)
  end.

Theorem rewrite_closed src m : forall fuel b, inv b = true -> closedAt fuel src m b.
Proof.
  induction fuel as [|f IH]; intros b H; [exact I|]. cbn [closedAt].
  apply inv_parts in H. destruct H as [Hi Hk].
  destruct ((0 <? len (bik b)) && hasUnparsed b) eqn:Ec.
  - apply andb_true_iff in Ec. destruct Ec as [_ Eu].
    apply parseInlines_closed. eapply unparsed_block_plain; [exact Hi|exact Eu].
  - apply Forall_forall. intros c Hc. apply IH. unfold invL in Hk. rewrite forallb_forall in Hk. apply Hk, Hc.
Qed.

(* C12, closure clause, for every input and every matcher: in every root block the block layer returns,
   every inline-parsed container gets inline trees whose labels all occur in the matcher's list *)
Theorem C12_closure input m fuel :
  Forall (fun r => closedAt fuel (rb_src r) m (rb_blk r)) (fst (parseBlocks input)).
Proof.
  pose proof (parseBlocks_kinds input) as H. rewrite Forall_forall in *. intros r Hr. apply rewrite_closed, H, Hr.
Qed.
Print Assumptions C12_closure.
