(* ChkF1.v -- T30 follow-up: the entry bounds for EVERY input.  Same invariant as ChkE1.Eb, but the blocks whose entries are
   covered by T28 (EntDrv.parseBlocks_okRE: Paragraph, SetextHeading) and link reference definitions carry no condition
   of their own, so the cut made by onCloseParagraph does not disturb it and no exemption by hasRefB is needed. *)
From Coq Require Import List ZArith Lia Bool.
Import ListNotations.
Require Import Base Tree Rdr Link Collect Html Recog LP Rules Starts Driver L2Kind2 ShapesBase ChkW1 ChkE1.
Open Scope Z_scope.

Definition exK (K : Z) : bool := (K =? ParagraphKind) || (K =? SetextHeadingKind) || (K =? LinkReferenceDefinitionKind).
Fixpoint Fb (M U : Z) (b : block) : bool :=
  match b with Blk K s e bk ik _ _ _ _ _ => (exK K || ((s <=? M) && forallb (eb s e U) ik)) && forallb (Fb M U) bk end.
Definition FbL (M U : Z) (l : list block) : bool := forallb (Fb M U) l.
Definition floc (M U : Z) (b : block) : bool := exK (bkind b) || ((bstart b <=? M) && forallb (eb (bstart b) (bend b) U) (bik b)).
Lemma Fb_eq M U b : Fb M U b = floc M U b && FbL M U (bkids b). Proof. destruct b; reflexivity. Qed.
Lemma Fb_parts M U b : Fb M U b = true -> floc M U b = true /\ FbL M U (bkids b) = true.
Proof. rewrite Fb_eq. apply andb_true_iff. Qed.
Lemma Fb_mk M U b : floc M U b = true -> FbL M U (bkids b) = true -> Fb M U b = true.
Proof. intros A B. rewrite Fb_eq, A, B. reflexivity. Qed.
Lemma floc_ex M U b : exK (bkind b) = true -> floc M U b = true. Proof. unfold floc. intros ->. reflexivity. Qed.
Lemma floc_nex M U b : exK (bkind b) = false -> floc M U b = true -> bstart b <= M /\ forallb (eb (bstart b) (bend b) U) (bik b) = true.
Proof. unfold floc. intros ->. cbn [orb]. intros H. apply andb_true_iff in H. destruct H as [A B]. apply Z.leb_le in A. tauto. Qed.
Lemma floc_mk M U b : bstart b <= M -> forallb (eb (bstart b) (bend b) U) (bik b) = true -> floc M U b = true.
Proof. intros A B. unfold floc. rewrite B. replace (bstart b <=? M) with true by (symmetry; apply Z.leb_le; exact A). apply orb_true_r. Qed.

Lemma floc_mono M U M' U' b : M <= M' -> U <= U' -> floc M U b = true -> floc M' U' b = true.
Proof.
  intros HM HU H. destruct (exK (bkind b)) eqn:E; [apply floc_ex, E|]. destruct (floc_nex M U b E H) as [A B]. apply floc_mk; [lia|].
  rewrite forallb_forall in *. intros u Hu. eapply eb_mono; [exact HU|apply B, Hu].
Qed.
Lemma Fb_mono M U M' U' : M <= M' -> U <= U' -> forall b, Fb M U b = true -> Fb M' U' b = true.
Proof.
  intros HM HU. fix IH 1. intros b H. apply Fb_parts in H. destruct H as (A & C). apply Fb_mk; [eapply floc_mono; eassumption|].
  destruct b as [K s e bk ik a n c l lb]. cbn [bkids] in *. unfold FbL in *. clear A.
  induction bk as [|k r IHr]; [reflexivity|]. cbn [forallb] in *. apply andb_true_iff in C. destruct C as [C1 C2].
  rewrite (IH k C1). apply IHr, C2.
Qed.
Lemma FbL_app M U a b : FbL M U (a ++ b) = FbL M U a && FbL M U b. Proof. apply forallb_app. Qed.

Lemma floc_ext M U b b' : bkind b' = bkind b -> bstart b' = bstart b -> bend b' = bend b -> bik b' = bik b -> floc M U b' = floc M U b.
Proof. intros A B C D. unfold floc. rewrite A, B, C, D. reflexivity. Qed.
Lemma Fb_ext M U b b' : bkind b' = bkind b -> bstart b' = bstart b -> bend b' = bend b -> bik b' = bik b -> bkids b' = bkids b -> Fb M U b' = Fb M U b.
Proof. intros A B C D E. rewrite !Fb_eq, E, (floc_ext M U b b' A B C D). reflexivity. Qed.

Lemma Fb_set_bkids M U b ks : Fb M U b = true -> FbL M U ks = true -> Fb M U (set_bkids b ks) = true.
Proof.
  intros H Hk. apply Fb_parts in H. destruct H as [H _]. apply Fb_mk; [|destruct b; exact Hk].
  rewrite (floc_ext M U b) by (destruct b; reflexivity). exact H.
Qed.
Lemma Fb_set_lastBlocks M U b c repl : lastBlock b = Some c -> Fb M U b = true -> FbL M U repl = true -> Fb M U (set_lastBlocks b repl) = true.
Proof.
  intros El H Hr. unfold set_lastBlocks. apply Fb_set_bkids; [exact H|]. apply Fb_parts in H. destruct H as [_ H].
  rewrite (lastBlock_split' b c El), FbL_app in H. apply andb_true_iff in H. destruct H as [H _]. rewrite FbL_app, H, Hr. reflexivity.
Qed.
Lemma Fb_lastBlock M U b c : lastBlock b = Some c -> Fb M U b = true -> Fb M U c = true.
Proof.
  intros El H. apply Fb_parts in H. destruct H as (_ & C). rewrite (lastBlock_split' b c El), FbL_app in C.
  apply andb_true_iff in C. destruct C as [_ C]. cbn [FbL forallb] in C. rewrite andb_true_r in C. exact C.
Qed.
Lemma Fb_updAt_at M U g : forall d b, Fb M U b = true -> (forall x, getAt d b = Some x -> Fb M U x = true -> Fb M U (g x) = true) ->
  Fb M U (updAt d g b) = true.
Proof.
  induction d as [|d IH]; intros b H Hg; [apply Hg; [reflexivity|exact H]|]. cbn [updAt].
  destruct (lastBlock b) as [c|] eqn:El; [|exact H].
  apply (Fb_set_lastBlocks M U b c _ El H). cbn [FbL forallb]. rewrite andb_true_r.
  apply IH; [eapply Fb_lastBlock; eassumption|]. intros x Hx. apply Hg. cbn [getAt]. rewrite El. exact Hx.
Qed.
Lemma Fb_updAt M U g : (forall x, Fb M U x = true -> Fb M U (g x) = true) -> forall d b, Fb M U b = true -> Fb M U (updAt d g b) = true.
Proof. intros Hg d b H. apply Fb_updAt_at; [exact H|intros x _; apply Hg]. Qed.
