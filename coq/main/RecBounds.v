From Coq Require Import List ZArith Lia Bool.
Import ListNotations.
Require Import Base Recog Rec16 Rec17 Rec18.
Open Scope Z_scope.

(* index bounds of the recognizers' answers *)
Lemma tb_bound : forall l i n want e, 0 <= i -> e <= i -> tb_loop l i n want e <= i + len l.
Proof.
  induction l as [|b r IH]; intros i n want e Hi He.
  - cbn [tb_loop]. unfold len. cbn. destruct (n <? 3); lia.
  - cbn [tb_loop]. rewrite len_cons. pose proof (len_nonneg r).
    destruct (_ || _ || _).
    + destruct (n =? 0); [specialize (IH (i + 1) 1 b (i + 1)); lia|]. destruct (b =? want); [specialize (IH (i + 1) (n + 1) want (i + 1)); lia|lia].
    + destruct (isSpaceTabOrLineEnding b); [specialize (IH (i + 1) n want e); lia|lia].
Qed.
Lemma parseThematicBreak_le l : parseThematicBreak l <= len l.
Proof. unfold parseThematicBreak. pose proof (tb_bound l 0 0 0 0 ltac:(lia) ltac:(lia)). lia. Qed.

Lemma atx_scanBack_bound line start : forall fuel e, start <= e -> start <= fst (atx_scanBack fuel line start e) <= e.
Proof.
  induction fuel as [|f IH]; intros e He; [cbn; lia|]. cbn [atx_scanBack].
  destruct (Z.leb_spec e start); [cbn; lia|]. cbv zeta.
  destruct (_ || _); [specialize (IH (e - 1) ltac:(lia)); lia|].
  destruct (isSpTab _); [destruct (isEndEscaped _); [cbn; lia|specialize (IH (e - 1) ltac:(lia)); lia]|].
  destruct (_ =? 35); cbn; lia.
Qed.
Lemma atx_trailing_bound line start : forall fuel i, start - 1 <= i ->
  let r := atx_trailing fuel line start i in snd r = 0 \/ (start <= fst r <= i + 1 \/ fst r = start).
Proof.
  induction fuel as [|f IH]; intros i Hi; [right; right; reflexivity|]. cbn [atx_trailing].
  destruct (Z.ltb_spec i start); [right; right; reflexivity|]. cbv zeta.
  destruct (_ =? 35).
  - specialize (IH (i - 1) ltac:(lia)). cbv zeta in IH. destruct IH as [A|[A|A]]; [left; exact A|right; left; lia|right; right; exact A].
  - destruct (isSpTab _); [right; left; cbn; lia|left; reflexivity].
Qed.
Lemma atx_trim_bound line start : forall fuel e, start <= e -> start <= atx_trim fuel line start e <= e.
Proof.
  induction fuel as [|f IH]; intros e He; [cbn; lia|]. cbn [atx_trim].
  destruct (Z.leb_spec e start); [lia|]. cbv zeta. destruct (_ || _); [lia|]. specialize (IH (e - 1) ltac:(lia)). lia.
Qed.

Lemma atx_bounds l lv cs ce : parseATXHeading l = (lv, cs, ce) -> 1 <= lv ->
  0 <= cs <= ce /\ ce <= len l /\ (cs < len l -> cs < ce -> isSpTab (at_ l cs) = false).
Proof.
  unfold parseATXHeading. cbv zeta. intros H Hlv.
  destruct (countWhile_spec (fun c => c =? 35) l) as (C1 & _ & _). remember (countWhile (fun c => c =? 35) l) as level eqn:Elv.
  destruct ((level =? 0) || (6 <? level)); [injection H as <- <- <-; lia|].
  destruct ((len l <=? level) || (at_ l level =? 10) || (at_ l level =? 13)); [injection H as <- <- <-; repeat split; try lia|].
  destruct (negb (isSpTab (at_ l level))) eqn:Esp; [injection H as <- <- <-; lia|].
  assert (Hlt : level < len l).
  { apply negb_false_iff in Esp. unfold at_ in Esp. destruct (level <? 0); [discriminate|].
    destruct (Z.lt_ge_cases level (len l)); [assumption|]. rewrite nth_overflow in Esp by (unfold len in *; lia). discriminate. }
  destruct (countWhile_spec isSpTab (from_ l (level + 1))) as (D1 & _ & D3). rewrite len_from in D1, D3 by lia.
  remember (countWhile isSpTab (from_ l (level + 1))) as k eqn:Ek. remember (level + 1 + k) as start eqn:Est.
  assert (Hst : 0 <= start <= len l) by lia.
  assert (Hns : start < len l -> isSpTab (at_ l start) = false).
  { intros Hl. specialize (D3 ltac:(lia)). rewrite at_from in D3 by lia. rewrite Est. exact D3. }
  pose proof (atx_scanBack_bound l start (S (length l)) (len l) ltac:(lia)) as S1.
  destruct (atx_scanBack (S (length l)) l start (len l)) as [e1 hit]. cbn [fst] in S1.
  destruct (negb hit); [injection H as <- <- <-; repeat split; try lia; intros; apply Hns; lia|].
  pose proof (atx_trailing_bound l start (S (length l)) (e1 - 1) ltac:(lia)) as T1. cbv zeta in T1.
  destruct (atx_trailing (S (length l)) l start (e1 - 1)) as [e2 mode]. cbn [fst snd] in T1.
  destruct (Z.eqb_spec mode 0); [injection H as <- <- <-; repeat split; try lia; intros; apply Hns; lia|].
  assert (He2 : start <= e2 <= e1) by (destruct T1 as [A|[A|A]]; lia).
  pose proof (atx_trim_bound l start (S (length l)) e2 ltac:(lia)) as R1.
  remember (atx_trim (S (length l)) l start e2) as tr eqn:Etr. clear Etr.
  injection H as <- <- <-. repeat split; try lia. intros; apply Hns; lia.
Qed.

Lemma parseListMarker_le l d n e : parseListMarker l = (d, n, e) -> e <= len l.
Proof.
  intros H. destruct (Z.lt_ge_cases e 0) as [L|L]; [pose proof (len_nonneg l); lia|].
  pose proof (parseListMarker_sound l d n e H L) as S. destruct S as [c rest Hc Hs|ds d rest Hl Hd Hdl Hs].
  - rewrite len_cons. pose proof (len_nonneg rest). lia.
  - rewrite len_app, len_cons. pose proof (len_nonneg rest). lia.
Qed.
Lemma parseCodeFence_bounds l c n is_ ie : parseCodeFence l = (c, n, is_, ie) -> 0 < n -> 0 <= is_ ->
  n <= is_ /\ is_ < ie /\ ie <= len l /\ isSpaceTabOrLineEnding (at_ l is_) = false.
Proof.
  intros H Hn Hi. destruct (parseCodeFence_sound l c n is_ ie H Hn) as (_ & _ & _ & _ & [(E & _)|(A & B & C & _ & D & _)]); [lia|].
  repeat split; assumption.
Qed.
Print Assumptions atx_bounds.
