From Coq Require Import List ZArith Lia Bool.
Import ListNotations.
Require Import Base Tables Utf8 Tree Rdr Link Collect Html Recog Inl3a Inl3b Inl3c Inl3d Inl3e Leaf3a Leaf3e RdrBound.
Require Import SpanForest SpanIds SpanStack SpanEmph SpanSmall SpanTok SpanRdr.
Open Scope Z_scope.

(* ================================================================================================
   Layer 4, part 2: collectTextNodes yields an ordered chain of good nodes inside [start, e].
   ================================================================================================ *)
Section Col.
  Variables (src : bytes) (U : list inline) (lo hi : Z).
  Hypothesis HEC : EC src U lo hi.
  Notation nU := (nthU U).
  Notation P := (SpanRdr.P src U).
  Notation AliveAt := (SpanRdr.AliveAt src U).
  Notation Off := (SpanRdr.Off src U).
  Notation RS := (SpanRdr.RS src U).
  Notation foc := (SpanRdr.foc U).
  Notation byteAt := (SpanRdr.byteAt src U).

  (* walking n bytes inside one non-Indent entry *)
  Lemma nextN_inside : forall n r k, AliveAt r k -> ikind (nU k) <> IndentKind -> r_pos r + Z.of_nat n < iend (nU k) -> 0 <= r_vpos r ->
    AliveAt (nextN n r) k /\ r_pos (nextN n r) = r_pos r + Z.of_nat n /\ 0 <= r_vpos (nextN n r) /\ (n <> O -> r_prev (nextN n r) = r_pos r + Z.of_nat n - 1).
  Proof.
    induction n as [|n IH]; intros r k A Ni Hp Hv; cbn [nextN].
    - split; [exact A|]. split; [lia|]. split; [exact Hv|]. intros X; contradiction.
    - pose proof (alive_pos src U lo hi HEC r k A) as (A1 & A2 & _).
      destruct (next_alive src U lo hi HEC r k A) as (_ & Epv & [(X & Y & [[Z _]|[_ Z]])|[(X & Hk & Ep & [Hl|Hl] & Y)|(X & Hk & Y & Ep & EP & [Hl|Hl])]]); try contradiction; try lia.
      pose proof (vpos_next r Hv) as Hv'.
      destruct (IH (snd (next r)) k Y Ni ltac:(lia) Hv') as (I1 & I2 & I3 & I4).
      split; [exact I1|]. split; [lia|]. split; [exact I3|]. intros _. destruct n as [|n]; [cbn [nextN]; lia|]. rewrite I4 by discriminate. lia.
  Qed.

  Lemma vpos_skipSame : forall fuel r node, 0 <= r_vpos r -> 0 <= r_vpos (skipSameNode fuel r node).
  Proof.
    induction fuel as [|f IH]; intros r node Hv; [exact Hv|]. cbn [skipSameNode].
    pose proof (vpos_next r Hv) as H1. destruct (next r) as [ok r1]. cbn [snd] in H1. destruct (negb ok); [exact H1|].
    pose proof (vpos_curNode r1) as H2. destruct (curNode r1) as [[m|] r2]; cbn [snd] in H2; [|lia].
    destruct (_ && _); [apply IH; lia|lia].
  Qed.

  (* a reader that reads a non-blank byte stands in a non-Indent entry *)
  Lemma alive_nonindent r k : AliveAt r k -> isSpaceTabOrLineEnding (fst (current r)) = false -> ikind (nU k) <> IndentKind.
  Proof.
    intros A Nw Ei. rewrite (current_alive src U lo hi HEC r k A) in Nw. cbn [fst] in Nw. unfold SpanRdr.byteAt in Nw.
    apply Z.eqb_eq in Ei. rewrite Ei in Nw. discriminate.
  Qed.

  Section Loop.
    Variables (tk : Z) (esc : bool) (e a0 : Z).
    Hypothesis Hent : esc = true -> forall k, 0 <= k < len U -> ikind (nU k) <> IndentKind -> istart (nU k) <= e < iend (nU k) -> entChar (at_ src e) = false.
    Hypothesis Ha0 : 0 <= a0.

    Definition Res (acc : list inline) (ps : Z) : Prop := exists ce, okF a0 ce (kidsOf acc) /\ ce <= ps /\ ce <= e.
    Definition CI (fuel : nat) (r : reader) (ps : Z) (acc : list inline) : Prop :=
      RS false r /\ 0 <= r_vpos r /\ r_prev r < r_pos r /\ ps <= r_pos r /\ (ps = r_pos r \/ ps <= r_prev r + 1) /\
      Res acc ps /\ (Z.to_nat (P - r_pos r) + 4 <= fuel)%nat.

    Lemma Res_ps acc ps : Res acc ps -> a0 <= ps.
    Proof. intros (ce & A & B & C). pose proof (okF_le _ _ _ A). lia. Qed.

    Lemma collect_loop_ok : forall fuel r ps acc, CI fuel r ps acc ->
      Res (fst (collect_loop fuel r e tk esc ps acc)) (snd (collect_loop fuel r e tk esc ps acc)).
    Proof.
      induction fuel as [|f IH]; intros r ps acc (HR & Hv & Hpv & Hps & Hpp & HRes & Hf); [exact HRes|].
      cbn [collect_loop].
      destruct (Z.leb_spec e (r_pos r)) as [Le|Le]; [exact HRes|].
      pose proof (Res_ps _ _ HRes) as Hps0.
      (* the common tail *)
      assert (Htail : forall r' ps' acc', RS false r' -> 0 <= r_vpos r' ->
                ((exists k, AliveAt r' k /\ ikind (nU k) <> IndentKind) \/ Off r') -> ps' <= r_pos r' -> Res acc' ps' ->
                (Z.to_nat (P - r_pos r') + 4 <= S f)%nat ->
                Res (fst (if e <=? r_pos r' then (acc', ps') else
                          let '(ok, r1) := next r' in
                          if negb ok then (acc', ps') else
                          if jumped r1 then collect_loop f r1 e tk esc (r_pos r1)
                                              (if ps' <=? r_prev r1 then acc' ++ [mkI tk ps' (r_prev r1 + 1)] else acc')
                          else collect_loop f r1 e tk esc ps' acc'))
                    (snd (if e <=? r_pos r' then (acc', ps') else
                          let '(ok, r1) := next r' in
                          if negb ok then (acc', ps') else
                          if jumped r1 then collect_loop f r1 e tk esc (r_pos r1)
                                              (if ps' <=? r_prev r1 then acc' ++ [mkI tk ps' (r_prev r1 + 1)] else acc')
                          else collect_loop f r1 e tk esc ps' acc'))).
      { intros r' ps' acc' HR' Hv' Hcl Hps' HRes' Hf'.
        destruct (Z.leb_spec e (r_pos r')) as [Hpe|Hpe]; [exact HRes'|].
        destruct (RS_next src U lo hi HEC false r' HR') as (N1 & N2 & N3 & N4).
        pose proof (vpos_next r' Hv') as Hv1.
        destruct Hcl as [(k & A & Ni)|HO].
        2:{ destruct (next_off src U r' HO) as (X & _). destruct (next r') as [ok r1]. cbn [fst] in X. subst ok. exact HRes'. }
        pose proof (RS_next_strict src U lo hi HEC r' k A Ni) as Hst.
        pose proof (alive_pos src U lo hi HEC r' k A) as (A1 & A2 & A3 & A4 & A5).
        destruct (next r') as [ok r1]. cbn [fst snd] in *. destruct ok; cbn [negb]; [|exact HRes'].
        destruct (N3 eq_refl) as (M1 & M2 & M3 & _). specialize (Hst eq_refl).
        destruct HRes' as (ce & C1 & C2 & C3).
        destruct (jumped r1) eqn:Ej.
        - apply jumped_true in Ej.
          apply IH. split; [exact N1|]. split; [exact Hv1|]. split; [lia|]. split; [lia|]. split; [left; reflexivity|]. split; [|lia].
          replace (ps' <=? r_prev r1) with true by (symmetry; apply Z.leb_le; lia).
          exists (r_prev r1 + 1). split; [apply (kids_text a0 acc' ce); [exact C1|exact C2|pose proof (okF_le _ _ _ C1); lia|lia]|lia].
        - apply jumped_false in Ej. apply IH. split; [exact N1|]. split; [exact Hv1|]. split; [lia|]. split; [lia|]. split; [right; lia|].
          split; [exists ce; tauto|lia]. }
      destruct HR as ([(k & A)|[HO _]] & HB1 & HB2).
      2:{ (* off the entries: the reader cannot move *)
          rewrite (curNode_off src U r HO). cbn [okind]. change (0 =? IndentKind) with false. change (0 =? UnparsedKind) with false. rewrite andb_false_r. cbv iota.
          match goal with |- context [if e <=? ?x then _ else _] => destruct (e <=? x) end; [exact HRes|]. fold (SpanRdr.dead r).
          destruct (next_off src U (SpanRdr.dead r) (Off_dead src U r HO)) as (X & _).
          destruct (next (SpanRdr.dead r)) as [ok r1]. cbn [fst] in X. subst ok. exact HRes. }
      pose proof (alive_pos src U lo hi HEC r k A) as (A1 & A2 & A3 & A4 & A5).
      pose proof (AliveAt_foc src U r k A) as A'.
      rewrite (curNode_alive src U lo hi HEC r k A). cbn [okind]. fold (foc r k).
      destruct (ec_kind _ _ _ _ HEC k A2) as [Ek|Ek]; rewrite Ek.
      2:{ (* an Indent entry is copied whole *)
          change (IndentKind =? IndentKind) with true. cbv iota. cbn [r_pos r_prev SpanRdr.foc].
          pose proof (ec_width _ _ _ _ HEC k A2 Ek) as Hw. pose proof (ec_indent _ _ _ _ HEC k A2 Ek) as Hi.
          destruct (skipSame_spec src U lo hi HEC (S f) (foc r k) k A' Ek ltac:(cbn [r_vpos SpanRdr.foc]; lia) ltac:(cbn [r_vpos SpanRdr.foc]; lia)) as (S1 & S2 & S3).
          cbn [r_pos SpanRdr.foc] in S3.
          apply IH. split; [exact S1|]. split; [apply vpos_skipSame; cbn [r_vpos SpanRdr.foc]; exact Hv|]. split; [lia|]. split; [lia|]. split; [left; reflexivity|].
          split; [|lia].
          destruct (entry_bounds U lo hi (ec_ok _ _ _ _ HEC) k A2) as (_ & _ & _ & Hok).
          destruct HRes as (ce & C1 & C2 & C3). exists (iend (nU k)). split; [|lia].
          destruct (Z.ltb_spec ps (r_pos r)) as [Lp|Lp].
          - apply (kids_snoc a0 _ (r_prev r + 1)); [|lia|exact Hok]. apply (kids_text a0 acc ce); [exact C1|exact C2|lia|lia].
          - apply (kids_snoc a0 _ ce); [exact C1|lia|exact Hok]. }
      change (UnparsedKind =? IndentKind) with false. change (UnparsedKind =? UnparsedKind) with true. rewrite andb_true_r. cbv iota.
      assert (Nk : ikind (nU k) <> IndentKind) by (rewrite Ek; discriminate).
      assert (HRf : RS false (foc r k)) by (split; [left; exists k; exact A'|cbn [r_prev SpanRdr.foc]; lia]).
      assert (Htail0 : forall r', AliveAt r' k -> r_pos r' = r_pos r -> r_prev r' = r_prev r -> r_vpos r' = r_vpos r ->
                Res (fst (if e <=? r_pos r' then (acc, ps) else
                          let '(ok, r1) := next r' in
                          if negb ok then (acc, ps) else
                          if jumped r1 then collect_loop f r1 e tk esc (r_pos r1) (if ps <=? r_prev r1 then acc ++ [mkI tk ps (r_prev r1 + 1)] else acc)
                          else collect_loop f r1 e tk esc ps acc))
                    (snd (if e <=? r_pos r' then (acc, ps) else
                          let '(ok, r1) := next r' in
                          if negb ok then (acc, ps) else
                          if jumped r1 then collect_loop f r1 e tk esc (r_pos r1) (if ps <=? r_prev r1 then acc ++ [mkI tk ps (r_prev r1 + 1)] else acc)
                          else collect_loop f r1 e tk esc ps acc))).
      { intros r' Ar Ep Epv Evv. apply Htail; try lia.
        - split; [left; exists k; exact Ar|lia].
        - left. exists k. tauto.
        - exact HRes. }
      destruct esc; [|apply (Htail0 (foc r k)); [exact A'|reflexivity|reflexivity|reflexivity]].
      (* escapes *)
      rewrite (current_alive src U lo hi HEC (foc r k) k A'). pose proof (AliveAt_foc src U (foc r k) k A') as A''.
      set (r1 := foc (foc r k) k) in *.
      assert (Eb : byteAt (foc r k) k = if at_ src (r_pos r) =? 0 then nullRepl (r_vpos r) else at_ src (r_pos r)).
      { unfold SpanRdr.byteAt. rewrite Ek. reflexivity. }
      destruct (Z.eqb_spec (byteAt (foc r k) k) 92) as [E92|N92].
      - (* backslash *)
        assert (Es92 : at_ src (r_pos r) = 92).
        { rewrite Eb in E92. destruct (at_ src (r_pos r) =? 0); [|exact E92]. unfold nullRepl in E92. destruct (_ =? 0); [discriminate|]. destruct (_ =? 1); discriminate. }
        assert (HR1 : RS false r1) by (split; [left; exists k; exact A''|cbn; lia]).
        destruct (RS_next src U lo hi HEC false r1 HR1) as (N1 & N2 & N3 & N4).
        pose proof (vpos_next r1 ltac:(cbn; lia)) as Hv2.
        pose proof (RS_next_strict src U lo hi HEC r1 k A'' Nk) as Hst.
        destruct (next_alive src U lo hi HEC r1 k A'') as (_ & Epv & Hcases).
        destruct (next r1) as [ok r2] eqn:En. cbn [fst snd] in *.
        destruct ok.
        + destruct (N3 eq_refl) as (M1 & M2 & M3 & _). specialize (Hst eq_refl). cbn [r_pos SpanRdr.foc r1] in M2, Hst.
          (* the byte after a backslash lies in the same entry: an entry does not end with a backslash unless it is the last *)
          assert (A2k : AliveAt r2 k /\ r_pos r2 = r_pos r + 1).
          { destruct Hcases as [(_ & Y & [[Z _]|[_ Z]])|[(_ & Hk & Ep & [Hl|Hl] & _)|(X & _)]]; try contradiction; try discriminate.
            - split; [exact Y|exact Z].
            - exfalso. cbn [r_pos SpanRdr.foc r1] in Hl. destruct (ec_eol _ _ _ _ HEC k ltac:(lia) Hk) as (_ & He). specialize (He Nk).
              replace (iend (nU k) - 1) with (r_pos r) in He by lia. rewrite Es92 in He. discriminate. }
          destruct A2k as [A2k Ep2].
          cbn [andb]. destruct ((r_pos r2 <? e) && isASCIIPunctuation (cur r2)) eqn:Ec.
          * apply andb_true_iff in Ec. destruct Ec as [Ec1 Ec2]. apply Z.ltb_lt in Ec1.
            assert (Nw2 : isSpaceTabOrLineEnding (fst (current r2)) = false).
            { unfold cur in Ec2. destruct (fst (current r2)) as [|p|p]; try discriminate. revert Ec2. unfold isASCIIPunctuation, isSpaceTabOrLineEnding.
              destruct (Z.eqb_spec (Z.pos p) 32) as [->|]; [discriminate|]. destruct (Z.eqb_spec (Z.pos p) 9) as [->|]; [discriminate|].
              destruct (Z.eqb_spec (Z.pos p) 10) as [->|]; [discriminate|]. destruct (Z.eqb_spec (Z.pos p) 13) as [->|]; [discriminate|]. reflexivity. }
            destruct HRes as (ce & C1 & C2 & C3).
            apply Htail; try lia.
            -- exact N1.
            -- left. exists k. tauto.
            -- rewrite M2. cbn [r_pos SpanRdr.foc r1].
               destruct (Z.ltb_spec ps (r_pos r)) as [Lp|Lp].
               ++ exists (r_pos r). split; [apply (kids_text a0 acc ce); [exact C1|exact C2|lia|lia]|lia].
               ++ exists ce. split; [exact C1|lia].
          * (* no escape: the tail may start at e itself, where it stops (repair of defect D23) *)
            apply Htail; try lia.
            -- exact N1.
            -- left. exists k. tauto.
            -- exact HRes.
        + cbn [andb]. (* the reader is exhausted *)
          destruct Hcases as [(X & _)|[(X & _)|(_ & _ & Y & _)]]; try discriminate.
          destruct (e <=? r_pos r2); [exact HRes|].
          destruct (next_off src U r2 Y) as (X & _). destruct (next r2) as [ok r3]. cbn [fst] in X. subst ok. exact HRes.
      - destruct (Z.eqb_spec (byteAt (foc r k) k) 38) as [E38|N38]; [|apply (Htail0 r1); [exact A''|reflexivity|reflexivity|reflexivity]].
        (* character reference *)
        rewrite (remaining_alive src U lo hi HEC r1 k A''). cbn [r_pos SpanRdr.foc r1].
        set (rem := sub src (r_pos r) (iend (nU k))). fold (foc r1 k). pose proof (AliveAt_foc src U r1 k A'') as Af3.
        destruct (Z.leb_spec 0 (parseCharacterEscape rem)) as [Len|Len]; [|apply (Htail0 (foc r1 k)); [exact Af3|reflexivity|reflexivity|reflexivity]].
        pose proof (parseCharacterEscape_bounds rem Len) as Hb.
        pose proof (ec_hi _ _ _ _ HEC) as Hhi. destruct (eb src U lo hi HEC k A2) as (B1 & B2 & B3).
        assert (Hlr : len rem = iend (nU k) - r_pos r) by (apply len_sub; lia).
        set (en := parseCharacterEscape rem) in *.
        (* the reference ends at or before e *)
        assert (Hen : r_pos r + en <= e).
        { destruct (Z.le_gt_cases (r_pos r + en) e) as [X|X]; [exact X|]. exfalso.
          pose proof (parseCharacterEscape_chars rem Len (e - r_pos r) ltac:(fold en; lia)) as Hc.
          unfold rem in Hc. rewrite at_sub in Hc by lia. replace (r_pos r + (e - r_pos r)) with e in Hc by lia.
          rewrite (Hent eq_refl k A2 Nk ltac:(lia)) in Hc. discriminate. }
        destruct (nextN_inside (Z.to_nat (en - 1)) (foc r1 k) k Af3 Nk ltac:(cbn [r_pos SpanRdr.foc r1]; lia) ltac:(cbn; lia)) as (Q1 & Q2 & Q3 & Q4).
        cbn [r_pos SpanRdr.foc r1] in Q2, Q4. set (r3 := nextN (Z.to_nat (en - 1)) (foc r1 k)) in *.
        pose proof (P_ge src U lo hi HEC k A2) as Pg.
        assert (HR3 : RS false r3).
        { split; [left; exists k; exact Q1|]. destruct (Z.eq_dec en 1) as [E1|N1]; [|rewrite Q4 by lia; lia].
          unfold r3. replace (Z.to_nat (en - 1)) with O by lia. cbn [nextN r_prev SpanRdr.foc r1]. lia. }
        destruct (RS_next src U lo hi HEC false r3 HR3) as (N1 & N2 & N3 & N4).
        pose proof (vpos_next r3 Q3) as Hv4. pose proof (RS_next_strict src U lo hi HEC r3 k Q1 Nk) as Hst.
        destruct HRes as (ce & C1 & C2 & C3).
        assert (HRes2 : Res ((if ps <? r_pos r then acc ++ [mkI tk ps (r_pos r)] else acc) ++ [mkI CharacterReferenceKind (r_pos r) (r_pos r + en)]) (r_pos r + en)).
        { exists (r_pos r + en). split; [|lia]. destruct (Z.ltb_spec ps (r_pos r)) as [Lp|Lp].
          - apply (kids_text a0 _ (r_pos r)); [|lia|lia|lia]. apply (kids_text a0 acc ce); [exact C1|exact C2|lia|lia].
          - apply (kids_text a0 acc ce); [exact C1|lia|lia|lia]. }
        destruct (next r3) as [ok r4]. cbn [fst snd] in *. destruct ok; cbn [negb]; [|exact HRes2].
        destruct (N3 eq_refl) as (M1 & M2 & M3 & _). specialize (Hst eq_refl).
        apply IH. split; [exact N1|]. split; [exact Hv4|]. split; [lia|]. split; [lia|]. split; [right; lia|]. split; [exact HRes2|lia].
    Qed.
  End Loop.

  Lemma collect_okF fuel r e tk esc : RS false r -> 0 <= r_vpos r -> r_prev r < r_pos r -> (Z.to_nat (P - r_pos r) + 4 <= fuel)%nat ->
    (esc = true -> forall k, 0 <= k < len U -> ikind (nU k) <> IndentKind -> istart (nU k) <= e < iend (nU k) -> entChar (at_ src e) = false) ->
    forall lo2 hi2, lo2 <= r_pos r -> e <= hi2 -> lo2 <= hi2 -> okF lo2 hi2 (kidsOf (collectTextNodes fuel r e tk esc)).
  Proof.
    intros HR Hv Hpv Hf Hent lo2 hi2 H1 H2 H3. unfold collectTextNodes.
    pose proof (RS_pos0 src U lo hi HEC false r HR) as Hp0.
    destruct (Z.le_gt_cases (r_pos r) e) as [Le|Le].
    - pose proof (collect_loop_ok tk esc e (r_pos r) Hent Hp0 fuel r (r_pos r) []) as H.
      destruct (collect_loop fuel r e tk esc (r_pos r) []) as [acc ps]. cbn [fst snd] in H.
      destruct H as (ce & C1 & C2 & C3).
      { split; [exact HR|]. split; [exact Hv|]. split; [exact Hpv|]. split; [lia|]. split; [left; reflexivity|]. split; [|exact Hf].
        exists (r_pos r). split; [cbn; lia|lia]. }
      pose proof (okF_le _ _ _ C1) as V.
      destruct (Z.ltb_spec ps e) as [L|L].
      + eapply okF_weaken; [apply (kids_text (r_pos r) acc ce tk ps e); [exact C1|exact C2|lia|lia]|lia|lia].
      + eapply okF_weaken; [exact C1|lia|lia].
    - destruct fuel as [|f]; [lia|]. cbn [collect_loop]. destruct (Z.leb_spec e (r_pos r)); [|lia].
      destruct (Z.ltb_spec (r_pos r) e); [lia|]. cbn. exact H3.
  Qed.

  Lemma collect_new_okF fuel j a e tk esc : RS false (newReader src (from_ U j) a) -> (Z.to_nat P + 4 <= fuel)%nat ->
    (esc = true -> forall k, 0 <= k < len U -> ikind (nU k) <> IndentKind -> istart (nU k) <= e < iend (nU k) -> entChar (at_ src e) = false) ->
    forall lo2 hi2, lo2 <= a -> e <= hi2 -> lo2 <= hi2 ->
    okF lo2 hi2 (kidsOf (collectTextNodes fuel (newReader src (from_ U j) a) e tk esc)).
  Proof.
    intros HR Hf Hent lo2 hi2 H1 H2 H3.
    pose proof (RS_pos0 src U lo hi HEC false _ HR) as Hp0. cbn [r_pos newReader] in Hp0.
    apply collect_okF; try assumption; cbn [r_vpos r_prev r_pos newReader]; lia.
  Qed.
End Col.
