(* ChkF2.v -- T30 follow-up: Fb through the onClose handlers and closeBlock. *)
From Coq Require Import List ZArith Lia Bool.
Import ListNotations.
Require Import Base Tree Rdr Link Collect Html Recog LP Rules Starts Driver L2Kind2 ShapesBase ChkW1 ChkW2 ChkE1 ChkE2 ChkF1.
Open Scope Z_scope.

Lemma FbL_map M U g : (forall c, Fb M U (g c) = Fb M U c) -> forall l, FbL M U (map g l) = FbL M U l.
Proof. intros Hg. unfold FbL. induction l as [|k r IH]; [reflexivity|]. cbn [map forallb]. rewrite Hg, IH. reflexivity. Qed.
Lemma Fb_set_bloose M U b v : Fb M U (set_bloose b v) = Fb M U b. Proof. apply Fb_ext; destruct b; reflexivity. Qed.
Lemma Fb_onCloseList M U b : Fb M U (onCloseList b) = Fb M U b.
Proof.
  unfold onCloseList. cbv zeta. destruct (bloose b || _); [|reflexivity].
  rewrite (Fb_eq M U b), Fb_eq. destruct b as [K s e bk ik a n c l lb]. unfold floc. cbn [set_bkids set_bloose bkind bstart bend bik bkids].
  rewrite (FbL_map M U _ (fun c => Fb_set_bloose M U c true)). reflexivity.
Qed.
Lemma Fb_set_bik_sub M U b ik : Fb M U b = true -> (forall x, In x ik -> In x (bik b)) -> Fb M U (set_bik b ik) = true.
Proof.
  intros H Hs. apply Fb_parts in H. destruct H as (A & C). apply Fb_mk; [|destruct b; exact C].
  destruct (exK (bkind b)) eqn:E; [apply floc_ex; destruct b; exact E|]. destruct (floc_nex M U b E A) as [A1 A2].
  apply floc_mk; [destruct b; exact A1|].
  replace (bstart (set_bik b ik)) with (bstart b) by (destruct b; reflexivity). replace (bend (set_bik b ik)) with (bend b) by (destruct b; reflexivity).
  replace (bik (set_bik b ik)) with ik by (destruct b; reflexivity). rewrite forallb_forall in *. intros u Hu. apply A2, Hs, Hu.
Qed.

(* onCloseParagraph: every block of the result is a definition, the cut paragraph or the orphan: all carry no condition *)
Lemma Fb_ex M U b : exK (bkind b) = true -> FbL M U (bkids b) = true -> Fb M U b = true.
Proof. intros A B. apply Fb_mk; [apply floc_ex, A|exact B]. Qed.
Lemma FbL_snoc M U l k : FbL M U l = true -> Fb M U k = true -> FbL M U (l ++ [k]) = true.
Proof. intros A B. rewrite FbL_app, A. cbn [FbL forallb]. rewrite B. reflexivity. Qed.
Lemma ocp_F M U : forall fuel rfuel s0 orig orphan r result,
  Fb M U orig = true -> (forall pos ik, Fb M U (set_bik (set_bstart orig pos) ik) = true) ->
  (forall o, orphan = Some o -> Fb M U o = true) -> FbL M U result = true ->
  FbL M U (ocp_loop fuel rfuel s0 orig orphan r result) = true.
Proof.
  induction fuel as [|f IH]; intros rfuel s0 orig orphan r result Ho Hc Horph Hres.
  - cbn [ocp_loop]. apply FbL_snoc; assumption.
  - assert (Hkeep : FbL M U (result ++ [orig]) = true) by (apply FbL_snoc; assumption).
    assert (Hsn : forall s e kids, FbL M U (result ++ [refDefBlock s e kids]) = true).
    { intros s e kids. apply FbL_snoc; [exact Hres|reflexivity]. }
    assert (Hwo : forall res, FbL M U res = true -> FbL M U (match orphan with Some o => res ++ [o] | None => res end) = true).
    { intros res A. destruct orphan as [o|]; [apply FbL_snoc; [exact A|apply Horph; reflexivity]|exact A]. }
    cbn [ocp_loop]. cbv zeta.
    destruct (parseLinkLabel rfuel r) as [[lspan linner] r1].
    destruct (negb (spanValid lspan)); [assumption|].
    destruct (current r1) as [c r2]. destruct (negb (c =? 58)); [assumption|].
    destruct (next r2) as [? r3]. destruct (skipLinkSpace rfuel r3) as [ok r4]. destruct (negb ok); [assumption|].
    destruct (parseLinkDestination rfuel r4) as [[dspan dtext] r5]. destruct (negb (spanValid dspan)); [assumption|].
    destruct (readEOL rfuel r5) as [destEOL r6]. destruct (current r6) as [c6 r7].
    destruct (_ && _ && _); [assumption|].
    set (labelInline := Inl LinkLabelKind _ _ 0 _ _). set (destInline := Inl LinkDestinationKind _ _ 0 [] _).
    pose proof (Hsn (fst lspan) destEOL [labelInline; destInline]) as H2.
    destruct (skipLinkSpace rfuel r7) as [ok2 r8]. destruct (negb ok2); [apply Hwo; assumption|].
    destruct (parseLinkTitle rfuel r8) as [[tspan ttext] r9].
    destruct (negb (spanValid tspan)).
    { destruct (destEOL <? 0); [assumption|]. destruct (_ <? 0); [apply Hwo; assumption|].
      apply IH; [apply Hc| |assumption|assumption]. intros pos ik. rewrite (Fb_ext M U (set_bik (set_bstart orig pos) ik)); [apply (Hc pos ik)|destruct orig; reflexivity..]. }
    destruct (readEOL rfuel r9) as [titleEOL r10].
    destruct (titleEOL <? 0).
    { destruct (destEOL <? 0); [assumption|]. destruct (_ <? 0); [apply Hwo; assumption|].
      rewrite app_assoc. apply FbL_snoc; [exact H2|apply Hc]. }
    set (titleInline := Inl LinkTitleKind _ _ 0 [] _).
    assert (H3 : FbL M U (result ++ [refDefBlock (fst lspan) titleEOL [labelInline; destInline; titleInline]]) = true) by (apply Hsn).
    destruct (_ <? 0); [apply Hwo; assumption|]. apply IH; [apply Hc| |assumption|assumption].
    intros pos ik. rewrite (Fb_ext M U (set_bik (set_bstart orig pos) ik)); [apply (Hc pos ik)|destruct orig; reflexivity..].
Qed.
Lemma F_onCloseParagraph M U s0 orig : exK (bkind orig) = true -> Fb M U orig = true -> FbL M U (onCloseParagraph s0 orig) = true.
Proof.
  intros Hk H. unfold onCloseParagraph. destruct (bik orig) as [|first rest] eqn:Eb0.
  - cbn [FbL forallb]. rewrite H. reflexivity.
  - cbv zeta. apply ocp_F; [exact H| | |reflexivity].
    + intros pos ik. apply Fb_ex; [destruct orig; exact Hk|]. apply Fb_parts in H. destruct orig; apply H.
    + intros o Ho. destruct (bkind orig =? SetextHeadingKind); [|discriminate]. injection Ho as <-. reflexivity.
Qed.

(* ---- closeBlock ---- *)
Lemma Fb_set_bend M U b e : isOpen b = true -> 0 <= e -> U <= e -> Fb M U b = true -> Fb M U (set_bend b e) = true.
Proof.
  intros Ho He HU H. apply Fb_parts in H. destruct H as (A & C). unfold isOpen in Ho. apply Z.ltb_lt in Ho.
  apply Fb_mk; [|destruct b; exact C].
  destruct (exK (bkind b)) eqn:E; [apply floc_ex; destruct b; exact E|]. destruct (floc_nex M U b E A) as [A1 A2].
  apply floc_mk; [destruct b; exact A1|].
  replace (bstart (set_bend b e)) with (bstart b) by (destruct b; reflexivity). replace (bend (set_bend b e)) with e by (destruct b; reflexivity).
  replace (bik (set_bend b e)) with (bik b) by (destruct b; reflexivity). rewrite forallb_forall in *. intros u Hu.
  apply (eb_close _ (bend b)); [exact Ho|exact He|exact HU|apply A2, Hu].
Qed.

Lemma F_closeTail M U s0 e f b1 : (forall c, Fb M U c = true -> FbL M U (closeBlock f s0 c e) = true) ->
  Fb M U b1 = true ->
  FbL M U (let closeLast (x : block) : block := match lastBlock x with Some c => set_lastBlocks x (closeBlock f s0 c e) | None => x end in
    if bkind b1 =? ListKind then [closeLast (onCloseList b1)]
    else if bkind b1 =? IndentedCodeBlockKind then [closeLast (onCloseIndented s0 b1)]
    else if (bkind b1 =? ParagraphKind) || (bkind b1 =? SetextHeadingKind) then onCloseParagraph s0 b1
    else [closeLast b1]) = true.
Proof.
  intros IH H1. cbv zeta.
  set (cl := fun x : block => match lastBlock x with Some c => set_lastBlocks x (closeBlock f s0 c e) | None => x end).
  assert (Hcl : forall y, Fb M U y = true -> Fb M U (cl y) = true).
  { intros y Hy. unfold cl. destruct (lastBlock y) as [c|] eqn:El; [|exact Hy].
    apply (Fb_set_lastBlocks M U y c _ El Hy). apply IH. eapply Fb_lastBlock; eassumption. }
  assert (Hone : forall x, Fb M U x = true -> FbL M U [x] = true) by (intros x Hx; cbn [FbL forallb]; rewrite Hx; reflexivity).
  destruct (bkind b1 =? ListKind); [apply Hone, Hcl; rewrite Fb_onCloseList; exact H1|].
  destruct (bkind b1 =? IndentedCodeBlockKind).
  { apply Hone, Hcl. replace (onCloseIndented s0 b1) with (set_bik b1 (bik (onCloseIndented s0 b1)))
      by (unfold onCloseIndented; cbv zeta; destruct b1; reflexivity).
    apply Fb_set_bik_sub; [exact H1|]. intros x Hx. eapply onCloseIndented_sub; exact Hx. }
  destruct (_ || _) eqn:Ek; [|apply Hone, Hcl, H1].
  apply F_onCloseParagraph; [|exact H1]. unfold exK. rewrite Ek. reflexivity.
Qed.
Lemma F_closeBlock M U s0 e : 0 <= e -> U <= e -> forall fuel b, Fb M U b = true -> FbL M U (closeBlock fuel s0 b e) = true.
Proof.
  intros He HU. induction fuel as [|f IH]; intros b H.
  { cbn [closeBlock FbL forallb]. rewrite H. reflexivity. }
  cbn [closeBlock]. destruct (isOpen b) eqn:Eo; cbn [negb]; [|cbn [FbL forallb]; rewrite H; reflexivity].
  apply F_closeTail; [exact IH|]. apply Fb_set_bend; assumption.
Qed.
Lemma F_closeBlock_closed M U s0 e f b : 0 <= e -> U <= e -> isOpen b = true ->
  Fb M U (set_bend b e) = true -> FbL M U (closeBlock (S f) s0 b e) = true.
Proof.
  intros He HU Eo H. cbn [closeBlock]. rewrite Eo. cbn [negb]. apply F_closeTail; [apply F_closeBlock; assumption|exact H].
Qed.
Lemma F_CLf M U h s0 e : 0 <= e -> U <= e -> forall b, Fb M U b = true -> Fb M U (CLf' h s0 e b) = true.
Proof.
  intros He HU b H. unfold CLf'. destruct (lastBlock b) as [c|] eqn:El; [|exact H].
  apply (Fb_set_lastBlocks M U b c _ El H). apply F_closeBlock; [assumption..|]. eapply Fb_lastBlock; eassumption.
Qed.
