From Coq Require Import List ZArith Lia Bool.
Import ListNotations.
Require Import Base Tree Rdr Link Collect LP Driver Props Leaf3e RdrBound Rec17 Rec18 BSRdr LADef LA1 LA2 LA14 LARec LAR1 LARpce LARh.
Open Scope Z_scope.

(* ===== the scanners of a link reference definition: what they step over needs no cover ===== *)

Lemma inEnt_dec : forall (l : list inline) q, (exists u, In u l /\ istart u <= q < iend u) \/ (forall u, In u l -> ~ (istart u <= q < iend u)).
Proof.
  induction l as [|x l IH]; intros q; [right; intros u []|].
  destruct (Z.le_gt_cases (istart x) q) as [A|A]; [destruct (Z.lt_ge_cases q (iend x)) as [B|B]|].
  - left. exists x. split; [left; reflexivity|lia].
  - destruct (IH q) as [(u & Hu & Hq)|Hn]; [left; exists u; split; [right; exact Hu|exact Hq]|right]. intros u [<-|Hu]; [lia|apply Hn, Hu].
  - destruct (IH q) as [(u & Hu & Hq)|Hn]; [left; exists u; split; [right; exact Hu|exact Hq]|right]. intros u [<-|Hu]; [lia|apply Hn, Hu].
Qed.

Section Scan.
  Variable src : bytes.
  Variable ik : list inline.
  Hypothesis He : ENT src ik.
  Variables lo hi : Z.
  Hypothesis Hlo : 0 <= lo.
  Hypothesis Hhi : hi <= len src.
  Hypothesis Ht : tileS src lo hi (map ispan ik).

  Definition RS (r : reader) : Prop := (exists u t, InS src ik r u t) \/ OutS src ik r.
  (* bytes of entries in [a, b) need no cover *)
  Definition NX (a b : Z) : Prop := forall q, a <= q < b -> inEnt ik q -> tx (at_ src q) = false.
  Lemma NX_empty a b : b <= a -> NX a b. Proof. intros H q Hq. lia. Qed.
  Lemma NX_app a b c : NX a b -> NX b c -> NX a c.
  Proof. intros H1 H2 q Hq. destruct (Z.lt_ge_cases q b); [apply H1|apply H2]; lia. Qed.
  Lemma NX_sub a b a' b' : a <= a' -> b' <= b -> NX a b -> NX a' b'. Proof. intros H1 H2 H q Hq. apply H. lia. Qed.

  Lemma tile_gap : forall l lo0, tileS src lo0 hi (map ispan l) -> forall q, lo0 <= q < hi -> (forall u, In u l -> ~ (istart u <= q < iend u)) -> tx (at_ src q) = false.
  Proof.
    induction l as [|u r IH]; intros lo0 H q Hq Hn; cbn [map tileS] in H.
    - apply H. exact Hq.
    - cbn [ispan fst snd] in H. destruct H as (A & B & C & D).
      destruct (Z.lt_ge_cases q (istart u)) as [L|L]; [apply B; lia|].
      assert (Hge : iend u <= q) by (specialize (Hn u (or_introl eq_refl)); lia).
      apply (IH _ D q ltac:(lia)). intros x Hx. apply Hn. right. exact Hx.
  Qed.
  Lemma NX_NT a b : lo <= a -> b <= hi -> NX a b -> NT src a b.
  Proof.
    intros Ha Hb H q Hq.
    destruct (inEnt_dec ik q) as [Hin|Hn]; [apply (H q Hq Hin)|].
    apply (tile_gap ik lo Ht q ltac:(lia)). exact Hn.
  Qed.
  Lemma noEnt_NX a b : (forall q, a <= q < b -> ~ inEnt ik q) -> NX a b.
  Proof. intros H q Hq Hi. exfalso. apply (H q Hq Hi). Qed.

  Lemma In_entOK u : In u ik -> entOK src u.
  Proof. intros Hu. destruct He as [Hf _]. rewrite Forall_forall in Hf. apply Hf, Hu. Qed.
  Lemma InS_In r u t : InS src ik r u t -> In u ik.
  Proof. intros (_ & (pre1 & pre2 & Ei & _) & _). rewrite Ei. apply in_or_app; right. apply in_or_app; right. left. reflexivity. Qed.
  (* a cell whose character needs no cover *)
  Lemma cell_nt u pos c : In u ik -> istart u <= pos < iend u -> chOK src u pos c -> tx c = false -> tx (at_ src pos) = false.
  Proof.
    intros Hu Hp Hc Hx. destruct (In_entOK u Hu) as (_ & _ & _ & Hk).
    destruct Hc as [[E _]|[N [[_ ->]|[_ Hc]]]].
    - destruct Hk as [(_ & _ & Hnt)|(Ek & _)]; [apply Hnt, Hp|rewrite E in Ek; discriminate].
    - exact Hx.
    - exfalso. destruct Hc as [->|[-> | ->]]; discriminate.
  Qed.
  (* a cell showing a given ASCII character other than space holds that byte *)
  Lemma cell_eq u pos c : chOK src u pos c -> c <> 32 -> c < 128 -> at_ src pos = c /\ ikind u <> IndentKind.
  Proof.
    intros [[_ E]|[N [[_ ->]|[_ Hc]]]] H1 H2; [contradiction|split; [reflexivity|exact N]|]. exfalso. destruct Hc as [->|[-> | ->]]; lia.
  Qed.

  Lemma RS_current r : RS r -> exists c r', current r = (c, r') /\ RS r' /\ r_pos r' = r_pos r /\ r_prev r' = r_prev r /\
    ((exists u t, InS src ik r u t /\ InS src ik r' u t /\ chOK src u (r_pos r) c) \/ (OutS src ik r /\ r' = r /\ (c = 0 <-> len src <= r_pos r))).
  Proof.
    intros [(u & t & Hi)|Ho].
    - destruct (current_In src ik r u t He Hi) as (c & Ec & Hc). eexists. eexists. split; [exact Ec|].
      pose proof (InS_norm src ik r u t Hi) as Hn. split; [left; exists u, t; exact Hn|]. split; [reflexivity|]. split; [reflexivity|].
      left. exists u, t. split; [exact Hi|split; [exact Hn|exact Hc]].
    - pose proof Ho as (Es & _ & _ & _ & _). unfold current. rewrite Es. destruct (Z.leb_spec (len src) (r_pos r)) as [L|L].
      + exists 0, r. split; [reflexivity|]. split; [right; exact Ho|]. split; [reflexivity|]. split; [reflexivity|]. right. split; [exact Ho|split; [reflexivity|tauto]].
      + rewrite (curNode_Out src ik r Ho). cbn [okind]. change (0 =? IndentKind) with false. cbv iota.
        destruct (at_ src (r_pos r) =? 0) eqn:E0.
        * eexists. exists r. split; [reflexivity|]. split; [right; exact Ho|]. split; [reflexivity|]. split; [reflexivity|]. right. split; [exact Ho|split; [reflexivity|]].
          split; [|lia]. intros E. exfalso. unfold nullRepl in E. destruct (r_vpos r =? 0); [discriminate E|destruct (r_vpos r =? 1); discriminate E].
        * eexists. exists r. split; [reflexivity|]. split; [right; exact Ho|]. split; [reflexivity|]. split; [reflexivity|]. right. split; [exact Ho|split; [reflexivity|]].
          split; [|lia]. intros E. apply Z.eqb_neq in E0. contradiction.
  Qed.

  Lemma current_idem r c r1 : RS r -> current r = (c, r1) -> current r1 = (c, r1).
  Proof.
    intros [(u & t & Hi)|Ho] Ec.
    - pose proof (curNode_In src ik r u t He Hi) as E1. pose proof (InS_norm src ik r u t Hi) as Hn.
      pose proof (curNode_In src ik _ u t He Hn) as E2. cbn [r_src r_spans r_pos r_vpos r_prev] in E2.
      destruct Hi as (Es & _ & Hp). assert (Hu : entOK src u) by (apply In_entOK; eapply InS_In; exact Hn). destruct Hu as (_ & _ & U3 & _).
      unfold current in Ec. rewrite Es in Ec. destruct (Z.leb_spec (len src) (r_pos r)); [lia|]. rewrite E1 in Ec.
      set (rn := {| r_src := r_src r; r_spans := u :: t; r_pos := r_pos r; r_vpos := r_vpos r; r_prev := r_prev r |}) in *.
      assert (Ecur : current rn = (if okind (Some u) =? IndentKind then (32, rn) else if at_ src (r_pos r) =? 0 then (nullRepl (r_vpos r), rn) else (at_ src (r_pos r), rn))).
      { unfold current. change (r_src rn) with (r_src r). change (r_pos rn) with (r_pos r). rewrite Es. destruct (Z.leb_spec (len src) (r_pos r)); [lia|]. rewrite E2. reflexivity. }
      destruct (okind (Some u) =? IndentKind); [inversion Ec; subst; exact Ecur|]. destruct (at_ src (r_pos r) =? 0); inversion Ec; subst; exact Ecur.
    - destruct (RS_current r (or_intror Ho)) as (c' & r' & Ec' & _ & _ & _ & [(u & t & Hi & _)|(_ & E1 & _)]).
      + exfalso. destruct Ho as (_ & Esp & _ & _ & _). destruct Hi as (_ & (p1 & p2 & _ & Es2) & _). rewrite Esp in Es2. destruct p2; discriminate.
      + rewrite Ec in Ec'. inversion Ec'; subst. exact Ec.
  Qed.

  Lemma next_current r c r1 : RS r -> current r = (c, r1) -> next r1 = next r.
  Proof.
    intros Hr Ec. destruct (RS_current r Hr) as (c' & r' & Ec' & _ & _ & _ & Hm). rewrite Ec in Ec'. inversion Ec'; subst c' r'. clear Ec'.
    destruct Hm as [(u & t & Hi & Hi1 & _)|(_ & E1 & _)]; [|subst r1; reflexivity].
    destruct (current_In src ik r u t He Hi) as (c2 & Ec2 & _). rewrite Ec in Ec2. inversion Ec2 as [[Ea Eb]].
    unfold next. rewrite (curNode_In src ik r u t He Hi).
    pose proof (curNode_In src ik _ u t He (InS_norm src ik r u t Hi)) as E2. cbn [r_src r_spans r_pos r_vpos r_prev] in E2. rewrite E2. reflexivity.
  Qed.

  (* one character that needs no cover, then one step *)
  Lemma step_NX a r c r1 : RS r -> current r = (c, r1) -> tx c = false -> a <= r_pos r -> NX a (r_pos r) ->
    RS (snd (next r1)) /\ r_pos r <= r_pos (snd (next r1)) /\ NX a (r_pos (snd (next r1))) /\
    (fst (next r1) = false -> OutS src ik (snd (next r1))) /\
    ((exists u t, InS src ik r u t) -> r_prev (snd (next r1)) = r_pos r /\ r_pos r < r_pos (snd (next r1)) \/ r_pos (snd (next r1)) = r_pos r).
  Proof.
    intros Hr Ec Hx Ha Hn. destruct (RS_current r Hr) as (c' & r' & Ec' & Hr' & Ep & Ev & Hm). rewrite Ec in Ec'. inversion Ec'; subst c' r'. clear Ec'.
    destruct Hm as [(u & t & Hi & Hi1 & Hc)|(Ho & E1 & _)].
    - pose proof (InS_In r u t Hi) as Hu. destruct Hi as (_ & _ & Hp & _).
      pose proof (cell_nt u (r_pos r) c Hu Hp Hc Hx) as Hcell.
      destruct (next_In src ik r1 u t He Hi1) as [[Eok Hs]|(Eok & Et & Ho & Epos & Eend & Eprev)].
      + pose proof Hs as (Hprev & Hcase).
        assert (Hgap : forall q, r_pos r1 < q < r_pos (snd (next r1)) -> ~ inEnt ik q) by (intros q Hq; eapply step_gap; eassumption).
        assert (Hle : r_pos r1 <= r_pos (snd (next r1))).
        { destruct Hcase as [(_ & _ & [[E _]|E])|(u2 & t2 & _ & _ & _ & E2 & Eend & Esrt)]; lia. }
        split; [destruct Hcase as [(H1 & _)|(u2 & t2 & _ & H2 & _)]; left; eauto|]. split; [lia|]. split.
        * intros q Hq Hin. destruct (Z.lt_ge_cases q (r_pos r)) as [L|L]; [apply Hn; [lia|exact Hin]|].
          destruct (Z.eq_dec q (r_pos r)) as [->|N]; [exact Hcell|]. exfalso. apply (Hgap q); [lia|exact Hin].
        * split; [rewrite Eok; discriminate|]. intros _. destruct (Z.eq_dec (r_pos (snd (next r1))) (r_pos r)) as [E|N]; [right; exact E|left; split; [rewrite Hprev; exact Ep|lia]].
      + split; [right; exact Ho|]. split; [lia|]. split.
        * intros q Hq Hin. destruct (Z.lt_ge_cases q (r_pos r)) as [L|L]; [apply Hn; [lia|exact Hin]|]. replace q with (r_pos r) by lia. exact Hcell.
        * split; [intros _; exact Ho|]. intros _. left. split; [rewrite Eprev; exact Ep|lia].
    - subst r1. rewrite (next_Out src ik r Ho). cbn [fst snd]. split; [right; exact Ho|]. split; [lia|]. split; [exact Hn|]. split; [intros _; exact Ho|].
      intros (u & t & Hi). exfalso. destruct Ho as (_ & Esp & Hall & _ & _). destruct Hi as (_ & (p1 & p2 & _ & Es2) & _). rewrite Esp in Es2. destruct p2; discriminate.
  Qed.

  (* ---- white space ---- *)
  Lemma ws_tx c : isSpaceTabOrLineEnding c = true -> tx c = false. Proof. apply ws_nt. Qed.
  Lemma RS_In_c0 r c r1 : RS r -> current r = (c, r1) -> c = 0 -> OutS src ik r1.
  Proof.
    intros Hr Ec E0. destruct (RS_current r Hr) as (c' & r' & Ec' & _ & _ & _ & Hm). rewrite Ec in Ec'. inversion Ec'; subst c' r'.
    destruct Hm as [(u & t & _ & _ & Hc)|(Ho & E1 & _)]; [|subst r1; exact Ho]. exfalso.
    destruct Hc as [[_ E]|[_ [[N E]|[_ E]]]]; [lia|congruence|destruct E as [E|[E|E]]; lia].
  Qed.

  Lemma sls_loop_spec : forall fuel r, RS r ->
    RS (snd (skipLinkSpace_loop fuel r)) /\ r_pos r <= r_pos (snd (skipLinkSpace_loop fuel r)) /\
    NX (r_pos r) (r_pos (snd (skipLinkSpace_loop fuel r))) /\ (fst (skipLinkSpace_loop fuel r) = false -> OutS src ik (snd (skipLinkSpace_loop fuel r))).
  Proof.
    induction fuel as [|f IH]; intros r Hr; cbn [skipLinkSpace_loop].
    { cbn [fst snd]. split; [exact Hr|]. split; [lia|]. split; [apply NX_empty; lia|discriminate]. }
    destruct (RS_current r Hr) as (c & r1 & Ec & Hr1 & Ep & _ & _). rewrite Ec.
    destruct (isSpaceTabOrLineEnding c) eqn:Ew.
    - pose proof (step_NX (r_pos r) r c r1 Hr Ec (ws_tx c Ew) ltac:(lia) ltac:(apply NX_empty; lia)) as (S1 & S2 & S3 & S4 & _).
      destruct (next r1) as [ok r2]. cbn [fst snd] in *. destruct ok.
      + destruct (IH r2 S1) as (I1 & I2 & I3 & I4). split; [exact I1|]. split; [lia|]. split; [eapply NX_app; eassumption|exact I4].
      + cbn [fst snd]. split; [exact S1|]. split; [exact S2|]. split; [exact S3|]. intros _. apply S4. reflexivity.
    - cbn [fst snd]. split; [exact Hr1|]. split; [lia|]. split; [apply NX_empty; lia|discriminate].
  Qed.
  Lemma sls_spec fuel r : RS r ->
    RS (snd (skipLinkSpace fuel r)) /\ r_pos r <= r_pos (snd (skipLinkSpace fuel r)) /\
    NX (r_pos r) (r_pos (snd (skipLinkSpace fuel r))) /\ (fst (skipLinkSpace fuel r) = false -> OutS src ik (snd (skipLinkSpace fuel r))).
  Proof.
    intros Hr. unfold skipLinkSpace. destruct (RS_current r Hr) as (c & r1 & Ec & Hr1 & Ep & _ & _). rewrite Ec.
    destruct (Z.eqb_spec c 0) as [E0|N0].
    - cbn [fst snd]. split; [exact Hr1|]. split; [lia|]. split; [apply NX_empty; lia|]. intros _. apply (RS_In_c0 r c r1 Hr Ec E0).
    - destruct (sls_loop_spec fuel r1 Hr1) as (A & B & C & D). rewrite Ep in *. tauto.
  Qed.

  (* a potential of the reader: every successful step decreases it; normalisation keeps it *)
  Variable mu : reader -> nat.
  Hypothesis mu_next : forall r, RS r -> fst (next r) = true -> (mu (snd (next r)) < mu r)%nat.
  Hypothesis mu_current : forall r, RS r -> mu (snd (current r)) = mu r.
  Variable rfuel : nat.
  Hypothesis mu_fuel : forall r, RS r -> (mu r < rfuel)%nat.

  Lemma sst_spec : forall fuel r, RS r ->
    RS (snd (skipSpacesAndTabs fuel r)) /\ r_pos r <= r_pos (snd (skipSpacesAndTabs fuel r)) /\
    NX (r_pos r) (r_pos (snd (skipSpacesAndTabs fuel r))) /\
    (fst (skipSpacesAndTabs fuel r) = true -> exists c r', current (snd (skipSpacesAndTabs fuel r)) = (c, r') /\ isSpTab c = false /\ c <> 0).
  Proof.
    induction fuel as [|f IH]; intros r Hr; cbn [skipSpacesAndTabs].
    { cbn [fst snd]. split; [exact Hr|]. split; [lia|]. split; [apply NX_empty; lia|discriminate]. }
    destruct (RS_current r Hr) as (c & r1 & Ec & Hr1 & Ep & Ev & Hm). rewrite Ec.
    destruct (isSpTab c) eqn:Ew.
    - pose proof (step_NX (r_pos r) r c r1 Hr Ec (sptab_nt c Ew) ltac:(lia) ltac:(apply NX_empty; lia)) as (S1 & S2 & S3 & S4 & _).
      destruct (next r1) as [ok r2]. cbn [fst snd] in *. destruct ok.
      + destruct (IH r2 S1) as (I1 & I2 & I3 & I4). split; [exact I1|]. split; [lia|]. split; [eapply NX_app; eassumption|exact I4].
      + cbn [fst snd]. split; [exact S1|]. split; [exact S2|]. split; [exact S3|discriminate].
    - cbn [fst snd]. split; [exact Hr1|]. split; [lia|]. split; [apply NX_empty; lia|]. intros Hn. apply negb_true_iff, Z.eqb_neq in Hn.
      exists c, r1. split; [apply (current_idem r c r1 Hr Ec)|split; [exact Ew|exact Hn]].
  Qed.

  Lemma sst_noexh : forall fuel r, RS r -> (mu r < fuel)%nat -> fst (skipSpacesAndTabs fuel r) = false -> OutS src ik (snd (skipSpacesAndTabs fuel r)).
  Proof.
    induction fuel as [|f IH]; intros r Hr Hm; [lia|]. cbn [skipSpacesAndTabs].
    destruct (RS_current r Hr) as (c & r1 & Ec & Hr1 & Ep & Ev & Hmode). pose proof (mu_current r Hr) as Hmc. rewrite Ec in *. cbn [snd] in Hmc.
    destruct (isSpTab c) eqn:Ew.
    - pose proof (step_NX (r_pos r) r c r1 Hr Ec (sptab_nt c Ew) ltac:(lia) ltac:(apply NX_empty; lia)) as (S1 & S2 & S3 & S4 & _).
      pose proof (mu_next r1 Hr1) as Hmn. destruct (next r1) as [ok r2]. cbn [fst snd] in *. destruct ok.
      + intros Hf. apply IH; [exact S1|specialize (Hmn eq_refl); lia|exact Hf].
      + cbn [fst snd]. intros _. apply S4. reflexivity.
    - cbn [fst snd]. intros Hf. apply negb_false_iff, Z.eqb_eq in Hf. apply (RS_In_c0 r c r1 Hr Ec Hf).
  Qed.
  Lemma HF : forall r, RS r -> fst (skipSpacesAndTabs rfuel r) = false -> OutS src ik (snd (skipSpacesAndTabs rfuel r)).
  Proof. intros r Hr. apply sst_noexh; [exact Hr|apply mu_fuel, Hr]. Qed.

  (* ---- line endings ---- *)
  Lemma bnd0_iend u : In u ik -> bnd0 src (iend u).
  Proof.
    intros Hu. destruct (In_entOK u Hu) as (U1 & U2 & U3 & [(K1 & K2 & K3 & _)|(K1 & L1 & L2 & L3 & [L4|L4])]).
    - right; right. intros E. specialize (K3 (iend u - 1) ltac:(lia)). rewrite E in K3. discriminate.
    - right; left. exact L4.
    - right; right. unfold isEOLz in L4. apply orb_true_iff in L4. destruct L4 as [L4|L4]; apply Z.eqb_eq in L4; rewrite L4; discriminate.
  Qed.
  Lemma Out_bnd0 r : OutS src ik r -> bnd0 src (r_pos r).
  Proof. intros (_ & _ & _ & (pre & u & Ei & Ep) & _). rewrite Ep. apply bnd0_iend. rewrite Ei. apply in_or_app; right; left; reflexivity. Qed.
  Lemma Out_noEnt r q : OutS src ik r -> r_pos r <= q -> ~ inEnt ik q.
  Proof. intros (_ & _ & Hall & _) Hq (u & Hu & Hqu). specialize (Hall u Hu). lia. Qed.
  Lemma Out_not_In r u t : OutS src ik r -> InS src ik r u t -> False.
  Proof. intros (_ & Esp & _) (_ & (p1 & p2 & _ & Es2) & _). rewrite Esp in Es2. destruct p2; discriminate. Qed.

  Lemma eol_cell r u t c : InS src ik r u t -> chOK src u (r_pos r) c -> c = 10 \/ c = 13 ->
    at_ src (r_pos r) = c /\ (r_pos r = iend u - 1 \/ (r_pos r = iend u - 2 /\ c = 13 /\ at_ src (iend u - 1) = 10)).
  Proof.
    intros Hi Hc Hcc. pose proof (InS_In r u t Hi) as Hu. destruct Hi as (_ & _ & Hp & _).
    destruct (cell_eq u (r_pos r) c Hc ltac:(destruct Hcc; lia) ltac:(destruct Hcc; lia)) as [Ea Nk]. split; [exact Ea|].
    destruct (In_entOK u Hu) as (_ & _ & _ & [(K1 & _)|(K1 & L1 & L2 & L3 & _)]); [contradiction|].
    destruct (L3 (r_pos r) Hp ltac:(rewrite Ea; unfold isEOLz; destruct Hcc as [-> | ->]; reflexivity)) as [E|(E1 & E2 & E3)]; [left; exact E|right].
    split; [exact E1|]. split; [congruence|exact E3].
  Qed.
  Lemma first_not_eol r u t c : InS src ik r u t -> r_pos r = istart u -> chOK src u (r_pos r) c -> c <> 10.
  Proof.
    intros Hi Ep Hc E. subst c. pose proof (InS_In r u t Hi) as Hu.
    destruct (cell_eq u (r_pos r) 10 Hc ltac:(lia) ltac:(lia)) as [Ea Nk].
    destruct (In_entOK u Hu) as (_ & _ & _ & [(K1 & _)|(K1 & L1 & L2 & _)]); [contradiction|]. rewrite <- Ep, Ea in L2. discriminate.
  Qed.

  Lemma InS_uniq r u t u' t' : InS src ik r u t -> InS src ik r u' t' -> u = u' /\ t = t'.
  Proof.
    intros (_ & (p1 & p2 & Ei & Es) & Hp & _) (_ & (p1' & p2' & Ei' & Es') & Hp' & _).
    assert (Hgen : forall (a b : list inline) x y ta tb, ENT src (a ++ x :: ta) -> a ++ x :: ta = b ++ y :: tb ->
              istart x <= r_pos r < iend x -> istart y <= r_pos r < iend y -> x = y /\ ta = tb).
    { induction a as [|z a IH]; intros b x y ta tb Hent E Hx Hy.
      - destruct b as [|z' b]; cbn [app] in E; [inversion E; split; reflexivity|]. exfalso. inversion E; subst z'.
        destruct Hent as [_ [Hs _]]. specialize (Hs y ltac:(rewrite H1; apply in_or_app; right; left; reflexivity)). lia.
      - destruct b as [|z' b]; cbn [app] in E.
        + exfalso. inversion E; subst z. destruct Hent as [_ [Hs _]]. specialize (Hs x ltac:(apply in_or_app; right; left; reflexivity)). lia.
        + inversion E; subst z'. apply (IH b x y ta tb); [eapply ENT_app with (a := [z]); exact Hent|assumption|exact Hx|exact Hy]. }
    rewrite Es in Es'. apply (Hgen p2 p2' u u' t t'); [rewrite Ei in He; apply ENT_app in He; exact He|exact Es'|exact Hp|exact Hp'].
  Qed.

  (* consuming one line-ending character *)
  Lemma eol_step a r c r1 : RS r -> current r = (c, r1) -> c = 10 \/ c = 13 -> a <= r_pos r -> NX a (r_pos r) ->
    (OutS src ik r /\ r1 = r) \/
    (exists u t, InS src ik r u t /\ at_ src (r_pos r) = c /\ r_prev (snd (next r1)) = r_pos r /\ NX a (r_pos r + 1) /\ bnd0 src (r_pos r + 1) /\
      ((fst (next r1) = false /\ OutS src ik (snd (next r1)) /\ r_pos (snd (next r1)) = r_pos r + 1) \/
       (fst (next r1) = true /\ InS src ik (snd (next r1)) u t /\ r_pos (snd (next r1)) = r_pos r + 1 /\ c = 13 /\ at_ src (r_pos r + 1) = 10 /\ r_pos r + 2 = iend u) \/
       (fst (next r1) = true /\ exists u2 t2, InS src ik (snd (next r1)) u2 t2 /\ r_pos (snd (next r1)) = istart u2 /\ r_pos r + 1 <= istart u2 /\
          (forall q, r_pos r + 1 <= q < istart u2 -> ~ inEnt ik q)))).
  Proof.
    intros Hr Ec Hcc Ha Hn. destruct (RS_current r Hr) as (c' & r' & Ec' & Hr' & Ep & Ev & Hm). rewrite Ec in Ec'. inversion Ec'; subst c' r'. clear Ec'.
    destruct Hm as [(u & t & Hi & Hi1 & Hc)|(Ho & E1 & _)]; [right|left; split; assumption].
    exists u, t. destruct (eol_cell r u t c Hi Hc Hcc) as [Ea Hpos]. split; [exact Hi|]. split; [exact Ea|].
    assert (Hcell : tx (at_ src (r_pos r)) = false) by (rewrite Ea; destruct Hcc as [-> | ->]; reflexivity).
    assert (HNX : NX a (r_pos r + 1)).
    { intros q Hq Hin. destruct (Z.lt_ge_cases q (r_pos r)) as [L|L]; [apply Hn; [lia|exact Hin]|]. replace q with (r_pos r) by lia. exact Hcell. }
    assert (Hb0 : bnd0 src (r_pos r + 1)) by (right; right; replace (r_pos r + 1 - 1) with (r_pos r) by lia; rewrite Ea; destruct Hcc as [-> | ->]; discriminate).
    destruct (cell_eq u (r_pos r) c Hc ltac:(destruct Hcc; lia) ltac:(destruct Hcc; lia)) as [_ Nk].
    destruct (next_In src ik r1 u t He Hi1) as [[Eok Hs]|(Eok & Et & Ho & Epos & Eend & Eprev)].
    - destruct Hs as (Hprev & Hcase). split; [rewrite Hprev; exact Ep|]. split; [exact HNX|]. split; [exact Hb0|].
      destruct Hcase as [(Hi3 & Esp3 & [[_ Ek]|Ep3])|(u2 & t2 & Et & Hi3 & Esp3 & Ep3 & Eend & Esrt)]; [contradiction| |].
      + right; left. split; [exact Eok|]. split; [exact Hi3|]. split; [lia|].
        destruct Hpos as [Hpos|(Hp1 & E13 & Hlf)]; [destruct Hi3 as (_ & _ & Hp3); lia|]. split; [exact E13|]. split; [replace (r_pos r + 1) with (iend u - 1) by lia; exact Hlf|lia].
      + right; right. split; [exact Eok|]. exists u2, t2. split; [exact Hi3|]. split; [exact Ep3|]. split; [lia|].
        intros q Hq. apply (step_gap src ik r1 (snd (next r1)) u t q He Hi1); [split; [exact Hprev|right; exists u2, t2; tauto]|lia].
    - split; [rewrite Eprev; exact Ep|]. split; [exact HNX|]. split; [exact Hb0|]. left. split; [exact Eok|]. split; [exact Ho|lia].
  Qed.

  Definition eolOK (r : reader) (eol : Z) (r' : reader) : Prop :=
    r_pos r <= eol <= r_pos r' /\ NX (r_pos r) eol /\ (forall q, eol <= q < r_pos r' -> ~ inEnt ik q) /\ bnd0 src eol /\
    (forall u t, InS src ik r' u t -> r_pos r' = istart u).

  Lemma eolOK_out r r1 : OutS src ik r1 -> r_pos r <= r_pos r1 -> NX (r_pos r) (r_pos r1) -> eolOK r (r_pos r1) r1.
  Proof.
    intros Ho Hle Hn. split; [lia|]. split; [exact Hn|]. split; [intros q Hq; lia|]. split; [apply Out_bnd0, Ho|]. intros u t Hi. exfalso. eapply Out_not_In; eassumption.
  Qed.
  Lemma eolOK_out1 r r1 p : OutS src ik r1 -> r_pos r1 = p + 1 -> r_pos r <= p -> NX (r_pos r) (p + 1) -> eolOK r (p + 1) r1.
  Proof. intros Ho Ep Hle Hn. rewrite <- Ep. apply eolOK_out; [exact Ho|lia|rewrite Ep; exact Hn]. Qed.
  Lemma eolOK_jump r r' p u2 t2 : InS src ik r' u2 t2 -> r_pos r' = istart u2 -> r_pos r <= p -> p + 1 <= istart u2 -> NX (r_pos r) (p + 1) -> bnd0 src (p + 1) ->
    (forall q, p + 1 <= q < istart u2 -> ~ inEnt ik q) -> eolOK r (p + 1) r'.
  Proof.
    intros Hi Ep Hle Hle2 Hn Hb Hg. split; [lia|]. split; [exact Hn|]. split; [rewrite Ep; exact Hg|]. split; [exact Hb|].
    intros u t Hi'. destruct (InS_uniq r' u2 t2 u t Hi Hi') as [<- _]. exact Ep.
  Qed.

  Lemma readEOL_spec r : RS r ->
    RS (snd (readEOL rfuel r)) /\ r_pos r <= r_pos (snd (readEOL rfuel r)) /\
    (0 <= fst (readEOL rfuel r) -> eolOK r (fst (readEOL rfuel r)) (snd (readEOL rfuel r))) /\
    (fst (readEOL rfuel r) < 0 -> NX (r_pos r) (r_pos (snd (readEOL rfuel r)))).
  Proof.
    intros Hr. unfold readEOL. pose proof (sst_spec rfuel r Hr) as (S1 & S2 & S3 & S4). pose proof (HF r Hr) as HF1.
    destruct (skipSpacesAndTabs rfuel r) as [ok r1]. cbn [fst snd] in *.
    destruct ok; cbn [negb].
    2:{ specialize (HF1 eq_refl). cbn [fst snd]. split; [exact S1|]. split; [exact S2|]. split; [intros _; apply eolOK_out; assumption|].
        intros Hneg. exfalso. destruct HF1 as (_ & _ & _ & (pre & u & Ei & Epu) & _). destruct (In_entOK u ltac:(rewrite Ei; apply in_or_app; right; left; reflexivity)) as (U1 & U2 & _). lia. }
    clear HF1. destruct (S4 eq_refl) as (c & r2 & Ec & Hns & Hn0). rewrite Ec.
    destruct (RS_current r1 S1) as (c' & r2' & Ec' & Hr2 & Ep2 & Ev2 & _). rewrite Ec in Ec'. inversion Ec'; subst c' r2'. clear Ec'.
    destruct (Z.eqb_spec c 13) as [E13|N13]; [|destruct (Z.eqb_spec c 10) as [E10|N10]].
    - (* CR *)
      destruct (eol_step (r_pos r) r1 c r2 S1 Ec ltac:(right; exact E13) S2 S3) as [[Ho E1]|(u & t & Hi & Ea & Hprev & HNX & Hb0 & Hcase)].
      + subst r2. rewrite (next_Out src ik r1 Ho). cbn [negb fst snd]. destruct Ho as (Q1 & Q2 & Q3 & Q4 & Q5). rewrite Q5.
        split; [exact S1|]. split; [exact S2|]. split; [intros _; apply eolOK_out; [repeat split; assumption|exact S2|exact S3]|].
        intros Hneg. exfalso. destruct Q4 as (pre & u & Ei & Epu). destruct (In_entOK u ltac:(rewrite Ei; apply in_or_app; right; left; reflexivity)) as (U1 & U2 & _). lia.
      + assert (Hp0 : 0 <= r_pos r1) by (destruct (In_entOK u (InS_In r1 u t Hi)) as (U1 & _); destruct Hi as (_ & _ & Hp & _); lia).
        destruct (next r2) as [ok2 r3]. cbn [fst snd] in *.
        destruct Hcase as [(Eok & Ho & Epos)|[(Eok & Hi3 & Ep3 & _ & Hlf & Hend)|(Eok & u2 & t2 & Hi3 & Ep3 & Hle3 & Hgap)]]; subst ok2; cbn [negb].
        * rewrite Hprev. cbn [fst snd]. split; [right; exact Ho|]. split; [lia|]. split; [intros _; apply eolOK_out1; assumption|lia].
        * (* CR LF *)
          destruct (RS_current r3 (or_introl (ex_intro _ u (ex_intro _ t Hi3)))) as (c2 & r4 & Ec2 & Hr4 & Ep4 & Ev4 & Hm4). rewrite Ec2.
          assert (E2 : c2 = 10).
          { destruct Hm4 as [(u' & t' & Hi' & _ & Hc2)|(Ho & _)]; [|exfalso; eapply Out_not_In; eassumption].
            destruct (InS_uniq r3 u t u' t' Hi3 Hi') as [<- _].
            destruct (RS_current r1 S1) as (c0 & r0 & Ec0 & _ & _ & _ & [(u0 & t0 & Hi0 & _ & Hc0)|(Ho0 & _)]); [|exfalso; eapply Out_not_In; eassumption].
            rewrite Ec in Ec0. inversion Ec0; subst c0 r0. destruct (InS_uniq r1 u t u0 t0 Hi Hi0) as [<- _].
            destruct (cell_eq u (r_pos r1) c Hc0 ltac:(lia) ltac:(lia)) as [_ Nk].
            destruct Hc2 as [[Ek _]|[_ [[_ E]|[E0 _]]]]; [contradiction|rewrite E, Ep3; exact Hlf|rewrite Ep3, Hlf in E0; discriminate]. }
          rewrite E2. cbn [Z.eqb Pos.eqb].
          assert (HNX3 : NX (r_pos r) (r_pos r3)) by (rewrite Ep3; exact HNX).
          destruct (eol_step (r_pos r) r3 c2 r4 (or_introl (ex_intro _ u (ex_intro _ t Hi3))) Ec2 ltac:(left; exact E2) ltac:(lia) HNX3)
            as [[Ho _]|(u' & t' & Hi' & Ea' & Hprev' & HNX' & Hb0' & Hcase')]; [exfalso; eapply Out_not_In; eassumption|].
          destruct (next r4) as [ok5 r5]. cbn [fst snd] in *. rewrite Hprev'.
          destruct Hcase' as [(_ & Ho5 & Epos5)|[(_ & _ & _ & E13' & _)|(_ & u5 & t5 & Hi5 & Ep5 & Hle5 & Hgap5)]]; [| lia |].
          -- split; [right; exact Ho5|]. split; [lia|]. split; [intros _; apply eolOK_out1; [exact Ho5|exact Epos5|lia|exact HNX']|lia].
          -- split; [left; eauto|]. split; [lia|]. split; [intros _; eapply eolOK_jump; try eassumption; lia|lia].
        * (* lone CR, next entry *)
          destruct (RS_current r3 (or_introl (ex_intro _ u2 (ex_intro _ t2 Hi3)))) as (c2 & r4 & Ec2 & Hr4 & Ep4 & Ev4 & Hm4). rewrite Ec2.
          assert (N2 : c2 <> 10).
          { destruct Hm4 as [(u' & t' & Hi' & _ & Hc2)|(Ho & _)]; [|exfalso; eapply Out_not_In; eassumption].
            destruct (InS_uniq r3 u2 t2 u' t' Hi3 Hi') as [<- _]. eapply first_not_eol; eassumption. }
          replace (c2 =? 10) with false by (symmetry; apply Z.eqb_neq; exact N2). cbn [fst snd]. rewrite Ev4, Hprev.
          destruct Hm4 as [(u' & t' & Hi' & Hi4 & _)|(Ho & _)]; [|exfalso; eapply Out_not_In; eassumption].
          destruct (InS_uniq r3 u2 t2 u' t' Hi3 Hi') as [<- <-].
          split; [exact Hr4|]. split; [lia|]. split; [intros _; eapply (eolOK_jump r r4 (r_pos r1) u2 t2); try eassumption; try lia; rewrite Ep4; exact Ep3|lia].
    - (* LF *)
      destruct (eol_step (r_pos r) r1 c r2 S1 Ec ltac:(left; exact E10) S2 S3) as [[Ho E1]|(u & t & Hi & Ea & Hprev & HNX & Hb0 & Hcase)].
      + subst r2. rewrite (next_Out src ik r1 Ho). cbn [fst snd]. destruct Ho as (Q1 & Q2 & Q3 & Q4 & Q5). rewrite Q5.
        split; [exact S1|]. split; [exact S2|]. split; [intros _; apply eolOK_out; [repeat split; assumption|exact S2|exact S3]|].
        intros Hneg. exfalso. destruct Q4 as (pre & u & Ei & Epu). destruct (In_entOK u ltac:(rewrite Ei; apply in_or_app; right; left; reflexivity)) as (U1 & U2 & _). lia.
      + assert (Hp0 : 0 <= r_pos r1) by (destruct (In_entOK u (InS_In r1 u t Hi)) as (U1 & _); destruct Hi as (_ & _ & Hp & _); lia).
        destruct (next r2) as [ok2 r3]. cbn [fst snd] in *. rewrite Hprev.
        destruct Hcase as [(_ & Ho & Epos)|[(_ & _ & _ & E13' & _)|(_ & u2 & t2 & Hi3 & Ep3 & Hle3 & Hgap)]]; [|lia|].
        * split; [right; exact Ho|]. split; [lia|]. split; [intros _; apply eolOK_out1; assumption|lia].
        * split; [left; eauto|]. split; [lia|]. split; [intros _; eapply eolOK_jump; try eassumption; lia|lia].
    - cbn [fst snd]. split; [exact Hr2|]. split; [lia|]. split; [lia|]. intros _. rewrite Ep2. exact S3.
  Qed.

  (* ---- inside a line the reader moves byte by byte ---- *)
  Lemma last_entry_end u t : (exists p1 p2, ik = p1 ++ p2 ++ u :: t) -> t <> [] -> iend u < len src.
  Proof.
    intros (p1 & p2 & Ei) Ht0. destruct t as [|u2 t2]; [contradiction|].
    assert (Hu2 : In u2 ik) by (rewrite Ei; apply in_or_app; right; apply in_or_app; right; right; left; reflexivity).
    destruct (In_entOK u2 Hu2) as (_ & V2 & V3 & _).
    assert (Hs : iend u <= istart u2).
    { rewrite Ei in He. apply ENT_app in He. apply ENT_app in He. destruct He as [_ [Hs _]]. apply Hs. left. reflexivity. }
    lia.
  Qed.
  Lemma next_same r u t : InS src ik r u t -> ikind u <> IndentKind -> isEOLz (at_ src (r_pos r)) = false ->
    r_prev (snd (next r)) = r_pos r /\ r_pos (snd (next r)) = r_pos r + 1 /\
    ((fst (next r) = true /\ InS src ik (snd (next r)) u t) \/ (fst (next r) = false /\ OutS src ik (snd (next r)))).
  Proof.
    intros Hi Nk Hne. destruct (next_In src ik r u t He Hi) as [[Eok (Hprev & Hcase)]|(Eok & Et & Ho & Epos & Eend & Eprev)].
    - destruct Hcase as [(Hi3 & _ & [[_ Ek]|Ep3])|(u2 & t2 & Et & Hi3 & _ & Ep3 & Eend & Esrt)]; [contradiction|split; [exact Hprev|split; [exact Ep3|left; split; assumption]]|].
      exfalso. pose proof (InS_In r u t Hi) as Hu. destruct Hi as (_ & Hex & Hp).
      pose proof (last_entry_end u t ltac:(destruct Hex as (q1 & q2 & Q & _); eauto) ltac:(rewrite Et; discriminate)) as Hlt.
      destruct (In_entOK u Hu) as (_ & _ & _ & [(K1 & _)|(_ & _ & _ & _ & [L4|L4])]); [contradiction|lia|].
      replace (iend u - 1) with (r_pos r) in L4 by lia. congruence.
    - split; [exact Eprev|split; [exact Epos|right; split; assumption]].
  Qed.

  (* ---- collectTextNodes ---- *)
  (* the pending plain run: either empty, or it ends at the previous position and the reader has jumped at most over a gap *)
  Definition PV (r : reader) (ps : Z) : Prop :=
    ps <= r_pos r /\ (ps = r_pos r \/ (ps <= r_prev r + 1 <= r_pos r /\ forall q, r_prev r + 1 <= q < r_pos r -> ~ inEnt ik q)).
  Lemma noEnt_NT a b : lo <= a -> b <= hi -> (forall q, a <= q < b -> ~ inEnt ik q) -> NT src a b.
  Proof. intros Ha Hb H. apply NX_NT; [exact Ha|exact Hb|apply noEnt_NX, H]. Qed.
  (* flushing the plain run when the reader has jumped *)
  Lemma flush_jump a r ps acc (tk : Z) : lo <= a -> r_pos r <= hi -> tileS src a ps (map ispan acc) -> PV r ps -> a <= ps -> 1 < r_pos r - r_prev r ->
    let acc' := if ps <=? r_prev r then acc ++ [mkI tk ps (r_prev r + 1)] else acc in
    tileS src a (r_pos r) (map ispan acc').
  Proof.
    intros Ha Hh Hta (P1 & P2) Hps Hj. cbv zeta. destruct (Z.leb_spec ps (r_prev r)) as [L|L].
    - destruct P2 as [P2|(P2 & P3)]; [lia|]. rewrite map_app. cbn [map]. change (ispan (mkI tk ps (r_prev r + 1))) with (ps, r_prev r + 1).
      eapply tileS_snoc; [exact Hta|lia|apply NT_empty; lia|lia|lia|apply noEnt_NT; [lia|lia|exact P3]].
    - destruct P2 as [P2|(P2 & P3)]; [rewrite <- P2; exact Hta|]. eapply tileS_ext; [exact Hta|lia|]. apply noEnt_NT; [lia|lia|]. intros q Hq. apply P3. lia.
  Qed.

  Lemma RS_pos_hi r : RS r -> lo <= r_pos r -> r_pos r <= hi.
  Proof.
    intros [(u & t & Hi)|Ho] _.
    - pose proof (InS_In r u t Hi) as Hu. destruct Hi as (_ & _ & Hp & _).
      pose proof (tileS_In _ _ _ _ (ispan u) Ht ltac:(apply in_map; exact Hu)) as (_ & _ & P3). cbn [ispan snd] in P3. lia.
    - destruct Ho as (_ & _ & _ & (pre & u & Ei & Ep) & _). rewrite Ep.
      pose proof (tileS_In _ _ _ _ (ispan u) Ht ltac:(apply in_map; rewrite Ei; apply in_or_app; right; left; reflexivity)) as (_ & _ & P3). exact P3.
  Qed.
  Lemma In_lo u : In u ik -> lo <= istart u.
  Proof. intros Hu. pose proof (tileS_In _ _ _ _ (ispan u) Ht ltac:(apply in_map; exact Hu)) as (P1 & _). exact P1. Qed.

  (* skipping the rest of an Indent entry *)
  Lemma skipSameNode_spec : forall fuel r u t, InS src ik r u t -> ikind u = IndentKind -> (mu r < fuel)%nat ->
    let r' := skipSameNode fuel r u in
    RS r' /\ iend u <= r_pos r' /\ (forall q, iend u <= q < r_pos r' -> ~ inEnt ik q) /\
    ((exists u2 t2, InS src ik r' u2 t2) -> (mu r' < mu r)%nat).
  Proof.
    induction fuel as [|f IH]; intros r u t Hi Ek Hm; [lia|]. cbv zeta. cbn [skipSameNode].
    pose proof (InS_In r u t Hi) as Hu. destruct (In_entOK u Hu) as (U1 & U2 & U3 & [(_ & K2 & _)|(K1 & _)]); [|rewrite Ek in K1; discriminate].
    pose proof (mu_next r (or_introl (ex_intro _ u (ex_intro _ t Hi)))) as Hmn.
    destruct (next_In src ik r u t He Hi) as [[Eok (Hprev & Hcase)]|(Eok & Et & Ho & Epos & Eend & Eprev)].
    - specialize (Hmn Eok). destruct (next r) as [ok r1]. cbn [fst snd] in *. subst ok. cbn [negb].
      destruct Hcase as [(Hi1 & Esp1 & Hs)|(u2 & t2 & Et & Hi1 & Esp1 & Ep1 & Eend & Esrt)].
      + (* still inside the Indent entry *)
        rewrite (curNode_In src ik r1 u t He Hi1). rewrite !Z.eqb_refl. cbn [andb].
        pose proof (InS_norm src ik r1 u t Hi1) as Hn1.
        set (rn := {| r_src := r_src r1; r_spans := u :: t; r_pos := r_pos r1; r_vpos := r_vpos r1; r_prev := r_prev r1 |}) in *.
        assert (Emu : mu rn = mu r1).
        { destruct (current_In src ik r1 u t He Hi1) as (c & Ec & _). pose proof (mu_current r1 (or_introl (ex_intro _ u (ex_intro _ t Hi1)))) as Hc. rewrite Ec in Hc. exact Hc. }
        destruct (IH rn u t Hn1 Ek ltac:(lia)) as (I1 & I2 & I3 & I4). split; [exact I1|]. split; [exact I2|]. split; [exact I3|]. intros Hex. specialize (I4 Hex). lia.
      + (* the next entry *)
        rewrite (curNode_In src ik r1 u2 t2 He Hi1).
        assert (Hdiff : (ikind u2 =? ikind u) && (istart u2 =? istart u) && (iend u2 =? iend u) = false).
        { apply andb_false_iff. left. apply andb_false_iff. right. apply Z.eqb_neq. lia. }
        rewrite Hdiff. pose proof (InS_norm src ik r1 u2 t2 Hi1) as Hn1.
        set (rn := {| r_src := r_src r1; r_spans := u2 :: t2; r_pos := r_pos r1; r_vpos := r_vpos r1; r_prev := r_prev r1 |}) in *.
        assert (Emu : mu rn = mu r1).
        { destruct (current_In src ik r1 u2 t2 He Hi1) as (c & Ec & _). pose proof (mu_current r1 (or_introl (ex_intro _ u2 (ex_intro _ t2 Hi1)))) as Hc. rewrite Ec in Hc. exact Hc. }
        split; [left; eauto|]. change (r_pos rn) with (r_pos r1). split; [lia|]. split; [|intros _; lia].
        intros q Hq. apply (step_gap src ik r r1 u t q He Hi); [split; [exact Hprev|right; exists u2, t2; tauto]|destruct Hi as (_ & _ & Hp & _); lia].
    - destruct (next r) as [ok r1]. cbn [fst snd] in *. subst ok. cbn [negb]. split; [right; exact Ho|]. split; [lia|]. split; [intros q Hq; lia|].
      intros (u2 & t2 & Hi2). exfalso. eapply Out_not_In; eassumption.
  Qed.

  Lemma collect_Out : forall fuel r e tk esc ps acc, OutS src ik r -> collect_loop fuel r e tk esc ps acc = (acc, ps).
  Proof.
    intros fuel r e tk esc ps acc Ho. destruct fuel as [|f]; [reflexivity|]. cbn [collect_loop]. destruct (e <=? r_pos r); [reflexivity|].
    rewrite (curNode_Out src ik r Ho). cbn [okind]. change (0 =? IndentKind) with false. cbv iota. change (0 =? UnparsedKind) with false. rewrite andb_false_r.
    cbn [r_pos]. destruct (e <=? r_pos r); [reflexivity|]. rewrite (next_Out src ik r Ho). reflexivity.
  Qed.

  (* ================= collectTextNodes ================= *)
  Definition ctail (f : nat) (e tk : Z) (esc : bool) (r : reader) (ps : Z) (acc : list inline) : list inline * Z :=
    if e <=? r_pos r then (acc, ps) else
    let '(ok, r1) := next r in
    if negb ok then (acc, ps) else
    if jumped r1 then collect_loop f r1 e tk esc (r_pos r1) (if ps <=? r_prev r1 then acc ++ [mkI tk ps (r_prev r1 + 1)] else acc)
    else collect_loop f r1 e tk esc ps acc.
  Lemma collect_loop_S f r e tk esc ps acc : collect_loop (S f) r e tk esc ps acc =
    if e <=? r_pos r then (acc, ps) else
    let '(cn, r0) := curNode r in
    if okind cn =? IndentKind then
      let acc1 := if ps <? r_pos r0 then acc ++ [mkI tk ps (r_prev r0 + 1)] else acc in
      let node := match cn with Some n => n | None => mkI 0 0 0 end in
      let r1 := skipSameNode (S f) r0 node in
      collect_loop f r1 e tk esc (r_pos r1) (acc1 ++ [node])
    else if esc && (okind cn =? UnparsedKind) then
        let '(c, r1) := current r0 in
        if c =? 92 then
          let '(ok, r2) := next r1 in
          if ok && (r_pos r2 <? e) && isASCIIPunctuation (cur r2) then
            ctail f e tk esc r2 (r_pos r2) (if ps <? r_prev r2 then acc ++ [mkI tk ps (r_prev r2)] else acc)
          else ctail f e tk esc r2 ps acc
        else if c =? 38 then
          let '(rem, r2) := remainingNodeBytes r1 in
          let en := parseCharacterEscape rem in
          if 0 <=? en then
            let acc1 := if ps <? r_pos r2 then acc ++ [mkI tk ps (r_pos r2)] else acc in
            let acc2 := acc1 ++ [mkI CharacterReferenceKind (r_pos r2) (r_pos r2 + en)] in
            let r3 := nextN (Z.to_nat (en - 1)) r2 in
            let '(ok, r4) := next r3 in
            if negb ok then (acc2, r_pos r2 + en) else collect_loop f r4 e tk esc (r_pos r2 + en) acc2
          else ctail f e tk esc r2 ps acc
        else ctail f e tk esc r1 ps acc
    else ctail f e tk esc r0 ps acc.
  Proof. reflexivity. Qed.
  Lemma cexit fuel r e tk esc ps acc : e <= r_pos r -> collect_loop fuel r e tk esc ps acc = (acc, ps).
  Proof. intros H. destruct fuel as [|f]; [reflexivity|]. cbn [collect_loop]. destruct (Z.leb_spec e (r_pos r)); [reflexivity|lia]. Qed.
  Lemma ctail_Out f e tk esc r ps acc : OutS src ik r -> ctail f e tk esc r ps acc = (acc, ps).
  Proof. intros Ho. unfold ctail. destruct (e <=? r_pos r); [reflexivity|]. rewrite (next_Out src ik r Ho). reflexivity. Qed.

  Lemma nextN_in : forall k r u t, InS src ik r u t -> ikind u = UnparsedKind -> r_pos r + Z.of_nat k < iend u ->
    InS src ik (nextN k r) u t /\ r_pos (nextN k r) = r_pos r + Z.of_nat k /\ (mu (nextN k r) <= mu r)%nat.
  Proof.
    induction k as [|k IH]; intros r u t Hi Ek Hk; [cbn [nextN]; split; [exact Hi|split; lia]|]. cbn [nextN].
    pose proof (mu_next r (or_introl (ex_intro _ u (ex_intro _ t Hi)))) as Hm.
    destruct (next_In src ik r u t He Hi) as [[Eok (Hprev & Hcase)]|(Eok & Et & Ho & Epos & Eend & Eprev)]; [|lia].
    specialize (Hm Eok). destruct Hcase as [(Hi1 & Esp1 & Hs)|(u2 & t2 & Et & Hi1 & Esp1 & Ep1 & Eend & Esrt)]; [|lia].
    destruct Hs as [[_ Hs]|Hs]; [rewrite Ek in Hs; discriminate|].
    destruct (IH (snd (next r)) u t Hi1 Ek ltac:(lia)) as (I1 & I2 & I3). split; [exact I1|]. split; lia.
  Qed.

  Section Coll.
    Variables (a e tk : Z) (esc : bool).
    Hypothesis Ha : lo <= a.
    Hypothesis Hstop : esc = true -> forall u, In u ik -> ikind u = UnparsedKind -> istart u <= e < iend u -> isEntCh (at_ src e) = false.

    (* a collected node is a new leaf or one of the entries *)
    Definition NK (x : inline) : Prop := ikids x = [] \/ In x ik.
    Definition endsLe (acc : list inline) (E : Z) : Prop := Forall (fun x => iend x <= E /\ NK x) acc.
    Lemma endsLe_snoc acc E x : endsLe acc E -> iend x <= E /\ NK x -> endsLe (acc ++ [x]) E.
    Proof. intros H1 H2. apply Forall_app. split; [exact H1|constructor; [exact H2|constructor]]. Qed.
    Lemma endsLe_mono acc E E' : endsLe acc E -> E <= E' -> endsLe acc E'.
    Proof. intros H HE. eapply Forall_impl; [|exact H]. cbv beta. intros x [A B]. split; [lia|exact B]. Qed.
    Lemma NK_mkI k s0 e0 : NK (mkI k s0 e0). Proof. left. reflexivity. Qed.
    Definition CInv (r : reader) (ps : Z) (acc : list inline) : Prop :=
      a <= ps /\ tileS src a ps (map ispan acc) /\ endsLe acc e /\ PV r ps.
    Definition CPost (res : list inline * Z) : Prop :=
      a <= snd res /\ tileS src a (snd res) (map ispan (fst res)) /\ endsLe (fst res) e.
    Definition CSpec (f : nat) : Prop := forall r ps acc, RS r -> ((exists u t, InS src ik r u t) -> (mu r < f)%nat) -> CInv r ps acc ->
      CPost (collect_loop f r e tk esc ps acc).
    Lemma CPost_exit ps acc : a <= ps -> tileS src a ps (map ispan acc) -> endsLe acc e -> CPost (acc, ps).
    Proof. intros H1 H2 H3. split; [exact H1|]. split; [exact H2|exact H3]. Qed.

    Lemma tile_flush ps acc p (k : Z) : tileS src a ps (map ispan acc) -> ps <= p ->
      tileS src a p (map ispan (if ps <? p then acc ++ [mkI k ps p] else acc)).
    Proof.
      intros Hta Hp. destruct (Z.ltb_spec ps p) as [L|L].
      - rewrite map_app. cbn [map]. change (ispan (mkI k ps p)) with (ps, p). eapply tileS_snoc; [exact Hta|lia|apply NT_empty; lia|lia|lia|apply NT_empty; lia].
      - replace p with ps by lia. exact Hta.
    Qed.
    Lemma endsLe_flush ps acc p (k : Z) E : endsLe acc E -> p <= E -> endsLe (if ps <? p then acc ++ [mkI k ps p] else acc) E.
    Proof. intros H1 H2. destruct (ps <? p); [apply endsLe_snoc; [exact H1|split; [exact H2|apply NK_mkI]]|exact H1]. Qed.

    Lemma ctail_spec f : CSpec f -> forall r u t ps acc, InS src ik r u t -> ikind u = UnparsedKind -> (mu r <= f)%nat ->
      a <= ps -> tileS src a ps (map ispan acc) -> endsLe acc e -> PV r ps ->
      CPost (ctail f e tk esc r ps acc).
    Proof.
      intros HS r u t ps acc Hi Ek Hm Hps Hta Hen (P1 & P2). unfold ctail.
      destruct (Z.leb_spec e (r_pos r)) as [Hpe|Hpe]; [apply CPost_exit; assumption|].
      pose proof (mu_next r (or_introl (ex_intro _ u (ex_intro _ t Hi)))) as Hmn.
      pose proof (InS_In r u t Hi) as Hu. destruct (In_entOK u Hu) as (U1 & U2 & U3 & U4).
      assert (Hpr : istart u <= r_pos r < iend u) by (destruct Hi as (_ & _ & Hp & _); exact Hp).
      destruct (next_In src ik r u t He Hi) as [[Eok (Hprev & Hcase)]|(Eok & Et & Ho & Epos & Eend & Eprev)].
      2:{ destruct (next r) as [ok r1]. cbn [fst snd] in *. subst ok. cbn [negb]. apply CPost_exit; assumption. }
      specialize (Hmn Eok).
      assert (Hgap : forall q, r_pos r < q < r_pos (snd (next r)) -> ~ inEnt ik q).
      { intros q Hq. apply (step_gap src ik r (snd (next r)) u t q He Hi); [split; [exact Hprev|exact Hcase]|exact Hq]. }
      assert (HR1 : RS (snd (next r))) by (destruct Hcase as [(Hi1 & _)|(u2 & t2 & _ & Hi1 & _)]; left; eauto).
      assert (Hp1 : r_pos r + 1 <= r_pos (snd (next r))).
      { destruct Hcase as [(_ & _ & [[_ Hs]|Hs])|(u2 & t2 & _ & _ & _ & Ep & Eend & Esrt)]; [rewrite Ek in Hs; discriminate|lia|lia]. }
      assert (Hh1 : r_pos (snd (next r)) <= hi) by (apply RS_pos_hi; [exact HR1|lia]).
      destruct (next r) as [ok r1]. cbn [fst snd] in *. subst ok. cbn [negb].
      destruct (jumped r1) eqn:Ej.
      - unfold jumped in Ej. apply andb_true_iff in Ej. destruct Ej as [_ Ej]. apply Z.ltb_lt in Ej.
        assert (PV1 : PV r1 ps).
        { split; [lia|]. right. split; [lia|]. intros q Hq. apply Hgap. lia. }
        pose proof (flush_jump a r1 ps acc tk Ha Hh1 Hta PV1 Hps Ej) as Hfl. cbv zeta in Hfl.
        apply HS; [exact HR1|intros _; lia|]. split; [lia|]. split; [exact Hfl|]. split; [|split; [lia|left; reflexivity]].
        destruct (ps <=? r_prev r1); [apply endsLe_snoc; [exact Hen|split; [cbn [iend mkI]; lia|apply NK_mkI]]|exact Hen].
      - unfold jumped in Ej. apply andb_false_iff in Ej. destruct Ej as [Ej|Ej]; [apply Z.leb_gt in Ej; lia|]. apply Z.ltb_ge in Ej.
        apply HS; [exact HR1|intros _; lia|]. split; [exact Hps|]. split; [exact Hta|]. split; [exact Hen|]. split; [lia|]. right. split; [lia|]. intros q Hq. apply Hgap. lia.
    Qed.

    Lemma mu_norm r u t : InS src ik r u t ->
      mu {| r_src := r_src r; r_spans := u :: t; r_pos := r_pos r; r_vpos := r_vpos r; r_prev := r_prev r |} = mu r.
    Proof.
      intros Hi. destruct (current_In src ik r u t He Hi) as (c & Ec & _).
      pose proof (mu_current r (or_introl (ex_intro _ u (ex_intro _ t Hi)))) as Hc. rewrite Ec in Hc. exact Hc.
    Qed.

    Lemma collect_spec : forall f, CSpec f.
    Proof.
      induction f as [|f IH]; intros r ps acc HR Hm (Hps & Hta & Hen & HPV).
      { cbn [collect_loop]. apply CPost_exit; assumption. }
      rewrite collect_loop_S. destruct (Z.leb_spec e (r_pos r)) as [Le|Le]; [apply CPost_exit; assumption|].
      destruct HR as [(u & t & Hi)|Ho].
      2:{ rewrite (curNode_Out src ik r Ho). cbn [okind]. change (0 =? IndentKind) with false. cbv iota. change (0 =? UnparsedKind) with false. rewrite andb_false_r.
          rewrite ctail_Out by exact Ho. apply CPost_exit; assumption. }
      specialize (Hm (ex_intro _ u (ex_intro _ t Hi))).
      rewrite (curNode_In src ik r u t He Hi). pose proof (InS_norm src ik r u t Hi) as Hn. pose proof (mu_norm r u t Hi) as Emu.
      set (rn := {| r_src := r_src r; r_spans := u :: t; r_pos := r_pos r; r_vpos := r_vpos r; r_prev := r_prev r |}) in *.
      assert (Epn : r_pos rn = r_pos r) by reflexivity. assert (Evn : r_prev rn = r_prev r) by reflexivity.
      pose proof (InS_In r u t Hi) as Hu. destruct (In_entOK u Hu) as (U1 & U2 & U3 & U4).
      assert (Hpr : istart u <= r_pos r < iend u) by (destruct Hi as (_ & _ & Hp & _); exact Hp).
      pose proof (In_lo u Hu) as Hlu.
      assert (Hhu : iend u <= hi).
      { pose proof (tileS_In _ _ _ _ (ispan u) Ht ltac:(apply in_map; exact Hu)) as (_ & _ & P3). exact P3. }
      destruct HPV as (P1 & P2). cbn [okind].
      destruct U4 as [(K1 & K2 & K3)|(K1 & K2)].
      - (* an Indent entry *)
        rewrite K1, Z.eqb_refl. cbv zeta. rewrite Epn, Evn.
        destruct (skipSameNode_spec (S f) rn u t Hn K1 ltac:(lia)) as (S1 & S2 & S3 & S4).
        set (r1 := skipSameNode (S f) rn u) in *.
        assert (Hh1 : r_pos r1 <= hi) by (apply RS_pos_hi; [exact S1|lia]).
        apply IH; [exact S1|intros Hex; specialize (S4 Hex); lia|].
        assert (Hta1 : tileS src a (r_pos r) (map ispan (if ps <? r_pos r then acc ++ [mkI tk ps (r_prev r + 1)] else acc))).
        { destruct (Z.ltb_spec ps (r_pos r)) as [L|L].
          - destruct P2 as [P2|(P2 & P3)]; [lia|]. rewrite map_app. cbn [map]. change (ispan (mkI tk ps (r_prev r + 1))) with (ps, r_prev r + 1).
            eapply tileS_snoc; [exact Hta|lia|apply NT_empty; lia|lia|lia|apply noEnt_NT; [lia|lia|exact P3]].
          - replace (r_pos r) with ps by lia. exact Hta. }
        assert (Hen1 : endsLe (if ps <? r_pos r then acc ++ [mkI tk ps (r_prev r + 1)] else acc) e).
        { destruct (Z.ltb_spec ps (r_pos r)) as [L|L]; [|exact Hen]. destruct P2 as [P2|(P2 & P3)]; [lia|]. apply endsLe_snoc; [exact Hen|split; [cbn [iend mkI]; lia|apply NK_mkI]]. }
        split; [lia|]. split; [|split; [apply endsLe_snoc; [exact Hen1|split; [lia|right; exact Hu]]|split; [lia|left; reflexivity]]].
        rewrite map_app. cbn [map]. unfold ispan at 2.
        eapply tileS_snoc; [exact Hta1|lia|apply NT_empty; lia|lia|exact S2|apply noEnt_NT; [lia|exact Hh1|exact S3]].
      - (* an Unparsed entry *)
        assert (Eki : (ikind u =? IndentKind) = false) by (rewrite K1; reflexivity). rewrite Eki. rewrite K1, Z.eqb_refl, andb_true_r.
        assert (Htl : forall r' , InS src ik r' u t -> (mu r' <= f)%nat -> r_pos r' = r_pos r -> r_prev r' = r_prev r -> CPost (ctail f e tk esc r' ps acc)).
        { intros r' Hi' Hm' Ep' Ev'. apply (ctail_spec f IH r' u t ps acc Hi' K1 Hm' Hps Hta Hen). split; [lia|]. rewrite Ep', Ev'. exact P2. }
        match goal with |- CPost (if esc then ?X else ?Y) => destruct (Bool.bool_dec esc true) as [Eesc|Eesc]; [|apply not_true_is_false in Eesc];
          [replace (if esc then X else Y) with X by (rewrite Eesc; reflexivity) | replace (if esc then X else Y) with Y by (rewrite Eesc; reflexivity)] end;
          [|apply Htl; [exact Hn|lia|reflexivity|reflexivity]].
        destruct (current_In src ik rn u t He Hn) as (c & Ec & Hch). cbn [r_src r_spans r_pos r_vpos r_prev rn] in Ec. fold rn in Ec. rewrite Ec. rewrite Epn in Hch.
        destruct (Z.eqb_spec c 92) as [E92|N92].
        { (* backslash *)
          subst c. destruct (cell_eq u (r_pos r) 92 Hch ltac:(lia) ltac:(lia)) as (Eat & Nk).
          destruct (next_same rn u t Hn Nk ltac:(rewrite Epn, Eat; reflexivity)) as (Ev2 & Ep2 & Hc2).
          pose proof (mu_next rn (or_introl (ex_intro _ u (ex_intro _ t Hn)))) as Hmn.
          destruct (next rn) as [ok r2]. cbn [fst snd] in *. rewrite Epn in Ev2, Ep2.
          destruct Hc2 as [(-> & Hi2)|(-> & Ho2)].
          2:{ cbn [andb]. rewrite ctail_Out by exact Ho2. apply CPost_exit; assumption. }
          specialize (Hmn eq_refl). cbn [andb].
          assert (Hnt : NT src (r_pos r) (r_pos r + 1)).
          { intros q Hq. replace q with (r_pos r) by lia. rewrite Eat. reflexivity. }
          destruct ((r_pos r2 <? e) && isASCIIPunctuation (cur r2)) eqn:Econd.
          - apply andb_true_iff in Econd. destruct Econd as [Econd _]. apply Z.ltb_lt in Econd.
            apply (ctail_spec f IH r2 u t); [exact Hi2|exact K1|lia|lia| | |split; [lia|left; reflexivity]].
            + rewrite Ev2, Ep2. eapply tileS_ext; [apply tile_flush; [exact Hta|lia]|lia|exact Hnt].
            + rewrite Ev2. apply endsLe_flush; [exact Hen|lia].
          - apply (ctail_spec f IH r2 u t); [exact Hi2|exact K1|lia|exact Hps|exact Hta|exact Hen|].
            split; [lia|]. right. split; [lia|]. intros q Hq. lia. }
        destruct (Z.eqb_spec c 38) as [E38|N38]; [|apply Htl; [exact Hn|lia|reflexivity|reflexivity]].
        (* a character reference *)
        subst c. destruct (cell_eq u (r_pos r) 38 Hch ltac:(lia) ltac:(lia)) as (Eat & Nk).
        unfold remainingNodeBytes. rewrite (curNode_In src ik rn u t He Hn). cbn [r_src r_spans r_pos r_vpos r_prev rn]. fold rn.
        assert (Esrc : r_src r = src) by (destruct Hi as (Es & _); exact Es). rewrite Esrc.
        set (rem := sub src (r_pos r) (iend u)). cbv zeta.
        destruct (Z.leb_spec 0 (parseCharacterEscape rem)) as [Len|Len]; [|apply Htl; [exact Hn|lia|reflexivity|reflexivity]].
        destruct (pce_spec rem Len) as (Hen1 & Hen2). set (en := parseCharacterEscape rem) in *.
        assert (Hlr : len rem = iend u - r_pos r) by (apply len_sub; lia).
        assert (Hpe : r_pos r + en <= e).
        { destruct (Z.le_gt_cases (r_pos r + en) e) as [L|L]; [exact L|exfalso].
          pose proof (Hstop Eesc u Hu K1 ltac:(lia)) as Hs. specialize (Hen2 (e - r_pos r) ltac:(lia)). unfold rem in Hen2. rewrite at_sub in Hen2 by lia.
          replace (r_pos r + (e - r_pos r)) with e in Hen2 by lia. rewrite Hs in Hen2. discriminate. }
        destruct (nextN_in (Z.to_nat (en - 1)) rn u t Hn K1 ltac:(rewrite Epn; lia)) as (N1 & N2 & N3). rewrite Epn in N2.
        set (r3 := nextN (Z.to_nat (en - 1)) rn) in *.
        set (acc2 := (if ps <? r_pos r then acc ++ [mkI tk ps (r_pos r)] else acc) ++ [mkI CharacterReferenceKind (r_pos r) (r_pos r + en)]).
        assert (Hta2 : tileS src a (r_pos r + en) (map ispan acc2)).
        { unfold acc2. rewrite map_app. cbn [map]. change (ispan (mkI CharacterReferenceKind (r_pos r) (r_pos r + en))) with (r_pos r, r_pos r + en).
          eapply tileS_snoc; [apply tile_flush; [exact Hta|lia]|lia|apply NT_empty; lia|lia|lia|apply NT_empty; lia]. }
        assert (Hen3 : endsLe acc2 e).
        { unfold acc2. apply endsLe_snoc; [apply endsLe_flush; [exact Hen|lia]|split; [cbn [iend mkI]; lia|apply NK_mkI]]. }
        pose proof (mu_next r3 (or_introl (ex_intro _ u (ex_intro _ t N1)))) as Hmn.
        destruct (next_In src ik r3 u t He N1) as [[Eok (Hprev & Hcase)]|(Eok & Et & Ho & Epos & Eend & Eprev)].
        2:{ destruct (next r3) as [ok r4]. cbn [fst snd] in *. subst ok. cbn [negb]. apply CPost_exit; [lia|exact Hta2|exact Hen3]. }
        specialize (Hmn Eok).
        assert (Hgap : forall q, r_pos r3 < q < r_pos (snd (next r3)) -> ~ inEnt ik q).
        { intros q Hq. apply (step_gap src ik r3 (snd (next r3)) u t q He N1); [split; [exact Hprev|exact Hcase]|exact Hq]. }
        assert (HR4 : RS (snd (next r3))) by (destruct Hcase as [(Hi1 & _)|(u2 & t2 & _ & Hi1 & _)]; left; eauto).
        assert (Hp4 : r_pos r3 + 1 <= r_pos (snd (next r3))).
        { destruct Hcase as [(_ & _ & [[_ Hs]|Hs])|(u2 & t2 & _ & _ & _ & Ep & Eend & Esrt)]; [rewrite K1 in Hs; discriminate|lia|lia]. }
        destruct (next r3) as [ok r4]. cbn [fst snd] in *. subst ok. cbn [negb].
        apply IH; [exact HR4|intros _; lia|]. split; [lia|]. split; [exact Hta2|]. split; [exact Hen3|]. split; [lia|]. right. split; [lia|].
        intros q Hq. apply Hgap. lia.
    Qed.

    (* the nodes tile the text span *)
    Lemma collectTextNodes_spec r : RS r -> a <= e -> r_pos r = a ->
      tileS src a e (map ispan (collectTextNodes rfuel r e tk esc)) /\ Forall NK (collectTextNodes rfuel r e tk esc).
    Proof.
      intros HR Hae Ep. unfold collectTextNodes.
      pose proof (collect_spec rfuel r (r_pos r) [] HR ltac:(intros _; apply mu_fuel; exact HR)) as Hc.
      destruct Hc as (C1 & C2 & C3).
      { split; [lia|]. split; [cbn [map tileS]; split; [lia|apply NT_empty; lia]|]. split; [constructor|]. split; [lia|left; reflexivity]. }
      destruct (collect_loop rfuel r e tk esc (r_pos r) []) as [acc ps]. cbn [fst snd] in *.
      assert (Hshrink : forall E, endsLe acc E -> a <= E <= ps -> tileS src a E (map ispan acc)).
      { intros E HE HEp. eapply tileS_hi; [exact C2| |].
        - assert (Hg : forall (l : list inline) a0, a0 <= E -> Forall (fun x => iend x <= E /\ NK x) l -> sEnd a0 (map ispan l) <= E).
          { induction l as [|x l IHl]; intros a0 H0 Hf; cbn [map sEnd]; [exact H0|]. inversion Hf as [|? ? [Hx _] Hl]; subst. apply IHl; [cbn [ispan snd]; assumption|assumption]. }
          apply Hg; [lia|exact HE].
        - destruct (tileS_end _ _ _ _ C2) as [E1 E2]. eapply NT_sub; [| |exact E2]; lia. }
      assert (Hnk : Forall NK acc) by (eapply Forall_impl; [|exact C3]; cbv beta; intros x [_ Hx]; exact Hx).
      destruct (Z.ltb_spec ps e) as [L|L].
      - split; [|apply Forall_app; split; [exact Hnk|constructor; [apply NK_mkI|constructor]]]. rewrite map_app. cbn [map]. change (ispan (mkI tk ps e)) with (ps, e).
        eapply tileS_snoc; [exact C2|lia|apply NT_empty; lia|lia|lia|apply NT_empty; lia].
      - split; [apply Hshrink; [exact C3|lia]|exact Hnk].
    Qed.
  End Coll.

  (* ================= the scanners ================= *)
  Definition At (p : Z) : Prop := exists x tx p1, ik = p1 ++ x :: tx /\ istart x <= p < iend x.
  Lemma InS_At r u t : InS src ik r u t -> At (r_pos r).
  Proof. intros (_ & (p1 & p2 & Ei & _) & Hp & _). exists u, t, (p1 ++ p2). split; [rewrite <- app_assoc; exact Ei|exact Hp]. Qed.

  (* one step, whatever the character *)
  Lemma step1 r c r1 : RS r -> current r = (c, r1) ->
    RS (snd (next r1)) /\ r_pos r <= r_pos (snd (next r1)) /\ (fst (next r1) = false -> OutS src ik (snd (next r1))) /\
    (fst (next r1) = true -> (mu (snd (next r1)) < mu r)%nat) /\
    ((exists u t, InS src ik r u t /\ chOK src u (r_pos r) c /\ (forall q, r_pos r < q < r_pos (snd (next r1)) -> ~ inEnt ik q) /\
        r_prev (snd (next r1)) = r_pos r /\ (ikind u <> IndentKind -> r_pos r + 1 <= r_pos (snd (next r1))) /\
        (fst (next r1) = true -> exists u' t', InS src ik (snd (next r1)) u' t')) \/
     (OutS src ik r /\ r1 = r /\ next r1 = (false, r))).
  Proof.
    intros Hr Ec. destruct (RS_current r Hr) as (c' & r' & Ec' & Hr' & Ep & Ev & Hm). rewrite Ec in Ec'. inversion Ec'; subst c' r'. clear Ec'.
    pose proof (mu_current r Hr) as Hmc. rewrite Ec in Hmc. cbn [snd] in Hmc. pose proof (mu_next r1 Hr') as Hmn.
    destruct Hm as [(u & t & Hi & Hi1 & Hc)|(Ho & E1 & _)].
    - destruct (next_In src ik r1 u t He Hi1) as [[Eok Hs]|(Eok & Et & Ho & Epos & Eend & Eprev)].
      + pose proof Hs as (Hprev & Hcase).
        assert (Hgap : forall q, r_pos r1 < q < r_pos (snd (next r1)) -> ~ inEnt ik q) by (intros q Hq; eapply step_gap; eassumption).
        assert (Hle : r_pos r1 <= r_pos (snd (next r1))).
        { destruct Hcase as [(_ & _ & [[E _]|E])|(u2 & t2 & _ & _ & _ & E2 & Eend & Esrt)]; lia. }
        assert (Hex : exists u' t', InS src ik (snd (next r1)) u' t') by (destruct Hcase as [(H1 & _)|(u2 & t2 & _ & H2 & _)]; eauto).
        split; [left; exact Hex|]. split; [lia|]. split; [rewrite Eok; discriminate|]. split; [intros E; specialize (Hmn E); lia|].
        left. exists u, t. split; [exact Hi|]. split; [exact Hc|]. split; [intros q Hq; apply Hgap; lia|]. split; [lia|]. split; [|intros _; exact Hex].
        intros Nk. destruct Hcase as [(_ & _ & [[_ E]|E])|(u2 & t2 & _ & _ & _ & E2 & Eend & Esrt)]; [contradiction|lia|lia].
      + split; [right; exact Ho|]. split; [lia|]. split; [intros _; exact Ho|]. split; [rewrite Eok; discriminate|].
        left. exists u, t. split; [exact Hi|]. split; [exact Hc|]. split; [intros q Hq; lia|]. split; [lia|]. split; [intros _; lia|rewrite Eok; discriminate].
    - subst r1. rewrite (next_Out src ik r Ho). cbn [fst snd]. split; [right; exact Ho|]. split; [lia|]. split; [intros _; exact Ho|]. split; [discriminate|].
      right. split; [exact Ho|]. split; reflexivity.
  Qed.

  (* parseLinkLabel *)
  Lemma ll_skip_spec : forall fuel r chars a, RS r -> (exists c, current r = (c, r) /\ tx c = false) -> a <= r_pos r -> NX a (r_pos r) ->
    match ll_skip fuel r chars with
    | None => True
    | Some (r2, _) => (exists u t, InS src ik r u t) /\ (exists u t, InS src ik r2 u t) /\ r_pos r <= r_pos r2 /\ NX a (r_pos r2) /\
                      exists c, current r2 = (c, r2) /\ isSpaceTabOrLineEnding c = false /\ c <> 91 /\ c <> 93
    end.
  Proof.
    induction fuel as [|f IH]; intros r chars a Hr (c & Ec & Hx) Ha Hn; cbn [ll_skip]; [exact I|].
    pose proof (step_NX a r c r Hr Ec Hx Ha Hn) as (S1 & S2 & S3 & S4 & _).
    destruct (step1 r c r Hr Ec) as (_ & _ & _ & _ & T5).
    destruct (next r) as [ok r1]. cbn [fst snd] in *. destruct ok; cbn [negb]; [|exact I].
    assert (Hin0 : exists u t, InS src ik r u t) by (destruct T5 as [(u & t & Hi & _)|(_ & _ & E)]; [eauto|inversion E]).
    destruct (RS_current r1 S1) as (c1 & r2 & Ec1 & Hr2 & Ep2 & Ev2 & Hm2). rewrite Ec1.
    destruct ((maxChars <=? chars + 1) || (c1 =? 91) || (c1 =? 93)) eqn:Eb; [exact I|].
    apply orb_false_iff in Eb. destruct Eb as [Eb E93]. apply orb_false_iff in Eb. destruct Eb as [_ E91]. apply Z.eqb_neq in E91, E93.
    pose proof (current_idem r1 c1 r2 S1 Ec1) as Eid.
    destruct (isSpaceTabOrLineEnding c1) eqn:Ew; cbn [negb].
    - specialize (IH r2 (chars + 1) a Hr2 (ex_intro _ c1 (conj Eid (ws_tx c1 Ew))) ltac:(lia) ltac:(rewrite Ep2; exact S3)).
      destruct (ll_skip f r2 (chars + 1)) as [[r3 ch]|]; [|exact I]. destruct IH as (_ & I1 & I2 & I3 & I4). split; [exact Hin0|]. split; [exact I1|]. split; [lia|]. split; [exact I3|exact I4].
    - split; [exact Hin0|]. split.
      + destruct T5 as [(u & t & _ & _ & _ & _ & _ & T6)|(_ & _ & E)]; [|inversion E].
        destruct (T6 eq_refl) as (u' & t' & Hi'). destruct Hm2 as [(u2 & t2 & _ & Hi2 & _)|(Ho & _)]; [eauto|exfalso; eapply Out_not_In; eassumption].
      + split; [lia|]. split; [rewrite Ep2; exact S3|]. exists c1. split; [exact Eid|]. split; [exact Ew|split; assumption].
  Qed.

  Lemma ll_body_spec : forall fuel r chars ie lb, (exists u t, InS src ik r u t) -> lb <= r_pos r ->
    ((lb < ie <= r_pos r /\ NX ie (r_pos r)) \/ isSpaceTabOrLineEnding (fst (current r)) = false) ->
    match ll_body fuel r chars ie with
    | None => True
    | Some (r', ie') => (exists u t, InS src ik r' u t) /\ r_pos r <= r_pos r' /\ (exists c, current r' = (c, r')) /\
                        ((lb < ie' <= r_pos r' /\ NX ie' (r_pos r')) \/ (ie' = ie /\ fst (current r') = fst (current r) /\ r_pos r' = r_pos r))
    end.
  Proof.
    induction fuel as [|f IH]; intros r chars ie lb Hin Hlb Hpre; cbn [ll_body]; [exact I|]. assert (Hr : RS r) by (left; exact Hin).
    destruct (RS_current r Hr) as (c & r1 & Ec & Hr1 & Ep1 & Ev1 & Hm1). rewrite Ec in *. cbn [fst] in Hpre.
    pose proof (current_idem r c r1 Hr Ec) as Eid.
    destruct (negb ((chars <? maxChars) && negb (c =? 91) && negb (c =? 93))) eqn:Eexit.
    { split; [destruct Hm1 as [(u0 & t0 & _ & Hi0 & _)|(Ho & _)]; [eauto|destruct Hin as (u0 & t0 & Hi0); exfalso; eapply Out_not_In; eassumption]|]. split; [lia|]. split; [exists c; exact Eid|]. right. split; [reflexivity|]. rewrite Eid. split; [reflexivity|exact Ep1]. }
    destruct (step1 r c r1 Hr Ec) as (T1 & T2 & T3 & T4 & T5).
    destruct (Z.eqb_spec c 92) as [E92|N92].
    - (* backslash *)
      destruct (next r1) as [ok r2] eqn:En1. cbn [fst snd] in *. destruct ok; cbn [negb]; [|exact I].
      destruct T5 as [(u & t & Hi & Hc & Hgap & Hprev & Hadv & _)|(_ & _ & E)]; [|inversion E].
      destruct (cell_eq u (r_pos r) c Hc ltac:(lia) ltac:(lia)) as (_ & Nk). specialize (Hadv Nk).
      destruct (RS_current r2 T1) as (c2 & r3 & Ec2 & Hr3 & Ep3 & Ev3 & Hm3). rewrite Ec2.
      destruct (step1 r2 c2 r3 T1 Ec2) as (V1 & V2 & V3 & V4 & V5).
      pose proof (step_NX (r_pos r + 1) r2 c2 r3 T1 Ec2) as Hws.
      destruct (next r3) as [ok2 r4] eqn:En3. cbn [fst snd] in *. destruct ok2; cbn [negb]; [|exact I].
      rewrite Ep1, Ep3.
      set (ie2 := if negb (isSpaceTabOrLineEnding c2) then r_pos r2 + 1 else r_pos r + 1).
      assert (Hie2 : lb < ie2 <= r_pos r4 /\ NX ie2 (r_pos r4)).
      { unfold ie2. destruct (isSpaceTabOrLineEnding c2) eqn:Ew; cbn [negb].
        - destruct (Hws (ws_tx c2 Ew) ltac:(lia) ltac:(apply noEnt_NX; intros q Hq; apply Hgap; lia)) as (_ & W2 & W3 & _). split; [lia|exact W3].
        - destruct V5 as [(u2 & t2 & Hi2 & Hc2 & Hgap2 & Hprev2 & Hadv2 & _)|(_ & _ & E)]; [|inversion E].
          assert (Nk2 : ikind u2 <> IndentKind).
          { intros Ek2. destruct Hc2 as [[_ E32]|[Nk2 _]]; [subst c2; discriminate Ew|contradiction]. }
          specialize (Hadv2 Nk2). split; [lia|]. apply noEnt_NX. intros q Hq. apply Hgap2. lia. }
      assert (Hin4 : exists u t, InS src ik r4 u t) by (destruct V5 as [(u2 & t2 & _ & _ & _ & _ & _ & V6)|(_ & _ & E)]; [apply V6; reflexivity|inversion E]).
      specialize (IH r4 (chars + 1 + 1) ie2 lb Hin4 ltac:(lia) (or_introl Hie2)).
      destruct (ll_body f r4 (chars + 1 + 1) ie2) as [[r' ie']|]; [|exact I]. destruct IH as (I1 & I2 & I3 & I4).
      split; [exact I1|]. split; [lia|]. split; [exact I3|]. left. destruct I4 as [I4|(I4 & _ & I5)]; [exact I4|]. rewrite I4, I5. exact Hie2.
    - (* any other character *)
      pose proof (step_NX ie r c r1 Hr Ec) as Hws.
      destruct (next r1) as [ok r2] eqn:En1. cbn [fst snd] in *. destruct ok; cbn [negb]; [|exact I].
      destruct T5 as [(u & t & Hi & Hc & Hgap & Hprev & Hadv & T6)|(_ & _ & E)]; [|inversion E].
      rewrite Ep1.
      set (ie1 := if negb (isSpaceTabOrLineEnding c) then r_pos r + 1 else ie).
      assert (Hie1 : lb < ie1 <= r_pos r2 /\ NX ie1 (r_pos r2)).
      { unfold ie1. destruct (isSpaceTabOrLineEnding c) eqn:Ew; cbn [negb].
        - destruct Hpre as [(P1 & P2)|P]; [|discriminate P].
          destruct (Hws (ws_tx c Ew) ltac:(lia) P2) as (_ & W2 & W3 & _). split; [lia|exact W3].
        - assert (Nk : ikind u <> IndentKind).
          { intros Ek. destruct Hc as [[_ E32]|[Nk _]]; [subst c; discriminate Ew|contradiction]. }
          specialize (Hadv Nk). split; [lia|]. apply noEnt_NX. intros q Hq. apply Hgap. lia. }
      specialize (IH r2 (chars + 1) ie1 lb (T6 eq_refl) ltac:(lia) (or_introl Hie1)).
      destruct (ll_body f r2 (chars + 1) ie1) as [[r' ie']|]; [|exact I]. destruct IH as (I1 & I2 & I3 & I4).
      split; [exact I1|]. split; [lia|]. split; [exact I3|]. left. destruct I4 as [I4|(I4 & _ & I5)]; [exact I4|]. rewrite I4, I5. exact Hie1.
  Qed.

  Lemma spanValid_null : spanValid nullSpan = false. Proof. reflexivity. Qed.

  Lemma parseLinkLabel_spec fuel r : RS r ->
    let res := parseLinkLabel fuel r in
    let lspan := fst (fst res) in let linner := snd (fst res) in let r' := snd res in
    spanValid lspan = true ->
    (exists u t, InS src ik r u t) /\ RS r' /\ fst lspan = r_pos r /\ r_pos r <= fst linner /\ fst linner < snd linner /\ snd linner < snd lspan /\ snd lspan <= r_pos r' /\
    NX (r_pos r) (fst linner) /\ NX (snd linner) (r_pos r') /\ At (fst linner).
  Proof.
    intros Hr. cbv zeta. unfold parseLinkLabel.
    destruct (RS_current r Hr) as (c & r0 & Ec & Hr0 & Ep0 & Ev0 & Hm0). rewrite Ec.
    destruct (Z.eqb_spec c 91) as [E91|N91]; cbn [negb]; [|intros Hv; cbn in Hv; discriminate Hv].
    pose proof (current_idem r c r0 Hr Ec) as Eid0. assert (Htx0 : tx c = false) by (rewrite E91; reflexivity).
    pose proof (ll_skip_spec fuel r0 0 (r_pos r) Hr0 (ex_intro _ c (conj Eid0 Htx0)) ltac:(lia) ltac:(apply NX_empty; lia)) as Hsk.
    destruct (ll_skip fuel r0 0) as [[r1 chars]|]; [|intros Hv; cbn in Hv; discriminate Hv].
    destruct Hsk as (Hin00 & Hin1 & K2 & K3 & (c1 & Ec1 & Ew1 & N1a & N1b)).
    assert (Hw1 : isSpaceTabOrLineEnding (fst (current r1)) = false) by (rewrite Ec1; exact Ew1).
    pose proof (ll_body_spec fuel r1 chars (-1) (r_pos r1) Hin1 ltac:(lia) (or_intror Hw1)) as Hbd.
    destruct (ll_body fuel r1 chars (-1)) as [[r2 ie]|]; [|intros Hv; cbn in Hv; discriminate Hv].
    destruct Hbd as (Hin2 & B2 & (c2' & Ec2') & B4).
    assert (Hr2 : RS r2) by (left; exact Hin2).
    destruct (RS_current r2 Hr2) as (c2 & r3 & Ec2 & Hr3 & Ep3 & Ev3 & Hm3). rewrite Ec2.
    destruct (Z.eqb_spec c2 93) as [E93|N93]; cbn [negb]; [|intros Hv; cbn in Hv; discriminate Hv].
    destruct B4 as [(B4 & B5)|(_ & B4 & _)].
    2:{ exfalso. rewrite Ec2, Ec1 in B4. cbn [fst] in B4. congruence. }
    assert (Htx2 : tx c2 = false) by (rewrite E93; reflexivity).
    pose proof (step_NX ie r2 c2 r3 Hr2 Ec2 Htx2 ltac:(lia) B5) as (S1 & S2 & S3 & _).
    destruct (step1 r2 c2 r3 Hr2 Ec2) as (_ & _ & _ & _ & T5).
    destruct (next r3) as [ok r4]. cbn [fst snd] in *. intros _.
    destruct T5 as [(u & t & Hi & Hc & Hgap & Hprev & Hadv & _)|(Ho & _)]; [|destruct Hin2 as (u2 & t2 & Hi2); exfalso; eapply Out_not_In; eassumption].
    destruct (cell_eq u (r_pos r2) c2 Hc ltac:(lia) ltac:(lia)) as (_ & Nk). specialize (Hadv Nk).
    split.
    { destruct Hm0 as [(u0 & t0 & Hi0 & _)|(Ho & E0 & _)]; [eauto|]. exfalso. subst r0. destruct Hin00 as (u0 & t0 & Hi0). eapply Out_not_In; eassumption. }
    split; [exact S1|]. split; [rewrite Ep0; reflexivity|]. split; [lia|]. split; [lia|]. split; [lia|]. split; [lia|].
    split; [exact K3|]. split; [exact S3|]. destruct Hin1 as (u1 & t1 & Hi1). eapply InS_At; exact Hi1.
  Qed.

  (* ---- entries do not overlap ---- *)
  Lemma In_uniq : forall u u' q, In u ik -> In u' ik -> istart u <= q < iend u -> istart u' <= q < iend u' -> u = u'.
  Proof.
    pose proof He as [Hf Hs]. revert Hf Hs. generalize ik. intros l. induction l as [|x l IH]; intros Hf Hs u u' q Hu Hu' Hq Hq'; [destruct Hu|].
    inversion Hf as [|? ? Hx Hf']; subst. destruct Hs as [Hs1 Hs2].
    assert (Hall : forall j, In j l -> istart j < iend j) by (rewrite Forall_forall in Hf'; intros j Hj; apply (Hf' j Hj)).
    destruct Hu as [<-|Hu]; destruct Hu' as [<-|Hu'].
    - reflexivity.
    - specialize (Hs1 u' Hu'). lia.
    - specialize (Hs1 u Hu). lia.
    - apply (IH Hf' Hs2 u u' q); assumption.
  Qed.

  (* positions at which a reference cannot be running *)
  Definition StopAt (p : Z) : Prop := forall u, In u ik -> ikind u = UnparsedKind -> istart u <= p < iend u -> isEntCh (at_ src p) = false.
  Lemma Out_stop r : OutS src ik r -> StopAt (r_pos r).
  Proof. intros Ho u Hu _ Hp. exfalso. apply (Out_noEnt r (r_pos r) Ho ltac:(lia)). exists u. split; assumption. Qed.
  Lemma cur_stop r c r1 : RS r -> current r = (c, r1) -> (c <> 0 -> isEntCh c = false) -> StopAt (r_pos r).
  Proof.
    intros Hr Ec Hc. destruct (RS_current r Hr) as (c' & r' & Ec' & _ & _ & _ & Hm). rewrite Ec in Ec'. inversion Ec'; subst c' r'.
    destruct Hm as [(u & t & Hi & _ & Hch)|(Ho & _ & _)]; [|apply Out_stop, Ho].
    intros u' Hu' Ek' Hp'. pose proof (InS_In r u t Hi) as Hu. assert (Hp : istart u <= r_pos r < iend u) by (destruct Hi as (_ & _ & Hp & _); exact Hp).
    pose proof (In_uniq u u' (r_pos r) Hu Hu' Hp Hp') as <-.
    destruct Hch as [[Ek _]|[_ [[N E]|[E0 _]]]]; [rewrite Ek in Ek'; discriminate| |rewrite E0; reflexivity].
    rewrite <- E. apply Hc. lia.
  Qed.
  Lemma ctl_ent c : isASCIIControl c || (c =? 32) = true -> isEntCh c = false.
  Proof.
    unfold isASCIIControl, isEntCh, isASCIILetter, isASCIIDigit. intros H.
    repeat rewrite ?orb_true_iff, ?orb_false_iff, ?andb_true_iff, ?andb_false_iff, ?Z.leb_le, ?Z.eqb_eq, ?Z.leb_gt, ?Z.eqb_neq in *. lia.
  Qed.

  (* the first step after a character that is not a line ending stays in the entry *)
  Lemma At_succ r c r1 : RS r -> current r = (c, r1) -> c <> 32 -> c < 128 -> c <> 10 -> c <> 13 -> fst (next r1) = true -> At (r_pos r + 1).
  Proof.
    intros Hr Ec N32 L N10 N13 Hok. destruct (RS_current r Hr) as (c' & r' & Ec' & _ & Ep & _ & Hm). rewrite Ec in Ec'. inversion Ec'; subst c' r'.
    destruct Hm as [(u & t & Hi & Hi1 & Hch)|(Ho & E1 & _)].
    - destruct (cell_eq u (r_pos r) c Hch N32 L) as (Eat & Nk).
      destruct (next_same r1 u t Hi1 Nk) as (_ & Ep2 & [(_ & Hi2)|(Ef & _)]).
      + rewrite Ep, Eat. unfold isEOLz. apply orb_false_iff. split; apply Z.eqb_neq; assumption.
      + rewrite <- Ep, <- Ep2. eapply InS_At; exact Hi2.
      + rewrite Hok in Ef. discriminate.
    - subst r1. rewrite (next_Out src ik r Ho) in Hok. discriminate.
  Qed.

  (* parseLinkDestination *)
  Definition startOK (r : reader) (start : Z) : Prop :=
    start < r_pos r \/ (r_pos r = start /\ forall u t, InS src ik r u t -> ikind u <> IndentKind).
  Lemma step_start r start : RS r -> startOK r start -> fst (next r) = true -> RS (snd (next r)) /\ start < r_pos (snd (next r)) /\ (exists u t, InS src ik (snd (next r)) u t).
  Proof.
    intros Hr Hs Hok. destruct (RS_current r Hr) as (c & r0 & Ec & Hr0 & Ep & _ & Hm).
    pose proof (next_current r c r0 Hr Ec) as En. destruct (step1 r c r0 Hr Ec) as (T1 & T2 & _ & _ & T5). rewrite En in *.
    split; [exact T1|]. destruct T5 as [(u & t & Hi & _ & _ & _ & Hadv & T6)|(_ & _ & E)]; [|rewrite E in Hok; discriminate].
    split; [|apply T6, Hok]. destruct Hs as [Hs|[Hs1 Hs2]]; [lia|]. specialize (Hadv (Hs2 u t Hi)). lia.
  Qed.

  Lemma ld_angle_spec : forall fuel r start, RS r -> startOK r start ->
    let res := ld_angle fuel r start in
    spanValid (fst (fst res)) = true ->
    let te := snd (snd (fst res)) in
    fst (next r) = true /\ fst (fst (fst res)) = start /\ fst (snd (fst res)) = start + 1 /\ start + 1 <= te /\ at_ src te = 62 /\
    RS (snd res) /\ te + 1 <= r_pos (snd res) /\ NX te (r_pos (snd res)) /\ snd (fst (fst res)) = te + 1.
  Proof.
    induction fuel as [|f IH]; intros r start Hr Hs; cbv zeta; cbn [ld_angle]; [intros Hv; cbn in Hv; discriminate Hv|].
    pose proof (step_start r start Hr Hs) as Hst.
    destruct (next r) as [ok r1]. cbn [fst snd] in Hst. destruct ok; cbn [negb]; [|intros Hv; cbn in Hv; discriminate Hv].
    destruct (Hst eq_refl) as (Hr1 & Hp1 & Hin1). clear Hst.
    destruct (RS_current r1 Hr1) as (c & r2 & Ec & Hr2 & Ep2 & Ev2 & Hm2). rewrite Ec.
    destruct ((c =? 13) || (c =? 10)) eqn:Eeol; [intros Hv; cbn in Hv; discriminate Hv|].
    destruct (Z.eqb_spec c 92) as [E92|N92].
    - pose proof (current_idem r1 c r2 Hr1 Ec) as Eid.
      assert (Hs2 : startOK r2 start) by (left; lia).
      pose proof (step_start r2 start Hr2 Hs2) as Hst2.
      destruct (next r2) as [ok2 r3]. cbn [fst snd] in Hst2. destruct ok2; cbn [negb]; [|intros Hv; cbn in Hv; discriminate Hv].
      destruct (Hst2 eq_refl) as (Hr3 & Hp3 & Hin3). clear Hst2.
      destruct (RS_current r3 Hr3) as (c2 & r4 & Ec2 & Hr4 & Ep4 & Ev4 & Hm4). rewrite Ec2.
      destruct ((c2 =? 10) || (c2 =? 13)); [intros Hv; cbn in Hv; discriminate Hv|].
      intros Hv. destruct (IH r4 start Hr4 ltac:(left; lia) Hv) as (_ & I2). split; [reflexivity|exact I2].
    - destruct (Z.eqb_spec c 62) as [E62|N62].
      + assert (Htx : tx c = false) by (rewrite E62; reflexivity).
        pose proof (step_NX (r_pos r1) r1 c r2 Hr1 Ec Htx ltac:(lia) ltac:(apply NX_empty; lia)) as (S1 & S2 & S3 & _).
        destruct (step1 r1 c r2 Hr1 Ec) as (_ & _ & _ & _ & T5).
        destruct (next r2) as [ok3 r3]. cbn [fst snd] in *. intros _.
        destruct T5 as [(u & t & Hi & Hc & Hgap & Hprev & Hadv & _)|(Ho & _)]; [|destruct Hin1 as (u1 & t1 & Hi1); exfalso; eapply Out_not_In; eassumption].
        destruct (cell_eq u (r_pos r1) c Hc ltac:(lia) ltac:(lia)) as (Eat & Nk). specialize (Hadv Nk). rewrite Hprev.
        split; [reflexivity|]. split; [reflexivity|]. split; [reflexivity|]. split; [lia|]. split; [rewrite Eat; exact E62|]. split; [exact S1|]. split; [lia|split; [exact S3|reflexivity]].
      + intros Hv. destruct (IH r2 start Hr2 ltac:(left; lia) Hv) as (_ & I2). split; [reflexivity|exact I2].
  Qed.

  Lemma ld_bare_spec : forall fuel r paren, RS r -> (mu r < fuel)%nat ->
    RS (ld_bare fuel r paren) /\ r_pos r <= r_pos (ld_bare fuel r paren) /\ StopAt (r_pos (ld_bare fuel r paren)).
  Proof.
    induction fuel as [|f IH]; intros r paren Hr Hm; [lia|]. cbn [ld_bare].
    destruct (RS_current r Hr) as (c & r1 & Ec & Hr1 & Ep1 & Ev1 & Hm1). rewrite Ec.
    pose proof (current_idem r c r1 Hr Ec) as Eid.
    assert (Hstep : forall p', let r2 := snd (next r1) in
       RS (if fst (next r1) then ld_bare f r2 p' else r2) /\ r_pos r <= r_pos (if fst (next r1) then ld_bare f r2 p' else r2) /\
       StopAt (r_pos (if fst (next r1) then ld_bare f r2 p' else r2))).
    { intros p'. cbv zeta. destruct (step1 r c r1 Hr Ec) as (T1 & T2 & T3 & T4 & _).
      destruct (fst (next r1)) eqn:Eok.
      - destruct (IH (snd (next r1)) p' T1 ltac:(specialize (T4 eq_refl); lia)) as (I1 & I2 & I3). split; [exact I1|]. split; [lia|exact I3].
      - split; [exact T1|]. split; [exact T2|]. apply Out_stop, T3. reflexivity. }
    destruct (isASCIIControl c || (c =? 32)) eqn:Ectl.
    { split; [exact Hr1|]. split; [lia|]. rewrite Ep1. apply (cur_stop r c r1 Hr Ec). intros _. apply ctl_ent, Ectl. }
    destruct (Z.eqb_spec c 92) as [E92|N92].
    - destruct (step1 r c r1 Hr Ec) as (T1 & T2 & T3 & T4 & _).
      destruct (next r1) as [ok r2]. cbn [fst snd] in *. destruct ok; cbn [negb].
      2:{ split; [exact T1|]. split; [exact T2|]. apply Out_stop, T3. reflexivity. }
      specialize (T4 eq_refl).
      destruct (RS_current r2 T1) as (c2 & r3 & Ec2 & Hr3 & Ep3 & Ev3 & Hm3). rewrite Ec2.
      destruct (isASCIIControl c2 || (c2 =? 32)) eqn:Ectl2.
      { split; [exact Hr3|]. split; [lia|]. rewrite Ep3. apply (cur_stop r2 c2 r3 T1 Ec2). intros _. apply ctl_ent, Ectl2. }
      destruct (step1 r2 c2 r3 T1 Ec2) as (V1 & V2 & V3 & V4 & _).
      destruct (next r3) as [ok2 r4]. cbn [fst snd] in *. destruct ok2.
      + destruct (IH r4 paren V1 ltac:(specialize (V4 eq_refl); lia)) as (I1 & I2 & I3). split; [exact I1|]. split; [lia|exact I3].
      + split; [exact V1|]. split; [lia|]. apply Out_stop, V3. reflexivity.
    - destruct (Z.eqb_spec c 40) as [E40|N40].
      { specialize (Hstep (paren + 1)). cbv zeta in Hstep. destruct (next r1) as [ok r2]. cbn [fst snd] in Hstep. exact Hstep. }
      destruct (Z.eqb_spec c 41) as [E41|N41].
      { destruct (paren - 1 <? 0).
        - split; [exact Hr1|]. split; [lia|]. rewrite Ep1. apply (cur_stop r c r1 Hr Ec). intros _. rewrite E41. reflexivity.
        - specialize (Hstep (paren - 1)). cbv zeta in Hstep. destruct (next r1) as [ok r2]. cbn [fst snd] in Hstep. exact Hstep. }
      specialize (Hstep paren). cbv zeta in Hstep. destruct (next r1) as [ok r2]. cbn [fst snd] in Hstep. exact Hstep.
  Qed.

  Lemma parseLinkDestination_spec r : RS r -> (exists u t, InS src ik r u t) ->
    let res := parseLinkDestination rfuel r in
    spanValid (fst (fst res)) = true ->
    let ts := fst (snd (fst res)) in let te := snd (snd (fst res)) in
    fst (fst (fst res)) = r_pos r /\ r_pos r <= ts /\ NX (r_pos r) ts /\ ts <= te /\ At ts /\ StopAt te /\
    RS (snd res) /\ te <= r_pos (snd res) /\ NX te (r_pos (snd res)) /\ (te < r_pos (snd res) -> isEOLz (at_ src te) = false) /\
    te <= snd (fst (fst res)) <= r_pos (snd res).
  Proof.
    intros Hr Hin. cbv zeta. unfold parseLinkDestination.
    destruct (RS_current r Hr) as (c & r0 & Ec & Hr0 & Ep0 & Ev0 & Hm0). rewrite Ec.
    destruct Hm0 as [(u & t & Hi & Hi0 & Hch)|(Ho & _)]; [|destruct Hin as (u & t & Hi); exfalso; eapply Out_not_In; eassumption].
    destruct (Z.eqb_spec c 60) as [E60|N60].
    - destruct (cell_eq u (r_pos r) c Hch ltac:(lia) ltac:(lia)) as (Eat & Nk).
      assert (Hs : startOK r0 (r_pos r0)).
      { right. split; [reflexivity|]. intros u' t' Hi'. destruct (InS_uniq r0 u t u' t' Hi0 Hi') as [<- _]. exact Nk. }
      intros Hv. destruct (ld_angle_spec rfuel r0 (r_pos r0) Hr0 Hs Hv) as (A1 & A2 & A3 & A4 & A5 & A6 & A7 & A8 & A9).
      set (res := ld_angle rfuel r0 (r_pos r0)) in *. rewrite A2, A3, Ep0. split; [reflexivity|]. split; [lia|]. split.
      { intros q Hq _. replace q with (r_pos r) by lia. rewrite Eat, E60. reflexivity. }
      split; [rewrite <- Ep0; exact A4|]. split; [apply (At_succ r c r0 Hr Ec); try lia; exact A1|]. split.
      { intros u' _ _ _. rewrite A5. reflexivity. }
      split; [exact A6|]. split; [lia|]. split; [exact A8|]. split; [intros _; rewrite A5; reflexivity|rewrite A9; lia].
    - destruct (negb (isASCIIControl c) && negb (c =? 32) && negb (c =? 41)) eqn:Econd; [|intros Hv; cbn in Hv; discriminate Hv].
      intros _. cbn [fst snd].
      destruct (ld_bare_spec rfuel r0 0 Hr0 (mu_fuel r0 Hr0)) as (B1 & B2 & B3).
      rewrite Ep0 in *. split; [reflexivity|]. split; [lia|]. split; [apply NX_empty; lia|]. split; [exact B2|]. split; [eapply InS_At; exact Hi|].
      split; [exact B3|]. split; [exact B1|]. split; [lia|]. split; [apply NX_empty; lia|]. split; lia.
  Qed.

  (* parseLinkTitle *)
  Lemma lt_loop_spec : forall fuel r start term, RS r -> startOK r start -> term <> 32 -> term < 128 -> tx term = false ->
    let res := lt_loop fuel r start term in
    spanValid (fst (fst res)) = true ->
    let te := snd (snd (fst res)) in
    fst (next r) = true /\ fst (fst (fst res)) = start /\ fst (snd (fst res)) = start + 1 /\ start + 1 <= te /\ at_ src te = term /\
    RS (snd res) /\ te + 1 <= r_pos (snd res) /\ NX te (r_pos (snd res)) /\ snd (fst (fst res)) = te + 1.
  Proof.
    induction fuel as [|f IH]; intros r start term Hr Hs T32 T128 Ttx; cbv zeta; cbn [lt_loop]; [intros Hv; cbn in Hv; discriminate Hv|].
    pose proof (step_start r start Hr Hs) as Hst.
    destruct (next r) as [ok r1]. cbn [fst snd] in Hst. destruct ok; cbn [negb]; [|intros Hv; cbn in Hv; discriminate Hv].
    destruct (Hst eq_refl) as (Hr1 & Hp1 & Hin1). clear Hst.
    destruct (RS_current r1 Hr1) as (c & r2 & Ec & Hr2 & Ep2 & Ev2 & Hm2). rewrite Ec.
    destruct (Z.eqb_spec c 92) as [E92|N92].
    - assert (Hs2 : startOK r2 start) by (left; lia).
      pose proof (step_start r2 start Hr2 Hs2) as Hst2.
      destruct (next r2) as [ok2 r3]. cbn [fst snd] in Hst2. destruct ok2; cbn [negb]; [|intros Hv; cbn in Hv; discriminate Hv].
      destruct (Hst2 eq_refl) as (Hr3 & Hp3 & Hin3). clear Hst2.
      intros Hv. destruct (IH r3 start term Hr3 ltac:(left; lia) T32 T128 Ttx Hv) as (_ & I2). split; [reflexivity|exact I2].
    - destruct (Z.eqb_spec c term) as [Et|Nt].
      + assert (Htx : tx c = false) by (rewrite Et; exact Ttx).
        pose proof (step_NX (r_pos r1) r1 c r2 Hr1 Ec Htx ltac:(lia) ltac:(apply NX_empty; lia)) as (S1 & S2 & S3 & _).
        destruct (step1 r1 c r2 Hr1 Ec) as (_ & _ & _ & _ & T5).
        destruct (next r2) as [ok3 r3]. cbn [fst snd] in *. intros _.
        destruct T5 as [(u & t & Hi & Hc & Hgap & Hprev & Hadv & _)|(Ho & _)]; [|destruct Hin1 as (u1 & t1 & Hi1); exfalso; eapply Out_not_In; eassumption].
        destruct (cell_eq u (r_pos r1) c Hc ltac:(lia) ltac:(lia)) as (Eat & Nk). specialize (Hadv Nk). rewrite Hprev.
        split; [reflexivity|]. split; [reflexivity|]. split; [reflexivity|]. split; [lia|]. split; [rewrite Eat; exact Et|]. split; [exact S1|]. split; [lia|split; [exact S3|reflexivity]].
      + intros Hv. destruct (IH r2 start term Hr2 ltac:(left; lia) T32 T128 Ttx Hv) as (_ & I2). split; [reflexivity|exact I2].
  Qed.

  Lemma parseLinkTitle_spec r : RS r ->
    let res := parseLinkTitle rfuel r in
    spanValid (fst (fst res)) = true ->
    let ts := fst (snd (fst res)) in let te := snd (snd (fst res)) in
    fst (fst (fst res)) = r_pos r /\ ts = r_pos r + 1 /\ NX (r_pos r) ts /\ ts <= te /\ At ts /\ StopAt te /\ isEOLz (at_ src te) = false /\
    RS (snd res) /\ te + 1 <= r_pos (snd res) /\ NX te (r_pos (snd res)) /\ snd (fst (fst res)) = te + 1.
  Proof.
    intros Hr. cbv zeta. unfold parseLinkTitle.
    destruct (RS_current r Hr) as (c & r0 & Ec & Hr0 & Ep0 & Ev0 & Hm0). rewrite Ec.
    destruct ((c =? 39) || (c =? 34) || (c =? 40)) eqn:Eq; cbn [negb]; [|intros Hv; cbn in Hv; discriminate Hv].
    assert (Hc : c = 39 \/ c = 34 \/ c = 40) by (repeat rewrite orb_true_iff in Eq; repeat rewrite Z.eqb_eq in Eq; tauto).
    set (term := if c =? 40 then 41 else c).
    assert (Hterm : term = 39 \/ term = 34 \/ term = 41) by (unfold term; destruct Hc as [-> | [-> | ->]]; cbn; tauto).
    assert (Hs : startOK r0 (r_pos r0)).
    { right. split; [reflexivity|]. intros u' t' Hi'. destruct Hm0 as [(u & t & Hi & Hi0 & Hch)|(Ho & E0 & _)].
      - destruct (InS_uniq r0 u t u' t' Hi0 Hi') as [<- _]. apply (cell_eq u (r_pos r) c Hch); lia.
      - subst r0. exfalso. eapply Out_not_In; eassumption. }
    intros Hv.
    destruct (lt_loop_spec rfuel r0 (r_pos r0) term Hr0 Hs ltac:(lia) ltac:(lia) ltac:(destruct Hterm as [-> | [-> | ->]]; reflexivity) Hv) as (A1 & A2 & A3 & A4 & A5 & A6 & A7 & A8 & A9).
    set (res := lt_loop rfuel r0 (r_pos r0) term) in *. rewrite A2, A3, Ep0. split; [reflexivity|]. split; [reflexivity|]. split.
    { intros q Hq Hin. replace q with (r_pos r) in * by lia.
      destruct Hm0 as [(u & t & Hi & Hi0 & Hch)|(Ho & E0 & _)].
      - destruct (cell_eq u (r_pos r) c Hch ltac:(lia) ltac:(lia)) as (Eat & _). rewrite Eat. destruct Hc as [-> | [-> | ->]]; reflexivity.
      - exfalso. apply (Out_noEnt r (r_pos r) Ho ltac:(lia)). exact Hin. }
    split; [rewrite <- Ep0; exact A4|]. split; [apply (At_succ r c r0 Hr Ec); try lia; exact A1|]. split.
    { intros u' _ _ _. rewrite A5. destruct Hterm as [-> | [-> | ->]]; reflexivity. }
    split; [rewrite A5; destruct Hterm as [-> | [-> | ->]]; reflexivity|]. split; [exact A6|]. split; [exact A7|split; [exact A8|exact A9]].
  Qed.

  (* readEOL on a line ending takes it *)
  Lemma readEOL_at_eol r u t : InS src ik r u t -> ikind u = UnparsedKind -> isEOLz (at_ src (r_pos r)) = true -> r_pos r + 1 <= fst (readEOL rfuel r).
  Proof.
    intros Hi Ek Heol. assert (Hr : RS r) by (left; eauto). pose proof (mu_fuel r Hr) as Hf. destruct rfuel as [|f]; [lia|].
    unfold readEOL. cbn [skipSpacesAndTabs].
    destruct (RS_current r Hr) as (c & r1 & Ec & Hr1 & Ep1 & Ev1 & Hm1). rewrite Ec.
    assert (Hc : c = at_ src (r_pos r)).
    { destruct Hm1 as [(u' & t' & Hi' & _ & Hch)|(Ho & _)]; [|exfalso; eapply Out_not_In; eassumption].
      destruct (InS_uniq r u t u' t' Hi Hi') as [<- _]. destruct Hch as [[Ek' _]|[_ [[_ E]|[E0 _]]]]; [rewrite Ek in Ek'; discriminate|exact E|].
      rewrite E0 in Heol. discriminate. }
    assert (Hc2 : c = 10 \/ c = 13) by (rewrite Hc; unfold isEOLz in Heol; apply orb_true_iff in Heol; destruct Heol as [E|E]; apply Z.eqb_eq in E; tauto).
    assert (Esp : isSpTab c = false) by (destruct Hc2 as [-> | ->]; reflexivity). rewrite Esp.
    assert (En0 : (c =? 0) = false) by (destruct Hc2 as [-> | ->]; reflexivity). rewrite En0. cbn [negb].
    pose proof (current_idem r c r1 Hr Ec) as Eid. rewrite Eid.
    destruct (step1 r c r1 Hr Ec) as (T1 & T2 & T3 & T4 & T5).
    destruct T5 as [(u' & t' & _ & _ & _ & Hprev & _ & _)|(Ho & _)]; [|exfalso; eapply Out_not_In; eassumption].
    destruct (Z.eqb_spec c 13) as [E13|N13].
    - destruct (next r1) as [ok2 r3]. cbn [fst snd] in *. destruct ok2; cbn [negb]; [|cbn [fst]; lia].
      destruct (RS_current r3 T1) as (c2 & r4 & Ec2 & Hr4 & Ep4 & Ev4 & Hm4). rewrite Ec2.
      destruct (c2 =? 10).
      + destruct (step1 r3 c2 r4 T1 Ec2) as (_ & _ & _ & _ & V5).
        destruct (next r4) as [ok3 r5]. cbn [fst snd] in *.
        destruct V5 as [(u3 & t3 & _ & _ & _ & Hprev3 & _ & _)|(Ho & _ & E)]; [lia|]. inversion E; subst. destruct Ho as (_ & _ & _ & _ & Hpp). lia.
      + cbn [fst]. lia.
    - assert (E10 : (c =? 10) = true) by (destruct Hc2 as [-> | ->]; [reflexivity|contradiction]). rewrite E10.
      destruct (next r1) as [ok2 r3]. cbn [fst snd] in *. lia.
  Qed.

  (* ---- a reader past the last entry ---- *)
  Lemma ld_bare_Out fuel r p : OutS src ik r -> ld_bare fuel r p = r.
  Proof.
    intros Ho. destruct fuel as [|f]; [reflexivity|]. cbn [ld_bare]. destruct (current_Out src ik r Ho) as (c & Ec). rewrite Ec.
    rewrite (next_Out src ik r Ho). destruct (isASCIIControl c || (c =? 32)); [reflexivity|]. destruct (c =? 92); [reflexivity|].
    destruct (c =? 40); [reflexivity|]. destruct (c =? 41); [destruct (p - 1 <? 0); reflexivity|reflexivity].
  Qed.
  Lemma pld_Out fuel r : (0 < fuel)%nat -> OutS src ik r -> exists c, current r = (c, r) /\
    (parseLinkDestination fuel r = (nullSpan, nullSpan, r) \/
     (parseLinkDestination fuel r = ((r_pos r, r_pos r), (r_pos r, r_pos r), r) /\ isASCIIControl c = false /\ c <> 32)).
  Proof.
    intros Hfu Ho. destruct fuel as [|f]; [lia|]. destruct (current_Out src ik r Ho) as (c & Ec). exists c. split; [exact Ec|]. unfold parseLinkDestination. rewrite Ec.
    destruct (c =? 60).
    - left. cbn [ld_angle]. rewrite (next_Out src ik r Ho). reflexivity.
    - destruct (isASCIIControl c) eqn:E1; cbn [negb andb]; [left; reflexivity|]. destruct (Z.eqb_spec c 32) as [E2|N2]; cbn [negb andb]; [left; reflexivity|].
      destruct (c =? 41); cbn [negb]; [left; reflexivity|]. right. rewrite ld_bare_Out by exact Ho. split; [reflexivity|split; [reflexivity|exact N2]].
  Qed.
  Lemma readEOL_Out fuel r c : (0 < fuel)%nat -> OutS src ik r -> current r = (c, r) -> isASCIIControl c = false -> c <> 32 -> readEOL fuel r = (-1, r).
  Proof.
    intros Hfu Ho Ec H1 H2. destruct fuel as [|f]; [lia|]. unfold readEOL. cbn [skipSpacesAndTabs]. rewrite Ec.
    assert (N9 : c <> 9 /\ c <> 0 /\ c <> 13 /\ c <> 10).
    { unfold isASCIIControl in H1. apply orb_false_iff in H1. destruct H1 as [H1 _]. apply Z.leb_gt in H1. lia. }
    unfold isSpTab. replace (c =? 32) with false by (symmetry; apply Z.eqb_neq; lia). replace (c =? 9) with false by (symmetry; apply Z.eqb_neq; lia). cbn [orb].
    replace (c =? 0) with false by (symmetry; apply Z.eqb_neq; lia). cbn [negb]. rewrite Ec.
    replace (c =? 13) with false by (symmetry; apply Z.eqb_neq; lia). replace (c =? 10) with false by (symmetry; apply Z.eqb_neq; lia). reflexivity.
  Qed.

  Lemma RS_pos0 r : RS r -> 0 <= r_pos r.
  Proof.
    intros [(u & t & Hi)|Ho].
    - pose proof (InS_In r u t Hi) as Hu. destruct (In_entOK u Hu) as (U1 & _). destruct Hi as (_ & _ & Hp & _). lia.
    - destruct Ho as (_ & _ & _ & (pre & u & Ei & Ep) & _). assert (Hu : In u ik) by (rewrite Ei; apply in_or_app; right; left; reflexivity).
      destruct (In_entOK u Hu) as (U1 & U2 & _). lia.
  Qed.
  Lemma step_prev0 r c r1 : RS r -> current r = (c, r1) -> 0 <= r_prev (snd (next r1)) + 1.
  Proof.
    intros Hr Ec. pose proof (RS_pos0 r Hr) as H0. destruct (step1 r c r1 Hr Ec) as (_ & _ & _ & _ & T5).
    destruct T5 as [(u & t & Hi & _ & _ & Hprev & _)|(Ho & E1 & E2)]; [lia|]. rewrite E2. cbn [snd]. destruct Ho as (_ & _ & _ & _ & Hpp). lia.
  Qed.
  (* when readEOL finds no line ending the reader shows a character that is neither white space nor the end *)
  Lemma readEOL_neg r : RS r -> fst (readEOL rfuel r) < 0 ->
    exists c, current (snd (readEOL rfuel r)) = (c, snd (readEOL rfuel r)) /\ isSpaceTabOrLineEnding c = false /\ c <> 0.
  Proof.
    intros Hr. unfold readEOL. destruct (sst_spec rfuel r Hr) as (S1 & S2 & _ & S4).
    destruct (skipSpacesAndTabs rfuel r) as [ok r1]. cbn [fst snd] in *. destruct ok; cbn [negb].
    2:{ cbn [fst]. intros Hn. exfalso. pose proof (RS_pos0 r1 S1). lia. }
    destruct (S4 eq_refl) as (c & r2 & Ec & Hsp & Hc0). rewrite Ec.
    pose proof (current_idem r1 c r2 S1 Ec) as Eid.
    destruct (Z.eqb_spec c 13) as [E13|N13].
    { pose proof (step_prev0 r1 c r2 S1 Ec) as Hpv. destruct (step1 r1 c r2 S1 Ec) as (Hr3 & _).
      destruct (next r2) as [ok2 r3]. cbn [fst snd] in *. destruct ok2; cbn [negb]; [|cbn [fst]; lia].
      destruct (RS_current r3 Hr3) as (c2 & r4 & Ec3 & Hr4 & Ep4 & Ev4 & _). rewrite Ec3.
      destruct (c2 =? 10).
      - pose proof (step_prev0 r3 c2 r4 Hr3 Ec3) as Hpv2. destruct (next r4) as [ok5 r5]. cbn [fst snd] in *. lia.
      - cbn [fst snd]. lia. }
    destruct (Z.eqb_spec c 10) as [E10|N10].
    { pose proof (step_prev0 r1 c r2 S1 Ec) as Hpv. destruct (next r2) as [ok2 r3]. cbn [fst snd] in *. lia. }
    cbn [fst snd]. intros _. exists c. split; [exact Eid|]. split; [|exact Hc0].
    unfold isSpaceTabOrLineEnding. unfold isSpTab in Hsp. apply orb_false_iff in Hsp. destruct Hsp as [H32 H9]. rewrite H32, H9. cbn [orb].
    apply orb_false_iff. split; apply Z.eqb_neq; assumption.
  Qed.
  Lemma sls_true fuel r c : current r = (c, r) -> c <> 0 -> isSpaceTabOrLineEnding c = false -> skipLinkSpace fuel r = (true, r).
  Proof.
    intros Ec N0 Hw. unfold skipLinkSpace. rewrite Ec. replace (c =? 0) with false by (symmetry; apply Z.eqb_neq; exact N0).
    destruct fuel as [|f]; [reflexivity|]. cbn [skipLinkSpace_loop]. rewrite Ec, Hw. reflexivity.
  Qed.

  (* ================= onCloseParagraph's loop ================= *)
  Section Ocp.
    Variable K : Z.
    Hypothesis HK : isParaK K = true.
    Hypothesis Hf : Forall (eok src K) ik.
    Hypothesis Hbe : bnd0 src hi.
    Hypothesis Hio : indOK ik.

    Definition OInv (orig : block) (r : reader) (u : inline) (t : list inline) (result : list block) : Prop :=
      (exists pre, ik = pre ++ u :: t) /\ bik orig = u :: t /\ InS src ik r u t /\ r_pos r = istart u /\
      bkids orig = [] /\ bend orig = hi /\ bkind orig = K /\ lo <= bstart orig <= istart u /\ NT src (bstart orig) (istart u) /\
      allQ (la src hi) result /\ tchain src false lo (bstart orig) result.

    Lemma leafK : isLeafK K = true.
    Proof. unfold isParaK in HK. unfold isLeafK. apply orb_true_iff in HK. destruct HK as [E|E]; rewrite E; rewrite ?orb_true_r; reflexivity. Qed.
    Lemma suffix_tile pre u t : ik = pre ++ u :: t ->
      istart u <= iend u /\ tileS src (iend u) hi (map ispan t) /\ Forall (eok src K) (u :: t) /\ iend u <= hi.
    Proof.
      intros Ei. pose proof Ht as Ht'. rewrite Ei, map_app in Ht'. apply tileS_app in Ht'. destruct Ht' as [_ Ht']. cbn [map tileS ispan fst snd] in Ht'.
      destruct Ht' as (_ & _ & A & B). split; [exact A|]. split; [exact B|]. split; [|apply (tileS_le _ _ _ _ B)].
      rewrite Ei in Hf. apply Forall_app in Hf. apply Hf.
    Qed.
    Lemma la_orig orig u t pre : ik = pre ++ u :: t -> bik orig = u :: t -> bkids orig = [] -> bend orig = hi -> bkind orig = K ->
      lo <= bstart orig <= istart u -> NT src (bstart orig) (istart u) -> la src hi orig.
    Proof.
      intros Ei Eb Ek Ee EK Hs Hn. destruct (suffix_tile pre u t Ei) as (A & B & C & D).
      apply la_leaf_closed; [exact Ek|lia|rewrite Ee; lia|rewrite Ee; lia|rewrite Ee; exact Hbe|].
      rewrite body_leaf by (rewrite EK; exact leafK). rewrite hiOf_closed by (rewrite Ee; lia). rewrite Ee, Eb, EK. split; [|split; [exact C|]].
      cbn [map tileS ispan fst snd]. split; [lia|]. split; [exact Hn|]. split; [exact A|exact B].
      intros _. rewrite Ei in Hio. apply indOK_suffix in Hio. exact Hio.
    Qed.
    Lemma exit_orig orig r u t result : OInv orig r u t result ->
      allQ (la src hi) (result ++ [orig]) /\ tchain src false lo hi (result ++ [orig]).
    Proof.
      intros ((pre & Ei) & Eb & Hi & Ep & Ek & Ee & EK & Hs & Hn & Hq & Hc). destruct (suffix_tile pre u t Ei) as (A & B & C & D).
      split.
      - apply allQ_app. split; [exact Hq|]. split; [|exact I]. eapply la_orig; eassumption.
      - eapply tchain_cat; [exact Hc|]. apply tchain_one; rewrite ?Ee; try lia; apply NT_empty; lia.
    Qed.
    Lemma exit_def orig r u t result eol kids : OInv orig r u t result -> istart u <= eol <= hi -> bnd0 src eol ->
      tileS src (istart u) eol (defSpans kids) /\ ordIn (istart u) eol (flat_map leavesI kids) -> NT src eol hi ->
      allQ (la src hi) (result ++ [refDefBlock (istart u) eol kids]) /\ tchain src false lo hi (result ++ [refDefBlock (istart u) eol kids]).
    Proof.
      intros ((pre & Ei) & Eb & Hi & Ep & Ek & Ee & EK & Hs & Hn & Hq & Hc) He1 Hb [Htl Hol] Hnt.
      split.
      - apply allQ_app. split; [exact Hq|]. split; [|exact I]. apply la_refDef; [lia|lia|lia|exact Hb|exact Htl|exact Hol].
      - eapply tchain_cat; [exact Hc|]. apply tchain_one; cbn [bstart bend refDefBlock]; try lia; assumption.
    Qed.
    Lemma cont_def orig r u t result eol kids r' u' t' : OInv orig r u t result -> istart u <= eol <= istart u' -> bnd0 src eol ->
      tileS src (istart u) eol (defSpans kids) /\ ordIn (istart u) eol (flat_map leavesI kids) -> NT src eol (istart u') -> InS src ik r' u' t' -> r_pos r' = istart u' ->
      OInv (set_bik (set_bstart orig (istart u')) (u' :: t')) r' u' t' (result ++ [refDefBlock (istart u) eol kids]).
    Proof.
      intros ((pre & Ei) & Eb & Hi & Ep & Ek & Ee & EK & Hs & Hn & Hq & Hc) He1 Hb [Htl Hol] Hnt Hi' Ep'.
      pose proof (InS_In r' u' t' Hi') as Hu'. pose proof (tileS_In _ _ _ _ (ispan u') Ht ltac:(apply in_map; exact Hu')) as (P1 & P2 & P3). cbn [ispan fst snd] in *.
      split; [destruct Hi' as (_ & (p1 & p2 & Ei' & _) & _); exists (p1 ++ p2); rewrite <- app_assoc; exact Ei'|].
      destruct orig as [kd s e bk bi a n c l lb]. cbn [set_bik set_bstart bik bkids bend bkind bstart] in *.
      split; [reflexivity|]. split; [exact Hi'|]. split; [exact Ep'|]. split; [exact Ek|]. split; [exact Ee|]. split; [exact EK|]. split; [lia|]. split; [apply NT_empty; lia|].
      split.
      - apply allQ_app. split; [exact Hq|]. split; [|exact I]. apply la_refDef; [lia|lia|lia|exact Hb|exact Htl|exact Hol].
      - eapply tchain_cat; [exact Hc|]. apply tchain_one; cbn [bstart bend refDefBlock]; try lia; assumption.
    Qed.

    Lemma newReader_In pre u t p : ik = pre ++ u :: t -> At p -> istart u <= p -> exists x tx, InS src ik (newReader src (u :: t) p) x tx.
    Proof.
      intros Ei (x & tx & p1 & Ei' & Hp) Hu. destruct He as [_ Hsrt].
      destruct (suffix_of pre ik u t p1 x tx p Hsrt Ei Ei' Hu Hp) as (mid & Em). exists x, tx. split; [reflexivity|]. split; [|split; [exact Hp|cbn [r_vpos newReader]; lia]].
      exists pre, mid. cbn [r_spans newReader]. split; [rewrite Ei, Em; reflexivity|exact Em].
    Qed.
    Lemma ut_facts pre u t : ik = pre ++ u :: t -> sortedS (u :: t) /\ (forall y, In y (u :: t) -> 0 <= istart y < iend y).
    Proof.
      intros Ei. pose proof He as He'. rewrite Ei in He'. apply ENT_app in He'. destruct He' as [Hfa Hs]. split; [exact Hs|].
      intros y Hy. rewrite Forall_forall in Hfa. destruct (Hfa y Hy) as (A & B & _). lia.
    Qed.
    Lemma cut_in pre u t r' u' t' : ik = pre ++ u :: t -> InS src ik r' u' t' -> istart u <= r_pos r' ->
      (nodeIndexForPosition (u :: t) (r_pos r') <? 0) = false /\ from_ (u :: t) (nodeIndexForPosition (u :: t) (r_pos r')) = u' :: t'.
    Proof.
      intros Ei Hi' Hu. destruct (ut_facts pre u t Ei) as [Hs Hpos]. destruct He as [_ Hsrt].
      destruct Hi' as (_ & (p1 & p2 & Ei' & _) & Hp & _). rewrite app_assoc in Ei'.
      destruct (suffix_of pre ik u t (p1 ++ p2) u' t' (r_pos r') Hsrt Ei Ei' Hu Hp) as (mid & Em). rewrite Em in *.
      destruct (nip_in mid u' t' (r_pos r') Hs Hpos Hp) as [N1 N2]. rewrite N1. split; [apply Z.ltb_ge, len_nonneg|exact N2].
    Qed.
    Lemma cut_out pre u t r' : ik = pre ++ u :: t -> OutS src ik r' -> (nodeIndexForPosition (u :: t) (r_pos r') <? 0) = true.
    Proof.
      intros Ei (_ & _ & Hall & _). unfold nodeIndexForPosition. rewrite nip_out; [reflexivity|]. intros y Hy. apply Hall. rewrite Ei. apply in_or_app. right. exact Hy.
    Qed.
    Lemma NT_to_hi a r' : OutS src ik r' -> lo <= a -> a <= r_pos r' -> NX a (r_pos r') -> NT src a hi.
    Proof.
      intros Ho Ha Hle Hn. pose proof (RS_pos_hi r' (or_intror Ho) ltac:(lia)) as Hh.
      eapply NT_app; [apply NX_NT; [exact Ha|exact Hh|exact Hn]|]. apply noEnt_NT; [lia|lia|]. intros q Hq. apply (Out_noEnt r' q Ho). lia.
    Qed.

    (* after a definition that ends at eol: either the paragraph is used up, or it goes on at the reader's entry *)
    Lemma cut_ok orig r u t result eol kids r' : OInv orig r u t result -> istart u <= eol ->
      tileS src (istart u) eol (defSpans kids) /\ ordIn (istart u) eol (flat_map leavesI kids) ->
      RS r' -> eol <= r_pos r' -> (forall q, eol <= q < r_pos r' -> ~ inEnt ik q) -> bnd0 src eol -> (forall u' t', InS src ik r' u' t' -> r_pos r' = istart u') ->
      let nb := refDefBlock (istart u) eol kids in
      let fc := nodeIndexForPosition (u :: t) (r_pos r') in
      ((fc <? 0) = true /\ allQ (la src hi) (result ++ [nb]) /\ tchain src false lo hi (result ++ [nb])) \/
      ((fc <? 0) = false /\ exists u' t', OInv (set_bik (set_bstart orig (r_pos r')) (from_ (u :: t) fc)) r' u' t' (result ++ [nb])).
    Proof.
      intros HI Hle Htl Hr' Hle' Hgap Hb Hst. cbv zeta. pose proof HI as ((pre & Ei) & Eb & Hi & Ep & Ek & Ee & EK & Hs & Hn & Hq & Hc).
      pose proof (RS_pos_hi r' Hr' ltac:(lia)) as Hh.
      destruct Hr' as [(u' & t' & Hi')|Ho'].
      - right. destruct (cut_in pre u t r' u' t' Ei Hi' ltac:(lia)) as [C1 C2]. split; [exact C1|]. exists u', t'. rewrite C2. rewrite (Hst u' t' Hi').
        apply (cont_def orig r u t result eol kids r' u' t' HI); [rewrite <- (Hst u' t' Hi'); lia|exact Hb|exact Htl| |exact Hi'|apply (Hst u' t' Hi')].
        rewrite <- (Hst u' t' Hi'). apply noEnt_NT; [lia|exact Hh|exact Hgap].
      - left. split; [apply (cut_out pre u t r' Ei Ho')|]. apply (exit_def orig r u t result eol kids HI); [lia|exact Hb|exact Htl|].
        apply (NT_to_hi eol r' Ho'); [lia|exact Hle'|apply noEnt_NX; exact Hgap].
    Qed.

    Lemma lvOK_ik x : In x ik -> lvOK x.
    Proof. intros Hx. rewrite Forall_forall in Hf. apply (Hf x Hx). Qed.
    Lemma nodes_ord : forall l a e, tileS src a e (map ispan l) -> Forall (NK) l -> ordIn a e (flat_map leavesI l).
    Proof.
      induction l as [|x l IH]; intros a e Htl Hnk; cbn [map tileS flat_map ordIn] in *; [apply Htl|].
      destruct Htl as (A & _ & B & C). inversion Hnk as [|? ? Hx Hl]; subst. cbn [ispan fst snd] in *.
      assert (Hlv : lvOK x) by (destruct Hx as [Hx|Hx]; [apply lvOK_kidless; assumption|apply lvOK_ik, Hx]).
      eapply ordIn_cat; [eapply ordIn_lo; [exact Hlv|exact A]|apply IH; assumption].
    Qed.
    Lemma inl_ord k s e ind rf ks s' e' : s <= s' -> e' <= e -> ordIn s' e' (flat_map leavesI ks) -> ordIn s e (leavesI (Inl k s e ind rf ks)).
    Proof.
      intros A B H. pose proof (ordIn_le _ _ _ H) as Hle. cbn [leavesI]. destruct ks as [|k0 kr]; [cbn [ordIn fst snd]; lia|].
      eapply ordIn_lo; [eapply ordIn_hi; [exact H|exact B]|exact A].
    Qed.

    Lemma rfuel_pos r : RS r -> (0 < rfuel)%nat. Proof. intros Hr. pose proof (mu_fuel r Hr). lia. Qed.

    Lemma ocp_loop_ok : forall fuel orig r u t result, OInv orig r u t result ->
      allQ (la src hi) (ocp_loop fuel rfuel src orig None r result) /\ tchain src false lo hi (ocp_loop fuel rfuel src orig None r result).
    Proof.
      induction fuel as [|f IH]; intros orig r u t result HI; [cbn [ocp_loop]; eapply exit_orig; exact HI|].
      pose proof (exit_orig orig r u t result HI) as Hexit.
      pose proof HI as ((pre & Ei) & Eb & Hi & Ep & Ek & Ee & EK & Hs & Hn & Hq & Hc).
      assert (Hr : RS r) by (left; eauto). pose proof (rfuel_pos r Hr) as Hfu.
      pose proof (InS_In r u t Hi) as Hu. pose proof (In_lo u Hu) as Hlu.
      cbn [ocp_loop]. cbv zeta.
      (* the label *)
      pose proof (parseLinkLabel_spec rfuel r Hr) as PL. cbv zeta in PL.
      destruct (parseLinkLabel rfuel r) as [[lspan linner] r1]. cbn [fst snd] in PL.
      destruct (spanValid lspan) eqn:Evl; cbn [negb]; [|exact Hexit].
      destruct (PL eq_refl) as (_ & Hr1 & L1 & L2 & L3 & L4 & L5 & L6 & L7 & L8). clear PL.
      destruct lspan as [ls le]. destruct linner as [is ie]. cbn [fst snd] in *.
      (* the colon *)
      destruct (RS_current r1 Hr1) as (c & r2 & Ec & Hr2 & Ep2 & Ev2 & Hm2). rewrite Ec.
      destruct (Z.eqb_spec c 58) as [E58|N58]; cbn [negb]; [|exact Hexit].
      assert (Htx58 : tx c = false) by (rewrite E58; reflexivity).
      pose proof (step_NX ie r1 c r2 Hr1 Ec Htx58 ltac:(lia) L7) as (Hr3 & C2 & C3 & _).
      destruct (next r2) as [ok3 r3]. cbn [fst snd] in *.
      (* white space *)
      pose proof (sls_spec rfuel r3 Hr3) as (Hr4 & W2 & W3 & _).
      destruct (skipLinkSpace rfuel r3) as [ok4 r4]. cbn [fst snd] in *. destruct ok4; cbn [negb]; [|exact Hexit].
      assert (N4 : NX ie (r_pos r4)) by (eapply NX_app; eassumption).
      (* the destination *)
      destruct Hr4 as [Hin4|Ho4].
      2:{ (* past the last entry nothing can follow *)
          destruct (pld_Out rfuel r4 Hfu Ho4) as (c4 & Ec4 & [E|(E & H1 & H2)]); rewrite E; cbv beta iota.
          - rewrite spanValid_null. cbn [negb]. exact Hexit.
          - pose proof (RS_pos0 r4 (or_intror Ho4)) as H0.
            assert (Ev : spanValid (r_pos r4, r_pos r4) = true).
            { unfold spanValid. cbn [fst snd]. rewrite !andb_true_iff, !Z.leb_le. lia. }
            rewrite Ev. cbn [negb]. rewrite (readEOL_Out rfuel r4 c4 Hfu Ho4 Ec4 H1 H2). cbv beta iota. rewrite Ec4.
            assert (N0 : (c4 =? 0) = false).
            { apply Z.eqb_neq. intros ->. discriminate H1. }
            rewrite N0, Z.eqb_refl. cbn [Z.ltb Z.compare andb negb]. exact Hexit. }
      pose proof (parseLinkDestination_spec r4 (or_introl Hin4) Hin4) as PD. cbv zeta in PD.
      destruct (parseLinkDestination rfuel r4) as [[dspan dtext] r5]. cbn [fst snd] in PD.
      destruct (spanValid dspan) eqn:Evd; cbn [negb]; [|exact Hexit].
      destruct (PD eq_refl) as (D1 & D2 & D3 & D4 & D5 & D6 & Hr5 & D8 & D9 & D10 & D11). clear PD.
      destruct dspan as [ds de]. destruct dtext as [ts te]. cbn [fst snd] in *.
      (* the line ending after the destination *)
      pose proof (readEOL_spec r5 Hr5) as (Hr6 & Q2 & Q3 & Q4). pose proof (readEOL_neg r5 Hr5) as Qn.
      destruct (readEOL rfuel r5) as [destEOL r6]. cbn [fst snd] in *.
      destruct (RS_current r6 Hr6) as (c6 & r7 & Ec6 & Hr7 & Ep7 & Ev7 & Hm7). rewrite Ec6.
      destruct ((destEOL <? 0) && (r_pos r6 =? r_pos r5) && negb (c6 =? 0)) eqn:Econd; [exact Hexit|].
      rewrite Eb. subst ls. rewrite Ep in *.
      set (Lk := collectTextNodes rfuel (newReader src (u :: t) is) ie TextKind false).
      set (Dk := collectTextNodes rfuel (newReader src (u :: t) ts) te TextKind true).
      set (LI := Inl LinkLabelKind is ie 0 (transformLinkReferenceSpan rfuel src (u :: t) is ie) Lk).
      set (DI := Inl LinkDestinationKind ds de 0 [] Dk).
      assert (Hh1 : r_pos r1 <= hi) by (apply RS_pos_hi; [exact Hr1|lia]).
      assert (Hh4 : r_pos r4 <= hi) by (apply RS_pos_hi; [left; exact Hin4|lia]).
      assert (Hh5 : r_pos r5 <= hi) by (apply RS_pos_hi; [exact Hr5|lia]).
      assert (Hh6 : r_pos r6 <= hi) by (apply RS_pos_hi; [exact Hr6|lia]).
      (* the children of the label *)
      assert (TL0 : tileS src is ie (map ispan Lk) /\ Forall NK Lk).
      { destruct (newReader_In pre u t is Ei L8 ltac:(lia)) as (x & tx & Hix).
        assert (Hst0 : false = true -> forall u0, In u0 ik -> ikind u0 = UnparsedKind -> istart u0 <= ie < iend u0 -> isEntCh (at_ src ie) = false) by discriminate.
        exact (collectTextNodes_spec is ie TextKind false ltac:(lia) Hst0 (newReader src (u :: t) is) (or_introl (ex_intro _ x (ex_intro _ tx Hix))) ltac:(lia) eq_refl). }
      assert (OL : ordIn is ie (leavesI LI)) by (unfold LI; eapply inl_ord; [| |apply nodes_ord; [apply TL0|apply TL0]]; lia).
      assert (TL : tileS src (istart u) ts (map ispan Lk)).
      { destruct TL0 as [T _]. eapply tileS_ext; [eapply tileS_lo; [exact T|lia|apply NX_NT; [lia|lia|exact L6]]|lia|].
        apply NX_NT; [lia|lia|]. eapply NX_app; [exact N4|exact D3]. }
      (* the children of the destination *)
      assert (TE0 : tileS src ts te (map ispan Dk) /\ Forall NK Dk).
      { destruct (newReader_In pre u t ts Ei D5 ltac:(lia)) as (x & tx & Hix).
        exact (collectTextNodes_spec ts te TextKind true ltac:(lia) (fun _ => D6) (newReader src (u :: t) ts) (or_introl (ex_intro _ x (ex_intro _ tx Hix))) D4 eq_refl). }
      assert (OD : ordIn ds de (leavesI DI)) by (unfold DI; eapply inl_ord; [| |apply nodes_ord; [apply TE0|apply TE0]]; lia).
      pose proof (proj1 TE0) as TE.
      assert (N6 : NX te (r_pos r6)).
      { eapply NX_app; [exact D9|]. destruct (Z.ltb_spec destEOL 0) as [L|L]; [apply Q4; exact L|].
        destruct (Q3 L) as (O1 & O2 & O3 & _). eapply NX_app; [exact O2|apply noEnt_NX; exact O3]. }
      assert (HD : 0 <= destEOL -> te <= destEOL /\ NT src te destEOL /\ bnd0 src destEOL /\ destEOL <= r_pos r6 /\
                   (forall q, destEOL <= q < r_pos r6 -> ~ inEnt ik q) /\ (forall u' t', InS src ik r6 u' t' -> r_pos r6 = istart u')).
      { intros L. destruct (Q3 L) as ((O1a & O1b) & O2 & O3 & O4 & O5).
        split; [lia|]. split; [|tauto]. apply NX_NT; [lia|lia|]. eapply NX_app; [exact D9|exact O2]. }
      assert (T2 : 0 <= destEOL -> tileS src (istart u) destEOL (defSpans [LI; DI]) /\ ordIn (istart u) destEOL (flat_map leavesI [LI; DI])).
      { intros L. destruct (HD L) as (H1 & H2 & _). destruct (Q3 L) as ((O1a & O1b) & _). split.
        - unfold defSpans, LI, DI. cbn [flat_map ikids]. rewrite app_nil_r.
          eapply tileS_cat; [exact TL|]. eapply tileS_ext; [exact TE|exact H1|exact H2].
        - cbn [flat_map]. rewrite app_nil_r. eapply (ordIn_cat _ _ _ ds); [eapply ordIn_lo; [eapply ordIn_hi; [exact OL|lia]|lia]|eapply ordIn_hi; [exact OD|lia]]. }
      (* white space after it *)
      pose proof (current_idem r6 c6 r7 Hr6 Ec6) as Eid7.
      pose proof (sls_spec rfuel r7 Hr7) as (Hr8 & X2 & X3 & X4).
      pose proof (sls_true rfuel r7 c6 Eid7) as Hst.
      destruct (skipLinkSpace rfuel r7) as [ok2 r8]. cbn [fst snd] in *.
      assert (Hneg : destEOL < 0 -> ok2 = true).
      { intros L. destruct (Qn L) as (c' & Ec' & Hw & N0). rewrite Ec6 in Ec'. inversion Ec'; subst c'. specialize (Hst N0 Hw). inversion Hst. reflexivity. }
      destruct ok2; cbn [negb].
      2:{ assert (L : 0 <= destEOL) by (destruct (Z.lt_ge_cases destEOL 0) as [L|L]; [specialize (Hneg L); discriminate Hneg|exact L]).
          destruct (HD L) as (H1 & H2 & H3 & H4 & H5 & H6). apply (exit_def orig r u t result destEOL [LI; DI] HI); [lia|exact H3|exact (T2 L)|].
          apply (NT_to_hi destEOL r8 (X4 eq_refl)); [lia|lia|]. eapply NX_app; [apply noEnt_NX; exact H5|]. rewrite <- Ep7. exact X3. }
      assert (Hh8 : r_pos r8 <= hi) by (apply RS_pos_hi; [exact Hr8|lia]).
      (* what happens when the definition ends after the destination *)
      assert (Hcut2 : 0 <= destEOL -> forall (k : block -> list block),
          (forall orig' u' t', OInv orig' r6 u' t' (result ++ [refDefBlock (istart u) destEOL [LI; DI]]) ->
             allQ (la src hi) (k orig') /\ tchain src false lo hi (k orig')) ->
          allQ (la src hi) (if nodeIndexForPosition (u :: t) (r_pos r6) <? 0 then result ++ [refDefBlock (istart u) destEOL [LI; DI]]
                            else k (set_bik (set_bstart orig (r_pos r6)) (from_ (u :: t) (nodeIndexForPosition (u :: t) (r_pos r6))))) /\
          tchain src false lo hi (if nodeIndexForPosition (u :: t) (r_pos r6) <? 0 then result ++ [refDefBlock (istart u) destEOL [LI; DI]]
                            else k (set_bik (set_bstart orig (r_pos r6)) (from_ (u :: t) (nodeIndexForPosition (u :: t) (r_pos r6)))))).
      { intros L k Hk. destruct (HD L) as (H1 & H2 & H3 & H4 & H5 & H6).
        destruct (cut_ok orig r u t result destEOL [LI; DI] r6 HI ltac:(lia) (T2 L) Hr6 H4 H5 H3 H6) as [(F1 & F2)|(F1 & u' & t' & F2)]; rewrite F1; [exact F2|apply (Hk _ u' t' F2)]. }
      (* the title *)
      pose proof (parseLinkTitle_spec r8 Hr8) as PT. cbv zeta in PT.
      destruct (parseLinkTitle rfuel r8) as [[tspan ttext] r9]. cbn [fst snd] in PT.
      destruct (spanValid tspan) eqn:Evt; cbn [negb].
      2:{ destruct (Z.ltb_spec destEOL 0) as [L|L]; [exact Hexit|].
          apply (Hcut2 L (fun orig' => ocp_loop f rfuel src orig' None r6 (result ++ [refDefBlock (istart u) destEOL [LI; DI]]))).
          intros orig' u' t' HI'. apply (IH orig' r6 u' t' _ HI'). }
      destruct (PT eq_refl) as (P1 & P2 & P3 & P4 & P5 & P6 & P7 & Hr9 & P9 & P10 & P11). clear PT.
      destruct tspan as [tss tse]. destruct ttext as [tts tte]. cbn [fst snd] in *.
      pose proof (readEOL_spec r9 Hr9) as (Hr10 & Y2 & Y3 & _).
      destruct (readEOL rfuel r9) as [titleEOL r10]. cbn [fst snd] in *.
      destruct (Z.ltb_spec titleEOL 0) as [Lt|Lt].
      { destruct (Z.ltb_spec destEOL 0) as [L|L]; [exact Hexit|].
        apply (Hcut2 L (fun orig' => result ++ [refDefBlock (istart u) destEOL [LI; DI]] ++ [orig'])).
        intros orig' u' t' HI'. rewrite app_assoc. eapply exit_orig; exact HI'. }
      set (Tk := collectTextNodes rfuel (newReader src (u :: t) tts) tte TextKind true).
      set (TI := Inl LinkTitleKind tss tse 0 [] Tk).
      destruct (Y3 Lt) as ((O1a & O1b) & O2 & O3 & O4 & O5).
      assert (Hh9 : r_pos r9 <= hi) by (apply RS_pos_hi; [exact Hr9|lia]).
      assert (Hh10 : r_pos r10 <= hi) by (apply RS_pos_hi; [exact Hr10|lia]).
      assert (TT0 : tileS src tts tte (map ispan Tk) /\ Forall NK Tk).
      { destruct (newReader_In pre u t tts Ei P5 ltac:(lia)) as (x & tx & Hix).
        exact (collectTextNodes_spec tts tte TextKind true ltac:(lia) (fun _ => P6) (newReader src (u :: t) tts) (or_introl (ex_intro _ x (ex_intro _ tx Hix))) P4 eq_refl). }
      assert (OT : ordIn tss tse (leavesI TI)) by (unfold TI; eapply inl_ord; [| |apply nodes_ord; [apply TT0|apply TT0]]; lia).
      pose proof (proj1 TT0) as TT.
      assert (T3 : tileS src (istart u) titleEOL (defSpans [LI; DI; TI]) /\ ordIn (istart u) titleEOL (flat_map leavesI [LI; DI; TI])).
      { split.
        2:{ cbn [flat_map]. rewrite app_nil_r. eapply (ordIn_cat _ _ _ ds); [eapply ordIn_lo; [eapply ordIn_hi; [exact OL|lia]|lia]|].
            eapply (ordIn_cat _ _ _ tss); [eapply ordIn_hi; [exact OD|lia]|eapply ordIn_hi; [exact OT|lia]]. }
        unfold defSpans, LI, DI, TI. cbn [flat_map ikids]. rewrite app_nil_r.
        eapply tileS_cat; [exact TL|]. eapply tileS_cat; [eapply tileS_ext; [exact TE| |]|eapply tileS_ext; [exact TT| |]].
        - lia.
        - apply NX_NT; [lia|lia|]. eapply NX_sub; [| |eapply NX_app; [exact N6|eapply NX_app; [rewrite <- Ep7; exact X3|exact P3]]]; lia.
        - lia.
        - apply NX_NT; [lia|lia|]. eapply NX_app; [exact P10|exact O2]. }
      destruct (cut_ok orig r u t result titleEOL [LI; DI; TI] r10 HI ltac:(lia) T3 Hr10 O1b O3 O4 O5) as [(F1 & F2)|(F1 & u' & t' & F2)]; rewrite F1; [exact F2|apply (IH _ r10 u' t' _ F2)].
    Qed.
  End Ocp.
End Scan.
