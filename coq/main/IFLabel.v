From Coq Require Import List ZArith Lia Bool.
Import ListNotations.
Require Import Base Tables Utf8 Tree Rdr Link Collect Html Recog Inl3a ShapesBase ShapesR Leaf3e RdrBound IFBase IFLink IFCollect IFTokAux.
Open Scope Z_scope.

(* ================================================================ the nodes collected for a link label form a well-formed span list
   (needed because transformLinkReference runs a reader over the COLLECTED nodes of a full reference link) *)

(* suffixes *)
Definition Suf {A} (l S : list A) : Prop := exists k, l = skipn k S.
Lemma Suf_refl {A} (l : list A) : Suf l l. Proof. exists O. reflexivity. Qed.
Lemma Suf_nil {A} (S : list A) : Suf [] S. Proof. exists (length S). rewrite skipn_all. reflexivity. Qed.
Lemma Suf_trans {A} (a b c : list A) : Suf a b -> Suf b c -> Suf a c.
Proof. intros [k ->] [j ->]. exists (k + j)%nat. clear. revert c. induction j as [|j IH]; intros c; [rewrite Nat.add_0_r; reflexivity|].
  destruct c as [|x c]; [rewrite !skipn_nil; reflexivity|]. rewrite Nat.add_succ_r. cbn [skipn]. apply IH. Qed.
Lemma Suf_skipn {A} k (l : list A) : Suf (skipn k l) l. Proof. exists k. reflexivity. Qed.
Lemma Suf_cons {A} (x : A) l : Suf l (x :: l). Proof. exists 1%nat. reflexivity. Qed.
Lemma Suf_app {A} (pre l : list A) : Suf l (pre ++ l).
Proof. exists (length pre). induction pre as [|x pre IH]; [reflexivity|exact IH]. Qed.
Lemma ibudget_Suf l S : Suf l S -> ibudget l <= ibudget S.
Proof. intros [k ->]. apply ibudget_skipn. Qed.
Lemma Suf_In {A} (l S : list A) x : Suf l S -> In x l -> In x S.
Proof. intros [k ->] H. rewrite <- (firstn_skipn k S). apply in_or_app. right. exact H. Qed.

Lemma curNode_Suf r : Suf (r_spans (snd (curNode r))) (r_spans r).
Proof. destruct (curNode_cases r) as [E|(pre & n & rest & E1 & E & E3)]; rewrite E; cbn [snd withSpans r_spans]; [apply Suf_nil|rewrite E1; apply Suf_app]. Qed.

(* one step: either the reader stays in the same entry, or it has left it for good *)
Lemma next_shape src r n rest : PL src r -> curNode r = (Some n, withSpans r (n :: rest)) ->
  (ikind n = IndentKind -> iend n = istart n + 1) ->
  (fst (next r) = true /\ r_spans (snd (next r)) = n :: rest /\ curNode (snd (next r)) = (Some n, withSpans (snd (next r)) (n :: rest))) \/
  (Suf (r_spans (snd (next r))) rest /\ iend n <= r_pos (snd (next r)) /\ r_pos (snd (next r)) <= len src).
Proof.
  intros (Hs & Hok) Ec Hind.
  assert (Hh0 : spanHas n (r_pos r) = true) by (apply curNode_has; rewrite Ec; reflexivity).
  pose proof (spanHas_range _ _ Hh0) as (R1 & R2 & R3).
  assert (Hokn : spW src (n :: rest) = true).
  { pose proof (PL_curNode src r (conj Hs Hok)) as (_ & B). rewrite Ec in B. exact B. }
  pose proof (spW_cons _ _ _ Hokn) as (A & B & C & D & G).
  destruct (next r) as [ok r1] eqn:En. cbn [fst snd]. destruct ok.
  - destruct (next_true r r1 En) as (node & rest0 & Ec' & Hh & _ & _ & _ & Hcase). rewrite Ec in Ec'. inversion Ec'; subst node rest0.
    destruct Hcase as [(Ek & Epos & Esp)|[(Ek & Epos & Elt & Esp)|(pre' & j & rest' & Er & Esp & Epos & _)]].
    + left. split; [reflexivity|]. split; [exact Esp|]. rewrite (curNode_head n rest r1 Esp) by (rewrite Epos; exact Hh).
      f_equal. destruct r1; cbn in *; subst; reflexivity.
    + left. split; [reflexivity|]. split; [exact Esp|]. rewrite (curNode_head n rest r1 Esp) by (apply spanHas_intro; lia).
      f_equal. destruct r1; cbn in *; subst; reflexivity.
    + right. split; [rewrite Esp, Er; apply Suf_app|].
      assert (Hj : In j rest) by (rewrite Er; apply in_or_app; right; left; reflexivity).
      pose proof (D j Hj). destruct (spW_In src rest j G Hj) as (_ & J2 & J3). lia.
  - right. destruct (next_false r r1 En) as (E1 & _ & E3). rewrite E1. split; [apply Suf_nil|].
    destruct (E3 n ltac:(rewrite Ec; reflexivity)) as (_ & P & Q). destruct Q as [Q|Q]; [specialize (Hind Q)|]; lia.
Qed.

Lemma withSpans_id r : withSpans r (r_spans r) = r. Proof. destruct r; reflexivity. Qed.

(* with enough fuel skipSameNode really leaves the entry *)
Lemma skipSameNode_res src : forall f r n rest, PL src r -> curNode r = (Some n, withSpans r (n :: rest)) ->
  (ikind n = IndentKind -> iend n = istart n + 1) -> nu src r < Z.of_nat f ->
  Suf (r_spans (skipSameNode f r n)) rest /\ iend n <= r_pos (skipSameNode f r n) /\ r_pos (skipSameNode f r n) <= len src.
Proof.
  induction f as [|f IH]; intros r n rest H Ec Hind Hf; [pose proof (nu_nonneg src r H); lia|]. cbn [skipSameNode].
  assert (Hh0 : spanHas n (r_pos r) = true) by (apply curNode_has; rewrite Ec; reflexivity).
  pose proof (spanHas_range _ _ Hh0) as (R1 & R2 & R3).
  assert (Hokn : spW src (n :: rest) = true).
  { pose proof (PL_curNode src r H) as (_ & B). rewrite Ec in B. exact B. }
  pose proof (spW_cons _ _ _ Hokn) as (A & B & C & D & G).
  pose proof (next_shape src r n rest H Ec Hind) as Hsh. pose proof (next_W src r H) as (P1 & _ & _ & P4 & _).
  destruct (next r) as [ok r1] eqn:En. cbn [fst snd] in *.
  destruct Hsh as [(Eok & Es & Ec1)|(S1 & S2 & S3)].
  - subst ok. cbn [negb]. rewrite Ec1. cbn [ikind istart iend]. rewrite !Z.eqb_refl. cbn [andb].
    assert (E1 : withSpans r1 (n :: rest) = r1) by (rewrite <- Es; apply withSpans_id).
    rewrite E1. rewrite E1 in Ec1. apply IH; [exact P1|rewrite E1; exact Ec1|exact Hind|specialize (P4 eq_refl); lia].
  - destruct ok; cbn [negb]; [|split; [exact S1|split; assumption]].
    pose proof (curNode_Suf r1) as Hsuf. pose proof (pos_curNode r1) as Hp.
    assert (Hm : forall m, fst (curNode r1) = Some m -> In m rest).
    { intros m Hm. apply curNode_in in Hm. eapply Suf_In; eassumption. }
    destruct (curNode r1) as [[m|] r2]; cbn [fst snd] in *.
    + assert (Hne : (ikind m =? ikind n) && (istart m =? istart n) && (iend m =? iend n) = false).
      { specialize (Hm m eq_refl). specialize (D m Hm). destruct (Z.eqb_spec (istart m) (istart n)); [lia|]. rewrite andb_false_r. reflexivity. }
      rewrite Hne. split; [eapply Suf_trans; eassumption|]. lia.
    + split; [eapply Suf_trans; eassumption|]. lia.
Qed.

Lemma next_ok_facts src r r1 : PL src r -> next r = (true, r1) ->
  exists n, fst (curNode r) = Some n /\ r_prev r1 = r_pos r /\ Suf (r_spans r1) (r_spans r) /\ r_pos r1 <= len src /\
    0 <= r_pos r /\ r_pos r + 1 <= len src /\ (ikind n <> IndentKind -> r_pos r + 1 <= r_pos r1).
Proof.
  intros (Hs & Hok) En. destruct (next_true r r1 En) as (node & rest & Ec & Hh & (pre & Epre) & _ & Ep & Hcase).
  pose proof (spanHas_range _ _ Hh) as (R1 & R2 & R3).
  rewrite Epre in Hok. pose proof (spW_app_r _ _ _ Hok) as Hokn. pose proof (spW_cons _ _ _ Hokn) as (A & B & C & D & G).
  exists node. split; [rewrite Ec; reflexivity|]. split; [exact Ep|].
  destruct Hcase as [(Ek & Epos & Esp)|[(Ek & Epos & Elt & Esp)|(pre' & j & rest' & Er & Esp & Epos & Hj)]].
  - split; [rewrite Esp, Epre; apply Suf_app|]. split; [lia|]. split; [lia|]. split; [lia|]. intros N. congruence.
  - split; [rewrite Esp, Epre; apply Suf_app|]. split; [lia|]. split; [lia|]. split; [lia|]. intros _. lia.
  - assert (Hin : In j rest) by (rewrite Er; apply in_or_app; right; left; reflexivity).
    pose proof (D j Hin). destruct (spW_In src rest j G Hin) as (_ & J2 & J3).
    split.
    { rewrite Esp, Epre, Er. eapply Suf_trans; [apply (Suf_app pre')|]. eapply Suf_trans; [apply Suf_cons|apply Suf_app]. }
    split; [lia|]. split; [lia|]. split; [lia|]. intros _. lia.
Qed.

Lemma spW_snoc src acc x : spW src acc = true -> (forall y, In y acc -> iend y <= istart x) ->
  0 <= istart x -> istart x <= iend x -> iend x <= len src -> spW src (acc ++ [x]) = true.
Proof.
  induction acc as [|a acc IH]; intros Hw Hle H0 H1 H2.
  - cbn [app spW forallb]. replace (0 <=? istart x) with true by (symmetry; apply Z.leb_le; lia).
    replace (istart x <=? iend x) with true by (symmetry; apply Z.leb_le; lia).
    replace (iend x <=? len src) with true by (symmetry; apply Z.leb_le; lia). reflexivity.
  - pose proof (spW_cons _ _ _ Hw) as (A & B & C & D & G). cbn [app spW].
    rewrite (IH G (fun y Hy => Hle y (or_intror Hy)) H0 H1 H2), andb_true_r.
    replace (0 <=? istart a) with true by (symmetry; apply Z.leb_le; lia).
    replace (istart a <=? iend a) with true by (symmetry; apply Z.leb_le; lia).
    replace (iend a <=? len src) with true by (symmetry; apply Z.leb_le; lia). cbn [andb].
    rewrite forallb_app. cbn [forallb]. rewrite andb_true_r. apply andb_true_iff. split.
    + apply forallb_forall. intros j Hj. apply Z.leb_le. apply D, Hj.
    + apply Z.leb_le. apply Hle. left. reflexivity.
Qed.
Lemma ibudget_mkI k a b : ibudget [mkI k a b] = 0.
Proof. cbn [ibudget mkI iindent ikind]. destruct (k =? IndentKind); lia. Qed.

Lemma collect_noesc_S f r e tk ps acc : collect_loop (S f) r e tk false ps acc =
  if e <=? r_pos r then (acc, ps) else
  let '(cn, r0) := curNode r in
  if okind cn =? IndentKind then
    let acc1 := if ps <? r_pos r0 then acc ++ [mkI tk ps (r_prev r0 + 1)] else acc in
    let node := match cn with Some n => n | None => mkI 0 0 0 end in
    let r1 := skipSameNode (S f) r0 node in
    collect_loop f r1 e tk false (r_pos r1) (acc1 ++ [node])
  else
    if e <=? r_pos r0 then (acc, ps) else
    let '(ok, r1) := next r0 in
    if negb ok then (acc, ps) else
    if jumped r1 then collect_loop f r1 e tk false (r_pos r1) (if ps <=? r_prev r1 then acc ++ [mkI tk ps (r_prev r1 + 1)] else acc)
    else collect_loop f r1 e tk false ps acc.
Proof. reflexivity. Qed.

Section Asc.
  Variable src : bytes.
  Variable S0 : list inline.
  Hypothesis HS0 : spW src S0 = true.
  Hypothesis Hind : forall i, In i S0 -> ikind i = IndentKind -> iend i = istart i + 1.
  Variable tk : Z.

  Definition J (r : reader) (ps : Z) (acc : list inline) : Prop :=
    PL src r /\ Suf (r_spans r) S0 /\ r_pos r <= len src /\
    spW src acc = true /\ (forall x, In x acc -> iend x <= ps) /\ 0 <= ps /\ ps <= r_pos r /\
    (ps < r_pos r -> ps <= r_prev r /\ r_prev r < r_pos r) /\
    ibudget acc + ibudget (r_spans r) <= ibudget S0.
  Definition Good (res : list inline * Z) : Prop :=
    spW src (fst res) = true /\ (forall x, In x (fst res) -> iend x <= snd res) /\ 0 <= snd res <= len src /\ ibudget (fst res) <= ibudget S0.

  Lemma collect_asc : forall f r e ps acc, J r ps acc -> nu src r < Z.of_nat f -> Good (collect_loop f r e tk false ps acc).
  Proof.
    induction f as [|f IH]; intros r e ps acc HJ Hf.
    { destruct HJ as (HP & _). pose proof (nu_nonneg src r HP). lia. }
    pose proof HJ as (HP & HSuf & Hlen & Hacc & Hends & Hps0 & Hps & H6 & Hbud).
    assert (Hdone : Good (acc, ps)).
    { split; [exact Hacc|]. split; [exact Hends|]. split; [cbn [snd]; lia|]. pose proof (ibudget_nonneg (r_spans r)). cbn [fst]. lia. }
    rewrite collect_noesc_S. destruct (e <=? r_pos r); [exact Hdone|].
    pose proof (curNode_Suf r) as HcS. pose proof (pos_curNode r) as Hcp. pose proof (nu_curNode src r) as Hcn.
    pose proof (PL_curNode src r HP) as HP0. pose proof (curNode_idem r) as Hidem.
    assert (Hprev0 : r_prev (snd (curNode r)) = r_prev r) by (destruct (curNode_fields r) as (_ & _ & _ & D); exact D).
    destruct (curNode_cases r) as [Ec|(pre & n & rest & Epre & Ec & Eh)]; rewrite Ec in *; cbn [fst snd okind] in *.
    - (* outside every span: the loop ends *)
      change (0 =? IndentKind) with false. cbv iota. destruct (e <=? _); [exact Hdone|].
      pose proof (next_W src (withSpans r []) HP0) as _. destruct (next (withSpans r [])) as [ok r1] eqn:En.
      destruct ok; cbn [negb]; [|exact Hdone].
      exfalso. destruct (next_true _ _ En) as (node & rest & Ec' & _). rewrite Hidem in Ec'. discriminate.
    - set (r0 := withSpans r (n :: rest)) in *.
      assert (Hn0 : In n S0) by (eapply Suf_In; [exact HSuf|]; rewrite Epre; apply in_or_app; right; left; reflexivity).
      destruct (spW_In src S0 n HS0 Hn0) as (N1 & N2 & N3).
      pose proof (spanHas_range _ _ Eh) as (R1 & R2 & R3).
      assert (HSuf0 : Suf (n :: rest) S0) by (eapply Suf_trans; [exact HcS|exact HSuf]).
      destruct (Z.eqb_spec (ikind n) IndentKind) as [Ek|Ek].
      + (* an Indent entry: copy it *)
        pose proof (Hind n Hn0 Ek) as Hn1. cbv zeta.
        assert (Ec0 : curNode r0 = (Some n, withSpans r0 (n :: rest))) by (rewrite Hidem; reflexivity).
        destruct (skipSameNode_res src (S f) r0 n rest HP0 Ec0 (fun _ => Hn1) ltac:(lia)) as (K1 & K2 & K3).
        pose proof (skipSameNode_prog src (S f) r0 n HP0) as (K4 & _).
        pose proof (skipSameNode_lt src f r0 n n HP0 ltac:(rewrite Ec0; reflexivity)) as K5.
        set (r1 := skipSameNode (S f) r0 n) in *.
        set (acc1 := if ps <? r_pos r0 then acc ++ [mkI tk ps (r_prev r0 + 1)] else acc).
        assert (Hacc1 : spW src acc1 = true /\ (forall x, In x acc1 -> iend x <= istart n) /\ ibudget acc1 = ibudget acc).
        { unfold acc1. destruct (Z.ltb_spec ps (r_pos r0)) as [L|L].
          - destruct (H6 ltac:(lia)) as [P1 P2]. split; [|split].
            + apply spW_snoc; cbn [mkI istart iend]; try lia; [exact Hacc|]. intros y Hy. exact (Hends y Hy).
            + intros x Hx. apply in_app_or in Hx. destruct Hx as [Hx|[<-|[]]]; [specialize (Hends x Hx); lia|cbn [mkI iend]; lia].
            + rewrite ibudget_app, ibudget_mkI. lia.
          - split; [exact Hacc|]. split; [|reflexivity]. intros x Hx. specialize (Hends x Hx). lia. }
        destruct Hacc1 as (A1 & A2 & A3).
        apply IH; [|lia]. unfold J. split; [exact K4|]. split; [eapply Suf_trans; [exact K1|]; eapply Suf_trans; [apply Suf_cons|exact HSuf0]|].
        split; [exact K3|]. split; [apply spW_snoc; assumption|]. split.
        { intros x Hx. apply in_app_or in Hx. destruct Hx as [Hx|[<-|[]]]; [specialize (A2 x Hx); lia|lia]. }
        split; [lia|]. split; [lia|]. split; [intros; lia|].
        rewrite ibudget_app, A3. pose proof (ibudget_Suf _ _ K1) as B1. pose proof (ibudget_Suf _ _ HcS) as B2.
        unfold r0 in B2. cbn [withSpans r_spans] in B2.
        assert (B3 : ibudget [n] + ibudget rest = ibudget (n :: rest)) by (cbn [ibudget]; lia). lia.
      + (* a text entry: one step *)
        destruct (e <=? _); [exact Hdone|].
        destruct (next r0) as [ok r1] eqn:En. destruct ok; cbn [negb]; [|exact Hdone].
        destruct (next_ok_facts src r0 r1 HP0 En) as (m & Em & F1 & F2 & F3 & F4 & F5 & F6).
        rewrite Hidem in Em. cbn [fst] in Em. inversion Em; subst m. specialize (F6 Ek).
        pose proof (next_W src r0 HP0) as W. rewrite En in W. cbn [fst snd] in W. destruct W as (W1 & _ & _ & W4 & _). specialize (W4 eq_refl).
        assert (HSuf1 : Suf (r_spans r1) S0) by (eapply Suf_trans; [exact F2|exact HSuf0]).
        pose proof (ibudget_Suf _ _ F2) as B1. pose proof (ibudget_Suf _ _ HcS) as B2. unfold r0 in B1, B2. cbn [withSpans r_spans] in B1, B2.
        destruct (jumped r1) eqn:Ej.
        * apply IH; [|lia]. unfold jumped in Ej. apply andb_true_iff in Ej. destruct Ej as [_ Ej]. apply Z.ltb_lt in Ej.
          unfold J. split; [exact W1|]. split; [exact HSuf1|]. split; [exact F3|].
          assert (Hacc' : spW src (if ps <=? r_prev r1 then acc ++ [mkI tk ps (r_prev r1 + 1)] else acc) = true /\
                          (forall x, In x (if ps <=? r_prev r1 then acc ++ [mkI tk ps (r_prev r1 + 1)] else acc) -> iend x <= r_pos r1) /\
                          ibudget (if ps <=? r_prev r1 then acc ++ [mkI tk ps (r_prev r1 + 1)] else acc) = ibudget acc).
          { destruct (Z.leb_spec ps (r_prev r1)) as [L|L].
            - split; [|split].
              + apply spW_snoc; cbn [mkI istart iend]; try lia; [exact Hacc|]. intros y Hy. exact (Hends y Hy).
              + intros x Hx. apply in_app_or in Hx. destruct Hx as [Hx|[<-|[]]]; [specialize (Hends x Hx); lia|cbn [mkI iend]; lia].
              + rewrite ibudget_app, ibudget_mkI. lia.
            - split; [exact Hacc|]. split; [|reflexivity]. intros x Hx. specialize (Hends x Hx). lia. }
          destruct Hacc' as (A1 & A2 & A3). split; [exact A1|]. split; [exact A2|]. split; [lia|]. split; [lia|]. split; [intros; lia|]. lia.
        * apply IH; [|lia]. unfold J. split; [exact W1|]. split; [exact HSuf1|]. split; [exact F3|]. split; [exact Hacc|].
          split; [exact Hends|]. split; [lia|]. split; [lia|]. split; [intros _; lia|]. lia.
  Qed.

  (* collectTextNodes (no escapes) over a well-formed span list whose Indent entries are one byte wide:
     the collected nodes form a well-formed span list, with no more indentation budget than the span list *)
  Theorem collectTextNodes_asc f p e : 0 <= p <= len src -> e <= len src -> len src + ibudget S0 < Z.of_nat f ->
    spW src (collectTextNodes f (newReader src S0 p) e tk false) = true /\
    ibudget (collectTextNodes f (newReader src S0 p) e tk false) <= ibudget S0.
  Proof.
    intros Hp He Hf. unfold collectTextNodes. pose proof (nu_new src S0 p HS0) as Hn.
    assert (HJ : J (newReader src S0 p) p []).
    { unfold J. cbn [newReader r_pos r_spans r_prev ibudget]. split; [apply PL_new, HS0|]. split; [apply Suf_refl|]. split; [lia|].
      split; [reflexivity|]. split; [intros x []|]. split; [lia|]. split; [lia|]. split; [intros; lia|]. lia. }
    destruct (collect_asc f (newReader src S0 p) e p [] HJ ltac:(lia)) as (G1 & G2 & G3 & G4).
    cbn [newReader r_pos]. destruct (collect_loop f (newReader src S0 p) e tk false p []) as [acc ps]. cbn [fst snd] in *.
    destruct (Z.ltb_spec ps e) as [L|L]; [|split; assumption].
    split; [apply spW_snoc; cbn [mkI istart iend]; try lia; [exact G1|]; intros y Hy; exact (G2 y Hy)|].
    rewrite ibudget_app, ibudget_mkI. lia.
  Qed.
End Asc.

(* ---- where the inner span of a link label lies ---- *)
Section Inner.
  Variable src : bytes.
  Notation PL := (PL src).

  Lemma next_ok_le r r1 : PL r -> next r = (true, r1) -> r_pos r + 1 <= len src /\ r_pos r1 <= len src /\ 0 <= r_pos r.
  Proof. intros H E. destruct (next_ok_facts src r r1 H E) as (n & _ & _ & _ & A & B & C & _). lia. Qed.

  Lemma ll_skip_pos : forall f r c r' c', PL r -> ll_skip f r c = Some (r', c') -> 0 <= r_pos r' <= len src.
  Proof.
    induction f as [|f IH]; intros r c r' c' H E; [discriminate|]. cbn [ll_skip] in E.
    pose proof (next_W src r H) as (P1 & _). destruct (next r) as [ok r1] eqn:En. cbn [snd] in P1. destruct ok; cbn [negb] in E; [|discriminate].
    destruct (next_ok_le r r1 H En) as (A & B & C). pose proof (next_W src r H) as W. rewrite En in W. cbn [fst snd] in W. destruct W as (_ & W2 & _).
    pose proof (pos_current r1) as Hp. pose proof (PL_current src r1 P1) as P2. destruct (current r1) as [ch r2]. cbn [snd] in *.
    destruct (_ || _ || _); [discriminate|]. destruct (negb _); [inversion E; subst; lia|]. eapply IH; eassumption.
  Qed.
  Lemma ll_body_ie : forall f r chars ie r' ie', PL r -> ie <= len src -> ll_body f r chars ie = Some (r', ie') -> ie' <= len src.
  Proof.
    induction f as [|f IH]; intros r chars ie r' ie' H Hie E; [discriminate|]. cbn [ll_body] in E.
    pose proof (pos_current r) as Hp. pose proof (PL_current src r H) as P1. destruct (current r) as [c r1]. cbn [snd] in *.
    destruct (negb _); [inversion E; subst; exact Hie|].
    destruct (c =? 92).
    - pose proof (next_W src r1 P1) as (P2 & _). destruct (next r1) as [ok r2] eqn:En. cbn [snd] in P2. destruct ok; cbn [negb] in E; [|discriminate].
      destruct (next_ok_le r1 r2 P1 En) as (A & _ & _).
      pose proof (pos_current r2) as Hp2. pose proof (PL_current src r2 P2) as P3. destruct (current r2) as [c2 r3]. cbn [snd] in *.
      pose proof (next_W src r3 P3) as (P4 & _). destruct (next r3) as [ok2 r4] eqn:En2. cbn [snd] in P4. destruct ok2; cbn [negb] in E; [|discriminate].
      destruct (next_ok_le r3 r4 P3 En2) as (A2 & _ & _).
      eapply IH; [exact P4| |exact E]. destruct (negb _); lia.
    - pose proof (next_W src r1 P1) as (P2 & _). destruct (next r1) as [ok r2] eqn:En. cbn [snd] in P2. destruct ok; cbn [negb] in E; [|discriminate].
      destruct (next_ok_le r1 r2 P1 En) as (A & _ & _).
      eapply IH; [exact P2| |exact E]. destruct (negb _); lia.
  Qed.

  Lemma label_inner f r : PL r -> spanValid (fst (fst (parseLinkLabel f r))) = true ->
    0 <= fst (snd (fst (parseLinkLabel f r))) <= len src /\ snd (snd (fst (parseLinkLabel f r))) <= len src.
  Proof.
    intros H. unfold parseLinkLabel. pose proof (PL_current src r H) as P0. destruct (current r) as [c r0]. cbn [snd] in P0.
    destruct (negb (c =? 91)); [cbn; discriminate|].
    destruct (ll_skip f r0 0) as [[r1 chars]|] eqn:E1; [|cbn; discriminate].
    pose proof (ll_skip_pos _ _ _ _ _ P0 E1) as Hp1. pose proof (ll_skip_prog src _ _ _ _ _ P0 E1) as (P1 & _).
    destruct (ll_body f r1 chars (-1)) as [[r2 ie]|] eqn:E2; [|cbn; discriminate].
    assert (Hm1 : -1 <= len src) by (pose proof (len_nonneg src); lia). pose proof (ll_body_ie f r1 chars (-1) r2 ie P1 Hm1 E2) as Hie.
    destruct (current r2) as [c2 r3]. destruct (negb (c2 =? 93)); [cbn; discriminate|].
    destruct (next r3) as [ok r4]. cbn [fst snd]. intros _. lia.
  Qed.
End Inner.
