From Coq Require Import List ZArith Lia Bool.
Import ListNotations.

(* Walk (walk.go:67) over rose trees with an arbitrary payload; isBlock tells blocks from inlines. *)
Section G.
  Variable P : Type.
  Variable isBlockP : P -> bool.

  Inductive tree := T (p : P) (kids : forest)
  with forest := FNil | FCons (t : tree) (f : forest).

  Definition payload t := match t with T p _ => p end.
  Definition kids_of t := match t with T _ k => k end.
  Definition is_block t := isBlockP (payload t).
  Record cursor := { c_node : tree; c_parent : option tree; c_block : option tree; c_index : Z }.
  Inductive event := EPre (c : cursor) | EPost (c : cursor).
  Record frame := { f_cur : cursor; f_post : bool }.

  Fixpoint frames_from (p : tree) (blk : option tree) (i : Z) (ks : forest) : list frame :=
    match ks with
    | FNil => []
    | FCons k ks' => {| f_cur := {| c_node := k; c_parent := Some p; c_block := blk; c_index := i |}; f_post := false |}
                     :: frames_from p blk (i + 1) ks'
    end.
  Definition blk_of (c : cursor) := if is_block (c_node c) then Some (c_node c) else c_block c.
  Definition child_frames (c : cursor) := frames_from (c_node c) (blk_of c) 0 (kids_of (c_node c)).

  Variable St : Type.
  Variable pre post : St -> cursor -> St * bool.

  Fixpoint run (fuel : nat) (stack : list frame) (s : St) : option St :=
    match fuel with
    | O => None
    | S fuel' =>
      match stack with
      | [] => Some s
      | fr :: rest =>
        if f_post fr then
          let '(s', ok) := post s (f_cur fr) in
          if ok then run fuel' rest s' else Some s'
        else
          let '(s', ok) := pre s (f_cur fr) in
          if ok then run fuel' (child_frames (f_cur fr) ++ {| f_cur := f_cur fr; f_post := true |} :: rest) s'
          else run fuel' rest s'
      end
    end.

  Fixpoint spec (t : tree) (parent blk : option tree) (idx : Z) (s : St) {struct t} : St * bool :=
    let c := {| c_node := t; c_parent := parent; c_block := blk; c_index := idx |} in
    let '(s1, ok) := pre s c in
    if ok then
      let '(s2, cont) := spec_kids t (blk_of c) (kids_of t) 0 s1 in
      if cont then post s2 c else (s2, false)
    else (s1, true)
  with spec_kids (p : tree) (blk : option tree) (ks : forest) (i : Z) (s : St) {struct ks} : St * bool :=
    match ks with
    | FNil => (s, true)
    | FCons k ks' => let '(s', cont) := spec k (Some p) blk i s in
                     if cont then spec_kids p blk ks' (i + 1) s' else (s', false)
    end.

  Fixpoint size (t : tree) : nat := match t with T _ ks => 1 + fsize ks end
  with fsize (f : forest) : nat := match f with FNil => 0 | FCons t f' => size t + fsize f' end.

  Definition spec_frame (fr : frame) s :=
    let c := f_cur fr in
    if f_post fr then post s c else spec (c_node c) (c_parent c) (c_block c) (c_index c) s.
  Fixpoint spec_stack (st : list frame) s : St :=
    match st with
    | [] => s
    | fr :: rest => let '(s', cont) := spec_frame fr s in if cont then spec_stack rest s' else s'
    end.
  Definition weight (fr : frame) := if f_post fr then 1 else 2 * size (c_node (f_cur fr)).
  Fixpoint weights (st : list frame) := match st with [] => 0 | fr :: r => weight fr + weights r end.

  Lemma weights_app a b : weights (a ++ b) = weights a + weights b.
  Proof. induction a as [|x a IH]; cbn; lia. Qed.
  Lemma weights_frames p blk i ks : weights (frames_from p blk i ks) = 2 * fsize ks.
  Proof. revert i; induction ks as [|k ks IH]; intros i; cbn [frames_from weights fsize]; [reflexivity|].
         rewrite IH. unfold weight; cbn. lia. Qed.

  Lemma spec_stack_frames p blk ks : forall i more s,
    spec_stack (frames_from p blk i ks ++ more) s =
    let '(s2, cont) := spec_kids p blk ks i s in if cont then spec_stack more s2 else s2.
  Proof.
    induction ks as [|k ks IH]; intros i more s.
    - reflexivity.
    - change (frames_from p blk i (FCons k ks) ++ more) with
        ({| f_cur := {| c_node := k; c_parent := Some p; c_block := blk; c_index := i |}; f_post := false |}
           :: (frames_from p blk (i + 1) ks ++ more)).
      change (spec_kids p blk (FCons k ks) i s) with
        (let '(s', cont) := spec k (Some p) blk i s in
         if cont then spec_kids p blk ks (i + 1) s' else (s', false)).
      cbn [spec_stack]. unfold spec_frame at 1; cbn [f_post f_cur c_node c_parent c_block c_index].
      destruct (spec k (Some p) blk i s) as [s1 [|]]; [apply IH | reflexivity].
  Qed.

  Lemma spec_eq t parent blk idx s :
    spec t parent blk idx s =
    let c := {| c_node := t; c_parent := parent; c_block := blk; c_index := idx |} in
    let '(s1, ok) := pre s c in
    if ok then
      let '(s2, cont) := spec_kids t (blk_of c) (kids_of t) 0 s1 in
      if cont then post s2 c else (s2, false)
    else (s1, true).
  Proof. destruct t; reflexivity. Qed.

  Theorem run_refines_spec : forall fuel st s,
    weights st < fuel -> run fuel st s = Some (spec_stack st s).
  Proof.
    induction fuel as [|fuel IH]; intros st s Hf; [lia|].
    destruct st as [|fr rest]; [reflexivity|].
    cbn [run spec_stack]. unfold spec_frame.
    cbn [weights] in Hf. unfold weight in Hf.
    destruct fr as [c isPost]; cbn [f_post f_cur] in *.
    destruct isPost.
    - destruct (post s c) as [s1 [|]]; [apply IH; lia | reflexivity].
    - destruct c as [t parent blk idx]; cbn [c_node c_parent c_block c_index] in *.
      rewrite spec_eq. cbn zeta.
      destruct (pre s _) as [s1 [|]].
      + rewrite IH.
        * unfold child_frames; cbn [c_node]. rewrite spec_stack_frames.
          destruct (spec_kids _ _ _ _ _) as [s2 [|]]; [|reflexivity].
          cbn [spec_stack]. unfold spec_frame; cbn [f_post f_cur]. destruct (post s2 _) as [s3 [|]]; reflexivity.
        * rewrite weights_app. unfold child_frames; cbn [c_node].
          rewrite weights_frames. cbn [weights]. unfold weight at 1; cbn [f_post].
          destruct t as [l ks]; simpl in *. lia.
      + apply IH. destruct t; simpl in *; lia.
  Qed.

  (* Walk(root): one frame for the root, no parent, index -1 *)
  Definition walk (root : tree) (s : St) : option St :=
    run (2 * size root + 1) [{| f_cur := {| c_node := root; c_parent := None; c_block := None; c_index := -1 |}; f_post := false |}] s.
  Corollary walk_is_spec root s : walk root s = Some (fst (spec root None None (-1) s)).
  Proof.
    unfold walk. rewrite run_refines_spec by (cbn; unfold weight; cbn; lia).
    cbn [spec_stack]. unfold spec_frame; cbn. destruct (spec root None None (-1) s) as [s' [|]]; reflexivity.
  Qed.
End G.
