From Coq Require Import List ZArith Lia Bool.
Import ListNotations.
Require Import Base Tree Driver Inl3e Props ComposeC02 DefSpans.
Open Scope Z_scope.

(* ================================================================================================
   T56: the two residual checks of ComposeC02.C02_structure_partial.

   (a) defSpansRoots - CLOSED for every input:  DefSpans.defSpans_all.
       New invariant (DefSpansOcp.locD, carried over the whole run as DefSpansWalk.invD): a definition block with a
       non-negative start has start <= end, its label / destination / title entries are ordered inside it, and each entry
       has start <= end and its children ordered inside the entry.  It is established in the loop of onCloseParagraph from
       the scanner specifications of LAR2 (parseLinkLabel_spec, parseLinkDestination_spec, parseLinkTitle_spec,
       readEOL_spec, collectTextNodes_spec), which need the facts LinesAccounted keeps about the paragraph (GoodP); these
       are available at the start of every line (LA13's driver is run side by side) and the line machine only closes
       paragraphs whose (start, entries) are unchanged since the start of the line (membership in the list of the open
       paragraphs of the pending tree, decided by an equality checker on inline nodes).

   (b) rootIndentRoots - NOT closed.  Hence below: the structure part of C02 under the one remaining hypothesis.
       What a proof of (b) needs (no invariant of the development has it; worked out while planning, not carried out):
       a new invariant of the line machine on the CHILDREN OF THE ROOT, relative to the buffer, of the size of Tiling
       (TilDefs, TilLP1 .. TilLP12), with the blank-ness facts of Tiling replaced by spaces/tabs:
        1. the cursor: while the container is the root, a root-level list or a root-level paragraph, the consumed part of the
           line is spaces/tabs or the whole line is consumed (Tiling's TB1 has the guard `quiet`, which leaves out the case
           "container = root-level List whose item did not match": "- a" / "foo"; there the list is closed at the line start
           and the paragraph opened at the cursor);  this needs the kind of the container at every call of openBlock
           (never an ATX / setext heading, thematic break, list marker or definition; L2Kind2's ckind / st_open tracking);
        2. the chain of root children: spaces/tabs between the end of one closed root child and the start of the next, and
           between the start of the buffer and the first one; only the last root child can be open (Tiling's TC);
        3. the entries of an open root paragraph: the bytes of [start of the paragraph, line start) outside its entries are
           spaces/tabs, and every Unparsed entry holds a byte that is not white space (needed to rule out the exit of
           ocp_loop where skipLinkSpace runs off the paragraph after a destination: there the last definition block would
           end before blank entry lines); both are new cross-line facts, established when addLineText appends the line;
        4. the loop of onCloseParagraph for a ROOT paragraph: definition k+1 and the rest paragraph start at an entry start,
           with no entry byte between the end-of-line position of definition k and that start (LAR2.eolOK, cut_in / cut_out
           as in DefSpansOcp.D_ocp), and when the paragraph is used up no entry byte follows the last definition;
        5. the stream layer: the chain is relative to the buffer and survives makeRoot's cut (shift), a non-blank first line
           of a fresh line loop opens a root child (so that "no root child yet" only occurs at buffer position 0).
   ================================================================================================ *)

Theorem C02_structure_rootIndent_partial : forall input,
  rootIndentRoots (fst (parseBlocks input)) = true -> forallb (chk_C02_root false) (fst (parseFull input)) = true.
Proof. intros input HR. apply C02_structure_partial; [apply defSpans_all|exact HR]. Qed.
Print Assumptions C02_structure_rootIndent_partial.

Theorem C02_structure_of_rootIndent :
  (forall input, rootIndentRoots (fst (parseBlocks input)) = true) -> C02_structure_statement.
Proof. intros HR input. apply C02_structure_rootIndent_partial, HR. Qed.

Theorem C02_of_rootIndent_and_boundaries :
  (forall input, rootIndentRoots (fst (parseBlocks input)) = true) -> C02_boundaries_statement -> C02_statement.
Proof. intros HR HB. apply C02_of_structure_and_boundaries; [apply C02_structure_of_rootIndent, HR|exact HB]. Qed.
Print Assumptions C02_of_rootIndent_and_boundaries.
