(* C14, line-ending clause for HTML blocks: the start and end conditions of HTML blocks (Html.v: htmlStart, htmlEnd)
   do not depend on which line ending terminates the line.

   Results (all for every index i : Z; the hypothesis noEolB body of the requested statements is not needed):
     htmlStart_eolRun  : eolRun e -> htmlStart i (body ++ e) = htmlStart i body           (e any run of CR / LF bytes, also [])
     htmlEnd_eolRun    : eolRun e -> e <> [] -> htmlEnd i (body ++ e) = htmlEnd i (body ++ [10])
     htmlStart_lf_crlf, htmlEnd_lf_crlf, htmlStart_lf_none : the requested instances.
   htmlEnd does depend on whether there is an ending at all (off-by-one of contains): htmlEnd_none_counterexample.

   Start condition 7 runs the HTML tag scanner over the inline byte reader on the single line.  Two runs, over
   body ++ e1 and body ++ e2, are related by InB (same position inside the body, same virtual position / previous
   position, the one fake span each) until the reader reaches the end of the body; from there on each run is in a
   "tail" state Tl (position at or beyond len body), where every scanner fails in a known way.  The fuels of the two
   runs differ; all two-run lemmas take two fuels that merely exceed the remaining input. *)
From Coq Require Import List ZArith Lia Bool.
Import ListNotations.
Require Import Base Tree Rdr Link Html Rec17 Rec18 EolInv EolCRBytes EolCRRdr.
Open Scope Z_scope.


(* ---------- byte-list conditions ---------- *)
Lemma hbp_nil b : hasBytePrefix b [] = true. Proof. destruct b; reflexivity. Qed.
Lemma hcp_nil b : hasCIPrefix b [] = true. Proof. destruct b; reflexivity. Qed.
Lemma hbp_app_eol e s : eolRun e -> noEolB s -> forall w, hasBytePrefix (w ++ e) s = hasBytePrefix w s.
Proof.
  intros He Hs. induction Hs as [|p ps [P1 P2] Hps IH]; intros w; [rewrite !hbp_nil; reflexivity|].
  destruct w as [|x w].
  - cbn [app]. destruct He as [|c e Hc He']; [reflexivity|]. cbn [hasBytePrefix].
    rewrite Z.eqb_sym, (eol_neq c p Hc P1 P2). reflexivity.
  - cbn [app hasBytePrefix]. rewrite IH. reflexivity.
Qed.
Lemma hcp_app_eol e s : eolRun e -> noEolB s -> forall w, hasCIPrefix (w ++ e) s = hasCIPrefix w s.
Proof.
  intros He Hs. induction Hs as [|p ps [P1 P2] Hps IH]; intros w; [rewrite !hcp_nil; reflexivity|].
  destruct w as [|x w].
  - cbn [app]. destruct He as [|c e Hc He']; [reflexivity|]. cbn [hasCIPrefix].
    destruct (toLower_noeol p P1 P2) as [Q1 Q2].
    replace (toLowerASCII c) with c by (destruct Hc as [->| ->]; reflexivity).
    rewrite Z.eqb_sym, (eol_neq c (toLowerASCII p) Hc Q1 Q2). reflexivity.
  - cbn [app hasCIPrefix]. rewrite IH. reflexivity.
Qed.
Lemma hbp_short : forall s w, (length w < length s)%nat -> hasBytePrefix w s = false.
Proof.
  induction s as [|p ps IH]; intros w H; [cbn [length] in H; lia|]. destruct w as [|x w]; [reflexivity|].
  cbn [hasBytePrefix]. rewrite IH by (cbn [length] in H; lia). apply andb_false_r.
Qed.
Lemma hcp_short : forall s w, (length w < length s)%nat -> hasCIPrefix w s = false.
Proof.
  induction s as [|p ps IH]; intros w H; [cbn [length] in H; lia|]. destruct w as [|x w]; [reflexivity|].
  cbn [hasCIPrefix]. rewrite IH by (cbn [length] in H; lia). apply andb_false_r.
Qed.
Lemma hbp_len w s : hasBytePrefix w s = true -> len s <= len w.
Proof.
  intros H. unfold len. destruct (Nat.lt_ge_cases (length w) (length s)) as [L|G]; [|lia].
  rewrite (hbp_short s w L) in H. discriminate.
Qed.
Lemma hcp_len w s : hasCIPrefix w s = true -> len s <= len w.
Proof.
  intros H. unfold len. destruct (Nat.lt_ge_cases (length w) (length s)) as [L|G]; [|lia].
  rewrite (hcp_short s w L) in H. discriminate.
Qed.

Lemma afterStarter_app_eol e r fl : eolRun e -> afterStarter (r ++ e) fl = afterStarter r fl.
Proof.
  intros He. destruct r as [|c r].
  - cbn [app]. destruct He as [|c e Hc He']; [reflexivity|]. unfold afterStarter. rewrite (eol_ws c Hc). reflexivity.
  - unfold afterStarter. cbn [app]. change (c :: r ++ e) with ((c :: r) ++ e).
    rewrite (hbp_app_eol e [47; 62] He) by (apply noEolb_spec; reflexivity). reflexivity.
Qed.
Lemma starters_app_eol e w fl (Lst : list bytes) : eolRun e -> (forall st, In st Lst -> noEolB st) ->
  existsb (fun st => hasCIPrefix (w ++ e) st && afterStarter (from_ (w ++ e) (len st)) fl) Lst =
  existsb (fun st => hasCIPrefix w st && afterStarter (from_ w (len st)) fl) Lst.
Proof.
  intros He HL. apply existsb_eq_in. intros st Hst. rewrite (hcp_app_eol e st He (HL st Hst)).
  destruct (hasCIPrefix w st) eqn:E; [|reflexivity]. cbn [andb].
  rewrite from_app_le by (apply hcp_len, E). apply afterStarter_app_eol, He.
Qed.
Lemma startCond1_eol body e : eolRun e -> startCond1 (body ++ e) = startCond1 body.
Proof. intros He. unfold startCond1. apply starters_app_eol; [exact He|apply (all_noEol starters1 eq_refl)]. Qed.
Lemma startCond6_eol body e : eolRun e -> startCond6 (body ++ e) = startCond6 body.
Proof.
  intros He. unfold startCond6.
  rewrite (hbp_app_eol e [60; 47] He) by (apply noEolb_spec; reflexivity).
  rewrite (hbp_app_eol e [60] He) by (apply noEolb_spec; reflexivity).
  destruct (hasBytePrefix body [60; 47]) eqn:E1.
  { apply hbp_len in E1. change (len [60; 47]) with 2 in E1. rewrite from_app_le by lia.
    apply starters_app_eol; [exact He|apply (all_noEol starters6 eq_refl)]. }
  destruct (hasBytePrefix body [60]) eqn:E2; [|reflexivity].
  apply hbp_len in E2. change (len [60]) with 1 in E2. rewrite from_app_le by lia.
  apply starters_app_eol; [exact He|apply (all_noEol starters6 eq_refl)].
Qed.
Lemma declPrefix_eol body e : eolRun e -> hasHTMLDeclarationPrefix (body ++ e) = hasHTMLDeclarationPrefix body.
Proof.
  intros He. unfold hasHTMLDeclarationPrefix. rewrite (hbp_app_eol e [60; 33] He) by (apply noEolb_spec; reflexivity).
  destruct (hasBytePrefix body [60; 33]); [|reflexivity]. cbn [andb]. rewrite len_app. pose proof (len_nonneg e) as Ne.
  destruct (Z.leb_spec 3 (len body)) as [G|L].
  - replace (3 <=? len body + len e) with true by (symmetry; apply Z.leb_le; lia). rewrite at_app_l by lia. reflexivity.
  - cbn [andb]. destruct (Z.leb_spec 3 (len body + len e)) as [G2|L2]; [|reflexivity]. cbn [andb].
    pose proof (len_nonneg body) as Nb.
    destruct (Z_lt_le_dec 2 (len body)) as [A|A]; [lia|]. rewrite at_app_r by lia.
    assert (Hc : at_ e (2 - len body) = 10 \/ at_ e (2 - len body) = 13) by (apply at_eolRun; [exact He|lia]).
    destruct Hc as [->| ->]; reflexivity.
Qed.

Section CF.
Variables (pre : bytes -> bytes -> bool) (s : bytes).
Hypothesis pre_app : forall e w, eolRun e -> pre (w ++ e) s = pre w s.
Hypothesis pre_short : forall w, (length w < length s)%nat -> pre w s = false.
Hypothesis s_ne : (0 < length s)%nat.

Lemma cf_0 b : contains_from pre b s 0 = false. Proof. destruct b; reflexivity. Qed.
Lemma cf_S b k : contains_from pre b s (S k) = pre b s || match b with _ :: r => contains_from pre r s k | [] => false end.
Proof. destruct b; reflexivity. Qed.
Lemma cfrom_short : forall k b, (length b < length s)%nat -> contains_from pre b s k = false.
Proof.
  induction k as [|k IH]; intros b H; [apply cf_0|]. rewrite cf_S. rewrite (pre_short b H). cbn [orb].
  destruct b as [|x r]; [reflexivity|]. apply IH. cbn [length] in H. lia.
Qed.
Lemma cfrom_eol : forall k e, eolRun e -> contains_from pre e s k = false.
Proof.
  induction k as [|k IH]; intros e He; [apply cf_0|]. rewrite cf_S.
  change e with ([] ++ e) at 1. rewrite (pre_app e [] He), (pre_short [] s_ne). cbn [orb].
  destruct He as [|c e Hc He']; [reflexivity|apply IH, He'].
Qed.
Lemma cfrom_app e : eolRun e -> forall k b, contains_from pre (b ++ e) s k = contains_from pre b s k.
Proof.
  intros He. induction k as [|k IH]; intros b; [rewrite !cf_0; reflexivity|]. destruct b as [|x r].
  - cbn [app]. rewrite (cfrom_eol (S k) e He). rewrite cf_S. rewrite (pre_short [] s_ne). reflexivity.
  - rewrite !cf_S. rewrite (pre_app e (x :: r) He). cbn [app]. rewrite IH. reflexivity.
Qed.
Lemma cfrom_sat : forall b k, (length b + 1 - length s <= k)%nat ->
  contains_from pre b s k = contains_from pre b s (length b + 1 - length s).
Proof.
  induction b as [|x r IH]; intros k Hk.
  - rewrite !cfrom_short by (cbn [length]; lia). reflexivity.
  - destruct (Nat.lt_ge_cases (length (x :: r)) (length s)) as [Lt|Ge]; [rewrite !cfrom_short by exact Lt; reflexivity|].
    cbn [length] in Ge, Hk. replace (length (x :: r) + 1 - length s)%nat with (S (length r + 1 - length s)) by (cbn [length]; lia).
    destruct k as [|k]; [lia|]. rewrite !cf_S. rewrite (IH k) by lia. reflexivity.
Qed.
Lemma cfrom_eolRun body e : eolRun e -> e <> [] ->
  contains_from pre (body ++ e) s (Z.to_nat (len (body ++ e) - len s)) = contains_from pre body s (length body + 1 - length s).
Proof.
  intros He Hne. rewrite (cfrom_app e He). apply cfrom_sat. unfold len. rewrite app_length.
  destruct e as [|c e]; [congruence|]. cbn [length]. lia.
Qed.
End CF.

Lemma contains_eolRun body e s : noEolB s -> s <> [] -> eolRun e -> e <> [] -> contains (body ++ e) s = contains (body ++ [10]) s.
Proof.
  intros Hs Hne He Hen. unfold contains.
  assert (S0 : (0 < length s)%nat) by (destruct s; [congruence|cbn [length]; lia]).
  rewrite (cfrom_eolRun hasBytePrefix s (fun e0 w H0 => hbp_app_eol e0 s H0 Hs w) (hbp_short s) S0 body e He Hen).
  rewrite (cfrom_eolRun hasBytePrefix s (fun e0 w H0 => hbp_app_eol e0 s H0 Hs w) (hbp_short s) S0 body [10]); [reflexivity| |discriminate].
  apply Forall_cons; [left; reflexivity|apply Forall_nil].
Qed.
Lemma containsCI_eolRun body e s : noEolB s -> s <> [] -> eolRun e -> e <> [] -> containsCI (body ++ e) s = containsCI (body ++ [10]) s.
Proof.
  intros Hs Hne He Hen. unfold containsCI.
  assert (S0 : (0 < length s)%nat) by (destruct s; [congruence|cbn [length]; lia]).
  rewrite (cfrom_eolRun hasCIPrefix s (fun e0 w H0 => hcp_app_eol e0 s H0 Hs w) (hcp_short s) S0 body e He Hen).
  rewrite (cfrom_eolRun hasCIPrefix s (fun e0 w H0 => hcp_app_eol e0 s H0 Hs w) (hcp_short s) S0 body [10]); [reflexivity| |discriminate].
  apply Forall_cons; [left; reflexivity|apply Forall_nil].
Qed.

(* the end condition: any non-empty run of line-ending bytes gives the answer of a single LF *)
Theorem htmlEnd_eolRun i body e : eolRun e -> e <> [] -> htmlEnd i (body ++ e) = htmlEnd i (body ++ [10]).
Proof.
  intros He Hen. unfold htmlEnd, commentSuffix, piSuffix, cdataSuffix.
  rewrite !isBlankLine_app', (eolRun_blank e He).
  rewrite (contains_eolRun body e [45; 45; 62]) by (try (apply noEolb_spec; reflexivity); try discriminate; assumption).
  rewrite (contains_eolRun body e [63; 62]) by (try (apply noEolb_spec; reflexivity); try discriminate; assumption).
  rewrite (contains_eolRun body e [62]) by (try (apply noEolb_spec; reflexivity); try discriminate; assumption).
  rewrite (contains_eolRun body e [93; 93; 62]) by (try (apply noEolb_spec; reflexivity); try discriminate; assumption).
  replace (existsb (containsCI (body ++ e)) enders1) with (existsb (containsCI (body ++ [10])) enders1); [reflexivity|].
  apply existsb_eq_in. intros st Hst. symmetry. apply containsCI_eolRun; [apply (all_noEol enders1 eq_refl st Hst)| |exact He|exact Hen].
  cbn [enders1 In] in Hst. intros ->. repeat (destruct Hst as [Hst|Hst]; [discriminate|]). exact Hst.
Qed.

(* ---------- the reader over a single fake span ---------- *)
Definition fk (E : Z) : inline := Inl UnparsedKind 1 E 0 [] [].

Lemma ikind_fk E : ikind (fk E) = UnparsedKind. Proof. reflexivity. Qed.
Lemma iend_fk E : iend (fk E) = E. Proof. reflexivity. Qed.
Lemma curNode_in src E pos vp pv : 1 <= pos < E ->
  curNode {| r_src := src; r_spans := [fk E]; r_pos := pos; r_vpos := vp; r_prev := pv |} =
  (Some (fk E), {| r_src := src; r_spans := [fk E]; r_pos := pos; r_vpos := vp; r_prev := pv |}).
Proof.
  intros H. unfold curNode, nodeIndexForPosition, fk. cbn [r_src r_spans r_pos r_vpos r_prev nodeIdx]. unfold spanHas. cbn [istart iend].
  destruct (Z.ltb_spec pos 1) as [L|_]; [lia|].
  destruct (Z.leb_spec 0 E) as [_|L]; [|lia]. destruct (Z.leb_spec 1 E) as [_|L]; [|lia].
  destruct (Z.leb_spec 1 pos) as [_|L]; [|lia]. destruct (Z.ltb_spec pos E) as [_|L]; [|lia]. reflexivity.
Qed.
Lemma curNode_out src E pos vp pv : E <= pos ->
  curNode {| r_src := src; r_spans := [fk E]; r_pos := pos; r_vpos := vp; r_prev := pv |} =
  (None, {| r_src := src; r_spans := []; r_pos := pos; r_vpos := vp; r_prev := pv |}).
Proof.
  intros H. unfold curNode, nodeIndexForPosition, fk. cbn [r_src r_spans r_pos r_vpos r_prev nodeIdx]. unfold spanHas. cbn [istart iend].
  destruct (Z.ltb_spec pos 1) as [L|_]; [reflexivity|].
  destruct (Z.ltb_spec pos E) as [L|_]; [lia|]. rewrite !andb_false_r. reflexivity.
Qed.
Lemma curNode_nil src pos vp pv :
  curNode {| r_src := src; r_spans := []; r_pos := pos; r_vpos := vp; r_prev := pv |} =
  (None, {| r_src := src; r_spans := []; r_pos := pos; r_vpos := vp; r_prev := pv |}).
Proof. reflexivity. Qed.


(* ---------- the tag scanner cut into pieces ---------- *)
Definition gtPart (r : reader) : Z * reader :=
  let '(c2, r4) := current r in if negb (c2 =? 62) then (-1, r4) else (r_pos r4 + 1, snd (next r4)).
Definition slashPart (r2 : reader) : Z * reader :=
  let '(ok2, r3) := next r2 in if negb ok2 || jumped r3 then (-1, r3) else gtPart r3.
Definition attrVal (f : nat) (r7 : reader) : bool * reader :=
  let '(c3, r8) := current r7 in
  if (c3 =? 39) || (c3 =? 34) then
    let '(ok5, r9) := next r8 in
    if negb ok5 then (false, r9) else untilQuote f r9 c3
  else if isUnquotedAttributeValueChar c3 then (true, unquoted_loop f r8)
  else (false, r8).
Definition attrEq2 (f : nat) (r6 : reader) : bool * reader :=
  let '(ok4, r7) := skipLinkSpace f r6 in if negb ok4 then (false, r7) else attrVal f r7.
Definition attrEq (f : nat) (prev r4 : reader) : bool * reader :=
  let '(c2, r5) := current r4 in
  if negb (c2 =? 61) then (true, prev) else
  let '(ok3, r6) := next r5 in
  if negb ok3 then (false, r6) else attrEq2 f r6.
Definition attrAfterName2 (f : nat) (r3 : reader) : bool * reader :=
  let '(ok2, r4) := skipLinkSpace f r3 in
  if negb ok2 then (true, r3) else attrEq f r3 r4.
Definition attrAfterName (f : nat) (r2 : reader) : bool * reader :=
  let '(cont, r3) := attrName_loop f r2 in
  if negb cont then (true, r3) else attrAfterName2 f r3.
Lemma attr_eq f r : parseHTMLAttribute f r =
  let '(c, r1) := current r in
  if negb (isASCIILetter c) && negb (c =? 95) && negb (c =? 58) then (false, r1) else
  let '(ok, r2) := next r1 in
  if negb ok then (true, r2) else attrAfterName f r2.
Proof. reflexivity. Qed.
Definition closeRest2 (f : nat) (r3 : reader) : Z * reader :=
  let '(ok3, r4) := skipLinkSpace f r3 in
  if negb ok3 then (-1, r4) else gtPart r4.
Definition closeRest (f : nat) (r2 : reader) : Z * reader :=
  let '(ok2, r3) := parseHTMLTagName f r2 in
  if negb ok2 then (-1, r3) else closeRest2 f r3.
Definition unqBody (f : nat) (r1 : reader) : reader :=
  let '(c, r2) := current r1 in if isUnquotedAttributeValueChar c then unquoted_loop f r2 else r2.
Lemma unq_eq f r : unquoted_loop (S f) r = let '(ok, r1) := next r in if negb ok then r1 else unqBody f r1.
Proof. reflexivity. Qed.
Lemma closing_eq f r : parseHTMLClosingTag f r =
  let '(c, r1) := current r in
  if negb (c =? 47) then (-1, r1) else
  let '(ok, r2) := next r1 in
  if negb ok || jumped r2 then (-1, r2) else closeRest f r2.
Proof. reflexivity. Qed.
Lemma openLoop_eq f r : openTag_loop (S f) r =
  let '(ok, r1) := skipLinkSpace (S f) r in
  if negb ok then (-1, r1) else
  let '(c, r2) := current r1 in
  if c =? 47 then slashPart r2
  else if c =? 62 then (r_pos r2 + 1, snd (next r2))
  else if r_pos r2 =? r_pos r then (-1, r2) else
    let '(ok3, r3) := parseHTMLAttribute (S f) r2 in
    if negb ok3 then (-1, r3) else openTag_loop f r3.
Proof. reflexivity. Qed.

Section Rd.
Variable body : bytes.

Definition Tl (e : bytes) (r : reader) : Prop :=
  r_src r = body ++ e /\ 1 <= r_pos r /\ len body <= r_pos r /\
  (r_spans r = [fk (len (body ++ e))] \/ (r_spans r = [] /\ len (body ++ e) <= r_pos r)).

Lemma Tl_current e r : eolRun e -> Tl e r ->
  Tl e (snd (current r)) /\ r_pos (snd (current r)) = r_pos r /\
  ((len (body ++ e) <= r_pos r /\ fst (current r) = 0) \/
   (r_pos r < len (body ++ e) /\ (fst (current r) = 10 \/ fst (current r) = 13))).
Proof.
  intros He HT. destruct r as [src sp pos vp pv]. unfold Tl in HT. cbn [r_src r_spans r_pos r_vpos r_prev] in HT.
  destruct HT as (Es & H1 & H2 & Hsp). subst src. unfold current. cbn [r_src r_pos r_vpos].
  destruct (Z.leb_spec (len (body ++ e)) pos) as [G|L].
  - cbn [fst snd r_pos]. split; [|split; [reflexivity|left; split; [exact G|reflexivity]]].
    unfold Tl. cbn [r_src r_spans r_pos]. repeat split; try assumption.
  - destruct Hsp as [Esp|[_ G]]; [|lia]. subst sp. rewrite curNode_in by lia.
    cbn [okind]. rewrite ikind_fk. change (UnparsedKind =? IndentKind) with false. cbv iota.
    rewrite at_app_r by lia. rewrite len_app in L.
    assert (Hc : at_ e (pos - len body) = 10 \/ at_ e (pos - len body) = 13) by (apply at_eolRun; [exact He|lia]).
    replace (at_ e (pos - len body) =? 0) with false by (destruct Hc as [->| ->]; reflexivity).
    cbn [fst snd r_pos]. split; [|split; [reflexivity|right; split; [rewrite len_app; exact L|exact Hc]]].
    unfold Tl. cbn [r_src r_spans r_pos]. repeat split; try assumption. left. reflexivity.
Qed.

(* one step from a position whose successor is at or beyond the end of the body *)
Lemma next_edge e src pos vp pv : src = body ++ e -> 1 <= pos < len (body ++ e) -> len body <= pos + 1 ->
  let x := next {| r_src := src; r_spans := [fk (len (body ++ e))]; r_pos := pos; r_vpos := vp; r_prev := pv |} in
  Tl e (snd x) /\ r_pos (snd x) = pos + 1 /\ (fst x = true -> pos + 1 < len (body ++ e)).
Proof.
  intros -> H1 H2. cbv zeta. unfold next. rewrite curNode_in by lia.
  cbn [r_src r_spans r_pos r_vpos r_prev]. rewrite !ikind_fk, !iend_fk.
  change (UnparsedKind =? IndentKind) with false. cbn [andb negb].
  destruct (Z.ltb_spec (pos + 1) (len (body ++ e))) as [L|G].
  - cbn [fst snd r_pos]. split; [|split; [reflexivity|intros _; exact L]].
    unfold Tl. cbn [r_src r_spans r_pos]. repeat split; try lia. left. reflexivity.
  - cbn [tl nextSpan fst snd r_pos]. split; [|split; [reflexivity|discriminate]].
    unfold Tl. cbn [r_src r_spans r_pos]. repeat split; try lia. right. split; [reflexivity|lia].
Qed.

Lemma Tl_next e r : Tl e r ->
  Tl e (snd (next r)) /\ (fst (next r) = true -> r_pos (snd (next r)) = r_pos r + 1 /\ r_pos (snd (next r)) < len (body ++ e)).
Proof.
  intros HT. destruct r as [src sp pos vp pv]. unfold Tl in HT. cbn [r_src r_spans r_pos r_vpos r_prev] in HT.
  destruct HT as (Es & H1 & H2 & Hsp). cbn [r_pos].
  destruct Hsp as [Esp|[Esp G]].
  - subst sp. destruct (Z_lt_le_dec pos (len (body ++ e))) as [L|G].
    + pose proof (next_edge e src pos vp pv Es ltac:(lia) ltac:(lia)) as HN. cbv zeta in HN. destruct HN as (A & B & C).
      split; [exact A|]. intros Ho. split; [exact B|]. rewrite B. apply C, Ho.
    + unfold next. rewrite curNode_out by lia. cbn [fst snd]. split; [|discriminate].
      unfold Tl. cbn [r_src r_spans r_pos]. repeat split; try assumption. right. split; [reflexivity|exact G].
  - subst sp. unfold next. rewrite curNode_nil. cbn [fst snd]. split; [|discriminate].
    unfold Tl. cbn [r_src r_spans r_pos]. repeat split; try assumption. right. split; [reflexivity|exact G].
Qed.

(* ---------- scanners started in the tail (at or beyond the end of the body) ---------- *)
Definition tcl (c : Z) : Prop := c = 0 \/ c = 10 \/ c = 13.
Lemma tcl_letter c : tcl c -> isASCIILetter c = false. Proof. intros [->|[->| ->]]; reflexivity. Qed.
Lemma tcl_digit c : tcl c -> isASCIIDigit c = false. Proof. intros [->|[->| ->]]; reflexivity. Qed.
Lemma tcl_attrName c : tcl c -> isAttrNameChar c = false. Proof. intros [->|[->| ->]]; reflexivity. Qed.
Lemma tcl_neq c k : tcl c -> k <> 0 -> k <> 10 -> k <> 13 -> (c =? k) = false.
Proof. intros [->|[->| ->]] A B C; apply Z.eqb_neq; congruence. Qed.

Section TailScan.
Variable e : bytes.
Hypothesis He : eolRun e.
Let L := len (body ++ e).

Lemma Tl_cur r : Tl e r ->
  Tl e (snd (current r)) /\ r_pos (snd (current r)) = r_pos r /\ tcl (fst (current r)) /\
  ((L <= r_pos r /\ fst (current r) = 0) \/ (r_pos r < L /\ isSpaceTabOrLineEnding (fst (current r)) = true /\ fst (current r) <> 0)).
Proof.
  intros HT. destruct (Tl_current e r He HT) as (A & B & [[C D]|[C D]]).
  - split; [exact A|]. split; [exact B|]. split; [left; exact D|left; split; [exact C|exact D]].
  - split; [exact A|]. split; [exact B|]. split; [right; exact D|]. right. split; [exact C|].
    destruct D as [D|D]; rewrite D; split; (reflexivity || discriminate).
Qed.

Ltac tcur HT c r1 H1 Hp Hc Hw :=
  match type of HT with Tl _ ?r =>
    pose proof (Tl_cur r HT) as (H1 & Hp & Hc & Hw); destruct (current r) as [c r1]; cbn [fst snd] in H1, Hp, Hc, Hw end.
Ltac tnext HT ok r2 H2 Hn :=
  match type of HT with Tl _ ?r =>
    pose proof (Tl_next e r HT) as (H2 & Hn); destruct (next r) as [ok r2]; cbn [fst snd] in H2, Hn end.

Lemma T_skipLS_loop : forall f r, Tl e r -> Tl e (snd (skipLinkSpace_loop f r)).
Proof.
  induction f as [|f IH]; intros r HT; [exact HT|]. cbn [skipLinkSpace_loop]. tcur HT c r1 H1 Hp Hc Hw.
  destruct (isSpaceTabOrLineEnding c); [|exact H1]. tnext H1 ok r2 H2 Hn. destruct ok; [apply IH, H2|exact H2].
Qed.
Lemma T_skipLS_loop_false : forall f r, Tl e r -> r_pos r < L -> L - r_pos r < Z.of_nat f -> fst (skipLinkSpace_loop f r) = false.
Proof.
  induction f as [|f IH]; intros r HT Hlt Hf; [exfalso; lia|]. cbn [skipLinkSpace_loop]. tcur HT c r1 H1 Hp Hc Hw.
  destruct Hw as [[Hw _]|(_ & Hw & _)]; [exfalso; lia|]. rewrite Hw.
  tnext H1 ok r2 H2 Hn. destruct ok; [|reflexivity]. destruct (Hn eq_refl) as [Hq Hl]. apply IH; [exact H2|exact Hl|lia].
Qed.

Lemma T_skipLS f r : Tl e r ->
  Tl e (snd (skipLinkSpace f r)) /\ (L - r_pos r < Z.of_nat f -> fst (skipLinkSpace f r) = false).
Proof.
  intros HT. unfold skipLinkSpace. tcur HT c r1 H1 Hp Hc Hw.
  destruct Hw as [[_ Hw]|(Hl & _ & Hn0)].
  - subst c. change (0 =? 0) with true. cbv iota. cbn [fst snd]. split; [exact H1|reflexivity].
  - apply Z.eqb_neq in Hn0. rewrite Hn0. split; [apply T_skipLS_loop, H1|].
    intros Hf. apply T_skipLS_loop_false; [exact H1|lia|lia].
Qed.
Lemma T_tagName_loop : forall f r, Tl e r -> Tl e (tagName_loop f r).
Proof.
  intros [|f] r HT; [exact HT|]. cbn [tagName_loop]. tcur HT c r1 H1 Hp Hc Hw.
  rewrite (tcl_letter c Hc), (tcl_digit c Hc), (tcl_neq c 45 Hc) by discriminate. cbn [orb]. exact H1.
Qed.
Lemma T_tagName f r : Tl e r -> fst (parseHTMLTagName f r) = false /\ Tl e (snd (parseHTMLTagName f r)).
Proof.
  intros HT. unfold parseHTMLTagName. tcur HT c r1 H1 Hp Hc Hw. rewrite (tcl_letter c Hc). cbn [negb fst snd].
  split; [reflexivity|exact H1].
Qed.
Lemma T_attrName_loop : forall f r, Tl e r -> Tl e (snd (attrName_loop f r)).
Proof.
  intros [|f] r HT; [exact HT|]. cbn [attrName_loop]. tcur HT c r1 H1 Hp Hc Hw.
  rewrite (tcl_attrName c Hc). exact H1.
Qed.
Lemma T_untilQuote : forall f r q, Tl e r -> Tl e (snd (untilQuote f r q)).
Proof.
  induction f as [|f IH]; intros r q HT; [exact HT|]. cbn [untilQuote]. tcur HT c r1 H1 Hp Hc Hw.
  tnext H1 ok r2 H2 Hn. destruct (c =? q); [exact H2|]. destruct ok; [apply IH, H2|exact H2].
Qed.
Lemma T_unquoted_loop : forall f r, Tl e r -> Tl e (unquoted_loop f r).
Proof.
  induction f as [|f IH]; intros r HT; [exact HT|]. cbn [unquoted_loop]. tnext HT ok r1 H1 Hn.
  destruct (negb ok); [exact H1|]. tcur H1 c r2 H2 Hp Hc Hw. destruct (isUnquotedAttributeValueChar c); [apply IH, H2|exact H2].
Qed.
Lemma T_attrVal f r : Tl e r -> Tl e (snd (attrVal f r)).
Proof.
  intros HT. unfold attrVal. tcur HT c r1 H1 Hp Hc Hw.
  rewrite (tcl_neq c 39 Hc), (tcl_neq c 34 Hc) by discriminate. cbn [orb].
  destruct (isUnquotedAttributeValueChar c); cbn [snd]; [apply T_unquoted_loop, H1|exact H1].
Qed.
Lemma T_attrEq2 f r : Tl e r -> Tl e (snd (attrEq2 f r)).
Proof.
  intros HT. unfold attrEq2. pose proof (proj1 (T_skipLS f r HT)) as H1.
  destruct (skipLinkSpace f r) as [ok4 r7]. cbn [snd] in H1. destruct (negb ok4); [exact H1|apply T_attrVal, H1].
Qed.
Lemma T_attrEq f prev r : Tl e prev -> Tl e r -> Tl e (snd (attrEq f prev r)).
Proof.
  intros HP HT. unfold attrEq. tcur HT c r1 H1 Hp Hc Hw. rewrite (tcl_neq c 61 Hc) by discriminate. cbn [negb snd]. exact HP.
Qed.
Lemma T_attrAfterName2 f r : Tl e r -> Tl e (snd (attrAfterName2 f r)).
Proof.
  intros H3. unfold attrAfterName2.
  pose proof (proj1 (T_skipLS f r H3)) as H4. destruct (skipLinkSpace f r) as [ok2 r4]. cbn [snd] in H4.
  destruct (negb ok2); [exact H3|apply T_attrEq; assumption].
Qed.
Lemma T_attrAfterName f r : Tl e r -> Tl e (snd (attrAfterName f r)).
Proof.
  intros HT. unfold attrAfterName. pose proof (T_attrName_loop f r HT) as H3.
  destruct (attrName_loop f r) as [cont r3]. cbn [snd] in H3. destruct (negb cont); [exact H3|apply T_attrAfterName2, H3].
Qed.
Lemma T_unqBody f r : Tl e r -> Tl e (unqBody f r).
Proof.
  intros HT. unfold unqBody. tcur HT c r2 H2 Hp Hc Hw.
  destruct (isUnquotedAttributeValueChar c); [apply T_unquoted_loop, H2|exact H2].
Qed.
Lemma T_skip_side f r (ok : bool) : Tl e r -> (ok = true -> r_pos r < L) -> L - r_pos r < Z.of_nat f ->
  Tl e (snd (if ok then skipLinkSpace_loop f r else (false, r))) /\ fst (if ok then skipLinkSpace_loop f r else (false, r)) = false.
Proof.
  intros HT Ho Hf. destruct ok; [|split; [exact HT|reflexivity]].
  split; [apply T_skipLS_loop, HT|apply T_skipLS_loop_false; [exact HT|apply Ho; reflexivity|exact Hf]].
Qed.
Lemma T_attr f r : Tl e r -> fst (parseHTMLAttribute f r) = false /\ Tl e (snd (parseHTMLAttribute f r)).
Proof.
  intros HT. rewrite attr_eq. tcur HT c r1 H1 Hp Hc Hw.
  rewrite (tcl_letter c Hc), (tcl_neq c 95 Hc), (tcl_neq c 58 Hc) by discriminate. cbn [negb andb fst snd].
  split; [reflexivity|exact H1].
Qed.
Lemma T_gtPart r : Tl e r -> fst (gtPart r) = -1 /\ Tl e (snd (gtPart r)).
Proof.
  intros HT. unfold gtPart. tcur HT c r1 H1 Hp Hc Hw. rewrite (tcl_neq c 62 Hc) by discriminate. cbn [negb fst snd].
  split; [reflexivity|exact H1].
Qed.
Lemma T_afterNext (F : reader -> Z * reader) r (b : bool) : Tl e r -> (fst (F r) = -1 /\ Tl e (snd (F r))) ->
  fst (if b then (-1, r) else F r) = -1 /\ Tl e (snd (if b then (-1, r) else F r)).
Proof. intros HT HF. destruct b; [split; [reflexivity|exact HT]|exact HF]. Qed.
Lemma T_slashPart r : Tl e r -> fst (slashPart r) = -1 /\ Tl e (snd (slashPart r)).
Proof.
  intros HT. unfold slashPart. tnext HT ok r3 H3 Hn. apply T_afterNext; [exact H3|apply T_gtPart, H3].
Qed.
Lemma T_openTag_loop : forall f r, Tl e r -> fst (openTag_loop f r) = -1 /\ Tl e (snd (openTag_loop f r)).
Proof.
  induction f as [|f IH]; intros r HT; [split; [reflexivity|exact HT]|]. rewrite openLoop_eq.
  pose proof (proj1 (T_skipLS (S f) r HT)) as H1. destruct (skipLinkSpace (S f) r) as [ok r1]. cbn [snd] in H1.
  destruct (negb ok); [split; [reflexivity|exact H1]|].
  tcur H1 c r2 H2 Hp Hc Hw. rewrite (tcl_neq c 47 Hc), (tcl_neq c 62 Hc) by discriminate.
  destruct (r_pos r2 =? r_pos r); [split; [reflexivity|exact H2]|].
  destruct (T_attr (S f) r2 H2) as [A B]. destruct (parseHTMLAttribute (S f) r2) as [ok3 r3]. cbn [fst snd] in A, B.
  subst ok3. cbn [negb]. split; [reflexivity|exact B].
Qed.
Lemma T_openTag f r : Tl e r -> fst (parseHTMLOpenTag f r) = -1 /\ Tl e (snd (parseHTMLOpenTag f r)).
Proof.
  intros HT. unfold parseHTMLOpenTag. destruct (T_tagName f r HT) as [A B].
  destruct (parseHTMLTagName f r) as [ok r1]. cbn [fst snd] in A, B. subst ok. cbn [negb]. split; [reflexivity|exact B].
Qed.
Lemma T_closeRest2 f r : Tl e r -> fst (closeRest2 f r) = -1 /\ Tl e (snd (closeRest2 f r)).
Proof.
  intros HT. unfold closeRest2. pose proof (proj1 (T_skipLS f r HT)) as H4. destruct (skipLinkSpace f r) as [ok3 r4]. cbn [snd] in H4.
  apply T_afterNext; [exact H4|apply T_gtPart, H4].
Qed.
Lemma T_closeRest f r : Tl e r -> fst (closeRest f r) = -1 /\ Tl e (snd (closeRest f r)).
Proof.
  intros HT. unfold closeRest. destruct (T_tagName f r HT) as [A B].
  destruct (parseHTMLTagName f r) as [ok r1]. cbn [fst snd] in A, B. subst ok. cbn [negb]. split; [reflexivity|exact B].
Qed.
Lemma T_closing f r : Tl e r -> fst (parseHTMLClosingTag f r) = -1 /\ Tl e (snd (parseHTMLClosingTag f r)).
Proof.
  intros HT. rewrite closing_eq. tcur HT c r1 H1 Hp Hc Hw. rewrite (tcl_neq c 47 Hc) by discriminate. cbn [negb].
  split; [reflexivity|exact H1].
Qed.
End TailScan.

(* ---------- two runs, over body ++ e1 and body ++ e2 ---------- *)
Section Two.
Variables e1 e2 : bytes.
Hypothesis He1 : eolRun e1.
Hypothesis He2 : eolRun e2.
Let L1 := len (body ++ e1).
Let L2 := len (body ++ e2).

Definition InB (r r' : reader) : Prop :=
  r_src r = body ++ e1 /\ r_src r' = body ++ e2 /\ r_spans r = [fk (len (body ++ e1))] /\ r_spans r' = [fk (len (body ++ e2))] /\
  r_pos r' = r_pos r /\ r_vpos r' = r_vpos r /\ r_prev r' = r_prev r /\ 1 <= r_pos r < len body.

Lemma InB_pos r r' : InB r r' -> r_pos r' = r_pos r /\ 1 <= r_pos r < len body /\ len body <= L1 /\ len body <= L2.
Proof.
  intros (_ & _ & _ & _ & A & _ & _ & B). unfold L1, L2. rewrite !len_app.
  pose proof (len_nonneg e1). pose proof (len_nonneg e2). repeat split; lia.
Qed.
Lemma InB_jumped r r' : InB r r' -> jumped r' = jumped r.
Proof. intros (_ & _ & _ & _ & A & _ & B & _). unfold jumped. rewrite A, B. reflexivity. Qed.

Lemma L_current r r' : InB r r' -> exists c, current r = (c, r) /\ current r' = (c, r').
Proof.
  intros H. destruct r as [src sp pos vp pv]. destruct r' as [src' sp' pos' vp' pv'].
  unfold InB in H. cbn [r_src r_spans r_pos r_vpos r_prev] in H. destruct H as (-> & -> & -> & -> & -> & -> & -> & Hp).
  pose proof (len_nonneg e1) as N1. pose proof (len_nonneg e2) as N2.
  exists (if at_ body pos =? 0 then nullRepl vp else at_ body pos).
  unfold current. cbn [r_src r_pos r_vpos]. rewrite !curNode_in by (rewrite len_app; lia).
  cbn [okind]. rewrite !ikind_fk. change (UnparsedKind =? IndentKind) with false. cbv iota.
  rewrite !at_app_l by lia. rewrite !len_app.
  destruct (Z.leb_spec (len body + len e1) pos) as [G|_]; [lia|]. destruct (Z.leb_spec (len body + len e2) pos) as [G|_]; [lia|].
  destruct (at_ body pos =? 0); split; reflexivity.
Qed.

Lemma L_next r r' : InB r r' ->
  (fst (next r) = true /\ fst (next r') = true /\ InB (snd (next r)) (snd (next r')) /\ r_pos (snd (next r)) = r_pos r + 1) \/
  (Tl e1 (snd (next r)) /\ Tl e2 (snd (next r')) /\ r_pos (snd (next r)) = r_pos r + 1 /\ r_pos (snd (next r')) = r_pos r + 1 /\
   (fst (next r) = true -> r_pos r + 1 < L1) /\ (fst (next r') = true -> r_pos r + 1 < L2)).
Proof.
  intros H. destruct r as [src sp pos vp pv]. destruct r' as [src' sp' pos' vp' pv'].
  unfold InB in H. cbn [r_src r_spans r_pos r_vpos r_prev] in H. destruct H as (-> & -> & -> & -> & -> & -> & -> & Hp).
  pose proof (len_nonneg e1) as N1. pose proof (len_nonneg e2) as N2. cbn [r_pos].
  destruct (Z_lt_le_dec (pos + 1) (len body)) as [Lt|Ge].
  - left. unfold next. rewrite !curNode_in by (rewrite len_app; lia).
    cbn [r_src r_spans r_pos r_vpos r_prev]. rewrite !ikind_fk, !iend_fk.
    change (UnparsedKind =? IndentKind) with false. cbn [andb negb].
    replace (pos + 1 <? len (body ++ e1)) with true by (symmetry; apply Z.ltb_lt; rewrite len_app; lia).
    replace (pos + 1 <? len (body ++ e2)) with true by (symmetry; apply Z.ltb_lt; rewrite len_app; lia).
    cbn [fst snd r_pos]. rewrite !at_app_l by lia.
    split; [reflexivity|]. split; [reflexivity|]. split; [|reflexivity].
    unfold InB. cbn [r_src r_spans r_pos r_vpos r_prev]. repeat split; lia.
  - right.
    pose proof (next_edge e1 (body ++ e1) pos vp pv eq_refl ltac:(rewrite len_app; lia) ltac:(lia)) as HA.
    pose proof (next_edge e2 (body ++ e2) pos vp pv eq_refl ltac:(rewrite len_app; lia) ltac:(lia)) as HB.
    cbv zeta in HA, HB. destruct HA as (A1 & A2 & A3). destruct HB as (B1 & B2 & B3).
    split; [exact A1|]. split; [exact B1|]. split; [exact A2|]. split; [exact B2|]. split; [exact A3|exact B3].
Qed.

Definition Rin (p : Z) (r r' : reader) : Prop := InB r r' /\ p <= r_pos r.
Definition Rtl (r r' : reader) : Prop := Tl e1 r /\ Tl e2 r'.
Definition StP (p : Z) (r r' : reader) : Prop := Rin p r r' \/ Rtl r r'.
Definition ResF (p : Z) (x x' : bool * reader) : Prop :=
  (fst x = fst x' /\ Rin p (snd x) (snd x')) \/ (Rtl (snd x) (snd x') /\ fst x = false /\ fst x' = false).
Definition ResEq {A} (p : Z) (x x' : A * reader) : Prop := fst x = fst x' /\ StP p (snd x) (snd x').
Definition ResAny {A} (p : Z) (x x' : A * reader) : Prop := (fst x = fst x' /\ Rin p (snd x) (snd x')) \/ Rtl (snd x) (snd x').

Lemma Rin_w p q r r' : p <= q -> Rin q r r' -> Rin p r r'.
Proof. intros Hpq [A B]. split; [exact A|lia]. Qed.
Lemma StP_w p q r r' : p <= q -> StP q r r' -> StP p r r'.
Proof. intros Hpq [A|A]; [left; apply (Rin_w p q); assumption|right; exact A]. Qed.
Lemma ResF_w p q x x' : p <= q -> ResF q x x' -> ResF p x x'.
Proof. intros Hpq [[A B]|A]; [left; split; [exact A|apply (Rin_w p q); assumption]|right; exact A]. Qed.
Lemma ResEq_w {X} p q (x x' : X * reader) : p <= q -> ResEq q x x' -> ResEq p x x'.
Proof. intros Hpq [A B]. split; [exact A|apply (StP_w p q); assumption]. Qed.
Lemma ResAny_w {X} p q (x x' : X * reader) : p <= q -> ResAny q x x' -> ResAny p x x'.
Proof. intros Hpq [[A B]|A]; [left; split; [exact A|apply (Rin_w p q); assumption]|right; exact A]. Qed.
Lemma ResEq_Any {X} p (x x' : X * reader) : ResEq p x x' -> ResAny p x x'.
Proof. intros [A [B|B]]; [left; split; assumption|right; exact B]. Qed.

Ltac icur H c :=
  match type of H with InB ?r ?r' =>
    let E1 := fresh "Ec" in let E2 := fresh "Ec" in
    destruct (L_current r r' H) as (c & E1 & E2); rewrite E1, E2; clear E1 E2; cbv beta iota end.
Ltac inext H ok ok' r2 r2' Hn :=
  match type of H with InB ?r ?r' =>
    pose proof (L_next r r' H) as Hn; destruct (next r) as [ok r2]; destruct (next r') as [ok' r2']; cbn [fst snd] in Hn end.

Lemma L_skipLS_loop : forall f1 f2 r r', InB r r' -> L1 - r_pos r < Z.of_nat f1 -> L2 - r_pos r < Z.of_nat f2 ->
  ResF (r_pos r) (skipLinkSpace_loop f1 r) (skipLinkSpace_loop f2 r').
Proof.
  induction f1 as [|f1 IH]; intros f2 r r' H G1 G2; pose proof (InB_pos r r' H) as (Pe & Pr & Pl1 & Pl2); [exfalso; lia|].
  destruct f2 as [|f2]; [exfalso; lia|]. cbn [skipLinkSpace_loop]. icur H c.
  destruct (isSpaceTabOrLineEnding c); [|left; cbn [fst snd]; split; [reflexivity|split; [exact H|lia]]].
  inext H ok ok' r2 r2' Hn. destruct Hn as [(-> & -> & H2 & Hp2)|(T2 & T2' & Hp2 & Hp2' & Ho & Ho')].
  - apply (ResF_w _ (r_pos r2)); [lia|]. apply IH; [exact H2|lia|lia].
  - destruct (T_skip_side e1 He1 f1 r2 ok T2) as [A B]; [intros Hx; rewrite Hp2; apply Ho, Hx|fold L1; lia|].
    destruct (T_skip_side e2 He2 f2 r2' ok' T2') as [A' B']; [intros Hx; rewrite Hp2'; apply Ho', Hx|fold L2; lia|].
    right. split; [split; assumption|split; assumption].
Qed.

Ltac gpos H := let Pe := fresh "Pe" in let Pr := fresh "Pr" in let Pl1 := fresh "Pl" in let Pl2 := fresh "Pl" in
  match type of H with InB ?r ?r' => pose proof (InB_pos r r' H) as (Pe & Pr & Pl1 & Pl2) end.
(* close a goal whose two results are the same value and two InB-related readers *)
Ltac anyIn H := try unfold ResAny; try unfold ResF; cbn [fst snd]; left; split; [reflexivity|split; [exact H|lia]].
Ltac eqIn H := unfold ResEq; cbn [fst snd]; split; [reflexivity|left; split; [exact H|lia]].

Lemma L_skipLS f1 f2 r r' : InB r r' -> L1 - r_pos r < Z.of_nat f1 -> L2 - r_pos r < Z.of_nat f2 ->
  ResF (r_pos r) (skipLinkSpace f1 r) (skipLinkSpace f2 r').
Proof.
  intros H G1 G2. unfold skipLinkSpace. icur H c. destruct (c =? 0); [anyIn H|apply L_skipLS_loop; assumption].
Qed.

Lemma L_tagName_loop : forall f1 f2 r r', InB r r' -> L1 - r_pos r < Z.of_nat f1 -> L2 - r_pos r < Z.of_nat f2 ->
  StP (r_pos r) (tagName_loop f1 r) (tagName_loop f2 r').
Proof.
  induction f1 as [|f1 IH]; intros f2 r r' H G1 G2; gpos H; [exfalso; lia|].
  destruct f2 as [|f2]; [exfalso; lia|]. cbn [tagName_loop]. icur H c.
  destruct (isASCIILetter c || isASCIIDigit c || (c =? 45)); [|left; split; [exact H|lia]].
  inext H ok ok' r2 r2' Hn. destruct Hn as [(-> & -> & H2 & Hp2)|(T2 & T2' & Hp2 & Hp2' & Ho & Ho')].
  - apply (StP_w _ (r_pos r2)); [lia|]. apply IH; [exact H2|lia|lia].
  - right. split.
    + destruct ok; [apply (T_tagName_loop e1 He1), T2|exact T2].
    + destruct ok'; [apply (T_tagName_loop e2 He2), T2'|exact T2'].
Qed.
Lemma L_tagName f1 f2 r r' : InB r r' -> L1 - r_pos r < Z.of_nat f1 -> L2 - r_pos r < Z.of_nat f2 ->
  ResEq (r_pos r) (parseHTMLTagName f1 r) (parseHTMLTagName f2 r').
Proof.
  intros H G1 G2. gpos H. unfold parseHTMLTagName. icur H c. destruct (negb (isASCIILetter c)); [eqIn H|].
  inext H ok ok' r2 r2' Hn. destruct Hn as [(-> & -> & H2 & Hp2)|(T2 & T2' & Hp2 & Hp2' & Ho & Ho')].
  - cbn [negb]. split; [reflexivity|]. cbn [snd]. apply (StP_w _ (r_pos r2)); [lia|]. apply L_tagName_loop; [exact H2|lia|lia].
  - split; [destruct ok, ok'; reflexivity|]. right. split.
    + destruct ok; cbn [negb snd]; [apply (T_tagName_loop e1 He1), T2|exact T2].
    + destruct ok'; cbn [negb snd]; [apply (T_tagName_loop e2 He2), T2'|exact T2'].
Qed.
Lemma L_attrName_loop : forall f1 f2 r r', InB r r' -> L1 - r_pos r < Z.of_nat f1 -> L2 - r_pos r < Z.of_nat f2 ->
  ResAny (r_pos r) (attrName_loop f1 r) (attrName_loop f2 r').
Proof.
  induction f1 as [|f1 IH]; intros f2 r r' H G1 G2; gpos H; [exfalso; lia|].
  destruct f2 as [|f2]; [exfalso; lia|]. cbn [attrName_loop]. icur H c.
  destruct (isAttrNameChar c); [|anyIn H].
  inext H ok ok' r2 r2' Hn. destruct Hn as [(-> & -> & H2 & Hp2)|(T2 & T2' & Hp2 & Hp2' & Ho & Ho')].
  - apply (ResAny_w _ (r_pos r2)); [lia|]. apply IH; [exact H2|lia|lia].
  - right. split.
    + destruct ok; [apply (T_attrName_loop e1 He1), T2|exact T2].
    + destruct ok'; [apply (T_attrName_loop e2 He2), T2'|exact T2'].
Qed.
Lemma L_untilQuote : forall f1 f2 q r r', InB r r' -> L1 - r_pos r < Z.of_nat f1 -> L2 - r_pos r < Z.of_nat f2 ->
  ResAny (r_pos r) (untilQuote f1 r q) (untilQuote f2 r' q).
Proof.
  induction f1 as [|f1 IH]; intros f2 q r r' H G1 G2; gpos H; [exfalso; lia|].
  destruct f2 as [|f2]; [exfalso; lia|]. cbn [untilQuote]. icur H c.
  inext H ok ok' r2 r2' Hn. destruct Hn as [(-> & -> & H2 & Hp2)|(T2 & T2' & Hp2 & Hp2' & Ho & Ho')].
  - destruct (c =? q); [anyIn H2|]. apply (ResAny_w _ (r_pos r2)); [lia|]. apply IH; [exact H2|lia|lia].
  - right. destruct (c =? q); [split; assumption|]. split.
    + destruct ok; [apply (T_untilQuote e1 He1), T2|exact T2].
    + destruct ok'; [apply (T_untilQuote e2 He2), T2'|exact T2'].
Qed.
Lemma L_unquoted_loop : forall f1 f2 r r', InB r r' -> L1 - r_pos r < Z.of_nat f1 -> L2 - r_pos r < Z.of_nat f2 ->
  StP (r_pos r) (unquoted_loop f1 r) (unquoted_loop f2 r').
Proof.
  induction f1 as [|f1 IH]; intros f2 r r' H G1 G2; gpos H; [exfalso; lia|].
  destruct f2 as [|f2]; [exfalso; lia|]. rewrite !unq_eq.
  inext H ok ok' r2 r2' Hn. destruct Hn as [(-> & -> & H2 & Hp2)|(T2 & T2' & Hp2 & Hp2' & Ho & Ho')].
  - cbn [negb]. unfold unqBody. gpos H2. icur H2 c. destruct (isUnquotedAttributeValueChar c); [|left; split; [exact H2|lia]].
    apply (StP_w _ (r_pos r2)); [lia|]. apply IH; [exact H2|lia|lia].
  - right. split.
    + destruct (negb ok); [exact T2|apply (T_unqBody e1 He1), T2].
    + destruct (negb ok'); [exact T2'|apply (T_unqBody e2 He2), T2'].
Qed.
Lemma L_attrVal f1 f2 r r' : InB r r' -> L1 - r_pos r < Z.of_nat f1 -> L2 - r_pos r < Z.of_nat f2 ->
  ResAny (r_pos r) (attrVal f1 r) (attrVal f2 r').
Proof.
  intros H G1 G2. gpos H. unfold attrVal. icur H c. destruct ((c =? 39) || (c =? 34)).
  - inext H ok ok' r2 r2' Hn. destruct Hn as [(-> & -> & H2 & Hp2)|(T2 & T2' & Hp2 & Hp2' & Ho & Ho')].
    + cbn [negb]. apply (ResAny_w _ (r_pos r2)); [lia|]. apply L_untilQuote; [exact H2|lia|lia].
    + right. split.
      * destruct (negb ok); [exact T2|apply (T_untilQuote e1 He1), T2].
      * destruct (negb ok'); [exact T2'|apply (T_untilQuote e2 He2), T2'].
  - destruct (isUnquotedAttributeValueChar c); [|anyIn H].
    destruct (L_unquoted_loop f1 f2 r r' H G1 G2) as [A|A]; [left; split; [reflexivity|exact A]|right; exact A].
Qed.
Lemma L_attrEq2 f1 f2 r r' : InB r r' -> L1 - r_pos r < Z.of_nat f1 -> L2 - r_pos r < Z.of_nat f2 ->
  ResAny (r_pos r) (attrEq2 f1 r) (attrEq2 f2 r').
Proof.
  intros H G1 G2. gpos H. unfold attrEq2. pose proof (L_skipLS f1 f2 r r' H G1 G2) as HS.
  destruct (skipLinkSpace f1 r) as [ok r7]. destruct (skipLinkSpace f2 r') as [ok' r7']. unfold ResF in HS. cbn [fst snd] in HS.
  destruct HS as [(-> & H7 & Hp7)|((T7 & T7') & -> & ->)]; [|right; split; assumption].
  destruct ok'; cbn [negb]; [|anyIn H7]. apply (ResAny_w _ (r_pos r7)); [lia|]. apply L_attrVal; [exact H7|lia|lia].
Qed.
Lemma L_attrEq f1 f2 p prev prev' r r' : Rin p prev prev' -> InB r r' -> p <= r_pos r ->
  L1 - r_pos r < Z.of_nat f1 -> L2 - r_pos r < Z.of_nat f2 ->
  ResAny p (attrEq f1 prev r) (attrEq f2 prev' r').
Proof.
  intros HP H Hpr G1 G2. gpos H. unfold attrEq. icur H c. destruct (negb (c =? 61)); [left; split; [reflexivity|exact HP]|].
  inext H ok ok' r2 r2' Hn. destruct Hn as [(-> & -> & H2 & Hp2)|(T2 & T2' & Hp2 & Hp2' & Ho & Ho')].
  - cbn [negb]. apply (ResAny_w _ (r_pos r2)); [lia|]. apply L_attrEq2; [exact H2|lia|lia].
  - right. split.
    + destruct (negb ok); [exact T2|apply (T_attrEq2 e1 He1), T2].
    + destruct (negb ok'); [exact T2'|apply (T_attrEq2 e2 He2), T2'].
Qed.
Lemma L_attrAfterName2 f1 f2 r r' : InB r r' -> L1 - r_pos r < Z.of_nat f1 -> L2 - r_pos r < Z.of_nat f2 ->
  ResAny (r_pos r) (attrAfterName2 f1 r) (attrAfterName2 f2 r').
Proof.
  intros H G1 G2. gpos H. unfold attrAfterName2. pose proof (L_skipLS f1 f2 r r' H G1 G2) as HS.
  destruct (skipLinkSpace f1 r) as [ok r4]. destruct (skipLinkSpace f2 r') as [ok' r4']. unfold ResF in HS. cbn [fst snd] in HS.
  destruct HS as [(-> & [H4 Hp4])|((T4 & T4') & -> & ->)]; [|cbn [negb]; anyIn H].
  destruct ok'; cbn [negb]; [|anyIn H]. apply L_attrEq; [split; [exact H|lia]|exact H4|lia|lia|lia].
Qed.
Lemma L_attrAfterName f1 f2 r r' : InB r r' -> L1 - r_pos r < Z.of_nat f1 -> L2 - r_pos r < Z.of_nat f2 ->
  ResAny (r_pos r) (attrAfterName f1 r) (attrAfterName f2 r').
Proof.
  intros H G1 G2. gpos H. unfold attrAfterName. pose proof (L_attrName_loop f1 f2 r r' H G1 G2) as HS.
  destruct (attrName_loop f1 r) as [cont r3]. destruct (attrName_loop f2 r') as [cont' r3']. unfold ResAny in HS. cbn [fst snd] in HS.
  destruct HS as [(-> & [H3 Hp3])|(T3 & T3')].
  - destruct cont'; cbn [negb]; [|anyIn H3]. apply (ResAny_w _ (r_pos r3)); [lia|]. apply L_attrAfterName2; [exact H3|lia|lia].
  - right. split.
    + destruct (negb cont); [exact T3|apply (T_attrAfterName2 e1 He1), T3].
    + destruct (negb cont'); [exact T3'|apply (T_attrAfterName2 e2 He2), T3'].
Qed.
Lemma L_attr f1 f2 r r' : InB r r' -> L1 - r_pos r < Z.of_nat f1 -> L2 - r_pos r < Z.of_nat f2 ->
  ResAny (r_pos r) (parseHTMLAttribute f1 r) (parseHTMLAttribute f2 r').
Proof.
  intros H G1 G2. gpos H. rewrite !attr_eq. icur H c.
  destruct (negb (isASCIILetter c) && negb (c =? 95) && negb (c =? 58)); [anyIn H|].
  inext H ok ok' r2 r2' Hn. destruct Hn as [(-> & -> & H2 & Hp2)|(T2 & T2' & Hp2 & Hp2' & Ho & Ho')].
  - cbn [negb]. apply (ResAny_w _ (r_pos r2)); [lia|]. apply L_attrAfterName; [exact H2|lia|lia].
  - right. split.
    + destruct (negb ok); [exact T2|apply (T_attrAfterName e1 He1), T2].
    + destruct (negb ok'); [exact T2'|apply (T_attrAfterName e2 He2), T2'].
Qed.

(* a result -1 / tail on both sides *)
Lemma both_tail (x x' : Z * reader) : (fst x = -1 /\ Tl e1 (snd x)) -> (fst x' = -1 /\ Tl e2 (snd x')) -> forall p, ResEq p x x'.
Proof. intros [A B] [A' B'] p. split; [rewrite A, A'; reflexivity|right; split; assumption]. Qed.

Lemma L_gtEnd r r' : InB r r' -> ResEq (r_pos r) (r_pos r + 1, snd (next r)) (r_pos r' + 1, snd (next r')).
Proof.
  intros H. gpos H. cbn [fst snd]. split; [cbn [fst]; lia|]. cbn [snd].
  destruct (L_next r r' H) as [(_ & _ & H2 & Hp2)|(T2 & T2' & _)]; [left; split; [exact H2|lia]|right; split; assumption].
Qed.
Lemma L_gtPart r r' : InB r r' -> ResEq (r_pos r) (gtPart r) (gtPart r').
Proof.
  intros H. gpos H. unfold gtPart. icur H c. destruct (negb (c =? 62)); [eqIn H|apply L_gtEnd, H].
Qed.
Lemma L_slashPart r r' : InB r r' -> ResEq (r_pos r) (slashPart r) (slashPart r').
Proof.
  intros H. gpos H. unfold slashPart.
  inext H ok ok' r2 r2' Hn. destruct Hn as [(-> & -> & H2 & Hp2)|(T2 & T2' & Hp2 & Hp2' & Ho & Ho')].
  - rewrite (InB_jumped _ _ H2). cbn [negb orb]. destruct (jumped r2); [eqIn H2|].
    apply (ResEq_w _ (r_pos r2)); [lia|]. apply L_gtPart, H2.
  - apply both_tail; (apply T_afterNext; [assumption|]); [apply (T_gtPart e1 He1), T2|apply (T_gtPart e2 He2), T2'].
Qed.
Lemma L_openTag_loop : forall f1 f2 r r', InB r r' -> L1 - r_pos r < Z.of_nat f1 -> L2 - r_pos r < Z.of_nat f2 ->
  ResEq (r_pos r) (openTag_loop f1 r) (openTag_loop f2 r').
Proof.
  induction f1 as [|f1 IH]; intros f2 r r' H G1 G2; gpos H; [exfalso; lia|].
  destruct f2 as [|f2]; [exfalso; lia|]. rewrite !openLoop_eq.
  pose proof (L_skipLS (S f1) (S f2) r r' H G1 G2) as HS.
  destruct (skipLinkSpace (S f1) r) as [ok r1]. destruct (skipLinkSpace (S f2) r') as [ok' r1']. unfold ResF in HS. cbn [fst snd] in HS.
  destruct HS as [(-> & [H1 Hp1])|((T1 & T1') & -> & ->)]; [|cbn [negb]; split; [reflexivity|right; split; assumption]].
  destruct ok'; cbn [negb]; [|eqIn H1]. gpos H1. icur H1 c.
  destruct (c =? 47); [apply (ResEq_w _ (r_pos r1)); [lia|]; apply L_slashPart, H1|].
  destruct (c =? 62); [apply (ResEq_w _ (r_pos r1)); [lia|]; apply L_gtEnd, H1|].
  rewrite Pe, Pe0. destruct (Z.eqb_spec (r_pos r1) (r_pos r)) as [Eq|Ne]; [eqIn H1|].
  pose proof (L_attr (S f1) (S f2) r1 r1' H1 ltac:(lia) ltac:(lia)) as HA.
  destruct (parseHTMLAttribute (S f1) r1) as [ok3 r3]. destruct (parseHTMLAttribute (S f2) r1') as [ok3' r3']. unfold ResAny in HA. cbn [fst snd] in HA.
  destruct HA as [(-> & [H3 Hp3])|(T3 & T3')].
  - destruct ok3'; cbn [negb]; [|eqIn H3]. apply (ResEq_w _ (r_pos r3)); [lia|]. apply IH; [exact H3|lia|lia].
  - apply both_tail; (apply T_afterNext; [assumption|]); [apply (T_openTag_loop e1 He1), T3|apply (T_openTag_loop e2 He2), T3'].
Qed.
Lemma L_openTag f1 f2 r r' : InB r r' -> L1 - r_pos r < Z.of_nat f1 -> L2 - r_pos r < Z.of_nat f2 ->
  ResEq (r_pos r) (parseHTMLOpenTag f1 r) (parseHTMLOpenTag f2 r').
Proof.
  intros H G1 G2. gpos H. unfold parseHTMLOpenTag. pose proof (L_tagName f1 f2 r r' H G1 G2) as HS.
  destruct (parseHTMLTagName f1 r) as [ok r1]. destruct (parseHTMLTagName f2 r') as [ok' r1']. unfold ResEq in HS. cbn [fst snd] in HS.
  destruct HS as (-> & [[H1 Hp1]|(T1 & T1')]).
  - destruct ok'; cbn [negb]; [|eqIn H1]. apply (ResEq_w _ (r_pos r1)); [lia|]. apply L_openTag_loop; [exact H1|lia|lia].
  - apply both_tail; (apply T_afterNext; [assumption|]); [apply (T_openTag_loop e1 He1), T1|apply (T_openTag_loop e2 He2), T1'].
Qed.
Lemma L_closeRest2 f1 f2 r r' : InB r r' -> L1 - r_pos r < Z.of_nat f1 -> L2 - r_pos r < Z.of_nat f2 ->
  ResEq (r_pos r) (closeRest2 f1 r) (closeRest2 f2 r').
Proof.
  intros H G1 G2. gpos H. unfold closeRest2. pose proof (L_skipLS f1 f2 r r' H G1 G2) as HS.
  destruct (skipLinkSpace f1 r) as [ok r4]. destruct (skipLinkSpace f2 r') as [ok' r4']. unfold ResF in HS. cbn [fst snd] in HS.
  destruct HS as [(-> & [H4 Hp4])|((T4 & T4') & -> & ->)]; [|cbn [negb]; split; [reflexivity|right; split; assumption]].
  destruct ok'; cbn [negb]; [|eqIn H4]. apply (ResEq_w _ (r_pos r4)); [lia|]. apply L_gtPart, H4.
Qed.
Lemma L_closeRest f1 f2 r r' : InB r r' -> L1 - r_pos r < Z.of_nat f1 -> L2 - r_pos r < Z.of_nat f2 ->
  ResEq (r_pos r) (closeRest f1 r) (closeRest f2 r').
Proof.
  intros H G1 G2. gpos H. unfold closeRest. pose proof (L_tagName f1 f2 r r' H G1 G2) as HS.
  destruct (parseHTMLTagName f1 r) as [ok r3]. destruct (parseHTMLTagName f2 r') as [ok' r3']. unfold ResEq in HS. cbn [fst snd] in HS.
  destruct HS as (-> & [[H3 Hp3]|(T3 & T3')]).
  - destruct ok'; cbn [negb]; [|eqIn H3]. apply (ResEq_w _ (r_pos r3)); [lia|]. apply L_closeRest2; [exact H3|lia|lia].
  - apply both_tail; (apply T_afterNext; [assumption|]); [apply (T_closeRest2 e1 He1), T3|apply (T_closeRest2 e2 He2), T3'].
Qed.
Lemma L_closing f1 f2 r r' : InB r r' -> L1 - r_pos r < Z.of_nat f1 -> L2 - r_pos r < Z.of_nat f2 ->
  ResEq (r_pos r) (parseHTMLClosingTag f1 r) (parseHTMLClosingTag f2 r').
Proof.
  intros H G1 G2. gpos H. rewrite !closing_eq. icur H c. destruct (negb (c =? 47)); [eqIn H|].
  inext H ok ok' r2 r2' Hn. destruct Hn as [(-> & -> & H2 & Hp2)|(T2 & T2' & Hp2 & Hp2' & Ho & Ho')].
  - rewrite (InB_jumped _ _ H2). cbn [negb orb]. destruct (jumped r2); [eqIn H2|].
    apply (ResEq_w _ (r_pos r2)); [lia|]. apply L_closeRest; [exact H2|lia|lia].
  - apply both_tail; (apply T_afterNext; [assumption|]); [apply (T_closeRest e1 He1), T2|apply (T_closeRest e2 He2), T2'].
Qed.

Lemma Tl_init e : len body <= 1 -> Tl e (newReader (body ++ e) [fk (len (body ++ e))] 1).
Proof. intros H. unfold Tl, newReader. cbn [r_src r_spans r_pos]. repeat split; try lia. left. reflexivity. Qed.
Lemma InB_init : 1 < len body ->
  InB (newReader (body ++ e1) [fk (len (body ++ e1))] 1) (newReader (body ++ e2) [fk (len (body ++ e2))] 1).
Proof. intros H. unfold InB, newReader. cbn [r_src r_spans r_pos r_vpos r_prev]. repeat split; lia. Qed.

Lemma cond7_tail (F : nat -> reader -> Z * reader) :
  (forall f1 f2 r r', InB r r' -> L1 - r_pos r < Z.of_nat f1 -> L2 - r_pos r < Z.of_nat f2 -> ResEq (r_pos r) (F f1 r) (F f2 r')) ->
  (forall e, eolRun e -> forall f r, Tl e r -> fst (F f r) = -1 /\ Tl e (snd (F f r))) ->
  1 <= len body ->
  (let '(e, r1) := F (2 * length (body ++ e1) + 10)%nat (newReader (body ++ e1) [fk (len (body ++ e1))] 1) in
   if e <? 0 then false else negb (fst (skipLinkSpace (2 * length (body ++ e1) + 10)%nat r1))) =
  (let '(e, r1) := F (2 * length (body ++ e2) + 10)%nat (newReader (body ++ e2) [fk (len (body ++ e2))] 1) in
   if e <? 0 then false else negb (fst (skipLinkSpace (2 * length (body ++ e2) + 10)%nat r1))).
Proof.
  intros HL HT Hb.
  set (fu1 := (2 * length (body ++ e1) + 10)%nat). set (fu2 := (2 * length (body ++ e2) + 10)%nat).
  assert (F1 : Z.of_nat fu1 = 2 * L1 + 10) by (unfold fu1, L1, len; lia).
  assert (F2 : Z.of_nat fu2 = 2 * L2 + 10) by (unfold fu2, L2, len; lia).
  assert (N1 : len body <= L1) by (unfold L1; rewrite len_app; pose proof (len_nonneg e1); lia).
  assert (N2 : len body <= L2) by (unfold L2; rewrite len_app; pose proof (len_nonneg e2); lia).
  destruct (Z_lt_le_dec 1 (len body)) as [Lt|Ge].
  - pose proof (InB_init Lt) as H0.
    set (ra := newReader (body ++ e1) [fk (len (body ++ e1))] 1) in *.
    set (rb := newReader (body ++ e2) [fk (len (body ++ e2))] 1) in *.
    assert (P0 : r_pos ra = 1) by reflexivity.
    pose proof (HL fu1 fu2 ra rb H0 ltac:(lia) ltac:(lia)) as HR.
    destruct (F fu1 ra) as [e r1]. destruct (F fu2 rb) as [e' r1']. unfold ResEq in HR. cbn [fst snd] in HR.
    destruct HR as (-> & [[H1 Hp1]|(T1 & T1')]); destruct (e' <? 0); try reflexivity.
    + destruct (InB_pos _ _ H1) as (Pe & Pr & _ & _).
      pose proof (L_skipLS fu1 fu2 r1 r1' H1 ltac:(lia) ltac:(lia)) as HS. unfold ResF in HS.
      destruct HS as [[A _]|(_ & A & B)]; [rewrite A; reflexivity|rewrite A, B; reflexivity].
    + assert (Q1 : 1 <= r_pos r1) by apply T1. assert (Q2 : 1 <= r_pos r1') by apply T1'.
      rewrite (proj2 (T_skipLS e1 He1 fu1 r1 T1)) by (fold L1; lia).
      rewrite (proj2 (T_skipLS e2 He2 fu2 r1' T1')) by (fold L2; lia). reflexivity.
  - destruct (HT e1 He1 fu1 _ (Tl_init e1 Ge)) as [A _]. destruct (HT e2 He2 fu2 _ (Tl_init e2 Ge)) as [B _].
    destruct (F fu1 (newReader (body ++ e1) [fk (len (body ++ e1))] 1)) as [e r1].
    destruct (F fu2 (newReader (body ++ e2) [fk (len (body ++ e2))] 1)) as [e' r1']. cbn [fst] in A, B. subst e e'. reflexivity.
Qed.

Lemma startCond7_two : startCond7 (body ++ e1) = startCond7 (body ++ e2).
Proof.
  unfold startCond7.
  rewrite !(hbp_app_eol e1 [60] He1), !(hbp_app_eol e2 [60] He2) by (apply noEolb_spec; reflexivity).
  rewrite !(hbp_app_eol e1 [60; 47] He1), !(hbp_app_eol e2 [60; 47] He2) by (apply noEolb_spec; reflexivity).
  destruct (hasBytePrefix body [60]) eqn:E60; cbn [negb]; [|reflexivity]. cbv zeta.
  apply hbp_len in E60. change (len [60]) with 1 in E60.
  change (Inl UnparsedKind 1 (len (body ++ e1)) 0 [] []) with (fk (len (body ++ e1))).
  change (Inl UnparsedKind 1 (len (body ++ e2)) 0 [] []) with (fk (len (body ++ e2))).
  destruct (hasBytePrefix body [60; 47]).
  - apply (cond7_tail parseHTMLClosingTag); [exact L_closing|intros e He f r; apply (T_closing e He)|exact E60].
  - apply (cond7_tail parseHTMLOpenTag); [exact L_openTag|intros e He f r; apply (T_openTag e He)|exact E60].
Qed.
End Two.
End Rd.

(* ---------- the theorems ---------- *)
Lemma startCond7_eol body e : eolRun e -> startCond7 (body ++ e) = startCond7 body.
Proof.
  intros He. rewrite (startCond7_two body e [] He (Forall_nil _)). rewrite app_nil_r. reflexivity.
Qed.

(* the start condition: any run of line-ending bytes (including none) may be appended *)
Theorem htmlStart_eolRun i body e : eolRun e -> htmlStart i (body ++ e) = htmlStart i body.
Proof.
  intros He. unfold htmlStart, commentPrefix, piPrefix, cdataPrefix.
  rewrite (startCond1_eol body e He), (startCond6_eol body e He), (startCond7_eol body e He), (declPrefix_eol body e He).
  rewrite !(hbp_app_eol e _ He) by (apply noEolb_spec; reflexivity). reflexivity.
Qed.

Lemma eolRun_lf : eolRun [10]. Proof. apply Forall_cons; [left; reflexivity|apply Forall_nil]. Qed.
Lemma eolRun_crlf : eolRun [13; 10]. Proof. apply Forall_cons; [right; reflexivity|apply eolRun_lf]. Qed.

Theorem htmlStart_lf_crlf i body : noEolB body -> htmlStart i (body ++ [13; 10]) = htmlStart i (body ++ [10]).
Proof. intros _. rewrite (htmlStart_eolRun i body _ eolRun_crlf), (htmlStart_eolRun i body _ eolRun_lf). reflexivity. Qed.
Theorem htmlEnd_lf_crlf i body : noEolB body -> htmlEnd i (body ++ [13; 10]) = htmlEnd i (body ++ [10]).
Proof. intros _. apply htmlEnd_eolRun; [exact eolRun_crlf|discriminate]. Qed.
Theorem htmlStart_lf_none i body : noEolB body -> htmlStart i (body ++ [10]) = htmlStart i body.
Proof. intros _. apply htmlStart_eolRun, eolRun_lf. Qed.

(* the end condition does depend on whether there is an ending at all (the off-by-one of contains) *)
Example htmlEnd_none_counterexample : htmlEnd 2 [60; 63; 62] = false /\ htmlEnd 2 ([60; 63; 62] ++ [10]) = true.
Proof. split; vm_compute; reflexivity. Qed.

Print Assumptions htmlStart_lf_crlf. Print Assumptions htmlEnd_lf_crlf.
Print Assumptions htmlStart_lf_none. Print Assumptions htmlStart_eolRun. Print Assumptions htmlEnd_eolRun.
