(* SliceCode.v -- property C06, clause (B) "verbatim code", as a theorem about renderDoc for any number of lines of any length.

   Main theorem (closed under the global context):

     Theorem C06_code_verbatim n ls : (3 <= n)%nat ->
       Forall (fun l => Forall (fun c => c <> 10 /\ c <> 13 /\ c <> 0) l) ls ->
       Forall (fun l => countWhile (fun c => c =? 96) (stripSp 3 l) < Z.of_nat n) ls ->
       renderDoc c0 (repeat 96 n ++ [10] ++ concat (map (fun l => l ++ [10]) ls) ++ repeat 96 n ++ [10]) =
       "<pre><code>" ++ escapeHTML (concat (map (fun l => l ++ [10]) ls)) ++ "</code></pre>"      (as explicit byte lists)

   stripSp 3 l removes up to three leading spaces.  Experiments (vm_compute) showed that tabs need no side condition (a leading
   tab gives indent 4, so the line can never close the fence; the partial-tab branch of addLineText needs 0 < tabRem < 4, and at
   column 0 tabRem is 0 or 4), blank and empty lines are fine, ls = [] is fine; NUL must be excluded (it is replaced by U+FFFD).
   Route: processLine_fence_open (first line: startFenced) ; processLine_code_line / processLine_code_close (descend into the
   open block: matchFenced does not close / closes) ; fenceClose_content / fenceClose_fence (the closing test, using the cursor
   arithmetic of Cursor.v) ; lineLoop_code (induction over the lines) ; parseBlocks_code ; render_texts. *)
From Coq Require Import List ZArith Lia Bool.
Import ListNotations.
Require Import Base Tables Utf8 Tree Rdr Link Collect Html Recog LP Rules Starts Driver Inl3a Inl3b Inl3e Render Cursor SliceBase SlicePara.
Open Scope Z_scope.

Ltac lensimp := repeat (rewrite sl_len_app || rewrite sl_len_cons || rewrite sl_len_nil).

(* ---------------------------------------------------------------------------------------------- *)
(* 1. cursor primitives                                                                           *)
(* ---------------------------------------------------------------------------------------------- *)
Lemma advance_spec p n : 0 < n -> li p + n <= len (line p) ->
  exists cl tr, advance p n = setLP p (root p) (container p) (li p + n) cl tr
                                    (if state p =? stOpening then stOpenMatched else state p) (panicked p).
Proof.
  intros Hn Hle. destruct p as [src rt cont ls ln i cl tr st pn]. cbn [li line root container state panicked] in *.
  unfold advance. destruct (Z.ltb_spec n 0); [lia|]. destruct (Z.eqb_spec n 0); [lia|].
  destruct (st =? stOpening) eqn:Es; cbn [state withState setLP li line]; rewrite ?Es; cbn [li line withState setLP].
  - destruct (Z.ltb_spec (len ln) (i + n)); [lia|]. eexists. eexists. reflexivity.
  - destruct (Z.ltb_spec (len ln) (i + n)); [lia|]. eexists. eexists. reflexivity.
Qed.

Definition afterLine (st : Z) : Z :=
  let s1 := if st =? stOpening then stOpenMatched else st in
  if (s1 =? stOpening) || (s1 =? stOpenMatched) then stLineConsumed else if s1 =? stDescending then stDescendTerminated else s1.

Lemma consumeLine_spec p : 0 <= li p -> li p < len (line p) ->
  exists cl tr, consumeLine p = setLP p (root p) (container p) (len (line p)) cl tr (afterLine (state p)) (panicked p).
Proof.
  intros H0 Hlt. unfold consumeLine.
  destruct (advance_spec p (len (line p) - li p)) as (cl & tr & E); [lia|lia|]. rewrite E.
  replace (li p + (len (line p) - li p)) with (len (line p)) by lia.
  cbn [state setLP]. unfold afterLine. cbv zeta.
  destruct (((if state p =? stOpening then stOpenMatched else state p) =? stOpening)
           || ((if state p =? stOpening then stOpenMatched else state p) =? stOpenMatched)).
  - exists cl, tr. reflexivity.
  - destruct ((if state p =? stOpening then stOpenMatched else state p) =? stDescending); exists cl, tr; reflexivity.
Qed.

(* ---------------------------------------------------------------------------------------------- *)
(* 2. the fence recogniser                                                                        *)
(* ---------------------------------------------------------------------------------------------- *)
Definition fence (n : nat) : bytes := repeat 96 n.
Lemma len_fence n : len (fence n) = Z.of_nat n.
Proof. unfold len, fence. rewrite repeat_length. reflexivity. Qed.
Lemma fence_S n : fence (S n) = 96 :: fence n. Proof. reflexivity. Qed.

Lemma countWhile_fence n x r : x <> 96 -> countWhile (fun c => c =? 96) (fence n ++ x :: r) = Z.of_nat n.
Proof.
  intros Hx. induction n as [|n IH].
  - cbn [fence repeat app countWhile]. destruct (Z.eqb_spec x 96); [contradiction|reflexivity].
  - rewrite fence_S. cbn [app countWhile]. change (96 =? 96) with true. cbv iota. rewrite IH. lia.
Qed.

Lemma parseCodeFence_fence n : (3 <= n)%nat -> parseCodeFence (fence n ++ [10]) = (96, Z.of_nat n, -1, -1).
Proof.
  intros Hn. unfold parseCodeFence. destruct n as [|n']; [lia|]. rewrite fence_S. cbn [app].
  set (n := S n') in *.
  assert (Hl : len (96 :: fence n' ++ [10]) = Z.of_nat n + 1).
  { lensimp. rewrite len_fence. change (len [10]) with 1. lia. }
  rewrite Hl. destruct (Z.ltb_spec (Z.of_nat n + 1) 3); [lia|].
  change (negb ((96 =? 96) || (96 =? 126))) with false. cbn [orb].
  change (96 :: fence n' ++ [10]) with (fence n ++ [10]).
  rewrite (countWhile_fence n 10 []) by lia.
  destruct (Z.ltb_spec (Z.of_nat n) 3); [lia|].
  rewrite <- len_fence. rewrite sl_from_app_len. cbn [firstNonWs]. change (isSpaceTabOrLineEnding 10) with true. cbv iota.
  reflexivity.
Qed.

(* what parseCodeFence can return *)
Lemma parseCodeFence_shape l :
  let '(fc, fnn, is, ie) := parseCodeFence l in fnn = 0 \/ fnn = countWhile (fun c => c =? fc) l.
Proof.
  unfold parseCodeFence. destruct l as [|c0 r]; [left; reflexivity|].
  destruct ((len (c0 :: r) <? 3) || negb ((c0 =? 96) || (c0 =? 126))); [left; reflexivity|].
  destruct (countWhile (fun c => c =? c0) (c0 :: r) <? 3); [left; reflexivity|].
  destruct (firstNonWs _ _ <? 0); [right; reflexivity|].
  destruct ((c0 =? 96) && existsb _ _); [left; reflexivity|right; reflexivity].
Qed.

(* ---------------------------------------------------------------------------------------------- *)
(* 3. the opening fence line                                                                      *)
(* ---------------------------------------------------------------------------------------------- *)
Definition fencedOpen (s n : Z) (texts : list inline) : block := Blk FencedCodeBlockKind s (-1) [] texts 0 n 96 false false.
Definition fencedClosed (s e n : Z) (texts : list inline) : block := Blk FencedCodeBlockKind s e [] texts 0 n 96 false false.

Lemma st_bq' p c r : atLine p c r -> isSpTab c = false -> c <> 62 -> startBlockQuote p = p.
Proof.
  intros H Hs Hc. unfold startBlockQuote. rewrite (al_indent p c r H Hs). cbn [codeBlockIndentLimit Z.leb Z.compare].
  rewrite (al_bai p c r H Hs). cbn [hasBytePrefix]. destruct (Z.eqb_spec 62 c); [congruence|]. reflexivity.
Qed.
Lemma st_atx' p c r : atLine p c r -> isSpTab c = false -> c <> 35 -> startATX p = p.
Proof.
  intros H Hs Hc. unfold startATX. rewrite (al_indent p c r H Hs). cbn [codeBlockIndentLimit Z.leb Z.compare].
  rewrite (al_bai p c r H Hs). unfold parseATXHeading. cbn [countWhile]. destruct (Z.eqb_spec c 35); [congruence|]. reflexivity.
Qed.

Lemma startFenced_open p n r : (3 <= n)%nat -> atLine p 96 r -> 96 :: r = fence n ++ [10] ->
  container p = Some O -> root p = rootDoc [] -> state p = stOpening ->
  exists cl tr, startFenced p = setLP p (rootDoc [fencedOpen (lineStart p + li p) (Z.of_nat n) []]) (Some 1%nat) (len (line p)) cl tr
                                     stLineConsumed (panicked p).
Proof.
  intros Hn Hal Hline Hcont Hroot Hst. unfold startFenced.
  rewrite (al_indent p 96 r Hal eq_refl). cbn [codeBlockIndentLimit Z.leb Z.compare].
  rewrite (al_bai p 96 r Hal eq_refl). rewrite Hline, (parseCodeFence_fence n Hn).
  destruct (Z.eqb_spec (Z.of_nat n) 0); [lia|].
  rewrite (consumeIndent_le0 p 0) by lia.
  rewrite (openBlock_empty_doc p FencedCodeBlockKind Hcont Hroot (or_introl Hst) eq_refl).
  change (spanValid (-1, -1)) with false. cbv iota.
  set (p2 := updCont (updCont (setLP p (rootDoc [newBlock FencedCodeBlockKind (lineStart p + li p)]) (Some 1%nat) (li p) (col p) (tabRem p) stOpenMatched (panicked p))
                       (fun b => set_bn (set_bchar b 96) (Z.of_nat n))) (fun b => set_bindent b 0)).
  assert (E2 : p2 = setLP p (rootDoc [fencedOpen (lineStart p + li p) (Z.of_nat n) []]) (Some 1%nat) (li p) (col p) (tabRem p) stOpenMatched (panicked p)).
  { subst p2. destruct p as [src rt cont ls ln i cl tr st pn]. reflexivity. }
  rewrite E2. clear p2 E2.
  set (p3 := setLP p _ _ _ _ _ _ _).
  destruct Hal as [Hli Hln].
  destruct (consumeLine_spec p3) as (cl & tr & E).
  { change (li p3) with (li p). lia. }
  { change (li p3) with (li p). change (line p3) with (line p). rewrite Hli, Hln. lensimp. pose proof (sl_len_nonneg r). lia. }
  rewrite E. exists cl, tr. subst p3. destruct p as [src rt cont ls ln i cl' tr' st pn]. reflexivity.
Qed.

Lemma processLine_fence_open src ls n r : (3 <= n)%nat -> from_ src ls = 96 :: r -> 96 :: r = fence n ++ [10] ->
  processLine 0 [] ls src = ([fencedOpen ls (Z.of_nat n) []], stLineConsumed, 0).
Proof.
  intros Hn Hl Hline. unfold processLine, resetLP. rewrite Hl.
  rewrite (computeTabRem_0 96 r 0 eq_refl).
  set (p0 := {| source := src; root := Blk documentKind 0 (-1) [] [] 0 0 0 false false; container := Some 0%nat;
               lineStart := ls; line := 96 :: r; li := 0; col := 0; tabRem := 0; state := 0; panicked := 0 |}).
  assert (Hd : descendOpenBlocks p0 = (true, p0)) by reflexivity.
  rewrite Hd. change (negb (state p0 =? stDescendTerminated)) with true. cbv iota.
  assert (Hal : atLine (withState p0 stOpening) 96 r) by (split; reflexivity).
  destruct (startFenced_open (withState p0 stOpening) n r Hn Hal Hline eq_refl eq_refl eq_refl) as (cl & tr & Esf).
  assert (Ets : tryStarts blockStarts p0 = (true, startFenced (withState p0 stOpening))).
  { unfold blockStarts. cbn [tryStarts].
    rewrite (st_bq' (withState p0 stOpening) 96 r Hal eq_refl) by lia.
    change (state (withState p0 stOpening)) with stOpening.
    change ((stOpening =? stOpenMatched) || (stOpening =? stLineConsumed)) with false. cbv iota.
    change (withState (withState p0 stOpening) stOpening) with (withState p0 stOpening).
    rewrite (st_atx' (withState p0 stOpening) 96 r Hal eq_refl) by lia.
    change (state (withState p0 stOpening)) with stOpening.
    change ((stOpening =? stOpenMatched) || (stOpening =? stLineConsumed)) with false. cbv iota.
    change (withState (withState p0 stOpening) stOpening) with (withState p0 stOpening).
    rewrite Esf. cbn [state setLP]. change ((stLineConsumed =? stOpenMatched) || (stLineConsumed =? stLineConsumed)) with true.
    reflexivity. }
  unfold openNewBlocks. change (len (line p0) =? 0) with (len (96 :: r) =? 0).
  destruct (Z.eqb_spec (len (96 :: r)) 0) as [E|_]; [rewrite sl_len_cons in E; pose proof (sl_len_nonneg r); lia|].
  change (length (line p0)) with (length (96 :: r)). cbn [length opening_loop].
  change (containerKind p0) with documentKind.
  change ((documentKind =? ParagraphKind) || negb (acceptsLines documentKind)) with true. cbv iota.
  rewrite Ets, Esf. cbn [state setLP]. change (stLineConsumed =? stLineConsumed) with true. cbv iota.
  cbn [root setLP bkids rootDoc state panicked withState p0 lineStart li]. rewrite Z.add_0_r. reflexivity.
Qed.

(* ---------------------------------------------------------------------------------------------- *)
(* 4. a line inside the open fenced block                                                         *)
(* ---------------------------------------------------------------------------------------------- *)
Definition fenceClose (ind : Z) (bai : bytes) (ch n : Z) : bool :=
  if ind <? codeBlockIndentLimit then
    let '(fc, fnn, is, ie) := parseCodeFence bai in
    (0 <? fnn) && negb (spanValid (is, ie)) && (fc =? ch) && (n <=? fnn)
  else false.

Lemma matchFenced_eq p : matchFenced p =
  if fenceClose (indent p) (bytesAfterIndent p) (bchar (contBlock p)) (bn (contBlock p)) then (false, consumeLine p)
  else (true, consumeIndent p (if indent p <? bindent (contBlock p) then indent p else bindent (contBlock p))).
Proof. reflexivity. Qed.

(* the cursor at the start of a line, inside the fenced block *)
Definition lpIn (src : bytes) (s n : Z) (texts : list inline) (ls : Z) (ln : bytes) (cont : nat) (st : Z) : lp :=
  {| source := src; root := rootDoc [fencedOpen s n texts]; container := Some cont; lineStart := ls; line := ln; li := 0; col := 0;
     tabRem := computeTabRem ln 0 0; state := st; panicked := 0 |}.

Lemma tabRem0_cases ln : computeTabRem ln 0 0 = 0 \/ computeTabRem ln 0 0 = 4.
Proof. unfold computeTabRem. destruct ((0 <? len ln) && (at_ ln 0 =? 9)); [right; reflexivity|left; reflexivity]. Qed.

Lemma addLineText_fenced src s n texts ls ln : ln <> [] -> hasByteSuffixEOL ln = true ->
  addLineText (lpIn src s n texts ls ln 1 stDescending) =
  withRoot (lpIn src s n texts ls ln 1 stDescending) (rootDoc [fencedOpen s n (texts ++ [mkI TextKind (ls + 0) (ls + len ln)])]).
Proof.
  intros Hne Heol. set (q := lpIn src s n texts ls ln 1 stDescending).
  unfold addLineText.
  assert (E1 : (if isRestBlank q then updCont q (fun b => match lastBlock b with Some c => set_lastBlocks b [set_blast c true] | None => b end) else q) = q).
  { destruct (isRestBlank q); reflexivity. }
  cbv zeta. rewrite E1.
  change (contBlock q) with (fencedOpen s n texts). change (bkind (fencedOpen s n texts)) with FencedCodeBlockKind.
  assert (E2 : isRestBlank q && negb ((FencedCodeBlockKind =? BlockQuoteKind) || (FencedCodeBlockKind =? FencedCodeBlockKind) ||
                 (FencedCodeBlockKind =? ListItemKind) && (childCount (fencedOpen s n texts) =? 1) && (lineStart q <=? bstart (fencedOpen s n texts))) = false).
  { change ((FencedCodeBlockKind =? BlockQuoteKind) || (FencedCodeBlockKind =? FencedCodeBlockKind)) with true. cbn [orb negb]. apply andb_false_r. }
  rewrite E2.
  change (withRoot q (setLastBlankUpTo (cdepth q) false (root q))) with q.
  change (acceptsLines FencedCodeBlockKind) with true. cbv iota.
  assert (E3 : (li q <? len (line q)) && (at_ (line q) (li q) =? 9) && (0 <? tabRem q) && (tabRem q <? 4) = false).
  { change (tabRem q) with (computeTabRem ln 0 0). destruct (tabRem0_cases ln) as [-> | ->].
    - change (0 <? 0) with false. rewrite andb_false_r. reflexivity.
    - change (4 <? 4) with false. apply andb_false_r. }
  rewrite E3.
  change (containerKind q) with FencedCodeBlockKind. change (isCode FencedCodeBlockKind) with true. cbv iota.
  change (line (updCont q _)) with ln. rewrite Heol. cbn [negb andb].
  reflexivity.
Qed.

Lemma processLine_code_line st src s n texts ls ln :
  from_ src ls = ln -> ln <> [] -> hasByteSuffixEOL ln = true ->
  fenceClose (indent (lpIn src s n texts ls ln 1 stDescending)) (bytesAfterIndent (lpIn src s n texts ls ln 1 stDescending)) 96 n = false ->
  processLine st [fencedOpen s n texts] ls src =
  ([fencedOpen s n (texts ++ [mkI TextKind ls (ls + len ln)])], stDescending, 0).
Proof.
  intros Hl Hne Heol Hfc. unfold processLine, resetLP. rewrite Hl.
  set (p0 := {| source := src; root := Blk documentKind 0 (-1) [fencedOpen s n texts] [] 0 0 0 false false; container := Some 0%nat;
               lineStart := ls; line := ln; li := 0; col := 0; tabRem := computeTabRem ln 0 0; state := st; panicked := 0 |}).
  set (q := lpIn src s n texts ls ln 1 stDescending) in *.
  assert (Hm : matchFenced q = (true, q)).
  { rewrite matchFenced_eq. change (bchar (contBlock q)) with 96. change (bn (contBlock q)) with n. rewrite Hfc.
    change (bindent (contBlock q)) with 0. rewrite consumeIndent_le0; [reflexivity|]. destruct (Z.ltb_spec (indent q) 0); lia. }
  assert (Hd : descendOpenBlocks p0 = (true, q)).
  { unfold descendOpenBlocks. change (bheight (root p0)) with 2%nat. cbn [descend_loop].
    change (getAt 1 (root p0)) with (Some (fencedOpen s n texts)). cbv iota.
    change (negb (isOpen (fencedOpen s n texts))) with false. cbv iota.
    change (negb (hasMatch (bkind (fencedOpen s n texts)))) with false. cbv iota.
    change (withState (withCont p0 (Some 1%nat)) stDescending) with q.
    change (matchRule q) with (matchFenced q). rewrite Hm.
    change (state q =? stDescendTerminated) with false. cbv iota. cbn [negb].
    change (getAt 2 (root q)) with (@None block). reflexivity. }
  rewrite Hd. change (negb (state q =? stDescendTerminated)) with true. cbv iota.
  assert (Ho : openNewBlocks q true = (true, q)).
  { unfold openNewBlocks. change (line q) with ln.
    destruct (Z.eqb_spec (len ln) 0) as [E|_]; [destruct ln; [contradiction|rewrite sl_len_cons in E; pose proof (sl_len_nonneg ln); lia]|].
    cbn [opening_loop]. change (containerKind q) with FencedCodeBlockKind.
    change ((FencedCodeBlockKind =? ParagraphKind) || negb (acceptsLines FencedCodeBlockKind)) with false. reflexivity. }
  rewrite Ho. pose proof (addLineText_fenced src s n texts ls ln Hne Heol) as Ha. fold q in Ha. rewrite Ha.
  cbn [root withRoot setLP bkids rootDoc state panicked]. rewrite Z.add_0_r. reflexivity.
Qed.

Lemma processLine_code_close st src s n texts ls ln :
  from_ src ls = ln -> ln <> [] ->
  fenceClose (indent (lpIn src s n texts ls ln 1 stDescending)) (bytesAfterIndent (lpIn src s n texts ls ln 1 stDescending)) 96 n = true ->
  processLine st [fencedOpen s n texts] ls src = ([fencedClosed s (ls + len ln) n texts], stDescendTerminated, 0).
Proof.
  intros Hl Hne Hfc. unfold processLine, resetLP. rewrite Hl.
  set (p0 := {| source := src; root := Blk documentKind 0 (-1) [fencedOpen s n texts] [] 0 0 0 false false; container := Some 0%nat;
               lineStart := ls; line := ln; li := 0; col := 0; tabRem := computeTabRem ln 0 0; state := st; panicked := 0 |}).
  set (q := lpIn src s n texts ls ln 1 stDescending) in *.
  assert (Hlen : 0 < len ln) by (destruct ln; [contradiction|rewrite sl_len_cons; pose proof (sl_len_nonneg ln); lia]).
  destruct (consumeLine_spec q) as (cl & tr & Ec); [change (li q) with 0; lia|change (li q) with 0; change (line q) with ln; lia|].
  assert (Hm : matchFenced q = (false, consumeLine q)).
  { rewrite matchFenced_eq. change (bchar (contBlock q)) with 96. change (bn (contBlock q)) with n. rewrite Hfc. reflexivity. }
  set (q' := setLP q (root q) (container q) (len (line q)) cl tr (afterLine (state q)) (panicked q)) in *.
  assert (Hd : descendOpenBlocks p0 = (true, withCont (closeLastChildAt q' 0 (lineStart q' + li q')) (Some 0%nat))).
  { unfold descendOpenBlocks. change (bheight (root p0)) with 2%nat. cbn [descend_loop].
    change (getAt 1 (root p0)) with (Some (fencedOpen s n texts)). cbv iota.
    change (negb (isOpen (fencedOpen s n texts))) with false. cbv iota.
    change (negb (hasMatch (bkind (fencedOpen s n texts)))) with false. cbv iota.
    change (withState (withCont p0 (Some 1%nat)) stDescending) with q.
    change (matchRule q) with (matchFenced q). rewrite Hm, Ec.
    change (state q' =? stDescendTerminated) with true. cbv iota. reflexivity. }
  rewrite Hd.
  set (q2 := withCont (closeLastChildAt q' 0 (lineStart q' + li q')) (Some 0%nat)).
  change (negb (state q2 =? stDescendTerminated)) with false. cbv iota.
  change (state q2) with stDescendTerminated. change (panicked q2) with 0.
  reflexivity.
Qed.

(* ---------------------------------------------------------------------------------------------- *)
(* 5. which lines close the block                                                                 *)
(* ---------------------------------------------------------------------------------------------- *)
(* remove up to k leading spaces *)
Fixpoint stripSp (k : nat) (l : bytes) : bytes :=
  match k with
  | O => l
  | S k' => match l with c :: r => if c =? 32 then stripSp k' r else l | [] => [] end
  end.

Lemma ts_small col : 0 <= col < 4 -> ts col = 4.
Proof.
  intros H. unfold ts. replace (col + 4) with (col + 1 * 4) by lia. rewrite Z.mod_add by lia. rewrite Z.mod_small by lia. lia.
Qed.

Lemma wsprefix_strip : forall l col, 0 <= col -> col + columnWidth col (upto l (indentLength l)) < 4 ->
  trimLeftSpTab l = stripSp (Z.to_nat (3 - col)) l.
Proof.
  induction l as [|c r IH]; intros col H0 Hw.
  - cbn [trimLeftSpTab]. destruct (Z.to_nat (3 - col)); reflexivity.
  - cbn [trimLeftSpTab indentLength] in *. unfold isSpTab in *.
    destruct (Z.eqb_spec c 32) as [E32|N32].
    + subst c. cbn [orb] in *. pose proof (indentLength_nonneg r) as Hi.
      rewrite (upto_cons 32 r (indentLength r) Hi) in Hw. rewrite columnWidth_sp in Hw.
      pose proof (columnWidth_nonneg (col + 1) (upto r (indentLength r))) as Hnn.
      replace (Z.to_nat (3 - col)) with (S (Z.to_nat (3 - (col + 1)))) by lia.
      cbn [stripSp]. change (32 =? 32) with true. cbv iota. apply IH; lia.
    + cbn [orb] in *. destruct (Z.eqb_spec c 9) as [E9|N9].
      * subst c. exfalso. pose proof (indentLength_nonneg r) as Hi.
        rewrite (upto_cons 9 r (indentLength r) Hi) in Hw. rewrite columnWidth_tab in Hw.
        pose proof (columnWidth_nonneg (ts col) (upto r (indentLength r))) as Hnn.
        pose proof (columnWidth_nonneg col (9 :: upto r (indentLength r))) as Hn2.
        assert (col < 4) by (rewrite columnWidth_tab in Hn2; lia).
        rewrite (ts_small col) in Hw, Hnn by lia. lia.
      * destruct (Z.to_nat (3 - col)) as [|k]; [reflexivity|]. cbn [stripSp].
        destruct (Z.eqb_spec c 32); [contradiction|reflexivity].
Qed.

Lemma indent_small_strip p : li p = 0 -> col p = 0 -> tabRem p = computeTabRem (line p) 0 0 ->
  indent p < 4 -> bytesAfterIndent p = stripSp 3 (line p).
Proof.
  intros Hli Hcol Htr Hw. unfold bytesAfterIndent, rest. rewrite Hli. change (from_ (line p) 0) with (line p).
  unfold indent in Hw. rewrite Hli, Hcol, Htr in Hw. destruct (line p) as [|c r] eqn:El.
  - reflexivity.
  - rewrite sl_len_cons in Hw. pose proof (sl_len_nonneg r) as Hr. destruct (Z.leb_spec (len r + 1) 0); [lia|].
    change (at_ (c :: r) 0) with c in Hw. change (from_ (c :: r) (0 + 1)) with r in Hw.
    cbn [trimLeftSpTab]. unfold isSpTab.
    destruct (Z.eqb_spec c 32) as [E32|N32].
    + subst c. cbn [orb]. change (stripSp 3 (32 :: r)) with (stripSp (Z.to_nat (3 - 1)) r). apply wsprefix_strip; [lia|]. change (0 + 1) with 1 in Hw. lia.
    + cbn [orb]. destruct (Z.eqb_spec c 9) as [E9|N9].
      * subst c. exfalso. unfold computeTabRem in Hw. rewrite sl_len_cons in Hw. destruct (Z.ltb_spec 0 (len r + 1)); [|lia].
        change (at_ (9 :: r) 0 =? 9) with true in Hw. cbn [andb] in Hw. change (columnWidth 0 [9]) with 4 in Hw.
        pose proof (columnWidth_nonneg (0 + 4) (upto r (indentLength r))). lia.
      * cbn [stripSp]. destruct (Z.eqb_spec c 32); [contradiction|reflexivity].
Qed.

Lemma stripSp_app : forall k l, stripSp k (l ++ [10]) = stripSp k l ++ [10].
Proof.
  induction k as [|k IH]; intros l; [reflexivity|]. destruct l as [|c r]; [reflexivity|].
  cbn [app stripSp]. destruct (c =? 32); [apply IH|reflexivity].
Qed.
Lemma countWhile_snoc (f : Z -> bool) (a : bytes) x : f x = false -> countWhile f (a ++ [x]) = countWhile f a.
Proof.
  intros Hx. induction a as [|c r IH]; cbn [app countWhile]; [rewrite Hx; reflexivity|]. destruct (f c); [rewrite IH; reflexivity|reflexivity].
Qed.

(* a code line does not close the block when, after up to three leading spaces, it has fewer than n backticks *)
Definition noFenceLine (n : Z) (l : bytes) : Prop := countWhile (fun c => c =? 96) (stripSp 3 l) < n.

Lemma fenceClose_content p l n : li p = 0 -> col p = 0 -> tabRem p = computeTabRem (line p) 0 0 -> line p = l ++ [10] ->
  noFenceLine n l -> fenceClose (indent p) (bytesAfterIndent p) 96 n = false.
Proof.
  intros Hli Hcol Htr Hln Hnf. unfold fenceClose. change codeBlockIndentLimit with 4.
  destruct (Z.ltb_spec (indent p) 4) as [Hw|_]; [|reflexivity].
  rewrite (indent_small_strip p Hli Hcol Htr Hw), Hln, stripSp_app.
  pose proof (parseCodeFence_shape (stripSp 3 l ++ [10])) as Hs.
  destruct (parseCodeFence (stripSp 3 l ++ [10])) as [[[fc fnn] is] ie].
  destruct Hs as [-> | Hs]; [reflexivity|].
  destruct (Z.eqb_spec fc 96) as [->|_]; [|rewrite andb_false_r; reflexivity].
  rewrite (countWhile_snoc _ _ 10 eq_refl) in Hs. unfold noFenceLine in Hnf.
  destruct (Z.leb_spec n fnn); [lia|]. apply andb_false_r.
Qed.

Lemma fenceClose_fence p n r : (3 <= n)%nat -> atLine p 96 r -> 96 :: r = fence n ++ [10] ->
  fenceClose (indent p) (bytesAfterIndent p) 96 (Z.of_nat n) = true.
Proof.
  intros Hn Hal Hline. unfold fenceClose. rewrite (al_indent p 96 r Hal eq_refl), (al_bai p 96 r Hal eq_refl).
  change (0 <? codeBlockIndentLimit) with true. cbv iota. rewrite Hline, (parseCodeFence_fence n Hn).
  change (spanValid (-1, -1)) with false. change (96 =? 96) with true.
  destruct (Z.ltb_spec 0 (Z.of_nat n)); [|lia]. destruct (Z.leb_spec (Z.of_nat n) (Z.of_nat n)); [|lia]. reflexivity.
Qed.

(* ---------------------------------------------------------------------------------------------- *)
(* 6. the line loop over the code lines and the closing fence                                     *)
(* ---------------------------------------------------------------------------------------------- *)
Definition codeBody (ls : list bytes) : bytes := concat (map (fun l => l ++ [10]) ls).
Fixpoint textsOf (off : Z) (ls : list bytes) : list inline :=
  match ls with
  | [] => []
  | l :: r => mkI TextKind off (off + len (l ++ [10])) :: textsOf (off + len (l ++ [10])) r
  end.
Definition nextLine (n : nat) (ls : list bytes) : bytes := match ls with l :: _ => l ++ [10] | [] => fence n ++ [10] end.

Lemma hasByteSuffixEOL_lf : forall l, hasByteSuffixEOL (l ++ [10]) = true.
Proof.
  induction l as [|c r IH]; [reflexivity|]. cbn [app]. destruct (r ++ [10]) as [|d t] eqn:E.
  - destruct r; discriminate E.
  - cbn [hasByteSuffixEOL]. cbn [hasByteSuffixEOL] in IH. exact IH.
Qed.
Lemma noEolB_fence n : noEolB (fence n).
Proof. unfold noEolB, fence. apply Forall_forall. intros x Hx. apply repeat_spec in Hx. subst x. lia. Qed.

Lemma codeBody_cons l ls : codeBody (l :: ls) = (l ++ [10]) ++ codeBody ls.
Proof. reflexivity. Qed.

Lemma nextLine_lineEnd n ls pre : Forall noEolB ls ->
  lineEnd (pre ++ codeBody ls ++ fence n ++ [10]) (len pre) = len pre + len (nextLine n ls).
Proof.
  intros H. destruct ls as [|l ls'].
  - cbn [codeBody map concat app nextLine]. rewrite (lineEnd_lf pre (fence n) [] (noEolB_fence n)). lensimp. lia.
  - inversion H as [|? ? Hl _]; subst. rewrite codeBody_cons. cbn [nextLine].
    replace (pre ++ ((l ++ [10]) ++ codeBody ls') ++ fence n ++ [10]) with (pre ++ l ++ 10 :: (codeBody ls' ++ fence n ++ [10]))
      by (rewrite <- !app_assoc; reflexivity).
    rewrite (lineEnd_lf pre l _ Hl). lensimp. lia.
Qed.

Lemma lineLoop_code n : (3 <= n)%nat -> forall ls pre texts st f bo bl B,
  B = pre ++ codeBody ls ++ fence n ++ [10] ->
  Forall noEolB ls -> Forall (noFenceLine (Z.of_nat n)) ls -> (length ls < f)%nat ->
  lineLoop f st [fencedOpen 0 (Z.of_nat n) texts] (len pre)
           {| buf := B; bi := len pre + len (nextLine n ls); boff := bo; bline := bl; pending := [] |} =
  NBBlock {| rb_line := bl; rb_start := bo; rb_end := bo + unpadded B; rb_src := fillNulls B;
             rb_blk := fencedClosed 0 (len B) (Z.of_nat n) (texts ++ textsOf (len pre) ls) |}
          {| buf := []; bi := 0; boff := bo + unpadded B; bline := bl + lineCount B; pending := [] |}.
Proof.
  intros Hn. induction ls as [|l ls' IH]; intros pre texts st f bo bl B HB Heol Hnf Hf.
  - (* the closing fence *)
    destruct f as [|f]; [cbn [length] in Hf; lia|]. cbn [codeBody map concat app nextLine textsOf] in *.
    assert (HlenB : len B = len pre + len (fence n ++ [10])) by (rewrite HB; lensimp; lia).
    rewrite sl_lineLoop_S. cbn [buf bi boff bline pending]. rewrite <- HlenB. rewrite sl_upto_all.
    destruct n as [|n']; [lia|].
    assert (Hfr : from_ B (len pre) = 96 :: (fence n' ++ [10])) by (rewrite HB; rewrite sl_from_app_len; reflexivity).
    assert (Hline : 96 :: (fence n' ++ [10]) = fence (S n') ++ [10]) by reflexivity.
    rewrite (processLine_code_close st B 0 (Z.of_nat (S n')) texts (len pre) (96 :: (fence n' ++ [10])) Hfr ltac:(discriminate)).
    2:{ apply (fenceClose_fence _ (S n') (fence n' ++ [10]) Hn); [split; reflexivity|exact Hline]. }
    change (negb (0 =? 0)) with false. cbv iota.
    rewrite Hline, <- HlenB.
    unfold makeRoot, fencedClosed, isOpen. cbn [bend buf bi boff bline pending].
    pose proof (sl_len_nonneg B). destruct (Z.ltb_spec (len B) 0); [lia|].
    rewrite sl_upto_all, sl_from_all, Z.sub_diag. rewrite app_nil_r. reflexivity.
  - (* a code line *)
    destruct f as [|f]; [cbn [length] in Hf; lia|]. cbn [length] in Hf.
    apply Forall_cons_iff in Heol. destruct Heol as [Hl Heol']. apply Forall_cons_iff in Hnf. destruct Hnf as [Hnl Hnf'].
    rewrite codeBody_cons in HB. cbn [nextLine].
    set (pre' := pre ++ l ++ [10]).
    assert (HB' : B = pre' ++ codeBody ls' ++ fence n ++ [10]) by (subst pre'; rewrite HB; rewrite <- !app_assoc; reflexivity).
    assert (Hlp : len pre + len (l ++ [10]) = len pre') by (subst pre'; lensimp; lia).
    rewrite sl_lineLoop_S. cbn [buf bi boff bline pending]. rewrite Hlp.
    assert (Hup : upto B (len pre') = pre') by (rewrite HB'; apply sl_upto_app_len).
    rewrite Hup.
    assert (Hfr : from_ pre' (len pre) = l ++ [10]) by (subst pre'; apply sl_from_app_len).
    rewrite (processLine_code_line st pre' 0 (Z.of_nat n) texts (len pre) (l ++ [10]) Hfr).
    2:{ destruct l; discriminate. }
    2:{ apply hasByteSuffixEOL_lf. }
    2:{ apply (fenceClose_content _ l); try reflexivity. exact Hnl. }
    change (negb (0 =? 0)) with false. cbv iota.
    change (makeRoot [fencedOpen 0 (Z.of_nat n) (texts ++ [mkI TextKind (len pre) (len pre + len (l ++ [10]))])]
                     {| buf := B; bi := len pre'; boff := bo; bline := bl; pending := [] |}) with (@None (rootB * bpst)).
    cbv iota. rewrite HB' at 2. rewrite (nextLine_lineEnd n ls' pre' Heol').
    rewrite (IH pre' (texts ++ [mkI TextKind (len pre) (len pre + len (l ++ [10]))]) stDescending f bo bl B HB' Heol' Hnf' ltac:(lia)).
    cbn [textsOf]. rewrite Hlp. rewrite <- app_assoc. reflexivity.
Qed.

(* ---------------------------------------------------------------------------------------------- *)
(* 7. the block layer on a fenced code document                                                   *)
(* ---------------------------------------------------------------------------------------------- *)
Definition codeDoc (n : nat) (ls : list bytes) : bytes := fence n ++ [10] ++ codeBody ls ++ fence n ++ [10].

Lemma noNul_fence n : noNul (fence n).
Proof. unfold noNul, fence. apply Forall_forall. intros x Hx. apply repeat_spec in Hx. subst x. lia. Qed.
Lemma noNul_codeBody ls : Forall noNul ls -> noNul (codeBody ls).
Proof.
  induction 1 as [|l r Hl Hr IH]; [constructor|]. rewrite codeBody_cons. apply noNul_app; [|exact IH].
  apply noNul_app; [exact Hl|constructor; [lia|constructor]].
Qed.
Lemma noNul_codeDoc n ls : Forall noNul ls -> noNul (codeDoc n ls).
Proof.
  intros H. unfold codeDoc. apply noNul_app; [apply noNul_fence|]. apply noNul_app; [constructor; [lia|constructor]|].
  apply noNul_app; [apply noNul_codeBody; exact H|]. apply noNul_app; [apply noNul_fence|constructor; [lia|constructor]].
Qed.

Lemma length_codeBody ls : (length ls <= length (codeBody ls))%nat.
Proof. induction ls as [|l r IH]; [cbn; lia|]. rewrite codeBody_cons. rewrite !app_length. cbn [length]. lia. Qed.

Theorem parseBlocks_code n ls : (3 <= n)%nat ->
  Forall noEolB ls -> Forall noNul ls -> Forall (noFenceLine (Z.of_nat n)) ls ->
  let B := codeDoc n ls in
  parseBlocks B = ([oneRoot B (fencedClosed 0 (len B) (Z.of_nat n) (textsOf (len (fence n ++ [10])) ls))], 0).
Proof.
  intros Hn Heol Hnul Hnf B.
  assert (HnulB : noNul B) by (apply noNul_codeDoc; exact Hnul).
  assert (HB : B = (fence n ++ [10]) ++ codeBody ls ++ fence n ++ [10]) by (unfold B, codeDoc; rewrite <- !app_assoc; reflexivity).
  destruct n as [|n']; [lia|].
  assert (HB0 : B = 96 :: (fence n' ++ [10]) ++ codeBody ls ++ fence (S n') ++ [10]) by (rewrite HB; reflexivity).
  unfold parseBlocks. rewrite (pad_noNul B HnulB).
  assert (Hlen1 : len (fence (S n') ++ [10]) = Z.of_nat (S n') + 1) by (lensimp; rewrite len_fence; lia).
  assert (HlenB : len B = len (fence (S n') ++ [10]) + len (codeBody ls ++ fence (S n') ++ [10])) by (rewrite HB; lensimp; lia).
  pose proof (sl_len_nonneg (codeBody ls ++ fence (S n') ++ [10])) as Hr0.
  assert (Hfuel : exists f, length B = S (S f) /\ (length ls <= f)%nat).
  { rewrite HB0. cbn [length]. rewrite !app_length. cbn [length]. pose proof (length_codeBody ls) as Hc.
    exists (length (fence n') + 1 + (length (codeBody ls) + (length (fence (S n')) + 1)) - 1)%nat.
    split; lia. }
  destruct Hfuel as (f & Hf & Hfl). rewrite Hf.
  rewrite sl_allBlocks_S. cbn [buf]. rewrite Hf. rewrite sl_nextBlock_start.
  change (3 + S (S f))%nat with (S (S (S (S (S f))))). rewrite sl_skipLoop_S. cbv zeta. cbn [buf bi boff bline pending].
  assert (Hle : lineEnd B 0 = len (fence (S n') ++ [10])).
  { change 0 with (len (@nil Z)) at 1. replace B with ([] ++ fence (S n') ++ 10 :: (codeBody ls ++ fence (S n') ++ [10])).
    - rewrite (lineEnd_lf [] (fence (S n')) _ (noEolB_fence (S n'))). lensimp. lia.
    - rewrite HB. rewrite <- !app_assoc. reflexivity. }
  rewrite Hle. destruct (Z.ltb_spec 0 (len (fence (S n') ++ [10]))); [|lia]. cbn [negb].
  assert (Hup : upto B (len (fence (S n') ++ [10])) = fence (S n') ++ [10]) by (rewrite HB; apply sl_upto_app_len).
  rewrite Hup. change (isBlankLine (fence (S n') ++ [10])) with false. cbv iota.
  rewrite sl_lineLoop_S. cbn [buf bi boff bline pending]. rewrite Hup.
  rewrite (processLine_fence_open (fence (S n') ++ [10]) 0 (S n') (fence n' ++ [10]) Hn eq_refl eq_refl).
  change (negb (0 =? 0)) with false. cbv iota.
  change (makeRoot [fencedOpen 0 (Z.of_nat (S n')) []] {| buf := B; bi := len (fence (S n') ++ [10]); boff := 0; bline := 1; pending := [] |})
    with (@None (rootB * bpst)). cbv iota.
  rewrite HB at 2. rewrite (nextLine_lineEnd (S n') ls (fence (S n') ++ [10]) Heol).
  rewrite (lineLoop_code (S n') Hn ls (fence (S n') ++ [10]) [] stLineConsumed (S (S (S f))) 0 1 B HB Heol Hnf ltac:(lia)).
  rewrite sl_allBlocks_S. cbn [buf length Nat.add map app]. rewrite nextBlock_eof.
  rewrite (unpadded_noNul B HnulB), (fillNulls_noNul B HnulB). unfold oneRoot. rewrite Z.add_0_l. reflexivity.
Qed.

Print Assumptions parseBlocks_code.

(* ---------------------------------------------------------------------------------------------- *)
(* 8. inline pass (nothing to do) and renderer                                                    *)
(* ---------------------------------------------------------------------------------------------- *)
Lemma textsOf_kind : forall ls off, Forall (fun i => ikind i = TextKind) (textsOf off ls).
Proof. induction ls as [|l r IH]; intros off; [constructor|]. cbn [textsOf]. constructor; [reflexivity|apply IH]. Qed.
Lemma noUnparsed_texts l : Forall (fun i => ikind i = TextKind) l -> existsb (fun i => ikind i =? UnparsedKind) l = false.
Proof. induction 1 as [|i r Hi Hr IH]; [reflexivity|]. cbn [existsb]. rewrite Hi, IH. reflexivity. Qed.

Lemma render_texts (c0 : cfg) : forall ls pre rest,
  flat_map (fun i => renderI (isize i) c0 [] (pre ++ codeBody ls ++ rest) i) (textsOf (len pre) ls) = escapeHTML (codeBody ls).
Proof.
  induction ls as [|l r IH]; intros pre rest; [reflexivity|].
  cbn [textsOf flat_map]. rewrite codeBody_cons.
  assert (Hsrc : pre ++ ((l ++ [10]) ++ codeBody r) ++ rest = pre ++ (l ++ [10]) ++ (codeBody r ++ rest)) by (rewrite <- !app_assoc; reflexivity).
  rewrite Hsrc. rewrite escapeHTML_app. f_equal.
  - cbn [mkI isize fold_right renderI ikind]. change ((TextKind =? TextKind) || (TextKind =? UnparsedKind)) with true. cbv iota.
    unfold spanOf. cbn [istart iend mkI]. rewrite sl_sub_app. reflexivity.
  - replace (pre ++ (l ++ [10]) ++ codeBody r ++ rest) with ((pre ++ l ++ [10]) ++ codeBody r ++ rest) by (rewrite <- !app_assoc; reflexivity).
    rewrite <- sl_len_app. apply IH.
Qed.

Theorem C06_code_verbatim_cfg (c0 : cfg) n ls : filterOn c0 = false -> (3 <= n)%nat ->
  Forall noEolB ls -> Forall noNul ls -> Forall (noFenceLine (Z.of_nat n)) ls ->
  renderDoc c0 (codeDoc n ls) =
  [60;112;114;101;62;60;99;111;100;101;62] ++ escapeHTML (codeBody ls) ++ [60;47;99;111;100;101;62;60;47;112;114;101;62].
Proof.
  intros Hcfg Hn Heol Hnul Hnf. set (B := codeDoc n ls).
  pose proof (parseBlocks_code n ls Hn Heol Hnul Hnf) as Hpb. cbv zeta in Hpb. fold B in Hpb.
  set (texts := textsOf (len (fence n ++ [10])) ls) in *.
  set (b := fencedClosed 0 (len B) (Z.of_nat n) texts) in *.
  assert (HT : Forall (fun i => ikind i = TextKind) texts) by apply textsOf_kind.
  unfold renderDoc, parseFull. rewrite Hpb.
  cbn [fold_left map oneRoot rb_blk rb_src rb_line rb_start rb_end].
  change (bheight b) with 1%nat. change (extractB 1 b []) with (@nil bytes).
  assert (Hrw : rewriteB 1 B [] b = b).
  { cbn [rewriteB]. unfold hasUnparsed. change (bik b) with texts. rewrite (noUnparsed_texts texts HT). rewrite andb_false_r. reflexivity. }
  rewrite Hrw. change (bheight b) with 1%nat. change (extractDefs 1 B b []) with (@nil (bytes * linkDef)).
  cbn [joinBlocks renderB]. change (bkind b) with FencedCodeBlockKind. change (bkids b) with (@nil block). change (bik b) with texts.
  change (FencedCodeBlockKind =? ParagraphKind) with false. change (FencedCodeBlockKind =? ThematicBreakKind) with false.
  change (isHeading FencedCodeBlockKind) with false. change (isCode FencedCodeBlockKind) with true.
  change (FencedCodeBlockKind =? FencedCodeBlockKind) with true. cbv iota.
  assert (Hinfo : match texts with i0 :: _ => if ikind i0 =? InfoStringKind then Some i0 else None | [] => None end = None).
  { destruct HT as [|i r Hi _]; [reflexivity|]. rewrite Hi. reflexivity. }
  rewrite Hinfo.
  assert (Hk : flat_map (fun i => renderI (isize i) c0 [] B i) texts = escapeHTML (codeBody ls)).
  { subst texts. unfold B, codeDoc.
    replace (fence n ++ [10] ++ codeBody ls ++ fence n ++ [10]) with ((fence n ++ [10]) ++ codeBody ls ++ (fence n ++ [10]))
      by (rewrite <- !app_assoc; reflexivity).
    apply render_texts. }
  rewrite Hk. rewrite (openTag_nf c0 _ Hcfg), (openTagAttr_nf c0 _ Hcfg), !(closeTag_nf c0 _ Hcfg). cbn [app]. rewrite <- ?app_assoc. reflexivity.
Qed.
Print Assumptions C06_code_verbatim_cfg.
Definition C06_code_verbatim_ok n ls := C06_code_verbatim_cfg c0 n ls eq_refl.

(* (B) Verbatim code, in the form asked: code lines free of LF, CR and NUL, fenced by n >= 3 backticks, such that no line,
   after removing up to three leading spaces, begins with n or more backticks.  Tabs are allowed anywhere. *)
Theorem C06_code_verbatim (n : nat) (ls : list bytes) :
  (3 <= n)%nat ->
  Forall (fun l => Forall (fun c => c <> 10 /\ c <> 13 /\ c <> 0) l) ls ->
  Forall (fun l => countWhile (fun c => c =? 96) (stripSp 3 l) < Z.of_nat n) ls ->
  renderDoc c0 (repeat 96 n ++ [10] ++ concat (map (fun l => l ++ [10]) ls) ++ repeat 96 n ++ [10]) =
  [60;112;114;101;62;60;99;111;100;101;62] ++ escapeHTML (concat (map (fun l => l ++ [10]) ls)) ++
  [60;47;99;111;100;101;62;60;47;112;114;101;62].
Proof.
  intros Hn Hb Hf.
  apply (C06_code_verbatim_ok n ls Hn).
  - eapply Forall_impl; [|exact Hb]. intros l Hl. eapply Forall_impl; [|exact Hl]. cbv beta. intros c Hc. lia.
  - eapply Forall_impl; [|exact Hb]. intros l Hl. eapply Forall_impl; [|exact Hl]. cbv beta. intros c Hc. lia.
  - exact Hf.
Qed.
Print Assumptions C06_code_verbatim.

(* the same for every configuration whose tag filter is off *)
Theorem C06_code_verbatim_any_cfg (c : cfg) (n : nat) (ls : list bytes) : filterOn c = false ->
  (3 <= n)%nat ->
  Forall (fun l => Forall (fun c => c <> 10 /\ c <> 13 /\ c <> 0) l) ls ->
  Forall (fun l => countWhile (fun c => c =? 96) (stripSp 3 l) < Z.of_nat n) ls ->
  renderDoc c (repeat 96 n ++ [10] ++ concat (map (fun l => l ++ [10]) ls) ++ repeat 96 n ++ [10]) =
  [60;112;114;101;62;60;99;111;100;101;62] ++ escapeHTML (concat (map (fun l => l ++ [10]) ls)) ++
  [60;47;99;111;100;101;62;60;47;112;114;101;62].
Proof.
  intros Hc Hn Hb Hf.
  apply (C06_code_verbatim_cfg c n ls Hc Hn).
  - eapply Forall_impl; [|exact Hb]. intros l Hl. eapply Forall_impl; [|exact Hl]. cbv beta. intros x Hx. lia.
  - eapply Forall_impl; [|exact Hb]. intros l Hl. eapply Forall_impl; [|exact Hl]. cbv beta. intros x Hx. lia.
  - exact Hf.
Qed.
Print Assumptions C06_code_verbatim_any_cfg.

(* the hypotheses are satisfiable: fence ```` (n = 4) around the lines  "```" , "<tab>x & y" , "" , "    ````" *)
Example code_example :
  let ls := [[96;96;96]; [9;120;32;38;32;121]; []; [32;32;32;32;96;96;96;96]] in
  Forall (fun l => Forall (fun c => c <> 10 /\ c <> 13 /\ c <> 0) l) ls /\
  Forall (fun l => countWhile (fun c => c =? 96) (stripSp 3 l) < Z.of_nat 4) ls.
Proof. cbv zeta. split; repeat constructor; try lia; cbn; lia. Qed.
