(* QInlTree2.v -- T64 (tree): the forest surgery of Inl3a.v (updNode, splitAtId, splitBeforeId, wrapLevel, wrapIn, removeId)
   commutes with the forest map qPs, and keeps the plain-side invariant SL. *)
From Coq Require Import List ZArith Lia Bool.
Import ListNotations.
Require Import Base Tables Utf8 Tree Rdr Link Collect Html Recog Inl3a Inl3b Inl3c Inl3d Driver Inl3e QCutsDef QCuts QIRdrBase QInlDefs.
Require Import GI1 GI2 IFTree IS0 QInlTree1.
Open Scope Z_scope.

Section QT2.
  Variables (sD : bytes) (sg : Z -> Z).
  Notation qP := (QInlDefs.qP sD sg).
  Notation qPs := (QInlDefs.qPs sD sg).
  Notation eE := (QInlDefs.eE sg).
  Notation qN := (QInlTree1.qN sD sg).
  Notation SLn := (QInlTree1.SLn sD).
  Notation SL := (QInlTree1.SL sD).
  Notation sgl := (QInlTree1.sgl sD).

  Lemma qPs_map_in (F F' : pn -> pn) l : (forall n, In n l -> map F' (qP n) = qP (F n)) -> map F' (qPs l) = qPs (map F l).
  Proof.
    induction l as [|n l IH]; intros H; [reflexivity|]. cbn [map]. rewrite !qPs_cons, map_app, (H n (or_introl eq_refl)), IH; [reflexivity|].
    intros x Hx. apply H. right. exact Hx.
  Qed.

  (* occurrences of an identity (IS0.occF) at the top level and below *)
  Lemma occF_top id n l : In n l -> pid n = id -> In (sig n) (occF id l).
  Proof.
    intros Hn Hp. apply in_split in Hn. destruct Hn as (a & b & ->). rewrite occF_app, occF_cons, occS_eq, Hp, Z.eqb_refl.
    apply in_or_app. right. left. reflexivity.
  Qed.
  Lemma occF_kids id n l q : In n l -> In q (occF id (pkids n)) -> In q (occF id l).
  Proof.
    intros Hn Hq. apply in_split in Hn. destruct Hn as (a & b & ->). rewrite occF_app, occF_cons, occS_eq.
    apply in_or_app. right. apply in_or_app. left. apply in_or_app. right. exact Hq.
  Qed.

  (* ---------------------------------------------------------------- updNode *)
  Lemma updNode_q id g g' : id <> 0 ->
    forall f f' l, (fsize l <= f)%nat -> (fsize (qPs l) <= f')%nat -> SL l ->
    (forall n, pid n = id -> SLn n -> In (sig n) (occF id l) -> qP (g n) = [g' (qN n)]) ->
    updNode f' id g' (qPs l) = qPs (updNode f id g l).
  Proof.
    intros Hid. induction f as [|f IH]; intros f' l Hf Hf' HS Hg; [pose proof (fsize_pos l); lia|].
    destruct f' as [|f']; [pose proof (fsize_pos (qPs l)); lia|]. cbn [updNode]. apply qPs_map_in. intros n Hn.
    pose proof (SL_in sD l n HS Hn) as Sn. rewrite fsize_sF in Hf, Hf'.
    pose proof (fsize_kids_in n l Hn). pose proof (fsize_qPs_kids sD sg n l Hn).
    destruct (Z.eqb_spec (pid n) id) as [E|E].
    - rewrite (SLn_single sD sg n Sn) by lia. cbn [map]. rewrite pid_qN. destruct (Z.eqb_spec (pid n) id); [|contradiction].
      symmetry. apply Hg; [assumption|assumption|apply occF_top; assumption].
    - rewrite qP_setKids. apply map_ext_in. intros p Hp. destruct (qP_In sD sg p n Hp) as (A & _ & B & _).
      rewrite A. destruct (Z.eqb_spec (pid n) id); [contradiction|]. rewrite B. f_equal. apply IH; [lia|lia|apply (SLn_inv sD n Sn)|].
      intros m Hm Sm Hq. apply Hg; [assumption|assumption|]. apply (occF_kids id n l _ Hn Hq).
  Qed.
  Lemma SL_updNode id g : (forall n, pid n = id -> SLn n -> SLn (g n)) -> forall f l, SL l -> SL (updNode f id g l).
  Proof.
    intros Hg. induction f as [|f IH]; intros l HS; [exact HS|]. cbn [updNode]. unfold QInlTree1.SL in *. rewrite Forall_forall in *.
    intros x Hx. apply in_map_iff in Hx. destruct Hx as (n & <- & Hn). specialize (HS n Hn).
    destruct (Z.eqb_spec (pid n) id) as [E|E]; [apply Hg; assumption|]. apply SLn_setKids; [exact HS|]. apply IH. apply (SLn_inv sD n HS).
  Qed.

  (* ---------------------------------------------------------------- the two splits *)
  Lemma splitAtId_pieces id : forall P R, (forall p, In p P -> pid p <> id) ->
    splitAtId id (P ++ R) = (P ++ fst (splitAtId id R), snd (splitAtId id R)).
  Proof.
    induction P as [|p P IH]; intros R H; [cbn [app]; destruct (splitAtId id R); reflexivity|]. cbn [app splitAtId].
    destruct (Z.eqb_spec (pid p) id) as [E|_]; [exfalso; exact (H p (or_introl eq_refl) E)|].
    rewrite IH by (intros x Hx; apply H; right; exact Hx). reflexivity.
  Qed.
  Lemma splitAtId_q id l : id <> 0 -> SL l ->
    splitAtId id (qPs l) = (qPs (fst (splitAtId id l)), qPs (snd (splitAtId id l))).
  Proof.
    intros Hid. induction l as [|n r IH]; intros HS; [reflexivity|]. apply SL_cons in HS. destruct HS as [Hn Hr].
    rewrite qPs_cons. cbn [splitAtId]. destruct (Z.eqb_spec (pid n) id) as [E|E].
    - rewrite (SLn_single sD sg n Hn) by lia. cbn [app splitAtId fst snd]. rewrite pid_qN. destruct (Z.eqb_spec (pid n) id); [|contradiction].
      rewrite qPs_one, (SLn_single sD sg n Hn) by lia. reflexivity.
    - rewrite splitAtId_pieces by (intros p Hp; destruct (qP_In sD sg p n Hp) as (A & _); lia). rewrite (IH Hr).
      destruct (splitAtId id r) as [a b]. cbn [fst snd]. rewrite qPs_cons. reflexivity.
  Qed.
  Lemma splitBeforeId_pieces oid : forall P R, (forall p, In p P -> match oid with Some i => pid p <> i | None => True end) ->
    splitBeforeId oid (P ++ R) = (P ++ fst (splitBeforeId oid R), snd (splitBeforeId oid R)).
  Proof.
    induction P as [|p P IH]; intros R H; [cbn [app]; destruct (splitBeforeId oid R); reflexivity|]. cbn [app splitBeforeId].
    pose proof (H p (or_introl eq_refl)) as Hp. destruct oid as [i|].
    - destruct (Z.eqb_spec (pid p) i) as [E|_]; [contradiction|].
      rewrite IH by (intros x Hx; apply H; right; exact Hx). reflexivity.
    - rewrite IH by (intros x Hx; exact I). reflexivity.
  Qed.
  Lemma splitBeforeId_q oid l : splitBeforeId oid (qPs l) = (qPs (fst (splitBeforeId oid l)), qPs (snd (splitBeforeId oid l))).
  Proof.
    induction l as [|n r IH]; [reflexivity|]. rewrite qPs_cons. cbn [splitBeforeId]. destruct oid as [i|].
    - destruct (Z.eqb_spec (pid n) i) as [E|E].
      + cbn [fst snd]. rewrite qPs_cons. destruct (qP n) as [|p P] eqn:Eq; [exfalso; exact (qP_ne sD sg n Eq)|].
        cbn [app splitBeforeId]. assert (Hp : pid p = pid n) by (apply (qP_In sD sg p n); rewrite Eq; left; reflexivity).
        rewrite Hp. destruct (Z.eqb_spec (pid n) i); [reflexivity|contradiction].
      + rewrite splitBeforeId_pieces by (intros p Hp; destruct (qP_In sD sg p n Hp) as (A & _); lia). rewrite IH.
        destruct (splitBeforeId (Some i) r) as [a b]. cbn [fst snd]. rewrite qPs_cons. reflexivity.
    - rewrite splitBeforeId_pieces by (intros p Hp; exact I). rewrite IH.
      destruct (splitBeforeId None r) as [a b]. cbn [fst snd]. rewrite qPs_cons. reflexivity.
  Qed.

  (* the part through the start node ends with it *)
  Lemma splitAtId_has id : forall l, hasId id l = true ->
    exists pre0 sn, fst (splitAtId id l) = pre0 ++ [sn] /\ pid sn = id /\ In sn l.
  Proof.
    induction l as [|n r IH]; intros H; [discriminate|]. cbn [splitAtId]. unfold hasId in H. cbn [existsb] in H.
    destruct (Z.eqb_spec (pid n) id) as [E|E].
    - exists [], n. cbn [fst app]. repeat split; [exact E|left; reflexivity].
    - cbn [orb] in H. destruct (IH H) as (pre0 & sn & A & B & C). destruct (splitAtId id r) as [a b]. cbn [fst] in *.
      exists (n :: pre0), sn. rewrite A. repeat split; [exact B|right; exact C].
  Qed.

  (* ---------------------------------------------------------------- wrapLevel *)
  Definition endOf (es : option Z) (pE : Z) : Z := match es with Some v => v | None => pE end.
  Lemma wrapLevel_q newId kind startId endId es es' pE pE' l :
    startId <> 0 -> splitK kind = false -> hasId startId l = true -> SL l ->
    (forall sn, In sn l -> pid sn = startId -> sg (pe sn) = eE (ps sn) (pe sn) /\ endOf es' pE' = eE (pe sn) (endOf es pE)) ->
    wrapLevel newId kind startId endId es' pE' (qPs l) = qPs (wrapLevel newId kind startId endId es pE l).
  Proof.
    intros Hid Hk Hh HS Hc. unfold wrapLevel. rewrite (splitAtId_q startId l Hid HS).
    destruct (splitAtId_has startId l Hh) as (pre0 & sn & Epre & Hsn & Hin).
    destruct (splitAtId startId l) as [pre post]. cbn [fst snd] in *. subst pre.
    rewrite splitBeforeId_q. destruct (splitBeforeId endId post) as [mid rest]. cbn [fst snd].
    pose proof (SL_in sD l sn HS Hin) as Ssn. destruct (Hc sn Hin Hsn) as [C1 C2].
    rewrite rev_app_distr. cbn [rev app]. rewrite qPs_app, qPs_one, (SLn_single sD sg sn Ssn) by lia.
    rewrite rev_app_distr. cbn [rev app]. fold (endOf es' pE'). fold (endOf es pE).
    rewrite !qPs_app, qPs_one, (SLn_single sD sg sn Ssn) by lia. rewrite qPs_cons.
    rewrite (qP_nosplit sD sg (PN newId kind (pe sn) (endOf es pE) 0 [] mid)) by exact Hk.
    cbn [QInlTree1.qN app]. rewrite pe_qN. rewrite <- C1, <- C2. reflexivity.
  Qed.
  Lemma SL_wrapLevel newId kind startId endId es pE l : splitK kind = false -> SL l -> SL (wrapLevel newId kind startId endId es pE l).
  Proof.
    intros Hk HS. unfold wrapLevel. pose proof (sAt_app startId l) as E1. destruct (splitAtId startId l) as [pre post].
    pose proof (sBefore_app endId post) as E2. destruct (splitBeforeId endId post) as [mid rest]. subst l post.
    apply SL_app in HS. destruct HS as [H1 H2]. apply SL_app in H2. destruct H2 as [H2 H3].
    apply SL_app. split; [exact H1|]. apply SL_app. split; [|exact H3]. constructor; [|constructor].
    constructor; [intros _; apply sgl_nosplit; exact Hk|exact H2].
  Qed.

  (* ---------------------------------------------------------------- wrapIn *)
  (* every occurrence of the start identity: its end is mapped like a start, and the end of the new node is mapped from there *)
  Definition WC (startId : Z) (e e' : Z) (l : list pn) : Prop :=
    forall q, In q (occF startId l) -> sg (IS0.sgE q) = eE (sgS q) (IS0.sgE q) /\ e' = eE (IS0.sgE q) e.

  Lemma wrapIn_q_some newId kind startId endId v v' : startId <> 0 -> splitK kind = false ->
    forall f f' pE pE' l, (fsize l <= f)%nat -> (fsize (qPs l) <= f')%nat -> SL l -> WC startId v v' l ->
    wrapIn f' newId kind startId endId (Some v') pE' (qPs l) = qPs (wrapIn f newId kind startId endId (Some v) pE l).
  Proof.
    intros Hid Hk. induction f as [|f IH]; intros f' pE pE' l Hf Hf' HS HW; [pose proof (fsize_pos l); lia|].
    destruct f' as [|f']; [pose proof (fsize_pos (qPs l)); lia|]. cbn [wrapIn]. rewrite hasId_q.
    destruct (hasId startId l) eqn:Hh.
    - apply wrapLevel_q; try assumption. intros sn Hin Hp. cbn [endOf]. specialize (HW (sig sn) (occF_top startId sn l Hin Hp)).
      unfold sig, IS0.sgE, sgS in HW. cbn [fst snd] in HW. exact HW.
    - apply qPs_map_in. intros n Hn. pose proof (SL_in sD l n HS Hn) as Sn. rewrite fsize_sF in Hf, Hf'.
      pose proof (fsize_kids_in n l Hn). pose proof (fsize_qPs_kids sD sg n l Hn).
      rewrite qP_setKids. apply map_ext_in. intros p Hp. destruct (qP_In sD sg p n Hp) as (_ & _ & B & _).
      rewrite B. f_equal. apply IH; [lia|lia|apply (SLn_inv sD n Sn)|]. intros q Hq. apply HW. apply (occF_kids startId n l q Hn Hq).
  Qed.
  (* the start node is at the level of l itself (link / image: endStart = None, the new node ends with its parent) *)
  Lemma wrapIn_q_top newId kind startId endId es es' pE pE' f f' l :
    startId <> 0 -> splitK kind = false -> hasId startId l = true -> SL l -> (0 < f)%nat -> (0 < f')%nat ->
    (forall sn, In sn l -> pid sn = startId -> sg (pe sn) = eE (ps sn) (pe sn) /\ endOf es' pE' = eE (pe sn) (endOf es pE)) ->
    wrapIn f' newId kind startId endId es' pE' (qPs l) = qPs (wrapIn f newId kind startId endId es pE l).
  Proof.
    intros Hid Hk Hh HS Hf Hf' Hc. destruct f as [|f]; [lia|]. destruct f' as [|f']; [lia|]. cbn [wrapIn]. rewrite hasId_q, Hh.
    apply wrapLevel_q; assumption.
  Qed.
  (* the general case (endStart = None below the root level: the new node ends with the parent of the start node) *)
  Inductive InF : pn -> list pn -> Prop :=
  | InF_here n l : In n l -> InF n l
  | InF_kids n m l : In m l -> InF n (pkids m) -> InF n l.
  (* every parent of a node carrying startId is not cut, and its end is mapped from the end of that node like from its own start *)
  Definition PC (startId : Z) (l : list pn) : Prop :=
    forall p sn, InF p l -> In sn (pkids p) -> pid sn = startId ->
      sgl p /\ sg (pe sn) = eE (ps sn) (pe sn) /\ eE (ps p) (pe p) = eE (pe sn) (pe p).
  Lemma wrapIn_q_none newId kind startId endId : startId <> 0 -> splitK kind = false ->
    forall f f' pE pE' l, (fsize l <= f)%nat -> (fsize (qPs l) <= f')%nat -> SL l -> PC startId l ->
    (forall sn, In sn l -> pid sn = startId -> sg (pe sn) = eE (ps sn) (pe sn) /\ pE' = eE (pe sn) pE) ->
    wrapIn f' newId kind startId endId None pE' (qPs l) = qPs (wrapIn f newId kind startId endId None pE l).
  Proof.
    intros Hid Hk. induction f as [|f IH]; intros f' pE pE' l Hf Hf' HS HP HT; [pose proof (fsize_pos l); lia|].
    destruct f' as [|f']; [pose proof (fsize_pos (qPs l)); lia|]. cbn [wrapIn]. rewrite hasId_q.
    destruct (hasId startId l) eqn:Hh.
    - apply wrapLevel_q; try assumption.
    - apply qPs_map_in. intros n Hn. pose proof (SL_in sD l n HS Hn) as Sn. rewrite fsize_sF in Hf, Hf'.
      pose proof (fsize_kids_in n l Hn). pose proof (fsize_qPs_kids sD sg n l Hn).
      rewrite qP_setKids. apply map_ext_in. intros p Hp. destruct (qP_In sD sg p n Hp) as (_ & _ & B & _).
      rewrite B. f_equal. apply IH; [lia|lia|apply (SLn_inv sD n Sn)| |].
      + intros q sn Hq Hs Hi. apply HP; [apply (InF_kids q n l Hn Hq)|exact Hs|exact Hi].
      + intros sn Hs Hi. destruct (HP n sn (InF_here n l Hn) Hs Hi) as (P1 & P2 & P3). split; [exact P2|].
        rewrite (qP_single sD sg n P1) in Hp. destruct Hp as [<-|[]]. rewrite pe_qN. exact P3.
  Qed.
  Lemma SL_wrapIn newId kind startId endId es : splitK kind = false -> forall f pE l, SL l -> SL (wrapIn f newId kind startId endId es pE l).
  Proof.
    intros Hk. induction f as [|f IH]; intros pE l HS; [exact HS|]. cbn [wrapIn]. destruct (hasId startId l); [apply SL_wrapLevel; assumption|].
    unfold QInlTree1.SL in *. rewrite Forall_forall in *. intros x Hx. apply in_map_iff in Hx. destruct Hx as (n & <- & Hn). specialize (HS n Hn).
    apply SLn_setKids; [exact HS|]. apply IH. apply (SLn_inv sD n HS).
  Qed.

  (* ---------------------------------------------------------------- removeId *)
  Lemma filter_pieces (P : list pn) (b : pn -> bool) v : (forall p, In p P -> b p = v) -> filter b P = if v then P else [].
  Proof.
    induction P as [|p P IH]; intros H; [destruct v; reflexivity|]. cbn [filter]. rewrite (H p (or_introl eq_refl)).
    rewrite IH by (intros x Hx; apply H; right; exact Hx). destruct v; reflexivity.
  Qed.
  Lemma filter_q id l : filter (fun n => negb (pid n =? id)) (qPs l) = qPs (filter (fun n => negb (pid n =? id)) l).
  Proof.
    induction l as [|n r IH]; [reflexivity|]. rewrite qPs_cons, filter_app, IH. cbn [filter].
    rewrite (filter_pieces (qP n) _ (negb (pid n =? id))) by (intros p Hp; destruct (qP_In sD sg p n Hp) as (A & _); rewrite A; reflexivity).
    destruct (negb (pid n =? id)); [rewrite qPs_cons; reflexivity|reflexivity].
  Qed.
  Lemma removeId_q id : forall f f' l, (fsize l <= f)%nat -> (fsize (qPs l) <= f')%nat ->
    removeId f' id (qPs l) = qPs (removeId f id l).
  Proof.
    induction f as [|f IH]; intros f' l Hf Hf'; [pose proof (fsize_pos l); lia|].
    destruct f' as [|f']; [pose proof (fsize_pos (qPs l)); lia|]. cbn [removeId]. rewrite hasId_q.
    destruct (hasId id l); [apply filter_q|]. apply qPs_map_in. intros n Hn. rewrite fsize_sF in Hf, Hf'.
    pose proof (fsize_kids_in n l Hn). pose proof (fsize_qPs_kids sD sg n l Hn).
    rewrite qP_setKids. apply map_ext_in. intros p Hp. destruct (qP_In sD sg p n Hp) as (_ & _ & B & _).
    rewrite B. f_equal. apply IH; lia.
  Qed.
  Lemma SL_removeId id : forall f l, SL l -> SL (removeId f id l).
  Proof.
    induction f as [|f IH]; intros l HS; [exact HS|]. cbn [removeId]. destruct (hasId id l).
    - unfold QInlTree1.SL in *. rewrite Forall_forall in *. intros x Hx. apply filter_In in Hx. apply HS, Hx.
    - unfold QInlTree1.SL in *. rewrite Forall_forall in *. intros x Hx. apply in_map_iff in Hx. destruct Hx as (n & <- & Hn). specialize (HS n Hn).
      apply SLn_setKids; [exact HS|]. apply IH. apply (SLn_inv sD n HS).
  Qed.
End QT2.
