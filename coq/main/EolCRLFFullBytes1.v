From Coq Require Import List ZArith Lia Bool.
Import ListNotations.
Require Import Base Tables Utf8 Tree Rdr Link Collect Html Recog Inl3a Inl3b Inl3c Inl3d Inl3e.
Require Import ShapesBase LARpce EolCRInlA.
Require Import EolCRLFDefs EolCRLFSimBytes EolCRLFSimStream EolGenCrlfRdrStep EolGenCrlfRdrColl EolGenCrlfRdrLink EolCRLFFullNode EolCRLFFullBytes.
Open Scope Z_scope.

(* C14 (ii), CRLF clause, inline layer.  Part 2: parseHardLineBreakSpace. *)

Lemma phiP_cons c r m : 0 <= m -> phiP (c :: r) (m + 1) = (if c =? 10 then 2 else 1) + phiP r m.
Proof.
  intros Hm. replace (m + 1) with (1 + m) by lia. rewrite (phiP_add (c :: r) 1 m) by lia.
  change (from_ (c :: r) 1) with r. f_equal.
  pose proof (P_succ (c :: r) 0) as H. change (0 + 1) with 1 in H. rewrite phiP_0 in H. change (at_ (c :: r) 0) with c in H.
  rewrite H. destruct (c =? 10); reflexivity.
Qed.
Lemma len_cons {A} (c : A) r : len (c :: r) = len r + 1.
Proof. unfold len. cbn [length]. lia. Qed.

Lemma hlb_rest_crlf : forall l i j, ~ In 13 l ->
  snd (hlb_rest (crlf l) j) = snd (hlb_rest l i) /\
  fst (hlb_rest (crlf l) j) = j + phiP l (fst (hlb_rest l i) - i) /\
  0 <= fst (hlb_rest l i) - i <= len l.
Proof.
  induction l as [|c r IH]; intros i j H13.
  - cbn [crlf flat_map hlb_rest fst snd]. replace (i - i) with 0 by lia. rewrite phiP_0. unfold len. cbn [length]. repeat split; lia.
  - assert (Hr : ~ In 13 r) by (intros G; apply H13; right; exact G).
    assert (Hc : c <> 13) by (intros ->; apply H13; left; reflexivity).
    rewrite len_cons. destruct (Z.eqb_spec c 10) as [->|N10].
    + rewrite crlf_c10. cbn [hlb_rest]. change (13 =? 32) with false. change (13 =? 10) with false. change (13 =? 13) with true.
      change (10 =? 32) with false. change (10 =? 10) with true. cbn [orb].
      destruct (IH (i + 1) (j + 1 + 1) Hr) as (A & B & C). rewrite A, B. split; [reflexivity|].
      replace (fst (hlb_rest r (i + 1)) - i) with (fst (hlb_rest r (i + 1)) - (i + 1) + 1) by lia.
      rewrite phiP_cons by lia. change (10 =? 10) with true. split; lia.
    + rewrite (crlf_cN c r N10). cbn [hlb_rest]. destruct ((c =? 32) || (c =? 10) || (c =? 13)) eqn:E.
      * destruct (IH (i + 1) (j + 1) Hr) as (A & B & C). rewrite A, B. split; [reflexivity|].
        replace (fst (hlb_rest r (i + 1)) - i) with (fst (hlb_rest r (i + 1)) - (i + 1) + 1) by lia.
        rewrite phiP_cons by lia. destruct (Z.eqb_spec c 10); [contradiction|]. split; lia.
      * cbn [fst snd]. replace (i - i) with 0 by lia. rewrite phiP_0. pose proof (len_nonneg r). repeat split; lia.
Qed.

Theorem phlbs_crlf t : ~ In 13 t ->
  snd (parseHardLineBreakSpace (crlf t)) = snd (parseHardLineBreakSpace t) /\
  fst (parseHardLineBreakSpace (crlf t)) = phiP t (fst (parseHardLineBreakSpace t)) /\
  0 <= fst (parseHardLineBreakSpace t) <= len t.
Proof.
  intros H13. destruct t as [|c r].
  - change (crlf []) with (@nil Z). change (parseHardLineBreakSpace []) with (0, false). cbn [fst snd]. rewrite phiP_0. unfold len. cbn [length]. repeat split; lia.
  - assert (Hr : ~ In 13 r) by (intros G; apply H13; right; exact G).
    assert (Hc : c <> 13) by (intros ->; apply H13; left; reflexivity).
    pose proof (len_nonneg r) as Lr. rewrite len_cons.
    destruct (Z.eq_dec c 32) as [->|N32].
    2:{ rewrite (phlb_not32 c r N32). destruct (Z.eqb_spec c 10) as [->|N10].
        - rewrite crlf_c10, phlb_not32 by discriminate. cbn [fst snd]. rewrite phiP_0. repeat split; lia.
        - rewrite (crlf_cN c r N10), phlb_not32 by exact N32. cbn [fst snd]. rewrite phiP_0. repeat split; lia. }
    rewrite (crlf_cN 32 r) by discriminate.
    assert (P1 : phiP (32 :: r) 1 = 1) by (change 1 with (0 + 1) at 1; rewrite phiP_cons by lia; rewrite phiP_0; reflexivity).
    destruct r as [|c2 r2].
    { cbn [crlf flat_map parseHardLineBreakSpace fst snd]. rewrite P1. unfold len. cbn [length]. repeat split; lia. }
    assert (Hr2 : ~ In 13 r2) by (intros G; apply Hr; right; exact G).
    assert (Hc2 : c2 <> 13) by (intros ->; apply Hr; left; reflexivity).
    rewrite len_cons in *. pose proof (len_nonneg r2) as Lr2. rewrite phlb_32.
    destruct (Z.eqb_spec c2 32) as [->|M32].
    + rewrite (crlf_cN 32 r2) by discriminate. rewrite phlb_32. change (32 =? 32) with true. cbv iota.
      destruct (hlb_rest_crlf r2 2 2 Hr2) as (A & B & C). rewrite A, B. split; [reflexivity|].
      replace (fst (hlb_rest r2 2)) with (fst (hlb_rest r2 2) - 2 + 1 + 1) at 2 by lia.
      rewrite phiP_cons by lia. rewrite phiP_cons by lia. change (32 =? 10) with false. split; lia.
    + cbn [fst snd]. rewrite P1. destruct (Z.eqb_spec c2 10) as [->|N10].
      * rewrite crlf_c10, phlb_32. change (13 =? 32) with false. cbn [fst snd]. repeat split; lia.
      * rewrite (crlf_cN c2 r2 N10), phlb_32. destruct (Z.eqb_spec c2 32); [contradiction|]. cbn [fst snd]. repeat split; lia.
Qed.
Print Assumptions phlbs_crlf.

(* ---------------------------------------------------------------- parseCharacterEscape: no line ending inside "&...;" *)
Theorem pce_noLF t : 0 <= parseCharacterEscape t ->
  1 <= parseCharacterEscape t <= len t /\ forall k, 0 <= k < parseCharacterEscape t -> at_ t k <> 10.
Proof.
  intros H. destruct (pce_spec t H) as [A B]. split; [exact A|]. intros k Hk E. specialize (B k Hk). rewrite E in B. discriminate B.
Qed.
Print Assumptions pce_noLF.
