From Coq Require Import List ZArith Lia Bool.
Import ListNotations.
Require Import Base Tables Utf8 Tree Rdr Link Collect Html Recog Inl3a Inl3b Inl3c Inl3d Inl3e Render Safe.
Open Scope Z_scope.

(* kinds whose children the renderer never visits *)
Definition skipKind (k : Z) : bool :=
  (k =? LinkDestinationKind) || (k =? LinkTitleKind) || (k =? LinkLabelKind).
Definition localok (src : bytes) (k s e : Z) : bool :=
  (if k =? CharacterReferenceKind then inertb (sub src s e) else true) &&
  (if k =? SoftLineBreakKind then inertb (sub src s e) else true).

(* parse-time nodes: identity below the allocation counter, leaf condition, recursively except under skip kinds *)
Fixpoint gok (b : Z) (src : bytes) (n : pn) : bool :=
  match n with PN id k s e _ _ ks =>
    (id <? b) && localok src k s e && (if skipKind k then true else forallb (gok b src) ks)
  end.
Definition gokF b src (l : list pn) : bool := forallb (gok b src) l.

Lemma gok_mono src : forall n b b', b <= b' -> gok b src n = true -> gok b' src n = true.
Proof.
  fix IH 1. intros [id k s e ind r ks] b b' Hb H. cbn [gok] in *.
  apply andb_true_iff in H. destruct H as [H Hk]. apply andb_true_iff in H. destruct H as [Hid Hl].
  apply Z.ltb_lt in Hid. rewrite Hl. replace (id <? b') with true by (symmetry; apply Z.ltb_lt; lia). cbn [andb].
  destruct (skipKind k); [reflexivity|].
  induction ks as [|x l IHl]; [reflexivity|]. cbn [forallb] in *. apply andb_true_iff in Hk. destruct Hk as [Hx Hl'].
  rewrite (IH x b b' Hb Hx). apply IHl. assumption.
Qed.
Lemma gokF_mono src l b b' : b <= b' -> gokF b src l = true -> gokF b' src l = true.
Proof.
  unfold gokF. intros Hb H. rewrite forallb_forall in *. intros x Hx. eapply gok_mono; [exact Hb|]. apply H. assumption.
Qed.

(* a general principle: a map over the forest that preserves gok node-wise, applied at every level *)
Lemma gokF_app b src l1 l2 : gokF b src (l1 ++ l2) = gokF b src l1 && gokF b src l2.
Proof. apply forallb_app. Qed.

(* filter preserves *)
Lemma gokF_filter b src p l : gokF b src l = true -> gokF b src (filter p l) = true.
Proof.
  unfold gokF. intros H. rewrite forallb_forall in *. intros x Hx. apply filter_In in Hx. apply H. tauto.
Qed.

(* removeId *)
Lemma removeId_gok b src id : forall fuel l, gokF b src l = true -> gokF b src (removeId fuel id l) = true.
Proof.
  induction fuel as [|f IH]; intros l H; [assumption|]. cbn [removeId].
  destruct (hasId id l); [apply gokF_filter; assumption|].
  unfold gokF in *. rewrite forallb_forall in *. intros x Hx. apply in_map_iff in Hx. destruct Hx as (n & <- & Hn).
  specialize (H n Hn). destruct n as [i k s e ind r ks]. cbn [setKids gok pkids] in *.
  apply andb_true_iff in H. destruct H as [H Hk]. rewrite H. cbn [andb].
  destruct (skipKind k); [reflexivity|]. apply IH. exact Hk.
Qed.

(* updNode with a function that keeps identity and kind and can only shrink the span *)
Definition shrinks (g : pn -> pn) : Prop :=
  forall n, pid (g n) = pid n /\ pkind (g n) = pkind n /\ pkids (g n) = pkids n /\
            ps n <= ps (g n) /\ pe (g n) <= pe n.

Lemma sub_nil_when {A} (l : list A) a b : b <= a -> sub l a b = [].
Proof. intros H. unfold sub, upto. replace (Z.to_nat (b - a)) with O by lia. reflexivity. Qed.

Lemma firstn_add' {A} (l : list A) : forall n m, firstn (n + m) l = firstn n l ++ firstn m (skipn n l).
Proof.
  intros n. revert l. induction n as [|n IH]; intros l m; [reflexivity|].
  destruct l as [|x l]; [cbn; rewrite firstn_nil; reflexivity|]. cbn. f_equal. apply IH.
Qed.
Lemma skipn_skipn' {A} (l : list A) : forall n m, skipn n (skipn m l) = skipn (n + m) l.
Proof.
  intros n m. revert l. induction m as [|m IH]; intros l; [rewrite Nat.add_0_r; reflexivity|].
  destruct l as [|x l]; [rewrite !skipn_nil; reflexivity|]. rewrite Nat.add_succ_r. cbn. apply IH.
Qed.

Lemma firstn_skipn_sub (l : bytes) (a b a' b' : nat) : (a <= a')%nat -> (b' <= b)%nat ->
  exists pre post, firstn (b - a) (skipn a l) = pre ++ firstn (b' - a') (skipn a' l) ++ post.
Proof.
  intros Ha Hb.
  destruct (Nat.le_gt_cases b' a') as [Hle|Hgt].
  { replace (b' - a')%nat with O by lia. cbn [firstn]. exists (firstn (b - a) (skipn a l)), []. rewrite app_nil_r. reflexivity. }
  (* a <= a' < b' <= b *)
  exists (firstn (a' - a) (skipn a l)), (firstn (b - b') (skipn b' l)).
  replace (b - a)%nat with ((a' - a) + ((b' - a') + (b - b')))%nat by lia.
  rewrite firstn_add'. f_equal.
  rewrite skipn_skipn'. replace (a' - a + a)%nat with a' by lia.
  rewrite firstn_add'. f_equal. rewrite skipn_skipn'. replace (b' - a' + a')%nat with b' by lia. reflexivity.
Qed.
