(* EmphSim4.v -- layer (c)/(d) of C11, part 4: the abstraction of a forest of the inline parser to the node list of the spec,
   the joint view of forest and stack (items), identity bookkeeping, and applyEv on an explicit decomposition. *)
From Coq Require Import List ZArith Lia Bool Permutation.
Import ListNotations.
Require Import Base Tree Inl3a GI0 EmphTree EmphSpec EmphTok EmphSim2.
Require Emph.
Open Scope Z_scope.

(* ---------------------------------------------------------------------------------------------- *)
(* forests of the inline parser as node lists of the spec                                          *)
(* ---------------------------------------------------------------------------------------------- *)
Fixpoint absN (n : pn) : enode :=
  match n with PN id k s e _ _ ks =>
    if k =? TextKind then Leaf (Z.to_nat (id - 1)) s e else Emp (k =? StrongKind) s e (map absN ks) end.
Fixpoint wfn (n : pn) : bool :=
  match n with PN id k s e ind rf ks =>
    (ind =? 0) && nilb rf &&
    (if k =? TextKind then nilb ks else ((k =? StrongKind) || (k =? EmphasisKind)) && forallb wfn ks) end.

Section PnInd.
  Variable P : pn -> Prop.
  Hypothesis H : forall id k s e ind rf ks, Forall P ks -> P (PN id k s e ind rf ks).
  Fixpoint pn_ind2 (n : pn) : P n :=
    match n with PN id k s e ind rf ks =>
      H id k s e ind rf ks
        ((fix go (l : list pn) : Forall P l :=
            match l with [] => Forall_nil P | x :: r => Forall_cons x (pn_ind2 x) (go r) end) ks) end.
End PnInd.

Lemma toI_absN : forall n, wfn n = true -> toI (absN n) = toInline n.
Proof.
  apply (pn_ind2 (fun n => wfn n = true -> toI (absN n) = toInline n)).
  intros id k s e ind rf ks IH Hw. cbn [wfn] in Hw. apply andb_true_iff in Hw. destruct Hw as [Hw Hk].
  apply andb_true_iff in Hw. destruct Hw as [Hind Hrf]. apply Z.eqb_eq in Hind. apply nilb_true in Hrf. subst ind rf.
  cbn [absN toInline]. destruct (Z.eqb_spec k TextKind) as [->|Nk].
  - apply nilb_true in Hk. subst ks. reflexivity.
  - apply andb_true_iff in Hk. destruct Hk as [Hkk Hks]. cbn [toI].
    assert (Ekids : map toI (map absN ks) = map toInline ks).
    { clear Hkk. induction IH as [|x r Hx Hr IHr]; [reflexivity|]. cbn [forallb] in Hks. apply andb_true_iff in Hks. destruct Hks as [H1 H2].
      cbn [map]. rewrite (Hx H1), (IHr H2). reflexivity. }
    rewrite Ekids. apply orb_true_iff in Hkk. destruct Hkk as [E|E]; apply Z.eqb_eq in E; subst k; reflexivity.
Qed.
Lemma toI_absF l : forallb wfn l = true -> map toI (map absN l) = map toInline l.
Proof.
  induction l as [|x r IH]; [reflexivity|]. cbn [forallb]. intros H. apply andb_true_iff in H. destruct H as [H1 H2].
  cbn [map]. rewrite (toI_absN x H1), (IH H2). reflexivity.
Qed.
Lemma absN_text id s e : absN (textPN id s e) = Leaf (Z.to_nat (id - 1)) s e. Proof. reflexivity. Qed.
Lemma wfn_text id s e : wfn (textPN id s e) = true. Proof. reflexivity. Qed.

(* ---------------------------------------------------------------------------------------------- *)
(* applyEv on an explicit decomposition                                                            *)
(* ---------------------------------------------------------------------------------------------- *)
Definition noTag (tg : nat) (F : list enode) : Prop :=
  Forall (fun x => match x with Leaf t _ _ => t <> tg | Emp _ _ _ _ => True end) F.
Lemma splitTag_at tg : forall FA s e FB, noTag tg FA -> splitTag tg (FA ++ Leaf tg s e :: FB) = Some (FA, (s, e), FB).
Proof.
  induction FA as [|x FA IH]; intros s e FB H; cbn [app splitTag].
  - rewrite Nat.eqb_refl. reflexivity.
  - inversion H as [|? ? Hx Hr]; subst. rewrite (IH s e FB Hr). destruct x as [t s' e'|b s' e' ks]; [|reflexivity].
    destruct (Nat.eqb_spec t tg); [contradiction|reflexivity].
Qed.
Lemma applyEv_at FA FM FD o c so eo sc ec (strong : bool) : noTag o FA -> noTag c FM ->
  let k := if strong then 2 else 1 in
  applyEv (FA ++ Leaf o so eo :: FM ++ Leaf c sc ec :: FD) (o, c, strong) =
  FA ++ (if eo - k =? so then [] else [Leaf o so (eo - k)]) ++ [Emp strong (eo - k) (sc + k) FM]
     ++ (if sc + k =? ec then [] else [Leaf c (sc + k) ec]) ++ FD.
Proof.
  intros HA HM k. unfold applyEv. rewrite (splitTag_at o FA so eo _ HA). rewrite (splitTag_at c FM sc ec FD HM). reflexivity.
Qed.
Lemma noTag_abs tg l : (forall x, In x (ids l) -> 1 <= x /\ x <> Z.of_nat tg + 1) -> noTag tg (map absN l).
Proof.
  intros H. unfold noTag. apply Forall_forall. intros y Hy. apply in_map_iff in Hy. destruct Hy as (n & <- & Hn).
  destruct n as [id k s e ind rf ks]. cbn [absN]. destruct (k =? TextKind); [|exact I].
  assert (Hid : In id (ids l)) by (unfold ids; apply in_map_iff; exists (PN id k s e ind rf ks); split; [reflexivity|exact Hn]).
  apply H in Hid. cbv beta iota. lia.
Qed.

(* ---------------------------------------------------------------------------------------------- *)
(* identities                                                                                      *)
(* ---------------------------------------------------------------------------------------------- *)
Definition idsOK (b : Z) (l : list Z) : Prop := NoDup l /\ Forall (fun i => 1 <= i < b) l.
Lemma idsOK_opt b X x Q (drop : bool) : idsOK b (X ++ x :: Q) -> idsOK b (X ++ (if drop then [] else [x]) ++ Q).
Proof.
  intros [Hn Hf]. destruct drop; [|split; assumption]. cbn [app]. split; [eapply NoDup_remove_1; exact Hn|].
  apply Forall_app in Hf. destruct Hf as [H1 H2]. inversion H2; subst. apply Forall_app. split; assumption.
Qed.
Lemma idsOK_fresh b X Y : 1 <= b -> idsOK b (X ++ Y) -> idsOK (b + 1) (X ++ b :: Y).
Proof.
  intros Hb [Hn Hf]. split.
  - apply (Permutation_NoDup (l := b :: X ++ Y)); [apply Permutation_middle|]. constructor; [|exact Hn].
    intros Hi. rewrite Forall_forall in Hf. apply Hf in Hi. lia.
  - apply Forall_app in Hf. destruct Hf as [H1 H2]. apply Forall_app. split.
    + eapply Forall_impl; [|exact H1]. cbv beta. intros; lia.
    + constructor; [lia|]. eapply Forall_impl; [|exact H2]. cbv beta. intros; lia.
Qed.
(* the identities of the forest after one match *)
Lemma idsOK_match b X ido Y idc W (dropo dropc : bool) : 1 <= b ->
  idsOK b (X ++ ido :: Y ++ idc :: W) ->
  idsOK (b + 1) (X ++ (if dropo then [] else [ido]) ++ b :: Y ++ (if dropc then [] else [idc]) ++ W).
Proof.
  intros Hb H.
  assert (H1 : idsOK (b + 1) ((X ++ [ido]) ++ b :: Y ++ idc :: W)).
  { apply idsOK_fresh; [exact Hb|]. rewrite <- app_assoc. exact H. }
  assert (H2 : idsOK (b + 1) ((X ++ ido :: b :: Y) ++ (if dropc then [] else [idc]) ++ W)).
  { apply idsOK_opt. rewrite <- !app_assoc in *. cbn [app] in *. exact H1. }
  rewrite <- app_assoc in H2. cbn [app] in H2.
  apply (idsOK_opt (b + 1) X ido (b :: Y ++ (if dropc then [] else [idc]) ++ W) dropo). exact H2.
Qed.

(* ---------------------------------------------------------------------------------------------- *)
(* items: the stack entries together with their text nodes and the nodes between them              *)
(* ---------------------------------------------------------------------------------------------- *)
Record item := { gap : list pn; dl : Emph.delim; ns : Z }.
Definition nodeIt (it : item) : pn :=
  textPN (Z.of_nat (Emph.did (dl it)) + 1) (ns it) (ns it + Z.of_nat (Emph.dcur (dl it))).
Definition wv (its : list item) : list pn := flat_map (fun it => gap it ++ [nodeIt it]) its.
Definition itOK (it : item) : Prop := 0 <= ns it /\ (1 <= Emph.dcur (dl it))%nat.
Definition full (R : list item * list pn) : list pn := wv (fst R) ++ snd R.
Definition pushGap (G : list pn) (R : list item * list pn) : list item * list pn :=
  match fst R with
  | [] => ([], G ++ snd R)
  | it :: r => ({| gap := G ++ gap it; dl := dl it; ns := ns it |} :: r, snd R)
  end.
Definition consOpt (G : list pn) (drop : bool) (d : Emph.delim) (s : Z) (R : list item * list pn) : list item * list pn :=
  if drop then pushGap G R else ({| gap := G; dl := d; ns := s |} :: fst R, snd R).

Lemma wv_app a b : wv (a ++ b) = wv a ++ wv b. Proof. apply flat_map_app. Qed.
Lemma wv_cons it r : wv (it :: r) = gap it ++ nodeIt it :: wv r.
Proof. unfold wv. cbn [flat_map]. rewrite <- app_assoc. reflexivity. Qed.
Lemma full_pushGap G R : full (pushGap G R) = G ++ full R.
Proof.
  destruct R as [[|it r] ge]; unfold pushGap, full; cbn [fst snd].
  - reflexivity.
  - rewrite !wv_cons. cbn [gap]. unfold nodeIt. cbn [dl ns]. rewrite <- !app_assoc. reflexivity.
Qed.
Lemma dl_pushGap G R : map dl (fst (pushGap G R)) = map dl (fst R).
Proof. destruct R as [[|it r] ge]; reflexivity. Qed.
Lemma ok_pushGap G R : Forall itOK (fst R) -> Forall itOK (fst (pushGap G R)).
Proof.
  destruct R as [[|it r] ge]; unfold pushGap; cbn [fst snd]; intros H; [constructor|].
  inversion H; subst. constructor; assumption.
Qed.
Lemma full_consOpt G b d s R :
  full (consOpt G b d s R) = G ++ (if b then [] else [textPN (Z.of_nat (Emph.did d) + 1) s (s + Z.of_nat (Emph.dcur d))]) ++ full R.
Proof.
  destruct b; unfold consOpt; [apply full_pushGap|]. unfold full. cbn [fst snd]. rewrite wv_cons. cbn [gap app].
  rewrite <- app_assoc. reflexivity.
Qed.
Lemma dl_consOpt G b d s R : map dl (fst (consOpt G b d s R)) = (if b then [] else [d]) ++ map dl (fst R).
Proof. destruct b; unfold consOpt; [apply dl_pushGap|reflexivity]. Qed.
Lemma ok_consOpt G b d s R : Forall itOK (fst R) -> (b = false -> 0 <= s /\ (1 <= Emph.dcur d)%nat) -> Forall itOK (fst (consOpt G b d s R)).
Proof.
  intros H Hb. destruct b; unfold consOpt; [apply ok_pushGap; exact H|]. cbn [fst]. constructor; [|exact H]. apply Hb. reflexivity.
Qed.
Lemma full_app_l I R : full (I ++ fst R, snd R) = wv I ++ full R.
Proof. unfold full. cbn [fst snd]. rewrite wv_app, <- app_assoc. reflexivity. Qed.

(* decomposition of a list at one / two positions *)
Lemma split1_nat {A} (l : list A) i : (i < length l)%nat -> exists P x Q, l = P ++ x :: Q /\ length P = i.
Proof.
  intros Hi. exists (firstn i l). destruct (skipn i l) as [|x Q] eqn:E.
  - exfalso. assert (Hl : length (skipn i l) = O) by (rewrite E; reflexivity). rewrite skipn_length in Hl. lia.
  - exists x, Q. split; [rewrite <- E; symmetry; apply firstn_skipn|]. rewrite firstn_length. lia.
Qed.
Lemma split2_nat {A} (l : list A) i j : (i < j)%nat -> (j < length l)%nat ->
  exists P x M y Q, l = P ++ x :: M ++ y :: Q /\ length P = i /\ (length M = j - i - 1)%nat.
Proof.
  intros Hij Hj. destruct (split1_nat l i ltac:(lia)) as (P & x & R & E & HP).
  assert (HR : (j - i - 1 < length R)%nat).
  { rewrite E, app_length in Hj. cbn [length] in Hj. lia. }
  destruct (split1_nat R (j - i - 1) HR) as (M & y & Q & E2 & HM).
  exists P, x, M, y, Q. subst R. repeat split; assumption.
Qed.
