From Coq Require Import List ZArith Lia Bool.
Import ListNotations.
Require Import Base Tree Rdr Link Collect Html Recog LP Rules Starts Driver Rec16 Rec17 Rec18 RecBounds Cursor CursorX NoPanic12 NoPanic3
  L2Kind L2CC BSDef BSRdr BSTree BSOrph BSClose BSLine1 BSLine2 BSLine3 BSLine4
  BSLine7 LADef LA1 LA2 LA3 LA4 LA5 LARec.
Open Scope Z_scope.

(* ===== cursor positions after the indentation; match rules; descendOpenBlocks (mirrors BSLine4) ===== *)

Definition LSp (p : lp) : Prop := eolEnd (line p).
Lemma LSp_cstep p p' : cstep p p' -> LSp p -> LSp p'.
Proof. intros (_ & (_ & E & _) & _) H. unfold LSp. rewrite E. exact H. Qed.

Definition idl (p : lp) : Z := indentLength (rest p).
Lemma idl_bounds p : curP p -> 0 <= idl p /\ li p + idl p <= len (line p).
Proof.
  intros (A & B). unfold idl. pose proof (indentLength_nonneg (rest p)). pose proof (indentLength_le (rest p)).
  rewrite len_rest in * by lia. lia.
Qed.
Lemma bai_from p : curP p -> bytesAfterIndent p = from_ (line p) (li p + idl p).
Proof.
  intros C. destruct (idl_bounds p C) as [I1 I2]. unfold bytesAfterIndent. rewrite trimLeft_from. fold (idl p).
  unfold rest. apply from_from; destruct C; lia.
Qed.
Lemma bai_at p j : curP p -> 0 <= j -> at_ (bytesAfterIndent p) j = at_ (line p) (li p + idl p + j).
Proof.
  intros C Hj. destruct (idl_bounds p C) as [I1 I2]. rewrite bai_from by exact C. apply at_from; destruct C; lia.
Qed.
Lemma len_bai p : curP p -> len (bytesAfterIndent p) = len (line p) - li p - idl p.
Proof.
  intros C. pose proof (trim_len (rest p)) as H. unfold bytesAfterIndent, idl. rewrite len_rest in H by (destruct C; lia). lia.
Qed.
Lemma NTa_bai p a b : curP p -> 0 <= a -> NTa (bytesAfterIndent p) a b -> NTl p (li p + idl p + a) (li p + idl p + b).
Proof.
  intros C Ha H i Hi. specialize (H (i - (li p + idl p)) ltac:(lia)). rewrite bai_at in H by (try assumption; lia).
  replace (li p + idl p + (i - (li p + idl p))) with i in H by lia. exact H.
Qed.
Lemma NTl_app p a b c : NTl p a b -> NTl p b c -> NTl p a c.
Proof. intros H1 H2 i Hi. destruct (Z.lt_ge_cases i b); [apply H1|apply H2]; lia. Qed.
Lemma NTl_env p p' a b : line p' = line p -> NTl p a b -> NTl p' a b.
Proof. intros E H. unfold NTl. rewrite E. exact H. Qed.
Lemma LSp_bai p : curP p -> LSp p -> eolTail (bytesAfterIndent p).
Proof. intros C H. rewrite bai_from by exact C. destruct (idl_bounds p C). apply eolTail_from; [destruct C; lia|apply eolEnd_tail, H]. Qed.
Lemma restBlank_NTl p : curP p -> isRestBlank p = true -> NTl p (li p) (len (line p)).
Proof.
  intros C H i Hi. unfold isRestBlank in H. pose proof (blank_all _ H (i - li p)) as Hb. rewrite len_rest in Hb by (destruct C; lia).
  specialize (Hb ltac:(lia)). rewrite rest_at in Hb by (try assumption; lia). replace (li p + (i - li p)) with i in Hb by lia. exact Hb.
Qed.

Lemma indentLength_stop : forall l, indentLength l < len l -> isSpTab (at_ l (indentLength l)) = false.
Proof.
  induction l as [|c r IH]; intros Hl; [unfold len in Hl; cbn in Hl; lia|].
  cbn [indentLength] in *. destruct (isSpTab c) eqn:Ec.
  - rewrite len_cons in Hl. pose proof (indentLength_nonneg r). replace (1 + indentLength r) with (indentLength r + 1) by lia.
    rewrite at_consS by lia. apply IH. lia.
  - rewrite at_cons0. exact Ec.
Qed.
(* consuming exactly the indentation *)
Lemma consume_ind p : curP p -> Itab p ->
  let q := consumeIndent p (indent p) in li q = li p + idl p /\ line q = line p /\ rest q = bytesAfterIndent p /\ curP q /\ idl q = 0.
Proof.
  intros C Hi q. destruct (consume_all p Hi ltac:(destruct C; lia)) as (A & B & D & (E1 & E2 & _)). fold q in A, B, D, E1, E2.
  split; [exact B|]. split; [exact E1|]. split; [exact A|]. split.
  - destruct (idl_bounds p C) as [J1 J2]. unfold idl in J1, J2. destruct C as (C1 & C2). split; [rewrite E2; exact C1|]. rewrite B, E1. lia.
  - unfold idl. rewrite A. unfold bytesAfterIndent. rewrite trimLeft_from. pose proof (indentLength_le (rest p)). pose proof (indentLength_nonneg (rest p)).
    apply indentLength_from_nonws; [lia|]. apply indentLength_stop.
Qed.

(* the cursor after collecting the whole rest of the line *)
Lemma collect_to_end p kind : curP p -> Itab p -> state p <> stDescendTerminated ->
  li (collectInline p kind (len (bytesAfterIndent p))) = len (line p).
Proof.
  intros C Hi Hs. unfold collectInline. destruct (Z.eqb_spec (state p) stDescendTerminated); [contradiction|]. cbv zeta.
  set (p0 := if state p =? stOpening then withState p stOpenMatched else p).
  assert (E0 : li p0 = li p /\ line p0 = line p /\ rest p0 = rest p /\ indent p0 = indent p /\ curP p0 /\ lineStart p0 = lineStart p)
    by (unfold p0; destruct (_ =? _); repeat split; apply C).
  destruct E0 as (E1 & E2 & E3 & E4 & C0 & E5). destruct (idl_bounds p0 C0) as [I1 I2]. pose proof (len_bai p0 C0) as Lb. unfold idl in *.
  assert (Eb : bytesAfterIndent p = bytesAfterIndent p0) by (unfold bytesAfterIndent; rewrite E3; reflexivity).
  rewrite Eb, <- E2. clear Eb.
  assert (Hi0 : Itab p0) by (apply Itab_opened, Hi).
  destruct (Z.ltb_spec 0 (indent p0)) as [L|L].
  - set (pA := advance p0 (indentLength (rest p0))).
    assert (EA : li pA = li p0 + indentLength (rest p0)) by (unfold pA; apply li_advance; [exact C0|lia|lia]).
    assert (CA : curP pA /\ line pA = line p0).
    { destruct (cstep_Mc p0 pA (cstep_advance p0 _) C0) as (CA & _ & _ & EL). split; [exact CA|exact EL]. }
    destruct CA as [CA ELA].
    cbn [li updCont withRoot setLP].
    match goal with |- li (advance ?q ?n) = _ => assert (Cq : curP q) by (split; cbn [lineStart li line updCont withRoot setLP]; apply CA);
      rewrite (li_advance q n Cq); cbn [li line updCont withRoot setLP]; rewrite ?EA, ?ELA; lia end.
  - pose proof (indent_zero p0 Hi0 L) as Hz. cbn [li updCont withRoot setLP]. rewrite li_advance by (try assumption; lia). lia.
Qed.

(* ---- match rules ---- *)
Definition LW (p : lp) : Prop := 0 <= lineStart p /\ la (source p) (lineStart p + len (line p)) (root p) /\
  (bend (root p) < 0 \/ bend (root p) = lineStart p + len (line p)).
Definition LcleanR (p : lp) : Prop := la (source p) (lineStart p) (root p).

Lemma Lclean_C1 p : LcleanR p -> LC1 p.
Proof. intros H c Ec _. eapply la_getAt; eassumption. Qed.
Lemma Lclean_LI p : LcleanR p -> LLI p.
Proof. intros H x Ex. left. eapply la_getAt; eassumption. Qed.
Lemma LBP_withCont_le p d : LBP p -> (d <= cdepth p)%nat -> LBP (withCont p (Some d)).
Proof.
  intros (A & St & B & C & D) Hd. split; [exact A|split; [exact St|split; [exact B|split]]].
  - intros j x Hj Ex. apply (C j x); [|exact Ex]. change (cdepth (withCont p (Some d))) with d in Hj. lia.
  - apply ccP_withCont; [exact D|apply wf_le; assumption].
Qed.

Lemma spanValid_iff s e : spanValid (s, e) = true <-> (0 <= s /\ 0 <= e /\ s <= e).
Proof. unfold spanValid. cbn [fst snd]. rewrite !andb_true_iff, !Z.leb_le. tauto. Qed.

Lemma matchRule_cases' q : curP q -> Itab q ->
  (ntstep q (snd (matchRule q)) /\ (sstep q (snd (matchRule q)) \/ li (snd (matchRule q)) = len (line q))) \/
  (containerKind q = HTMLBlockKind /\ snd (matchRule q) = consumeLine (collectInline q RawHTMLKind (len (bytesAfterIndent q)))).
Proof.
  intros C Hi. unfold matchRule. cbv zeta.
  assert (R0 : ntstep q q /\ (sstep q q \/ li q = len (line q))) by (split; [apply ntstep_refl|left; apply sstep_refl]).
  assert (RI : forall n, ntstep q (consumeIndent q n) /\ (sstep q (consumeIndent q n) \/ li (consumeIndent q n) = len (line q)))
    by (intros n; split; [apply ntstep_consumeIndent, C|left; apply sstep_consumeIndent]).
  destruct (_ || _); [left; exact R0|].
  destruct (_ =? ListItemKind).
  { left. unfold matchListItem. destruct (isRestBlank q); [destruct (negb _); [exact R0|apply RI]|].
    destruct (_ <=? _); [apply RI|exact R0]. }
  destruct (_ =? BlockQuoteKind).
  { left. unfold matchBlockQuote. cbv zeta. destruct (_ <=? _); [exact R0|]. destruct (negb _) eqn:Eh; [exact R0|]. cbn [snd].
    apply negb_false_iff in Eh. destruct (prefix62 _ Eh) as [P1 P2].
    unfold eatQuoteMarker. cbv zeta. destruct (consume_ind q C Hi) as (A1 & A2 & A3 & A4 & A5). set (q1 := consumeIndent q (indent q)) in *.
    assert (H1 : ntstep q q1) by (apply ntstep_consumeIndent, C).
    assert (H2 : ntstep q1 (advance q1 1)).
    { apply ntstep_advance; [exact A4|]. intros i Hi'. replace i with (li q1) by lia. rewrite A1, A2.
      replace (li q + idl q) with (li q + idl q + 0) by lia. rewrite <- bai_at by (try assumption; lia). rewrite P1. reflexivity. }
    assert (H12 : ntstep q (advance q1 1)) by (eapply ntstep_trans; eassumption).
    assert (S12 : sstep q (advance q1 1)) by (eapply sstep_trans; [apply sstep_consumeIndent|apply sstep_advance]).
    destruct (0 <? _); [|split; [exact H12|left; exact S12]]. split.
    - eapply ntstep_trans; [exact C|exact H12|]. apply ntstep_consumeIndent.
      destruct (cstep_Mc q _ (proj1 H12) C) as (Cq & _). exact Cq.
    - left. eapply sstep_trans; [exact S12|apply sstep_consumeIndent]. }
  destruct (_ =? FencedCodeBlockKind).
  { left. unfold matchFenced. cbv zeta.
    destruct (if indent q <? codeBlockIndentLimit then _ else false) eqn:Ecl; cbn [snd]; [|apply RI].
    split; [|right; apply li_consumeLine, C].
    apply ntstep_consumeLine; [exact C|].
    destruct (indent q <? codeBlockIndentLimit); [|discriminate].
    destruct (parseCodeFence (bytesAfterIndent q)) as [[[fc fnn] is_] ie] eqn:Ef.
    apply andb_true_iff in Ecl. destruct Ecl as [Ecl _]. apply andb_true_iff in Ecl. destruct Ecl as [Ecl _]. apply andb_true_iff in Ecl.
    destruct Ecl as [E1 E2]. apply Z.ltb_lt in E1. apply negb_true_iff in E2.
    destruct (fence_nt _ _ _ _ _ Ef E1) as [F1 F2].
    assert (His : is_ < 0).
    { destruct (Z.lt_ge_cases is_ 0) as [L|L]; [exact L|]. exfalso. destruct (F2 L) as (G1 & G2 & G3 & _).
      assert (Hv : spanValid (is_, ie) = true) by (apply spanValid_iff; lia). congruence. }
    destruct (idl_bounds q C) as [I1 I2].
    eapply NTl_app; [apply NTl_indent, C|]. fold (idl q).
    pose proof (NTa_bai q 0 _ C ltac:(lia) (F1 His)) as Hn. rewrite len_bai in Hn by exact C.
    replace (li q + idl q + 0) with (li q + idl q) in Hn by lia. replace (li q + idl q + (len (line q) - li q - idl q)) with (len (line q)) in Hn by lia. exact Hn. }
  destruct (_ =? IndentedCodeBlockKind).
  { left. unfold matchIndented. cbv zeta. destruct (_ <? _); [destruct (negb _)|]; cbn [snd]; try apply RI; exact R0. }
  destruct (Z.eqb_spec (containerKind q) HTMLBlockKind) as [E|E]; [|left; exact R0].
  unfold matchHTML. destruct (htmlEnd _ _); [|left; exact R0]. destruct (isRestBlank _); [left; exact R0|].
  right. split; [exact E|reflexivity].
Qed.

Lemma curP_collectInline p kind n : curP p -> curP (collectInline p kind n).
Proof.
  intros C. unfold collectInline. destruct (_ =? stDescendTerminated); [exact C|]. cbv zeta.
  set (p0 := if state p =? stOpening then withState p stOpenMatched else p).
  assert (C0 : curP p0) by (unfold p0; destruct (_ =? _); exact C).
  set (p1 := if 0 <? indent p0 then _ else p0).
  assert (C1 : curP p1).
  { unfold p1. destruct (0 <? indent p0); [|exact C0].
    destruct (cstep_Mc p0 _ (cstep_advance p0 (indentLength (rest p0))) C0) as (CA & _). exact CA. }
  destruct (cstep_Mc p1 _ (cstep_advance p1 n) C1) as (CB & _). exact CB.
Qed.
Lemma line_collectInline p kind n : line (collectInline p kind n) = line p.
Proof.
  unfold collectInline. destruct (_ =? stDescendTerminated); [reflexivity|]. cbv zeta.
  set (p0 := if state p =? stOpening then withState p stOpenMatched else p).
  assert (E0 : line p0 = line p) by (unfold p0; destruct (_ =? _); reflexivity).
  set (p1 := if 0 <? indent p0 then _ else p0).
  assert (E1 : line p1 = line p).
  { unfold p1. destruct (0 <? indent p0); [|exact E0]. cbn [line updCont withRoot setLP].
    destruct (cstep_advance p0 (indentLength (rest p0))) as (_ & (_ & E & _) & _). congruence. }
  cbn [line updCont withRoot setLP]. destruct (cstep_advance p1 n) as (_ & (_ & E & _) & _). congruence.
Qed.

Lemma LOP_matchRule q : LOP q -> Itab q -> state q = stDescending ->
  LOP (snd (matchRule q)) /\ (state (snd (matchRule q)) = stDescendTerminated -> li (snd (matchRule q)) = len (line q)).
Proof.
  intros H Hi Hs. pose proof H as ((C & _) & _).
  destruct (matchRule_cases' q C Hi) as [[Hn Hx]|[Ek Eq]].
  - split; [eapply LOP_ntstep; eassumption|]. intros Et. destruct Hx as [[E|[E _]]|E]; [rewrite E, Hs in Et; discriminate|rewrite Hs in E; discriminate|exact E].
  - rewrite Eq. assert (Hsd : state q <> stDescendTerminated) by (rewrite Hs; discriminate).
    pose proof (collect_to_end q RawHTMLKind C Hi Hsd) as Hend.
    destruct (LOP_collectInline q RawHTMLKind (len (bytesAfterIndent q)) HTMLBlockKind H ltac:(rewrite <- Ek; apply ckind_self) eq_refl eq_refl ltac:(discriminate)) as [H3 _].
    set (q3 := collectInline q RawHTMLKind (len (bytesAfterIndent q))) in *.
    assert (C3 : curP q3) by (apply curP_collectInline, C). pose proof (line_collectInline q RawHTMLKind (len (bytesAfterIndent q))) as L3. fold q3 in L3.
    split; [|intros _; rewrite li_consumeLine by exact C3; rewrite L3; reflexivity].
    eapply LOP_ntstep; [|exact H3]. apply ntstep_consumeLine; [exact C3|]. intros i Hi'. rewrite Hend, L3 in Hi'. lia.
Qed.

(* ---- paragraph containers see a non-blank rest of the line ---- *)
Definition PB (p : lp) : Prop := containerKind p = ParagraphKind -> isRestBlank p = false.

Lemma matchRule_para q : containerKind q = ParagraphKind -> matchRule q = (negb (isRestBlank q), q).
Proof. intros E. unfold matchRule. cbv zeta. rewrite E. reflexivity. Qed.
Lemma matchRule_ok_false q : state q = stDescending -> fst (matchRule q) = false -> state (snd (matchRule q)) <> stDescendTerminated ->
  snd (matchRule q) = q.
Proof.
  intros Hs. unfold matchRule. cbv zeta.
  destruct (_ || _); [discriminate|].
  destruct (_ =? ListItemKind).
  { unfold matchListItem. destruct (isRestBlank q); [destruct (negb _); [reflexivity|discriminate]|]. destruct (_ <=? _); [discriminate|reflexivity]. }
  destruct (_ =? BlockQuoteKind).
  { unfold matchBlockQuote. cbv zeta. destruct (_ <=? _); [reflexivity|]. destruct (negb _); [reflexivity|discriminate]. }
  destruct (_ =? FencedCodeBlockKind).
  { unfold matchFenced. cbv zeta. destruct (if _ <? _ then _ else false); cbn [fst snd]; [|discriminate].
    intros _ N. exfalso. apply N. apply state_consumeLine_desc, Hs. }
  destruct (_ =? IndentedCodeBlockKind).
  { unfold matchIndented. cbv zeta. destruct (_ <? _); [destruct (negb _); [reflexivity|discriminate]|discriminate]. }
  destruct (_ =? HTMLBlockKind).
  { unfold matchHTML. destruct (htmlEnd _ _); [|discriminate]. destruct (isRestBlank _); [reflexivity|]. cbn [fst snd].
    intros _ N. exfalso. apply N. apply state_consumeLine_desc.
    destruct (sstep_collectInline q RawHTMLKind (len (bytesAfterIndent q))) as [E|[E _]]; [congruence|rewrite Hs in E; discriminate]. }
  reflexivity.
Qed.
Lemma containerKind_matchRule q : LOP q -> Itab q -> containerKind (snd (matchRule q)) = containerKind q.
Proof.
  intros H Hi. pose proof H as ((C & _) & _). destruct (matchRule_cases' q C Hi) as [[Hn _]|[Ek Eq]].
  - apply containerKind_same. apply Hn.
  - rewrite Eq. rewrite (containerKind_same _ _ (proj1 (cstep_consumeLine _))).
    destruct (LOP_collectInline q RawHTMLKind (len (bytesAfterIndent q)) HTMLBlockKind H ltac:(rewrite <- Ek; apply ckind_self) eq_refl eq_refl ltac:(discriminate)) as [H3 K3].
    rewrite (containerKind_of _ HTMLBlockKind); [symmetry; exact Ek|apply H3|exact K3].
Qed.

Lemma env_refl p : env p p. Proof. repeat split. Qed.
Lemma env_trans a b c : env a b -> env b c -> env a c.
Proof. intros (A1 & A2 & A3) (B1 & B2 & B3). repeat split; congruence. Qed.
Lemma env_cstep p p' : cstep p p' -> env p p'. Proof. intros H. apply H. Qed.
Lemma env_collectInline p kind n : env p (collectInline p kind n).
Proof.
  unfold collectInline. destruct (_ =? stDescendTerminated); [repeat split|]. cbv zeta.
  set (p0 := if state p =? stOpening then withState p stOpenMatched else p).
  assert (E0 : env p p0) by (unfold p0; destruct (_ =? _); repeat split).
  set (p1 := if 0 <? indent p0 then _ else p0).
  assert (E1 : env p p1).
  { unfold p1. destruct (0 <? indent p0); [|exact E0]. eapply env_trans; [exact E0|].
    apply (env_trans _ (advance p0 (indentLength (rest p0)))); [apply env_cstep, cstep_advance|repeat split]. }
  eapply env_trans; [exact E1|]. apply (env_trans _ (advance p1 n)); [apply env_cstep, cstep_advance|repeat split].
Qed.
Lemma matchRule_env q : curP q -> Itab q -> env q (snd (matchRule q)).
Proof.
  intros C Hi. destruct (matchRule_cases' q C Hi) as [[Hn _]|[_ Eq]]; [apply env_cstep, Hn|].
  rewrite Eq. eapply env_trans; [apply env_collectInline|apply env_cstep, cstep_consumeLine].
Qed.

Lemma matchRule_notterm q : curP q -> Itab q -> state q = stDescending -> state (snd (matchRule q)) <> stDescendTerminated ->
  cstep q (snd (matchRule q)).
Proof.
  intros C Hi Hs N. destruct (matchRule_cases' q C Hi) as [[Hn _]|[_ Eq]]; [apply Hn|]. exfalso. apply N. rewrite Eq.
  apply state_consumeLine_desc. destruct (sstep_collectInline q RawHTMLKind (len (bytesAfterIndent q))) as [E|[E _]]; [congruence|rewrite Hs in E; discriminate].
Qed.

(* ---- descendOpenBlocks ---- *)
Lemma matchRule_state q : state q = stDescending ->
  state (snd (matchRule q)) = stDescending \/ state (snd (matchRule q)) = stDescendTerminated.
Proof.
  intros Hs. assert (HI : forall n, state (consumeIndent q n) = stDescending).
  { intros n. destruct (sstep_consumeIndent q n) as [E|[E _]]; [congruence|rewrite Hs in E; discriminate]. }
  unfold matchRule. cbv zeta.
  destruct (_ || _); [left; exact Hs|].
  destruct (_ =? ListItemKind).
  { left. unfold matchListItem. destruct (isRestBlank q); [destruct (negb _); [exact Hs|apply HI]|]. destruct (_ <=? _); [apply HI|exact Hs]. }
  destruct (_ =? BlockQuoteKind).
  { left. unfold matchBlockQuote. cbv zeta. destruct (_ <=? _); [exact Hs|]. destruct (negb _); [exact Hs|]. cbn [snd]. unfold eatQuoteMarker. cbv zeta.
    assert (S1 : sstep q (advance (consumeIndent q (indent q)) 1)) by (eapply sstep_trans; [apply sstep_consumeIndent|apply sstep_advance]).
    assert (S2 : sstep q (if 0 <? indent (advance (consumeIndent q (indent q)) 1) then consumeIndent (advance (consumeIndent q (indent q)) 1) 1 else advance (consumeIndent q (indent q)) 1)).
    { destruct (0 <? _); [eapply sstep_trans; [exact S1|apply sstep_consumeIndent]|exact S1]. }
    destruct S2 as [E|[E _]]; [congruence|rewrite Hs in E; discriminate]. }
  destruct (_ =? FencedCodeBlockKind).
  { unfold matchFenced. cbv zeta. destruct (if _ <? _ then _ else false); cbn [snd]; [right; apply state_consumeLine_desc, Hs|left; apply HI]. }
  destruct (_ =? IndentedCodeBlockKind).
  { left. unfold matchIndented. cbv zeta. destruct (_ <? _); [destruct (negb _)|]; cbn [snd]; try apply HI; exact Hs. }
  destruct (_ =? HTMLBlockKind).
  { unfold matchHTML. destruct (htmlEnd _ _); [|left; exact Hs]. destruct (isRestBlank _); [left; exact Hs|]. cbn [snd]. right.
    apply state_consumeLine_desc. destruct (sstep_collectInline q RawHTMLKind (len (bytesAfterIndent q))) as [E|[E _]]; [congruence|rewrite Hs in E; discriminate]. }
  left. exact Hs.
Qed.

Definition kind1 (r : block) : option Z := option_map bkind (getAt 1 r).
Lemma kind1_updAt f d r : (1 <= d)%nat -> (forall x, bkind (f x) = bkind x) -> kind1 (updAt d f r) = kind1 r.
Proof.
  intros Hd Hf. destruct d as [|d]; [lia|]. unfold kind1. cbn [updAt getAt]. destruct (lastBlock r) as [c|] eqn:El; [|rewrite El; reflexivity].
  rewrite lastBlock_set_last by (intros E; unfold lastBlock in El; rewrite E in El; discriminate). cbn [option_map].
  rewrite bkind_updAt; [reflexivity|intros _; apply Hf].
Qed.
Lemma kind1_matchRule q : (1 <= cdepth q)%nat -> curP q -> Itab q -> kind1 (root (snd (matchRule q))) = kind1 (root q).
Proof.
  intros Hd C Hi. destruct (matchRule_cases' q C Hi) as [[Hn _]|[_ Eq]].
  - destruct Hn as (((E & _) & _) & _). rewrite E. reflexivity.
  - rewrite Eq. destruct (cstep_consumeLine (collectInline q RawHTMLKind (len (bytesAfterIndent q)))) as ((E & _) & _). rewrite E.
    unfold collectInline. destruct (_ =? stDescendTerminated); [reflexivity|]. cbv zeta.
    set (p0 := if state q =? stOpening then withState q stOpenMatched else q).
    assert (E0 : root p0 = root q /\ cdepth p0 = cdepth q) by (unfold p0; destruct (_ =? _); split; reflexivity). destruct E0 as [E0 E0'].
    set (p1 := if 0 <? indent p0 then _ else p0).
    assert (E1 : kind1 (root p1) = kind1 (root q) /\ cdepth p1 = cdepth q).
    { unfold p1. destruct (0 <? indent p0); [|rewrite E0; split; [reflexivity|exact E0']].
      destruct (cstep_advance p0 (indentLength (rest p0))) as ((R1 & R2) & _).
      cbn [root updCont withRoot setLP]. split; [|unfold cdepth; cbn [container updCont withRoot setLP]; rewrite R2; exact E0'].
      rewrite kind1_updAt; [rewrite R1, E0; reflexivity|unfold cdepth; rewrite R2; fold (cdepth p0); lia|intros x; apply bkind_set_bik]. }
    destruct E1 as [E1 E1']. destruct (cstep_advance p1 (len (bytesAfterIndent q))) as ((R1 & R2) & _).
    cbn [root updCont withRoot setLP]. rewrite kind1_updAt; [rewrite R1; exact E1|unfold cdepth; rewrite R2; fold (cdepth p1); lia|intros x; apply bkind_set_bik].
Qed.

Definition noIter (fuel : nat) (p : lp) (d : nat) : Prop :=
  fuel = O \/ match getAt (S d) (root p) with None => True | Some c => isOpen c = false \/ hasMatch (bkind c) = false end.
(* after a terminated descent: the block at depth 1, if it is open, has a match rule *)
Definition DT (r : block) : Prop := exists c1, getAt 1 r = Some c1 /\ (bend c1 < 0 -> hasMatch (bkind c1) = true).

Lemma Ldescend_ok : forall fuel p d, LBP p -> LcleanR p -> N3 p -> PB p -> cdepth p = d ->
  ((1 <= d)%nat -> exists k1, kind1 (root p) = Some k1 /\ hasMatch k1 = true) ->
  let r := snd (descend_loop fuel p d) in
  (state r = stDescendTerminated /\ LW r /\ DT (root r)) \/
  (LBP r /\ LcleanR r /\ PB r /\ (state r = stDescending \/ (state r = state p /\ noIter fuel p d))).
Proof.
  induction fuel as [|f IH]; intros p d HB Hcl H3 Hpb Ed HM1; cbv zeta.
  { right. cbn [descend_loop snd]. split; [apply LBP_withCont_le; [exact HB|lia]|split; [exact Hcl|split]].
    - unfold PB, containerKind, contBlock, isRestBlank, rest. change (cdepth (withCont p (Some d))) with d. rewrite <- Ed. exact Hpb.
    - right. split; [reflexivity|left; reflexivity]. }
  assert (Hexit : noIter (S f) p d -> LBP (withCont p (Some d)) /\ LcleanR (withCont p (Some d)) /\ PB (withCont p (Some d)) /\
            (state (withCont p (Some d)) = stDescending \/ (state (withCont p (Some d)) = state p /\ noIter (S f) p d))).
  { intros Hni. split; [apply LBP_withCont_le; [exact HB|lia]|split; [exact Hcl|split]].
    - unfold PB, containerKind, contBlock, isRestBlank, rest. change (cdepth (withCont p (Some d))) with d. rewrite <- Ed. exact Hpb.
    - right. split; [reflexivity|exact Hni]. }
  cbn [descend_loop]. cbv zeta.
  destruct (getAt (S d) (root p)) as [c|] eqn:Ec; [|right; cbn [snd]; apply Hexit; unfold noIter; rewrite Ec; right; exact I].
  destruct (isOpen c) eqn:Eo; cbn [negb]; [|right; cbn [snd]; apply Hexit; unfold noIter; rewrite Ec; right; left; exact Eo].
  destruct (hasMatch (bkind c)) eqn:Ehm; cbn [negb]; [|right; cbn [snd]; apply Hexit; unfold noIter; rewrite Ec; right; right; exact Ehm]. clear Hexit.
  unfold isOpen in Eo. apply Z.ltb_lt in Eo.
  set (q := withState (withCont p (Some (S d))) stDescending).
  assert (HBq : LBP q).
  { destruct HB as (A & St & B & C & D). split; [exact A|split; [exact St|split; [exact B|split]]].
    - intros j x Hj Ex. change (cdepth q) with (S d) in Hj. destruct (Nat.eq_dec j (S d)) as [->|N].
      + change (root q) with (root p) in Ex. rewrite Ec in Ex. inversion Ex; subst x. exact Eo.
      + apply (C j x); [lia|exact Ex].
    - apply (ccP_withCont p (S d) D). eauto. }
  assert (Hq : LOP q) by (split; [exact HBq|apply Lclean_C1; exact Hcl]).
  assert (Hiq : Itab q) by (destruct H3 as [[I0 I1] _]; split; [exact I0|exact I1]).
  assert (H3q : N3 q) by (destruct H3 as [HI HP]; split; [exact Hiq|exact HP]).
  (* the kind at depth 1 along the path *)
  assert (HM1q : exists k1, kind1 (root q) = Some k1 /\ hasMatch k1 = true).
  { destruct d as [|d']; [|apply HM1; lia]. exists (bkind c). change (root q) with (root p). unfold kind1. rewrite Ec. split; [reflexivity|exact Ehm]. }
  destruct (LOP_matchRule q Hq Hiq eq_refl) as [H2 Hterm]. pose proof (cdepth_matchRule q) as Ecd.
  pose proof (N3_matchRule q H3q) as H32. pose proof (containerKind_matchRule q Hq Hiq) as Kq.
  pose proof (matchRule_ok_false q eq_refl) as Hof. pose proof (matchRule_state q eq_refl) as Hms.
  pose proof (kind1_matchRule q ltac:(change (cdepth q) with (S d); lia) ltac:(apply HBq) Hiq) as Hk1.
  assert (Kc : containerKind q = bkind c) by (unfold containerKind, contBlock; change (cdepth q) with (S d); change (root q) with (root p); rewrite Ec; reflexivity).
  assert (Hpara : bkind c = ParagraphKind -> matchRule q = (negb (isRestBlank q), q)) by (intros E; apply matchRule_para; rewrite Kc; exact E).
  pose proof (matchRule_env q ltac:(apply HBq) Hiq) as Henv.
  pose proof (matchRule_notterm q ltac:(apply HBq) Hiq eq_refl) as Hnt.
  destruct (matchRule q) as [ok p2]. cbn [fst snd] in *. change (cdepth q) with (S d) in Ecd.
  destruct Henv as (V1 & V2 & V3).
  destruct (Z.eqb_spec (state p2) stDescendTerminated) as [Et|Et].
  { left. cbn [snd]. split; [exact Et|]. destruct H2 as [HB2 _]. pose proof HB2 as (A2 & St2 & B2 & C2 & D2).
    specialize (Hterm Et). pose proof (Mc_le p2 A2 St2) as HM2.
    assert (Hcl' : forall x c', getAt d (root p2) = Some x -> lastBlock x = Some c' -> bend c' < 0 -> la (source p2) (lineStart p2 + li p2) c').
    { intros x c' Ex El _. eapply la_getAt; [exact B2|]. rewrite getAt_S_last, Ex. exact El. }
    assert (Hbe : bnd0 (source p2) (lineStart p2 + li p2)).
    { right; left. pose proof (ST_len p2 A2 St2) as Hl. rewrite Hterm, <- V2. exact Hl. }
    assert (HB' : LB (Mc p2) (withCont (closeLastChildAt p2 d (lineStart p2 + li p2)) (Some d))).
    { apply LB_closeAt; [exact HB2|unfold Mc in *; destruct A2; lia|lia|exact Hbe|lia|lia|exact Hcl']. }
    split.
    - destruct HB' as (A' & _ & B' & C' & _). split; [apply A'|]. split.
      + cbn [lineStart line source root withCont closeLastChildAt withRoot setLP] in *.
        replace (lineStart p2 + len (line p2)) with (Mc p2); [exact B'|]. unfold Mc. rewrite Hterm, V2. reflexivity.
      + left. apply (C' O); [lia|reflexivity].
    - cbn [root withCont closeLastChildAt withRoot setLP]. fold (closeF p2 (lineStart p2 + li p2)).
      set (e := lineStart p2 + li p2) in *.
      destruct d as [|d'].
      + cbn [updAt].
        destruct (wf_le p2 1%nat D2 ltac:(lia)) as (c0 & Ec0). cbn [getAt] in Ec0. destruct (lastBlock (root p2)) as [c0'|] eqn:El0; [|discriminate].
        assert (Hex : exists z, getAt 1 (closeF p2 e (root p2)) = Some z).
        { unfold closeF. rewrite El0. cbn [getAt]. rewrite lastBlock_of_list by (apply closeBlock_nonnil).
          pose proof (closeBlock_nonnil (source p2) e (bheight (root p2)) c0') as Hnn.
          destruct (rev (closeBlock (bheight (root p2)) (source p2) c0' e)) as [|z t] eqn:Er; [|eauto].
          exfalso. apply Hnn. rewrite <- (rev_involutive (closeBlock _ _ _ _)), Er. reflexivity. }
        destruct Hex as (z & Ez). exists z. split; [exact Ez|]. intros Oz. exfalso.
        pose proof (closeAt_last_closed (Mc p2) p2 0 e z HB2 ltac:(unfold Mc, e in *; destruct A2; lia) ltac:(lia) Hbe ltac:(lia) Hcl' Ez). lia.
      + destruct HM1q as (k1 & Hk & Hm). rewrite <- Hk1 in Hk.
        pose proof (kind1_updAt (closeF p2 e) (S d') (root p2) ltac:(lia) (closeF_kind p2 e)) as Hku. rewrite Hk in Hku. unfold kind1 in Hku.
        destruct (getAt 1 (updAt (S d') (closeF p2 e) (root p2))) as [c1|] eqn:Eg; [|discriminate]. exists c1. split; [exact Eg|]. intros _.
        cbn in Hku. inversion Hku as [Hkk]. rewrite Hkk. exact Hm. }
  destruct (negb ok) eqn:Eok.
  { right. apply negb_true_iff in Eok. specialize (Hof Eok Et). subst p2. cbn [snd].
    split; [apply LBP_withCont_le; [apply H2|change (cdepth q) with (S d); lia]|]. split; [exact Hcl|]. split; [|left; reflexivity].
    unfold PB, containerKind, contBlock, isRestBlank, rest. change (cdepth (withCont q (Some d))) with d. rewrite <- Ed. exact Hpb. }
  apply negb_false_iff in Eok.
  specialize (Hnt Et). pose proof Hnt as ((R1 & R2) & _ & _).
  assert (Hcl2 : LcleanR p2) by (unfold LcleanR; rewrite V1, V3, R1; exact Hcl).
  assert (St2 : state p2 = stDescending) by (destruct Hms as [E|E]; [exact E|contradiction]).
  destruct (IH p2 (S d) ltac:(apply H2) Hcl2 H32) as [IL|(I1 & I2 & I3 & I4)]; [| |intros _; rewrite Hk1; exact HM1q|left; exact IL|].
  - intros Ek. rewrite Kq, Kc in Ek. specialize (Hpara Ek). injection Hpara as E1 E2. rewrite E1 in Eok. rewrite E2. apply negb_true_iff in Eok. exact Eok.
  - exact Ecd.
  - right. split; [exact I1|split; [exact I2|split; [exact I3|left]]]. destruct I4 as [E|[E _]]; [exact E|rewrite E; exact St2].
Qed.
