From Coq Require Import List ZArith Lia Bool.
Import ListNotations.
Require Import Base Tables Utf8 Tree Recog Driver Inl3e Render.
Open Scope Z_scope.

(* The tree-shaped properties (C01, C02, C03, C05, C13) stated formally, at full strength, about the model.
   Each statement is "a boolean checker accepts every root block of parseFull input, for every input"; the checkers
   are executable, so the very same statement is also evaluated on the implementation's own trees by the driver
   (mode chk).  What is proved of each statement is in PropsProved.v; nothing is proved in this file. *)

Definition range (n : Z) : list Z := map Z.of_nat (seq 0 (Z.to_nat n)).

(* ---------------------------------------------------------------- UTF-8 validity of the input *)
Fixpoint valid8 (fuel : nat) (s : bytes) : bool :=
  match fuel with
  | O => true
  | S f => match s with
           | [] => true
           | _ => let '(r, w) := decodeRune s in
                  if (r =? RuneError) && (w =? 1) then false else valid8 f (from_ s w)
           end
  end.
Definition validUtf8 (s : bytes) : bool := valid8 (S (length s)) s.

(* ---------------------------------------------------------------- C02: spans *)
Definition span_valid (n s e : Z) : bool := (0 <=? s) && (s <=? e) && (e <=? n).
Definition boundary_ok (src : bytes) (p : Z) : bool := if p <? len src then negb (isCont (at_ src p)) else true.

Fixpoint spansI (v : bool) (src : bytes) (ps pe : Z) (i : inline) : bool :=
  match i with Inl _ s e _ _ ks =>
    span_valid (len src) s e && (ps <=? s) && (e <=? pe) &&
    (if v then boundary_ok src s && boundary_ok src e else true) &&
    (fix go (prev : Z) (l : list inline) : bool :=
       match l with
       | [] => true
       | k :: r => (prev <=? istart k) && spansI v src s e k && go (iend k) r
       end) s ks
  end.

Fixpoint spansB (v : bool) (src : bytes) (ps pe : Z) (b : block) : bool :=
  match b with Blk _ s e bk ik _ _ _ _ _ =>
    span_valid (len src) s e && (ps <=? s) && (e <=? pe) &&
    (if v then boundary_ok src s && boundary_ok src e else true) &&
    match bk with
    | [] => (fix go (prev : Z) (l : list inline) : bool :=
               match l with
               | [] => true
               | k :: r => (prev <=? istart k) && spansI v src s e k && go (iend k) r
               end) s ik
    | _ => (fix go (prev : Z) (l : list block) : bool :=
              match l with
              | [] => true
              | k :: r => (prev <=? bstart k) && spansB v src s e k && go (bend k) r
              end) s bk
    end
  end.

Definition chk_C02_root (v : bool) (r : rootB) : bool :=
  let src := rb_src r in let b := rb_blk r in
  (bend b =? len src) && forallb isSpTab (upto src (bstart b)) && spansB v src 0 (len src) b.

Definition C02_statement : Prop :=
  forall input, forallb (chk_C02_root (validUtf8 input)) (fst (parseFull input)) = true.

(* ---------------------------------------------------------------- C03: coverage by leaves *)
Fixpoint leavesI (i : inline) : list (Z * Z) :=
  match i with Inl _ s e _ _ ks => match ks with [] => [(s, e)] | _ => flat_map leavesI ks end end.
Fixpoint leavesB (b : block) : list (Z * Z) :=
  match b with Blk k s e bk ik _ _ _ _ _ =>
    match bk, ik with
    | [], [] => if k =? ListMarkerKind then [(s, e)] else []
    | [], _ => flat_map leavesI ik
    | _, _ => flat_map leavesB bk
    end
  end.
Definition cover (ls : list (Z * Z)) (p : Z) : Z :=
  fold_left (fun a se => if (fst se <=? p) && (p <? snd se) then a + 1 else a) ls 0.
Definition textual (c : Z) : bool := (128 <=? c) || isASCIIDigit c || isASCIILetter c.
Definition chk_C03_root (r : rootB) : bool :=
  let src := rb_src r in
  let ls := leavesB (rb_blk r) in
  forallb (fun p => let c := cover ls p in (c <=? 1) && (if textual (at_ src p) then c =? 1 else true)) (range (len src)).
Definition C03_statement : Prop := forall input, forallb chk_C03_root (fst (parseFull input)) = true.

(* ---------------------------------------------------------------- C05: node grammar *)
Definition phrasing (k : Z) : bool :=
  (k =? TextKind) || (k =? SoftLineBreakKind) || (k =? HardLineBreakKind) || (k =? IndentKind) || (k =? CharacterReferenceKind) ||
  (k =? EmphasisKind) || (k =? StrongKind) || (k =? LinkKind) || (k =? ImageKind) || (k =? CodeSpanKind) || (k =? AutolinkKind) ||
  (k =? HTMLTagKind) || (k =? RawHTMLKind).
Definition isLinkPart (k : Z) : bool := (k =? LinkLabelKind) || (k =? LinkTitleKind) || (k =? LinkDestinationKind).

(* the tail of a link/image: nothing | [label] | [destination] | [destination][title]; returns the number of tail nodes, or -1 *)
Definition linkTail (ks : list inline) : Z :=
  match rev ks with
  | l :: rest =>
    if ikind l =? LinkLabelKind then 1
    else if ikind l =? LinkTitleKind then
      match rest with d :: _ => if ikind d =? LinkDestinationKind then 2 else -1 | [] => -1 end
    else if ikind l =? LinkDestinationKind then 1
    else 0
  | [] => 0
  end.

Fixpoint gramI (inLink : bool) (i : inline) : bool :=
  match i with Inl k s e _ rf ks =>
    negb (k =? UnparsedKind) &&
    if (k =? LinkKind) || (k =? ImageKind) then
      negb ((k =? LinkKind) && inLink) &&
      (let t := linkTail ks in
       (0 <=? t) &&
       forallb (fun c => negb (isLinkPart (ikind c)) && phrasing (ikind c)) (upto ks (len ks - t)) &&
       (* reference links have neither destination nor title *)
       (if 0 <? len (linkReference i) then forallb (fun c => negb ((ikind c =? LinkDestinationKind) || (ikind c =? LinkTitleKind))) (lastTwo ks) else true)) &&
      forallb (gramI (inLink || (k =? LinkKind))) ks
    else if (k =? EmphasisKind) || (k =? StrongKind) then
      forallb (fun c => phrasing (ikind c)) ks && forallb (gramI inLink) ks
    else if k =? CodeSpanKind then
      forallb (fun c => (ikind c =? TextKind) || (ikind c =? SoftLineBreakKind) || (ikind c =? IndentKind)) ks
    else if isLinkPart k || (k =? InfoStringKind) || (k =? AutolinkKind) || (k =? HTMLTagKind) then
      forallb (fun c => ((ikind c =? TextKind) || (ikind c =? CharacterReferenceKind) || (ikind c =? SoftLineBreakKind) || (ikind c =? IndentKind) ||
                         (ikind c =? RawHTMLKind)) && (len (ikids c) =? 0)) ks
    else len ks =? 0
  end.

Definition headingLevel (b : block) : Z := if isHeading (bkind b) then bn b else 0.
Definition isOrderedB (b : block) : bool := isOrdered b.

Fixpoint gramB (src : bytes) (parentKind : Z) (b : block) : bool :=
  match b with Blk k s e bk ik _ n ch loose _ =>
    let lvl := headingLevel b in
    (* accessor agreement *)
    (if k =? ATXHeadingKind then (1 <=? lvl) && (lvl <=? 6)
     else if k =? SetextHeadingKind then (1 <=? lvl) && (lvl <=? 2) else lvl =? 0) &&
    (let num := listItemNumber src b in
     if (k =? ListItemKind) && isOrdered b then (0 <=? num) && (num <=? 999999999) else num =? -1) &&
    (if k =? ListKind then
       negb (len bk =? 0) && (len ik =? 0) &&
       forallb (fun c => (bkind c =? ListItemKind) && Bool.eqb (isOrdered c) (isOrdered b) && Bool.eqb (isTightList c) (isTightList b)) bk
     else if k =? ListItemKind then
       (parentKind =? ListKind) && (len ik =? 0) &&
       match bk with
       | m :: rest => (bkind m =? ListMarkerKind) && forallb (fun c => negb ((bkind c =? ListMarkerKind) || (bkind c =? ListItemKind))) rest
       | [] => false
       end
     else if k =? ListMarkerKind then (parentKind =? ListItemKind) && (len bk =? 0) && (len ik =? 0)
     else if k =? BlockQuoteKind then
       (len ik =? 0) && forallb (fun c => negb ((bkind c =? ListMarkerKind) || (bkind c =? ListItemKind))) bk
     else if k =? LinkReferenceDefinitionKind then
       (len bk =? 0) &&
       match ik with
       | [l; d] => (ikind l =? LinkLabelKind) && (ikind d =? LinkDestinationKind)
       | [l; d; t] => (ikind l =? LinkLabelKind) && (ikind d =? LinkDestinationKind) && (ikind t =? LinkTitleKind)
       | _ => false
       end
     else if (k =? ParagraphKind) || isHeading k then
       (len bk =? 0) && forallb (fun c => phrasing (ikind c)) ik
     else if isCode k then
       (len bk =? 0) &&
       match ik with
       | [] => true
       | c0 :: rest =>
         ((if ikind c0 =? InfoStringKind then k =? FencedCodeBlockKind
           else (ikind c0 =? TextKind) || (ikind c0 =? IndentKind) || (ikind c0 =? SoftLineBreakKind))) &&
         forallb (fun c => (ikind c =? TextKind) || (ikind c =? IndentKind) || (ikind c =? SoftLineBreakKind)) rest
       end
     else if k =? HTMLBlockKind then
       (len bk =? 0) && forallb (fun c => (ikind c =? RawHTMLKind) || (ikind c =? SoftLineBreakKind) || (ikind c =? IndentKind) || (ikind c =? TextKind)) ik
     else if k =? ThematicBreakKind then (len bk =? 0) && (len ik =? 0)
     else false) &&
    forallb (gramB src k) bk && forallb (gramI false) ik
  end.

Definition chk_C05_root (r : rootB) : bool :=
  let k := bkind (rb_blk r) in
  negb ((k =? ListItemKind) || (k =? ListMarkerKind)) && gramB (rb_src r) 0 (rb_blk r).
Definition C05_statement : Prop := forall input, forallb chk_C05_root (fst (parseFull input)) = true.

(* ---------------------------------------------------------------- C13: span shapes *)
Definition allOf (t : bytes) (c : Z) : bool := forallb (fun x => x =? c) t.
Fixpoint dropWhileEOL (l : bytes) : bytes := match l with c :: r => if (c =? 10) || (c =? 13) then dropWhileEOL r else l | [] => [] end.
Definition trimEOLr (t : bytes) : bytes := rev (dropWhileEOL (rev t)).
Definition lastZ (t : bytes) : Z := match rev t with c :: _ => c | [] => -1 end.
Definition trimRightSpTab (t : bytes) : bytes :=
  rev ((fix f (l : bytes) : bytes := match l with c :: r => if isSpTab c then f r else l | [] => [] end) (rev t)).
Fixpoint countLead (c : Z) (t : bytes) : Z := match t with x :: r => if x =? c then 1 + countLead c r else 0 | [] => 0 end.

Definition shapeInline (t : bytes) (k : Z) : bool :=
  let n := len t in
  let c0 := at_ t 0 in
  if k =? EmphasisKind then (2 <=? n) && ((c0 =? 42) || (c0 =? 95)) && (lastZ t =? c0)
  else if k =? StrongKind then (4 <=? n) && ((c0 =? 42) || (c0 =? 95)) && (at_ t 1 =? c0) && (lastZ t =? c0) && (at_ t (n - 2) =? c0)
  else if k =? CodeSpanKind then
    let a := countLead 96 t in let z := countLead 96 (rev t) in (0 <? a) && (a =? z) && (2 * a <=? n)
  else if k =? LinkKind then (2 <=? n) && (c0 =? 91) && ((lastZ t =? 93) || (lastZ t =? 41))
  else if k =? ImageKind then (3 <=? n) && (c0 =? 33) && (at_ t 1 =? 91) && ((lastZ t =? 93) || (lastZ t =? 41))
  else if (k =? AutolinkKind) || (k =? HTMLTagKind) then (2 <=? n) && (c0 =? 60) && (lastZ t =? 62)
  else if k =? CharacterReferenceKind then (3 <=? n) && (c0 =? 38) && (lastZ t =? 59)
  else if k =? HardLineBreakKind then
    let body := trimEOLr t in
    (len body <? n) && (((len body =? 1) && (at_ body 0 =? 92)) || ((2 <=? len body) && allOf body 32))
  else true.

Definition shapeBlock (t : bytes) (b : block) : bool :=
  let k := bkind b in
  let n := len t in
  if k =? ListMarkerKind then
    ((n =? 1) && ((at_ t 0 =? 45) || (at_ t 0 =? 43) || (at_ t 0 =? 42))) ||
    ((2 <=? n) && (n <=? 10) && ((lastZ t =? 46) || (lastZ t =? 41)) && forallb isASCIIDigit (upto t (n - 1)))
  else if k =? ATXHeadingKind then
    let lvl := bn b in (lvl <=? n) && allOf (upto t lvl) 35 && negb ((lvl <? n) && (at_ t lvl =? 35))
  else if k =? SetextHeadingKind then
    let body := trimRightSpTab (trimEOLr t) in
    negb (len body =? 0) && (lastZ body =? (if bn b =? 2 then 45 else 61))
  else if k =? FencedCodeBlockKind then
    (3 <=? n) && ((at_ t 0 =? 96) || (at_ t 0 =? 126)) && (at_ t 1 =? at_ t 0) && (at_ t 2 =? at_ t 0)
  else if k =? BlockQuoteKind then (1 <=? n) && (at_ t 0 =? 62)
  else true.

Fixpoint shapesI (src : bytes) (i : inline) : bool :=
  match i with Inl k s e _ _ ks => span_valid (len src) s e && shapeInline (sub src s e) k && forallb (shapesI src) ks end.
Fixpoint shapesB (src : bytes) (b : block) : bool :=
  match b with Blk k s e bk ik _ _ _ _ _ =>
    span_valid (len src) s e && shapeBlock (sub src s e) b && forallb (shapesB src) bk && forallb (shapesI src) ik
  end.
Definition chk_C13_root (r : rootB) : bool := shapesB (rb_src r) (rb_blk r).
Definition C13_statement : Prop := forall input, forallb chk_C13_root (fst (parseFull input)) = true.

(* ---------------------------------------------------------------- C01: tiling (the clauses a pure model can state) *)
Definition isBlankByte (c : Z) : bool := (c =? 32) || (c =? 9) || (c =? 13) || (c =? 10).
Fixpoint replaceNul (l : bytes) : bytes := match l with [] => [] | c :: r => (if c =? 0 then [239; 191; 189] else [c]) ++ replaceNul r end.
(* line endings LF, CR, CRLF each counted once *)
Fixpoint specLines (l : bytes) : Z :=
  match l with
  | [] => 0
  | c :: r => (if c =? 10 then 1 else if c =? 13 then (match r with d :: _ => if d =? 10 then 0 else 1 | [] => 1 end) else 0) + specLines r
  end.
Fixpoint tiles (input : bytes) (prevEnd : Z) (rs : list rootB) : bool :=
  match rs with
  | [] => forallb isBlankByte (from_ input prevEnd)
  | r :: rest =>
    let s := rb_start r in let e := rb_end r in
    (prevEnd <=? s) && (s <=? e) && (e <=? len input) &&
    forallb isBlankByte (sub input prevEnd s) &&
    Utf8.bytes_eqb (rb_src r) (replaceNul (sub input s e)) &&
    (rb_line r =? 1 + specLines (upto input s)) &&
    (if forallb (fun c => negb (c =? 0)) input then e - s =? len (rb_src r) else true) &&
    tiles input e rest
  end.
Definition chk_C01 (input : bytes) (rs : list rootB) : bool := tiles input 0 rs.
Definition C01_statement : Prop := forall input, chk_C01 input (fst (parseBlocks input)) = true.
