From Coq Require Import List ZArith Lia Bool.
Import ListNotations.
Require Import LAPad.
Require Import Base Tree Recog LP Driver Rec16 Rec17 Rec18 RecBounds Cursor CursorX EolInv EolCRDefs EolCRBytes C01b
               EolCRLFDefs EolCRLFSimBytes EolCRLFSimLeDefs.
Open Scope Z_scope.

(* C14 (ii), CRLF clause: byte-level facts for the stream layer (pad, nullCount, unpadded, fillNulls, lineCount, lineEnd,
   makeRoot's cut-and-shift) under LF -> CR LF. *)

(* ---- 0. small list facts ---- *)
Lemma crlf_cons c l : crlf (c :: l) = (if c =? 10 then [13; 10] else [c]) ++ crlf l. Proof. reflexivity. Qed.
Lemma crlf_cons10 l : crlf (10 :: l) = 13 :: 10 :: crlf l. Proof. reflexivity. Qed.
Lemma crlf_consN c l : c <> 10 -> crlf (c :: l) = c :: crlf l.
Proof. intros H. rewrite crlf_cons. replace (c =? 10) with false by (symmetry; apply Z.eqb_neq; exact H). reflexivity. Qed.
Lemma pad_cons0 l : pad (0 :: l) = 0 :: 0 :: 0 :: pad l. Proof. reflexivity. Qed.
Lemma pad_consN c l : c <> 0 -> pad (c :: l) = c :: pad l.
Proof. intros H. rewrite pad_cons. replace (c =? 0) with false by (symmetry; apply Z.eqb_neq; exact H). reflexivity. Qed.
Lemma In_upto {A} (x : A) l k : In x (upto l k) -> In x l.
Proof. unfold upto. revert l. induction (Z.to_nat k) as [|n IH]; intros l H; [destruct H|]. destruct l as [|y l]; [destruct H|]. destruct H as [H|H]; [left; exact H|right; apply IH, H]. Qed.
Lemma In_from {A} (x : A) l k : In x (from_ l k) -> In x l.
Proof. unfold from_. revert l. induction (Z.to_nat k) as [|n IH]; intros l H; [exact H|]. destruct l as [|y l]; [destruct H|]. right. apply IH, H. Qed.
Lemma notIn_upto {A} (x : A) l k : ~ In x l -> ~ In x (upto l k). Proof. intros H G. apply H. eapply In_upto, G. Qed.
Lemma notIn_from {A} (x : A) l k : ~ In x l -> ~ In x (from_ l k). Proof. intros H G. apply H. eapply In_from, G. Qed.

(* ---- 1. pad ---- *)
Lemma pad_crlf s : pad (crlf s) = crlf (pad s).
Proof.
  induction s as [|c s IH]; [reflexivity|].
  destruct (Z.eq_dec c 10) as [->|N10].
  - rewrite crlf_cons10. rewrite (pad_consN 13), (pad_consN 10), (pad_consN 10) by lia. rewrite crlf_cons10, IH. reflexivity.
  - destruct (Z.eq_dec c 0) as [->|N0].
    + rewrite (crlf_consN 0) by lia. rewrite !pad_cons0. rewrite !(crlf_consN 0) by lia. rewrite IH. reflexivity.
    + rewrite (crlf_consN c), (pad_consN c), (pad_consN c), (crlf_consN c) by assumption. rewrite IH. reflexivity.
Qed.
Lemma In_pad x s : In x (pad s) -> In x s.
Proof.
  unfold pad. intros H. apply in_flat_map in H. destruct H as (c & Hc & Hx).
  destruct (Z.eqb_spec c 0) as [->|N]; [destruct Hx as [<-|[<-|[<-|[]]]]; exact Hc|destruct Hx as [<-|[]]; exact Hc].
Qed.
Lemma pad_no13 s : ~ In 13 s -> ~ In 13 (pad s). Proof. intros H G. apply H, In_pad, G. Qed.
Lemma pad_no91 s : ~ In 91 s -> ~ In 91 (pad s). Proof. intros H G. apply H, In_pad, G. Qed.
Lemma count10_pad s : count10 (pad s) = count10 s.
Proof.
  induction s as [|c s IH]; [reflexivity|]. rewrite pad_cons, count10_app, IH. cbn [count10].
  destruct (Z.eqb_spec c 0) as [->|N]; [reflexivity|]. cbn [count10]. lia.
Qed.
Lemma PadF_crlf l : PadF l -> PadF (crlf l).
Proof. intros (t & ->). exists (crlf t). symmetry. apply pad_crlf. Qed.

(* ---- 2. nullCount, unpadded (no hypothesis on b) ---- *)
Lemma nullCount_crlf b : nullCount (crlf b) = nullCount b.
Proof.
  induction b as [|c b IH]; [reflexivity|]. rewrite crlf_cons, nullCount_app, IH. cbn [nullCount].
  destruct (Z.eqb_spec c 10) as [->|N]; [reflexivity|]. cbn [nullCount]. lia.
Qed.
Lemma unpadded_crlf b : unpadded (crlf b) = unpadded b + count10 b.
Proof. unfold unpadded. rewrite len_crlf, nullCount_crlf. lia. Qed.

(* ---- 3. fillNulls ---- *)
(* FALSE for arbitrary b: a line feed swallowed by the two bytes after a NUL *)
Lemma fillNulls_crlf_counterexample : fillNulls (crlf [0; 10; 0]) <> crlf (fillNulls [0; 10; 0]).
Proof. vm_compute. discriminate. Qed.
(* the exact side condition: no LF is consumed while the counter of fill_aux is 1 or 2 *)
Fixpoint fillOK (k : nat) (l : bytes) : Prop :=
  match l with
  | [] => True
  | b :: r =>
    match k with
    | 2%nat => b <> 10 /\ fillOK 1 r
    | 1%nat => b <> 10 /\ fillOK 0 r
    | _ => if b =? 0 then fillOK 2 r else fillOK 0 r
    end
  end.
Lemma fill_aux_0 x y : fill_aux 0 (x :: y) = if x =? 0 then 239 :: fill_aux 2 y else x :: fill_aux 0 y. Proof. reflexivity. Qed.
Lemma fill_aux_3 k x y : fill_aux (S (S (S k))) (x :: y) = if x =? 0 then 239 :: fill_aux 2 y else x :: fill_aux 0 y. Proof. reflexivity. Qed.
Lemma fill_aux_crlf : forall l k, fillOK k l -> fill_aux k (crlf l) = crlf (fill_aux k l).
Proof.
  induction l as [|b r IH]; intros k H; [destruct k as [|[|[|k]]]; reflexivity|].
  assert (C0 : forall k, (forall x y, fill_aux k (x :: y) = if x =? 0 then 239 :: fill_aux 2 y else x :: fill_aux 0 y) ->
               (if b =? 0 then fillOK 2 r else fillOK 0 r) -> fill_aux k (crlf (b :: r)) = crlf (fill_aux k (b :: r))).
  { intros k0 Hk H0. rewrite (Hk b r). destruct (Z.eq_dec b 10) as [->|N10].
    - change (10 =? 0) with false in *. cbv iota in H0 |- *. rewrite !crlf_cons10, Hk. change (13 =? 0) with false. cbv iota.
      rewrite fill_aux_0. change (10 =? 0) with false. cbv iota. rewrite (IH 0%nat H0). reflexivity.
    - rewrite (crlf_consN b) by exact N10. rewrite Hk. destruct (Z.eqb_spec b 0) as [->|N0].
      + rewrite (crlf_consN 239) by lia. rewrite (IH 2%nat H0). reflexivity.
      + rewrite (crlf_consN b) by exact N10. rewrite (IH 0%nat H0). reflexivity. }
  destruct k as [|[|[|k]]]; cbn [fillOK] in H.
  - apply C0; [apply fill_aux_0|exact H].
  - destruct H as [N10 H]. rewrite (crlf_consN b) by exact N10. cbn [fill_aux]. rewrite (crlf_consN 189) by lia. rewrite (IH 0%nat H). reflexivity.
  - destruct H as [N10 H]. rewrite (crlf_consN b) by exact N10. cbn [fill_aux]. rewrite (crlf_consN 191) by lia. rewrite (IH 1%nat H). reflexivity.
  - apply C0; [apply fill_aux_3|exact H].
Qed.
Theorem fillNulls_crlf b : fillOK 0 b -> fillNulls (crlf b) = crlf (fillNulls b).
Proof. apply fill_aux_crlf. Qed.
(* the side condition is closed under prefixes, and padded buffers satisfy it *)
Lemma fillOK_firstn : forall m l k, fillOK k l -> fillOK k (firstn m l).
Proof.
  induction m as [|m IH]; intros l k H; [exact I|]. destruct l as [|b r]; [exact I|]. cbn [firstn].
  destruct k as [|[|[|k]]]; cbn [fillOK] in *.
  - destruct (b =? 0); apply IH, H.
  - destruct H as [N H]. split; [exact N|apply IH, H].
  - destruct H as [N H]. split; [exact N|apply IH, H].
  - destruct (b =? 0); apply IH, H.
Qed.
Lemma fillOK_upto l k n : fillOK k l -> fillOK k (upto l n). Proof. apply fillOK_firstn. Qed.
Lemma fillOK_pad : forall s, fillOK 0 (pad s).
Proof.
  induction s as [|c s IH]; [exact I|]. destruct (Z.eq_dec c 0) as [->|N].
  - rewrite pad_cons0. cbn [fillOK]. change (0 =? 0) with true. cbv iota. repeat split; [lia|lia|exact IH].
  - rewrite pad_consN by exact N. cbn [fillOK]. replace (c =? 0) with false by (symmetry; apply Z.eqb_neq; exact N). exact IH.
Qed.
Lemma fillOK_PadF l : PadF l -> fillOK 0 l. Proof. intros (t & ->). apply fillOK_pad. Qed.
Lemma fillNulls_crlf_pad s : fillNulls (crlf (pad s)) = crlf (fillNulls (pad s)).
Proof. apply fillNulls_crlf, fillOK_pad. Qed.
Lemma fillNulls_crlf_upto_pad s n : fillNulls (crlf (upto (pad s) n)) = crlf (fillNulls (upto (pad s) n)).
Proof. apply fillNulls_crlf, fillOK_upto, fillOK_pad. Qed.
(* fillOK is exact: when it fails, a line feed is swallowed and the two sides differ in length *)
Lemma len_fill_aux : forall l k, len (fill_aux k l) = len l.
Proof.
  induction l as [|b r IH]; intros k; [destruct k as [|[|[|k]]]; reflexivity|].
  destruct k as [|[|[|k]]]; cbn [fill_aux]; try destruct (b =? 0); rewrite !len_cons, IH; reflexivity.
Qed.
Lemma count10_fill_le : forall l k, count10 (fill_aux k l) <= count10 l.
Proof.
  induction l as [|b r IH]; intros k; [destruct k as [|[|[|k]]]; cbn; lia|].
  assert (Hb : 0 <= (if b =? 10 then 1 else 0)) by (destruct (b =? 10); lia).
  destruct k as [|[|[|k]]]; cbn [fill_aux].
  - destruct (Z.eqb_spec b 0) as [->|N]; cbn [count10]; [change (239 =? 10) with false; change (0 =? 10) with false; cbv iota; pose proof (IH 2%nat)|pose proof (IH 0%nat)]; lia.
  - cbn [count10]. change (189 =? 10) with false. cbv iota. pose proof (IH 0%nat). lia.
  - cbn [count10]. change (191 =? 10) with false. cbv iota. pose proof (IH 1%nat). lia.
  - destruct (Z.eqb_spec b 0) as [->|N]; cbn [count10]; [change (239 =? 10) with false; change (0 =? 10) with false; cbv iota; pose proof (IH 2%nat)|pose proof (IH 0%nat)]; lia.
Qed.
Lemma count10_fill_lt : forall l k, ~ fillOK k l -> count10 (fill_aux k l) < count10 l.
Proof.
  induction l as [|b r IH]; intros k H; [exfalso; apply H; exact I|].
  assert (C0 : ~ (if b =? 0 then fillOK 2 r else fillOK 0 r) ->
               count10 (if b =? 0 then 239 :: fill_aux 2 r else b :: fill_aux 0 r) < count10 (b :: r)).
  { intros H0. destruct (Z.eqb_spec b 0) as [->|N]; cbn [count10]; [change (239 =? 10) with false; change (0 =? 10) with false; cbv iota; pose proof (IH 2%nat H0)|pose proof (IH 0%nat H0)]; lia. }
  assert (C1 : forall k' c, c <> 10 -> ~ (b <> 10 /\ fillOK k' r) -> count10 (c :: fill_aux k' r) < count10 (b :: r)).
  { intros k' c Hc H1. cbn [count10]. replace (c =? 10) with false by (symmetry; apply Z.eqb_neq; exact Hc).
    destruct (Z.eqb_spec b 10) as [E|N]; [pose proof (count10_fill_le r k'); lia|].
    assert (H2 : ~ fillOK k' r) by (intros G; apply H1; split; assumption). pose proof (IH k' H2). lia. }
  destruct k as [|[|[|k]]]; cbn [fillOK] in H; cbn [fill_aux].
  - apply C0, H.
  - apply C1; [lia|exact H].
  - apply C1; [lia|exact H].
  - apply C0, H.
Qed.
Lemma fillOK_dec : forall l k, fillOK k l \/ ~ fillOK k l.
Proof.
  induction l as [|b r IH]; intros k; [left; exact I|].
  assert (C1 : forall k', (b <> 10 /\ fillOK k' r) \/ ~ (b <> 10 /\ fillOK k' r)).
  { intros k'. destruct (Z.eq_dec b 10) as [E|N]; [right; intros [G _]; exact (G E)|].
    destruct (IH k') as [G|G]; [left; split; assumption|right; intros [_ G']; exact (G G')]. }
  destruct k as [|[|[|k]]]; cbn [fillOK]; try apply C1; destruct (b =? 0); apply IH.
Qed.
Theorem fill_aux_crlf_iff l k : fill_aux k (crlf l) = crlf (fill_aux k l) <-> fillOK k l.
Proof.
  split; [|apply fill_aux_crlf]. intros E. destruct (fillOK_dec l k) as [G|G]; [exact G|exfalso].
  pose proof (count10_fill_lt l k G) as Hlt. apply (f_equal (@len Z)) in E.
  rewrite len_fill_aux, !len_crlf, len_fill_aux in E. lia.
Qed.
Theorem fillNulls_crlf_iff b : fillNulls (crlf b) = crlf (fillNulls b) <-> fillOK 0 b.
Proof. apply fill_aux_crlf_iff. Qed.

(* ---- 4. lineCount ---- *)
Lemma lineCount_crlf_counterexample : lineCount (crlf [13; 10]) <> lineCount [13; 10].
Proof. vm_compute. discriminate. Qed.
Lemma lineCount_crlf b : ~ In 13 b -> lineCount (crlf b) = lineCount b.
Proof.
  induction b as [|c b IH]; intros H; [reflexivity|].
  assert (Hc : c <> 13) by (intros ->; apply H; left; reflexivity).
  assert (Hb : ~ In 13 b) by (intros G; apply H; right; exact G). specialize (IH Hb).
  destruct (Z.eq_dec c 10) as [->|N10].
  - rewrite crlf_cons10. cbn [lineCount]. change (13 =? 10) with false. change (13 =? 13) with true. change (10 =? 10) with true. cbv iota.
    rewrite IH. reflexivity.
  - rewrite crlf_consN by exact N10. cbn [lineCount]. rewrite IH.
    replace (c =? 10) with false by (symmetry; apply Z.eqb_neq; exact N10).
    replace (c =? 13) with false by (symmetry; apply Z.eqb_neq; exact Hc). reflexivity.
Qed.
Lemma lineCount_count10 b : ~ In 13 b -> lineCount b = count10 b.
Proof.
  induction b as [|c b IH]; intros H; [reflexivity|].
  assert (Hc : c <> 13) by (intros ->; apply H; left; reflexivity).
  assert (Hb : ~ In 13 b) by (intros G; apply H; right; exact G). cbn [lineCount count10]. rewrite (IH Hb).
  replace (c =? 13) with false by (symmetry; apply Z.eqb_neq; exact Hc). reflexivity.
Qed.

(* ---- 5. lineEnd ---- *)
Lemma split_line (R : bytes) : ~ In 13 R ->
  exists body rest, R = body ++ rest /\ noEolB body /\ (rest = [] \/ exists rest', rest = 10 :: rest').
Proof.
  induction R as [|c R IH]; intros H; [exists [], []; repeat split; [constructor|left; reflexivity]|].
  destruct (Z.eq_dec c 10) as [->|N]; [exists [], (10 :: R); repeat split; [constructor|right; exists R; reflexivity]|].
  assert (Hc : c <> 13) by (intros ->; apply H; left; reflexivity).
  assert (Hb : ~ In 13 R) by (intros G; apply H; right; exact G).
  destruct (IH Hb) as (body & rest & -> & Hbd & Hr). exists (c :: body), rest.
  repeat split; [constructor; [split; assumption|exact Hbd]|exact Hr].
Qed.
Lemma findEol_app_noEolB : forall a r i, noEolB a -> findEol (a ++ r) i = findEol r (i + len a).
Proof.
  induction a as [|x a IH]; intros r i Ha; [cbn [app]; f_equal; unfold len; cbn [length]; lia|].
  inversion Ha as [|? ? [H10 H13] Ha']; subst. cbn [app findEol].
  replace (x =? 10) with false by (symmetry; apply Z.eqb_neq; exact H10).
  replace (x =? 13) with false by (symmetry; apply Z.eqb_neq; exact H13). cbn [orb].
  rewrite (IH r (i + 1) Ha'), len_cons. f_equal. lia.
Qed.
Lemma lineEnd_none_at buf i : noEolB (from_ buf i) -> lineEnd buf i = len buf.
Proof.
  intros Hb. unfold lineEnd. cbv zeta. rewrite <- (app_nil_r (from_ buf i)), (findEol_app_noEolB _ [] i Hb). reflexivity.
Qed.
Lemma lineEnd_lf_at buf i body rest' : 0 <= i -> from_ buf i = body ++ 10 :: rest' -> noEolB body -> lineEnd buf i = i + len body + 1.
Proof.
  intros Hi E Hb. unfold lineEnd. cbv zeta. rewrite E, (findEol_app_noEolB body _ i Hb). cbn [findEol].
  change ((10 =? 10) || (10 =? 13)) with true. cbv iota. pose proof (len_nonneg body) as Lb.
  destruct (Z.ltb_spec (i + len body) 0) as [L|L]; [lia|].
  assert (A : at_ buf (i + len body) = 10).
  { rewrite <- at_from by lia. rewrite E, at_app_r by lia. replace (len body - len body) with 0 by lia. reflexivity. }
  rewrite A. reflexivity.
Qed.
Lemma lineEnd_crlf_at buf i body rest' : 0 <= i -> from_ buf i = body ++ 13 :: 10 :: rest' -> noEolB body -> lineEnd buf i = i + len body + 2.
Proof.
  intros Hi E Hb. unfold lineEnd. cbv zeta. rewrite E, (findEol_app_noEolB body _ i Hb). cbn [findEol].
  change ((13 =? 10) || (13 =? 13)) with true. cbv iota. pose proof (len_nonneg body) as Lb.
  destruct (Z.ltb_spec (i + len body) 0) as [L|L]; [lia|].
  assert (A : at_ buf (i + len body) = 13).
  { rewrite <- at_from by lia. rewrite E, at_app_r by lia. replace (len body - len body) with 0 by lia. reflexivity. }
  assert (B : at_ buf (i + len body + 1) = 10).
  { replace (i + len body + 1) with (i + (len body + 1)) by lia. rewrite <- at_from by lia. rewrite E, at_app_r by lia.
    replace (len body + 1 - len body) with 1 by lia. reflexivity. }
  rewrite A, B. change (13 =? 10) with false. change (10 =? 10) with true. cbv iota.
  assert (Bd : 0 <= i + len body + 1 < len buf) by (apply at_nonzero_bounds; rewrite B; discriminate).
  destruct (Z.ltb_spec (i + len body + 1) (len buf)) as [G|G]; [reflexivity|lia].
Qed.
(* the two shapes of a line of a CR-free buffer *)
Lemma lineEnd_cases b i : ~ In 13 b -> 0 <= i ->
  (noEolB (from_ b i) /\ lineEnd b i = len b) \/
  (exists body rest', from_ b i = body ++ 10 :: rest' /\ noEolB body /\ lineEnd b i = i + len body + 1).
Proof.
  intros H Hi. destruct (split_line (from_ b i) (notIn_from 13 b i H)) as (body & rest & E & Hb & [->|(rest' & ->)]).
  - left. rewrite app_nil_r in E. rewrite E. split; [exact Hb|]. apply lineEnd_none_at. rewrite E. exact Hb.
  - right. exists body, rest'. split; [exact E|]. split; [exact Hb|]. apply (lineEnd_lf_at b i body rest' Hi E Hb).
Qed.
Lemma upto_app_all {A} (a b : list A) n : n = len a -> upto (a ++ b) n = a.
Proof. intros ->. unfold upto, len. rewrite Nat2Z.id, firstn_app, Nat.sub_diag, firstn_all. cbn [firstn]. apply app_nil_r. Qed.
Theorem lineEnd_crlf b i : ~ In 13 b -> 0 <= i -> lineEnd (crlf b) (phiP b i) = phiP b (lineEnd b i).
Proof.
  intros H Hi. pose proof (phiP_ge b i Hi) as Hp.
  destruct (lineEnd_cases b i H Hi) as [[Hb El]|(body & rest' & E & Hb & El)]; rewrite El.
  - rewrite phiP_all. apply lineEnd_none_at. rewrite (crlf_from b i Hi), (crlf_noEol _ Hb). exact Hb.
  - assert (E' : from_ (crlf b) (phiP b i) = body ++ 13 :: 10 :: crlf rest').
    { rewrite (crlf_from b i Hi), E, crlf_app, (crlf_noEol _ Hb), crlf_cons10. reflexivity. }
    rewrite (lineEnd_crlf_at (crlf b) (phiP b i) body (crlf rest') ltac:(lia) E' Hb).
    pose proof (len_nonneg body) as Lb.
    replace (i + len body + 1) with (i + (len body + 1)) by lia. rewrite (phiP_add b i (len body + 1)) by lia.
    rewrite E, (phiP_nonneg (body ++ 10 :: rest') (len body + 1)) by lia.
    replace (body ++ 10 :: rest') with ((body ++ [10]) ++ rest') by (rewrite <- app_assoc; reflexivity).
    rewrite upto_app_all by (rewrite len_app'; reflexivity).
    rewrite count10_app, (count10_noEol _ Hb). cbn [count10]. change (10 =? 10) with true. cbv iota. lia.
Qed.
(* the hypothesis 0 <= i is needed (as in the CR clause, the statement fails at i = -1) *)
Lemma lineEnd_crlf_counterexample : ~ In 13 [65; 10] /\ lineEnd (crlf [65; 10]) (phiP [65; 10] (-1)) <> phiP [65; 10] (lineEnd [65; 10] (-1)).
Proof. split; [intros [E|[E|[]]]; discriminate|vm_compute; discriminate]. Qed.
Theorem line_lineOK b i : ~ In 13 b -> 0 <= i -> EolCRLFSimBytes.lineOK (sub b i (lineEnd b i)).
Proof.
  intros H Hi. unfold sub. destruct (lineEnd_cases b i H Hi) as [[Hb El]|(body & rest' & E & Hb & El)]; rewrite El.
  - exists (upto (from_ b i) (len b - i)), []. split; [symmetry; apply app_nil_r|]. split; [apply Forall_upto', Hb|left; reflexivity].
  - exists body, [10]. split; [|split; [exact Hb|right; reflexivity]]. rewrite E.
    replace (body ++ 10 :: rest') with ((body ++ [10]) ++ rest') by (rewrite <- app_assoc; reflexivity).
    apply upto_app_all. rewrite len_app'. change (len [10]) with 1. lia.
Qed.
Lemma lineEnd_bounds_no13 b i : ~ In 13 b -> 0 <= i <= len b -> i <= lineEnd b i <= len b.
Proof.
  intros H Hi. destruct (lineEnd_cases b i H ltac:(lia)) as [[Hb El]|(body & rest' & E & Hb & El)]; rewrite El; [lia|].
  pose proof (len_from b i Hi) as Lf. rewrite E, len_app', len_cons in Lf. pose proof (len_nonneg body). pose proof (len_nonneg rest'). lia.
Qed.

(* ---- 6. slices at mapped positions (restating EolCRLFSimBytes.crlf_upto / crlf_from) and what makeRoot / skipLoop compute on them ---- *)
Lemma upto_crlf_phiP b n : 0 <= n -> upto (crlf b) (phiP b n) = crlf (upto b n). Proof. apply crlf_upto. Qed.
Lemma from_crlf_phiP b n : 0 <= n -> from_ (crlf b) (phiP b n) = crlf (from_ b n). Proof. apply crlf_from. Qed.
Lemma count10_upto_phiP b n : 0 <= n -> count10 (upto b n) = phiP b n - n.
Proof. intros H. rewrite phiP_nonneg by exact H. lia. Qed.
Lemma unpadded_upto_crlf b n : 0 <= n -> unpadded (upto (crlf b) (phiP b n)) = unpadded (upto b n) + (phiP b n - n).
Proof. intros H. rewrite (crlf_upto b n H), unpadded_crlf, (count10_upto_phiP b n H). reflexivity. Qed.
Lemma lineCount_upto_crlf b n : ~ In 13 b -> 0 <= n -> lineCount (upto (crlf b) (phiP b n)) = lineCount (upto b n).
Proof. intros H Hn. rewrite (crlf_upto b n Hn). apply lineCount_crlf, notIn_upto, H. Qed.
Lemma fillNulls_upto_crlf b n : fillOK 0 b -> 0 <= n -> fillNulls (upto (crlf b) (phiP b n)) = crlf (fillNulls (upto b n)).
Proof. intros H Hn. rewrite (crlf_upto b n Hn). apply fillNulls_crlf, fillOK_upto, H. Qed.
Lemma isBlankLine_upto_crlf b n : 0 <= n -> isBlankLine (upto (crlf b) (phiP b n)) = isBlankLine (upto b n).
Proof. intros Hn. rewrite (crlf_upto b n Hn). apply isBlankLine_crlf. Qed.
Lemma phiP_ltb R a b : (phiP R a <? phiP R b) = (a <? b).
Proof.
  destruct (Z.ltb_spec a b) as [L|L]; [apply Z.ltb_lt, phiP_lt, L|apply Z.ltb_ge, phiP_mono, L].
Qed.
Lemma phiP_inj R a b : phiP R a = phiP R b -> a = b.
Proof.
  intros E. destruct (Z.lt_trichotomy a b) as [L|[L|L]]; [pose proof (phiP_lt R a b L); lia|exact L|pose proof (phiP_lt R b a L); lia].
Qed.

(* ---- 7. the position map of a prefix ---- *)
Lemma upto_upto_le {A} (l : list A) k n : n <= k -> upto (upto l k) n = upto l n.
Proof. intros H. unfold upto. rewrite firstn_firstn. f_equal. lia. Qed.
Lemma phiP_app_le x y n : n <= len x -> phiP (x ++ y) n = phiP x n.
Proof. intros H. unfold phiP. rewrite (upto_app_le x y n H). reflexivity. Qed.
Lemma phiP_upto b k n : n <= k -> phiP (upto b k) n = phiP b n.
Proof. intros H. unfold phiP. rewrite (upto_upto_le b k n H). reflexivity. Qed.
Lemma phiI_agree R R' H : (forall n, n <= H -> phiP R n = phiP R' n) -> forall u, leI H u = true -> phiI R u = phiI R' u.
Proof.
  intros Hag. fix IH 1. intros [k s e ind r ks] Hu. cbn [leI] in Hu.
  apply andb_true_iff in Hu. destruct Hu as [Hu Hk]. apply andb_true_iff in Hu. destruct Hu as [Hs He].
  apply Z.leb_le in Hs. apply Z.leb_le in He. cbn [phiI]. rewrite (Hag s Hs), (Hag e He). f_equal.
  induction ks as [|x ks IHk]; [reflexivity|]. cbn [forallb] in Hk. apply andb_true_iff in Hk. destruct Hk as [Hx Hk].
  cbn [map]. rewrite (IH x Hx), (IHk Hk). reflexivity.
Qed.
Lemma map_phiI_agree R R' H : (forall n, n <= H -> phiP R n = phiP R' n) -> forall l, forallb (leI H) l = true -> map (phiI R) l = map (phiI R') l.
Proof.
  intros Hag. induction l as [|x l IH]; intros Hl; [reflexivity|]. cbn [forallb] in Hl. apply andb_true_iff in Hl. destruct Hl as [Hx Hl].
  cbn [map]. rewrite (phiI_agree R R' H Hag x Hx), (IH Hl). reflexivity.
Qed.
Lemma phiB_agree R R' H : (forall n, n <= H -> phiP R n = phiP R' n) -> forall t, leB H t = true -> phiB R t = phiB R' t.
Proof.
  intros Hag. fix IH 1. intros [K s e bk ik a n c l lb] Ht. cbn [leB] in Ht.
  apply andb_true_iff in Ht. destruct Ht as [Ht Hk]. apply andb_true_iff in Ht. destruct Ht as [Ht Hi].
  apply andb_true_iff in Ht. destruct Ht as [Hs He]. apply Z.leb_le in Hs. apply Z.leb_le in He.
  cbn [phiB]. rewrite (Hag s Hs), (Hag e He), (map_phiI_agree R R' H Hag ik Hi). f_equal.
  induction bk as [|x bk IHk]; [reflexivity|]. cbn [forallb] in Hk. apply andb_true_iff in Hk. destruct Hk as [Hx Hk].
  cbn [map]. rewrite (IH x Hx), (IHk Hk). reflexivity.
Qed.
Lemma map_phiB_agree R R' H : (forall n, n <= H -> phiP R n = phiP R' n) -> forall l, leL H l = true -> map (phiB R) l = map (phiB R') l.
Proof.
  intros Hag. unfold leL. induction l as [|x l IH]; intros Hl; [reflexivity|]. cbn [forallb] in Hl. apply andb_true_iff in Hl. destruct Hl as [Hx Hl].
  cbn [map]. rewrite (phiB_agree R R' H Hag x Hx), (IH Hl). reflexivity.
Qed.
Theorem phiI_app_le x y u : leI (len x) u = true -> phiI (x ++ y) u = phiI x u.
Proof. apply phiI_agree. intros n Hn. apply phiP_app_le, Hn. Qed.
Theorem phiB_app_le x y t : leB (len x) t = true -> phiB (x ++ y) t = phiB x t.
Proof. apply phiB_agree. intros n Hn. apply phiP_app_le, Hn. Qed.
Theorem map_phiB_app_le x y l : leL (len x) l = true -> map (phiB (x ++ y)) l = map (phiB x) l.
Proof. apply map_phiB_agree. intros n Hn. apply phiP_app_le, Hn. Qed.
Theorem phiI_upto b k H u : H <= k -> leI H u = true -> phiI (upto b k) u = phiI b u.
Proof. intros Hk. apply phiI_agree. intros n Hn. apply phiP_upto. lia. Qed.
Theorem phiB_upto b k H t : H <= k -> leB H t = true -> phiB (upto b k) t = phiB b t.
Proof. intros Hk. apply phiB_agree. intros n Hn. apply phiP_upto. lia. Qed.
Theorem map_phiB_upto b k H l : H <= k -> leL H l = true -> map (phiB (upto b k)) l = map (phiB b) l.
Proof. intros Hk. apply map_phiB_agree. intros n Hn. apply phiP_upto. lia. Qed.

(* ---- 8. cutting the buffer at n: makeRoot continues on from_ b n with the remaining children shifted by - n ---- *)
Lemma phiP_from b n x : 0 <= n <= x -> phiP (from_ b n) (x - n) = phiP b x - phiP b n.
Proof. intros H. pose proof (phiP_add b n (x - n) ltac:(lia) ltac:(lia)) as E. replace (n + (x - n)) with x in E by lia. lia. Qed.
(* every start is >= n, every end is negative (open) or >= n *)
Fixpoint geI (n : Z) (u : inline) : bool :=
  match u with Inl _ s e _ _ ks => (n <=? s) && ((e <? 0) || (n <=? e)) && forallb (geI n) ks end.
Fixpoint geB (n : Z) (b : block) : bool :=
  match b with Blk _ s e bk ik _ _ _ _ _ => (n <=? s) && ((e <? 0) || (n <=? e)) && forallb (geI n) ik && forallb (geB n) bk end.
Definition geL (n : Z) (l : list block) : bool := forallb (geB n) l.
Lemma phiP_shift_start b n s : 0 <= n <= s -> phiP (from_ b n) (s + - n) = phiP b s + - phiP b n.
Proof. intros H. replace (s + - n) with (s - n) by lia. rewrite (phiP_from b n s H). lia. Qed.
Lemma phiP_shift_end b n e : 0 <= n -> (e <? 0) || (n <=? e) = true ->
  phiP (from_ b n) (if 0 <=? e then e + - n else e) = (if 0 <=? phiP b e then phiP b e + - phiP b n else phiP b e).
Proof.
  intros Hn He. apply orb_true_iff in He. destruct He as [He|He]; [apply Z.ltb_lt in He|apply Z.leb_le in He].
  - rewrite (phiP_neg b e He). destruct (Z.leb_spec 0 e) as [L|L]; [lia|]. apply phiP_neg, He.
  - pose proof (phiP_ge b e ltac:(lia)) as Hg. destruct (Z.leb_spec 0 e) as [L|L]; [|lia].
    destruct (Z.leb_spec 0 (phiP b e)) as [L2|L2]; [|lia]. apply phiP_shift_start. lia.
Qed.
Lemma phiI_shift b n : 0 <= n -> forall u, geI n u = true -> phiI (from_ b n) (shiftI (- n) u) = shiftI (- phiP b n) (phiI b u).
Proof.
  intros Hn. fix IH 1. intros [k s e ind r ks] Hu. cbn [geI] in Hu.
  apply andb_true_iff in Hu. destruct Hu as [Hu Hk]. apply andb_true_iff in Hu. destruct Hu as [Hs He]. apply Z.leb_le in Hs.
  cbn [shiftI phiI]. rewrite (phiP_shift_start b n s ltac:(lia)), (phiP_shift_end b n e Hn He). f_equal.
  induction ks as [|x ks IHk]; [reflexivity|]. cbn [forallb] in Hk. apply andb_true_iff in Hk. destruct Hk as [Hx Hk].
  cbn [map]. rewrite (IH x Hx), (IHk Hk). reflexivity.
Qed.
Lemma map_phiI_shift b n : 0 <= n -> forall l, forallb (geI n) l = true ->
  map (phiI (from_ b n)) (map (shiftI (- n)) l) = map (shiftI (- phiP b n)) (map (phiI b) l).
Proof.
  intros Hn. induction l as [|x l IH]; intros Hl; [reflexivity|]. cbn [forallb] in Hl. apply andb_true_iff in Hl. destruct Hl as [Hx Hl].
  cbn [map]. rewrite (phiI_shift b n Hn x Hx), (IH Hl). reflexivity.
Qed.
Theorem phiB_shift b n : 0 <= n -> forall t, geB n t = true -> phiB (from_ b n) (shiftB (- n) t) = shiftB (- phiP b n) (phiB b t).
Proof.
  intros Hn. fix IH 1. intros [K s e bk ik a nn c l lb] Ht. cbn [geB] in Ht.
  apply andb_true_iff in Ht. destruct Ht as [Ht Hk]. apply andb_true_iff in Ht. destruct Ht as [Ht Hi].
  apply andb_true_iff in Ht. destruct Ht as [Hs He]. apply Z.leb_le in Hs.
  cbn [shiftB phiB]. rewrite (phiP_shift_start b n s ltac:(lia)), (phiP_shift_end b n e Hn He), (map_phiI_shift b n Hn ik Hi). f_equal.
  induction bk as [|x bk IHk]; [reflexivity|]. cbn [forallb] in Hk. apply andb_true_iff in Hk. destruct Hk as [Hx Hk].
  cbn [map]. rewrite (IH x Hx), (IHk Hk). reflexivity.
Qed.
Theorem map_phiB_shift b n : 0 <= n -> forall l, geL n l = true ->
  map (phiB (from_ b n)) (map (shiftB (- n)) l) = map (shiftB (- phiP b n)) (map (phiB b) l).
Proof.
  intros Hn. unfold geL. induction l as [|x l IH]; intros Hl; [reflexivity|]. cbn [forallb] in Hl. apply andb_true_iff in Hl. destruct Hl as [Hx Hl].
  cbn [map]. rewrite (phiB_shift b n Hn x Hx), (IH Hl). reflexivity.
Qed.
(* geB cannot be dropped: a start below the cut, or an end in [0, n), is shifted by different amounts on the two sides *)
Lemma phiB_shift_counterexample :
  let b := [10; 65] in let t := Blk 1 0 (-1) [] [] 0 0 0 false false in let t' := Blk 1 1 0 [] [] 0 0 0 false false in
  phiB (from_ b 1) (shiftB (- 1) t) <> shiftB (- phiP b 1) (phiB b t) /\
  phiB (from_ b 1) (shiftB (- 1) t') <> shiftB (- phiP b 1) (phiB b t').
Proof. split; vm_compute; discriminate. Qed.

Print Assumptions pad_crlf. Print Assumptions pad_no13. Print Assumptions pad_no91. Print Assumptions count10_pad.
Print Assumptions nullCount_crlf. Print Assumptions unpadded_crlf.
Print Assumptions fillNulls_crlf. Print Assumptions fillNulls_crlf_iff. Print Assumptions fillNulls_crlf_upto_pad. Print Assumptions fillOK_PadF. Print Assumptions fillNulls_crlf_counterexample.
Print Assumptions lineCount_crlf. Print Assumptions lineCount_count10.
Print Assumptions lineEnd_crlf. Print Assumptions lineEnd_cases. Print Assumptions line_lineOK. Print Assumptions lineEnd_bounds_no13. Print Assumptions lineEnd_crlf_counterexample.
Print Assumptions unpadded_upto_crlf. Print Assumptions lineCount_upto_crlf. Print Assumptions fillNulls_upto_crlf. Print Assumptions isBlankLine_upto_crlf. Print Assumptions phiP_ltb.
Print Assumptions phiP_app_le. Print Assumptions phiP_upto. Print Assumptions phiI_app_le. Print Assumptions phiB_app_le. Print Assumptions map_phiB_app_le.
Print Assumptions phiI_upto. Print Assumptions phiB_upto. Print Assumptions map_phiB_upto.
Print Assumptions phiP_from. Print Assumptions phiB_shift. Print Assumptions map_phiB_shift. Print Assumptions phiB_shift_counterexample.
