From Coq Require Import List ZArith Lia Bool String Ascii.
Import ListNotations.
Require Import Base Tables Utf8 Tree Recog Inl3b Driver Inl3e Render Safe MainTok C17bytes C17chk ChkB ChkW8 ChkE6 T30test T30test2 T30test4.
Open Scope Z_scope.
Eval vm_compute in map noRefDefs tests.
Eval vm_compute in map noRefDefs more.
Eval vm_compute in map noRefDefs refs.
