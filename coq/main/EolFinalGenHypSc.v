From Coq Require Import List ZArith Lia Bool.
Import ListNotations.
Require Import Base Tree Rdr Link Collect Html Recog LP Rules Starts Driver Rec16 Rec17 Rec18 L2Kind L2CC ShEnv
  EolCRLFSimTree Props LADef EolFinalDefs EolFinalSimBytes EolFinalSimTree EolFinalGenOcp EolFinalGenTree EolFinalGenClose EolFinalGenInv EolFinalGenLP EolFinalGenLP2 EolFinalGenLP3 EolFinalGenLine.
Require L2Kind2.
Open Scope Z_scope.

Section GenHypSc.
Context {HO : OcpFinC}.

(* C14 (i), final newline: after the last line (no line ending) every indented code block holds no SoftLineBreak entry,
   or exactly the final pair Text [.., L], SoftLineBreak [L, L]  (scB).  Single run. *)

Lemma scP_kids' L b ks : scP L (set_bkids b ks) = scP L b. Proof. destruct b; reflexivity. Qed.
Lemma scb_updAt_at L f d r : scB L r = true -> (forall x, getAt d r = Some x -> scB L x = true -> scB L (f x) = true) -> scB L (updAt d f r) = true.
Proof. apply (allB_updAt_at (scP L) (scP_kids' L)). Qed.

Lemma tailShape_mk L ik s1 : nslbL ik = true -> tailShape L (ik ++ [mkI TextKind s1 L; mkI SoftLineBreakKind L L]) = true.
Proof.
  intros H. unfold tailShape. change (ik ++ [mkI TextKind s1 L; mkI SoftLineBreakKind L L]) with (ik ++ [mkI TextKind s1 L] ++ [mkI SoftLineBreakKind L L]).
  rewrite app_assoc, !rev_app_distr. cbn [rev app mkI]. rewrite !Z.eqb_refl, rev_involutive, H. reflexivity.
Qed.

(* the text of the line: what it does to the container x of kind k *)
Lemma scB_go_code L x s1 : qB L x = true -> isCode (bkind x) = true ->
  scB L (set_bik (set_bik x (bik x ++ [mkI TextKind s1 L])) (bik (set_bik x (bik x ++ [mkI TextKind s1 L])) ++ [mkI SoftLineBreakKind L L])) = true.
Proof.
  intros Hq Hc. pose proof (qB_scB L x Hq) as Hs. apply (allB_parts (qP L)) in Hq. destruct Hq as [Hq _]. apply (allB_parts (scP L)) in Hs. destruct Hs as [_ Hs].
  unfold scB. rewrite allB_eq. destruct x as [K s e bk ik a n c l lb]. cbn [set_bik bik bkids bkind] in *. rewrite Hs, andb_true_r.
  unfold scP. cbn [bkind bik]. unfold qP in Hq. cbn [bkind bik] in Hq. rewrite Hc in Hq. cbn [negb orb] in Hq. apply andb_true_iff in Hq. destruct Hq as [Hn _].
  rewrite <- app_assoc. cbn [app]. rewrite (tailShape_mk L ik s1 Hn). apply orb_true_r.
Qed.
Lemma scB_go_other L x u : scB L x = true -> bkind x <> IndentedCodeBlockKind -> scB L (set_bik x (bik x ++ [u])) = true.
Proof.
  intros Hs N. apply (allB_parts (scP L)) in Hs. destruct Hs as [_ Hs]. unfold scB. rewrite allB_eq. destruct x as [K s e bk ik a n c l lb]. cbn [set_bik bik bkids bkind] in *.
  rewrite Hs, andb_true_r. unfold scP. cbn [bkind]. replace (K =? IndentedCodeBlockKind) with false by (symmetry; apply Z.eqb_neq; exact N). reflexivity.
Qed.

Lemma scB_goF L q : qB L (root q) = true -> lineStart q + len (line q) = L -> hasByteSuffixEOL (line q) = false -> scB L (root (goF q)) = true.
Proof.
  intros Hq Hend Hsuf. unfold goF. cbv zeta. change (line (updCont q ?f)) with (line q). change (lineStart (updCont q ?f)) with (lineStart q). rewrite Hsuf, Hend. cbn [negb]. rewrite andb_true_r.
  destruct (isCode (containerKind q)) eqn:Ec.
  - rewrite updCont_fuse. unfold updCont. cbn [root withRoot setLP]. apply scb_updAt_at; [apply qB_scB, Hq|]. intros x Hx _.
    apply scB_go_code; [apply (allB_getAt (qP L) _ _ _ Hq Hx)|]. rewrite (ckind_self q x Hx). exact Ec.
  - unfold updCont. cbn [root withRoot setLP]. apply scb_updAt_at; [apply qB_scB, Hq|]. intros x Hx Hsx.
    apply scB_go_other; [exact Hsx|]. rewrite (ckind_self q x Hx). intros E. rewrite E in Ec. discriminate.
Qed.

Lemma scB_addLineText L p : Cq L p -> lineStart p + len (line p) = L -> hasByteSuffixEOL (line p) = false -> scB L (root (addLineText p)) = true.
Proof.
  intros HC Hend Hsuf. unfold addLineText. cbv zeta.
  change (fun b : block => match lastBlock b with Some c => set_lastBlocks b [set_blast c true] | None => b end) with blankF.
  set (pa := if isRestBlank p then updCont p blankF else p).
  assert (Ha : Cq L pa /\ lineStart pa = lineStart p /\ line pa = line p) by (unfold pa; destruct (isRestBlank p); [split; [apply Cq_blankF, HC|split; reflexivity]|split; [exact HC|split; reflexivity]]).
  destruct Ha as (Ca & La & Lna). clearbody pa.
  match goal with |- context [setLastBlankUpTo (cdepth pa) ?v (root pa)] => set (llb := v) end.
  pose proof (Cq_setLastBlank L pa llb (cdepth pa) Ca) as Cb.
  set (pb := withRoot pa _) in *. assert (Lb : lineStart pb = lineStart p /\ line pb = line p) by (split; [exact La|exact Lna]). clearbody pb. destruct Lb as [Lb Lnb].
  assert (Hgo : forall q, Cw L q -> lineStart q = lineStart p -> line q = line p -> scB L (root (goF q)) = true).
  { intros q [_ Qq] E1 E2. apply scB_goF; [exact Qq|rewrite E1, E2; exact Hend|rewrite E2; exact Hsuf]. }
  destruct (acceptsLines _).
  - match goal with |- context [if ?c then consumeIndent ?x ?n else pb] => set (cnd := c); set (pi := x) end.
    set (pc := if cnd then consumeIndent pi (tabRem pi) else pb).
    assert (Hc : Cw L pc /\ lineStart pc = lineStart p /\ line pc = line p).
    { unfold pc. destruct cnd; [|split; [apply Cq_Cw, Cb|split; assumption]].
      pose proof (env_consumeIndent pi (tabRem pi)) as Ee. apply env_fields in Ee. destruct Ee as (_ & E1 & E2).
      split; [eapply Cw_same; [apply same_consumeIndent|apply Cw_add_indent, Cq_Cw, Cb]|]. split; [rewrite E1; exact Lb|rewrite E2; exact Lnb]. }
    destruct Hc as (Cc & Lc & Lnc). clearbody pc. fold (goF pc). apply Hgo; assumption.
  - destruct (negb (isRestBlank p)); [|apply qB_scB, (QP_qB L _ (proj2 Cb))].
    fold (goF (consumeIndent (openBlock pb ParagraphKind) (indent (openBlock pb ParagraphKind)))). apply Hgo.
    + eapply Cw_same; [apply same_consumeIndent|]. apply Cq_Cw. destruct Cb as [A B]. split; [apply ccP_openBlock; [exact A|left; discriminate]|apply QP_openBlock, B].
    + pose proof (env_consumeIndent (openBlock pb ParagraphKind) (indent (openBlock pb ParagraphKind))) as Ee. rewrite env_openBlock in Ee. apply env_fields in Ee. destruct Ee as (_ & E1 & _). rewrite E1. exact Lb.
    + pose proof (env_consumeIndent (openBlock pb ParagraphKind) (indent (openBlock pb ParagraphKind))) as Ee. rewrite env_openBlock in Ee. apply env_fields in Ee. destruct Ee as (_ & _ & E2). rewrite E2. exact Lnb.
Qed.

Theorem sc_processLine st K ls src L SS : EV src SS ls -> len src = L -> 0 <= ls -> ls + len (from_ src ls) = L -> lastOK (from_ src ls) ->
  ccF K = true -> forallb (qB2 L SS src) K = true -> forallb (scB L) (fst (fst (processLine st K ls src))) = true.
Proof.
  intros N EL Hls Hend Lok Hc Hq. unfold processLine. cbv zeta.
  pose proof (Sp_reset L SS st K ls src N Hls Hc Hq) as S0. set (p0 := resetLP st K ls src) in *.
  assert (S1 : Cq L (snd (descendOpenBlocks p0)) /\ lineStart (snd (descendOpenBlocks p0)) = ls /\ line (snd (descendOpenBlocks p0)) = from_ src ls).
  { destruct S0 as (_ & B & C). unfold descendOpenBlocks. split; [split; [apply ccP_descend_loop; [exact B|eexists; reflexivity]|apply QP_descend_loop, C]|].
    pose proof (env_descend_loop (bheight (root p0)) p0 O) as Ee. apply env_fields in Ee. destruct Ee as (_ & E1 & E2). split; [rewrite E1|rewrite E2]; reflexivity. }
  destruct (descendOpenBlocks p0) as [am p1]. cbn [snd] in S1. destruct S1 as (C1 & L1 & Ln1).
  assert (Fin : forall a, scB L (root a) = true -> forallb (scB L) (bkids (root a)) = true) by (intros a Ha; apply (allB_parts (scP L)) in Ha; tauto).
  destruct (negb (state p1 =? stDescendTerminated)); [|cbn [fst]; apply Fin, qB_scB, (QP_qB L _ (proj2 C1))].
  assert (S2 : Cq L (snd (openNewBlocks p1 am)) /\ lineStart (snd (openNewBlocks p1 am)) = ls /\ line (snd (openNewBlocks p1 am)) = from_ src ls).
  { split; [split; [apply ccP_openNewBlocks, C1|apply QP_openNewBlocks, C1]|].
    pose proof (env_openNewBlocks p1 am) as Ee. apply env_fields in Ee. destruct Ee as (_ & E1 & E2). split; [rewrite E1; exact L1|rewrite E2; exact Ln1]. }
  destruct (openNewBlocks p1 am) as [ht p2]. cbn [snd fst] in *. destruct S2 as (C2 & L2 & Ln2).
  destruct ht; cbn [fst]; [|apply Fin, qB_scB, (QP_qB L _ (proj2 C2))].
  apply Fin, scB_addLineText; [exact C2|rewrite L2, Ln2; exact Hend|rewrite Ln2; apply lastOK_noSuffix, Lok].
Qed.
Print Assumptions sc_processLine.
End GenHypSc.
