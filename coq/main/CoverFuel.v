From Coq Require Import List ZArith Lia Bool.
Import ListNotations.
Require Import Base Tables Utf8 Tree Rdr Link Collect Html Recog Inl3a Inl3b Inl3c Inl3d Inl3e Props Leaf3a Leaf3e RdrBound.
Require Import SpanForest SpanIds SpanStack SpanEmph SpanSmall SpanTok SpanRdr SpanCollect SpanScan.
Open Scope Z_scope.

(* ================================================================================================
   T41, part 2: a measure for the multi-line reader.  Every successful step of the reader lowers
   mu = (bytes left) + (virtual columns of the Indent entries left), so a scanner whose fuel exceeds
   mu never stops for want of fuel.  The fuel of the inline scanners is 2 * len src + 10; it covers
   mu when the Indent entries of the block stand for at most len src + 8 columns altogether (colsOK).
   ================================================================================================ *)

Definition colsOf (u : inline) : Z := if ikind u =? IndentKind then Z.max 0 (iindent u) else 0.
Fixpoint cols (l : list inline) : Z := match l with [] => 0 | u :: r => colsOf u + cols r end.
Definition colsOK (src : bytes) (U : list inline) : bool := cols U <=? len src + 8.

Lemma colsOf_nonneg u : 0 <= colsOf u. Proof. unfold colsOf. destruct (_ =? _); lia. Qed.
Lemma cols_nonneg l : 0 <= cols l.
Proof. induction l as [|u l IH]; cbn [cols]; [lia|]. pose proof (colsOf_nonneg u). lia. Qed.

Section Fuel.
  Variables (src : bytes) (U : list inline) (lo hi : Z).
  Hypothesis HEC : EC src U lo hi.
  Notation nU := (nthU U).
  Notation P := (SpanRdr.P src U).
  Notation AliveAt := (SpanRdr.AliveAt src U).
  Notation Off := (SpanRdr.Off src U).
  Notation RS := (SpanRdr.RS src U).

  Definition term (r : reader) (k : Z) : Z := if ikind (nU k) =? IndentKind then Z.max 0 (iindent (nU k) - r_vpos r) else 0.
  Definition mu (r : reader) (k : Z) : Z := (P - r_pos r) + cols (from_ U (k + 1)) + term r k.

  Lemma term_nonneg r k : 0 <= term r k. Proof. unfold term. destruct (_ =? _); lia. Qed.
  Lemma term_le r k : 0 <= r_vpos r -> term r k <= colsOf (nU k).
  Proof. intros H. unfold term, colsOf. destruct (_ =? _); lia. Qed.
  Lemma cols_from j : 0 <= j < len U -> cols (from_ U j) = colsOf (nU j) + cols (from_ U (j + 1)).
  Proof. intros H. rewrite (from_cons src U j H). reflexivity. Qed.
  Lemma cols_from_le : forall n j, n = Z.to_nat j -> 0 <= j -> cols (from_ U j) <= cols U.
  Proof.
    induction n as [|n IH]; intros j En Hj.
    - replace j with 0 by lia. unfold from_. cbn [Z.to_nat skipn]. lia.
    - destruct (Z.lt_ge_cases (j - 1) (len U)) as [L|L].
      + pose proof (IH (j - 1) ltac:(lia) ltac:(lia)) as H. rewrite (cols_from (j - 1)) in H by lia. replace (j - 1 + 1) with j in H by lia.
        pose proof (colsOf_nonneg (nU (j - 1))). lia.
      + rewrite (from_nil src U j) by lia. cbn [cols]. apply cols_nonneg.
  Qed.

  Lemma mu_nonneg r k : AliveAt r k -> 0 <= mu r k.
  Proof.
    intros A. pose proof (alive_pos src U lo hi HEC r k A) as (_ & _ & A3 & _). unfold mu.
    pose proof (cols_nonneg (from_ U (k + 1))). pose proof (term_nonneg r k). lia.
  Qed.
  Lemma mu_bound r k : AliveAt r k -> 0 <= r_vpos r -> mu r k <= len src + cols U.
  Proof.
    intros A Hv. pose proof (alive_pos src U lo hi HEC r k A) as (_ & A2 & A3 & _ & A5). unfold mu.
    pose proof (P_hi src U lo hi HEC (U_ne U k A2)) as Hp. pose proof (ec_hi _ _ _ _ HEC) as Hh.
    pose proof (cols_from_le (Z.to_nat k) k eq_refl ltac:(lia)) as Hc. rewrite (cols_from k A2) in Hc.
    pose proof (term_le r k Hv). lia.
  Qed.

  Lemma alive_unique r k k' : AliveAt r k -> AliveAt r k' -> k = k'.
  Proof.
    intros A A'. pose proof (alive_pos src U lo hi HEC r k A) as (A1 & A2 & _). pose proof (alive_pos src U lo hi HEC r k' A') as (B1 & B2 & _).
    apply (entry_unique src U lo hi HEC k k' (r_pos r)); assumption.
  Qed.
  Lemma off_not_alive r k : Off r -> AliveAt r k -> False.
  Proof. intros (_ & Ep & _) A. pose proof (alive_pos src U lo hi HEC r k A) as (_ & _ & A3 & _). lia. Qed.

  Lemma jump_mu r r' k : AliveAt r k -> AliveAt r' (k + 1) -> r_pos r + 1 <= r_pos r' -> 0 <= r_vpos r' -> mu r' (k + 1) + 1 <= mu r k.
  Proof.
    intros A A' Hp Hv. pose proof (alive_pos src U lo hi HEC r' (k + 1) A') as (_ & A2 & _). unfold mu.
    rewrite (cols_from (k + 1) A2). pose proof (term_le r' (k + 1) Hv). pose proof (term_nonneg r k). lia.
  Qed.

  Lemma mu_next r k : AliveAt r k -> 0 <= r_vpos r -> fst (next r) = true ->
    Off (snd (next r)) \/ exists k', AliveAt (snd (next r)) k' /\ mu (snd (next r)) k' + 1 <= mu r k.
  Proof.
    intros A Hv Hok. pose proof (alive_pos src U lo hi HEC r k A) as (A1 & A2 & _). pose proof (vpos_next r Hv) as Hv'.
    destruct (Z.eqb_spec (ikind (nU k)) IndentKind) as [Ei|Ni].
    - destruct (Z.lt_ge_cases (r_vpos r) (iindent (nU k))) as [L|L].
      + destruct (next_indent src U lo hi HEC r k A Ei L) as (_ & Y & Zp & _ & Zw). right. exists k. split; [exact Y|].
        unfold mu, term. rewrite Zp, Zw. apply Z.eqb_eq in Ei. rewrite Ei. lia.
      + destruct (next_leave src U lo hi HEC r k A Ei L) as (_ & Ep & [(_ & Hk & [Y|Y])|(X & _)]); [|left; exact Y|congruence].
        right. exists (k + 1). split; [exact Y|]. apply (jump_mu r _ k A Y); [lia|exact Hv'].
    - destruct (next_alive src U lo hi HEC r k A) as (_ & _ & [(_ & Y & [[Z _]|[_ Z]])|[(_ & Hk & Ep & _ & [Y|Y])|(X & _)]]); try contradiction; try congruence.
      + right. exists k. split; [exact Y|]. unfold mu, term. apply Z.eqb_neq in Ni. rewrite Ni, Z. lia.
      + right. exists (k + 1). split; [exact Y|]. apply (jump_mu r _ k A Y); [|exact Hv'].
        pose proof (eo src U lo hi HEC k (k + 1) ltac:(lia) ltac:(lia) Hk). lia.
      + left. exact Y.
  Qed.

  (* fuel that suffices for the reader *)
  Definition FB (fuel : nat) (r : reader) : Prop := 0 <= r_vpos r /\ forall k, AliveAt r k -> mu r k < Z.of_nat fuel.

  Lemma FB_next_gen s r f f' : RS s r -> FB f r -> (Z.of_nat f <= Z.of_nat f' + 1) -> fst (next r) = true -> FB f' (snd (next r)).
  Proof.
    intros HR (Hv & Hm) Hf Hok. split; [apply vpos_next; exact Hv|]. intros k' A'.
    destruct (RS_next src U lo hi HEC s r HR) as (_ & _ & H3 & _). destruct (H3 Hok) as (_ & _ & (k & A) & _).
    destruct (mu_next r k A Hv Hok) as [Y|(k2 & A2 & M)]; [destruct (off_not_alive _ _ Y A')|].
    pose proof (alive_unique _ _ _ A' A2) as ->. specialize (Hm k A). lia.
  Qed.
  Lemma FB_next s r f : RS s r -> FB (S f) r -> fst (next r) = true -> FB f (snd (next r)).
  Proof. intros HR H Hok. apply (FB_next_gen s r (S f) f HR H); [lia|exact Hok]. Qed.
  Lemma FB_next_same s r f : RS s r -> FB f r -> fst (next r) = true -> FB f (snd (next r)).
  Proof. intros HR H Hok. apply (FB_next_gen s r f f HR H); [lia|exact Hok]. Qed.
  Lemma FB_current s r f : RS s r -> FB f r -> FB f (snd (current r)).
  Proof.
    intros ([(k & A)|[A _]] & _) (Hv & Hm); (split; [rewrite vpos_current; exact Hv|]); intros k' A'.
    - rewrite (current_alive src U lo hi HEC r k A) in A'. cbn [snd] in A'.
      pose proof (alive_unique _ _ _ A' (AliveAt_foc src U r k A)) as ->.
      rewrite (current_alive src U lo hi HEC r k A). cbn [snd]. exact (Hm k A).
    - destruct (current_off src U r A) as (_ & Y & _). destruct (off_not_alive _ _ Y A').
  Qed.
  Lemma FB_zero_off s r : RS s r -> FB O r -> Off r.
  Proof. intros ([(k & A)|[A _]] & _) (_ & Hm); [|exact A]. specialize (Hm k A). pose proof (mu_nonneg r k A). lia. Qed.

  Lemma next_fail_off s r : RS s r -> fst (next r) = false -> Off (snd (next r)).
  Proof.
    intros ([(k & A)|[A _]] & _) Hf.
    - destruct (next_alive src U lo hi HEC r k A) as (_ & _ & [(X & _)|[(X & _)|(_ & _ & Y & _)]]); try congruence.
    - destruct (next_off src U r A) as (_ & Y & _). exact Y.
  Qed.

  Lemma FB_init st r : colsOK src U = true -> isrc st = src -> 0 <= r_vpos r -> FB (rfuelOf st) r.
  Proof.
    intros Hc Es Hv. split; [exact Hv|]. intros k A. pose proof (mu_bound r k A Hv) as H.
    unfold colsOK in Hc. apply Z.leb_le in Hc. unfold rfuelOf. rewrite Es. unfold len in *. lia.
  Qed.
End Fuel.
