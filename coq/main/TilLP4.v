From Coq Require Import List ZArith Lia Bool.
Import ListNotations.
Require Import Base Tree Rdr Link Collect Html Recog LP Rules Starts Driver Render L2Kind L2CC GramDefs GramTree GramLP GramLP2 GramLP3
  Rec17 Rec18 BSOrph BSClose BSLine1 BSLine2 BSLine3 BSLine4 BSLine5 BSLine7 TilBase TilDefs TilLP1 TilLP2 TilLP3.
Open Scope Z_scope.

(* ================= descendOpenBlocks and openBlock ================= *)

Lemma ckind_collectInline p kind n K : ckind p K -> ckind (collectInline p kind n) K.
Proof.
  intros Hc. unfold collectInline. destruct (_ =? stDescendTerminated); [exact Hc|]. cbv zeta.
  apply ckind_updCont; [intros b; apply bkind_set_bik|]. eapply ckind_same; [apply same_advance|].
  destruct (0 <? _); [|eapply ckind_same; [apply same_opened|exact Hc]].
  apply ckind_updCont; [intros b; apply bkind_set_bik|]. eapply ckind_same; [apply same_advance|]. eapply ckind_same; [apply same_opened|exact Hc].
Qed.

(* the container after a terminating match is a fenced code block or an HTML block *)
Lemma matchRule_term_kind q : state q = stDescending -> state (snd (matchRule q)) = stDescendTerminated ->
  ckind (snd (matchRule q)) FencedCodeBlockKind \/ ckind (snd (matchRule q)) HTMLBlockKind.
Proof.
  intros Es. unfold matchRule. cbv zeta.
  assert (Hno : forall p', sstep q p' -> state p' = stDescendTerminated -> False).
  { intros p' Hs E. rewrite (state_desc_sstep q p' Hs Es) in E. discriminate. }
  assert (Hno1 : forall a, sstep q (consumeIndent q a)) by (intros; apply sstep_consumeIndent).
  destruct (_ || _); [intros E; exfalso; apply (Hno q (sstep_refl q) E)|].
  destruct (_ =? ListItemKind).
  { unfold matchListItem. destruct (isRestBlank q); [destruct (negb _)|destruct (_ <=? _)]; cbn [snd]; intros E; exfalso;
      first [apply (Hno q (sstep_refl q) E)|apply (Hno _ (Hno1 _) E)]. }
  destruct (_ =? BlockQuoteKind).
  { unfold matchBlockQuote. cbv zeta. destruct (_ <=? _); [intros E; exfalso; apply (Hno q (sstep_refl q) E)|].
    destruct (negb _); [intros E; exfalso; apply (Hno q (sstep_refl q) E)|]. cbn [snd]. unfold eatQuoteMarker. cbv zeta.
    assert (S1 : sstep q (advance (consumeIndent q (indent q)) 1)) by (eapply sstep_trans; [apply sstep_consumeIndent|apply sstep_advance]).
    destruct (0 <? _); intros E; exfalso; [|apply (Hno _ S1 E)].
    apply (Hno _ (sstep_trans _ _ _ S1 (sstep_consumeIndent _ _)) E). }
  destruct (Z.eqb_spec (containerKind q) FencedCodeBlockKind) as [EF|_].
  { unfold matchFenced. cbv zeta. destruct (if _ <? _ then _ else false); cbn [snd]; [|intros E; exfalso; apply (Hno _ (Hno1 _) E)].
    intros _. left. eapply ckind_same; [apply same_consumeLine|]. rewrite <- EF. apply ckind_self. }
  destruct (_ =? IndentedCodeBlockKind).
  { unfold matchIndented. cbv zeta. destruct (_ <? _); [destruct (negb _)|]; cbn [snd]; intros E; exfalso;
      first [apply (Hno q (sstep_refl q) E)|apply (Hno _ (Hno1 _) E)]. }
  destruct (Z.eqb_spec (containerKind q) HTMLBlockKind) as [EH|_]; [|intros E; exfalso; apply (Hno q (sstep_refl q) E)].
  unfold matchHTML. destruct (htmlEnd _ _); [|intros E; exfalso; apply (Hno q (sstep_refl q) E)].
  destruct (isRestBlank _); [intros E; exfalso; apply (Hno q (sstep_refl q) E)|]. cbn [snd].
  intros _. right. eapply ckind_same; [apply same_consumeLine|]. apply ckind_collectInline. rewrite <- EH. apply ckind_self.
Qed.

Lemma T0_fields p p' : root p' = root p -> source p' = source p -> lineStart p' = lineStart p -> T0 p -> T0 p'.
Proof. apply T0_same. Qed.

Lemma TI_descend_loop : forall fuel p d, TI p -> cdepth p = d -> TI (snd (descend_loop fuel p d)).
Proof.
  induction fuel as [|f IH]; intros p d H Hd.
  { cbn [descend_loop snd]. apply (TI_same_cd p); [reflexivity|cbn; symmetry; exact Hd|apply fr_fields; reflexivity|reflexivity|exact H]. }
  assert (Hback : TI (withCont p (Some d)))
    by (apply (TI_same_cd p); [reflexivity|cbn; symmetry; exact Hd|apply fr_fields; reflexivity|reflexivity|exact H]).
  cbn [descend_loop]. cbv zeta.
  destruct (getAt (S d) (root p)) as [c|] eqn:Ec; [|exact Hback].
  destruct (negb (isOpen c)) eqn:Eo; [exact Hback|]. apply negb_false_iff in Eo.
  destruct (negb (hasMatch _)); [exact Hback|].
  set (q := withState (withCont p (Some (S d))) stDescending).
  assert (Hq : TI q).
  { destruct H as (A & B & C).
    assert (Aq : GI q).
    { apply (GI_same (withCont p (Some (S d)))); [split; reflexivity|].
      apply GI_withCont; [exact A|]. destruct A as (_ & _ & C0). rewrite Hd in C0. eapply so_extend; eassumption. }
    split; [exact Aq|]. split; [eapply EV_fr; [|exact B]; apply fr_fields; reflexivity|].
    destruct d as [|d'].
    - (* from the root into the last root child *)
      assert (Ht : top p = Some c) by (rewrite <- top_getAt1; exact Ec).
      destruct C as (CA & CB1 & CB2 & CD & CE & CF).
      destruct (T0_fields p q eq_refl eq_refl eq_refl (conj CA (conj CD (conj CE CF)))) as (A' & D' & E' & F').
      split; [exact A'|]. split; [|split; [|split; [exact D'|split; [exact E'|exact F']]]].
      + intros _ _. change (B1 p). apply CB1; [left; exact Hd|]. intros c0 Hc0. rewrite Ht in Hc0. inversion Hc0; subst c0. exact Eo.
      + intros E0. discriminate E0.
    - apply TT_loud; [apply (T0_fields p); [reflexivity|reflexivity|reflexivity|apply TT_T0, C]|].
      apply loud_deep; [apply Aq| |cbn; lia]. eapply (getAt2_of_deep q (S (S d')) c); [lia|exact Ec]. }
  assert (Esq : state q = stDescending) by reflexivity.
  pose proof (TI_matchRule q Hq) as H2. pose proof (cdepth_matchRule q) as Ecd.
  pose proof (matchRule_false q Esq) as Hfalse.
  assert (Hliq : 0 <= li q <= len (line q)) by (destruct Hq as (_ & (_ & _ & X & _) & _); exact X).
  pose proof (matchRule_term_info q Esq Hliq) as Hterm. pose proof (matchRule_term_kind q Esq) as Hkind.
  destruct (matchRule q) as [ok p2]. cbn [fst snd] in *. change (cdepth q) with (S d) in Ecd.
  destruct (Z.eqb_spec (state p2) stDescendTerminated) as [Et|Nt].
  - (* the line ended the block *)
    cbn [snd]. destruct (Hterm Et) as [_ Hli]. destruct H2 as (A2 & B2 & C2).
    destruct d as [|d'].
    + change (lineStart p2 + li p2) with (cur p2). apply closeUp0_nonpara; [exact A2|exact B2|apply TT_T0, C2|exact Ecd|exact Hli|].
      intros c0 Hc0. pose proof (top_cont1 p2 c0 Ecd Hc0) as Hg.
      destruct (Hkind Et) as [Hk|Hk]; rewrite (Hk c0 Hg); split; discriminate.
    + apply closeUp_deep; [exact A2|exact B2|apply TT_T0, C2|exact Ecd].
  - destruct ok; cbn [negb].
    + apply IH; [exact H2|exact Ecd].
    + cbn [snd]. rewrite (Hfalse eq_refl Nt).
      apply (TI_same_cd p); [reflexivity|cbn; symmetry; exact Hd|apply fr_fields; reflexivity|reflexivity|exact H].
Qed.

(* ---- openBlock ---- *)
Section WithOcp.
  Hypothesis HOP : OcpPara.

  Lemma TI0_opened p : TI0 p -> TI0 (if state p =? stOpening then withState p stOpenMatched else p).
  Proof.
    intros (A & B & C). split; [apply GI_opened, A|]. split; [eapply EV_fr; [apply fr_opened|exact B]|].
    destruct (_ =? _); [|exact C]. apply (T0_fields p); [reflexivity|reflexivity|reflexivity|exact C].
  Qed.
  Lemma TI0_obPre p K : TI0 p -> TI0 (obPre p K) /\
    (cdepth (obPre p K) = O -> forall x, top (obPre p K) = Some x -> isOpen x = false).
  Proof.
    intros H. unfold obPre. cbv zeta.
    set (p0 := if state p =? stOpening then withState p stOpenMatched else p).
    pose proof (TI0_opened p H) as H0. fold p0 in H0.
    pose proof (TI0_openBlock_up HOP (S (cdepth p0)) p0 K H0) as (A & B & C).
    set (p2 := openBlock_up (S (cdepth p0)) p0 K) in *.
    split.
    - split; [apply GI_closeHere, A|]. split; [eapply EV_fr; [apply fr_closeAt|exact B]|apply (T0_closeAt_ls HOP); assumption].
    - change (cdepth (closeLastChildAt p2 (cdepth p2) (lineStart p2))) with (cdepth p2). intros E0. rewrite E0.
      apply (top_closeAt0_ls HOP); assumption.
  Qed.

  (* attach an open block without entries below the container and make it the container *)
  Lemma TI_attach q y : TI0 q -> (cdepth q = O -> forall x, top q = Some x -> isOpen x = false) ->
    isOpen y = true -> bik y = [] -> bkind y <> SetextHeadingKind ->
    GI (withCont (updCont q (appendB y)) (Some (S (cdepth q)))) ->
    TI (withCont (updCont q (appendB y)) (Some (S (cdepth q)))).
  Proof.
    intros (A & B & C) Hcl Hoy Hiy NK HG.
    split; [exact HG|]. split; [eapply EV_fr; [|exact B]; apply fr_fields; reflexivity|].
    destruct (cdepth q) as [|k] eqn:Ed.
    - (* a new root child *)
      set (p' := withCont (updCont q (appendB y)) (Some 1%nat)).
      assert (Ek : bkids (root p') = bkids (root q) ++ [y]).
      { unfold p', updCont. cbn [root withCont withRoot setLP]. rewrite Ed. cbn [updAt]. unfold appendB. apply bkids_set_bkids. }
      assert (Et : top p' = Some y) by (unfold top; rewrite Ek; apply lastL_snoc).
      destruct C as (CA & CD & CE & CF).
      split; [|split; [|split; [|split; [|split]]]].
      + intros x Hx Hb. rewrite Ek in Hx. apply in_app_or in Hx. destruct Hx as [Hx|[<-|[]]]; [apply CA; assumption|].
        unfold isOpen in Hoy. apply Z.ltb_lt in Hoy. lia.
      + intros [E0|(_ & c & Hc & _ & Hi)] _; [discriminate E0|]. rewrite Et in Hc. inversion Hc; subst c. exfalso. apply Hi. exact Hiy.
      + intros E0. discriminate E0.
      + intros c Hc _ _. rewrite Et in Hc. inversion Hc; subst c. exists (lineStart q). rewrite Hiy. split; [exact I|]. split; [reflexivity|].
        apply blankR_empty. change (lineStart p') with (lineStart q). lia.
      + intros c Hc _. rewrite Et in Hc. inversion Hc; subst c. exact NK.
      + intros c Hc. rewrite Ek, removelast_last in Hc.
        destruct (lastL (bkids (root q))) as [z|] eqn:El.
        * rewrite (lastL_split _ _ El) in Hc. apply in_app_or in Hc. destruct Hc as [Hc|[<-|[]]]; [apply CF, Hc|].
          apply (Hcl eq_refl z). exact El.
        * apply lastL_none in El. rewrite El in Hc. destruct Hc.
    - set (p' := withCont (updCont q (appendB y)) (Some (S (S k)))).
      apply TT_loud.
      + apply (T0_ksim q); [reflexivity|reflexivity| |exact C]. unfold p', updCont. cbn [root withCont withRoot setLP]. rewrite Ed.
        apply ksim_updAt. intros _ x _. split; [|split]; destruct x; reflexivity.
      + apply loud_deep; [apply HG| |cbn; lia].
        destruct A as ((_ & _ & (x & Hx)) & _). rewrite Ed in Hx.
        assert (Hn : getAt (S (S k)) (root p') = Some y).
        { unfold p', updCont. cbn [root withCont withRoot setLP]. rewrite Ed. apply (getAt_S_append_some y (S k) (root q) x Hx). }
        eapply getAt_le; [|exact Hn]. lia.
  Qed.

  Lemma TI_openBlock p K : TI0 p -> st_open p -> GI (openBlock p K) -> K <> SetextHeadingKind -> TI (openBlock p K).
  Proof.
    intros H Hs HG NK. rewrite (openBlock_eq p K Hs) in *.
    destruct (TI0_obPre p K H) as [Hq Hcl]. apply TI_attach; try assumption; reflexivity.
  Qed.

  (* openBlock followed by the initialisation of the new block *)
  Lemma TI_openBlock_init p K g : TI0 p -> st_open p -> GI (updCont (openBlock p K) g) -> K <> SetextHeadingKind ->
    (forall pos, isOpen (g (newBlock K pos)) = true /\ bik (g (newBlock K pos)) = [] /\ bkind (g (newBlock K pos)) = K) ->
    TI (updCont (openBlock p K) g).
  Proof.
    intros H Hs HG NK Hg. destruct (TI0_obPre p K H) as [Hq Hcl]. destruct (Hg (obPos p K)) as (G1 & G2 & G3).
    set (y := g (newBlock K (obPos p K))) in *.
    assert (E1 : root (updCont (openBlock p K) g) = root (withCont (updCont (obPre p K) (appendB y)) (Some (S (cdepth (obPre p K)))))).
    { rewrite root_updCont, (cdepth_openBlock p K Hs), (root_openBlock p K Hs). rewrite updAt_S_append. reflexivity. }
    assert (E2 : cdepth (updCont (openBlock p K) g) = S (cdepth (obPre p K))) by (rewrite cdepth_updCont, (cdepth_openBlock p K Hs); reflexivity).
    assert (HG' : GI (withCont (updCont (obPre p K) (appendB y)) (Some (S (cdepth (obPre p K)))))).
    { revert HG. apply GI_same_cd; [symmetry; exact E1|symmetry; exact E2]. }
    pose proof (TI_attach (obPre p K) y Hq Hcl G1 G2 ltac:(rewrite G3; exact NK) HG') as HT.
    revert HT. apply TI_same_cd; [exact E1|exact E2| |].
    - rewrite (openBlock_eq p K Hs). apply fr_fields; reflexivity.
    - rewrite (openBlock_eq p K Hs). reflexivity.
  Qed.
End WithOcp.
