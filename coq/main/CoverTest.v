From Coq Require Import List ZArith Lia Bool.
Import ListNotations.
Require Import Base Tables Utf8 Tree Rdr Link Collect Html Recog Inl3a Inl3b Inl3c Inl3d Inl3e Driver Props SpanBridge InlineSpans InlineSpansTest.
Require Import SpanHypDef CoverLeaves CoverBlocks CoverFuel CoverInline.
Open Scope Z_scope.

(* ================================================================================================
   T41: the statements of C03 at the inline level, evaluated on the implementation's own trees.
   ================================================================================================ *)

Definition covI (ks : list inline) (p : Z) : Z := cover (flat_map leavesI ks) p.
(* (1) no position of the source is in two leaves *)
Definition nodupI (src : bytes) (ks : list inline) : bool := forallb (fun p => covI ks p <=? 1) (range (len src + 1)).
(* (2) every textual byte of an Unparsed entry is in exactly one leaf *)
Definition coverI (src : bytes) (U ks : list inline) : bool :=
  forallb (fun u => if ikind u =? UnparsedKind
                    then forallb (fun p => if (istart u <=? p) && (p <? iend u) && textual (at_ src p) then covI ks p =? 1 else true) (range (len src))
                    else true) U.
(* per leaf block with inline entries: the hypotheses (entriesOK, colsOK) and the two conclusions *)
Definition runC (input : bytes) : list (bool * bool * bool * bool) :=
  let '(roots, code) := parseBlocks input in
  let refs := fold_left (fun a r => extractB (bheight (rb_blk r)) (rb_blk r) a) roots [] in
  flat_map (fun r => map (fun b => let ks := parseInlines (rb_src r) refs b in
                                   (entriesOK (rb_src r) b, colsOK (rb_src r) (bik b), nodupI (rb_src r) ks, coverI (rb_src r) (bik b) ks))
                         (leaves (bheight (rb_blk r)) (rb_blk r))) roots.
Definition allC (l : list (bool * bool * bool * bool)) : bool :=
  forallb (fun x => let '(a, b, c, d) := x in a && b && c && d) l.

Lemma tests_cover_ok : forallb (fun t => allC (runC t)) tests = true.
Proof. vm_compute. reflexivity. Qed.

(* the inputs of defect D23 (repaired) *)
Lemma d23_cover_ok : allC (runC d0) = true /\ allC (runC d1) = true.
Proof. vm_compute. split; reflexivity. Qed.

(* the root level: the hypotheses of C03_no_dup_partial hold on the test documents, and so does all of C03
   (Props.chk_C03_root: no byte in two leaves, every textual byte in exactly one) *)
Definition rootsHyp (input : bytes) : bool :=
  let roots := fst (parseBlocks input) in entriesOKroots roots && closedEntRoots roots.
Lemma tests_roots_hyp : forallb rootsHyp tests = true.
Proof. vm_compute. reflexivity. Qed.
Definition rootsNoDup (input : bytes) : bool :=
  forallb (fun r => forallb (fun p => cover (leavesB (rb_blk r)) p <=? 1) (range (len (rb_src r) + 1))) (fst (parseFull input)).
Lemma tests_roots_nodup : forallb rootsNoDup tests = true.
Proof. vm_compute. reflexivity. Qed.

Lemma tests_roots_C03 : forallb (fun t => forallb chk_C03_root (fst (parseFull t))) tests = true.
Proof. vm_compute. reflexivity. Qed.

(* the counterexample to coverage without colsOK (CoverInline.parseInlines_coverage_refuted): its hypotheses and conclusions *)
Example cx_values :
  let ks := parseInlines cx_src [] cx_block in
  (entriesOK cx_src cx_block, colsOK cx_src (bik cx_block), nodupI cx_src ks, coverI cx_src (bik cx_block) ks) = (true, false, true, false).
Proof. vm_compute. reflexivity. Qed.
