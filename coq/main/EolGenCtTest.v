From Coq Require Import List ZArith Lia Bool String Ascii.
Import ListNotations.
Require Import Base Tree LP Driver BSDef BSTest EolCRLFSimLeDefs EolCRLFSimStream EolCRLFSimCtTest.
Open Scope Z_scope.
Open Scope string_scope.
Definition chkL (input : bytes) : bool :=
  let '(rs, _) := parseBlocks input in forallb (fun r => geB 0 (rb_blk r)) rs.
Definition g1 := bs ("> [a]: /b" ++ nl ++ ">" ++ tab ++ "'tt" ++ nl ++ "> " ++ tab ++ "t' " ++ nl ++ "> rest" ++ nl ++ "lazy" ++ nl).
Definition g2 := bs ("- [a&amp;\]]:" ++ nl ++ tab ++ "</b c>" ++ nl ++ "  (ti" ++ nl ++ "  tle)" ++ nl ++ "  [x]: y" ++ nl ++ "  z" ++ nl ++ "  ===" ++ nl).
Definition g3 := bs ("[a]: /b" ++ cr ++ nl ++ "[c]: /d 'x" ++ cr ++ "y'" ++ cr ++ nl ++ "  " ++ tab ++ "[e]: <> " ++ nl ++ "p" ++ nl ++ "---" ++ nl).
Definition g4 := bs ("1. [a]: b" ++ nl ++ "   [c]: d 'e'" ++ nl ++ "   f" ++ nl ++ "2. [g]:" ++ nl ++ nl ++ "   h" ++ nl).
Definition gs := [g1;g2;g3;g4;t3;t4;t7;t9;t11;t12;t14;t15;t16;t17;t18].
Eval vm_compute in map rl gs.
Eval vm_compute in map chkU gs.
