From Coq Require Import List ZArith Lia Bool.
Import ListNotations.
Require Import Base Tree Rdr Link Collect Html Recog LP Rules Starts Driver Rec16 Rec17 Rec18 L2Kind L2CC EolInv EolCRBytes EolCRLFSimTree
  EolFinalDefs EolFinalSimBytes.
Open Scope Z_scope.

(* C14 (i), final newline: the tree map finB L commutes with the tree operations of the block layer.
   cc (L2CC) is used for one fact only: a ListMarker block has no block children. *)

Definition nslbL (ik : list inline) : bool := forallb (fun u => negb (ikind u =? SoftLineBreakKind)) ik.
Definition LM := ListMarkerKind.

Lemma cc_LM_leaf b : cc b = true -> bkind b = ListMarkerKind -> bkids b = [].
Proof.
  intros H E. apply cc_parts in H. destruct H as [H _]. rewrite E in H. apply forallb_false_nil.
  rewrite forallb_forall in *. intros c Hc. specialize (H c Hc). discriminate H.
Qed.

Section Fin.
  Variable L : Z.
  Hypothesis L0 : 0 <= L.
  Notation F := (finB L).

  Lemma bump_neg e : e < 0 -> bump L e = e.
  Proof. intros H. unfold bump. destruct (Z.eqb_spec e L); [lia|reflexivity]. Qed.
  Lemma bump_ne e : e <> L -> bump L e = e.
  Proof. intros H. unfold bump. destruct (Z.eqb_spec e L); [contradiction|reflexivity]. Qed.
  Lemma bump_L : bump L L = L + 1. Proof. unfold bump. rewrite Z.eqb_refl. reflexivity. Qed.
  Lemma bump_sign e : (bump L e <? 0) = (e <? 0).
  Proof. unfold bump. destruct (Z.eqb_spec e L) as [->|N]; [|reflexivity]. destruct (Z.ltb_spec (L + 1) 0), (Z.ltb_spec L 0); lia || reflexivity. Qed.

  Lemma F_eq b : F b = if bkind b =? ListMarkerKind then b else
    Blk (bkind b) (bstart b) (bump L (bend b)) (map F (bkids b)) (finI (bkind b) L (bik b)) (bindent b) (bn b) (bchar b) (bloose b) (blastBlank b).
  Proof. destruct b; reflexivity. Qed.
  Lemma F_LM b : bkind b = ListMarkerKind -> F b = b.
  Proof. intros E. rewrite F_eq, E. reflexivity. Qed.
  Lemma F_nonLM b : bkind b <> ListMarkerKind -> F b =
    Blk (bkind b) (bstart b) (bump L (bend b)) (map F (bkids b)) (finI (bkind b) L (bik b)) (bindent b) (bn b) (bchar b) (bloose b) (blastBlank b).
  Proof. intros N. rewrite F_eq. replace (bkind b =? ListMarkerKind) with false by (symmetry; apply Z.eqb_neq; exact N). reflexivity. Qed.

  Ltac fld b := destruct b as [K s e bk ik a n c l lb]; cbn [finB]; destruct (K =? ListMarkerKind); reflexivity.
  Lemma bkind_F b : bkind (F b) = bkind b. Proof. fld b. Qed.
  Lemma bstart_F b : bstart (F b) = bstart b. Proof. fld b. Qed.
  Lemma bindent_F b : bindent (F b) = bindent b. Proof. fld b. Qed.
  Lemma bn_F b : bn (F b) = bn b. Proof. fld b. Qed.
  Lemma bchar_F b : bchar (F b) = bchar b. Proof. fld b. Qed.
  Lemma bloose_F b : bloose (F b) = bloose b. Proof. fld b. Qed.
  Lemma blastBlank_F b : blastBlank (F b) = blastBlank b. Proof. fld b. Qed.
  Lemma isOpen_F b : isOpen (F b) = isOpen b.
  Proof. destruct b as [K s e bk ik a n c l lb]; cbn [finB]; destruct (K =? ListMarkerKind); [reflexivity|]. unfold isOpen. cbn [bend]. apply bump_sign. Qed.
  Lemma bkids_F b : cc b = true -> bkids (F b) = map F (bkids b).
  Proof.
    intros H. destruct (Z.eq_dec (bkind b) ListMarkerKind) as [E|N].
    - rewrite (F_LM b E), (cc_LM_leaf b H E). reflexivity.
    - rewrite (F_nonLM b N). reflexivity.
  Qed.
  Lemma bik_F b : bik (F b) = if bkind b =? ListMarkerKind then bik b else finI (bkind b) L (bik b).
  Proof. destruct b as [K s e bk ik a n c l lb]; cbn [finB bkind bik]; destruct (K =? ListMarkerKind); reflexivity. Qed.

  Lemma lastBlock_F b : cc b = true -> lastBlock (F b) = option_map F (lastBlock b).
  Proof. intros H. unfold lastBlock. rewrite (bkids_F b H), map_rev'. destruct (rev (bkids b)); reflexivity. Qed.
  Lemma getAt_F : forall d r, cc r = true -> getAt d (F r) = option_map F (getAt d r).
  Proof.
    induction d as [|d IH]; intros r H; [reflexivity|]. cbn [getAt]. rewrite (lastBlock_F r H).
    destruct (lastBlock r) as [c|] eqn:El; [|reflexivity]. cbn [option_map]. apply IH. eapply cc_lastBlock; eassumption.
  Qed.
  Lemma bheight_F : forall b, bheight (F b) = bheight b.
  Proof.
    fix IH 1. intros [K s e bk ik a n c l lb]. cbn [finB]. destruct (K =? ListMarkerKind); [reflexivity|]. cbn [bheight]. f_equal.
    induction bk as [|x r IHr]; [reflexivity|]. cbn [map fold_right]. rewrite (IH x), IHr. reflexivity.
  Qed.
  Lemma tipDepth_F : forall f b, cc b = true -> tipDepth f (F b) = tipDepth f b.
  Proof.
    induction f as [|f IH]; intros b H; [reflexivity|]. cbn [tipDepth]. rewrite (lastBlock_F b H).
    destruct (lastBlock b) as [c|] eqn:El; [|reflexivity]. cbn [option_map]. rewrite isOpen_F.
    destruct (isOpen c); [|reflexivity]. rewrite IH; [reflexivity|eapply cc_lastBlock; eassumption].
  Qed.

  (* entries *)
  Lemma finI_len K ik : isCode K = false -> len (finI K L ik) = len ik.
  Proof.
    intros H. unfold finI. destruct (_ || _); [unfold len; rewrite map_length; reflexivity|].
    unfold isCode in H. rewrite H. reflexivity.
  Qed.
  Lemma childCount_F b : cc b = true -> isCode (bkind b) = false -> childCount (F b) = childCount b.
  Proof.
    intros H Hk. unfold childCount. rewrite (bkids_F b H), bik_F.
    destruct (bkids b) as [|x r]; cbn [map]; [|unfold len; cbn [length]; rewrite map_length; reflexivity].
    destruct (bkind b =? ListMarkerKind); [reflexivity|apply finI_len, Hk].
  Qed.

  Lemma finCode_nil : finCode L [] = []. Proof. reflexivity. Qed.
  Lemma finCode_last ik u : ikind u <> SoftLineBreakKind -> finCode L (ik ++ [u]) = ik ++ [u].
  Proof.
    intros H. unfold finCode. rewrite rev_app_distr. cbn [rev app]. destruct u as [k2 s2 e2 i2 r2 ks2]. cbn [ikind] in H.
    destruct (rev ik) as [|[k1 s1 e1 i1 r1 ks1] pre]; [reflexivity|].
    replace (k2 =? SoftLineBreakKind) with false by (symmetry; apply Z.eqb_neq; exact H). reflexivity.
  Qed.
  Lemma finCode_nslb ik : nslbL ik = true -> finCode L ik = ik.
  Proof.
    intros H. destruct ik as [|x0 ik0]; [reflexivity|].
    destruct (@exists_last _ (x0 :: ik0) ltac:(discriminate)) as (pre & u & E). rewrite E in *.
    apply finCode_last. unfold nslbL in H. rewrite forallb_app in H. apply andb_true_iff in H. destruct H as [_ H]. cbn in H.
    rewrite andb_true_r in H. apply negb_true_iff, Z.eqb_neq in H. exact H.
  Qed.
  Lemma finCode_text_slb ik s1 i1 r1 ks1 i2 r2 ks2 :
    finCode L (ik ++ [Inl TextKind s1 L i1 r1 ks1; Inl SoftLineBreakKind L L i2 r2 ks2]) = ik ++ [Inl TextKind s1 (L + 1) i1 r1 ks1].
  Proof.
    unfold finCode. change (ik ++ [Inl TextKind s1 L i1 r1 ks1; Inl SoftLineBreakKind L L i2 r2 ks2])
      with (ik ++ [Inl TextKind s1 L i1 r1 ks1] ++ [Inl SoftLineBreakKind L L i2 r2 ks2]).
    rewrite app_assoc, !rev_app_distr. cbn [rev app]. rewrite !Z.eqb_refl. cbn [andb]. rewrite rev_involutive. reflexivity.
  Qed.
  Lemma nslbL_app a b : nslbL (a ++ b) = nslbL a && nslbL b. Proof. apply forallb_app. Qed.

  (* field updates *)
  Lemma F_set_bend b e : bkind b <> ListMarkerKind -> F (set_bend b e) = set_bend (F b) (bump L e).
  Proof. intros N. destruct b as [K s e0 bk ik a n c l lb]. cbn [bkind] in N. cbn [set_bend finB]. replace (K =? ListMarkerKind) with false by (symmetry; apply Z.eqb_neq; exact N). reflexivity. Qed.
  Ltac fld2 b := destruct b as [K s e bk ik a n c l lb]; cbn [finB set_bn set_bchar set_bindent set_bloose set_blast]; destruct (K =? ListMarkerKind); reflexivity.
  Lemma F_set_bn b v : F (set_bn b v) = set_bn (F b) v. Proof. fld2 b. Qed.
  Lemma F_set_bchar b v : F (set_bchar b v) = set_bchar (F b) v. Proof. fld2 b. Qed.
  Lemma F_set_bindent b v : F (set_bindent b v) = set_bindent (F b) v. Proof. fld2 b. Qed.
  Lemma F_set_bloose b v : F (set_bloose b v) = set_bloose (F b) v. Proof. fld2 b. Qed.
  Lemma F_set_blast b v : F (set_blast b v) = set_blast (F b) v. Proof. fld2 b. Qed.
  Lemma F_set_bkids b ks : bkind b <> ListMarkerKind -> F (set_bkids b ks) = set_bkids (F b) (map F ks).
  Proof. intros N. destruct b as [K s e0 bk ik a n c l lb]. cbn [bkind] in N. cbn [set_bkids finB]. replace (K =? ListMarkerKind) with false by (symmetry; apply Z.eqb_neq; exact N). reflexivity. Qed.
  Lemma F_set_bik b ik' : bkind b <> ListMarkerKind -> F (set_bik b ik') = set_bik (F b) (finI (bkind b) L ik').
  Proof. intros N. destruct b as [K s e0 bk ik a n c l lb]. cbn [bkind] in N. cbn [set_bik finB bkind]. replace (K =? ListMarkerKind) with false by (symmetry; apply Z.eqb_neq; exact N). reflexivity. Qed.
  Lemma F_newBlock k s : F (newBlock k s) = newBlock k s.
  Proof.
    unfold newBlock. cbn [finB]. destruct (k =? ListMarkerKind); [reflexivity|]. rewrite bump_neg by lia. cbn [map].
    unfold finI. destruct (_ || _); [reflexivity|]. destruct (_ || _); reflexivity.
  Qed.
  Lemma F_set_lastBlocks b l : bkind b <> ListMarkerKind -> F (set_lastBlocks b l) = set_lastBlocks (F b) (map F l).
  Proof.
    intros N. destruct b as [K s e0 bk ik a n c l0 lb]. cbn [bkind] in N. unfold set_lastBlocks. cbn [set_bkids bkids finB].
    replace (K =? ListMarkerKind) with false by (symmetry; apply Z.eqb_neq; exact N). cbn [set_bkids bkids].
    rewrite map_app, map_removelast. reflexivity.
  Qed.
  Lemma lastBlock_nonLM b c : cc b = true -> lastBlock b = Some c -> bkind b <> ListMarkerKind.
  Proof. intros H El E. pose proof (cc_LM_leaf b H E) as Hk. unfold lastBlock in El. rewrite Hk in El. discriminate. Qed.

  Lemma updAt_F_at f f' : forall d r, cc r = true ->
    (forall x, getAt d r = Some x -> F (f x) = f' (F x)) -> F (updAt d f r) = updAt d f' (F r).
  Proof.
    induction d as [|d IH]; intros r H Hf; [apply Hf; reflexivity|]. cbn [updAt]. rewrite (lastBlock_F r H).
    destruct (lastBlock r) as [c|] eqn:El; cbn [option_map]; [|reflexivity].
    rewrite (F_set_lastBlocks r _ (lastBlock_nonLM r c H El)). cbn [map]. rewrite IH; [reflexivity|eapply cc_lastBlock; eassumption|].
    intros x Hx. apply Hf. cbn [getAt]. rewrite El. exact Hx.
  Qed.
  Lemma updAt_F f f' d r : cc r = true -> (forall x, F (f x) = f' (F x)) -> F (updAt d f r) = updAt d f' (F r).
  Proof. intros H Hf. apply updAt_F_at; [exact H|]. intros x _. apply Hf. Qed.

  (* ---- generic "every block satisfies P" ---- *)
  Section All.
    Variable P : block -> bool.
    Fixpoint allB (b : block) : bool :=
      match b with Blk K s e bk ik a n c l lb => P (Blk K s e bk ik a n c l lb) && forallb allB bk end.
    Lemma allB_eq b : allB b = P b && forallb allB (bkids b). Proof. destruct b; reflexivity. Qed.
    Lemma allB_parts b : allB b = true -> P b = true /\ forallb allB (bkids b) = true.
    Proof. rewrite allB_eq. apply andb_true_iff. Qed.
    Lemma allB_lastBlock b c : allB b = true -> lastBlock b = Some c -> allB c = true.
    Proof. intros H El. apply allB_parts in H. destruct H as [_ H]. rewrite forallb_forall in H. apply H. eapply lastBlock_In; exact El. Qed.
    Hypothesis P_kids : forall b ks, P (set_bkids b ks) = P b.
    Lemma allB_set_bkids b ks : allB b = true -> forallb allB ks = true -> allB (set_bkids b ks) = true.
    Proof.
      intros H Hk. apply allB_parts in H. destruct H as [H _]. rewrite allB_eq, P_kids, H.
      replace (bkids (set_bkids b ks)) with ks by (destruct b; reflexivity). exact Hk.
    Qed.
    Lemma allB_set_lastBlocks b l : allB b = true -> forallb allB l = true -> allB (set_lastBlocks b l) = true.
    Proof.
      intros H Hl. unfold set_lastBlocks. apply allB_set_bkids; [exact H|]. rewrite forallb_app, Hl, andb_true_r.
      apply allB_parts in H. destruct H as [_ H]. revert H. apply forallb_sub. intros x. apply removelast_In.
    Qed.
    Lemma allB_updAt_at f : forall d r, allB r = true -> (forall x, getAt d r = Some x -> allB x = true -> allB (f x) = true) -> allB (updAt d f r) = true.
    Proof.
      induction d as [|d IH]; intros r H Hf; [apply Hf; [reflexivity|exact H]|]. cbn [updAt].
      destruct (lastBlock r) as [c|] eqn:El; [|exact H]. apply allB_set_lastBlocks; [exact H|]. cbn [forallb]. rewrite andb_true_r.
      apply IH; [eapply allB_lastBlock; eassumption|]. intros x Hx. apply Hf. cbn [getAt]. rewrite El. exact Hx.
    Qed.
    Lemma allB_updAt f d r : allB r = true -> (forall x, allB x = true -> allB (f x) = true) -> allB (updAt d f r) = true.
    Proof. intros H Hf. apply allB_updAt_at; [exact H|]. intros x _. apply Hf. Qed.
    Variable E : Z -> Prop.
    Hypothesis P_end : forall b e, E e -> P b = true -> P (set_bend b e) = true.
    Hypothesis P_loose : forall b v, P (set_bloose b v) = P b.
    Hypothesis P_indented : forall src b, P b = true -> P (onCloseIndented src b) = true.
    Lemma allB_set_bend b e : E e -> allB b = true -> allB (set_bend b e) = true.
    Proof.
      intros He H. apply allB_parts in H. destruct H as [H1 H2]. rewrite allB_eq, (P_end b e He H1).
      replace (bkids (set_bend b e)) with (bkids b) by (destruct b; reflexivity). exact H2.
    Qed.
    Lemma allB_set_bloose b v : allB (set_bloose b v) = allB b.
    Proof. rewrite !allB_eq, P_loose. replace (bkids (set_bloose b v)) with (bkids b) by (destruct b; reflexivity). reflexivity. Qed.
    Lemma allB_onCloseList b : allB b = true -> allB (onCloseList b) = true.
    Proof.
      intros H. unfold onCloseList. cbv zeta. destruct (bloose b || _); [|exact H].
      apply allB_set_bkids; [rewrite allB_set_bloose; exact H|]. apply allB_parts in H. destruct H as [_ H].
      rewrite forallb_forall in *. intros x Hx. apply in_map_iff in Hx. destruct Hx as (y & <- & Hy). rewrite allB_set_bloose. apply H, Hy.
    Qed.
    Lemma allB_onCloseIndented src b : allB b = true -> allB (onCloseIndented src b) = true.
    Proof.
      intros H. apply allB_parts in H. destruct H as [H1 H2]. rewrite allB_eq, (P_indented src b H1).
      replace (bkids (onCloseIndented src b)) with (bkids b) by (unfold onCloseIndented; destruct b; reflexivity). exact H2.
    Qed.
    Lemma allB_closeBlock src e : ~ In 91 src -> E e -> forall fuel b, allB b = true -> forallb allB (closeBlock fuel src b e) = true.
    Proof.
      intros N He. induction fuel as [|f IH]; intros b H; [cbn; rewrite H; reflexivity|]. cbn [closeBlock].
      destruct (negb (isOpen b)); [cbn; rewrite H; reflexivity|]. cbv zeta.
      assert (Hcl : forall x, allB x = true -> allB (match lastBlock x with Some c => set_lastBlocks x (closeBlock f src c e) | None => x end) = true).
      { intros x Hx. destruct (lastBlock x) as [c|] eqn:El; [|exact Hx]. apply allB_set_lastBlocks; [exact Hx|]. apply IH. eapply allB_lastBlock; eassumption. }
      assert (H1 : allB (set_bend b e) = true) by (apply allB_set_bend; assumption).
      destruct (_ =? ListKind); [cbn [forallb]; rewrite Hcl; [reflexivity|apply allB_onCloseList, H1]|].
      destruct (_ =? IndentedCodeBlockKind); [cbn [forallb]; rewrite Hcl; [reflexivity|apply allB_onCloseIndented, H1]|].
      destruct (_ || _); [rewrite (ocp_nobracket src _ N); cbn [forallb]; rewrite H1; reflexivity|].
      cbn [forallb]. rewrite Hcl; [reflexivity|exact H1].
    Qed.
  End All.

  (* ---- the three tree predicates ---- *)
  (* every ListMarker block is closed *)
  Definition lmP (b : block) : bool := negb (bkind b =? ListMarkerKind) || (0 <=? bend b).
  (* in-line invariant: code blocks hold no SoftLineBreak entry; paragraph entries are fixed by bumpI *)
  Definition fixI (u : inline) : bool := (ikind u =? IndentKind) || negb (iend u =? L).
  Definition qP (b : block) : bool :=
    (negb (isCode (bkind b)) || nslbL (bik b)) && (negb (bkind b =? ParagraphKind) || forallb fixI (bik b)).
  (* indented code blocks at the end of the last line: no SoftLineBreak, or exactly the final Text + SoftLineBreak pair *)
  Definition tailShape (ik : list inline) : bool :=
    match rev ik with
    | Inl k2 s2 e2 _ _ _ :: Inl k1 _ e1 _ _ _ :: pre =>
      (k2 =? SoftLineBreakKind) && (s2 =? L) && (e2 =? L) && (k1 =? TextKind) && (e1 =? L) && nslbL (rev pre)
    | _ => false
    end.
  Definition scP (b : block) : bool := negb (bkind b =? IndentedCodeBlockKind) || nslbL (bik b) || tailShape (bik b).

  Lemma tailShape_spec ik : tailShape ik = true -> exists pre s1 i1 r1 ks1 i2 r2 ks2,
    ik = pre ++ [Inl TextKind s1 L i1 r1 ks1; Inl SoftLineBreakKind L L i2 r2 ks2] /\ nslbL pre = true.
  Proof.
    unfold tailShape. destruct (rev ik) as [|[k2 s2 e2 i2 r2 ks2] [|[k1 s1 e1 i1 r1 ks1] pre]] eqn:Er; try discriminate.
    intros H. repeat (apply andb_true_iff in H; destruct H as [H ?]).
    apply Z.eqb_eq in H. match goal with X : (s2 =? L) = true |- _ => apply Z.eqb_eq in X end.
    match goal with X : (e2 =? L) = true |- _ => apply Z.eqb_eq in X end.
    match goal with X : (k1 =? TextKind) = true |- _ => apply Z.eqb_eq in X end.
    match goal with X : (e1 =? L) = true |- _ => apply Z.eqb_eq in X end. subst.
    exists (rev pre), s1, i1, r1, ks1, i2, r2, ks2. split; [|assumption].
    rewrite <- (rev_involutive ik), Er. cbn [rev]. rewrite <- app_assoc. reflexivity.
  Qed.

  Lemma nslbL_sub ik ik' : (forall x, In x ik' -> In x ik) -> nslbL ik = true -> nslbL ik' = true.
  Proof. apply forallb_sub. Qed.
  Lemma onCloseIndented_sub src b x : In x (bik (onCloseIndented src b)) -> In x (bik b).
  Proof.
    unfold onCloseIndented. cbv zeta. match goal with |- In x (bik (set_bik b ?l)) -> _ => replace (bik (set_bik b l)) with l by (destruct b; reflexivity) end.
    intros Hx. apply in_rev in Hx. apply trimBlankTail_sub in Hx. apply in_rev in Hx.
    destruct (rev (bik b)) as [|lst [|prev r]] eqn:Er; try exact Hx.
    destruct (_ && _ && _ && _); [|exact Hx]. apply in_rev in Hx. apply in_rev. rewrite Er. right. exact Hx.
  Qed.
  Lemma bkind_onCloseIndented src b : bkind (onCloseIndented src b) = bkind b.
  Proof. unfold onCloseIndented. destruct b; reflexivity. Qed.
  Lemma bend_onCloseIndented' src b : bend (onCloseIndented src b) = bend b.
  Proof. unfold onCloseIndented. destruct b; reflexivity. Qed.

  Lemma lmP_kids b ks : lmP (set_bkids b ks) = lmP b. Proof. destruct b; reflexivity. Qed.
  Lemma lmP_end b e : 0 <= e -> lmP b = true -> lmP (set_bend b e) = true.
  Proof. intros He _. destruct b as [K s e0 bk ik a n c l lb]. unfold lmP. cbn [set_bend bkind bend]. replace (0 <=? e) with true by (symmetry; apply Z.leb_le; exact He). apply orb_true_r. Qed.
  Lemma lmP_loose b v : lmP (set_bloose b v) = lmP b. Proof. destruct b; reflexivity. Qed.
  Lemma lmP_indented src b : lmP b = true -> lmP (onCloseIndented src b) = true.
  Proof. unfold lmP. rewrite bkind_onCloseIndented, bend_onCloseIndented'. tauto. Qed.

  Lemma qP_kids b ks : qP (set_bkids b ks) = qP b. Proof. destruct b; reflexivity. Qed.
  Lemma qP_end b e : True -> qP b = true -> qP (set_bend b e) = true. Proof. intros _ H. destruct b; exact H. Qed.
  Lemma qP_loose b v : qP (set_bloose b v) = qP b. Proof. destruct b; reflexivity. Qed.
  Lemma qP_indented src b : qP b = true -> qP (onCloseIndented src b) = true.
  Proof.
    unfold qP. rewrite bkind_onCloseIndented. intros H. apply andb_true_iff in H. destruct H as [H1 H2]. apply andb_true_iff. split.
    - destruct (negb (isCode (bkind b))); [reflexivity|]. cbn [orb] in *. revert H1. apply nslbL_sub. apply onCloseIndented_sub.
    - destruct (negb (bkind b =? ParagraphKind)); [reflexivity|]. cbn [orb] in *. revert H2. apply forallb_sub. apply onCloseIndented_sub.
  Qed.

  Definition lmB := allB lmP.
  Definition qB := allB qP.
  Definition scB := allB scP.

  Lemma qP_scP b : qP b = true -> scP b = true.
  Proof.
    unfold qP, scP. intros H. apply andb_true_iff in H. destruct H as [H _].
    destruct (Z.eqb_spec (bkind b) IndentedCodeBlockKind) as [E|N]; [|reflexivity]. cbn [negb orb].
    unfold isCode in H. rewrite E in H. cbn in H. rewrite H. reflexivity.
  Qed.
  Lemma qB_scB : forall b, qB b = true -> scB b = true.
  Proof.
    unfold qB, scB. fix IH 1. intros [K s e bk ik a n c l lb] H. cbn [allB] in *. apply andb_true_iff in H. destruct H as [H1 H2].
    apply andb_true_iff. split; [apply qP_scP, H1|]. clear H1. induction bk as [|x r IHr]; [reflexivity|]. cbn [forallb] in *.
    apply andb_true_iff in H2. destruct H2 as [Hx Hr]. apply andb_true_iff. split; [apply IH, Hx|apply IHr, Hr].
  Qed.

  (* ---- onClose handlers ---- *)
  Lemma endsWithBlankLine_F : forall f b, cc b = true -> endsWithBlankLine f (F b) = endsWithBlankLine f b.
  Proof.
    induction f as [|f IH]; intros b H; [reflexivity|]. cbn [endsWithBlankLine]. rewrite blastBlank_F, bkind_F, (lastBlock_F b H).
    destruct (blastBlank b); [reflexivity|]. destruct (negb _); [reflexivity|].
    destruct (lastBlock b) as [c|] eqn:El; [|reflexivity]. cbn [option_map]. apply IH. eapply cc_lastBlock; eassumption.
  Qed.
  Lemma cc_kid b x : cc b = true -> In x (bkids b) -> cc x = true.
  Proof. intros H Hx. apply cc_parts in H. destruct H as [_ H]. unfold ccL in H. rewrite forallb_forall in H. apply H, Hx. Qed.
  Lemma existsb_combine_map {A} (g : nat * A -> bool) (g' : nat * A -> bool) (h : A -> A) : forall l k,
    (forall i x, In x l -> g' (i, h x) = g (i, x)) ->
    existsb g' (combine (seq k (length (map h l))) (map h l)) = existsb g (combine (seq k (length l)) l).
  Proof.
    induction l as [|x l IH]; intros k Hg; [reflexivity|]. cbn [map length seq combine existsb].
    rewrite (Hg k x (or_introl eq_refl)). rewrite IH; [reflexivity|]. intros i y Hy. apply Hg. right. exact Hy.
  Qed.
  Definition subFn (h : nat) (notLast : bool) (nsubs : nat) (jx : nat * block) : bool :=
    let '(j, sb) := jx in (notLast || Nat.ltb (S j) nsubs) && endsWithBlankLine h sb.
  Definition looseFn (h nitems : nat) (ix : nat * block) : bool :=
    let '(i, item) := ix in
    let notLastItem := Nat.ltb (S i) nitems in
    (notLastItem && endsWithBlankLine h item) ||
    (let subs := bkids item in let nsubs := length subs in existsb (subFn h notLastItem nsubs) (combine (seq 0 nsubs) subs)).
  Lemma onCloseList_eq b : onCloseList b =
    if bloose b || existsb (looseFn (bheight b) (length (bkids b))) (combine (seq 0 (length (bkids b))) (bkids b))
    then set_bkids (set_bloose b true) (map (fun it => set_bloose it true) (bkids b)) else b.
  Proof. reflexivity. Qed.
  Lemma onCloseList_F b : cc b = true -> bkind b <> ListMarkerKind -> onCloseList (F b) = F (onCloseList b).
  Proof.
    intros H N. rewrite !onCloseList_eq. rewrite bloose_F, bheight_F, (bkids_F b H).
    assert (E : existsb (looseFn (bheight b) (length (map F (bkids b)))) (combine (seq 0 (length (map F (bkids b)))) (map F (bkids b))) =
                existsb (looseFn (bheight b) (length (bkids b))) (combine (seq 0 (length (bkids b))) (bkids b))).
    { rewrite (map_length F (bkids b)) at 1. apply existsb_combine_map. intros i x Hx. unfold looseFn. cbv zeta. pose proof (cc_kid b x H Hx) as Hcx.
      rewrite (endsWithBlankLine_F _ x Hcx), (bkids_F x Hcx). f_equal.
      rewrite (map_length F (bkids x)) at 1. apply existsb_combine_map. intros j y Hy. unfold subFn.
      rewrite (endsWithBlankLine_F _ y (cc_kid x y Hcx Hy)). reflexivity. }
    rewrite E. destruct (bloose b || _); [|reflexivity].
    rewrite (F_set_bkids (set_bloose b true) _ ltac:(destruct b; exact N)), F_set_bloose. f_equal. rewrite !map_map. apply map_ext. intros x. symmetry. apply F_set_bloose.
  Qed.
End Fin.
