(* T58: the nodes that collectTextNodes produces over Unparsed spans have no children (source side only). *)
From Coq Require Import List ZArith Lia Bool.
Import ListNotations.
Require Import Base Tables Utf8 Tree Rdr Link Collect ShapesR.
Open Scope Z_scope.

Definition allUnp (l : list inline) : Prop := Forall (fun u => ikind u = UnparsedKind) l.
Definition nokid (c : inline) : Prop := ikids c = [].

Lemma allUnp_app_r pre l : allUnp (pre ++ l) -> allUnp l.
Proof. intros H. apply Forall_app in H. apply H. Qed.

Lemma curNode_unp r : allUnp (r_spans r) ->
  allUnp (r_spans (snd (curNode r))) /\ (okind (fst (curNode r)) =? IndentKind) = false /\
  (forall n, fst (curNode r) = Some n -> ikind n = UnparsedKind).
Proof.
  intros H. destruct (curNode_cases r) as [E|(pre & n & rest & E1 & E & E3)]; rewrite E; cbn [fst snd withSpans r_spans].
  - split; [constructor|]. split; [reflexivity|discriminate].
  - rewrite E1 in H. pose proof (allUnp_app_r _ _ H) as H2. split; [exact H2|].
    inversion H2 as [|? ? K ?]; subst. split; [cbn [okind]; rewrite K; reflexivity|]. intros m Em. inversion Em; subst. exact K.
Qed.

Lemma current_unp r : allUnp (r_spans r) -> allUnp (r_spans (snd (current r))).
Proof.
  intros H. destruct (current_snd r) as [E|E]; rewrite E; [exact H|]. apply curNode_unp, H.
Qed.

Lemma nextSpan_unp : forall sp i sp', allUnp sp -> nextSpan sp = Some (i, sp') -> allUnp sp'.
Proof.
  intros sp i sp' H E. destruct (nextSpan_split _ _ _ E) as (pre & rest & E1 & E2). subst. apply (allUnp_app_r _ _ H).
Qed.

Lemma next_unp r : allUnp (r_spans r) -> allUnp (r_spans (snd (next r))).
Proof.
  intros H. unfold next. pose proof (curNode_unp r H) as (A & _ & _). destruct (curNode r) as [n r1]. cbn [snd] in A.
  destruct n as [node|]; [|exact A].
  cbv zeta. destruct (_ && _); [exact A|]. destruct (_ && _); [exact A|].
  destruct (nextSpan (tl (r_spans r1))) as [[i sp]|] eqn:En; cbn [snd r_spans]; [|constructor].
  apply nextSpan_unp in En; [exact En|].
  destruct (r_spans r1); [constructor|]. inversion A; assumption.
Qed.

Lemma rem_unp r : allUnp (r_spans r) -> allUnp (r_spans (snd (remainingNodeBytes r))).
Proof.
  intros H. unfold remainingNodeBytes. pose proof (curNode_unp r H) as (A & _ & _). destruct (curNode r) as [n r1]. cbn [snd] in A.
  destruct n; exact A.
Qed.

Lemma nextN_unp : forall n r, allUnp (r_spans r) -> allUnp (r_spans (nextN n r)).
Proof. induction n as [|n IH]; intros r H; [exact H|]. cbn [nextN]. apply IH, next_unp, H. Qed.

Lemma nok_snoc acc c : Forall nokid acc -> nokid c -> Forall nokid (acc ++ [c]).
Proof. intros A C. apply Forall_app. split; [exact A|constructor; [exact C|constructor]]. Qed.
Lemma nok_if (b : bool) acc k s e : Forall nokid acc -> Forall nokid (if b then acc ++ [mkI k s e] else acc).
Proof. intros A. destruct b; [apply nok_snoc; [exact A|reflexivity]|exact A]. Qed.

Lemma collect_loop_nokid : forall f r e tk esc ps acc, allUnp (r_spans r) -> Forall nokid acc ->
  Forall nokid (fst (collect_loop f r e tk esc ps acc)).
Proof.
  induction f as [|f IH]; intros r e tk esc ps acc Hu Ha; [exact Ha|].
  cbn [collect_loop]. destruct (e <=? r_pos r); [exact Ha|].
  pose proof (curNode_unp r Hu) as (U0 & Ki & _). destruct (curNode r) as [cn r0]. cbn [fst snd] in U0, Ki. rewrite Ki.
  assert (Htail : forall r ps acc, allUnp (r_spans r) -> Forall nokid acc ->
    Forall nokid (fst (if e <=? r_pos r then (acc, ps) else
        let '(ok, r1) := next r in
        if negb ok then (acc, ps) else
        if jumped r1 then
          let acc := if ps <=? r_prev r1 then acc ++ [mkI tk ps (r_prev r1 + 1)] else acc in
          collect_loop f r1 e tk esc (r_pos r1) acc
        else collect_loop f r1 e tk esc ps acc))).
  { intros rr pp aa Hr Haa. destruct (e <=? r_pos rr); [exact Haa|].
    pose proof (next_unp rr Hr) as N. destruct (next rr) as [ok r1]. cbn [snd] in N. destruct (negb ok); [exact Haa|].
    destruct (jumped r1); [|apply IH; assumption]. cbv zeta. apply IH; [exact N|apply nok_if, Haa]. }
  cbv zeta.
  destruct (esc && (okind cn =? UnparsedKind)); [|apply Htail; assumption].
  pose proof (current_unp r0 U0) as U1. destruct (current r0) as [c r1]. cbn [snd] in U1.
  destruct (c =? 92).
  { pose proof (next_unp r1 U1) as U2. destruct (next r1) as [ok r2]. cbn [snd] in U2.
    destruct (ok && (r_pos r2 <? e) && isASCIIPunctuation (cur r2)); [|apply Htail; assumption].
    apply Htail; [exact U2|apply nok_if, Ha]. }
  destruct (c =? 38); [|apply Htail; assumption].
  pose proof (rem_unp r1 U1) as U2. destruct (remainingNodeBytes r1) as [rem r2]. cbn [snd] in U2.
  destruct (0 <=? parseCharacterEscape rem); [|apply Htail; assumption].
  pose proof (nextN_unp (Z.to_nat (parseCharacterEscape rem - 1)) r2 U2) as U3.
  pose proof (next_unp _ U3) as U4. destruct (next (nextN _ r2)) as [ok r4]. cbn [snd] in U4.
  assert (Hacc : Forall nokid ((if ps <? r_pos r2 then acc ++ [mkI tk ps (r_pos r2)] else acc) ++ [mkI CharacterReferenceKind (r_pos r2) (r_pos r2 + parseCharacterEscape rem)])).
  { apply nok_snoc; [apply nok_if, Ha|reflexivity]. }
  destruct (negb ok); [exact Hacc|]. apply IH; assumption.
Qed.

Theorem collectTextNodes_nokid f src ik p e tk esc : allUnp ik ->
  Forall nokid (collectTextNodes f (newReader src ik p) e tk esc).
Proof.
  intros H. unfold collectTextNodes.
  pose proof (collect_loop_nokid f (newReader src ik p) e tk esc (r_pos (newReader src ik p)) [] H ltac:(constructor)) as K.
  destruct (collect_loop f (newReader src ik p) e tk esc (r_pos (newReader src ik p)) []) as [acc ps]. cbn [fst] in K.
  destruct (ps <? e); [apply nok_snoc; [exact K|reflexivity]|exact K].
Qed.
Print Assumptions collectTextNodes_nokid.
