From Coq Require Import List ZArith Lia Bool.
Import ListNotations.
Require Import Base Tables Utf8 Tree Recog Inl3b Driver Inl3e.
Open Scope Z_scope.

(* ---- text of nodes (inlines.go:64) ---- *)
Fixpoint lookupV (t : list (bytes * bytes)) (n : bytes) : option bytes :=
  match t with [] => None | (k, v) :: r => if Utf8.bytes_eqb k n then Some v else lookupV r n end.
Fixpoint parseNum (base : Z) (l : bytes) (x : Z) : Z :=
  match l with
  | [] => x
  | c :: r =>
    if isASCIIDigit c then parseNum base r (base * x + (c - 48))
    else if (base =? 16) && (97 <=? c) && (c <=? 102) then parseNum base r (16 * x + (c - 97 + 10))
    else if (base =? 16) && (65 <=? c) && (c <=? 70) then parseNum base r (16 * x + (c - 65 + 10))
    else x
  end.
Fixpoint legacyVal (j : nat) (name : bytes) : option (bytes * Z) :=
  match j with
  | O | S O => None
  | S j' => let pre := upto name (Z.of_nat j) in
            match lookupV entityValuesLegacy pre with Some v => Some (v, Z.of_nat j) | None => legacyVal j' name end
  end.
(* html.UnescapeString on one recognised reference "&...;" *)
Definition unescapeRef (x : bytes) : bytes :=
  if at_ x 1 =? 35 then
    let hex := (at_ x 2 =? 120) || (at_ x 2 =? 88) in
    let v := if hex then parseNum 16 (from_ x 3) 0 else parseNum 10 (from_ x 2) 0 in
    if (128 <=? v) && (v <=? 159) then nth (Z.to_nat (v - 128)) numericReplacement []
    else if (v =? 0) || ((55296 <=? v) && (v <=? 57343)) || (1114111 <? v) then encodeRune 65533
    else encodeRune v
  else
    let name := sub x 1 (len x - 1) in
    match lookupV entityValuesSemi name with
    | Some v => v
    | None =>
      match legacyVal (Z.to_nat (Z.min (len name) 6)) name with
      | Some (v, j) => v ++ from_ x (1 + j)
      | None => x
      end
    end.

Definition spanOf (src : bytes) (i : inline) : bytes := sub src (istart i) (iend i).
Definition textOfChildren (src : bytes) (i : inline) : bytes :=
  flat_map (fun c => if ikind c =? TextKind then spanOf src c
                     else if ikind c =? CharacterReferenceKind then unescapeRef (spanOf src c) else []) (ikids i).

(* ---- helpers from the standard library ---- *)
Definition escapeString (s : bytes) : bytes :=   (* html.EscapeString *)
  flat_map (fun c => if c =? 38 then [38;97;109;112;59] else if c =? 39 then [38;35;51;57;59]
                     else if c =? 60 then [38;108;116;59] else if c =? 62 then [38;103;116;59]
                     else if c =? 34 then [38;35;51;52;59] else [c]) s.
Definition escapeHTML (s : bytes) : bytes :=     (* html_renderer.go:520 *)
  flat_map (fun c => if c =? 38 then [38;97;109;112;59] else if c =? 39 then [38;35;51;57;59]
                     else if c =? 60 then [38;108;116;59] else if c =? 62 then [38;103;116;59]
                     else if c =? 34 then [38;113;117;111;116;59] else [c]) s.

(* range over the runes of a string, as Go does: (index, rune, width) *)
Fixpoint runes (fuel : nat) (s : bytes) (i : Z) : list (Z * Z * Z) :=
  match fuel with
  | O => []
  | S f => match s with
           | [] => []
           | _ => let '(r, w) := decodeRune s in let w := if w <? 1 then 1 else w in (i, r, w) :: runes f (from_ s w) (i + w)
           end
  end.
Definition urlHexDigit (x : Z) : Z := if x <? 10 then 48 + x else 65 + x - 10.
Definition safeSet : bytes := [59;47;63;58;64;38;61;43;36;44;45;95;46;33;126;42;39;40;41;35].
Fixpoint nu_loop (s : bytes) (rs : list (Z * Z * Z)) (skip : Z) : bytes :=
  match rs with
  | [] => []
  | (i, c, w) :: rest =>
    if 0 <? skip then encodeRune c ++ nu_loop s rest (skip - 1)
    else if c =? 37 then
      if (i + 2 <? len s) && isHex (at_ s (i + 1)) && isHex (at_ s (i + 2)) then [37] ++ nu_loop s rest 2
      else [37;50;53] ++ nu_loop s rest 0
    else if ((c <? 128) && (isASCIILetter c || isASCIIDigit c)) || existsb (Z.eqb c) safeSet then encodeRune c ++ nu_loop s rest 0
    else flat_map (fun b => [37; urlHexDigit (b / 16); urlHexDigit (b mod 16)]) (encodeRune c) ++ nu_loop s rest 0
  end.
Definition normalizeURI (s : bytes) : bytes := nu_loop s (runes (S (length s)) s 0) 0.
Definition isEmailAddress (s : bytes) : bool := parseEmail s =? len s.

(* strings.Fields(...)[0] *)
Definition isSpaceRune (r : Z) : bool := inRanges rangesSpace r.
Fixpoint firstField (rs : list (Z * Z * Z)) (s : bytes) (started : bool) : bytes :=
  match rs with
  | [] => []
  | (i, r, w) :: rest =>
    if isSpaceRune r then (if started then [] else firstField rest s false)
    else sub s i (i + w) ++ firstField rest s true
  end.

(* ---- configuration ---- *)
Record cfg := { softBreak : Z; ignoreRaw : bool; filterOn : bool; filterP : bytes -> bool }.
Definition reject (c : cfg) (name : bytes) : bool := filterOn c && filterP c name.
Definition openTagAttr (c : cfg) (name : bytes) : bytes := (if reject c name then [38;108;116;59] else [60]) ++ name.
Definition openTag (c : cfg) (name : bytes) : bytes := openTagAttr c name ++ [62].
Definition closeTag (c : cfg) (name : bytes) : bytes :=
  (if reject c (47 :: name) then [38;108;116;59;47] else [60;47]) ++ name ++ [62].

(* filterRaw (repaired): every '<' judged on its own *)
Fixpoint takeName (l : bytes) : bytes :=
  match l with c :: r => if isASCIILetter c || isASCIIDigit c || (c =? 45) then c :: takeName r else [] | [] => [] end.
Definition cmName (l : bytes) : bytes := match l with c :: _ => if isASCIILetter c then takeName l else [] | [] => [] end.
Fixpoint filterRaw (c : cfg) (raw : bytes) : bytes :=
  match raw with
  | [] => []
  | b :: r => if b =? 60 then (if filterP c (map toLowerASCII (cmName r)) then [38;108;116;59] else [60]) ++ filterRaw c r
              else b :: filterRaw c r
  end.

(* reference map with values *)
Record linkDef := { ld_dest : bytes; ld_title : bytes; ld_has : bool }.
Fixpoint lookupDef (m : list (bytes * linkDef)) (k : bytes) : linkDef :=
  match m with [] => {| ld_dest := []; ld_title := []; ld_has := false |}
             | (k', v) :: r => if Utf8.bytes_eqb k' k then v else lookupDef r k end.

Definition linkReference (i : inline) : bytes :=
  if (ikind i =? LinkKind) || (ikind i =? ImageKind) then
    match rev (ikids i) with l :: _ => if ikind l =? LinkLabelKind then iref l else iref i | [] => iref i end
  else iref i.
Definition lastTwo {A} (l : list A) : list A := match rev l with a :: b :: _ => [a; b] | a :: _ => [a] | [] => [] end.
Definition linkPart (i : inline) (k : Z) : option inline := find (fun c => ikind c =? k) (lastTwo (ikids i)).

Definition defOf (refs : list (bytes * linkDef)) (src : bytes) (i : inline) : linkDef :=
  let r := linkReference i in
  if negb (len r =? 0) then lookupDef refs r else
  {| ld_dest := match linkPart i LinkDestinationKind with Some d => textOfChildren src d | None => [] end;
     ld_title := match linkPart i LinkTitleKind with Some t => textOfChildren src t | None => [] end;
     ld_has := match linkPart i LinkTitleKind with Some _ => true | None => false end |}.

Definition attr (name : bytes) (v : bytes) : bytes := [32] ++ name ++ [61; 34] ++ v ++ [34].
Definition s_href := [104;114;101;102]. Definition s_src := [115;114;99]. Definition s_title := [116;105;116;108;101].
Definition s_alt := [97;108;116]. Definition s_brname := [98;114].

(* alt text (appendAltText, repaired) *)
Fixpoint altText (fuel : nat) (src : bytes) (i : inline) : bytes :=
  match fuel with
  | O => []
  | S f =>
    let k := ikind i in
    if k =? TextKind then escapeHTML (spanOf src i)
    else if k =? CharacterReferenceKind then spanOf src i
    else if (k =? IndentKind) || (k =? SoftLineBreakKind) || (k =? HardLineBreakKind) then [32]
    else if (k =? LinkDestinationKind) || (k =? LinkTitleKind) || (k =? LinkLabelKind) then []
    else flat_map (altText f src) (ikids i)
  end.
Fixpoint isize (i : inline) : nat := match i with Inl _ _ _ _ _ ks => S (fold_right (fun c a => (isize c + a)%nat) O ks) end.

Fixpoint renderI (fuel : nat) (c : cfg) (refs : list (bytes * linkDef)) (src : bytes) (i : inline) : bytes :=
  match fuel with
  | O => []
  | S f =>
    let k := ikind i in
    let kids := flat_map (renderI f c refs src) (ikids i) in
    if (k =? TextKind) || (k =? UnparsedKind) then escapeHTML (spanOf src i)
    else if k =? CharacterReferenceKind then spanOf src i
    else if k =? RawHTMLKind then
      if ignoreRaw c then [] else if filterOn c then filterRaw c (spanOf src i) else spanOf src i
    else if k =? SoftLineBreakKind then
      if softBreak c =? 2 then openTag c s_brname ++ [10] else if softBreak c =? 1 then [32]
      else if 0 <? iend i - istart i then spanOf src i else [10]
    else if k =? HardLineBreakKind then openTag c s_brname ++ [10]
    else if k =? EmphasisKind then openTag c [101;109] ++ kids ++ closeTag c [101;109]
    else if k =? StrongKind then openTag c [115;116;114;111;110;103] ++ kids ++ closeTag c [115;116;114;111;110;103]
    else if k =? CodeSpanKind then openTag c [99;111;100;101] ++ kids ++ closeTag c [99;111;100;101]
    else if k =? LinkKind then
      let d := defOf refs src i in
      openTagAttr c [97] ++ attr s_href (escapeString (normalizeURI (ld_dest d))) ++
      (if ld_has d then attr s_title (escapeString (ld_title d)) else []) ++ [62] ++ kids ++ closeTag c [97]
    else if k =? ImageKind then
      let d := defOf refs src i in
      openTagAttr c [105;109;103] ++ attr s_src (escapeString (normalizeURI (ld_dest d))) ++
      (if ld_has d then attr s_title (escapeString (ld_title d)) else []) ++
      attr s_alt (altText (isize i) src i) ++ [62]
    else if k =? AutolinkKind then
      let dest := match ikids i with t :: _ => spanOf src t | [] => [] end in
      openTagAttr c [97] ++ [32] ++ s_href ++ [61;34] ++
      (if isEmailAddress dest then [109;97;105;108;116;111;58] else []) ++ escapeString (normalizeURI dest) ++ [34;62] ++
      escapeString dest ++ closeTag c [97]
    else if k =? IndentKind then repeat 32 (Z.to_nat (iindent i))
    else if k =? HTMLTagKind then kids
    else []
  end.

Definition isTightList (b : block) : bool := ((bkind b =? ListKind) || (bkind b =? ListItemKind)) && negb (bloose b).
Definition isOrdered (b : block) : bool := (bchar b =? 46) || (bchar b =? 41).
Definition listItemNumber (src : bytes) (b : block) : Z :=
  if negb (isOrdered b) || negb (bkind b =? ListItemKind) then -1 else
  match bkids b with
  | m :: _ => if negb (bkind m =? ListMarkerKind) then -1 else
              let '(_, n, e) := parseListMarker (sub src (bstart m) (bend m)) in if e <? 0 then -1 else n
  | [] => -1
  end.
Fixpoint decimal (fuel : nat) (n : Z) : bytes :=
  match fuel with O => [] | S f => if n <? 10 then [48 + n] else decimal f (n / 10) ++ [48 + n mod 10] end.
Definition hTag (level : Z) : bytes := [104; 48 + (if (1 <=? level) && (level <=? 5) then level else 6)].

Fixpoint renderB (fuel : nat) (c : cfg) (refs : list (bytes * linkDef)) (src : bytes) (parentTight : bool) (b : block) : bytes :=
  match fuel with
  | O => []
  | S f =>
    let k := bkind b in
    let kidsB := flat_map (renderB f c refs src (isTightList b)) (bkids b) in
    let kidsI := flat_map (fun i => renderI (isize i) c refs src i) (bik b) in
    let kids := match bkids b with [] => kidsI | _ => kidsB end in
    if k =? ParagraphKind then (if parentTight then kids else openTag c [112] ++ kids ++ closeTag c [112])
    else if k =? ThematicBreakKind then openTag c [104;114]
    else if isHeading k then openTag c (hTag (bn b)) ++ kids ++ closeTag c (hTag (bn b))
    else if isCode k then
      let info := if k =? FencedCodeBlockKind then
                    match bik b with i0 :: _ => if ikind i0 =? InfoStringKind then Some i0 else None | [] => None end
                  else None in
      let cls := match info with
                 | Some i0 => let t := textOfChildren src i0 in
                              let w := firstField (runes (S (length t)) t 0) t false in
                              if 0 <? len w then [32;99;108;97;115;115;61;34;108;97;110;103;117;97;103;101;45] ++ escapeString w ++ [34] else []
                 | None => []
                 end in
      openTag c [112;114;101] ++ openTagAttr c [99;111;100;101] ++ cls ++ [62] ++ kids ++ closeTag c [99;111;100;101] ++ closeTag c [112;114;101]
    else if k =? BlockQuoteKind then
      openTag c [98;108;111;99;107;113;117;111;116;101] ++ kids ++ closeTag c [98;108;111;99;107;113;117;111;116;101]
    else if k =? ListKind then
      if isOrdered b then
        let n := match bkids b with it :: _ => listItemNumber src it | [] => -1 end in
        openTagAttr c [111;108] ++
        (if (0 <=? n) && negb (n =? 1) then [32;115;116;97;114;116;61;34] ++ decimal 12 n ++ [34] else []) ++ [62] ++
        kids ++ closeTag c [111;108]
      else openTag c [117;108] ++ kids ++ closeTag c [117;108]
    else if k =? ListItemKind then openTag c [108;105] ++ kids ++ closeTag c [108;105]
    else if k =? HTMLBlockKind then (if ignoreRaw c then [] else kids)
    else []
  end.

(* reference map with values (references.go:49) *)
Fixpoint extractDefs (fuel : nat) (src : bytes) (b : block) (acc : list (bytes * linkDef)) : list (bytes * linkDef) :=
  match fuel with
  | O => acc
  | S f =>
    if bkind b =? LinkReferenceDefinitionKind then
      match bik b with
      | l :: d :: rest =>
        let label := iref l in
        if (len label =? 0) || existsb (fun kv => Utf8.bytes_eqb (fst kv) label) acc then acc else
        acc ++ [(label, {| ld_dest := textOfChildren src d;
                           ld_title := match rest with t :: _ => textOfChildren src t | [] => [] end;
                           ld_has := match rest with _ :: _ => true | [] => false end |})]
      | _ => acc
      end
    else fold_left (fun a ch => extractDefs f src ch a) (bkids b) acc
  end.

Fixpoint joinBlocks (l : list bytes) : bytes :=
  match l with [] => [] | [x] => x | x :: r => x ++ [10; 10] ++ joinBlocks r end.

Definition renderDoc (c : cfg) (input : bytes) : bytes :=
  let '(roots, _) := parseFull input in
  let refs := fold_left (fun a r => extractDefs (bheight (rb_blk r)) (rb_src r) (rb_blk r) a) roots [] in
  joinBlocks (map (fun r => renderB (bheight (rb_blk r)) c refs (rb_src r) false (rb_blk r)) roots).
