From Coq Require Import List ZArith Lia Bool.
Import ListNotations.
Require Import Base Tables Utf8 Tree Rdr Link Collect Html Inl3a ShapesBase EolCRLFDefs EolCRLFSimBytes EolCRLFSimStream
  EolGenCrlfRdrDefs EolGenCrlfRdrStep EolCRLFFullNode.
Open Scope Z_scope.

(* C14 (ii), CRLF clause, inline layer: the parser state over R and over crlf R.  Everything that is a position is
   mapped by phiP R; identities, kinds, the delimiter stack and the reference matcher are equal. *)

Section St.
  Variable R : bytes.
  Notation P := (phiP R).
  Notation R' := (crlf R).
  Notation F := (phiI R).
  Notation N := (phiN R).

  Definition stC (st st' : ist) : Prop :=
    isrc st = R /\ isrc st' = R' /\ rk st' = map N (rk st) /\ unp st' = map F (unp st) /\ upos st' = upos st /\
    stk st' = stk st /\ ign st' = ign st /\ nid st' = nid st /\ rootEnd st' = P (rootEnd st) /\ matcher st' = matcher st.

  Lemma stC_mk a b c d e f g h :
    stC {| rk := a; isrc := R; unp := b; upos := c; stk := d; ign := e; nid := f; rootEnd := g; matcher := h |}
        {| rk := map N a; isrc := R'; unp := map F b; upos := c; stk := d; ign := e; nid := f; rootEnd := P g; matcher := h |}.
  Proof. intros. repeat split. Qed.
  Lemma stC_src st st' : stC st st' -> isrc st = R. Proof. intros H. apply H. Qed.
  Lemma stC_src' st st' : stC st st' -> isrc st' = R'. Proof. intros H. apply H. Qed.
  Lemma stC_rk st st' : stC st st' -> rk st' = map N (rk st). Proof. intros H. apply H. Qed.
  Lemma stC_unp st st' : stC st st' -> unp st' = map F (unp st). Proof. intros H. apply H. Qed.
  Lemma stC_upos st st' : stC st st' -> upos st' = upos st. Proof. intros H. apply H. Qed.
  Lemma stC_stk st st' : stC st st' -> stk st' = stk st. Proof. intros H. apply H. Qed.
  Lemma stC_ign st st' : stC st st' -> ign st' = ign st. Proof. intros H. apply H. Qed.
  Lemma stC_nid st st' : stC st st' -> nid st' = nid st. Proof. intros H. apply H. Qed.
  Lemma stC_rootEnd st st' : stC st st' -> rootEnd st' = P (rootEnd st). Proof. intros H. apply H. Qed.
  Lemma stC_matcher st st' : stC st st' -> matcher st' = matcher st. Proof. intros H. apply H. Qed.

  Ltac csplit H := let A := fresh "A" in
    match type of H with stC ?s ?s' =>
      destruct s as [rk0 src0 unp0 upos0 stk0 ign0 nid0 re0 m0]; destruct s' as [rk1 src1 unp1 upos1 stk1 ign1 nid1 re1 m1];
      unfold stC in H; cbn [rk isrc unp upos stk ign nid rootEnd matcher] in H;
      destruct H as (-> & -> & -> & -> & -> & -> & -> & -> & -> & ->) end.

  Lemma stC_setRk st st' v : stC st st' -> stC (setRk st v) (setRk st' (map N v)).
  Proof. intros H. csplit H. apply stC_mk. Qed.
  Lemma stC_setUpos st st' v : stC st st' -> stC (setUpos st v) (setUpos st' v).
  Proof. intros H. csplit H. apply stC_mk. Qed.
  Lemma stC_setStk st st' v : stC st st' -> stC (setStk st v) (setStk st' v).
  Proof. intros H. csplit H. apply stC_mk. Qed.
  Lemma stC_setIgn st st' v : stC st st' -> stC (setIgn st v) (setIgn st' v).
  Proof. intros H. csplit H. apply stC_mk. Qed.
  Lemma stC_bumpId st st' : stC st st' -> stC (bumpId st) (bumpId st').
  Proof. intros H. csplit H. apply stC_mk. Qed.

  Lemma len_map' {A B} (f : A -> B) l : len (map f l) = len l. Proof. unfold len. rewrite map_length. reflexivity. Qed.
  Lemma F_mkI0 : F (mkI 0 0 0) = mkI 0 0 0. Proof. unfold mkI. cbn [phiI map]. rewrite phiP_0. reflexivity. Qed.
  Lemma nth_map_F n l : nth n (map F l) (mkI 0 0 0) = F (nth n l (mkI 0 0 0)).
  Proof. rewrite <- F_mkI0 at 1. apply map_nth. Qed.

  Lemma cC_spanEnd st st' : stC st st' -> spanEnd st' = P (spanEnd st).
  Proof.
    intros H. csplit H. unfold spanEnd. cbn [rk isrc unp upos stk ign nid rootEnd matcher]. rewrite len_map'.
    destruct (_ <=? _).
    - rewrite <- map_rev. destruct (rev unp0) as [|l r]; cbn [map]; [apply len_R'|apply iend_phiI].
    - rewrite nth_map_F. apply iend_phiI.
  Qed.
  Lemma cC_isLastSpan st st' : stC st st' -> isLastSpan st' = isLastSpan st.
  Proof. intros H. csplit H. unfold isLastSpan. cbn [unp upos]. rewrite len_map'. reflexivity. Qed.
  Lemma cC_unpFrom st st' : stC st st' -> unpFrom st' = map F (unpFrom st).
  Proof. intros H. csplit H. unfold unpFrom. cbn [unp upos]. apply from_map. Qed.
  Lemma nifp_F sp pos : nodeIndexForPosition (map F sp) (P pos) = nodeIndexForPosition sp pos.
  Proof. unfold nodeIndexForPosition. apply nodeIdx_F, posR_sync. Qed.
  Lemma stC_advanceTo st st' pos : stC st st' -> stC (advanceTo st pos) (advanceTo st' (P pos)).
  Proof.
    intros H. unfold advanceTo. cbv zeta. rewrite (cC_unpFrom _ _ H), nifp_F, (stC_upos _ _ H), (stC_unp _ _ H), len_map'.
    destruct (0 <=? _); apply stC_setUpos, H.
  Qed.

  (* results: a state and an identity / a state and a position *)
  Definition pairE {A} (x y : ist * A) : Prop := snd y = snd x /\ stC (fst x) (fst y).
  Definition pairP (x y : ist * Z) : Prop := snd y = P (snd x) /\ stC (fst x) (fst y).
  Lemma pairE_mk {A} st st' (a : A) : stC st st' -> pairE (st, a) (st', a). Proof. intros H. split; [reflexivity|exact H]. Qed.
  Lemma pairP_mk st st' a : stC st st' -> pairP (st, a) (st', P a). Proof. intros H. split; [reflexivity|exact H]. Qed.

  Lemma cC_addNode st st' kind s e kids : stC st st' ->
    pairE (addNode st kind s e kids) (addNode st' kind (P s) (P e) (map N kids)).
  Proof.
    intros H. unfold addNode. rewrite spanLen_P0. destruct (spanLen s e =? 0); [apply pairE_mk, H|]. cbv zeta.
    rewrite (stC_nid _ _ H), (stC_rk _ _ H). apply pairE_mk, stC_bumpId.
    replace (map N (rk st) ++ [PN (nid st) kind (P s) (P e) 0 [] (map N kids)]) with (map N (rk st ++ [PN (nid st) kind s e 0 [] kids]))
      by (rewrite map_app; reflexivity).
    apply stC_setRk, H.
  Qed.
  Lemma stC_addText st st' s e : stC st st' -> stC (addText st s e) (addText st' (P s) (P e)).
  Proof. intros H. unfold addText. apply (cC_addNode st st' TextKind s e [] H). Qed.
  Lemma cC_nodeOf st st' id : stC st st' -> nodeOf st' id = N (nodeOf st id).
  Proof.
    intros H. unfold nodeOf. rewrite (stC_rk _ _ H), fsize_N, findNode_N. destruct (findNode _ _ _); [reflexivity|].
    cbn [phiN map]. rewrite phiP_neg by lia. reflexivity.
  Qed.
  Lemma cC_wrap st st' kind sid eid : stC st st' -> pairE (wrap st kind sid eid) (wrap st' kind sid eid).
  Proof.
    intros H. unfold wrap. cbv zeta. rewrite (stC_nid _ _ H), (stC_rk _ _ H), (stC_rootEnd _ _ H), fsize_N.
    replace (match eid with Some i => Some (ps (nodeOf st' i)) | None => None end)
      with (option_map P (match eid with Some i => Some (ps (nodeOf st i)) | None => None end))
      by (destruct eid; [rewrite (cC_nodeOf _ _ _ H), ps_N|]; reflexivity).
    rewrite wrapIn_N. apply pairE_mk, stC_bumpId, stC_setRk, H.
  Qed.
  Lemma stC_removeNode st st' id : stC st st' -> stC (removeNode st id) (removeNode st' id).
  Proof. intros H. unfold removeNode. rewrite (stC_rk _ _ H), fsize_N, removeId_N. apply stC_setRk, H. Qed.
  Lemma stC_updN (Q : pn -> Prop) st st' id g g' : stC st st' -> faL Q (rk st) ->
    (forall n, Q n -> pid n = id -> g' (N n) = N (g n)) -> stC (updN st id g) (updN st' id g').
  Proof.
    intros H HQ Hg. unfold updN. rewrite (stC_rk _ _ H), fsize_N, (updNode_N R Q g g' id Hg _ _ HQ). apply stC_setRk, H.
  Qed.
  Lemma faL_True l : faL (fun _ => True) l.
  Proof.
    assert (G : forall n, faN (fun _ => True) n).
    { fix IH 1. intros [i k s e ind r ks]. cbn [faN pkids]. split; [exact I|]. induction ks as [|x ks IHk]; [exact I|]. split; [apply IH|exact IHk]. }
    induction l as [|n l IH]; [exact I|]. split; [apply G|exact IH].
  Qed.
  (* an update that commutes on every node *)
  Lemma stC_updN_all st st' id g g' : stC st st' -> (forall n, g' (N n) = N (g n)) -> stC (updN st id g) (updN st' id g').
  Proof. intros H Hg. apply (stC_updN (fun _ => True)); [exact H|apply faL_True|intros n _ _; apply Hg]. Qed.
  Lemma cC_matchRef st st' label : stC st st' -> matchRef st' label = matchRef st label.
  Proof. intros H. unfold matchRef. rewrite (stC_matcher _ _ H). reflexivity. Qed.
End St.
