From Coq Require Import List ZArith Lia Bool.
Import ListNotations.
Require Import Base Tables Utf8 Tree Rdr Link Collect Html Recog Inl3a Inl3b Inl3c Inl3d Inl3e Leaf3a Leaf3e RdrBound.
Require Import SpanForest SpanIds SpanStack SpanEmph SpanSmall SpanTok.
Open Scope Z_scope.

(* ================================================================================================
   Layer 4, part 1: the multi-line reader over the entries of a leaf block.
   ================================================================================================ *)

Definition isEOLb (c : Z) : bool := (c =? 10) || (c =? 13).

Lemma skipn_cons_nth {A} (d : A) : forall k l, (k < length l)%nat -> skipn k l = nth k l d :: skipn (S k) l.
Proof.
  induction k as [|k IH]; intros l Hl; destruct l as [|x l]; cbn in Hl; try lia; [reflexivity|]. cbn [skipn nth]. apply IH. lia.
Qed.

(* the conditions on the entries of a leaf block under which the reader-based scanners are analysed *)
Record EC (src : bytes) (U : list inline) (lo hi : Z) : Prop := mkEC {
  ec_ok : okF lo hi (map ofInline U);
  ec_hi : hi <= len src;
  ec_lo : 0 <= lo;
  (* only Unparsed and Indent entries *)
  ec_kind : forall j, 0 <= j < len U -> ikind (nthU U j) = UnparsedKind \/ ikind (nthU U j) = IndentKind;
  (* an Indent entry covers one byte and stands for at most three columns *)
  ec_width : forall j, 0 <= j < len U -> ikind (nthU U j) = IndentKind -> iend (nthU U j) = istart (nthU U j) + 1;
  ec_indent : forall j, 0 <= j < len U -> ikind (nthU U j) = IndentKind -> iindent (nthU U j) <= 3;
  (* every entry but the last is non-empty, and ends with a line ending unless it is an Indent entry *)
  ec_eol : forall j, 0 <= j -> j + 1 < len U ->
    istart (nthU U j) < iend (nthU U j) /\ (ikind (nthU U j) <> IndentKind -> isEOLb (at_ src (iend (nthU U j) - 1)) = true);
  (* after the last entry: end of source, or white space, or the last entry is a non-empty Unparsed entry ending in white space
     and the byte after it is not a closing parenthesis *)
  ec_tail : U <> [] ->
    (len src <= Bend src U \/ isSpaceTabOrLineEnding (at_ src (Bend src U)) = true) \/
    (ikind (nthU U (len U - 1)) <> IndentKind /\ istart (nthU U (len U - 1)) < Bend src U /\
     isSpaceTabOrLineEnding (at_ src (Bend src U - 1)) = true /\ at_ src (Bend src U) <> 41) }.

Section Rdr.
  Variables (src : bytes) (U : list inline) (lo hi : Z).
  Hypothesis HEC : EC src U lo hi.
  Notation nU := (nthU U).
  Let HU := ec_ok _ _ _ _ HEC.
  Let Hhi := ec_hi _ _ _ _ HEC.
  Let Hlo := ec_lo _ _ _ _ HEC.
  Let HK := ec_kind _ _ _ _ HEC.
  Let HW := ec_width _ _ _ _ HEC.
  Let HIn := ec_indent _ _ _ _ HEC.
  Let HE := ec_eol _ _ _ _ HEC.

  Definition P : Z := Bend src U.   (* the end of the last entry *)

  Lemma from_cons i : 0 <= i < len U -> from_ U i = nU i :: from_ U (i + 1).
  Proof.
    intros H. unfold from_, nthU, len in *. replace (Z.to_nat (i + 1)) with (S (Z.to_nat i)) by lia.
    apply skipn_cons_nth. lia.
  Qed.
  Lemma from_nil i : len U <= i -> from_ U i = [].
  Proof. intros H. unfold from_, len in *. apply skipn_all2. lia. Qed.

  Lemma eb j : 0 <= j < len U -> lo <= istart (nU j) /\ istart (nU j) <= iend (nU j) /\ iend (nU j) <= hi.
  Proof. intros H. destruct (entry_bounds U lo hi HU j H) as (A & B & C & _). tauto. Qed.
  Lemma eo j j' : 0 <= j -> j < j' -> j' < len U -> iend (nU j) <= istart (nU j').
  Proof. apply (entry_order U lo hi HU). Qed.

  Lemma spanHas_iff n pos : 0 <= istart n -> istart n <= iend n -> (spanHas n pos = true <-> istart n <= pos < iend n).
  Proof.
    intros A B. unfold spanHas. rewrite !andb_true_iff, !Z.leb_le, Z.ltb_lt. lia.
  Qed.
  Lemma has_nU j pos : 0 <= j < len U -> (spanHas (nU j) pos = true <-> istart (nU j) <= pos < iend (nU j)).
  Proof. intros H. destruct (eb j H) as (A & B & C). apply spanHas_iff; lia. Qed.

  (* the last entry *)
  Lemma P_last : U <> [] -> P = iend (nU (len U - 1)).
  Proof.
    intros HN. unfold P, Bend. destruct (rev U) as [|x r] eqn:Er.
    { exfalso. apply HN. rewrite <- (rev_involutive U), Er. reflexivity. }
    rewrite (last_nth U x r (mkI 0 0 0) Er). unfold nthU, len. f_equal. f_equal.
    assert (Hl : (0 < length U)%nat) by (destruct U; [contradiction|cbn; lia]). lia.
  Qed.
  Lemma P_ge j : 0 <= j < len U -> iend (nU j) <= P.
  Proof.
    intros H. assert (HN : U <> []) by (intros E; rewrite E in H; cbn in H; lia). rewrite (P_last HN).
    destruct (Z.eq_dec j (len U - 1)) as [->|N]; [lia|].
    pose proof (eo j (len U - 1) ltac:(lia) ltac:(lia) ltac:(lia)). destruct (eb (len U - 1) ltac:(lia)). lia.
  Qed.
  Lemma P_hi : U <> [] -> P <= hi.
  Proof. intros HN. apply (Bend_le src U lo hi 0 HU HN). Qed.

  (* ---- reader states ---- *)
  Definition AliveAt (r : reader) (k : Z) : Prop :=
    r_src r = src /\ exists i, 0 <= i <= k /\ k < len U /\ r_spans r = from_ U i /\ spanHas (nU k) (r_pos r) = true.
  Definition Off (r : reader) : Prop := r_src r = src /\ r_pos r = P /\ nodeIndexForPosition (r_spans r) (r_pos r) < 0.

  Lemma nodeIdx_alive : forall d i k pos c, d = Z.to_nat (k - i) -> 0 <= i <= k -> k < len U -> spanHas (nU k) pos = true ->
    nodeIdx (from_ U i) pos c = c + (k - i).
  Proof.
    induction d as [|d IH]; intros i k pos c Hd Hi Hk Hh.
    - assert (i = k) by lia. subst i. rewrite from_cons by lia. cbn [nodeIdx].
      apply (has_nU k pos ltac:(lia)) in Hh as Hh'. destruct (Z.ltb_spec pos (istart (nU k))); [lia|]. rewrite Hh. lia.
    - rewrite from_cons by lia. cbn [nodeIdx].
      apply (has_nU k pos ltac:(lia)) in Hh as Hh'. pose proof (eo i k ltac:(lia) ltac:(lia) Hk) as Ho. destruct (eb i ltac:(lia)) as (B1 & B2 & B3).
      destruct (Z.ltb_spec pos (istart (nU i))); [lia|].
      destruct (spanHas (nU i) pos) eqn:Eh; [apply (has_nU i pos ltac:(lia)) in Eh; lia|].
      rewrite (IH (i + 1) k pos (c + 1)); try lia. exact Hh.
  Qed.
  Lemma hd_from k : 0 <= k < len U -> hd_error (from_ U k) = Some (nU k).
  Proof. intros H. rewrite from_cons by exact H. reflexivity. Qed.

  Lemma curNode_alive r k : AliveAt r k ->
    curNode r = (Some (nU k), {| r_src := r_src r; r_spans := from_ U k; r_pos := r_pos r; r_vpos := r_vpos r; r_prev := r_prev r |}).
  Proof.
    intros (Es & i & Hi & Hk & Esp & Hh). unfold curNode, nodeIndexForPosition. rewrite Esp.
    rewrite (nodeIdx_alive (Z.to_nat (k - i)) i k (r_pos r) 0 eq_refl Hi Hk Hh).
    destruct (Z.ltb_spec (0 + (k - i)) 0); [lia|]. rewrite from_from by lia. replace (i + (0 + (k - i))) with k by lia.
    rewrite hd_from by lia. reflexivity.
  Qed.
  Lemma curNode_off r : Off r -> curNode r = (None, {| r_src := r_src r; r_spans := []; r_pos := r_pos r; r_vpos := r_vpos r; r_prev := r_prev r |}).
  Proof. intros (Es & Ep & Hn). unfold curNode. destruct (Z.ltb_spec (nodeIndexForPosition (r_spans r) (r_pos r)) 0); [reflexivity|lia]. Qed.

  Definition foc (r : reader) (k : Z) : reader :=
    {| r_src := r_src r; r_spans := from_ U k; r_pos := r_pos r; r_vpos := r_vpos r; r_prev := r_prev r |}.
  Definition dead (r : reader) : reader :=
    {| r_src := r_src r; r_spans := []; r_pos := r_pos r; r_vpos := r_vpos r; r_prev := r_prev r |}.
  Lemma AliveAt_foc r k : AliveAt r k -> AliveAt (foc r k) k.
  Proof. intros (Es & i & Hi & Hk & Esp & Hh). split; [exact Es|]. exists k. cbn [r_spans r_pos foc]. repeat split; try lia; assumption. Qed.
  Lemma Off_dead r : Off r -> Off (dead r).
  Proof. intros (Es & Ep & Hn). split; [exact Es|]. split; [exact Ep|]. cbn. lia. Qed.
  Lemma alive_pos r k : AliveAt r k -> istart (nU k) <= r_pos r < iend (nU k) /\ 0 <= k < len U /\ r_pos r < P /\ r_pos r < len src /\ 0 <= r_pos r.
  Proof.
    intros (Es & i & Hi & Hk & Esp & Hh). apply (has_nU k (r_pos r) ltac:(lia)) in Hh. pose proof (P_ge k ltac:(lia)). destruct (eb k ltac:(lia)) as (B1 & B2 & B3).
    repeat split; lia.
  Qed.

  Definition byteAt (r : reader) (k : Z) : Z :=
    if ikind (nU k) =? IndentKind then 32 else if at_ src (r_pos r) =? 0 then nullRepl (r_vpos r) else at_ src (r_pos r).
  Lemma current_alive r k : AliveAt r k -> current r = (byteAt r k, foc r k).
  Proof.
    intros H. pose proof (alive_pos r k H) as (A & B & C & D & E). unfold current. pose proof H as (Es & _). rewrite Es.
    destruct (Z.leb_spec (len src) (r_pos r)); [lia|]. rewrite (curNode_alive r k H).
    cbn [okind]. unfold byteAt, foc. destruct (ikind (nU k) =? IndentKind); [reflexivity|]. destruct (at_ src (r_pos r) =? 0); reflexivity.
  Qed.
  Definition byteOff (r : reader) : Z :=
    if len src <=? P then 0 else if at_ src P =? 0 then nullRepl (r_vpos r) else at_ src P.
  Lemma current_off r : Off r -> fst (current r) = byteOff r /\ Off (snd (current r)) /\ r_pos (snd (current r)) = r_pos r /\ r_prev (snd (current r)) = r_prev r.
  Proof.
    intros H. pose proof H as (Es & Ep & Hn).
    assert (E1 : (len (r_src r) <=? r_pos r) = (len src <=? P)) by (rewrite Es, Ep; reflexivity).
    assert (E2 : at_ (r_src r) (r_pos r) = at_ src P) by (rewrite Es, Ep; reflexivity).
    unfold current, byteOff. rewrite E1. destruct (len src <=? P); [cbn [fst snd]; tauto|].
    rewrite (curNode_off r H). cbn [okind]. change (0 =? IndentKind) with false. cbv iota. rewrite E2.
    destruct (at_ src P =? 0); cbn [fst snd]; (split; [reflexivity|]); (split; [apply Off_dead; exact H|split; reflexivity]).
  Qed.
  Lemma next_off r : Off r -> fst (next r) = false /\ Off (snd (next r)) /\ r_pos (snd (next r)) = r_pos r /\ r_prev (snd (next r)) = r_prev r.
  Proof. intros H. unfold next. rewrite (curNode_off r H). cbn [fst snd]. split; [reflexivity|]. split; [apply Off_dead; exact H|split; reflexivity]. Qed.
  Lemma remaining_alive r k : AliveAt r k -> remainingNodeBytes r = (sub src (r_pos r) (iend (nU k)), foc r k).
  Proof. intros H. unfold remainingNodeBytes. rewrite (curNode_alive r k H). destruct H as (Es & _). unfold foc. rewrite Es. reflexivity. Qed.
  Lemma remaining_off r : Off r -> remainingNodeBytes r = ([], dead r).
  Proof. intros H. unfold remainingNodeBytes. rewrite (curNode_off r H). reflexivity. Qed.

  Definition lastByte (r : reader) (k : Z) : Prop := ikind (nU k) = IndentKind \/ r_pos r + 1 = iend (nU k).

  Lemma nextSpan_from k : 0 <= k < len U -> nextSpan (from_ U k) = Some (nU k, from_ U k).
  Proof.
    intros H. rewrite from_cons by exact H. cbn [nextSpan]. rewrite <- from_cons by exact H.
    destruct (HK k H) as [E|E]; rewrite E; reflexivity.
  Qed.

  Lemma next_alive r k : AliveAt r k ->
    r_src (snd (next r)) = src /\ r_prev (snd (next r)) = r_pos r /\
    ( (fst (next r) = true /\ AliveAt (snd (next r)) k /\
         ((ikind (nU k) = IndentKind /\ r_pos (snd (next r)) = r_pos r) \/ (ikind (nU k) <> IndentKind /\ r_pos (snd (next r)) = r_pos r + 1)))
      \/ (fst (next r) = true /\ k + 1 < len U /\ r_pos (snd (next r)) = istart (nU (k + 1)) /\ lastByte r k /\
          (AliveAt (snd (next r)) (k + 1) \/ Off (snd (next r))))
      \/ (fst (next r) = false /\ k + 1 = len U /\ Off (snd (next r)) /\ r_pos (snd (next r)) = r_pos r + 1 /\ r_pos r + 1 = P /\ lastByte r k) ).
  Proof.
    intros H. pose proof (alive_pos r k H) as (A & B & C & D & E). unfold next. rewrite (curNode_alive r k H). pose proof H as (Es & _).
    cbn [r_src r_pos r_vpos r_spans].
    destruct (Z.eqb_spec (ikind (nU k)) IndentKind) as [Ei|Ei]; cbn [andb negb].
    - (* Indent *)
      destruct (r_vpos r <? iindent (nU k)).
      + cbn [fst snd r_src r_prev r_pos]. split; [exact Es|]. split; [reflexivity|]. left. split; [reflexivity|]. split; [|left; split; [exact Ei|reflexivity]].
        split; [exact Es|]. exists k. cbn [r_spans r_pos]. repeat split; try lia. destruct H as (_ & i & _ & _ & _ & Hh). exact Hh.
      + assert (Hl : lastByte r k) by (left; exact Ei).
        pose proof (HW k B Ei) as Hw.
        change (tl (from_ U k)) with (tl (from_ U k)). rewrite (from_cons k B). cbn [tl].
        destruct (Z.ltb_spec (k + 1) (len U)) as [L|L].
        * rewrite (nextSpan_from (k + 1)) by lia. cbn [fst snd r_src r_prev r_pos]. split; [exact Es|]. split; [reflexivity|]. right. left.
          split; [reflexivity|]. split; [exact L|]. split; [reflexivity|]. split; [exact Hl|].
          destruct (eb (k + 1) ltac:(lia)) as (B1 & B2 & B3).
          destruct (Z.eq_dec (istart (nU (k + 1))) (iend (nU (k + 1)))) as [Ee|Ne].
          -- right. assert (Hlast : k + 2 = len U) by (destruct (Z.eq_dec (k + 2) (len U)); [assumption|destruct (HE (k + 1) ltac:(lia) ltac:(lia)); lia]).
             assert (HN : U <> []) by (intros X; rewrite X in B; cbn in B; lia).
             split; [exact Es|]. cbn [r_pos r_spans]. split; [rewrite (P_last HN); replace (len U - 1) with (k + 1) by lia; lia|].
             unfold nodeIndexForPosition. rewrite (from_cons (k + 1)) by lia. cbn [nodeIdx].
             destruct (Z.ltb_spec (istart (nU (k + 1))) (istart (nU (k + 1)))); [lia|].
             destruct (spanHas (nU (k + 1)) (istart (nU (k + 1)))) eqn:Eh; [apply (has_nU (k + 1)) in Eh; lia|].
             rewrite from_nil by lia. cbn. lia.
          -- left. split; [exact Es|]. exists (k + 1). cbn [r_spans r_pos]. repeat split; try lia. apply (has_nU (k + 1)); lia.
        * rewrite from_nil by lia. cbn [nextSpan fst snd r_src r_prev r_pos]. split; [exact Es|]. split; [reflexivity|]. right. right.
          assert (HN : U <> []) by (intros X; rewrite X in B; cbn in B; lia).
          assert (Ep : r_pos r + 1 = P) by (rewrite (P_last HN); replace (len U - 1) with k by lia; lia).
          split; [reflexivity|]. split; [lia|]. split; [|split; [reflexivity|split; [exact Ep|exact Hl]]].
          split; [exact Es|]. cbn [r_pos r_spans]. split; [exact Ep|]. cbn. lia.
    - (* Unparsed *)
      destruct (Z.ltb_spec (r_pos r + 1) (iend (nU k))) as [L1|L1].
      + cbn [fst snd r_src r_prev r_pos]. split; [exact Es|]. split; [reflexivity|]. left. split; [reflexivity|]. split; [|right; split; [exact Ei|reflexivity]].
        split; [exact Es|]. exists k. cbn [r_spans r_pos]. repeat split; try lia. apply (has_nU k); lia.
      + assert (Hl : lastByte r k) by (right; lia).
        rewrite (from_cons k B). cbn [tl].
        destruct (Z.ltb_spec (k + 1) (len U)) as [L|L].
        * rewrite (nextSpan_from (k + 1)) by lia. cbn [fst snd r_src r_prev r_pos]. split; [exact Es|]. split; [reflexivity|]. right. left.
          split; [reflexivity|]. split; [exact L|]. split; [reflexivity|]. split; [exact Hl|].
          destruct (eb (k + 1) ltac:(lia)) as (B1 & B2 & B3).
          destruct (Z.eq_dec (istart (nU (k + 1))) (iend (nU (k + 1)))) as [Ee|Ne].
          -- right. assert (Hlast : k + 2 = len U) by (destruct (Z.eq_dec (k + 2) (len U)); [assumption|destruct (HE (k + 1) ltac:(lia) ltac:(lia)); lia]).
             assert (HN : U <> []) by (intros X; rewrite X in B; cbn in B; lia).
             split; [exact Es|]. cbn [r_pos r_spans]. split; [rewrite (P_last HN); replace (len U - 1) with (k + 1) by lia; lia|].
             unfold nodeIndexForPosition. rewrite (from_cons (k + 1)) by lia. cbn [nodeIdx].
             destruct (Z.ltb_spec (istart (nU (k + 1))) (istart (nU (k + 1)))); [lia|].
             destruct (spanHas (nU (k + 1)) (istart (nU (k + 1)))) eqn:Eh; [apply (has_nU (k + 1)) in Eh; lia|].
             rewrite from_nil by lia. cbn. lia.
          -- left. split; [exact Es|]. exists (k + 1). cbn [r_spans r_pos]. repeat split; try lia. apply (has_nU (k + 1)); lia.
        * rewrite from_nil by lia. cbn [nextSpan fst snd r_src r_prev r_pos]. split; [exact Es|]. split; [reflexivity|]. right. right.
          assert (HN : U <> []) by (intros X; rewrite X in B; cbn in B; lia).
          assert (Ep : r_pos r + 1 = P) by (rewrite (P_last HN); replace (len U - 1) with k by lia; lia).
          split; [reflexivity|]. split; [lia|]. split; [|split; [reflexivity|split; [exact Ep|exact Hl]]].
          split; [exact Es|]. cbn [r_pos r_spans]. split; [exact Ep|]. cbn. lia.
  Qed.

  (* ---- the tail of the block ---- *)
  Definition Benign : Prop := len src <= P \/ isSpaceTabOrLineEnding (at_ src P) = true.
  Lemma HT : U <> [] -> Benign \/
    (ikind (nU (len U - 1)) <> IndentKind /\ istart (nU (len U - 1)) < P /\ isSpaceTabOrLineEnding (at_ src (P - 1)) = true /\ at_ src P <> 41).
  Proof. exact (ec_tail _ _ _ _ HEC). Qed.

  Lemma ws_nonzero c : isSpaceTabOrLineEnding c = true -> c <> 0.
  Proof. intros H E. subst c. discriminate. Qed.
  Lemma nullRepl_notws v : isSpaceTabOrLineEnding (nullRepl v) = false.
  Proof. unfold nullRepl. destruct (v =? 0); [reflexivity|]. destruct (v =? 1); reflexivity. Qed.
  Lemma nullRepl_not41 v : nullRepl v <> 41.
  Proof. unfold nullRepl. destruct (v =? 0); [discriminate|]. destruct (v =? 1); discriminate. Qed.

  (* reader classes: alive in an entry, or off the entries at P; [RS true] additionally knows that an off reader reads nothing harmful *)
  Definition RS (s : bool) (r : reader) : Prop :=
    ((exists k, AliveAt r k) \/ (Off r /\ (s = true -> Benign))) /\ r_prev r + 1 <= P /\ 0 <= P.

  Lemma RS_weaken s r : RS s r -> RS false r.
  Proof. intros ([A|[A _]] & B). - split; [left; exact A|exact B]. - split; [right; split; [exact A|discriminate]|exact B]. Qed.
  Lemma RS_pos s r : RS s r -> r_pos r <= P.
  Proof. intros ([(k & A)|[A _]] & B). - pose proof (alive_pos r k A). lia. - destruct A as (_ & -> & _). lia. Qed.
  Lemma RS_alive_lt r k : AliveAt r k -> r_pos r + 1 <= P.
  Proof. intros A. pose proof (alive_pos r k A). lia. Qed.

  Lemma byteOff_benign r : Benign -> byteOff r = 0 \/ isSpaceTabOrLineEnding (byteOff r) = true.
  Proof.
    intros [B|B]; unfold byteOff.
    - destruct (Z.leb_spec (len src) P); [left; reflexivity|lia].
    - destruct (len src <=? P); [left; reflexivity|]. pose proof (ws_nonzero _ B) as N. apply Z.eqb_neq in N. rewrite N. right. exact B.
  Qed.
  Lemma byteOff_not41 r : Off r -> byteOff r <> 41.
  Proof.
    intros HO. unfold byteOff. destruct (Z.leb_spec (len src) P) as [L|L]; [discriminate|].
    destruct (Z.eqb_spec (at_ src P) 0) as [E|E]; [apply nullRepl_not41|].
    assert (HN : U <> []).
    { intros X. unfold P, Bend in L. rewrite X in L. cbn in L. lia. }
    destruct (HT HN) as [[B|B]|(_ & _ & _ & B)]; [lia| |exact B]. intros E4. rewrite E4 in B. discriminate.
  Qed.

  Lemma RS_current s r : RS s r ->
    RS s (snd (current r)) /\ r_pos (snd (current r)) = r_pos r /\ r_prev (snd (current r)) = r_prev r /\
    (fst (current r) = 41 -> exists k, AliveAt (snd (current r)) k) /\
    (s = true -> fst (current r) <> 0 -> isSpaceTabOrLineEnding (fst (current r)) = false -> exists k, AliveAt (snd (current r)) k) /\
    fst (current (snd (current r))) = fst (current r).
  Proof.
    intros ([(k & A)|[A HB]] & B).
    - rewrite (current_alive r k A). cbn [fst snd]. pose proof (AliveAt_foc r k A) as A'.
      split; [split; [left; exists k; exact A'|exact B]|]. split; [reflexivity|]. split; [reflexivity|].
      split; [intros _; exists k; exact A'|]. split; [intros _ _ _; exists k; exact A'|].
      rewrite (current_alive (foc r k) k A'). reflexivity.
    - destruct (current_off r A) as (E1 & E2 & E3 & E4). rewrite E1, E3, E4.
      split; [split; [right; split; [exact E2|exact HB]|rewrite E4; exact B]|]. split; [reflexivity|]. split; [reflexivity|].
      split; [intros X; exfalso; exact (byteOff_not41 r A X)|].
      split.
      + intros Hs N0 Nw. destruct (byteOff_benign r (HB Hs)) as [X|X]; [contradiction|rewrite X in Nw; discriminate].
      + destruct (current_off _ E2) as (F1 & _). rewrite F1. unfold byteOff.
        assert (Ev : r_vpos (snd (current r)) = r_vpos r).
        { unfold current. destruct (len (r_src r) <=? r_pos r); [reflexivity|]. rewrite (curNode_off r A). cbn [okind]. change (0 =? IndentKind) with false. cbv iota.
          destruct (at_ (r_src r) (r_pos r) =? 0); reflexivity. }
        rewrite Ev. reflexivity.
  Qed.

  Lemma byteAt_ws_tail r k : AliveAt r k -> fst (next r) = false -> Benign \/ isSpaceTabOrLineEnding (fst (current r)) = true.
  Proof.
    intros A Hf. pose proof (alive_pos r k A) as (A1 & A2 & A3 & A4 & A5).
    destruct (next_alive r k A) as (_ & _ & [(X & _)|[(X & _)|(_ & Hk & _ & _ & Ep & Hl)]]); [congruence|congruence|].
    assert (HN : U <> []) by (intros X; rewrite X in A2; cbn in A2; lia).
    destruct (HT HN) as [B|(T1 & T2 & T3 & T4)]; [left; exact B|]. right.
    replace (len U - 1) with k in T1 by lia. rewrite (current_alive r k A). cbn [fst]. unfold byteAt.
    apply Z.eqb_neq in T1. rewrite T1. replace (P - 1) with (r_pos r) in T3 by lia.
    pose proof (ws_nonzero _ T3) as N. apply Z.eqb_neq in N. rewrite N. exact T3.
  Qed.

  Lemma RS_next s r : RS s r ->
    RS false (snd (next r)) /\ r_pos r <= r_pos (snd (next r)) /\
    (fst (next r) = true -> RS true (snd (next r)) /\ r_prev (snd (next r)) = r_pos r /\ (exists k, AliveAt r k) /\
        (isSpaceTabOrLineEnding (fst (current r)) = false -> r_pos r + 1 <= r_pos (snd (next r)))) /\
    (fst (next r) = false -> isSpaceTabOrLineEnding (fst (current r)) = false -> RS s (snd (next r))).
  Proof.
    intros ([(k & A)|[A HB]] & B1 & B2).
    - pose proof (alive_pos r k A) as (A1 & A2 & A3 & A4 & A5).
      pose proof (byteAt_ws_tail r k A) as Hws.
      destruct (next_alive r k A) as (Es & Epv & [(X & Y & Z)|[(X & Hk & Ep & Hl & Y)|(X & Hk & Y & Ep & EP & Hl)]]).
      + rewrite X. split; [split; [left; exists k; exact Y|lia]|]. split; [destruct Z as [[_ Z]|[_ Z]]; lia|].
        split; [intros _; split; [split; [left; exists k; exact Y|lia]|split; [exact Epv|split; [exists k; exact A|]]]|discriminate].
        intros Nw. destruct Z as [[Zi _]|[_ Z]]; [|lia]. rewrite (current_alive r k A) in Nw. cbn [fst] in Nw. unfold byteAt in Nw.
        apply Z.eqb_eq in Zi. rewrite Zi in Nw. discriminate.
      + rewrite X. pose proof (eo k (k + 1) ltac:(lia) ltac:(lia) Hk) as Ho.
        assert (HR : RS true (snd (next r))).
        { split; [|lia]. destruct Y as [Y|Y]; [left; exists (k + 1); exact Y|]. right. split; [exact Y|]. intros _.
          (* an off reader reached by a jump stands on an empty last entry: the tail is benign *)
          assert (HN : U <> []) by (intros Q; rewrite Q in A2; cbn in A2; lia).
          destruct (HT HN) as [Bn|(T1 & T2 & T3 & T4)]; [exact Bn|]. exfalso.
          destruct Y as (_ & Yp & _). rewrite Ep in Yp. pose proof (P_ge (k + 1) ltac:(lia)) as Pg. destruct (eb (k + 1) ltac:(lia)) as (E1 & E2 & E3).
          assert (k + 1 = len U - 1).
          { destruct (Z.eq_dec (k + 1) (len U - 1)); [assumption|]. destruct (HE (k + 1) ltac:(lia) ltac:(lia)) as [Q _]. lia. }
          replace (len U - 1) with (k + 1) in T2 by lia. lia. }
        split; [apply (RS_weaken true); exact HR|]. split; [lia|]. split; [intros _; split; [exact HR|split; [exact Epv|split; [exists k; exact A|intros _; lia]]]|discriminate].
      + rewrite X. split; [split; [right; split; [exact Y|discriminate]|lia]|]. split; [lia|]. split; [discriminate|].
        intros _ Nw. destruct (Hws X) as [Bn|W]; [|rewrite W in Nw; discriminate].
        split; [right; split; [exact Y|intros _; exact Bn]|lia].
    - destruct (next_off r A) as (E1 & E2 & E3 & E4). rewrite E1, E3.
      split; [split; [right; split; [exact E2|discriminate]|rewrite E4; lia]|]. split; [lia|]. split; [discriminate|].
      intros _ _. split; [right; split; [exact E2|exact HB]|rewrite E4; lia].
  Qed.

  Lemma RS_new s pos k j : 0 <= j <= k -> k < len U -> istart (nU k) <= pos < iend (nU k) -> RS s (newReader src (from_ U j) pos).
  Proof.
    intros Hj Hk Hp. pose proof (P_ge k ltac:(lia)) as Pg. destruct (eb k ltac:(lia)) as (E1 & E2 & E3).
    split; [left; exists k|cbn [r_prev newReader]; lia].
    split; [reflexivity|]. exists j. cbn [r_spans r_pos newReader]. repeat split; try lia. apply (has_nU k); lia.
  Qed.

  (* ---- the virtual position never goes negative ---- *)
  Lemma cnvp_nonneg s pos : 0 <= computeNullVirtualPosition s pos.
  Proof. unfold computeNullVirtualPosition. destruct (_ || _); [lia|]. apply Z.mod_pos_bound. lia. Qed.
  Lemma vpos_curNode r : r_vpos (snd (curNode r)) = r_vpos r.
  Proof. unfold curNode. destruct (_ <? 0); reflexivity. Qed.
  Lemma vpos_current r : r_vpos (snd (current r)) = r_vpos r.
  Proof.
    unfold current. destruct (_ <=? _); [reflexivity|]. pose proof (vpos_curNode r) as H. destruct (curNode r) as [n r']. cbn [snd] in H.
    destruct (_ =? IndentKind); [exact H|]. destruct (_ =? 0); exact H.
  Qed.
  Lemma vpos_next r : 0 <= r_vpos r -> 0 <= r_vpos (snd (next r)).
  Proof.
    intros H. unfold next. pose proof (vpos_curNode r) as Hc. destruct (curNode r) as [[n|] r1]; cbn [snd] in Hc; [|cbn [snd]; lia].
    destruct (_ && _); [cbn [snd r_vpos]; lia|]. destruct (_ && _).
    - cbn [snd r_vpos]. destruct (_ =? 0); [destruct (_ =? 0); [apply Z.mod_pos_bound; lia|lia]|lia].
    - destruct (nextSpan _) as [[i sp]|]; cbn [snd r_vpos]; [apply cnvp_nonneg|lia].
  Qed.

  (* one step of the reader inside an Indent entry *)
  Lemma next_indent r k : AliveAt r k -> ikind (nU k) = IndentKind -> r_vpos r < iindent (nU k) ->
    fst (next r) = true /\ AliveAt (snd (next r)) k /\ r_pos (snd (next r)) = r_pos r /\ r_prev (snd (next r)) = r_pos r /\
    r_vpos (snd (next r)) = r_vpos r + 1.
  Proof.
    intros A Ei Hv. unfold next. rewrite (curNode_alive r k A). cbn [r_vpos r_pos r_src r_spans].
    apply Z.eqb_eq in Ei. rewrite Ei. apply Z.ltb_lt in Hv. rewrite Hv. cbn [andb fst snd r_pos r_prev r_vpos].
    split; [reflexivity|]. split; [|repeat split]. destruct A as (Es & i & Hi & Hk & Esp & Hh). split; [exact Es|]. exists k.
    cbn [r_spans r_pos]. repeat split; try lia. exact Hh.
  Qed.
  Lemma next_leave r k : AliveAt r k -> ikind (nU k) = IndentKind -> iindent (nU k) <= r_vpos r ->
    r_prev (snd (next r)) = r_pos r /\ iend (nU k) <= r_pos (snd (next r)) /\
    ((fst (next r) = true /\ k + 1 < len U /\ (AliveAt (snd (next r)) (k + 1) \/ Off (snd (next r)))) \/ (fst (next r) = false /\ Off (snd (next r)))).
  Proof.
    intros A Ei Hv. pose proof (alive_pos r k A) as (A1 & A2 & _). pose proof (HW k A2 Ei) as Hw.
    destruct (next_alive r k A) as (_ & Epv & [(X & Y & [[_ Z]|[Z _]])|[(X & Hk & Ep & Hl & Y)|(X & Hk & Y & Ep & EP & Hl)]]).
    - (* staying is impossible *) exfalso. revert X. unfold next. rewrite (curNode_alive r k A). cbn [r_vpos r_pos r_src r_spans].
      apply Z.eqb_eq in Ei. rewrite Ei. destruct (Z.ltb_spec (r_vpos r) (iindent (nU k))); [lia|]. cbn [andb negb].
      revert Y Z. unfold next. rewrite (curNode_alive r k A). cbn [r_vpos r_pos r_src r_spans]. rewrite Ei.
      destruct (Z.ltb_spec (r_vpos r) (iindent (nU k))); [lia|]. cbn [andb negb].
      destruct (nextSpan _) as [[i sp]|] eqn:En; cbn [fst snd r_pos]; [|discriminate]. intros Y Z _.
      rewrite (from_cons k A2) in En. cbn [tl] in En.
      destruct (Z.ltb_spec (k + 1) (len U)) as [L|L]; [|rewrite from_nil in En by lia; discriminate].
      rewrite (nextSpan_from (k + 1)) in En by lia. inversion En; subst i sp. pose proof (eo k (k + 1) ltac:(lia) ltac:(lia) L). lia.
    - contradiction.
    - split; [exact Epv|]. pose proof (eo k (k + 1) ltac:(lia) ltac:(lia) Hk). split; [lia|]. left. tauto.
    - split; [exact Epv|]. split; [lia|]. right. tauto.
  Qed.

  Lemma skipSame_spec : forall fuel r k, AliveAt r k -> ikind (nU k) = IndentKind -> 0 <= r_vpos r ->
    (Z.to_nat (iindent (nU k) - r_vpos r) < fuel)%nat ->
    let r1 := skipSameNode fuel r (nU k) in
    RS false r1 /\ iend (nU k) <= r_pos r1 /\ r_prev r1 = r_pos r.
  Proof.
    induction fuel as [|f IH]; intros r k A Ei Hv Hf; [lia|]. cbn [skipSameNode].
    pose proof (alive_pos r k A) as (A1 & A2 & A3 & A4 & A5).
    destruct (Z.lt_ge_cases (r_vpos r) (iindent (nU k))) as [L|L].
    - destruct (next_indent r k A Ei L) as (X & Y & Zp & Zv & Zw). destruct (next r) as [ok r1]. cbn [fst snd] in *. subst ok. cbn [negb].
      rewrite (curNode_alive r1 k Y). rewrite !Z.eqb_refl. cbn [andb]. fold (foc r1 k).
      destruct (IH (foc r1 k) k (AliveAt_foc r1 k Y) Ei ltac:(cbn [r_vpos foc]; lia) ltac:(cbn [r_vpos foc]; lia)) as (I1 & I2 & I3).
      split; [exact I1|]. split; [exact I2|]. rewrite I3. cbn [r_pos foc]. exact Zp.
    - destruct (next_leave r k A Ei L) as (Epv & Ep & [(X & Hk & Y)|(X & Y)]); destruct (next r) as [ok r1]; cbn [fst snd] in *; subst ok; cbn [negb].
      + assert (HP0 : 0 <= P) by (pose proof (P_ge k A2); lia).
        destruct Y as [Y|Y].
        * rewrite (curNode_alive r1 (k + 1) Y).
          assert (Ne : (istart (nU (k + 1)) =? istart (nU k)) = false).
          { apply Z.eqb_neq. pose proof (eo k (k + 1) ltac:(lia) ltac:(lia) Hk). lia. }
          rewrite Ne, andb_false_r. cbn [andb].
          fold (foc r1 (k + 1)). split; [split; [left; exists (k + 1); apply AliveAt_foc; exact Y|cbn [r_prev foc]; lia]|]. cbn [r_pos r_prev foc]. split; [exact Ep|exact Epv].
        * rewrite (curNode_off r1 Y). fold (dead r1). split; [split; [right; split; [apply Off_dead; exact Y|discriminate]|cbn [r_prev dead]; lia]|]. cbn [r_pos r_prev dead]. split; [exact Ep|exact Epv].
      + assert (HP0 : 0 <= P) by (pose proof (P_ge k A2); lia).
        split; [split; [right; split; [exact Y|discriminate]|lia]|]. split; [exact Ep|exact Epv].
  Qed.

  Lemma RS_pos0 s r : RS s r -> 0 <= r_pos r.
  Proof. intros ([(k & A)|[A _]] & B & C). - pose proof (alive_pos r k A). lia. - destruct A as (_ & -> & _). exact C. Qed.
  Lemma RS_next_strict r k : AliveAt r k -> ikind (nU k) <> IndentKind -> fst (next r) = true -> r_pos r + 1 <= r_pos (snd (next r)).
  Proof.
    intros A Ni Hok. pose proof (alive_pos r k A) as (A1 & A2 & _).
    destruct (next_alive r k A) as (_ & _ & [(_ & _ & [[Z _]|[_ Z]])|[(_ & Hk & Ep & _)|(X & _)]]); [contradiction|lia| |congruence].
    pose proof (eo k (k + 1) ltac:(lia) ltac:(lia) Hk). lia.
  Qed.
  Lemma jumped_true r : jumped r = true -> 0 <= r_prev r /\ r_prev r + 1 < r_pos r.
  Proof. unfold jumped. rewrite andb_true_iff, Z.leb_le, Z.ltb_lt. lia. Qed.
  Lemma jumped_false r : jumped r = false -> r_prev r < 0 \/ r_pos r <= r_prev r + 1.
  Proof. unfold jumped. rewrite andb_false_iff, Z.leb_gt, Z.ltb_ge. lia. Qed.
  Lemma kidsOf_app a b : kidsOf (a ++ b) = kidsOf a ++ kidsOf b. Proof. apply map_app. Qed.
  Lemma okN_mkI k s e : 0 <= s -> s <= e -> okN (ofInline (mkI k s e)).
  Proof. intros A B. cbn. lia. Qed.
  Lemma kids_snoc a0 acc ce x : okF a0 ce (kidsOf acc) -> ce <= istart x -> okN (ofInline x) -> okF a0 (iend x) (kidsOf (acc ++ [x])).
  Proof.
    intros A B C. rewrite kidsOf_app. cbn [kidsOf map]. rewrite <- (pe_ofInline x).
    apply okF_snoc with (le := ce); [exact A|rewrite ps_ofInline; exact B|exact C].
  Qed.
  Lemma kids_text a0 acc ce tk s e' : okF a0 ce (kidsOf acc) -> ce <= s -> 0 <= s -> s <= e' -> okF a0 e' (kidsOf (acc ++ [mkI tk s e'])).
  Proof. intros A B C D. apply (kids_snoc a0 acc ce (mkI tk s e')); [exact A|exact B|apply okN_mkI; assumption]. Qed.
End Rdr.
