(* QRootEnd6.v -- t64-rootend, part 6: every root block is non-empty (0 < bend of its block).
   A copy of the walk of Total.v (lineLoop_total .. allBlocks_total) with this conclusion added: the first closed child of a
   list that satisfies TDefs.GoodL 0 ends after position 0. *)
From Coq Require Import List ZArith Lia Bool.
Import ListNotations.
Require Import Base Tree Rdr Link Collect Html Recog LP Rules Starts Driver Leaf3e RdrBound Rec16 Rec17 Rec18
  L2Kind L2Kind2 L2CC L2Bnd L2BndS NoPanicAll TPanicRange TRdr TDefs TOcp TInv TDesc TStarts TLine TLine2 TShift Total.
Open Scope Z_scope.


Definition okNB3 (s0 : bpst) (x : nb) : Prop :=
  match x with
  | NBBlock r s' => (DI s' /\ (length (buf s') < length (buf s0))%nat) /\ 0 < bend (rb_blk r)
  | NBEof _ => True
  | NBStuck => False
  | NBPanic pn => 1 <= pn <= 8
  end.

Lemma makeRoot_pos s children r s' : GoodL 0 children -> makeRoot children s = Some (r, s') -> 0 < bend (rb_blk r).
Proof.
  intros HG Hm. unfold makeRoot in Hm. destruct children as [|b rest]; [discriminate|]. destruct (isOpen b) eqn:Eo; [discriminate|].
  inversion Hm; subst r s'. cbn [rb_blk]. cbn [GoodL] in HG. rewrite Eo in HG. apply HG.
Qed.
Lemma lineLoop_pos : forall fuel st children ls s ns,
  0 <= ls <= len (buf s) -> bi s = lineEnd (buf s) ls -> bndL ls ns children = true -> (ns = false -> ls = len (buf s)) ->
  ccF children = true -> GoodL 0 children -> (children = [] \/ (0 < ls /\ exists c, children = [c])) ->
  (st = stDescendTerminated -> HM children) ->
  (children = [] -> isBlankLine (from_ (upto (buf s) (bi s)) ls) = false /\ (st = stOpening \/ st = stOpenMatched)) ->
  len (buf s) - ls + 1 <= Z.of_nat fuel ->
  okNB3 s (lineLoop fuel st children ls s).
Proof.
  induction fuel as [|f IH]; intros st children ls s ns Hls Hbi Hc Hn Hcc HG HK Hst Hemp Hfuel.
  { exfalso. cbn in Hfuel. lia. }
  cbn [lineLoop].
  destruct (lineEnd_spec (buf s) ls Hls) as [A B]. rewrite <- Hbi in A, B.
  set (ln := from_ (upto (buf s) (bi s)) ls).
  destruct (line_of (buf s) ls (bi s) ltac:(lia) ltac:(lia)) as [Ll _]. fold ln in Ll.
  set (ns' := if ns then hasByteSuffixEOL ln else false).
  assert (Hc' : bndL (bi s) ns' children = true).
  { unfold ns'. destruct ns.
    - pose proof (bndL_mono ls (bi s) children ltac:(lia) Hc) as Hm. destruct (hasByteSuffixEOL ln); [exact Hm|apply bndL_weaken, Hm].
    - rewrite (Hn eq_refl) in *. replace (bi s) with (len (buf s)) by lia. exact Hc. }
  assert (Hn' : ns' = false -> bi s = len (buf s)).
  { unfold ns'. destruct ns; [|intros _; rewrite (Hn eq_refl) in *; lia].
    intros Ee. destruct (Z.lt_ge_cases (bi s) (len (buf s))) as [Lt|Ge]; [|lia].
    exfalso. rewrite Hbi in Lt. pose proof (line_hasEOL (buf s) ls Hls Lt) as Hh. rewrite <- Hbi in Hh. fold ln in Hh. congruence. }
  pose proof (bnd_processLine (bi s) ns' st children ls (upto (buf s) (bi s)) ltac:(lia) ltac:(lia) ltac:(fold ln; lia)
                ltac:(rewrite len_upto by lia; lia) ltac:(unfold ns'; fold ln; destruct ns; [tauto|discriminate]) Hc') as H1.
  pose proof (cc_processLine st children ls (upto (buf s) (bi s)) Hcc) as H2.
  pose proof (processLine_panic_range st children ls (upto (buf s) (bi s))) as H3.
  pose proof (processLine_good st children ls (upto (buf s) (bi s)) ltac:(lia) HG (UB_of_bnd ls ns children ltac:(lia) Hc) Hcc HK Hst Hemp) as H4.
  cbv zeta in H4.
  destruct (processLine st children ls (upto (buf s) (bi s))) as [[children' st'] pn]. cbn [fst snd] in H1, H2, H3, H4.
  destruct H4 as ((G1 & G1') & G2 & G3 & G4).
  destruct (Z.eqb_spec pn 0) as [Ep|Ep]; cbn [negb]; [|cbn [okNB3]; lia].
  assert (HS : SI s children' ns') by (repeat split; try lia; assumption).
  assert (Hlc : ls = len (buf s) -> lastClosed children').
  { intros E. apply G3. fold ln. apply len0_nil. rewrite Ll. lia. }
  assert (HP : PIc (bi s) children').
  { intros pre c E Ho. destruct (Z.eq_dec ls (len (buf s))) as [El|El].
    - exfalso. destruct (Hlc El) as (pre2 & c2 & E2 & Hc2). rewrite E in E2. apply app_inj_tail in E2. destruct E2 as [_ <-]. congruence.
    - assert (Lt : ls < bi s) by (rewrite Hbi; apply lineEnd_progress; lia).
      split; [lia|]. specialize (G1' pre c E). revert G1'. apply Forall_impl. intros x Hx. lia. }
  destruct (makeRoot children' s) as [[r s']|] eqn:Em.
  - cbn [okNB3]. split; [apply (DI_makeRoot s children' ns' r s' HS H2 G1 HP Em)|apply (makeRoot_pos s children' r s' G1 Em)].
  - (* no root yet: a single open child, and the input has not ended *)
    unfold makeRoot in Em. destruct children' as [|c rest]; [congruence|]. destruct (isOpen c) eqn:Eo; [|discriminate].
    pose proof (GoodL_first_open c rest G1 Eo) as Er. subst rest.
    assert (El : ls <> len (buf s)) by (intros E; exact (lastClosed_single_open c (Hlc E) Eo)).
    assert (Lt : ls < bi s) by (rewrite Hbi; apply lineEnd_progress; lia).
    apply (IH st' [c] (bi s) {| buf := buf s; bi := lineEnd (buf s) (bi s); boff := boff s; bline := bline s; pending := pending s |} ns');
      cbn [buf bi]; try assumption; try reflexivity; try lia.
    + right. split; [lia|exists c; reflexivity].
    + intros E. destruct (G4 E) as [Hl|Hh]; [exfalso; exact (lastClosed_single_open c Hl Eo)|exact Hh].
    + discriminate.
Qed.

Lemma skipLoop_pos : forall fuel s, bi s = 0 -> pending s = [] -> len (buf s) + 2 <= Z.of_nat fuel ->
  match skipLoop fuel s with
  | NBBlock r s' => (DI s' /\ (length (buf s') < length (buf s))%nat) /\ 0 < bend (rb_blk r)
  | NBEof _ => True | NBStuck => False | NBPanic pn => 1 <= pn <= 8 end.
Proof.
  induction fuel as [|f IH]; intros s Hb Hp Hfuel.
  { exfalso. pose proof (len_nonneg (buf s)). cbn in Hfuel. lia. }
  cbn [skipLoop]. cbv zeta. rewrite Hb.
  pose proof (len_nonneg (buf s)) as Hl0.
  destruct (lineEnd_spec (buf s) 0 ltac:(lia)) as [A _].
  destruct (Z.ltb_spec 0 (lineEnd (buf s) 0)) as [L|L]; cbn [negb]; [|exact I].
  destruct (isBlankLine (upto (buf s) (lineEnd (buf s) 0))) eqn:Eb.
  - set (s1 := {| buf := from_ (buf s) (lineEnd (buf s) 0); bi := 0; boff := _; bline := _; pending := pending s |}).
    assert (Hlen : len (buf s1) = len (buf s) - lineEnd (buf s) 0) by (cbn [buf s1]; apply len_from; lia).
    specialize (IH s1 eq_refl Hp ltac:(rewrite Hlen; lia)).
    destruct (skipLoop f s1) as [r s'| | |pn]; try exact IH. destruct IH as [[I1 I2] I3]. split; [|exact I3]. split; [exact I1|].
    unfold len in Hlen. lia.
  - pose proof (lineLoop_pos f 0 [] 0 {| buf := buf s; bi := lineEnd (buf s) 0; boff := boff s; bline := bline s; pending := pending s |} true) as HL.
    cbn [buf bi] in HL. specialize (HL ltac:(lia) eq_refl eq_refl ltac:(discriminate) eq_refl I (or_introl eq_refl) ltac:(discriminate)).
    specialize (HL ltac:(intros _; split; [exact Eb|left; reflexivity]) ltac:(lia)).
    destruct (lineLoop f 0 [] 0 _) as [r s'| | |pn]; exact HL.
Qed.

Lemma nextBlock_pos s : DI s -> okNB3 s (nextBlock (3 + length (buf s))%nat s).
Proof.
  intros ((ns & HS) & Hcc & HG & HP). unfold nextBlock.
  destruct (makeRoot (pending s) s) as [[r s']|] eqn:Em.
  - cbn [okNB3]. split; [apply (DI_makeRoot s (pending s) ns r s' HS Hcc HG HP Em)|apply (makeRoot_pos s (pending s) r s' HG Em)].
  - destruct HS as (Hb & Hc & Hn). pose proof (len_nonneg (buf s)) as Hl0.
    destruct (pending s) as [|b0 rest] eqn:Ep.
    + set (s1 := {| buf := from_ (buf s) (bi s); bi := 0; boff := _; bline := _; pending := [] |}).
      assert (Hlen : len (buf s1) = len (buf s) - bi s) by (cbn [buf s1]; apply len_from; lia).
      pose proof (skipLoop_pos (3 + length (buf s))%nat s1 eq_refl eq_refl ltac:(rewrite Hlen; unfold len; lia)) as H.
      destruct (skipLoop _ s1) as [r s'| | |pn]; cbn [okNB3]; try exact H. destruct H as [[I1 I2] I3]. split; [|exact I3]. split; [exact I1|]. unfold len in Hlen. lia.
    + unfold makeRoot in Em. destruct (isOpen b0) eqn:Eo; [|discriminate].
      pose proof (GoodL_first_open b0 rest HG Eo) as Er. subst rest.
      destruct (HP [] b0 eq_refl Eo) as [Hpos _].
      apply (lineLoop_pos _ 0 [b0] (bi s) {| buf := buf s; bi := lineEnd (buf s) (bi s); boff := boff s; bline := bline s; pending := [b0] |} ns);
        cbn [buf bi]; try assumption; try reflexivity; try lia.
      * right. split; [exact Hpos|exists b0; reflexivity].
      * discriminate.
      * discriminate.
      * unfold len. lia.
Qed.

Lemma allBlocks_pos : forall fuel s acc, DI s -> Forall (fun r => 0 < bend (rb_blk r)) acc ->
  Forall (fun r => 0 < bend (rb_blk r)) (fst (allBlocks fuel s acc)).
Proof.
  induction fuel as [|f IH]; intros s acc HD Ha; [exact Ha|]. cbn [allBlocks].
  pose proof (nextBlock_pos s HD) as H.
  destruct (nextBlock (3 + length (buf s)) s) as [r s'| | |pn]; cbn [okNB3 fst] in *; try exact Ha.
  destruct H as [[H1 H2] H3]. apply IH; [exact H1|]. apply Forall_app. split; [exact Ha|constructor; [exact H3|constructor]].
Qed.

Theorem parseBlocks_roots_nonempty : forall input, Forall (fun r => 0 < bend (rb_blk r)) (fst (parseBlocks input)).
Proof.
  intros input. unfold parseBlocks. apply allBlocks_pos; [|constructor].
  split; [exists true; unfold SI; cbn [buf bi pending]; pose proof (len_nonneg (pad input)); repeat split; try lia|].
  split; [reflexivity|]. split; [exact I|]. intros pre c E. cbn [pending] in E. destruct pre; discriminate.
Qed.
Print Assumptions parseBlocks_roots_nonempty.
