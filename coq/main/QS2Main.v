(* QS2Main.v -- T58: the block-quote clause of C09 at the block layer, for every non-empty document without tab, CR and NUL
   (the hypothesis "no '['" of T51 is removed, and the lastLineBlank flags of the quote's children are now exact).

   Statement (QuoteSimDefs):  parseBlocks_quote_statement :=
     forall D, tabFree D -> D <> [] -> exists lb, parseBlocks (quote D) = ([quoteRoot D lb (quoteKids D (fst (parseBlocks D)))], 0).

   MAIN THEOREM:   parseBlocks_quote_T58 : parseBlocks_quote_statement            (closed under the global context)

   Structure of the proof (all files new in T58):
   1. reader bisimulation (positions related by the per-entry shift sg; Text nodes of a collected range are split at line ends):
        QRdrBase    RR / RX, RR_curNode, RR_current, RR_next, RR_remaining (and bundled versions), the record SGood
        QRdrLink    every scanner of Link.v (skipLinkSpace, skipSpacesAndTabs, readEOL, parseLinkLabel, parseLinkDestination, parseLinkTitle)
        QCutsDef/QCuts, QRdrCollect   q_transformLinkReferenceSpan, q_collectTextNodes (the relation includes the splitting: flat_map qK)
        QRdrFuel, QRdrOcp, QRdrKids   q_ocp_loop, q_onCloseParagraph, q_onCloseParagraph_setext: the hook equation Hocp
   2. relocation with link reference definition blocks: QS2Reloc.reloc_line; one line of both runs: QS2Drv1.line_step2 / line_step3;
      between lines and across the cut of a root block: QS2Drv2 (strengthen, la_geB2, MO2_cut, ceB0_cut)
   3. nesting with the lastLineBlank flags of the closed children exact: QS2Nest, QS2QLine.processLine_quoted2
   4. the plain run flags a closed last child that ends before the end of the line just read: QS2Flag*.processLine_gap_flag
      (with the run invariant TopPara for the end of input)
   5. the two machines side by side: QS2Drv5.parseBlocks_quote_sim3 (QS2Drv4.parseBlocks_quote_sim2 is the version up to the flags)
   6. the maps of the simulation are the maps of the statement: QS2Spec.MO2_qB, QS2Spec2.parseBlocks_quote. *)
From Coq Require Import List ZArith Lia Bool.
Import ListNotations.
Require Import Base Tree LP Driver QuoteSimDefs QuoteSimNest QuoteSimSpec QRdrBase QRdrLink QRdrCollect QRdrOcp QS2Reloc QS2Drv1 QS2Drv4 QS2Spec QS2Drv5 QS2Spec2 QS2Flag.
Open Scope Z_scope.

Theorem parseBlocks_quote_T58 : parseBlocks_quote_statement.
Proof. exact parseBlocks_quote. Qed.
Print Assumptions parseBlocks_quote_T58.

(* spelled out *)
Theorem parseBlocks_quote_T58' : forall D, tabFree D -> D <> [] ->
  exists lb, parseBlocks (quote D) = ([quoteRoot D lb (quoteKids D (fst (parseBlocks D)))], 0).
Proof. exact parseBlocks_quote. Qed.
Print Assumptions parseBlocks_quote_T58'.

(* the weaker form proved first (flags of the top-level children erased); it follows from the main theorem as well *)
Theorem parseBlocks_quote_T58_partial : forall D, tabFree D -> D <> [] ->
  exists lb kidsQ, parseBlocks (quote D) = ([quoteRoot D lb kidsQ], 0) /\ map er kidsQ = map er (quoteKids D (fst (parseBlocks D))).
Proof. exact parseBlocks_quote_partial. Qed.
Print Assumptions parseBlocks_quote_T58_partial.

(* the statements of the reader bisimulation and of the flag fact, for the record *)
Check @QRdrBase.RR_next.
Check @QRdrBase.RR_current.
Check @QRdrBase.RR_curNode.
Check @QRdrBase.RR_remaining.
Check @QRdrLink.q_parseLinkDestination.
Check @QRdrCollect.q_collectTextNodes.
Check @QRdrCollect.q_transformLinkReferenceSpan.
Check @QRdrOcp.q_ocp_loop.
Check @QRdrOcp.q_onCloseParagraph.
Check @QRdrOcp.q_onCloseParagraph_setext.
Check @QS2Flag.processLine_gap_flag.
