From Coq Require Import List ZArith Lia Bool.
Import ListNotations.
Require Import Base Tables Utf8 Tree Rdr Link Collect Html Recog LP Rules Starts Driver.
Require Import Leaf3e RdrBound BSRdr BSRdr2 BSOrph ShapesBase ExRdr ExOcp EolCRRenderBlkRdr.
Require ShapesR EolCRRdr.
Open Scope Z_scope.

(* ================================================================================================
   T61 (block half), part 2: the invariant, and its proof for onCloseParagraph / closeBlock (ExOcp.v with gL in the place
   of gB and the buffer-dependent locN in the place of locX).
     locN B b  (kept over the whole run): in a definition block, the span of every LinkDestination entry that is sane
               (0 <= start <= end) ends inside the buffer B and holds no line ending byte;
     locQ4 src b (established at the start of every line, kept until the last close of the line): the entries of an open
               paragraph are lines of the source (gL); open setext heading: as in ExOcp.locQ.
   ================================================================================================ *)
Notation noEolb := EolCRRdr.noEolb.

Definition spanOKb (B : bytes) (u : inline) : bool :=
  negb ((0 <=? istart u) && (istart u <=? iend u)) || ((iend u <=? len B) && noEolb (sub B (istart u) (iend u))).
Definition EN (B : bytes) (u : inline) : bool := negb (ikind u =? LinkDestinationKind) || spanOKb B u.
Definition locN (B : bytes) (b : block) : bool := negb (bkind b =? LinkReferenceDefinitionKind) || forallb (EN B) (bik b).
Definition locQ4 (src : bytes) (b : block) : bool :=
  negb ((bend b <? 0) && isPSb (bkind b)) ||
  (gL src (bik b) && (negb (bkind b =? SetextHeadingKind) || lpok src (bik b))).

Lemma spanOKb_intro B u : (0 <= istart u -> istart u <= iend u -> iend u <= len B /\ noEolb (sub B (istart u) (iend u)) = true) -> spanOKb B u = true.
Proof.
  intros H. unfold spanOKb. destruct (Z.leb_spec 0 (istart u)) as [A|A]; [|reflexivity]. destruct (Z.leb_spec (istart u) (iend u)) as [C|C]; [|reflexivity].
  cbn [andb negb orb]. destruct (H A C) as [D E]. rewrite E, andb_true_r. apply Z.leb_le, D.
Qed.
Lemma spanOKb_elim B u : spanOKb B u = true -> 0 <= istart u -> istart u <= iend u -> iend u <= len B /\ noEolb (sub B (istart u) (iend u)) = true.
Proof.
  unfold spanOKb. intros H A C. destruct (Z.leb_spec 0 (istart u)); [|lia]. destruct (Z.leb_spec (istart u) (iend u)); [|lia].
  cbn [andb negb orb] in H. apply andb_true_iff in H. destruct H as [D E]. apply Z.leb_le in D. tauto.
Qed.

(* a range of the source without line ending, as a byte string *)
Lemma nE_noEolb src s e : 0 <= s -> s <= e -> e <= len src -> (forall p, s <= p < e -> nE src p) -> noEolb (sub src s e) = true.
Proof.
  intros A C D H. unfold EolCRRdr.noEolb. apply ShapesBase.forallb_at. intros i Hi. rewrite ShapesBase.len_sub_in in Hi by lia.
  rewrite ShapesBase.at_sub by lia. specialize (H (s + i) ltac:(lia)). unfold nE, eolb in H. apply orb_false_iff in H. destruct H as [P Q].
  rewrite P, Q. reflexivity.
Qed.

Section X.
  Variables src B : bytes.
  Hypothesis Hsub : forall s e, 0 <= s -> e <= len src -> e <= len B /\ sub B s e = sub src s e.

  Fixpoint inv4 (b : block) : bool :=
    match b with Blk K s e bk ik a n c l lb =>
      locQ4 src (Blk K s e bk ik a n c l lb) && locN B (Blk K s e bk ik a n c l lb) && forallb inv4 bk end.
  Definition inv4L (l : list block) : bool := forallb inv4 l.
  Lemma inv4_eq b : inv4 b = locQ4 src b && locN B b && inv4L (bkids b). Proof. destruct b; reflexivity. Qed.
  Lemma inv4_parts b : inv4 b = true -> locQ4 src b = true /\ locN B b = true /\ inv4L (bkids b) = true.
  Proof. rewrite inv4_eq. intros H. apply andb_true_iff in H. destruct H as [H C]. apply andb_true_iff in H. tauto. Qed.
  Lemma inv4_mk b : locQ4 src b = true -> locN B b = true -> inv4L (bkids b) = true -> inv4 b = true.
  Proof. intros A B' C. rewrite inv4_eq, A, B', C. reflexivity. Qed.
  Lemma inv4L_app a b : inv4L (a ++ b) = inv4L a && inv4L b. Proof. apply forallb_app. Qed.
  Lemma inv4L_snoc l x : inv4L l = true -> inv4 x = true -> inv4L (l ++ [x]) = true.
  Proof. intros A B'. rewrite inv4L_app, A. cbn. rewrite B'. reflexivity. Qed.

  (* a closed paragraph / heading, whatever its entries *)
  Lemma inv4_closedPS b : 0 <= bend b -> isPSb (bkind b) = true -> inv4L (bkids b) = true -> inv4 b = true.
  Proof.
    intros He Hk Hc. apply inv4_mk; [| |exact Hc].
    - unfold locQ4. destruct (Z.ltb_spec (bend b) 0); [lia|reflexivity].
    - unfold locN. rewrite (isPS_notref _ Hk). reflexivity.
  Qed.
  Lemma inv4_cut orig pos ik : 0 <= bend orig -> isPSb (bkind orig) = true -> inv4L (bkids orig) = true ->
    inv4 (set_bik (set_bstart orig pos) ik) = true.
  Proof.
    intros A B' C. destruct (cut_fields orig pos ik) as (E1 & E2 & E3). apply inv4_closedPS; [rewrite E2; exact A|rewrite E3; exact B'|rewrite E1; exact C].
  Qed.
  Lemma inv4_refDef s d kids : forallb (EN B) kids = true -> inv4 (refDefBlock s d kids) = true.
  Proof.
    intros H. unfold refDefBlock. apply inv4_mk; [unfold locQ4; cbn [bkind]; change (isPSb LinkReferenceDefinitionKind) with false; rewrite andb_false_r; reflexivity| |reflexivity].
    unfold locN. cbn [bkind bik]. rewrite H. apply orb_true_r.
  Qed.

  (* the destination entry made from a span that parseLinkDestination reported *)
  Lemma EN_dest s e rf ks : 0 <= s -> s <= e -> e <= len src -> (forall p, s <= p < e -> nE src p) ->
    EN B (Inl LinkDestinationKind s e 0 rf ks) = true.
  Proof.
    intros A C D H. unfold EN. cbn [ikind]. change (LinkDestinationKind =? LinkDestinationKind) with true. cbn [negb orb].
    apply spanOKb_intro. cbn [istart iend]. intros _ _. destruct (Hsub s e A D) as [P Q]. split; [exact P|]. rewrite Q. apply nE_noEolb; assumption.
  Qed.
  Lemma EN_other K s e i rf ks : K <> LinkDestinationKind -> EN B (Inl K s e i rf ks) = true.
  Proof. intros H. unfold EN. cbn [ikind]. apply Z.eqb_neq in H. rewrite H. reflexivity. Qed.

  Lemma spanValid_elim sp : spanValid sp = true -> 0 <= fst sp /\ fst sp <= snd sp.
  Proof.
    unfold spanValid. intros H. apply andb_true_iff in H. destruct H as [H C]. apply andb_true_iff in H. destruct H as [A _].
    apply Z.leb_le in A, C. tauto.
  Qed.

  Lemma N_ocp : forall fuel rfuel orig r result, RL src r -> 0 <= bend orig -> isPSb (bkind orig) = true ->
    inv4L (bkids orig) = true -> inv4L result = true -> inv4L (ocp_loop fuel rfuel src orig None r result) = true.
  Proof.
    induction fuel as [|f IH]; intros rfuel orig r result HR He Hk Hc Hres.
    { cbn [ocp_loop]. apply inv4L_snoc; [exact Hres|apply inv4_closedPS; assumption]. }
    assert (Hkeep : inv4L (result ++ [orig]) = true) by (apply inv4L_snoc; [exact Hres|apply inv4_closedPS; assumption]).
    cbn [ocp_loop]. cbv zeta.
    pose proof (RL_parseLinkLabel src rfuel r HR) as HR1.
    destruct (parseLinkLabel rfuel r) as [[lspan linner] r1]. cbn [snd] in HR1.
    destruct (negb (spanValid lspan)); [exact Hkeep|].
    pose proof (RL_current src r1 HR1) as HR2. destruct (current r1) as [c r2]. cbn [snd] in HR2.
    destruct (negb (c =? 58)); [exact Hkeep|].
    pose proof (RL_next src r2 HR2) as HR3. destruct (next r2) as [ok3 r3]. cbn [snd] in HR3.
    pose proof (RL_skipLinkSpace src rfuel r3 HR3) as HR4. destruct (skipLinkSpace rfuel r3) as [ok r4]. cbn [snd] in HR4.
    destruct (negb ok); [exact Hkeep|].
    pose proof (RL_parseLinkDestination src rfuel r4 HR4) as HR5. pose proof (pld_ne src rfuel r4 HR4) as HD.
    destruct (parseLinkDestination rfuel r4) as [[dspan dtext] r5]. cbn [fst snd] in HR5, HD.
    destruct (negb (spanValid dspan)) eqn:Evd; [exact Hkeep|]. apply negb_false_iff in Evd. specialize (HD Evd). destruct HD as [HD1 HD2].
    destruct (spanValid_elim dspan Evd) as [Hd0 Hd1].
    pose proof (RL_readEOL src rfuel r5 HR5) as HR6. destruct (readEOL rfuel r5) as [destEOL r6]. cbn [snd] in HR6.
    pose proof (RL_current src r6 HR6) as HR7. destruct (current r6) as [c6 r7]. cbn [snd] in HR7.
    destruct (_ && _ && _); [exact Hkeep|].
    set (labelInline := Inl LinkLabelKind _ _ 0 _ _). set (destInline := Inl LinkDestinationKind _ _ 0 [] _).
    assert (Hl : EN B labelInline = true) by (apply EN_other; discriminate).
    assert (Hd : EN B destInline = true) by (apply EN_dest; assumption).
    assert (H2 : inv4L (result ++ [refDefBlock (fst lspan) destEOL [labelInline; destInline]]) = true).
    { apply inv4L_snoc; [exact Hres|]. apply inv4_refDef. cbn [forallb]. rewrite Hl, Hd. reflexivity. }
    pose proof (RL_skipLinkSpace src rfuel r7 HR7) as HR8. destruct (skipLinkSpace rfuel r7) as [ok2 r8]. cbn [snd] in HR8.
    destruct (negb ok2); [exact H2|].
    pose proof (RL_parseLinkTitle src rfuel r8 HR8) as HR9. destruct (parseLinkTitle rfuel r8) as [[tspan ttext] r9]. cbn [snd] in HR9.
    assert (Hcut : forall pos ik', inv4 (set_bik (set_bstart orig pos) ik') = true) by (intros; apply inv4_cut; assumption).
    assert (Hcut' : forall pos ik', let o := set_bik (set_bstart orig pos) ik' in 0 <= bend o /\ isPSb (bkind o) = true /\ inv4L (bkids o) = true).
    { intros pos ik' o. destruct (cut_fields orig pos ik') as (E1 & E2 & E3). fold o in E1, E2, E3. rewrite E1, E2, E3. tauto. }
    destruct (negb (spanValid tspan)).
    { destruct (destEOL <? 0); [exact Hkeep|].
      destruct (nodeIndexForPosition (bik orig) (r_pos r6) <? 0); [exact H2|].
      destruct (Hcut' (r_pos r6) (from_ (bik orig) (nodeIndexForPosition (bik orig) (r_pos r6)))) as (C1 & C2 & C3).
      apply IH; assumption. }
    pose proof (RL_readEOL src rfuel r9 HR9) as HR10. destruct (readEOL rfuel r9) as [titleEOL r10]. cbn [snd] in HR10.
    destruct (titleEOL <? 0).
    { destruct (destEOL <? 0); [exact Hkeep|].
      destruct (nodeIndexForPosition (bik orig) (r_pos r6) <? 0); [exact H2|].
      rewrite app_assoc. apply inv4L_snoc; [exact H2|apply Hcut]. }
    set (titleInline := Inl LinkTitleKind _ _ 0 [] _).
    assert (Ht : EN B titleInline = true) by (apply EN_other; discriminate).
    assert (H3 : inv4L (result ++ [refDefBlock (fst lspan) titleEOL [labelInline; destInline; titleInline]]) = true).
    { apply inv4L_snoc; [exact Hres|]. apply inv4_refDef. cbn [forallb]. rewrite Hl, Hd, Ht. reflexivity. }
    destruct (nodeIndexForPosition (bik orig) (r_pos r10) <? 0); [exact H3|].
    destruct (Hcut' (r_pos r10) (from_ (bik orig) (nodeIndexForPosition (bik orig) (r_pos r10)))) as (C1 & C2 & C3).
    apply IH; assumption.
  Qed.

  Lemma N_onCloseParagraph orig : 0 <= bend orig -> isPSb (bkind orig) = true -> inv4L (bkids orig) = true ->
    gL src (bik orig) = true -> (bkind orig = SetextHeadingKind -> lpok src (bik orig) = true) ->
    inv4L (onCloseParagraph src orig) = true.
  Proof.
    intros He Hk Hc Hg Hl. unfold onCloseParagraph. destruct (bik orig) as [|first rest] eqn:Eb.
    - cbn [inv4L forallb]. rewrite (inv4_closedPS orig He Hk Hc). reflexivity.
    - cbv zeta.
      pose proof (RL_newReader src (first :: rest) (istart first) Hg) as HR.
      destruct (Z.eqb_spec (bkind orig) SetextHeadingKind) as [Ek|Ek].
      + rewrite (ocp_orphan_irrel _ _ src (paraOf (first :: rest)) orig _ _ [] []).
        * apply N_ocp; try assumption. reflexivity.
        * cbn [paraOf bik]. symmetry. exact Eb.
        * specialize (Hl Ek). unfold lpok, onCloseParagraph in Hl. cbn [paraOf bik bkind] in Hl.
          change (ParagraphKind =? SetextHeadingKind) with false in Hl. cbv iota zeta in Hl. exact Hl.
      + apply N_ocp; try assumption. reflexivity.
  Qed.

  (* ---- setters ---- *)
  Lemma inv4_set_bn b v : inv4 (set_bn b v) = inv4 b. Proof. destruct b; reflexivity. Qed.
  Lemma inv4_set_bchar b v : inv4 (set_bchar b v) = inv4 b. Proof. destruct b; reflexivity. Qed.
  Lemma inv4_set_bindent b v : inv4 (set_bindent b v) = inv4 b. Proof. destruct b; reflexivity. Qed.
  Lemma inv4_set_bloose b v : inv4 (set_bloose b v) = inv4 b. Proof. destruct b; reflexivity. Qed.
  Lemma inv4_set_blast b v : inv4 (set_blast b v) = inv4 b. Proof. destruct b; reflexivity. Qed.
  Lemma inv4_set_bkids b ks : inv4 b = true -> inv4L ks = true -> inv4 (set_bkids b ks) = true.
  Proof.
    intros H Hk. apply inv4_parts in H. destruct H as (A & B' & _). destruct b as [K s e bk ik a n c l lb].
    cbn [set_bkids]. rewrite inv4_eq. cbn [bkids]. rewrite Hk, andb_true_r. apply andb_true_iff. split; [exact A|exact B'].
  Qed.
  Lemma inv4_set_bend_open b e : bend b < 0 -> 0 <= e -> inv4 b = true -> inv4 (set_bend b e) = true.
  Proof.
    intros Ho He H. apply inv4_parts in H. destruct H as (A & B' & C). destruct b as [K s e0 bk ik a n c l lb]. cbn [bend] in Ho.
    cbn [set_bend]. apply inv4_mk; [|exact B'|exact C].
    unfold locQ4. cbn [bend]. destruct (Z.ltb_spec e 0); [lia|reflexivity].
  Qed.
  Lemma inv4_set_bik_free b ik' : isPSb (bkind b) = false -> bkind b <> LinkReferenceDefinitionKind -> inv4 b = true -> inv4 (set_bik b ik') = true.
  Proof.
    intros Hp Hr H. apply inv4_parts in H. destruct H as (_ & _ & C). destruct b as [K s e bk ik a n c l lb]. cbn [bkind] in *.
    cbn [set_bik]. apply inv4_mk; [| |exact C].
    - unfold locQ4. cbn [bkind]. rewrite Hp, andb_false_r. reflexivity.
    - unfold locN. cbn [bkind]. apply Z.eqb_neq in Hr. rewrite Hr. reflexivity.
  Qed.
  Lemma inv4_newBlock k s : k <> LinkReferenceDefinitionKind -> inv4 (newBlock k s) = true.
  Proof.
    intros Hr. unfold newBlock. apply inv4_mk; [| |reflexivity].
    - unfold locQ4. cbn [bend bkind bik gL andb]. destruct (Z.eqb_spec k SetextHeadingKind); [|rewrite orb_true_r; reflexivity].
      subst k. apply orb_true_r.
    - unfold locN. cbn [bkind]. apply Z.eqb_neq in Hr. rewrite Hr. reflexivity.
  Qed.

  Lemma inv4L_removelast l : inv4L l = true -> inv4L (removelast l) = true.
  Proof. apply forallb_sub. intros x. apply removelast_In. Qed.
  Lemma inv4_lastBlock b c : inv4 b = true -> lastBlock b = Some c -> inv4 c = true.
  Proof.
    intros H Hl. apply inv4_parts in H. destruct H as (_ & _ & H). unfold inv4L in H. rewrite forallb_forall in H.
    apply H. eapply lastBlock_In. exact Hl.
  Qed.
  Lemma inv4_set_lastBlocks b repl : inv4 b = true -> inv4L repl = true -> inv4 (set_lastBlocks b repl) = true.
  Proof.
    intros H Hr. unfold set_lastBlocks. apply inv4_set_bkids; [assumption|].
    rewrite inv4L_app, Hr, andb_true_r. apply inv4L_removelast. apply inv4_parts in H. tauto.
  Qed.
  Lemma inv4_updAt_at f : forall d b, inv4 b = true ->
    (forall x, getAt d b = Some x -> inv4 x = true -> inv4 (f x) = true) -> inv4 (updAt d f b) = true.
  Proof.
    induction d as [|d IH]; intros b H Hf; [apply Hf; [reflexivity|assumption]|]. cbn [updAt].
    destruct (lastBlock b) as [c|] eqn:El; [|assumption].
    apply inv4_set_lastBlocks; [assumption|]. unfold inv4L. cbn [forallb]. rewrite andb_true_r.
    apply IH; [eapply inv4_lastBlock; eassumption|]. intros x Hx. apply Hf. cbn [getAt]. rewrite El. exact Hx.
  Qed.
  Lemma inv4_updAt f : (forall b, inv4 b = true -> inv4 (f b) = true) -> forall d b, inv4 b = true -> inv4 (updAt d f b) = true.
  Proof. intros Hf d b H. apply inv4_updAt_at; [exact H|]. intros x _. apply Hf. Qed.

  Lemma inv4_onCloseList b : inv4 b = true -> inv4 (onCloseList b) = true.
  Proof.
    intros H. unfold onCloseList. cbv zeta. destruct (bloose b || _); [|assumption].
    apply inv4_set_bkids; [rewrite inv4_set_bloose; assumption|].
    apply inv4_parts in H. destruct H as (_ & _ & H). unfold inv4L in *. rewrite forallb_forall in *.
    intros x Hx. apply in_map_iff in Hx. destruct Hx as (y & <- & Hy). rewrite inv4_set_bloose. apply H, Hy.
  Qed.

  Lemma N_closeBlock e : 0 <= e -> forall fuel b, inv4 b = true -> inv4L (closeBlock fuel src b e) = true.
  Proof.
    intros He. induction fuel as [|f IH]; intros b H; [cbn; rewrite H; reflexivity|]. cbn [closeBlock].
    destruct (isOpen b) eqn:Eo; cbn [negb]; [|cbn; rewrite H; reflexivity]. cbv zeta.
    unfold isOpen in Eo. apply Z.ltb_lt in Eo.
    assert (Hcl : forall x, inv4 x = true ->
              inv4 (match lastBlock x with Some c => set_lastBlocks x (closeBlock f src c e) | None => x end) = true).
    { intros x Hx. destruct (lastBlock x) as [c|] eqn:El; [|assumption].
      apply inv4_set_lastBlocks; [assumption|]. apply IH. eapply inv4_lastBlock; eassumption. }
    assert (H1 : inv4 (set_bend b e) = true) by (apply inv4_set_bend_open; assumption).
    assert (Ek : bkind (set_bend b e) = bkind b) by (destruct b; reflexivity). rewrite Ek.
    destruct (Z.eqb_spec (bkind b) ListKind) as [EL|NL].
    { cbn [inv4L forallb]. rewrite Hcl; [reflexivity|]. apply inv4_onCloseList. assumption. }
    destruct (Z.eqb_spec (bkind b) IndentedCodeBlockKind) as [EI|NI].
    { cbn [inv4L forallb]. rewrite Hcl; [reflexivity|]. unfold onCloseIndented. apply inv4_set_bik_free; [rewrite Ek, EI; reflexivity|rewrite Ek, EI; discriminate|exact H1]. }
    destruct ((bkind b =? ParagraphKind) || (bkind b =? SetextHeadingKind)) eqn:Ep.
    { pose proof H as H'. apply inv4_parts in H'. destruct H' as (A & _ & C). unfold locQ4 in A.
      destruct (Z.ltb_spec (bend b) 0) as [_|]; [|lia]. change ((bkind b =? ParagraphKind) || (bkind b =? SetextHeadingKind)) with (isPSb (bkind b)) in Ep.
      rewrite Ep in A. cbn [andb negb orb] in A. apply andb_true_iff in A. destruct A as [A1 A2].
      apply N_onCloseParagraph.
      - destruct b; cbn [set_bend bend]. exact He.
      - rewrite Ek. exact Ep.
      - destruct b; cbn [set_bend bkids] in *. exact C.
      - destruct b; cbn [set_bend bik] in *. exact A1.
      - rewrite Ek. intros E. replace (bik (set_bend b e)) with (bik b) by (destruct b; reflexivity).
        rewrite E in A2. cbn in A2. exact A2. }
    cbn [inv4L forallb]. rewrite Hcl; [reflexivity|assumption].
  Qed.
End X.

Print Assumptions N_closeBlock.
