From Coq Require Import List ZArith Lia Bool.
Import ListNotations.
Require Import Base Tree Rdr Link Collect Html Recog LP Rules Starts Driver L2Kind L2CC BSDef BSRdr BSTree BSOcp BSOrph BSClose BSLine1 BSLine2 BSLine3 BSLine4
  GramTree GramLP GramLP2 Cursor CursorX NoPanic12 ShDef ShRdr ShClose ShEnv ShLine1 ShLine2 ShFresh ShStarts2.
Require Import Props ShapesBase ShapesA EntBase EntOcpDefs EntOcp EntTree EntCur EntLP1 EntLP2 BndDefs BndBDefs BndB1 BndB2 BndB3.
Open Scope Z_scope.

(* ================================================================== *)
(* BndB4: the match rules and descendOpenBlocks.                       *)
(* ================================================================== *)

(* no indentation: the rest of the line does not start with a blank *)
Lemma indent0_len p : Itab p -> 0 <= li p <= len (line p) -> indent p <= 0 -> indentLength (rest p) = 0.
Proof.
  intros Hi Hc H0. pose proof (indentLength_nonneg (rest p)) as Hn.
  destruct (Z.eq_dec (indentLength (rest p)) 0) as [E|N]; [exact E|]. exfalso.
  rewrite (indent_eq p Hi) in H0.
  assert (Hw : wsRun p <> []).
  { intros E. pose proof (len_wsRun p) as L. rewrite E in L. unfold len in L. cbn in L. lia. }
  pose proof (wsWidth_pos p ltac:(lia) Hw). lia.
Qed.
Lemma len_bai p : 0 <= li p <= len (line p) -> len (bytesAfterIndent p) = len (line p) - li p - indentLength (rest p).
Proof.
  intros Hc. unfold bytesAfterIndent. rewrite trimLeft_from.
  pose proof (indentLength_nonneg (rest p)) as Hn. pose proof (indentLength_le (rest p)) as Hl.
  rewrite len_from by lia. rewrite (len_rest p Hc). reflexivity.
Qed.

Section Desc.
  Variable B : bytes.
  Hypothesis HVB : asciiOK B.
  Hypothesis HV0 : boundary_ok B 0 = true.
  Hypothesis Hocp : OcpG B.
  Notation g := (gdb B).
  Notation XP := (XP B).
  Notation Cg := (Cg B).

  (* collecting the rest of the line after the indentation *)
  Lemma gB_collect_rest p kind : EP B p -> gB g (root p) = true -> Cg p ->
    gB g (root (collectInline p kind (len (bytesAfterIndent p)))) = true.
  Proof.
    intros HE Hg Hc. pose proof HE as (A & (A0 & A1) & _ & A3 & _).
    apply (gB_collectInline B HVB); [exact A|split; assumption|exact Hg|exact Hc|].
    intros s e Hs He Gs. destruct He as [->|(_ & -> & _)]; [exact Gs|]. rewrite (len_bai p A1).
    assert (Es : s = li p + indentLength (rest p)).
    { destruct Hs as [[-> Hi]|[-> _]]; [rewrite (indent0_len p A3 A1 Hi); lia|reflexivity]. }
    rewrite Es. replace (lineStart p + (li p + indentLength (rest p) + (len (line p) - li p - indentLength (rest p)))) with (lineStart p + len (line p)) by lia.
    apply (g_H B HVB), A.
  Qed.

  Lemma gB_matchRule q : XP q -> cleanA q -> gB g (root (snd (matchRule q))) = true.
  Proof.
    intros [HE Hg] Hcl. pose proof HE as (A & A1 & A2 & A3 & A4).
    assert (Hsame : forall q', cstep q q' -> gB g (root q') = true) by (intros q' Hq; rewrite (root_cstep _ _ Hq); exact Hg).
    unfold matchRule. cbv zeta.
    destruct (_ || _); [exact Hg|].
    destruct (containerKind q =? ListItemKind).
    { unfold matchListItem. destruct (isRestBlank q); [destruct (negb _)|destruct (_ <=? _)]; cbn [snd]; try exact Hg; apply Hsame, cstep_consumeIndent. }
    destruct (containerKind q =? BlockQuoteKind).
    { unfold matchBlockQuote. cbv zeta. destruct (_ <=? _); [exact Hg|]. destruct (negb _); [exact Hg|]. cbn [snd].
      apply Hsame. unfold eatQuoteMarker. cbv zeta.
      assert (H2 : cstep q (advance (consumeIndent q (indent q)) 1)) by (eapply cstep_trans; [apply cstep_consumeIndent|apply cstep_advance]).
      destruct (0 <? _); [eapply cstep_trans; [exact H2|apply cstep_consumeIndent]|exact H2]. }
    destruct (containerKind q =? FencedCodeBlockKind).
    { unfold matchFenced. cbv zeta. destruct (if _ <? _ then _ else false); cbn [snd]; apply Hsame; [apply cstep_consumeLine|apply cstep_consumeIndent]. }
    destruct (containerKind q =? IndentedCodeBlockKind).
    { unfold matchIndented. cbv zeta. destruct (_ <? _); [destruct (negb _)|]; cbn [snd]; try exact Hg; apply Hsame, cstep_consumeIndent. }
    destruct (containerKind q =? HTMLBlockKind); [|exact Hg].
    unfold matchHTML. destruct (htmlEnd _ _); [|exact Hg]. destruct (isRestBlank q); [exact Hg|]. cbn [snd].
    rewrite (root_cstep _ _ (cstep_consumeLine _)). apply gB_collect_rest; [exact HE|exact Hg|apply (g_cur B HVB HV0); assumption].
  Qed.

  Lemma descend_X : forall fuel p d, XP p -> clean p -> cdepth p = d -> paraNB p ->
    gB g (root (snd (descend_loop fuel p d))) = true.
  Proof.
    induction fuel as [|f IH]; intros p d HX Hcl Ed Hnb; [exact (proj2 HX)|].
    pose proof HX as [HE Hg].
    cbn [descend_loop]. cbv zeta.
    destruct (getAt (S d) (root p)) as [c|] eqn:Ec; [|exact Hg].
    destruct (isOpen c) eqn:Eo; cbn [negb]; [|exact Hg].
    assert (H1 : EP B (withCont p (Some (S d)))) by (apply EP_withCont; [exact HE|eauto]).
    destruct (negb (hasMatch (bkind c))); [cbn [fst snd]; exact Hg|].
    set (q := withState (withCont p (Some (S d))) stDescending).
    assert (Hq : EP B q) by (apply EP_withState, H1).
    assert (Xq : XP q) by (split; [exact Hq|exact Hg]).
    assert (Hclq : clean q) by exact Hcl.
    pose proof (gB_matchRule q Xq (cleanA_clean q Hclq)) as G2.
    destruct (matchRule_ent B q Hq eq_refl) as (M1 & M2 & M3). pose proof (cdepth_matchRule q) as Ecd. change (cdepth q) with (S d) in Ecd.
    destruct (matchRule q) as [ok p2]. cbn [fst snd] in M1, M2, M3, Ecd, G2.
    destruct (Z.eqb_spec (state p2) stDescendTerminated) as [Et|Et].
    { cbn [fst snd]. pose proof M1 as (Ae & (C0 & C1) & _).
      assert (Eli : li p2 = len (line p2)).
      { destruct M2 as [[_ M2]|[_ M2]]; [exact M2|rewrite M2 in Et; discriminate]. }
      assert (X2 : XP p2) by (split; assumption).
      apply (X_closeAt B HVB Hocp p2 d (lineStart p2 + li p2) d X2); [lia|lia|lia|rewrite Eli; apply bdy_H, Ae|rewrite Eli; apply (g_H B HVB), Ae]. }
    destruct M2 as [[M2 _]|[M2 _]]; [contradiction|].
    assert (Hcl2 : clean p2) by (eapply clean_gstep; eassumption).
    assert (R2 : root p2 = root p) by (rewrite (root_cstep q p2 (gstep_cstep _ _ M2)); reflexivity).
    destruct (negb ok) eqn:Eok; [cbn [fst snd]; exact G2|].
    apply negb_false_iff in Eok. subst ok.
    assert (Hnb2 : paraNB p2).
    { intros Ek. apply (M3 eq_refl). unfold containerKind, contBlock in *. rewrite Ecd, R2 in Ek. exact Ek. }
    apply (IH p2 (S d)); [split; assumption|exact Hcl2|exact Ecd|exact Hnb2].
  Qed.
End Desc.
