(* QuoteSimTest.v -- T51: the statements tested by vm_compute (done BEFORE proving), the refutation of the naive statement,
   and instances showing that the hypotheses of the proved theorem are satisfiable.
   Documents: 90 hand-written ones covering every block kind (paragraph, ATX and setext heading, thematic break, bullet and ordered
   lists, tight / loose, nested, fenced and indented code, HTML blocks of several start conditions, link reference definitions,
   block quotes with lazy continuation, blank lines in every position, missing final newline) and all strings of length <= 4 over
   the alphabet  a ' ' LF - > # ` [ .  (Longer exhaustive runs -- four alphabets, lengths <= 6 / 7, about 1.7 million documents -- were
   done during development with the same checker; they are not repeated here to keep the compile time small.) *)
From Coq Require Import List ZArith Lia Bool String Ascii.
Import ListNotations.
Require Import Base Tree LP Driver SliceBase QuoteSimDefs QuoteSimNest QuoteSimMap QuoteSimReloc QuoteSimAux QuoteSimLines QuoteSimDrv1 QuoteSimDrv4 QuoteSimSpec QuoteSimMain.
Open Scope Z_scope.
Definition leqb {A} (f : A -> A -> bool) := fix go (l l' : list A) : bool := match l, l' with [], [] => true | x :: t, y :: t' => f x y && go t t' | _, _ => false end.
Fixpoint ieqb (a b : inline) {struct a} : bool :=
  match a, b with Inl k s e n r ks, Inl k' s' e' n' r' ks' =>
    (k =? k') && (s =? s') && (e =? e') && (n =? n') && leqb Z.eqb r r' &&
    (fix go (l : list inline) (l' : list inline) := match l, l' with [], [] => true | x :: t, y :: t' => ieqb x y && go t t' | _, _ => false end) ks ks' end.
Fixpoint beqb (a b : block) {struct a} : bool :=
  match a, b with Blk k s e bk ik ind n c l lb, Blk k' s' e' bk' ik' ind' n' c' l' lb' =>
    (k =? k') && (s =? s') && (e =? e') && (ind =? ind') && (n =? n') && (c =? c') && Bool.eqb l l' && Bool.eqb lb lb' &&
    leqb ieqb ik ik' &&
    (fix go (l : list block) (l' : list block) := match l, l' with [], [] => true | x :: t, y :: t' => beqb x y && go t t' | _, _ => false end) bk bk' end.
Definition reqb (a b : rootB) := (rb_line a =? rb_line b) && (rb_start a =? rb_start b) && (rb_end a =? rb_end b) && leqb Z.eqb (rb_src a) (rb_src b) && beqb (rb_blk a) (rb_blk b).
Definition check (D : bytes) : bool :=
  let '(l, c) := parseBlocks (quote D) in (c =? 0) && leqb reqb l [quoteRoot D false (quoteKids D (fst (parseBlocks D)))].
Definition checkN (D : bytes) : bool :=
  let '(l, c) := parseBlocks (quote D) in (c =? 0) && leqb reqb l [quoteRoot D false (map (fun r => nB D (shiftB (rb_start r) (rb_blk r))) (fst (parseBlocks D)))].

Definition s2b (s : string) : bytes := map (fun a => Z.of_nat (nat_of_ascii a)) (list_ascii_of_string s).
Definition n : string := String (ascii_of_nat 10) EmptyString.
Local Open Scope string_scope.
Definition docs : list string := [
  "a"; "a" ++ n; "a" ++ n ++ "b" ++ n; "a" ++ n ++ n ++ "b" ++ n; "# h" ++ n ++ n ++ "b";
  "# h" ++ n ++ "b"; "a" ++ n ++ "===" ++ n; "a" ++ n ++ "---" ++ n ++ "b"; "***" ++ n;
  "- x" ++ n; "- x" ++ n ++ "- y" ++ n; "- x" ++ n ++ n ++ "- y" ++ n; "- x" ++ n ++ n ++ "  z" ++ n ++ "- y";
  "1. a" ++ n ++ "   - b" ++ n ++ "   - c" ++ n ++ "2. d" ++ n;
  "```" ++ n ++ "x" ++ n ++ n ++ "y" ++ n ++ "```" ++ n; "```go" ++ n ++ "x"; "~~~" ++ n ++ n ++ n;
  "    code" ++ n ++ n ++ "    more" ++ n ++ "x"; "    code" ++ n ++ n ++ n;
  "<div>" ++ n ++ "x" ++ n ++ n ++ "y"; "<!-- c" ++ n ++ n ++ "d -->" ++ n ++ "e"; "<pre>" ++ n ++ "a" ++ n ++ "</pre>" ++ n;
  "[a]: /u" ++ n; "[a]: /u" ++ n ++ "'t'" ++ n ++ "x" ++ n; "[a]: /u" ++ n ++ "[b]: /v 'w'" ++ n ++ n ++ "p";
  "[a]:" ++ n ++ "/u" ++ n ++ "'t" ++ n ++ "t'" ++ n; "x" ++ n ++ "[a]: /u"; "[a]: /u" ++ n ++ "===" ++ n;
  "> q" ++ n ++ "lazy" ++ n; "> q" ++ n ++ "> r" ++ n ++ n ++ "p"; "> - a" ++ n ++ ">   b" ++ n;
  "- a" ++ n ++ "lazy" ++ n; "- a" ++ n ++ n ++ n ++ "b"; n; " " ++ n; n ++ "a"; "a" ++ n ++ " " ++ n ++ "b";
  "a  " ++ n ++ "b"; "  a" ++ n ++ "   b"; "   # h #  " ++ n; "- " ++ n ++ "  x"; "-" ++ n ++ n ++ "  x";
  "* a" ++ n ++ "+ b" ++ n ++ "1) c"; "- a" ++ n ++ "  - b" ++ n ++ n ++ "    c" ++ n ++ "- d";
  "a" ++ n ++ "    b"; "- a" ++ n ++ n ++ "      code"; "```" ++ n ++ "```"; "#" ++ n; "a" ++ n ++ "="; " " ; "  " ++ n ++ n;
  "a" ++ n ++ n; "# h" ++ n ++ n ++ n ++ "# g"; "***" ++ n ++ " " ++ n ++ "---";
  "[a" ++ n ++ "]: /u" ++ n; "[a" ++ n ++ "b]: <>" ++ n ++ "  'x" ++ n ++ "   y'" ++ n; "[a]: /u 't" ++ n ++ n ++ "t'"; "[a\]]: /u (t\)" ++ n ++ "&amp;)" ++ n ++ "rest";
  "[a]: /u" ++ n ++ "'t' junk" ++ n; "[a]: /u" ++ n ++ "[b" ++ n; "x" ++ n ++ "===" ++ n ++ "[a]: /u" ++ n ++ "===" ++ n;
  "[a]: /u" ++ n ++ "x" ++ n ++ "---" ++ n ++ "y"; "   [a]:   /u   " ++ n ++ "   'tt'   " ++ n;
  "<a href=x>" ++ n ++ "y" ++ n; "<?x" ++ n ++ "?>" ++ n; "<script>" ++ n ++ n ++ "</script> t" ++ n ++ "p";
  "```" ++ n ++ "  x" ++ n ++ " ```" ++ n ++ "````" ++ n ++ "```" ++ n; "  ~~~ a&amp;b \* c" ++ n ++ "   x" ++ n ++ " y" ++ n ++ "  ~~~  " ++ n;
  "     code" ++ n ++ "   " ++ n ++ "      x" ++ n; "- a" ++ n ++ n ++ "  b" ++ n ++ n ++ "c"; "1. " ++ n ++ n ++ "a"; "10) x" ++ n ++ "11) y" ++ n ++ n ++ n ++ "12) z";
  "- - - a" ++ n ++ "    - b"; "- a" ++ n ++ " - b" ++ n ++ "  - c" ++ n ++ "   - d" ++ n ++ "    - e";
  "> > a" ++ n ++ "> b" ++ n ++ "c"; ">" ++ n ++ "> a" ++ n ++ ">" ++ n; ">a" ++ n ++ ">" ++ n ++ n ++ "> b";
  "> ```" ++ n ++ "> x" ++ n ++ "y"; "> # h" ++ n ++ "> ---" ++ n ++ "> a" ++ n ++ "> ===" ++ n; "- > a" ++ n ++ "  > b" ++ n ++ "- c";
  "* * *" ++ n ++ "- - -" ++ n ++ "___"; "# a" ++ n ++ "## b ##" ++ n ++ "####### c" ++ n ++ "#" ++ n ++ "# #";
  "a" ++ n ++ "# b" ++ n ++ "c" ++ n ++ "- d" ++ n ++ "e" ++ n ++ "```" ++ n ++ "f"; "a" ++ n ++ "1. b" ++ n ++ "2. c" ++ n ++ "<div>" ++ n ++ "d";
  "- a" ++ n ++ n ++ "- b" ++ n ++ n ++ n ++ "- c" ++ n; "- a" ++ n ++ "  - b" ++ n ++ n ++ "- c"; "- a" ++ n ++ n ++ "  ```" ++ n ++ n ++ "  ```" ++ n ++ "- b";
  "-   a" ++ n ++ n ++ "    b"; "-     code" ++ n ++ n ++ "  p"; "1.  a" ++ n ++ n ++ "    b" ++ n ++ "   c"
].
Local Close Scope string_scope.

(* the full statement, instance D (the flag lb of the quote is existential: it is erased before comparing) *)
Definition check2 (D : bytes) : bool :=
  match parseBlocks (quote D) with
  | ([r], 0) => reqb {| rb_line := rb_line r; rb_start := rb_start r; rb_end := rb_end r; rb_src := rb_src r; rb_blk := set_blast (rb_blk r) false |}
                     (quoteRoot D false (quoteKids D (fst (parseBlocks D))))
  | _ => false end.
Fixpoint allStr (alpha : bytes) (k : nat) : list bytes :=
  match k with O => [[]] | S k' => flat_map (fun s => map (fun c => c :: s) alpha) (allStr alpha k') end.
Definition failing (alpha : bytes) (k : nat) : list bytes := filter (fun D => negb (check2 D)) (allStr alpha k).
Definition A1 : bytes := [97; 32; 10; 45; 62; 35; 96; 91].

Example docs_count : List.length docs = 90%nat. Proof. vm_compute. reflexivity. Qed.
Example full_statement_on_docs : forallb (fun s => check2 (s2b s)) docs = true. Proof. vm_compute. reflexivity. Qed.
Example full_statement_exhaustive_A1 : (failing A1 1, failing A1 2, failing A1 3, failing A1 4) = ([], [], [], []). Proof. vm_compute. reflexivity. Qed.
(* the quote's own flag can be true: "    code\n\n\n" *)
Example quote_flag_true :
  let D := s2b ("    code" ++ n ++ n ++ n)%string in
  parseBlocks (quote D) = ([quoteRoot D true (quoteKids D (fst (parseBlocks D)))], 0).
Proof. vm_compute. reflexivity. Qed.
(* D = [] is excluded: quote [] = [] has no root *)
Example empty_excluded : parseBlocks (quote []) = ([], 0). Proof. vm_compute. reflexivity. Qed.

(* ---- the naive statement is false ---- *)
Lemma tabFree_dec_ok D : forallb (fun c => negb (c =? 9) && negb (c =? 13) && negb (c =? 0)) D = true -> tabFree D.
Proof.
  intros H. unfold tabFree. apply Forall_forall. intros c Hc. rewrite forallb_forall in H. specialize (H c Hc).
  apply andb_prop in H. destruct H as [H H0]. apply andb_prop in H. destruct H as [H9 H13].
  apply negb_true_iff, Z.eqb_neq in H9. apply negb_true_iff, Z.eqb_neq in H13. apply negb_true_iff, Z.eqb_neq in H0. tauto.
Qed.
Lemma no91_dec_ok D : forallb (fun c => negb (c =? 91)) D = true -> no91 D.
Proof. intros H. unfold no91. apply Forall_forall. intros c Hc. rewrite forallb_forall in H. specialize (H c Hc). apply negb_true_iff, Z.eqb_neq in H. exact H. Qed.

(* the naive checker finds these two (flags: "# h\n\nb"; Text split: "[a]:\n/u\n't\nt'\n") *)
Example naive_fails_flags : checkN (s2b ("# h" ++ n ++ n ++ "b")%string) = false. Proof. vm_compute. reflexivity. Qed.
Example naive_fails_split : checkN (s2b ("[a]:" ++ n ++ "/u" ++ n ++ "'t" ++ n ++ "t'" ++ n)%string) = false. Proof. vm_compute. reflexivity. Qed.

Theorem parseBlocks_quote_naive_refuted : ~ parseBlocks_quote_naive_statement.
Proof.
  intros H. specialize (H (s2b ("# h" ++ n ++ n ++ "b")%string)).
  destruct H as [lb H]; [apply tabFree_dec_ok; vm_compute; reflexivity|vm_compute; discriminate|].
  vm_compute in H. destruct lb; discriminate H.
Qed.
Print Assumptions parseBlocks_quote_naive_refuted.
(* independent of the flags: the multi-line title *)
Theorem parseBlocks_quote_naive_refuted_split :
  let D := s2b ("[a]:" ++ n ++ "/u" ++ n ++ "'t" ++ n ++ "t'" ++ n)%string in
  tabFree D /\ D <> [] /\
  forall lb, parseBlocks (quote D) <> ([quoteRoot D lb (map (fun r => nB D (shiftB (rb_start r) (rb_blk r))) (fst (parseBlocks D)))], 0).
Proof.
  cbv zeta. split; [apply tabFree_dec_ok; vm_compute; reflexivity|]. split; [vm_compute; discriminate|].
  intros lb H. vm_compute in H. destruct lb; discriminate H.
Qed.
Print Assumptions parseBlocks_quote_naive_refuted_split.

(* ---- the proved theorem (QuoteSimMain.parseBlocks_quote_partial), tested directly on the documents without '[' ---- *)
Definition has91 (D : bytes) : bool := existsb (fun c => c =? 91) D.
Definition checkP (D : bytes) : bool :=
  match parseBlocks (quote D) with
  | ([r], 0) =>
      reqb {| rb_line := rb_line r; rb_start := rb_start r; rb_end := rb_end r; rb_src := rb_src r; rb_blk := set_bkids (set_blast (rb_blk r) false) [] |}
           (quoteRoot D false []) &&
      leqb beqb (map er (bkids (rb_blk r))) (map er (map (fun r0 => MO D (rb_start r0) (rb_blk r0)) (fst (parseBlocks D))))
  | _ => false end.
(* MO and the map of the full statement agree (on documents without '[' every inline entry lies in one line) *)
Definition checkMO (D : bytes) : bool :=
  leqb beqb (map (fun r0 => MO D (rb_start r0) (rb_blk r0)) (fst (parseBlocks D)))
            (map (fun r0 => qB D (shiftB (rb_start r0) (rb_blk r0))) (fst (parseBlocks D))).
Definition docs91 : list bytes := filter (fun D => negb (has91 D) && negb (match D with [] => true | _ => false end)) (map s2b docs).
Example docs91_count : List.length docs91 = 75%nat. Proof. vm_compute. reflexivity. Qed.
Example partial_on_docs : forallb checkP docs91 = true. Proof. vm_compute. reflexivity. Qed.
Example MO_is_qB_on_docs : forallb checkMO docs91 = true. Proof. vm_compute. reflexivity. Qed.
Definition A2 : bytes := [97; 32; 10; 45; 62; 35; 96].
Example partial_exhaustive_A2 :
  forallb (fun D => checkP D && checkMO D) (allStr A2 1 ++ allStr A2 2 ++ allStr A2 3 ++ allStr A2 4) = true.
Proof. vm_compute. reflexivity. Qed.

(* the headline theorem (QuoteSimMain.parseBlocks_quote_main_partial): children compared with quoteKids up to the top-level flag *)
Definition checkH (D : bytes) : bool :=
  match parseBlocks (quote D) with
  | ([r], 0) =>
      reqb {| rb_line := rb_line r; rb_start := rb_start r; rb_end := rb_end r; rb_src := rb_src r; rb_blk := set_bkids (set_blast (rb_blk r) false) [] |}
           (quoteRoot D false []) &&
      leqb beqb (map er (bkids (rb_blk r))) (map er (quoteKids D (fst (parseBlocks D))))
  | _ => false end.
Example headline_on_docs : forallb checkH docs91 = true. Proof. vm_compute. reflexivity. Qed.
Example headline_instance :
  let D := s2b ("1. a" ++ n ++ n ++ "   ```" ++ n ++ "   x" ++ n ++ n ++ "<div>" ++ n ++ "    y" ++ n ++ "***")%string in
  exists lb kidsQ, parseBlocks (quote D) = ([quoteRoot D lb kidsQ], 0) /\ map er kidsQ = map er (quoteKids D (fst (parseBlocks D))).
Proof.
  cbv zeta. apply parseBlocks_quote_main_partial; [apply tabFree_dec_ok; vm_compute; reflexivity|apply no91_dec_ok; vm_compute; reflexivity|vm_compute; discriminate].
Qed.

(* the hypotheses are satisfiable and the theorem applies: an instance *)
Example partial_instance :
  let D := s2b ("- a" ++ n ++ n ++ "  b" ++ n ++ "> c" ++ n ++ "# d")%string in
  exists lb kidsQ, parseBlocks (quote D) = ([quoteRoot D lb kidsQ], 0) /\
    map er kidsQ = map er (map (fun r => MO D (rb_start r) (rb_blk r)) (fst (parseBlocks D))).
Proof.
  cbv zeta. apply parseBlocks_quote_partial; [apply tabFree_dec_ok; vm_compute; reflexivity|apply no91_dec_ok; vm_compute; reflexivity|vm_compute; discriminate].
Qed.
