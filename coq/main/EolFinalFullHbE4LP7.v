(* T63-F1 (D2).  Copy of En3LP7.v over the invariant EolFinalFullHbE4Tree.en = En3Tree.en plus one clause (lastX): the last entry of a
   PARAGRAPH holds a byte that is not space / tab / line ending, and once the paragraph is closed it ends at the end of the block.
   Changes w.r.t. En3LP7.v: module names; the places that build or use that clause; closing lemmas take "a paragraph is open -> e = lineStart". *)
From Coq Require Import List ZArith Lia Bool.
Import ListNotations.
Require Import Base Tree Rdr Link Collect Html Recog LP Rules Starts Driver L2Kind L2CC BSDef BSRdr BSTree BSOcp BSOrph BSClose BSLine1 BSLine2 BSLine3 BSLine4 BSLine5 BSLine7 BSLine8 BSErase BSLine9 BSLine10
  GramTree GramLP GramLP2 Cursor CursorX NoPanic12 Rec16 ShDef ShRdr ShClose ShEnv ShLine1 ShLine2 ShFresh ShStarts2.
Require Import ShapesBase EntBase EntOcpDefs EntOcp EolFinalFullHbE4Tree EntCur EolFinalFullHbE4Par EolFinalFullHbE4LP1 EolFinalFullHbE4LP2 EolFinalFullHbE4LP3 EolFinalFullHbE4LP4 EolFinalFullHbE4LP5 EolFinalFullHbE4LP6.
Open Scope Z_scope.

(* ================================================================================================
   T28, part 10: addLineText.
   ================================================================================================ *)

(* ---- the lastLineBlank flags do not matter ---- *)
Lemma en_erase B M : forall b, en B M (eraseB b) <-> en B M b.
Proof.
  fix IH 1. intros [k s e bk ik a n c l lb]. cbn [eraseB en].
  assert (Ha : allP (en B M) (map eraseB bk) <-> allP (en B M) bk).
  { induction bk as [|x r IHr]; [tauto|]. cbn [map allP]. rewrite (IH x), IHr. tauto. }
  assert (Hc : forall l0, closedL (map eraseB l0) <-> closedL l0) by (intros l0; apply closedL_map; intros x; apply (erase_fields x)).
  unfold ikOK. rewrite ShDef.removelast_map, !Hc, Ha. tauto.
Qed.
Lemma en_transfer B M x x' : eraseB x = eraseB x' -> en B M x -> en B M x'.
Proof. intros E H. apply en_erase. rewrite <- E. apply en_erase, H. Qed.

(* ---- a non-blank rest of the line starts with a byte that is not a line ending ---- *)
Lemma nonblank_first B p i : envB B p -> 0 <= i -> isBlankLine (from_ (line p) i) = false ->
  i < len (line p) /\ ~ isEOLz (at_ (line p) i).
Proof.
  intros He Hi Hb. destruct (Z.lt_ge_cases i (len (line p))) as [L|L].
  2:{ rewrite Rec16.from_nil in Hb by lia. discriminate. }
  split; [exact L|]. intros Hz. rewrite (line_at B p i He ltac:(lia)) in Hz.
  pose proof He as (_ & _ & E3 & E4 & _ & (_ & _ & _ & K & _)).
  destruct (K (lineStart p + i) ltac:(lia) Hz) as [E|(E1 & E2 & E3')].
  - assert (Ei : i = len (line p) - 1) by lia. rewrite (Rec16.from_cons (line p) i) in Hb by lia. rewrite Rec16.from_nil in Hb by lia.
    unfold isBlankLine in Hb. cbn [forallb] in Hb. rewrite andb_true_r in Hb. rewrite (line_at B p i He ltac:(lia)) in Hb.
    unfold isSpaceTabOrLineEnding in Hb. destruct Hz as [Hz|Hz]; rewrite Hz in Hb; discriminate.
  - assert (Ei : i = len (line p) - 2) by lia. rewrite (Rec16.from_cons (line p) i) in Hb by lia. rewrite (Rec16.from_cons (line p) (i + 1)) in Hb by lia.
    rewrite Rec16.from_nil in Hb by lia. unfold isBlankLine in Hb. cbn [forallb] in Hb. rewrite andb_true_r in Hb.
    rewrite (line_at B p i He ltac:(lia)), (line_at B p (i + 1) He ltac:(lia)) in Hb. rewrite E2 in Hb.
    replace (lineStart p + (i + 1)) with (lineStart p + len (line p) - 1) in Hb by lia. rewrite E3' in Hb. discriminate.
Qed.

Definition contOpen (p : lp) : Prop := forall x, getAt (cdepth p) (root p) = Some x -> bend x < 0.

(* the Unparsed entry for the rest of the line from position L *)
Lemma unpOK_rest B p L : envB B p -> 0 <= L -> isBlankLine (from_ (line p) L) = false ->
  unpOK B (lineStart p + len (line p)) (mkI UnparsedKind (lineStart p + L) (lineStart p + len (line p))).
Proof.
  intros He HL Hb. destruct (nonblank_first B p L He HL Hb) as [H1 H2]. pose proof He as (_ & _ & E3 & E4 & _ & E6).
  unfold unpOK, mkI. cbn [ikind ikids istart iend]. split; [reflexivity|]. split; [reflexivity|]. split; [lia|]. split; [lia|]. split; [lia|]. split.
  - apply (lineOK_tail B (lineStart p)); [exact E6|lia|left; lia].
  - rewrite <- (line_at B p L He ltac:(lia)). exact H2.
Qed.

(* E4: a non-blank rest of the line holds a byte that is not a space, tab or line ending byte *)
Lemma blank_false_ex : forall l, isBlankLine l = false -> exists k, 0 <= k < len l /\ isSpaceTabOrLineEnding (at_ l k) = false.
Proof.
  induction l as [|c r IH]; intros H; [discriminate|]. change (isBlankLine (c :: r)) with (isSpaceTabOrLineEnding c && isBlankLine r) in H.
  rewrite ShapesBase.len_cons. destruct (isSpaceTabOrLineEnding c) eqn:Ec.
  - cbn [andb] in H. destruct (IH H) as (k & Hk & Hb). exists (k + 1). split; [lia|]. rewrite ShapesBase.at_S' by lia. replace (k + 1 - 1) with k by lia. exact Hb.
  - exists 0. split; [pose proof (len_nonneg r); lia|]. exact Ec.
Qed.
Lemma ink_rest B p L : envB B p -> 0 <= L -> isBlankLine (from_ (line p) L) = false ->
  inkU B (mkI UnparsedKind (lineStart p + L) (lineStart p + len (line p))).
Proof.
  intros He HL Hb. destruct (nonblank_first B p L He HL Hb) as [H1 _]. destruct (blank_false_ex _ Hb) as (k & Hk & Hc).
  rewrite ShapesBase.len_from in Hk by lia. rewrite ShapesBase.at_from in Hc by lia.
  exists (lineStart p + (L + k)). cbn [mkI istart iend]. split; [lia|]. rewrite <- (line_at B p (L + k) He ltac:(lia)).
  unfold isSpaceTabOrLineEnding in Hc. apply orb_false_iff in Hc. destruct Hc as [Hc H13]. apply orb_false_iff in Hc. destruct Hc as [Hc H10].
  apply orb_false_iff in Hc. destruct Hc as [H32 H9]. apply Z.eqb_neq in H32, H9, H10, H13. repeat split; assumption.
Qed.

(* ---- appending a line to an open paragraph ---- *)
Lemma en_para_append B p x g : envB B p -> curP p -> en B (lineStart p) x -> bkind x = ParagraphKind -> bend x < 0 -> bkids x = [] ->
  lines B (lineStart p + len (line p)) g -> (forall j, In j g -> lineStart p + li p <= istart j) ->
  (bik x <> [] -> forall j, In j g -> gapE (at_ B (istart j - 1))) ->
  (forall L, lastI (bik x ++ g) = Some L -> iend L = lineStart p + len (line p) /\ inkU B L) ->
  en B (lineStart p + len (line p)) (set_bik x (bik x ++ g)).
Proof.
  intros He (C0 & C1) Hx HK Ho Hnk Hg Hlo Hgap Hlast. pose proof Hx as Hx'. rewrite en_eq in Hx'. destruct Hx' as ((A & _ & _) & C).
  destruct (A (or_introl HK)) as (L1 & L2 & L3). rewrite bound_open in L1 by exact Ho. specialize (L3 Ho).
  assert (HM : lineStart p <= lineStart p + len (line p)) by (pose proof (len_nonneg (line p)); lia).
  rewrite en_eq. destruct x as [K s e bk ik a n c l lb]. cbn [set_bik bkind bstart bend bik bkids] in *. subst K. subst bk.
  split; [|exact I]. split; [|split; [|split; [|split]]].
  - intros _. rewrite bound_open by exact Ho. split; [|split].
    + apply (lines_app B (lineStart p)); [exact HM|exact L1|exact Hg|]. intros u j Hu Hj.
      destruct (lines_entry B _ ik u L1 Hu) as (U1 & U2 & U3 & _). split; [specialize (Hlo j Hj); lia|].
      apply Hgap; [intros E; rewrite E in Hu; destruct Hu|exact Hj].
    + intros u Hu. apply in_app_or in Hu. destruct Hu as [Hu|Hu]; [apply L2, Hu|specialize (Hlo u Hu); lia].
    + intros _. lia.
  - intros E; discriminate.
  - intros _; discriminate.
  - intros; lia.
  - split; [intros (X & _); contradiction|]. split; [|split; [intros; exact I|split; [exact I|apply xk_PS; left; reflexivity]]].
    intros _ L HL. destruct (Z.ltb_spec e 0); [|lia]. destruct (Hlast L HL) as [Hl1 Hl2]. split; [exact Hl1|]. intros _. split; [exact Hl2|intros; lia].
Qed.

Lemma lastI_snoc (l : list inline) u : lastI (l ++ [u]) = Some u.
Proof. unfold lastI. rewrite rev_app_distr. reflexivity. Qed.

(* the byte before the cursor, for a continuation line of a paragraph that already has entries *)
Lemma gap_before B p ik : envB B p -> curP p -> clean p -> 0 < len (line p) -> lines B (lineStart p) ik -> ik <> [] -> gapE (at_ B (lineStart p + li p - 1)).
Proof.
  intros He (C0 & C1) Hcl Hpos Hl Hne. destruct ik as [|u r]; [contradiction|].
  destruct (lines_entry B _ _ u Hl (or_introl eq_refl)) as (U1 & U2 & U3 & _).
  destruct (Z.eq_dec (li p) 0) as [E0|N0].
  - rewrite E0. replace (lineStart p + 0 - 1) with (lineStart p - 1) by lia. destruct He as (_ & _ & _ & E4 & [E|[E|E]] & _); [lia|right; exact E|lia].
  - left. replace (lineStart p + li p - 1) with (lineStart p + (li p - 1)) by lia. rewrite <- (line_at B p (li p - 1) He ltac:(lia)). apply Hcl. lia.
Qed.

Lemma isBlank_cons c r : isBlankLine (c :: r) = isSpaceTabOrLineEnding c && isBlankLine r. Proof. reflexivity. Qed.

Lemma accepts_free k : acceptsLines k = true -> k <> ParagraphKind -> k <> ATXHeadingKind -> freeK k.
Proof.
  unfold acceptsLines. intros H N1 N2. repeat (apply orb_true_iff in H; destruct H as [H|H]); apply Z.eqb_eq in H; subst k;
    try contradiction; repeat split; discriminate.
Qed.
Lemma accepts_code k : acceptsLines k = true -> k <> ParagraphKind -> k <> ATXHeadingKind -> isCode k = true \/ k = HTMLBlockKind.
Proof.
  unfold acceptsLines. intros H N1 N2. repeat (apply orb_true_iff in H; destruct H as [H|H]); apply Z.eqb_eq in H; subst k;
    try contradiction; try (left; reflexivity); right; reflexivity.
Qed.
Lemma notaccepts_notpara k : acceptsLines k = false -> k <> ParagraphKind.
Proof. intros H E. subst k. discriminate. Qed.

(* the state after the lastLineBlank bookkeeping *)
Definition sameUpTo (p p' : lp) : Prop :=
  eraseB (root p') = eraseB (root p) /\ cdepth p' = cdepth p /\ curS p p' /\ envOf p' = envOf p /\ state p' = state p.

Lemma EP_sameUpTo B p p' : sameUpTo p p' -> ccP p' -> EP B p -> EP B p'.
Proof.
  intros (E1 & E2 & E3 & E4 & E5) Hcc HE. pose proof HE as (A & A1 & A2 & (A3 & ASO) & A4).
  apply (EP_tree B p); [exact E4|exact E3|exact Hcc| | |exact HE]; [|eapply en_transfer; [symmetry; exact E1|exact A4]].
  intros j y' Hj Hy'. rewrite E2 in Hj. destruct (getAt_transfer (root p) (root p') j y' E1 Hy') as (y & X1 & X2).
  rewrite (bend_transfer y y' X2). apply (ASO j y Hj X1).
Qed.
Lemma ppT_transfer r r' : eraseB r' = eraseB r -> ppT r' -> ppT r.
Proof.
  intros E (d & x' & Hx' & Kx' & Ho). destruct (getAt_transfer r r' d x' E Hx') as (x & X1 & X2). exists d, x. split; [exact X1|].
  split; [rewrite <- (bkind_transfer x x' X2); exact Kx'|]. intros j y Hj Hy.
  destruct (getAt_transfer r' r j y (eq_sym E) Hy) as (y' & Y1 & Y2). rewrite (bend_transfer y' y Y2). apply (Ho j y' Hj Y1).
Qed.
Lemma NPc_sameUpTo p p' : sameUpTo p p' -> ccP p -> ccP p' -> NPc p -> NPc p'.
Proof.
  intros HS H H' HN. unfold NPc. rewrite (containerKind_transfer p p' (proj1 HS) (proj1 (proj2 HS)) H H'). intros Hk X. apply (HN Hk).
  apply (ppT_transfer (root p) (root p') (proj1 HS) X).
Qed.
Lemma cont_sameUpTo p p' : sameUpTo p p' -> ccP p -> ccP p' -> containerKind p' = containerKind p.
Proof. intros (E1 & E2 & _) H H'. apply containerKind_transfer; assumption. Qed.
Lemma contOpen_sameUpTo p p' : sameUpTo p p' -> contOpen p -> contOpen p'.
Proof.
  intros (E1 & E2 & _) H x' Hx'. rewrite E2 in Hx'. destruct (getAt_transfer (root p) (root p') (cdepth p) x' E1 Hx') as (x & X1 & X2).
  rewrite (bend_transfer x x' X2). apply H, X1.
Qed.
Lemma FIN_sameUpTo p p' : sameUpTo p p' -> ccP p -> ccP p' -> FIN p -> FIN p'.
Proof.
  intros HS H H' HF. pose proof HS as (_ & _ & E3 & _). unfold FIN. rewrite (cont_sameUpTo p p' HS H H'). intros Ek. destruct (HF Ek) as [F1 F2].
  split; [unfold isRestBlank; rewrite (rest_curS p p' E3); exact F1|eapply clean_curS; eassumption].
Qed.

Lemma blast1 p : ccP p -> let p1 := if isRestBlank p then updCont p fblast else p in sameUpTo p p1 /\ ccP p1.
Proof.
  intros Hcc. cbv zeta. destruct (isRestBlank p); [|split; [repeat split|exact Hcc]]. split.
  - split; [cbn [root updCont withRoot setLP]; apply erase_updAt, erase_fblast|repeat split].
  - apply ccP_updCont; [exact Hcc|]. intros b _ Hb. unfold fblast. destruct (lastBlock b) as [c|] eqn:El; [|tauto]. split; [|apply bkind_set_lastBlocks].
    eapply cc_set_lastBlocks; [exact Hb|exact El|]. constructor; [|constructor].
    rewrite cc_set_blast, bkind_set_blast. split; [eapply cc_lastBlock; eassumption|apply compat_refl].
Qed.
Lemma blast2 p llb : ccP p -> let p2 := withRoot p (setLastBlankUpTo (cdepth p) llb (root p)) in sameUpTo p p2 /\ ccP p2.
Proof.
  intros (A & B & C). cbv zeta. split.
  - split; [cbn [root withRoot setLP]; apply erase_setLastBlankUpTo|repeat split].
  - unfold ccP, wf, cdepth. cbn [root container withRoot setLP]. fold (cdepth p).
    destruct (cc_setLastBlankUpTo llb (cdepth p) (root p) (cdepth p) B C) as (A' & B' & C').
    split; [rewrite B'; exact A|split; [exact A'|exact C']].
Qed.
Lemma sameUpTo_trans a b c : sameUpTo a b -> sameUpTo b c -> sameUpTo a c.
Proof.
  intros (A1 & A2 & A3 & A4 & A5) (B1 & B2 & B3 & B4 & B5). split; [congruence|]. split; [congruence|]. split; [eapply curS_trans; eassumption|].
  split; congruence.
Qed.

(* ---- the text of the line goes into a container without entry conditions ---- *)
Lemma text_free B p K : EP B p -> ckind p K -> freeK K ->
  let q := if (li p <? len (line p)) && (at_ (line p) (li p) =? 9) && (0 <? tabRem p) && (tabRem p <? 4)
           then consumeIndent (updCont p (fun b => set_bik b (bik b ++ [Inl IndentKind (lineStart p + li p) (lineStart p + li p + 1) (tabRem p) [] []]))) (tabRem p)
           else p in
  EP B q /\ ckind q K /\ (ppT (root q) -> ppT (root p)).
Proof.
  intros HE Hck HK. cbv zeta. destruct (_ && _ && _ && _); [|tauto].
  match goal with |- context [updCont p (fun b => set_bik b (@?G b))] =>
    destruct (EP_addik_free B p G K HE Hck HK ltac:(intros b Hb; apply noU_snoc; [exact Hb|discriminate]) ltac:(intros b0 _ Hb0; apply xk_snoc_kidless; [exact Hb0|reflexivity])) as [E1 E1'] end.
  split; [apply EP_consumeIndent, E1|]. split; [eapply ckind_cstep; [apply cstep_consumeIndent|]; apply ckind_bik, Hck|].
  rewrite (root_cstep _ _ (cstep_consumeIndent _ _)). exact E1'.
Qed.
Lemma go_free B q K : EP B q -> ckind q K -> freeK K -> (isCode K = true \/ K = HTMLBlockKind) ->
  let inlineKind := if isCode (containerKind q) then TextKind else if containerKind q =? HTMLBlockKind then RawHTMLKind else UnparsedKind in
  let q1 := updCont q (fun b => set_bik b (bik b ++ [mkI inlineKind (lineStart q + li q) (lineStart q + len (line q))])) in
  EP B (if isCode (containerKind q) && negb (hasByteSuffixEOL (line q))
        then updCont q1 (fun b => set_bik b (bik b ++ [mkI SoftLineBreakKind (lineStart q1 + len (line q1)) (lineStart q1 + len (line q1))]))
        else q1) /\
  (ppT (root (if isCode (containerKind q) && negb (hasByteSuffixEOL (line q))
        then updCont q1 (fun b => set_bik b (bik b ++ [mkI SoftLineBreakKind (lineStart q1 + len (line q1)) (lineStart q1 + len (line q1))]))
        else q1)) -> ppT (root q)).
Proof.
  intros HE Hck HK Hcode. cbv zeta.
  assert (Ekq : containerKind q = K) by (apply containerKind_of; [apply HE|exact Hck]).
  assert (Hik : (if isCode (containerKind q) then TextKind else if containerKind q =? HTMLBlockKind then RawHTMLKind else UnparsedKind) <> UnparsedKind).
  { rewrite Ekq. destruct Hcode as [Hc| ->]; [rewrite Hc; discriminate|]. change (isCode HTMLBlockKind) with false. cbv iota. discriminate. }
  match goal with |- context [updCont q (fun b => set_bik b (@?G b))] =>
    destruct (EP_addik_free B q G K HE Hck HK ltac:(intros b Hb; apply noU_snoc; [exact Hb|exact Hik]) ltac:(intros b0 _ Hb0; apply xk_snoc_kidless; [exact Hb0|reflexivity])) as [E1 E1']; pose proof (ckind_bik q G K Hck) as K1 end.
  destruct (_ && _); [|split; [exact E1|exact E1']].
  match goal with |- EP B (updCont ?r (fun b => set_bik b (@?G b))) /\ _ =>
    destruct (EP_addik_free B r G K E1 K1 HK ltac:(intros b Hb; apply noU_snoc; [exact Hb|discriminate]) ltac:(intros b0 _ Hb0; apply xk_snoc_kidless; [exact Hb0|reflexivity])) as [E2 E2']; split; [exact E2|intros X; apply E1', E2', X] end.
Qed.

(* consuming exactly the rest of a partly consumed tab *)
Lemma consumeIndent_tab_exact q : li q < len (line q) -> at_ (line q) (li q) = 9 -> 0 < tabRem q ->
  li (consumeIndent q (tabRem q)) = li q + 1 /\ root (consumeIndent q (tabRem q)) = root q /\ cdepth (consumeIndent q (tabRem q)) = cdepth q.
Proof.
  intros Hl H9 Ht. destruct (cd_of_cstep _ _ (cstep_consumeIndent q (tabRem q))) as [R C]. split; [|split; assumption].
  unfold consumeIndent. cbn [consumeIndent_loop].
  destruct (Z.leb_spec (tabRem q) 0); [lia|]. cbv zeta.
  set (p0 := if state q =? stOpening then withState q stOpenMatched else q).
  assert (E : li p0 = li q /\ line p0 = line q /\ tabRem p0 = tabRem q) by (unfold p0; destruct (state q =? stOpening); repeat split).
  destruct E as (E1 & E2 & E3). rewrite E1, E2, E3, H9.
  destruct (Z.ltb_spec (li q) (len (line q))); [|lia]. cbn [andb Z.eqb Pos.eqb]. rewrite Z.ltb_irrefl.
  replace (tabRem q - tabRem q) with 0 by lia.
  destruct (length (line q)) as [|f]; cbn [consumeIndent_loop]; [cbn [li withCursor setLP]; lia|].
  change (0 <=? 0) with true. cbv iota. cbn [li withCursor setLP]. lia.
Qed.

Definition tabCond (p : lp) : bool := (li p <? len (line p)) && (at_ (line p) (li p) =? 9) && (0 <? tabRem p) && (tabRem p <? 4).

Lemma set_bik_app x a b : set_bik (set_bik x (bik x ++ a)) (bik (set_bik x (bik x ++ a)) ++ b) = set_bik x (bik x ++ (a ++ b)).
Proof. destruct x. cbn [set_bik bik]. rewrite app_assoc. reflexivity. Qed.

Lemma text_para B p x : EP B p -> isRestBlank p = false -> clean p ->
  getAt (cdepth p) (root p) = Some x -> bkind x = ParagraphKind -> bend x < 0 ->
  let q := if tabCond p
           then consumeIndent (updCont p (fun b => set_bik b (bik b ++ [Inl IndentKind (lineStart p + li p) (lineStart p + li p + 1) (tabRem p) [] []]))) (tabRem p)
           else p in
  en B (lineStart p + len (line p))
     (root (updCont q (fun b => set_bik b (bik b ++ [mkI UnparsedKind (lineStart q + li q) (lineStart q + len (line q))])))).
Proof.
  intros HE Hnb Hcl Hx HK Ho. pose proof HE as (A & (A0 & A1) & A2 & (A3 & ASO) & A4). cbv zeta.
  assert (Enx : en B (lineStart p) x) by (eapply en_getAt; eassumption).
  assert (HM : lineStart p <= lineStart p + len (line p)) by lia.
  pose proof A2 as (_ & Hcc & _).
  assert (Hnk : bkids x = []) by (apply para_no_kids; [eapply cc_getAt; eassumption|exact HK]).
  assert (Hex : exists x0, getAt (cdepth p) (root p) = Some x0) by eauto.
  pose proof Enx as Enx'. rewrite en_eq in Enx'. destruct Enx' as ((PA & _ & _) & _). destruct (PA (or_introl HK)) as (L1 & L2 & L3).
  rewrite bound_open in L1 by exact Ho.
  unfold isRestBlank, rest in Hnb.
  assert (Hpos : 0 < len (line p)) by (destruct (nonblank_first B p (li p) A ltac:(lia) Hnb); lia).
  assert (Hgapc : bik x <> [] -> gapE (at_ B (lineStart p + li p - 1))) by (intros Hne; eapply gap_before; try eassumption; split; assumption).
  destruct (tabCond p) eqn:Et.
  - unfold tabCond in Et. apply andb_true_iff in Et. destruct Et as [Et T4]. apply andb_true_iff in Et. destruct Et as [Et T3]. apply andb_true_iff in Et. destruct Et as [T1 T2].
    apply Z.ltb_lt in T1. apply Z.eqb_eq in T2. apply Z.ltb_lt in T3. apply Z.ltb_lt in T4.
    set (F1 := fun b => set_bik b (bik b ++ [Inl IndentKind (lineStart p + li p) (lineStart p + li p + 1) (tabRem p) [] []])).
    set (q0 := updCont p F1).
    destruct (consumeIndent_tab_exact q0 T1 T2 T3) as (Q1 & Q2 & Q3). change (tabRem q0) with (tabRem p) in *. change (li q0) with (li p) in Q1.
    set (q := consumeIndent q0 (tabRem p)) in *.
    assert (Eq : lineStart q = lineStart p /\ line q = line p).
    { destruct (env_parts _ _ (env_consumeIndent q0 (tabRem p))) as (_ & X1 & X2). fold q in X1, X2. split; [exact X1|exact X2]. }
    destruct Eq as [Eq1 Eq2]. rewrite Eq1, Eq2, Q1.
    rewrite root_updCont, Q3, Q2. change (cdepth q0) with (cdepth p). change (root q0) with (updAt (cdepth p) F1 (root p)). rewrite updAt_fuse.
    refine (proj1 (en_path B (lineStart p) _ _ HM (cdepth p) (root p) A4 Hcc Hex _)). intros x' Hx' _. rewrite Hx in Hx'. inversion Hx'; subst x'.
    split; [|intros; lia].
    unfold F1. rewrite set_bik_app. cbn [app].
    (* the rest after the tab is not blank *)
    assert (Hnb2 : isBlankLine (from_ (line p) (li p + 1)) = false).
    { rewrite (Rec16.from_cons (line p) (li p)) in Hnb by lia. rewrite isBlank_cons, T2 in Hnb. exact Hnb. }
    apply (en_para_append B p x); try assumption; [split; assumption| | | |].
    4:{ intros L HL. change [Inl IndentKind (lineStart p + li p) (lineStart p + li p + 1) (tabRem p) [] []; mkI UnparsedKind (lineStart p + (li p + 1)) (lineStart p + len (line p))]
          with ([Inl IndentKind (lineStart p + li p) (lineStart p + li p + 1) (tabRem p) [] []] ++ [mkI UnparsedKind (lineStart p + (li p + 1)) (lineStart p + len (line p))]) in HL.
        rewrite app_assoc, lastI_snoc in HL. inversion HL; subst L. split; [reflexivity|apply (ink_rest B p (li p + 1) A ltac:(lia) Hnb2)]. }
    + apply lines_two.
      * unfold indOK. cbn [ikind ikids istart iend iindent]. split; [reflexivity|]. split; [reflexivity|]. split; [lia|]. split; [reflexivity|].
        split; [rewrite <- (line_at B p (li p) A ltac:(lia)); exact T2|lia].
      * replace (lineStart p + (li p + 1)) with (lineStart p + (li p + 1)) by lia. apply (unpOK_rest B p (li p + 1) A ltac:(lia) Hnb2).
      * cbn [istart iend mkI]. lia.
    + intros j [<-|[<-|[]]]; cbn [istart mkI]; lia.
    + intros Hne j [<-|[<-|[]]]; cbn [istart mkI].
      * apply Hgapc, Hne.
      * replace (lineStart p + (li p + 1) - 1) with (lineStart p + li p) by lia. rewrite <- (line_at B p (li p) A ltac:(lia)), T2. left. right. left. reflexivity.
  - rewrite root_updCont. refine (proj1 (en_path B (lineStart p) _ _ HM (cdepth p) (root p) A4 Hcc Hex _)). intros x' Hx' _. rewrite Hx in Hx'. inversion Hx'; subst x'.
    split; [|intros; lia].
    apply (en_para_append B p x); try assumption; [split; assumption| | | |].
    4:{ intros L HL. rewrite lastI_snoc in HL. inversion HL; subst L. split; [reflexivity|apply (ink_rest B p (li p) A ltac:(lia) Hnb)]. }
    + apply lines_one. apply (unpOK_rest B p (li p) A ltac:(lia) Hnb).
    + intros j [<-|[]]; cbn [istart mkI]; lia.
    + intros Hne j [<-|[]]; cbn [istart mkI]. apply Hgapc, Hne.
Qed.

(* a new paragraph *)
Lemma text_new B p : EP B p -> ~ ppT (root p) -> st_open p -> isRestBlank p = false ->
  let q2 := consumeIndent (openBlock p ParagraphKind) (indent (openBlock p ParagraphKind)) in
  en B (lineStart p + len (line p))
     (root (updCont q2 (fun b => set_bik b (bik b ++ [mkI UnparsedKind (lineStart q2 + li q2) (lineStart q2 + len (line q2))])))).
Proof.
  intros HE Hnp Hs Hnb. pose proof HE as (A & (A0 & A1) & A2 & (A3 & ASO) & A4). cbv zeta.
  destruct (EP_obPre B p ParagraphKind HE (TP_none B p Hnp)) as (Hq & Hq' & HKC). set (q := obPre p ParagraphKind) in *.
  pose proof (frs_openBlock p ParagraphKind Hs) as F1. fold q in F1. set (q1 := openBlock p ParagraphKind) in *.
  set (Y0 := newBlock ParagraphKind (lineStart p + li p)) in *.
  assert (F2 : frs q (consumeIndent q1 (indent q1)) Y0) by (eapply frs_cstep; [exact F1|apply cstep_consumeIndent]).
  set (q2 := consumeIndent q1 (indent q1)) in *.
  match goal with |- context [updCont q2 ?f] => pose proof (frs_updCont q q2 Y0 f F2) as F3 end. cbv beta in F3.
  destruct F3 as (R3 & _ & _). rewrite R3.
  pose proof (curS_openBlock p ParagraphKind) as C1. fold q1 in C1. destruct C1 as (C1 & C2 & _).
  assert (S12 : spstep q1 q2) by apply spstep_consumeIndent.
  assert (Cq1 : curP q1) by (split; [destruct (env_parts _ _ (env_openBlock p ParagraphKind)) as (_ & X & _); fold q1 in X; rewrite X; exact A0|rewrite C1, C2; exact A1]).
  assert (Hmv : li q1 <= li q2 <= len (line q1)) by (apply (proj1 S12); apply Cq1).
  assert (Eq2 : lineStart q2 = lineStart p /\ line q2 = line p).
  { unfold q2, q1. destruct (env_parts _ _ (env_consumeIndent (openBlock p ParagraphKind) (indent (openBlock p ParagraphKind)))) as (_ & X1 & X2).
    destruct (env_parts _ _ (env_openBlock p ParagraphKind)) as (_ & X3 & X4). rewrite X1, X2, X3, X4. tauto. }
  destruct Eq2 as [E1 E2]. rewrite E1, E2.
  assert (Hnb2 : isBlankLine (from_ (line p) (li q2)) = false).
  { pose proof (restBlank_spstep q1 q2 Cq1 S12) as X. unfold isRestBlank, rest in X, Hnb. rewrite E2, C1, C2 in X. rewrite X. exact Hnb. }
  assert (HM : lineStart p <= lineStart p + len (line p)) by lia.
  pose proof Hq as (_ & _ & Q2 & (_ & QSO) & Q4).
  assert (Elq : lineStart q = lineStart p) by (destruct (env_parts _ _ (env_obPre p ParagraphKind)) as (_ & X & _); exact X).
  rewrite Elq in Q4.
  assert (Q4' : en B (lineStart p + len (line p)) (root q)) by (apply (en_quiet B (lineStart p)); [lia|exact Q4|intros X; apply Hnp, Hq', X]).
  apply en_frs; [exact Q4'|exact Q2|exact QSO|exact HKC|].
  unfold Y0, newBlock. cbn [set_bik bik app en]. split; [|exact I]. split; [|split; [|split; [|split]]].
  - intros _. rewrite bound_open by lia. split; [apply lines_one, (unpOK_rest B p (li q2) A ltac:(lia) Hnb2)|]. split.
    + intros u [<-|[]]. cbn [istart mkI]. lia.
    + intros _. lia.
  - intros E; discriminate.
  - intros _; discriminate.
  - intros; lia.
  - split; [intros (X & _); contradiction|]. split; [|split; [intros; exact I|split; [exact I|apply xk_PS; left; reflexivity]]].
    intros _ L HL. unfold lastI in HL. cbn [rev app] in HL. inversion HL; subst L. split; [reflexivity|]. intros _. split; [apply (ink_rest B p (li q2) A ltac:(lia) Hnb2)|intros; lia].
Qed.

Lemma containerKind_tab p f : keeps f -> containerKind (consumeIndent (updCont p f) (tabRem p)) = containerKind p.
Proof. intros Hk. rewrite (containerKind_cstep _ _ (cstep_consumeIndent (updCont p f) (tabRem p))). apply containerKind_keeps, Hk. Qed.

Lemma addLineText_ent B p : EP B p -> FIN p -> NPc p -> (acceptsLines (containerKind p) = false -> st_open p) ->
  en B (lineStart p + len (line p)) (root (addLineText p)).
Proof.
  intros HE HF HN HS. pose proof HE as (A & (A0 & A1) & A2 & (A3 & ASO) & A4). unfold addLineText. cbv zeta.
  change (updCont p (fun b => match lastBlock b with Some c => set_lastBlocks b [set_blast c true] | None => b end)) with (updCont p fblast).
  destruct (blast1 p A2) as [U1 Hc1]. cbv zeta in U1, Hc1. set (p1 := if isRestBlank p then updCont p fblast else p) in *.
  match goal with |- context [setLastBlankUpTo (cdepth p1) ?l (root p1)] => set (llb := l) end.
  destruct (blast2 p1 llb Hc1) as [U2 Hc2]. cbv zeta in U2, Hc2. set (p2 := withRoot p1 (setLastBlankUpTo (cdepth p1) llb (root p1))) in *.
  pose proof (sameUpTo_trans p p1 p2 U1 U2) as U12.
  assert (H2 : EP B p2) by (eapply EP_sameUpTo; eassumption).
  assert (K1 : containerKind p1 = containerKind p) by (apply cont_sameUpTo; assumption).
  assert (K2 : containerKind p2 = containerKind p) by (apply cont_sameUpTo; assumption).
  assert (F2 : FIN p2) by (eapply FIN_sameUpTo; eassumption).
  assert (N2 : NPc p2) by (eapply NPc_sameUpTo; eassumption).
  assert (Enb : isRestBlank p2 = isRestBlank p) by (destruct U12 as (_ & _ & X & _); unfold isRestBlank; rewrite (rest_curS p p2 X); reflexivity).
  assert (Els : lineStart p2 = lineStart p /\ line p2 = line p) by (destruct U12 as (_ & _ & _ & X & _); destruct (env_parts _ _ X) as (_ & X1 & X2); tauto).
  destruct Els as [Els Eln]. rewrite <- Els, <- Eln.
  change (bkind (contBlock p1)) with (containerKind p1). rewrite K1, <- K2.
  pose proof H2 as (B0 & (B1 & B1') & B2 & (B3 & BSO) & B4). pose proof B2 as (_ & _ & (x & Hx)).
  assert (Kx : containerKind p2 = bkind x) by (apply containerKind_at, Hx).
  assert (Ox : bend x < 0) by (apply (BSO (cdepth p2) x); [lia|exact Hx]).
  assert (Enx : en B (lineStart p2) x) by (eapply en_getAt; eassumption).
  assert (NA : bkind x <> ATXHeadingKind).
  { intros E. rewrite en_eq in Enx. destruct Enx as ((_ & X & _) & _). destruct (X E) as [X1 _]. lia. }
  assert (HM : lineStart p2 <= lineStart p2 + len (line p2)) by (pose proof (len_nonneg (line p2)); lia).
  destruct (acceptsLines (containerKind p2)) eqn:Ea.
  - destruct (Z.eq_dec (bkind x) ParagraphKind) as [EP'|NP].
    + (* continuation of a paragraph *)
      destruct (F2 ltac:(rewrite Kx; exact EP')) as [Fb Fc].
      pose proof (text_para B p2 x H2 Fb Fc Hx EP' Ox) as Ht. cbv zeta in Ht. unfold tabCond in Ht.
      set (q := if (li p2 <? len (line p2)) && (at_ (line p2) (li p2) =? 9) && (0 <? tabRem p2) && (tabRem p2 <? 4) then _ else p2) in *.
      assert (Kq : containerKind q = ParagraphKind).
      { unfold q. destruct (_ && _ && _ && _); [rewrite containerKind_tab by apply keeps_bik|]; rewrite Kx; exact EP'. }
      rewrite Kq. change (isCode ParagraphKind) with false. change (ParagraphKind =? HTMLBlockKind) with false. cbv iota. cbn [andb]. exact Ht.
    + (* a code or HTML block *)
      assert (HKf : freeK (bkind x)) by (apply accepts_free; [rewrite <- Kx; exact Ea|exact NP|exact NA]).
      assert (Hck : ckind p2 (bkind x)) by (intros b Hb; rewrite Hx in Hb; inversion Hb; reflexivity).
      assert (Np2 : ~ ppT (root p2)) by (apply N2; rewrite Kx; exact NP).
      destruct (text_free B p2 (bkind x) H2 Hck HKf) as (Q1 & Q2 & Q3). cbv zeta in Q1, Q2, Q3.
      set (q := if (li p2 <? len (line p2)) && (at_ (line p2) (li p2) =? 9) && (0 <? tabRem p2) && (tabRem p2 <? 4) then _ else p2) in *.
      pose proof (go_free B q (bkind x) Q1 Q2 HKf ltac:(apply accepts_code; [rewrite <- Kx; exact Ea|exact NP|exact NA])) as Hg. cbv zeta in Hg.
      assert (Eq : lineStart q = lineStart p2).
      { unfold q. destruct (_ && _ && _ && _); [|reflexivity]. match goal with |- lineStart (consumeIndent ?r ?n) = _ => destruct (env_parts _ _ (env_consumeIndent r n)) as (_ & X & _); rewrite X end. reflexivity. }
      assert (Eq' : line q = line p2).
      { unfold q. destruct (_ && _ && _ && _); [|reflexivity]. match goal with |- line (consumeIndent ?r ?n) = _ => destruct (env_parts _ _ (env_consumeIndent r n)) as (_ & _ & X); rewrite X end. reflexivity. }
      destruct Hg as ((_ & _ & _ & _ & G4) & G5).
      match type of G4 with en B (lineStart ?r) _ => assert (Er : lineStart r = lineStart p2) end.
      { match goal with |- lineStart (if ?c then _ else _) = _ => destruct c end; exact Eq. }
      rewrite Er in G4. apply (en_quiet B (lineStart p2)); [lia|exact G4|]. intros X. apply Np2, Q3, G5, X.
  - assert (Np2 : ~ ppT (root p2)) by (apply N2; apply notaccepts_notpara, Ea).
    destruct (isRestBlank p) eqn:Eb; cbn [negb]; rewrite ?Eb in Enb.
    + apply (en_quiet B (lineStart p2)); [lia|exact B4|exact Np2].
    + assert (Sp2 : st_open p2).
      { destruct U12 as (_ & _ & _ & _ & X). unfold st_open. rewrite X. apply HS. rewrite <- K2. exact Ea. }
      pose proof (text_new B p2 H2 Np2 Sp2 Enb) as Ht. cbv zeta in Ht.
      set (q2 := consumeIndent (openBlock p2 ParagraphKind) (indent (openBlock p2 ParagraphKind))) in *.
      assert (Kq : containerKind q2 = ParagraphKind).
      { unfold q2. rewrite (containerKind_cstep _ _ (cstep_consumeIndent _ _)). apply containerKind_open; [|exact Sp2].
        apply ccP_openBlock; [exact B2|left; discriminate]. }
      rewrite Kq. change (isCode ParagraphKind) with false. change (ParagraphKind =? HTMLBlockKind) with false. cbv iota. cbn [andb]. exact Ht.
Qed.
