(* T63-F1 (D2).  Copy of En3LP2.v over the invariant EolFinalFullHbE4Tree.en = En3Tree.en plus one clause (lastX): the last entry of a
   PARAGRAPH holds a byte that is not space / tab / line ending, and once the paragraph is closed it ends at the end of the block.
   Changes w.r.t. En3LP2.v: module names; the places that build or use that clause; closing lemmas take "a paragraph is open -> e = lineStart". *)
From Coq Require Import List ZArith Lia Bool.
Import ListNotations.
Require Import Base Tree Rdr Link Collect Html Recog LP Rules Starts Driver L2Kind L2CC BSDef BSRdr BSTree BSOcp BSOrph BSClose BSLine1 BSLine2 BSLine3 BSLine4
  GramTree GramLP GramLP2 Cursor CursorX NoPanic12 ShDef ShRdr ShClose ShEnv ShLine1 ShLine2 ShFresh ShStarts2.
Require Import ShapesBase EntBase EntOcpDefs EntOcp EolFinalFullHbE4Tree EolFinalFullHbE4Info EntCur EolFinalFullHbE4Par EolFinalFullHbE4LP1.
Open Scope Z_scope.

(* En3* (T46), differences from En2LP2: collectInline keeps the facts about entries with children (EolFinalFullHbE4Tree.xk; the InfoString
   node via EolFinalFullHbE4Info.info_spec); a match rule that consumes the line does so in a fenced code / HTML block, where no
   paragraph is open; the descent reports, when every open block matched, that no paragraph is open unless the container
   is one (NPc), and that none is open at all when the previous line's DescendTerminated state survives it. *)

(* ================================================================================================
   T28, part 5: cursor moves, collectInline on containers without entry conditions, the match rules and
   descendOpenBlocks.  Through the descent only prefix bytes are consumed (`clean`), unless the line is consumed.
   ================================================================================================ *)
Lemma EP_advance B p n : EP B p -> EP B (advance p n).
Proof. intros H. apply (EP_cstep B p); [apply cstep_advance|apply Itab_advance, H|exact H]. Qed.
Lemma EP_consumeLine B p : EP B p -> EP B (consumeLine p).
Proof. intros H. apply (EP_cstep B p); [apply cstep_consumeLine|apply Itab_consumeLine, H|exact H]. Qed.
Lemma EP_consumeIndent B p n : EP B p -> EP B (consumeIndent p n).
Proof. intros H. apply (EP_cstep B p); [apply cstep_consumeIndent|apply Itab_consumeIndent, H|exact H]. Qed.
Lemma TP_cstep B p p' : cstep p p' -> TP B p -> TP B p'.
Proof. intros Hc. apply TP_back; [apply env_of_cstep, Hc|]. destruct Hc as ((R & _) & _). rewrite R. tauto. Qed.
Lemma TP_none B p : ~ ppT (root p) -> TP B p.
Proof. intros N H. contradiction. Qed.

Lemma noPara_leaf p : ccP p -> containerKind p <> ParagraphKind -> (forall k, canContain (containerKind p) k = false) -> ~ ppT (root p).
Proof.
  intros Hcc Hk Hl. apply noPara; [exact Hcc|exact Hk|]. intros c Hc. exfalso.
  destruct Hcc as (_ & Hc0 & (x & Hx)). pose proof (cc_spine (cdepth p) (root p) x c Hc0 Hx Hc) as Hcan.
  rewrite <- (containerKind_at p x Hx) in Hcan. rewrite Hl in Hcan. discriminate.
Qed.

Lemma root_cstep p p' : cstep p p' -> root p' = root p. Proof. intros ((E & _) & _). exact E. Qed.

Lemma ckind_bik p g K : ckind p K -> ckind (updCont p (fun b => set_bik b (g b))) K.
Proof. apply ckind_updCont. intros b. destruct b; reflexivity. Qed.

Lemma noU_snoc a u : noU a -> ikind u <> UnparsedKind -> noU (a ++ [u]).
Proof. intros Ha Hu. apply noU_app; [exact Ha|]. intros v [<-|[]]. exact Hu. Qed.
Lemma ikind_info src s e : ikind (parseInfoString src s e) = InfoStringKind.
Proof. unfold parseInfoString. destruct (infoString_loop _ _ _ _ _ _). reflexivity. Qed.

(* the start of the container lies at or before v *)
Definition cst (p : lp) (v : Z) : Prop := forall b, getAt (cdepth p) (root p) = Some b -> bstart b <= v.
Lemma cst_cstep p p' v : cstep p p' -> cst p v -> cst p' v.
Proof. intros Hc H b Hb. destruct (cd_of_cstep _ _ Hc) as [R C]. rewrite R, C in Hb. apply H, Hb. Qed.
Lemma cst_updCont p f v : (forall x, bstart (f x) = bstart x) -> cst p v -> cst (updCont p f) v.
Proof.
  intros Hf H b Hb. change (cdepth (updCont p f)) with (cdepth p) in Hb. rewrite root_updCont, getAt_updAt_same in Hb.
  destruct (getAt (cdepth p) (root p)) as [x|] eqn:Ex; [|discriminate]. cbn [option_map] in Hb. inversion Hb; subst b. rewrite Hf. apply H. exact Ex.
Qed.
Lemma cst_le p v v' : v <= v' -> cst p v -> cst p v'.
Proof. intros Hv H b Hb. specialize (H b Hb). lia. Qed.

Lemma xk_snoc_kidless B K s ik u : xk B K s ik -> ikids u = [] -> xk B K s (ik ++ [u]).
Proof.
  intros H Hu. apply xk_app; [exact H|]. split.
  - intros _ v [<-|[]] Hk. contradiction.
  - intros _ v [<-|[]] k Hk. rewrite Hu in Hk. destruct Hk.
Qed.
Lemma xk_snoc_info B K s ik u : xk B K s ik -> (K = FencedCodeBlockKind -> s <= istart u) -> infoC B u -> xk B K s (ik ++ [u]).
Proof.
  intros H Hs Hu. apply xk_app; [exact H|]. split.
  - intros HK v [<-|[]] _. split; [apply Hs, HK|exact Hu].
  - intros _ v [<-|[]]. apply Hu.
Qed.

Lemma parseInfoString_span src s e : istart (parseInfoString src s e) = s /\ iend (parseInfoString src s e) = e.
Proof. unfold parseInfoString. destruct (infoString_loop _ _ _ _ _ _). split; reflexivity. Qed.

Lemma EP_collectInline_free B p kind n K : EP B p -> ckind p K -> freeK K -> kind <> UnparsedKind ->
  (kind = InfoStringKind -> K = FencedCodeBlockKind -> cst p (lineStart p + li p)) ->
  EP B (collectInline p kind n) /\ (ppT (root (collectInline p kind n)) -> ppT (root p)).
Proof.
  intros HE Hck HK Hkind Hcst. unfold collectInline. destruct (_ =? stDescendTerminated); [split; [apply EP_panic, HE|tauto]|]. cbv zeta.
  set (p0 := if state p =? stOpening then withState p stOpenMatched else p).
  assert (H0 : EP B p0) by (apply EP_opened, HE).
  assert (K0 : ckind p0 K) by (eapply ckind_cstep; [apply cstep_opened|exact Hck]).
  assert (R0 : root p0 = root p) by (unfold p0; destruct (_ =? _); reflexivity).
  assert (L0 : lineStart p0 = lineStart p /\ li p0 = li p) by (unfold p0; destruct (_ =? _); split; reflexivity).
  assert (C0 : kind = InfoStringKind -> K = FencedCodeBlockKind -> cst p0 (lineStart p0 + li p0)).
  { intros X1 X2. destruct L0 as [-> ->]. apply (cst_cstep p p0); [apply cstep_opened|apply Hcst; assumption]. }
  set (p1 := if 0 <? indent p0 then _ else p0).
  assert (H1 : EP B p1 /\ ckind p1 K /\ (ppT (root p1) -> ppT (root p)) /\ (kind = InfoStringKind -> K = FencedCodeBlockKind -> cst p1 (lineStart p1 + li p1))).
  { unfold p1. destruct (0 <? indent p0); [|rewrite R0; tauto].
    set (q := advance p0 (indentLength (rest p0))).
    assert (Hq : EP B q) by (apply EP_advance, H0).
    assert (Kq : ckind q K) by (eapply ckind_cstep; [apply cstep_advance|exact K0]).
    assert (Rq : root q = root p) by (unfold q; rewrite (root_cstep _ _ (cstep_advance p0 _)); exact R0).
    assert (Cq : kind = InfoStringKind -> K = FencedCodeBlockKind -> cst q (lineStart q + li q)).
    { intros X1 X2. destruct (cstep_Mc p0 q (cstep_advance p0 _) ltac:(apply H0)) as (_ & Y & _). unfold Mc in Y.
      eapply cst_le; [exact Y|]. apply (cst_cstep p0 q); [apply cstep_advance|apply C0; assumption]. }
    match goal with |- EP B (updCont q (fun b => set_bik b (@?G b))) /\ _ =>
      destruct (EP_addik_free B q G K Hq Kq HK ltac:(intros b Hb; apply noU_snoc; [exact Hb|discriminate])
                  ltac:(intros b _ Hb; apply xk_snoc_kidless; [exact Hb|reflexivity])) as [E1 E2];
      split; [exact E1|split; [apply ckind_bik, Kq|split; [rewrite <- Rq; exact E2|]]] end.
    intros X1 X2. apply cst_updCont; [intros x; destruct x; reflexivity|apply Cq; assumption]. }
  destruct H1 as (H1 & K1 & P1 & C1).
  set (q2 := advance p1 n).
  assert (H2 : EP B q2) by (apply EP_advance, H1).
  assert (K2 : ckind q2 K) by (eapply ckind_cstep; [apply cstep_advance|exact K1]).
  assert (R2 : root q2 = root p1) by apply (root_cstep _ _ (cstep_advance p1 n)).
  assert (Hnode : forall src s e, ikind (if kind =? InfoStringKind then parseInfoString src s e else mkI kind s e) <> UnparsedKind).
  { intros src s e. destruct (kind =? InfoStringKind); [rewrite ikind_info; discriminate|exact Hkind]. }
  destruct (cstep_Mc p1 q2 (cstep_advance p1 n) ltac:(apply H1)) as (Cq2 & Y & Yl & Yn). unfold Mc in Y.
  pose proof H2 as (A & (A0 & A1) & _).
  assert (Hxn : forall b, getAt (cdepth q2) (root q2) = Some b -> xk B K (bstart b) (bik b) ->
            xk B K (bstart b) (bik b ++ [if kind =? InfoStringKind then parseInfoString (source q2) (lineStart p1 + li p1) (lineStart q2 + li q2)
                                         else mkI kind (lineStart p1 + li p1) (lineStart q2 + li q2)])).
  { intros b Hb Hx. destruct (Z.eqb_spec kind InfoStringKind) as [Ei|Ni]; [|apply xk_snoc_kidless; [exact Hx|reflexivity]].
    apply xk_snoc_info; [exact Hx| |].
    - intros EK. pose proof (parseInfoString_span (source q2) (lineStart p1 + li p1) (lineStart q2 + li q2)) as [X _]. rewrite X.
      apply (cst_cstep p1 q2 _ (cstep_advance p1 n) (C1 Ei EK) b Hb).
    - apply (infoC_agree (source q2)); [apply info_spec; lia|].
      intros q Hq. pose proof (parseInfoString_span (source q2) (lineStart p1 + li p1) (lineStart q2 + li q2)) as [X1 X2]. rewrite X1, X2 in Hq.
      destruct A as (S1 & _ & S3 & S4 & _). rewrite S1. symmetry. apply ShapesBase.at_upto. pose proof H1 as (_ & (Z0 & Z1) & _). lia. }
  match goal with |- EP B (updCont q2 (fun b => set_bik b (@?G b))) /\ _ =>
    destruct (EP_addik_free B q2 G K H2 K2 HK ltac:(intros b Hb; apply noU_snoc; [exact Hb|apply Hnode]) Hxn) as [E1 E2];
    split; [exact E1|intros Hp; apply P1; rewrite <- R2; apply E2, Hp] end.
Qed.

(* ---- match rules ---- *)
Lemma gstep_cstep p p' : gstep p p' -> cstep p p'. Proof. intros [A _]. exact A. Qed.

Lemma gstep_eatQuoteMarker p : curP p -> hasBytePrefix (bytesAfterIndent p) [62] = true -> gstep p (eatQuoteMarker p (indent p)).
Proof.
  intros Hc Hp. unfold eatQuoteMarker. cbv zeta.
  pose proof (spstep_consumeIndent p (indent p)) as S1. set (p1 := consumeIndent p (indent p)) in *.
  destruct (after_blanks p p1 62 Hc S1 Hp eq_refl) as (A1 & A2 & A3 & A4).
  assert (Hb : gapB (at_ (line p1) (li p1))).
  { rewrite (cstep_line p p1 (proj1 S1)). destruct (Z.eq_dec (li p1) (li p + indentLength (rest p))) as [E|N].
    - rewrite E, A2. right. right. reflexivity.
    - apply isSpTab_gapB, A4. lia. }
  pose proof (gstep_advance1 p1 Hb) as S2. set (p2 := advance p1 1) in *.
  assert (S12 : gstep p p2) by (eapply gstep_trans; [apply gstep_of_spstep, S1|exact S2]).
  destruct (0 <? indent p2); [|exact S12]. eapply gstep_trans; [exact S12|apply gstep_consumeIndent].
Qed.

(* what a match rule does: either it only consumes prefix bytes, or it consumes the line in descending state *)
Lemma matchRule_ent B q : EP B q -> state q = stDescending ->
  EP B (snd (matchRule q)) /\
  ((state (snd (matchRule q)) = stDescendTerminated /\ li (snd (matchRule q)) = len (line (snd (matchRule q))) /\ ~ ppT (root (snd (matchRule q)))) \/
   (gstep q (snd (matchRule q)) /\ state (snd (matchRule q)) = stDescending)) /\
  (fst (matchRule q) = true -> containerKind q = ParagraphKind -> isRestBlank (snd (matchRule q)) = false).
Proof.
  intros HE Hs. pose proof HE as (A & A1 & A2 & (A3 & ASO) & A4).
  assert (Hg : forall q', gstep q q' -> sstep q q' -> Itab q' ->
            EP B q' /\ ((state q' = stDescendTerminated /\ li q' = len (line q') /\ ~ ppT (root q')) \/ (gstep q q' /\ state q' = stDescending))).
  { intros q' Hq Hst Hi. split; [apply (EP_cstep B q); [apply gstep_cstep, Hq|exact Hi|exact HE]|right; split; [exact Hq|]].
    destruct Hst as [X|[X _]]; [congruence|rewrite Hs in X; discriminate]. }
  unfold matchRule. cbv zeta.
  destruct ((containerKind q =? documentKind) || (containerKind q =? ListKind)) eqn:E1.
  { cbn [fst snd]. destruct (Hg q (gstep_refl q) (sstep_refl q) A3) as [G1 G2]. split; [exact G1|split; [exact G2|]].
    intros _ Ek. rewrite Ek in E1. discriminate. }
  destruct (Z.eqb_spec (containerKind q) ListItemKind) as [E2|N2].
  { unfold matchListItem. assert (Np : containerKind q = ParagraphKind -> False) by (intros Ek; rewrite Ek in E2; discriminate).
    destruct (isRestBlank q).
    - destruct (negb _); cbn [fst snd].
      + destruct (Hg q (gstep_refl q) (sstep_refl q) A3) as [G1 G2]. split; [exact G1|split; [exact G2|intros _ Ek; contradiction]].
      + destruct (Hg _ (gstep_consumeIndent q (indent q)) (sstep_consumeIndent q (indent q)) (Itab_consumeIndent q _ A3)) as [G1 G2]. split; [exact G1|split; [exact G2|intros _ Ek; contradiction]].
    - destruct (_ <=? _); cbn [fst snd].
      + destruct (Hg _ (gstep_consumeIndent q (bindent (contBlock q))) (sstep_consumeIndent q (bindent (contBlock q))) (Itab_consumeIndent q _ A3)) as [G1 G2]. split; [exact G1|split; [exact G2|intros _ Ek; contradiction]].
      + destruct (Hg q (gstep_refl q) (sstep_refl q) A3) as [G1 G2]. split; [exact G1|split; [exact G2|intros _ Ek; contradiction]]. }
  destruct (Z.eqb_spec (containerKind q) BlockQuoteKind) as [E3|N3].
  { unfold matchBlockQuote. cbv zeta. assert (Np : containerKind q = ParagraphKind -> False) by (intros Ek; rewrite Ek in E3; discriminate).
    destruct (_ <=? _); cbn [fst snd]; [destruct (Hg q (gstep_refl q) (sstep_refl q) A3) as [G1 G2]; split; [exact G1|split; [exact G2|intros _ Ek; contradiction]]|].
    destruct (hasBytePrefix (bytesAfterIndent q) [62]) eqn:Eq; cbn [negb fst snd];
      [|destruct (Hg q (gstep_refl q) (sstep_refl q) A3) as [G1 G2]; split; [exact G1|split; [exact G2|intros _ Ek; contradiction]]].
    pose proof (gstep_eatQuoteMarker q A1 Eq) as Sq.
    assert (Hi : Itab (eatQuoteMarker q (indent q))).
    { unfold eatQuoteMarker. cbv zeta. destruct (0 <? _); [apply Itab_consumeIndent|]; apply Itab_advance, Itab_consumeIndent, A3. }
    assert (Hss : sstep q (eatQuoteMarker q (indent q))).
    { unfold eatQuoteMarker. cbv zeta. destruct (0 <? _); [eapply sstep_trans; [|apply sstep_consumeIndent]|]; (eapply sstep_trans; [apply sstep_consumeIndent|apply sstep_advance]). }
    destruct (Hg _ Sq Hss Hi) as [G1 G2]. split; [exact G1|split; [exact G2|intros _ Ek; contradiction]]. }
  destruct (Z.eqb_spec (containerKind q) FencedCodeBlockKind) as [E4|N4].
  { unfold matchFenced. cbv zeta. assert (Np : containerKind q = ParagraphKind -> False) by (intros Ek; rewrite Ek in E4; discriminate).
    destruct (if _ <? _ then _ else false); cbn [fst snd].
    - split; [apply EP_consumeLine, HE|]. split; [left; split; [apply state_consumeLine_desc, Hs|split]|intros; discriminate].
      + rewrite (li_consumeLine q (proj2 A1)). destruct (env_parts _ _ (env_consumeLine q)) as (_ & _ & X). rewrite X. reflexivity.
      + rewrite (root_cstep _ _ (cstep_consumeLine q)). apply noPara_leaf; [exact A2|exact Np|rewrite E4; intros k; reflexivity].
    - match goal with |- context [consumeIndent q ?n] => destruct (Hg _ (gstep_consumeIndent q n) (sstep_consumeIndent q n) (Itab_consumeIndent q n A3)) as [G1 G2] end.
      split; [exact G1|split; [exact G2|intros _ Ek; contradiction]]. }
  destruct (Z.eqb_spec (containerKind q) IndentedCodeBlockKind) as [E5|N5].
  { unfold matchIndented. cbv zeta. assert (Np : containerKind q = ParagraphKind -> False) by (intros Ek; rewrite Ek in E5; discriminate).
    destruct (_ <? _); [destruct (negb _)|]; cbn [fst snd].
    - destruct (Hg q (gstep_refl q) (sstep_refl q) A3) as [G1 G2]. split; [exact G1|split; [exact G2|intros _ Ek; contradiction]].
    - destruct (Hg _ (gstep_consumeIndent q (indent q)) (sstep_consumeIndent q (indent q)) (Itab_consumeIndent q _ A3)) as [G1 G2]. split; [exact G1|split; [exact G2|intros _ Ek; contradiction]].
    - destruct (Hg _ (gstep_consumeIndent q codeBlockIndentLimit) (sstep_consumeIndent q codeBlockIndentLimit) (Itab_consumeIndent q _ A3)) as [G1 G2]. split; [exact G1|split; [exact G2|intros _ Ek; contradiction]]. }
  destruct (Z.eqb_spec (containerKind q) HTMLBlockKind) as [E6|N6].
  { unfold matchHTML. assert (Np : containerKind q = ParagraphKind -> False) by (intros Ek; rewrite Ek in E6; discriminate).
    destruct (htmlEnd _ _); [|cbn [fst snd]; destruct (Hg q (gstep_refl q) (sstep_refl q) A3) as [G1 G2]; split; [exact G1|split; [exact G2|intros _ Ek; contradiction]]].
    destruct (isRestBlank q); cbn [fst snd]; [destruct (Hg q (gstep_refl q) (sstep_refl q) A3) as [G1 G2]; split; [exact G1|split; [exact G2|intros; discriminate]]|].
    assert (Hck : ckind q HTMLBlockKind).
    { intros b Hb. unfold containerKind, contBlock in E6. rewrite Hb in E6. exact E6. }
    destruct (EP_collectInline_free B q RawHTMLKind (len (bytesAfterIndent q)) HTMLBlockKind HE Hck ltac:(repeat split; discriminate) ltac:(discriminate) ltac:(intros X; discriminate X)) as [C1 C2].
    split; [apply EP_consumeLine, C1|]. split; [|intros; discriminate]. left. split; [|split].
    - apply state_consumeLine_desc.
      destruct (sstep_collectInline q RawHTMLKind (len (bytesAfterIndent q))) as [Hst|[Hst _]]; [congruence|rewrite Hs in Hst; discriminate].
    - pose proof C1 as (_ & (_ & X1) & _). rewrite (li_consumeLine _ X1). destruct (env_parts _ _ (env_consumeLine (collectInline q RawHTMLKind (len (bytesAfterIndent q))))) as (_ & _ & X). rewrite X. reflexivity.
    - rewrite (root_cstep _ _ (cstep_consumeLine _)). intros Hp. apply C2 in Hp. revert Hp.
      apply noPara_leaf; [exact A2|exact Np|rewrite E6; intros k; reflexivity]. }
  cbn [fst snd]. destruct (Hg q (gstep_refl q) (sstep_refl q) A3) as [G1 G2]. split; [exact G1|split; [exact G2|]].
  intros Hb _. apply negb_true_iff in Hb. exact Hb.
Qed.

(* ---- descendOpenBlocks ---- *)
Lemma EP_withCont B p d : EP B p -> (exists x, getAt d (root p) = Some x) -> openTo d (root p) -> EP B (withCont p (Some d)).
Proof.
  intros HE Hx Ho. pose proof HE as (A & A1 & A2 & (A3 & ASO) & A4).
  apply (EP_tree B p); [reflexivity|repeat split|apply ccP_withCont; assumption|exact Ho|exact A4|exact HE].
Qed.
Lemma EP_withState B p s : EP B p -> EP B (withState p s).
Proof. intros H. apply (EP_cstep B p); [apply cstep_withState| |exact H]. destruct H as (_ & _ & _ & (H & _) & _). exact H. Qed.

Definition paraNB (p : lp) : Prop := containerKind p = ParagraphKind -> isRestBlank p = false.
(* when the container is no paragraph, no paragraph is open at all *)
Definition NPc (p : lp) : Prop := containerKind p <> ParagraphKind -> ~ ppT (root p).

Lemma paraNB_ext p p' : root p' = root p -> cdepth p' = cdepth p -> rest p' = rest p -> paraNB p -> paraNB p'.
Proof. intros R C E H. unfold paraNB, containerKind, contBlock, isRestBlank in *. rewrite R, C, E. exact H. Qed.

Lemma paraNB_child p : ccP p -> (exists c, getAt (S (cdepth p)) (root p) = Some c) -> paraNB p.
Proof.
  intros (_ & Hcc & (x & Hx)) (c & Hc) E. exfalso. pose proof (cc_spine (cdepth p) (root p) x c Hcc Hx Hc) as Hcan.
  unfold containerKind, contBlock in E. rewrite Hx in E. rewrite E in Hcan. discriminate.
Qed.

Lemma openTo_le d d' r : (d' <= d)%nat -> openTo d r -> openTo d' r.
Proof. intros H Ho j y Hj. apply Ho. lia. Qed.

Lemma cont_child' p : ccP p -> (exists c, getAt (S (cdepth p)) (root p) = Some c) -> containerKind p <> ParagraphKind.
Proof.
  intros (_ & Hcc & (x & Hx)) (c & Hc) E. pose proof (cc_spine (cdepth p) (root p) x c Hcc Hx Hc) as Hcan.
  rewrite (containerKind_at p x Hx) in E. rewrite E, canContain_para in Hcan. discriminate.
Qed.
Lemma leaf_no_kids b : cc b = true -> (forall k, canContain (bkind b) k = false) -> bkids b = [].
Proof.
  intros Hc Hl. apply cc_parts in Hc. destruct Hc as [H1 _]. destruct (bkids b) as [|c r]; [reflexivity|].
  cbn [forallb] in H1. rewrite Hl in H1. discriminate.
Qed.
Lemma noMatch_leaf k : hasMatch k = false -> forall c, canContain k c = false.
Proof.
  unfold hasMatch. intros H c. repeat (apply orb_false_iff in H; destruct H as [H ?]).
  unfold canContain. rewrite H.
  repeat match goal with E : (k =? _) = false |- _ => rewrite E; clear E end. reflexivity.
Qed.

Lemma descend_ent B : forall fuel p d, EP B p -> clean p -> cdepth p = d -> paraNB p ->
  (forall x, getAt d (root p) = Some x -> (bheight x <= fuel)%nat) ->
  (state p = stDescendTerminated -> containerKind p <> ParagraphKind) ->
  EP B (snd (descend_loop fuel p d)) /\
  ((state (snd (descend_loop fuel p d)) = stDescendTerminated /\ ~ ppT (root (snd (descend_loop fuel p d)))) \/
   (clean (snd (descend_loop fuel p d)) /\ root (snd (descend_loop fuel p d)) = root p /\ paraNB (snd (descend_loop fuel p d)) /\
    (fst (descend_loop fuel p d) = true -> NPc (snd (descend_loop fuel p d))) /\
    (state (snd (descend_loop fuel p d)) = stDescendTerminated -> ~ ppT (root (snd (descend_loop fuel p d)))))).
Proof.
  induction fuel as [|f IH]; intros p d HE Hcl Ed Hnb Hh Hst.
  - exfalso. pose proof HE as (_ & _ & (_ & _ & (x & Hx)) & _). rewrite Ed in Hx. specialize (Hh x Hx). destruct (bheight_S x) as (k & Ek). lia.
  - pose proof HE as (A & A1 & A2 & (A3 & ASO) & A4).
    assert (Hod : openTo d (root p)) by (rewrite <- Ed; exact ASO).
    assert (Hwd : exists x, getAt d (root p) = Some x) by (pose proof A2 as (_ & _ & Hw); unfold wf in Hw; rewrite Ed in Hw; exact Hw).
    assert (Hexit : EP B (withCont p (Some d)) /\
              (clean (withCont p (Some d)) /\ root (withCont p (Some d)) = root p /\ paraNB (withCont p (Some d)))).
    { split; [apply EP_withCont; assumption|]. split; [exact Hcl|split; [reflexivity|]].
      apply (paraNB_ext p); [reflexivity|cbn; symmetry; exact Ed|reflexivity|exact Hnb]. }
    assert (HexitT : (forall c, getAt (S d) (root p) = Some c -> 0 <= bend c) -> NPc (withCont p (Some d))).
    { intros Hc Hk. apply noPara; [apply Hexit|exact Hk|]. intros c Ec. left. apply Hc. exact Ec. }
    assert (Hkd : state p = stDescendTerminated -> containerKind (withCont p (Some d)) <> ParagraphKind).
    { intros X. unfold containerKind, contBlock in *. change (cdepth (withCont p (Some d))) with d. change (root (withCont p (Some d))) with (root p).
      rewrite <- Ed. apply Hst, X. }
    cbn [descend_loop]. cbv zeta.
    destruct (getAt (S d) (root p)) as [c|] eqn:Ec.
    2:{ cbn [fst snd]. split; [apply Hexit|right]. destruct Hexit as (_ & X1 & X2 & X3). split; [exact X1|split; [exact X2|split; [exact X3|]]].
        assert (HN : NPc (withCont p (Some d))) by (apply HexitT; intros c0 E0; discriminate).
        split; [intros _; exact HN|intros X; apply HN, Hkd, X]. }
    destruct (isOpen c) eqn:Eo; cbn [negb].
    2:{ cbn [fst snd]. split; [apply Hexit|right]. destruct Hexit as (_ & X1 & X2 & X3). split; [exact X1|split; [exact X2|split; [exact X3|]]].
        assert (HN : NPc (withCont p (Some d))).
        { apply HexitT. intros c0 E0. inversion E0; subst c0. unfold isOpen in Eo. apply Z.ltb_ge in Eo. exact Eo. }
        split; [intros _; exact HN|intros X; apply HN, Hkd, X]. }
    assert (HoS : openTo (S d) (root p)).
    { intros j y Hj Ey. destruct (Nat.eq_dec j (S d)) as [->|N]; [rewrite Ec in Ey; inversion Ey; subst y; unfold isOpen in Eo; apply Z.ltb_lt in Eo; exact Eo|].
      apply (Hod j y); [lia|exact Ey]. }
    assert (H1 : EP B (withCont p (Some (S d)))) by (apply EP_withCont; [exact HE|eauto|exact HoS]).
    destruct (negb (hasMatch (bkind c))) eqn:Ehm.
    { cbn [fst snd]. split; [apply Hexit|right]. destruct Hexit as (X0 & X1 & X2 & X3). split; [exact X1|split; [exact X2|split; [exact X3|split; [intros; discriminate|]]]].
      intros _. apply negb_true_iff in Ehm.
      assert (Hkk : containerKind (withCont p (Some d)) <> ParagraphKind) by (apply cont_child'; [apply X0|exists c; exact Ec]).
      apply noPara; [apply X0|exact Hkk|]. intros c0 E0. cbn [cdepth container withCont setLP root] in E0.
      rewrite Ec in E0. inversion E0; subst c0. right. split; [intros E; rewrite E in Ehm; discriminate|].
      apply leaf_no_kids; [|apply noMatch_leaf, Ehm]. destruct Hwd as (x0 & Hx0). destruct A2 as (_ & Hcc & _).
      assert (Hl : lastBlock x0 = Some c) by (rewrite getAt_S_last, Hx0 in Ec; exact Ec).
      assert (Hcx : cc x0 = true) by (eapply cc_getAt; eassumption). exact (proj1 (cc_lastBlock x0 c Hcx Hl)). }
    set (q := withState (withCont p (Some (S d))) stDescending).
    assert (Hq : EP B q) by (apply EP_withState, H1).
    assert (Hclq : clean q) by exact Hcl.
    destruct (matchRule_ent B q Hq eq_refl) as (M1 & M2 & M3). pose proof (cdepth_matchRule q) as Ecd. change (cdepth q) with (S d) in Ecd.
    destruct (matchRule q) as [ok p2]. cbn [fst snd] in M1, M2, M3, Ecd.
    destruct (Z.eqb_spec (state p2) stDescendTerminated) as [Et|Et].
    { cbn [fst snd]. pose proof M1 as (Ae & (C0 & C1) & _).
      destruct M2 as [(_ & M2 & M2')|M2]; [|destruct M2 as [_ M2]; rewrite M2 in Et; discriminate].
      assert (Hbd : bdy B (lineStart p2 + li p2)) by (rewrite M2; apply bdy_H, Ae).
      destruct (EP_closeAt B p2 d (lineStart p2 + li p2) d M1 (TP_none B p2 M2') ltac:(intros X; contradiction) ltac:(lia) ltac:(lia) ltac:(lia) Hbd) as [H3 H3'].
      split; [exact H3|left; split; [exact Et|]]. intros Hp. apply M2', H3', Hp. }
    destruct M2 as [[M2 _]|[M2 _]]; [contradiction|].
    assert (Hcl2 : clean p2) by (eapply clean_gstep; eassumption).
    assert (R2 : root p2 = root p) by (rewrite (root_cstep q p2 (gstep_cstep _ _ M2)); reflexivity).
    destruct (negb ok) eqn:Eok.
    { cbn [fst snd].
      assert (HEx : EP B (withCont p2 (Some d))).
      { apply EP_withCont; [exact M1|rewrite R2; exact Hwd|rewrite R2; exact Hod]. }
      split; [exact HEx|]. right. split; [exact Hcl2|split; [exact R2|split; [|split; [intros; discriminate|]]]].
      - apply paraNB_child; [apply HEx|]. exists c. cbn [cdepth container withCont setLP root]. rewrite R2. exact Ec.
      - intros X. change (state (withCont p2 (Some d))) with (state p2) in X. contradiction. }
    apply negb_false_iff in Eok. subst ok.
    assert (Hnb2 : paraNB p2).
    { intros Ek. apply (M3 eq_refl). unfold containerKind, contBlock in *. rewrite Ecd, R2 in Ek. exact Ek. }
    destruct (IH p2 (S d) M1 Hcl2 Ecd Hnb2) as [I1 I2]; [|intros X; contradiction|].
    { intros x Ex. rewrite R2, Ec in Ex. inversion Ex; subst x. destruct Hwd as (x0 & Hx0). specialize (Hh x0 Hx0).
      assert (Hl : lastBlock x0 = Some c) by (rewrite getAt_S_last, Hx0 in Ec; exact Ec). pose proof (bheight_last x0 c Hl). lia. }
    split; [exact I1|].
    destruct I2 as [I2|(I2 & I3 & I4 & I5 & I6)]; [left; exact I2|right]. split; [exact I2|split; [congruence|split; [exact I4|split; [exact I5|exact I6]]]].
Qed.
