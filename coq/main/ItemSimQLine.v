(* ItemSimQLine.v -- T65 (C09, list-item clause), stage 1, one line (QuoteSimQLine.v / QS2QLine.v adapted):
   processLine on a line  (K spaces) ++ rest  that is not blank, with the document's single child an open list whose single child is an
   open list item of content offset K with children done ++ ks, equals the line parser started at byte K / column K (after the
   indentation, state stDescending) directly under a document with children ks -- processLineAt K K stDescending ks --,
   re-wrapped in the list and the item; the first line (marker + N spaces + rest) opens list, item and marker and continues in the same way;
   the end-of-input line closes item and list (looseness computed by onCloseList). *)
From Coq Require Import List ZArith Lia Bool Arith.
Import ListNotations.
Require Import Base Tree Rdr Link Collect Html Recog LP Rules Starts Driver Cursor Rec16 Rec17 Rec18 L2Kind L2Kind2 L2CC NoPanic47 SlicePara
  QuoteSimTree QuoteSimNest QuoteSimQLine QuoteSimAux QuoteSimFuel ItemSimDefs ItemSimNest.
Require QS2Nest.
Open Scope Z_scope.

(* ---- runs of spaces ---- *)
Lemma spaces_S k : 0 <= k -> spaces (k + 1) = 32 :: spaces k.
Proof. intros H. unfold spaces. replace (Z.to_nat (k + 1)) with (S (Z.to_nat k)) by lia. reflexivity. Qed.
Lemma spaces_0 : spaces 0 = []. Proof. reflexivity. Qed.
Lemma len_spaces k : 0 <= k -> len (spaces k) = k.
Proof. intros H. unfold spaces, len. rewrite repeat_length. lia. Qed.
Lemma noTabL_spaces k : noTabL (spaces k).
Proof. unfold spaces, noTabL. apply Forall_forall. intros x Hx. apply repeat_spec in Hx. subst x. discriminate. Qed.
Lemma at_app_len' (pre rest : bytes) c : at_ (pre ++ c :: rest) (len pre) = c.
Proof.
  unfold at_. pose proof (len_nonneg pre). destruct (Z.ltb_spec (len pre) 0); [lia|]. unfold len. rewrite Nat2Z.id.
  rewrite app_nth2 by lia. rewrite Nat.sub_diag. reflexivity.
Qed.
Lemma len_app_cons (pre rest : bytes) c : len (pre ++ c :: rest) = len pre + 1 + len rest.
Proof. rewrite len_app, len_cons. lia. Qed.

(* consumeIndent over k spaces *)
Lemma eatSpaces_loop : forall (k : nat) f p pre rest, (k <= f)%nat ->
  li p = len pre -> line p = pre ++ spaces (Z.of_nat k) ++ rest -> (state p =? stOpening) = false ->
  consumeIndent_loop f p (Z.of_nat k) =
  (if (k =? 0)%nat then p else
   setLP p (root p) (container p) (len pre + Z.of_nat k) (col p + Z.of_nat k)
         (computeTabRem (line p) (len pre + Z.of_nat k) (col p + Z.of_nat k)) (state p) (panicked p)).
Proof.
  induction k as [|k IH]; intros f p pre rest Hf Hli Hln Hst.
  - cbn [Nat.eqb]. apply cil_0'.
  - destruct f as [|f]; [lia|]. rewrite cil_S'. destruct (Z.leb_spec (Z.of_nat (S k)) 0); [lia|]. rewrite Hst. cbv zeta.
    replace (Z.of_nat (S k)) with (Z.of_nat k + 1) in Hln |- * by lia. rewrite spaces_S in Hln by lia. cbn [app] in Hln.
    pose proof (len_nonneg pre) as Hp0. pose proof (len_nonneg (spaces (Z.of_nat k) ++ rest)) as Hr0.
    rewrite Hli, Hln. rewrite len_app_cons. destruct (Z.ltb_spec (len pre) (len pre + 1 + len (spaces (Z.of_nat k) ++ rest))); [|lia].
    rewrite at_app_len'. change (32 =? 32) with true. cbn [andb]. rewrite <- Hln.
    set (p1 := withCursor p (len pre + 1) (col p + 1) (computeTabRem (line p) (len pre + 1) (col p + 1))).
    replace (Z.of_nat k + 1 - 1) with (Z.of_nat k) by lia.
    rewrite (IH f p1 (pre ++ [32]) rest); [| lia | unfold p1; cbn [li withCursor setLP]; rewrite len_app; reflexivity
             | unfold p1; cbn [line withCursor setLP]; rewrite Hln, <- app_assoc; reflexivity | exact Hst].
    destruct (Nat.eqb_spec k 0) as [Ek|Nk]; [subst k|].
    + cbn [Nat.eqb]. unfold p1, withCursor. replace (len pre + Z.of_nat 0 + 1) with (len pre + 1) by lia. replace (col p + (Z.of_nat 0 + 1)) with (col p + 1) by lia.
      replace (len pre + (Z.of_nat 0 + 1)) with (len pre + 1) by lia. reflexivity.
    + change (Nat.eqb (S k) 0) with false. cbv iota. unfold p1, withCursor, setLP. cbn [root container li col line state panicked source lineStart tabRem].
      rewrite len_app. change (len [32]) with 1.
      replace (len pre + 1 + Z.of_nat k) with (len pre + (Z.of_nat k + 1)) by lia. replace (col p + 1 + Z.of_nat k) with (col p + (Z.of_nat k + 1)) by lia. reflexivity.
Qed.
Lemma eatSpaces p pre rest k : 1 <= k -> li p = len pre -> line p = pre ++ spaces k ++ rest -> (state p =? stOpening) = false ->
  consumeIndent p k = setLP p (root p) (container p) (len pre + k) (col p + k) (computeTabRem (line p) (len pre + k) (col p + k)) (state p) (panicked p).
Proof.
  intros Hk Hli Hln Hst. unfold consumeIndent.
  replace k with (Z.of_nat (Z.to_nat k)) in * by lia.
  rewrite (eatSpaces_loop (Z.to_nat k) (S (length (line p))) p pre rest); [|rewrite Hln, !app_length; unfold spaces; rewrite repeat_length; lia|exact Hli|exact Hln|exact Hst].
  destruct (Nat.eqb_spec (Z.to_nat k) 0) as [E|_]; [lia|]. reflexivity.
Qed.

(* the indentation seen at the start of k spaces followed by a non-space byte *)
Lemma indentLength_spaces : forall (k : nat) rest, indentLength (spaces (Z.of_nat k) ++ rest) = Z.of_nat k + indentLength rest.
Proof.
  induction k as [|k IH]; intros rest; [reflexivity|]. replace (Z.of_nat (S k)) with (Z.of_nat k + 1) by lia. rewrite spaces_S by lia.
  cbn [app indentLength]. change (isSpTab 32) with true. cbv iota. rewrite IH. lia.
Qed.
Lemma columnWidth_spaces : forall (k : nat) c, columnWidth c (spaces (Z.of_nat k)) = Z.of_nat k.
Proof.
  induction k as [|k IH]; intros c; [apply columnWidth_nil|]. replace (Z.of_nat (S k)) with (Z.of_nat k + 1) by lia. rewrite spaces_S by lia.
  rewrite columnWidth_sp, IH. lia.
Qed.
Lemma upto_app_exact {A} (a b : list A) : upto (a ++ b) (len a) = a.
Proof. unfold upto, len. rewrite Nat2Z.id. rewrite firstn_app, Nat.sub_diag, firstn_all. cbn. apply app_nil_r. Qed.

Lemma indent_spaces p pre k c rest : 0 <= k -> li p = len pre -> line p = pre ++ spaces k ++ c :: rest -> isSpTab c = false -> noTabL (line p) ->
  indent p = k.
Proof.
  intros Hk Hli Hln Hc Ht.
  assert (Hi : Itab p) by (apply Itab_CB; split; [exact Ht|rewrite Hli, Hln, len_app; pose proof (len_nonneg pre); pose proof (len_nonneg (spaces k ++ c :: rest)); lia]).
  rewrite (indent_eq p Hi). unfold wsWidth, wsRun, LP.rest. rewrite Hli, Hln.
  replace (from_ (pre ++ spaces k ++ c :: rest) (len pre)) with (spaces k ++ c :: rest) by (symmetry; apply from_app).
  replace k with (Z.of_nat (Z.to_nat k)) by lia. rewrite indentLength_spaces. cbn [indentLength]. rewrite Hc.
  replace (Z.of_nat (Z.to_nat k) + 0) with (len (spaces (Z.of_nat (Z.to_nat k)))) by (rewrite len_spaces; lia).
  rewrite upto_app_exact. apply columnWidth_spaces.
Qed.

Lemma columnWidth_spaces_app : forall (k : nat) c w, columnWidth c (spaces (Z.of_nat k) ++ w) = Z.of_nat k + columnWidth (c + Z.of_nat k) w.
Proof.
  induction k as [|k IH]; intros c w; [change (spaces (Z.of_nat 0)) with (@nil Z); cbn [app Z.of_nat]; rewrite Z.add_0_r; reflexivity|].
  replace (Z.of_nat (S k)) with (Z.of_nat k + 1) by lia. rewrite spaces_S by lia. cbn [app]. rewrite columnWidth_sp, IH.
  replace (c + 1 + Z.of_nat k) with (c + (Z.of_nat k + 1)) by lia. lia.
Qed.
Lemma upto_app_ge {A} (a b : list A) m : 0 <= m -> upto (a ++ b) (len a + m) = a ++ upto b m.
Proof.
  intros H. unfold upto, len. replace (Z.to_nat (Z.of_nat (length a) + m)) with (length a + Z.to_nat m)%nat by lia. apply firstn_app_2.
Qed.
Lemma indent_ge_spaces p pre k rest : 0 <= k -> li p = len pre -> line p = pre ++ spaces k ++ rest -> noTabL (line p) -> k <= indent p.
Proof.
  intros Hk Hli Hln Ht.
  assert (Hi : Itab p) by (apply Itab_CB; split; [exact Ht|rewrite Hli, Hln, len_app; pose proof (len_nonneg pre); pose proof (len_nonneg (spaces k ++ rest)); lia]).
  rewrite (indent_eq p Hi). unfold wsWidth, wsRun, LP.rest. rewrite Hli, Hln.
  replace (from_ (pre ++ spaces k ++ rest) (len pre)) with (spaces k ++ rest) by (symmetry; apply from_app).
  replace k with (Z.of_nat (Z.to_nat k)) by lia. rewrite indentLength_spaces. set (kk := Z.to_nat k).
  replace (Z.of_nat kk + indentLength rest) with (len (spaces (Z.of_nat kk)) + indentLength rest) by (rewrite len_spaces; lia).
  rewrite upto_app_ge by apply indentLength_nonneg. rewrite columnWidth_spaces_app.
  match goal with |- _ <= _ + columnWidth ?c ?w => pose proof (columnWidth_nonneg c w) end. lia.
Qed.

Lemma bheight_one b c : bkids b = [c] -> bheight b = S (bheight c).
Proof. intros E. rewrite bheight_eq, E. cbn [fold_right]. rewrite Nat.max_0_r. reflexivity. Qed.
Lemma lastBlock_one b c : bkids b = [c] -> lastBlock b = Some c.
Proof. intros E. unfold lastBlock. rewrite E. reflexivity. Qed.

(* ---- the first two steps of the descent: the list matches, the item matches K columns of indentation ---- *)
Lemma descend_item st bl bi ls src K rest :
  from_ src ls = spaces K ++ rest -> 1 <= K -> isBlankLine (spaces K ++ rest) = false -> noTabL (spaces K ++ rest) ->
  bkind bl = ListKind -> isOpen bl = true -> bkids bl = [bi] -> bkind bi = ListItemKind -> isOpen bi = true -> bindent bi = K ->
  descendOpenBlocks (resetLP st [bl] ls src) =
  descend_loop (bheight bi)
    {| source := src; root := Blk documentKind 0 (-1) [bl] [] 0 0 0 false false; container := Some 2%nat; lineStart := ls;
       line := spaces K ++ rest; li := K; col := K; tabRem := computeTabRem (spaces K ++ rest) K K; state := stDescending; panicked := 0 |} 2.
Proof.
  intros Hl HK Hnb Hnt Kl Ol El Ki Oi Ei. unfold descendOpenBlocks, resetLP. rewrite Hl. cbv zeta. cbn [root].
  set (rt := Blk documentKind 0 (-1) [bl] [] 0 0 0 false false).
  assert (Hh : bheight rt = S (S (bheight bi))) by (rewrite (bheight_one rt bl eq_refl), (bheight_one bl bi El); reflexivity).
  rewrite Hh. set (ln := spaces K ++ rest) in *.
  set (p0 := {| source := src; root := rt; container := Some O; lineStart := ls; line := ln; li := 0; col := 0; tabRem := computeTabRem ln 0 0; state := st; panicked := 0 |}).
  assert (G1 : getAt 1 rt = Some bl) by reflexivity.
  assert (G2 : getAt 2 rt = Some bi) by (change (getAt 2 rt) with (match lastBlock bl with Some c => getAt 0 c | None => None end); rewrite (lastBlock_one bl bi El); reflexivity).
  (* level 1: the list *)
  change (descend_loop (S (S (bheight bi))) p0 0) with
    (match getAt 1 (root p0) with
     | None => (true, withCont p0 (Some O))
     | Some c =>
       if negb (isOpen c) then (true, withCont p0 (Some O)) else
       let p := withCont p0 (Some 1%nat) in
       if negb (hasMatch (bkind c)) then (false, withCont p (Some O)) else
       let p := withState p stDescending in
       let '(ok, p) := matchRule p in
       if state p =? stDescendTerminated then (true, withCont (closeLastChildAt p O (lineStart p + li p)) (Some O))
       else if negb ok then (false, withCont p (Some O))
       else descend_loop (S (bheight bi)) p 1
     end).
  change (root p0) with rt. rewrite G1, Ol, Kl. change (hasMatch ListKind) with true. cbn [negb]. cbv zeta.
  set (p1 := withState (withCont p0 (Some 1%nat)) stDescending).
  assert (Em1 : matchRule p1 = (true, p1)).
  { unfold matchRule. cbv zeta. assert (Ek : containerKind p1 = ListKind) by (unfold containerKind, contBlock, p1; cbn [cdepth container withState withCont setLP root p0]; rewrite G1; exact Kl).
    rewrite Ek. reflexivity. }
  rewrite Em1. change (state p1) with stDescending. change (stDescending =? stDescendTerminated) with false. cbv iota. cbn [negb].
  (* level 2: the item *)
  change (descend_loop (S (bheight bi)) p1 1) with
    (match getAt 2 (root p1) with
     | None => (true, withCont p1 (Some 1%nat))
     | Some c =>
       if negb (isOpen c) then (true, withCont p1 (Some 1%nat)) else
       let p := withCont p1 (Some 2%nat) in
       if negb (hasMatch (bkind c)) then (false, withCont p (Some 1%nat)) else
       let p := withState p stDescending in
       let '(ok, p) := matchRule p in
       if state p =? stDescendTerminated then (true, withCont (closeLastChildAt p 1 (lineStart p + li p)) (Some 1%nat))
       else if negb ok then (false, withCont p (Some 1%nat))
       else descend_loop (bheight bi) p 2
     end).
  change (root p1) with rt. rewrite G2, Oi, Ki. change (hasMatch ListItemKind) with true. cbn [negb]. cbv zeta.
  set (p2 := withState (withCont p1 (Some 2%nat)) stDescending).
  assert (Hln2 : line p2 = [] ++ spaces K ++ rest) by reflexivity.
  assert (Em2 : matchRule p2 = (true, consumeIndent p2 K)).
  { unfold matchRule. cbv zeta.
    assert (Ec : contBlock p2 = bi) by (unfold contBlock, p2; cbn [cdepth container withState withCont setLP root p1 p0]; rewrite G2; reflexivity).
    unfold containerKind. rewrite Ec, Ki.
    change ((ListItemKind =? documentKind) || (ListItemKind =? ListKind)) with false. change (ListItemKind =? ListItemKind) with true. cbv iota.
    unfold matchListItem. assert (Erb : isRestBlank p2 = false) by exact Hnb. rewrite Erb, Ec, Ei.
    pose proof (indent_ge_spaces p2 [] K rest ltac:(lia) eq_refl Hln2 Hnt) as Hi. destruct (Z.leb_spec K (indent p2)); [reflexivity|lia]. }
  rewrite Em2. rewrite (eatSpaces p2 [] rest K HK eq_refl Hln2 eq_refl).
  unfold p2, p1, p0. cbn [setLP withState withCont state root container source lineStart line panicked li col len length]. change (len (@nil Z) + K) with K. change (0 + K) with K.
  change (stDescending =? stDescendTerminated) with false. cbv iota. cbn [negb]. reflexivity.
Qed.

(* ---- the theorem for one (non-blank) line under the open item ---- *)
Theorem processLine_item (fr : frame) stQ bl bi ks ls src K rest :
  from_ src ls = spaces K ++ rest -> 1 <= K -> isBlankLine (spaces K ++ rest) = false -> noTabL (spaces K ++ rest) ->
  bkind bl = ListKind -> isOpen bl = true -> bkids bl = [bi] ->
  bkind bi = ListItemKind -> isOpen bi = true -> bindent bi = K -> auxOf bi = snd fr -> bkids bi = fst fr ++ ks -> Forall closedB (fst fr) ->
  ccF ks = true ->
  exists bl' bi' (beta : bool),
    processLine stQ [bl] ls src =
      ([bl'], snd (fst (processLineAt K K stDescending ks ls src)), snd (processLineAt K K stDescending ks ls src)) /\
    bkind bl' = ListKind /\ isOpen bl' = true /\ auxOf bl' = auxOf bl /\ bkids bl' = [bi'] /\
    bkind bi' = ListItemKind /\ isOpen bi' = true /\ auxOf bi' = snd fr /\
    Forall closedB (fst (QS2Nest.blankFr beta fr)) /\
    bkids bi' = fst (QS2Nest.blankFr beta fr) ++ fst (fst (processLineAt K K stDescending ks ls src)) /\
    (beta = true -> fst (fst (processLineAt K K stDescending ks ls src)) = []).
Proof.
  intros Hl HK Hnb Hnt Kl Ol El Ki Oi Ei Ha Hkids Hcl Hcc. rewrite processLine_tail. unfold processLineAt, processTail.
  rewrite (descend_item stQ bl bi ls src K rest Hl HK Hnb Hnt Kl Ol El Ki Oi Ei).
  set (q1 := {| source := src; root := Blk documentKind 0 (-1) [bl] [] 0 0 0 false false; container := Some 2%nat; lineStart := ls;
                line := spaces K ++ rest; li := K; col := K; tabRem := computeTabRem (spaces K ++ rest) K K; state := stDescending; panicked := 0 |}).
  set (p0 := resetLPAt K K stDescending ks ls src).
  set (lsk := auxOf bl).
  assert (H0 : IN lsk fr p0 q1).
  { unfold p0, q1, resetLPAt. rewrite Hl. cbv zeta. apply IN_mk. split.
    - exists O. repeat split. discriminate.
    - exists bl, bi. split; [reflexivity|]. split; [unfold listRel; tauto|]. unfold itopRel. cbn [bkind bkids]. repeat split; try assumption. exists (fst fr). repeat split; assumption. }
  assert (F0 : F p0) by (apply F_resetLPAt, Hcc).
  unfold descendOpenBlocks.
  assert (Hhq : bheight (root q1) = S (S (bheight bi))) by (unfold q1; cbn [root]; rewrite (bheight_one (Blk documentKind 0 (-1) [bl] [] 0 0 0 false false) bl eq_refl), (bheight_one bl bi El); reflexivity).
  pose proof (IN_descend_loop lsk fr (bheight (root p0)) (bheight bi) p0 q1 O H0 ltac:(discriminate) ltac:(lia) ltac:(rewrite Hhq; lia)) as [Eam H1].
  pose proof (F_descend_loop (bheight (root p0)) p0 O F0 ltac:(eexists; reflexivity)) as F1.
  pose proof (line_descend_loop (bheight (root p0)) p0 O) as L1.
  destruct (descend_loop (bheight (root p0)) p0 0) as [am p1]. destruct (descend_loop (bheight bi) q1 2) as [am' q1']. cbn [fst snd] in *. subst am'.
  rewrite (IN_state _ _ _ _ H1).
  assert (Hlen : len (spaces K ++ rest) <> 0) by (rewrite len_app, len_spaces by lia; pose proof (len_nonneg rest); lia).
  assert (H2 : irelBP lsk fr (if negb (state p1 =? stDescendTerminated) then openNewBlocks p1 am else (false, p1))
                        (if negb (state p1 =? stDescendTerminated) then openNewBlocks q1' am else (false, q1')) /\
               (fst (if negb (state p1 =? stDescendTerminated) then openNewBlocks p1 am else (false, p1)) = true ->
                goodSt' (snd (if negb (state p1 =? stDescendTerminated) then openNewBlocks p1 am else (false, p1))))).
  { destruct (negb _).
    - split.
      + apply IN_openNewBlocks; [exact F1|exact H1|]. rewrite L1. unfold p0, resetLPAt. cbn [line]. rewrite Hl. exact Hlen.
      + intros Ht Hacc. left. apply (L2Kind2.openNewBlocks_good p1 am Ht Hacc).
    - split; [apply irelBP_mk, H1|cbn; discriminate]. }
  destruct H2 as [[Eht H2] G2].
  destruct (if negb (state p1 =? stDescendTerminated) then openNewBlocks p1 am else (false, p1)) as [ht p2].
  destruct (if negb (state p1 =? stDescendTerminated) then openNewBlocks q1' am else (false, q1')) as [ht' q2]. cbn [fst snd] in *. subst ht'.
  set (beta := ht && blankX p2).
  assert (H3 : IN lsk (blankFr beta fr) (if ht then addLineText p2 else p2) (if ht then addLineText q2 else q2)).
  { unfold beta. destruct ht; [cbn [andb]; apply IN_addLineText; [exact H2|exact (G2 eq_refl)]|exact H2]. }
  assert (HX : beta = true -> bkids (root (if ht then addLineText p2 else p2)) = []).
  { unfold beta. intros Hb. apply andb_true_iff in Hb. destruct Hb as [-> Hb]. apply addLineText_blankX; [exact Hb|apply (IN_root_doc _ _ _ _ H2)]. }
  set (p3 := if ht then addLineText p2 else p2) in *. set (q3 := if ht then addLineText q2 else q2) in *. clearbody p3 q3.
  pose proof (IN_state _ _ _ _ H3) as Es. pose proof (IN_panicked _ _ _ _ H3) as Ep.
  destruct H3 as (_ & _ & _ & _ & _ & _ & _ & _ & _ & bl' & bi' & Ebl & (L1' & L2' & L3' & L4') & (K1 & K2 & K3 & KA & dn & E1 & E2 & E3)).
  exists bl', bi', beta. rewrite Ebl, Es, Ep. subst dn.
  assert (KA' : auxOf bi' = snd fr) by (rewrite KA; unfold blankFr; destruct beta; reflexivity).
  repeat split; assumption.
Qed.
Print Assumptions processLine_item.

(* ---- the end-of-input line: item and list are closed; onCloseList computes the looseness ---- *)
Require Import StreamFuel.

(* the looseness test of onCloseList for a list with a single item *)
Definition looseAt (h : nat) (subs : list block) : bool :=
  existsb (fun jx : nat * block => let '(j, sb) := jx in (false || Nat.ltb (S j) (length subs)) && endsWithBlankLine h sb)
          (combine (seq 0 (length subs)) subs).
Lemma onCloseList_one b it : bkids b = [it] ->
  onCloseList b = if bloose b || looseAt (bheight b) (bkids it)
                  then set_bkids (set_bloose b true) [set_bloose it true] else b.
Proof.
  intros E. unfold onCloseList. cbv zeta. rewrite E. cbn [length seq combine existsb map]. rewrite orb_false_r.
  change (Nat.ltb 1 1) with false. cbn [andb orb]. reflexivity.
Qed.
Lemma looseAt_gen h n : forall (l : list block) s, (n = s + length l)%nat ->
  existsb (fun jx : nat * block => let '(j, sb) := jx in (false || Nat.ltb (S j) n) && endsWithBlankLine h sb) (combine (seq s (length l)) l) =
  existsb (endsWithBlankLine h) (removelast l).
Proof.
  induction l as [|x l IH]; intros s Hn; [reflexivity|]. cbn [length seq combine existsb]. cbn [length] in Hn.
  destruct l as [|y l'].
  - cbn [length seq combine existsb removelast]. replace (Nat.ltb (S s) n) with false by (symmetry; apply Nat.ltb_ge; cbn [length] in Hn; lia). reflexivity.
  - change (removelast (x :: y :: l')) with (x :: removelast (y :: l')). cbn [existsb].
    replace (Nat.ltb (S s) n) with true by (symmetry; apply Nat.ltb_lt; cbn [length] in Hn; lia). cbn [orb andb]. f_equal.
    apply (IH (S s)). lia.
Qed.
Lemma looseAt_removelast h subs : looseAt h subs = existsb (endsWithBlankLine h) (removelast subs).
Proof. unfold looseAt. apply (looseAt_gen h (length subs) subs O). reflexivity. Qed.

Lemma lastBlock_set_bkids_one b c : lastBlock (set_bkids b [c]) = Some c. Proof. destruct b; reflexivity. Qed.
Lemma bkind_set_bloose'' b v : bkind (set_bloose b v) = bkind b. Proof. destruct b; reflexivity. Qed.
Lemma isOpen_set_bloose b v : isOpen (set_bloose b v) = isOpen b. Proof. destruct b; reflexivity. Qed.
Lemma bkids_set_bloose b v : bkids (set_bloose b v) = bkids b. Proof. destruct b; reflexivity. Qed.
Lemma bheight_set_bloose' b v : bheight (set_bloose b v) = bheight b. Proof. destruct b; reflexivity. Qed.

Definition looseI (bl : block) (kidsI : list block) : bool := bloose bl || looseAt (bheight bl) kidsI.
Definition closedItem (lo : bool) (bi : block) (ls : Z) (kids : list block) : block :=
  set_bkids (set_bend (if lo then set_bloose bi true else bi) ls) kids.
Definition closedList (lo : bool) (bl : block) (ls : Z) (it : block) : block :=
  set_bkids (set_bend (if lo then set_bloose bl true else bl) ls) [it].

Theorem processLine_item_eof (fr : frame) stQ bl bi ks ls src :
  from_ src ls = [] -> bkind bl = ListKind -> isOpen bl = true -> bkids bl = [bi] ->
  bkind bi = ListItemKind -> isOpen bi = true -> bkids bi = fst fr ++ ks -> Forall closedB (fst fr) ->
  let lo := looseI bl (fst fr ++ ks) in
  processLine stQ [bl] ls src =
    ([closedList lo bl ls (closedItem lo bi ls (fst fr ++ eofClose (bheight (root0 ks) - 1) src ks ls))], stDescending, 0).
Proof.
  intros Hl Kl Ol El Ki Oi Hkids Hcl. cbv zeta. rewrite (processLine_eof stQ [bl] ls src Hl).
  assert (Es : eofSt stQ [bl] = stDescending).
  { unfold eofSt, descState. cbn [root0 lastBlock bkids rev app]. rewrite Ol, Kl. reflexivity. }
  rewrite Es. f_equal. f_equal. unfold eofK. rewrite Es. change (stDescending =? stDescendTerminated) with false. cbv iota.
  unfold root0 at 1 2. rewrite (bheight_one (Blk documentKind 0 (-1) [bl] [] 0 0 0 false false) bl eq_refl), (bheight_one bl bi El).
  rewrite closeBlock_S. cbn [negb isOpen bend Z.ltb Z.compare]. cbv zeta.
  cbn [set_bend bkind]. change (documentKind =? ListKind) with false. change (documentKind =? IndentedCodeBlockKind) with false.
  change ((documentKind =? ParagraphKind) || (documentKind =? SetextHeadingKind)) with false. cbv iota.
  cbn [lastBlock bkids rev app set_lastBlocks set_bkids removelast].
  (* the list *)
  rewrite closeBlock_S. rewrite Ol. cbn [negb]. cbv zeta. rewrite L2CC.bkind_set_bend, Kl. change (ListKind =? ListKind) with true. cbv iota.
  assert (Eb1 : bkids (set_bend bl ls) = [bi]) by (rewrite bkids_set_bend; exact El).
  rewrite (onCloseList_one (set_bend bl ls) bi Eb1).
  replace (bloose (set_bend bl ls)) with (bloose bl) by (destruct bl; reflexivity).
  replace (bheight (set_bend bl ls)) with (bheight bl) by (symmetry; apply bheight_set_bend). rewrite Hkids.
  fold (looseI bl (fst fr ++ ks)). set (lo := looseI bl (fst fr ++ ks)).
  set (bi1 := if lo then set_bloose bi true else bi).
  assert (K1 : bkind bi1 = ListItemKind) by (unfold bi1; destruct lo; [rewrite bkind_set_bloose''|]; exact Ki).
  assert (O1 : isOpen bi1 = true) by (unfold bi1; destruct lo; [rewrite isOpen_set_bloose|]; exact Oi).
  assert (E1 : bkids bi1 = fst fr ++ ks) by (unfold bi1; destruct lo; [rewrite bkids_set_bloose|]; exact Hkids).
  assert (H1 : bheight bi1 = bheight bi) by (unfold bi1; destruct lo; [apply bheight_set_bloose'|reflexivity]).
  set (bl1 := if lo then set_bkids (set_bloose (set_bend bl ls) true) [set_bloose bi true] else set_bend bl ls).
  assert (Ebl1 : bl1 = set_bkids (set_bend (if lo then set_bloose bl true else bl) ls) [bi1]).
  { unfold bl1, bi1. destruct lo; [destruct bl; reflexivity|]. destruct bl; cbn [bkids] in El; subst; reflexivity. }
  assert (Ell : lastBlock bl1 = Some bi1) by (rewrite Ebl1; apply lastBlock_set_bkids_one).
  rewrite Ell.
  (* the item *)
  pose proof (bheight_pos bi) as Hbp. destruct (bheight bi) as [|h] eqn:Eh; [lia|].
  rewrite closeBlock_S. rewrite O1. cbn [negb]. cbv zeta. rewrite L2CC.bkind_set_bend, K1. change (ListItemKind =? ListKind) with false.
  change (ListItemKind =? IndentedCodeBlockKind) with false. change ((ListItemKind =? ParagraphKind) || (ListItemKind =? SetextHeadingKind)) with false. cbv iota.
  rewrite lastBlock_set_bend.
  assert (Eres : (match lastBlock bi1 with Some c => set_lastBlocks (set_bend bi1 ls) (closeBlock h src c ls) | None => set_bend bi1 ls end) =
                 closedItem lo bi ls (fst fr ++ eofClose (bheight (root0 ks) - 1) src ks ls)).
  { unfold closedItem. fold bi1. unfold eofClose.
    destruct (rev ks) as [|c r] eqn:Er.
    - assert (ks = []) by (apply (f_equal (@rev block)) in Er; rewrite rev_involutive in Er; exact Er). subst ks. rewrite app_nil_r in *.
      destruct (lastBlock bi1) as [c|] eqn:Elb.
      + assert (Hc : isOpen c = false).
        { rewrite Forall_forall in Hcl. apply Hcl. rewrite <- E1. apply lastBlock_in, Elb. }
        rewrite (closeBlock_closed' h src c ls Hc). rewrite set_lastBlocks_same by (rewrite lastBlock_set_bend; exact Elb).
        destruct bi1; cbn in *. rewrite E1. reflexivity.
      + destruct bi1; cbn in *. rewrite E1. reflexivity.
    - assert (Eks : ks = removelast ks ++ [c]).
      { apply (f_equal (@rev block)) in Er. rewrite rev_involutive in Er. cbn [rev] in Er. rewrite Er, removelast_last. reflexivity. }
      assert (Elb : lastBlock bi1 = Some c) by (apply (lastBlock_snoc bi1 (fst fr ++ removelast ks)); rewrite <- app_assoc, <- Eks; exact E1).
      rewrite Elb.
      assert (Hc1 : (bheight c < bheight bi1)%nat) by (apply bheight_last, Elb).
      assert (Hc2 : (bheight c < bheight (root0 ks))%nat).
      { apply bheight_kid. cbn [root0 bkids]. rewrite Eks. apply in_or_app. right. left. reflexivity. }
      rewrite (closeBlock_fuel src ls h (bheight (root0 ks) - 1) c) by lia.
      unfold set_lastBlocks. rewrite bkids_set_bend, E1.
      assert (Hne : ks <> []) by (intros E0; rewrite E0 in Er; discriminate).
      rewrite (removelast_app_ne (fst fr) ks Hne), <- app_assoc. destruct bi1; reflexivity. }
  rewrite Eres. unfold closedList. rewrite Ebl1. unfold set_lastBlocks. rewrite bkids_set_bkids. cbn [removelast app].
  destruct (if lo then set_bloose bl true else bl); reflexivity.
Qed.
Print Assumptions processLine_item_eof.
