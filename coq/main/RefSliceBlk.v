(* RefSliceBlk.v -- block layer of the C12 slice (T44):
     D lab use = "[" lab "]: /u" LF LF "[" use "]" LF
   parseBlocks (D lab use) = the link reference definition block (label reference = norm_label lab) followed by a
   paragraph with one Unparsed entry.  Labels of any length up to the 999-character limit of parseLinkLabel. *)
From Coq Require Import List ZArith Lia Bool.
Import ListNotations.
Require Import Base Tables Utf8 Tree Rdr Link Collect Html Recog LP Rules Starts Driver Inl3a Inl3b Inl3e Render
               SliceBase SlicePara SliceText LabelNorm RefSliceRdr RefSliceFold.
Open Scope Z_scope.

(* ---- the slice ---- *)
(* label bytes: ASCII letters, digits, spaces, tabs *)
Definition labB (c : Z) : bool := plainCh c || (c =? 32) || (c =? 9).
(* a label text: first byte a letter or digit *)
Definition okUse (t : bytes) : bool := match t with c :: r => plainCh c && forallb labB r | [] => false end.
(* a definition label: moreover the last byte is not blank and there are at most 998 bytes *)
Definition okLab (t : bytes) : bool := okUse t && negb (ws (last t 0)) && (len t <=? 998).

Lemma labB_range c : labB c = true -> c = 9 \/ c = 32 \/ 48 <= c <= 57 \/ 65 <= c <= 90 \/ 97 <= c <= 122.
Proof.
  unfold labB. intros H. apply orb_true_iff in H. destruct H as [H|H]; [apply orb_true_iff in H; destruct H as [H|H]|].
  - apply plainCh_range in H. lia.
  - apply Z.eqb_eq in H. lia.
  - apply Z.eqb_eq in H. lia.
Qed.
Lemma plainCh_labB c : plainCh c = true -> labB c = true.
Proof. intros H. unfold labB. rewrite H. reflexivity. Qed.
Lemma plainCh_nws c : plainCh c = true -> ws c = false.
Proof.
  intros H. apply plainCh_range in H. unfold isSpaceTabOrLineEnding.
  repeat match goal with |- context [c =? ?k] => destruct (Z.eqb_spec c k); [exfalso; lia|] end. reflexivity.
Qed.
Lemma labB_lblB c : labB c = true -> lblB c = true.
Proof.
  intros H. apply labB_range in H. unfold lblB.
  repeat match goal with |- context [c =? ?k] => destruct (Z.eqb_spec c k); [exfalso; lia|] end. reflexivity.
Qed.
Lemma labB_ascii c : labB c = true -> asciiB c.
Proof. intros H. apply labB_range in H. unfold asciiB. lia. Qed.
Lemma labB_noesc c : labB c = true -> (c =? 92) = false /\ (c =? 38) = false.
Proof. intros H. apply labB_range in H. split; apply Z.eqb_neq; lia. Qed.

Lemma okUse_inv t : okUse t = true -> exists c r, t = c :: r /\ plainCh c = true /\ Forall (fun x => labB x = true) (c :: r).
Proof.
  destruct t as [|c r]; [discriminate|]. cbn [okUse]. intros H. apply andb_true_iff in H. destruct H as [Hc Hr].
  exists c, r. split; [reflexivity|]. split; [exact Hc|]. constructor; [apply plainCh_labB, Hc|].
  apply Forall_forall. intros x Hx. rewrite forallb_forall in Hr. apply Hr, Hx.
Qed.
Lemma okLab_inv t : okLab t = true -> okUse t = true /\ ws (last t 0) = false /\ len t <= 998.
Proof.
  unfold okLab. intros H. apply andb_true_iff in H. destruct H as [H H3]. apply andb_true_iff in H. destruct H as [H1 H2].
  apply negb_true_iff in H2. apply Z.leb_le in H3. tauto.
Qed.

Lemma Forall_labB_noNul t : Forall (fun x => labB x = true) t -> noNul t.
Proof. intros H. eapply Forall_impl; [|exact H]. intros c Hc. apply labB_range in Hc. cbv beta. lia. Qed.
Lemma Forall_labB_noEol t : Forall (fun x => labB x = true) t -> noEolB t.
Proof. intros H. eapply Forall_impl; [|exact H]. intros c Hc. apply labB_range in Hc. lia. Qed.
Lemma Forall_labB_ascii t : Forall (fun x => labB x = true) t -> Forall asciiB t.
Proof. intros H. eapply Forall_impl; [|exact H]. intros c Hc. apply labB_ascii, Hc. Qed.
Lemma Forall_labB_lblB t : Forall (fun x => labB x = true) t -> Forall (fun x => lblB x = true) t.
Proof. intros H. eapply Forall_impl; [|exact H]. intros c Hc. apply labB_lblB, Hc. Qed.

Lemma spanValid_true s e : 0 <= s -> s <= e -> spanValid (s, e) = true.
Proof.
  intros H1 H2. unfold spanValid. cbn [fst snd]. rewrite !andb_true_iff. repeat split; apply Z.leb_le; lia.
Qed.

Lemma ocp_loop_S f rfuel src orig orphan r result : ocp_loop (S f) rfuel src orig orphan r result =
  let withOrphan res := match orphan with Some o => res ++ [o] | None => res end in
    let '(lspan, linner, r1) := parseLinkLabel rfuel r in
    if negb (spanValid lspan) then result ++ [orig] else
    let '(c, r2) := current r1 in
    if negb (c =? 58) then result ++ [orig] else
    let '(_, r3) := next r2 in
    let '(ok, r4) := skipLinkSpace rfuel r3 in
    if negb ok then result ++ [orig] else
    let '(dspan, dtext, r5) := parseLinkDestination rfuel r4 in
    if negb (spanValid dspan) then result ++ [orig] else
    let sepPoint := r_pos r5 in
    let '(destEOL, r6) := readEOL rfuel r5 in
    let cloned := r6 in
    let '(c6, r7) := current r6 in
    if (destEOL <? 0) && (r_pos r6 =? sepPoint) && negb (c6 =? 0) then result ++ [orig] else
    let ik := bik orig in
    let labelInline :=
      Inl LinkLabelKind (fst linner) (snd linner) 0
          (transformLinkReferenceSpan rfuel src ik (fst linner) (snd linner))
          (collectTextNodes rfuel (newReader src ik (fst linner)) (snd linner) TextKind false) in
    let destInline :=
      Inl LinkDestinationKind (fst dspan) (snd dspan) 0 []
          (collectTextNodes rfuel (newReader src ik (fst dtext)) (snd dtext) TextKind true) in
    let '(ok2, r8) := skipLinkSpace rfuel r7 in
    if negb ok2 then withOrphan (result ++ [refDefBlock (fst lspan) destEOL [labelInline; destInline]]) else
    let '(tspan, ttext, r9) := parseLinkTitle rfuel r8 in
    let cutTo (pos : Z) (k : block -> list block) : list block :=
      let orig' := set_bstart orig pos in
      let fc := nodeIndexForPosition ik pos in
      if fc <? 0 then withOrphan (result ++ [refDefBlock (fst lspan) destEOL [labelInline; destInline]])
      else k (set_bik orig' (from_ ik fc)) in
    if negb (spanValid tspan) then
      if destEOL <? 0 then result ++ [orig] else
      cutTo (r_pos cloned)
            (fun orig' => ocp_loop f rfuel src orig' orphan cloned
                                   (result ++ [refDefBlock (fst lspan) destEOL [labelInline; destInline]]))
    else
    let '(titleEOL, r10) := readEOL rfuel r9 in
    if titleEOL <? 0 then
      if destEOL <? 0 then result ++ [orig] else
      cutTo (r_pos cloned)
            (fun orig' => result ++ [refDefBlock (fst lspan) destEOL [labelInline; destInline]] ++ [orig'])
    else
    let titleInline :=
      Inl LinkTitleKind (fst tspan) (snd tspan) 0 []
          (collectTextNodes rfuel (newReader src ik (fst ttext)) (snd ttext) TextKind true) in
    let nb := refDefBlock (fst lspan) titleEOL [labelInline; destInline; titleInline] in
    let orig' := set_bstart orig (r_pos r10) in
    let fc := nodeIndexForPosition ik (r_pos r10) in
    if fc <? 0 then withOrphan (result ++ [nb])
    else ocp_loop f rfuel src (set_bik orig' (from_ ik fc)) orphan r10 (result ++ [nb]).
Proof. reflexivity. Qed.

Lemma last_snoc_inv (t : bytes) : t <> [] -> exists t0 c, t = t0 ++ [c] /\ last t 0 = c.
Proof.
  intros H. destruct (exists_last H) as (t0 & c & E). exists t0, c. split; [exact E|]. rewrite E. apply last_last.
Qed.

(* ---------------------------------------------------------------------------------------------- *)
(* 1. closing the definition paragraph                                                            *)
(* ---------------------------------------------------------------------------------------------- *)
Definition defTail : bytes := [93; 58; 32; 47; 117; 10].       (* "]: /u" LF *)
Definition L1 (lab : bytes) : bytes := [91] ++ lab ++ defTail.
Definition refDefOf (lab : bytes) (lastBlank : bool) : block :=
  Blk LinkReferenceDefinitionKind 0 (len lab + 7) []
      [Inl LinkLabelKind 1 (len lab + 1) 0 (norm_label lab) [mkI TextKind 1 (len lab + 1)];
       Inl LinkDestinationKind (len lab + 4) (len lab + 6) 0 [] [mkI TextKind (len lab + 4) (len lab + 6)]]
      0 0 0 false lastBlank.

Lemma len_L1 lab : len (L1 lab) = len lab + 7.
Proof. unfold L1, defTail. rewrite !sl_len_app. change (len [91]) with 1. change (len [93; 58; 32; 47; 117; 10]) with 6. lia. Qed.

Section Def.
  Variable lab : bytes.
  Hypothesis Hok : okLab lab = true.
  Let n := len lab.
  Let src := L1 lab ++ [10].
  Let b := n + 7.

  Lemma def_facts : exists c0 t, lab = c0 :: t /\ plainCh c0 = true /\ Forall (fun x => labB x = true) lab /\
    ws (last lab 0) = false /\ n <= 998 /\ 1 <= n.
  Proof.
    destruct (okLab_inv lab Hok) as (H1 & H2 & H3). destruct (okUse_inv lab H1) as (c0 & t & E & Hc & HF).
    exists c0, t. rewrite <- E in HF. repeat split; try assumption.
    unfold n. rewrite E, sl_len_cons. pose proof (sl_len_nonneg t). lia.
  Qed.

  Lemma def_src_len : len src = n + 8.
  Proof. unfold src. rewrite sl_len_app, len_L1. change (len [10]) with 1. fold n. lia. Qed.
  Lemma def_src_nz : noNul src.
  Proof.
    destruct def_facts as (c0 & t & E & Hc & HF & _). unfold src, L1, defTail.
    repeat apply noNul_app; try (apply Forall_labB_noNul; exact HF); repeat constructor; lia.
  Qed.
  Lemma def_from0 : from_ src 0 = 91 :: lab ++ [93; 58; 32; 47; 117; 10; 10].
  Proof. rewrite sl_from_0. unfold src, L1, defTail. cbn [app]. rewrite <- app_assoc. reflexivity. Qed.
  Lemma def_from k suf : (firstn k [93; 58; 32; 47; 117; 10; 10]) ++ suf = [93; 58; 32; 47; 117; 10; 10] -> (k <= 7)%nat ->
    from_ src (n + 1 + Z.of_nat k) = suf.
  Proof.
    intros E Hk. pose proof (sl_len_nonneg lab) as Hn. fold n in Hn.
    assert (H : from_ src 0 = (91 :: lab ++ firstn k [93; 58; 32; 47; 117; 10; 10]) ++ suf).
    { rewrite def_from0. cbn [app]. f_equal. rewrite <- app_assoc. f_equal. symmetry. exact E. }
    apply (from_app_inv src 0 _ suf ltac:(lia)) in H.
    replace (n + 1 + Z.of_nat k) with (0 + len (91 :: lab ++ firstn k [93; 58; 32; 47; 117; 10; 10])); [exact H|].
    rewrite sl_len_cons, sl_len_app. fold n. unfold len at 1. rewrite firstn_length. cbn [length]. lia.
  Qed.

  Theorem ocp_def : onCloseParagraph src (paraClosed 0 (n + 7) (n + 7)) = [refDefOf lab false].
  Proof.
    destruct def_facts as (c0 & t & E & Hc0 & HF & Hlast & Hn998 & Hn1).
    pose proof def_src_len as Hlen. pose proof def_src_nz as Hnz.
    assert (Hb : b <= len src) by (unfold b; lia).
    assert (Ha : 0 <= 0) by lia.
    (* the suffixes of the source *)
    pose proof (def_from 0 _ eq_refl ltac:(lia)) as F1. pose proof (def_from 1 _ eq_refl ltac:(lia)) as F2.
    pose proof (def_from 2 _ eq_refl ltac:(lia)) as F3. pose proof (def_from 3 _ eq_refl ltac:(lia)) as F4.
    pose proof (def_from 4 _ eq_refl ltac:(lia)) as F5. pose proof (def_from 5 _ eq_refl ltac:(lia)) as F6.
    pose proof (def_from 6 _ eq_refl ltac:(lia)) as F7.
    cbn [firstn Z.of_nat Pos.of_succ_nat Pos.succ] in F1, F2, F3, F4, F5, F6, F7.
    replace (n + 1 + 0) with (n + 1) in F1 by lia. replace (n + 1 + 1) with (n + 2) in F2 by lia.
    replace (n + 1 + 2) with (n + 3) in F3 by lia. replace (n + 1 + 3) with (n + 4) in F4 by lia.
    replace (n + 1 + 4) with (n + 5) in F5 by lia. replace (n + 1 + 5) with (n + 6) in F6 by lia.
    replace (n + 1 + 6) with (n + 7) in F7 by lia.
    unfold onCloseParagraph. cbn [paraClosed bik bkind length].
    change (ParagraphKind =? SetextHeadingKind) with false. cbv iota.
    change (istart (mkI UnparsedKind 0 (n + 7))) with 0.
    change (newReader src [mkI UnparsedKind 0 (n + 7)] 0) with (R1 src 0 b 0 0 (-1)).
    set (rfuel := (2 * length src + 10)%nat).
    assert (Hrf : exists f, rfuel = S (S (S (S f))) /\ (length src < f)%nat).
    { exists (2 * length src + 6)%nat. unfold rfuel. split; lia. }
    destruct Hrf as (f & Erf & Hf).
    assert (Hlsrc : Z.of_nat (length src) = n + 8) by exact Hlen.
    set (orig := Blk ParagraphKind 0 (n + 7) [] [mkI UnparsedKind 0 (n + 7)] 0 0 0 false false).
    rewrite ocp_loop_S. cbv zeta.
    (* the label *)
    assert (Elab : parseLinkLabel rfuel (R1 src 0 b 0 0 (-1)) = ((0, n + 2), (1, n + 1), R1 src 0 b (n + 2) 0 (n + 1))).
    { destruct (parseLinkLabel_R1 src 0 b Ha Hb Hnz c0 t rfuel 0 0 (-1) [58; 32; 47; 117; 10; 10]) as [[_ Hbad]|Hgood].
      - rewrite def_from0, E. reflexivity.
      - rewrite <- E. apply Forall_labB_lblB, HF.
      - apply plainCh_nws, Hc0.
      - lia.
      - rewrite <- E. fold n. unfold b. lia.
      - assert (Z.of_nat (length t) + 1 = n) by (unfold n; rewrite E, sl_len_cons; reflexivity). lia.
      - rewrite <- E in Hbad. fold n in Hbad. unfold maxChars in Hbad. lia.
      - rewrite Hgood. rewrite <- E. fold n.
        destruct (last_snoc_inv lab) as (t0 & cl & El & Ecl); [rewrite E; discriminate|].
        rewrite Ecl in Hlast. rewrite El at 1. rewrite (ieOf_last t0 (0 + 1) (-1) cl Hlast). rewrite <- El. fold n.
        unfold afterPos. destruct (Z.ltb_spec (0 + n + 2) b) as [_|L]; [|unfold b in L; lia].
        replace (0 + n + 2) with (n + 2) by lia. replace (0 + 1 + n) with (n + 1) by lia.
        replace (n + 2 - 1) with (n + 1) by lia. reflexivity. }
    rewrite Elab. cbv iota beta. rewrite (spanValid_true 0 (n + 2)) by lia. cbn [negb].
    (* ':' *)
    rewrite (cur_at src 0 b Ha (n + 2) 0 (n + 1) 58 _ F2) by (unfold b; lia).
    change (negb (58 =? 58)) with false. cbv iota.
    rewrite (nxt_in src 0 b Ha Hb Hnz (n + 2) 0 (n + 1) 58 _ F2) by (unfold b; lia).
    replace (n + 2 + 1) with (n + 3) by lia.
    (* the space before the destination *)
    assert (Esk : skipLinkSpace rfuel (R1 src 0 b (n + 3) 0 (n + 2)) = (true, R1 src 0 b (n + 4) 0 (n + 3))).
    { unfold skipLinkSpace. rewrite (cur_at src 0 b Ha (n + 3) 0 (n + 2) 32 _ F3) by (unfold b; lia).
      change (32 =? 0) with false. cbv iota. rewrite Erf. cbn [skipLinkSpace_loop].
      rewrite (cur_at src 0 b Ha (n + 3) 0 (n + 2) 32 _ F3) by (unfold b; lia).
      change (isSpaceTabOrLineEnding 32) with true. cbv iota.
      rewrite (nxt_in src 0 b Ha Hb Hnz (n + 3) 0 (n + 2) 32 _ F3) by (unfold b; lia).
      replace (n + 3 + 1) with (n + 4) by lia.
      rewrite (cur_at src 0 b Ha (n + 4) 0 (n + 3) 47 _ F4) by (unfold b; lia).
      change (isSpaceTabOrLineEnding 47) with false. reflexivity. }
    rewrite Esk. cbv iota beta. cbn [negb].
    (* the destination *)
    assert (Edest : parseLinkDestination rfuel (R1 src 0 b (n + 4) 0 (n + 3)) =
                    ((n + 4, n + 6), (n + 4, n + 6), R1 src 0 b (n + 6) 0 (n + 5))).
    { unfold parseLinkDestination. rewrite (cur_at src 0 b Ha (n + 4) 0 (n + 3) 47 _ F4) by (unfold b; lia).
      change (47 =? 60) with false. change (negb (isASCIIControl 47) && negb (47 =? 32) && negb (47 =? 41)) with true. cbv iota.
      change (r_pos (R1 src 0 b (n + 4) 0 (n + 3))) with (n + 4).
      assert (Ebare : ld_bare rfuel (R1 src 0 b (n + 4) 0 (n + 3)) 0 = R1 src 0 b (n + 6) 0 (n + 5)).
      { rewrite Erf. cbn [ld_bare].
        rewrite (cur_at src 0 b Ha (n + 4) 0 (n + 3) 47 _ F4) by (unfold b; lia).
        change (isASCIIControl 47 || (47 =? 32)) with false. change (47 =? 92) with false. change (47 =? 40) with false.
        change (47 =? 41) with false. cbv iota.
        rewrite (nxt_in src 0 b Ha Hb Hnz (n + 4) 0 (n + 3) 47 _ F4) by (unfold b; lia).
        replace (n + 4 + 1) with (n + 5) by lia.
        rewrite (cur_at src 0 b Ha (n + 5) 0 (n + 4) 117 _ F5) by (unfold b; lia).
        change (isASCIIControl 117 || (117 =? 32)) with false. change (117 =? 92) with false. change (117 =? 40) with false.
        change (117 =? 41) with false. cbv iota.
        rewrite (nxt_in src 0 b Ha Hb Hnz (n + 5) 0 (n + 4) 117 _ F5) by (unfold b; lia).
        replace (n + 5 + 1) with (n + 6) by lia.
        rewrite (cur_at src 0 b Ha (n + 6) 0 (n + 5) 10 _ F6) by (unfold b; lia).
        change (isASCIIControl 10 || (10 =? 32)) with true. reflexivity. }
      rewrite Ebare. reflexivity. }
    rewrite Edest. cbv iota beta. rewrite (spanValid_true (n + 4) (n + 6)) by lia. cbn [negb].
    change (r_pos (R1 src 0 b (n + 6) 0 (n + 5))) with (n + 6).
    (* the end of the line *)
    assert (Eeol : readEOL rfuel (R1 src 0 b (n + 6) 0 (n + 5)) = (n + 7, Rend src (n + 7) 0 (n + 6))).
    { unfold readEOL. rewrite Erf. cbn [skipSpacesAndTabs].
      rewrite (cur_at src 0 b Ha (n + 6) 0 (n + 5) 10 _ F6) by (unfold b; lia).
      change (isSpTab 10) with false. change (negb (10 =? 0)) with true. cbv iota. cbn [negb].
      rewrite (cur_at src 0 b Ha (n + 6) 0 (n + 5) 10 _ F6) by (unfold b; lia).
      change (10 =? 13) with false. change (10 =? 10) with true. cbv iota.
      rewrite (nxt_last src 0 b Ha Hb Hnz (n + 6) 0 (n + 5) 10 _ F6) by (unfold b; lia).
      replace (n + 6 + 1) with (n + 7) by lia. cbn [r_prev Rend]. replace (n + 6 + 1) with (n + 7) by lia. reflexivity. }
    rewrite Eeol. cbv iota beta.
    assert (Hat7 : at_ src (n + 7) = 10).
    { destruct (from_cons_inv src (n + 7) 10 [] ltac:(lia) F7) as (_ & H & _). exact H. }
    rewrite (current_Rend src (n + 7) 0 (n + 6)) by (rewrite ?Hat7; lia). rewrite Hat7.
    destruct (Z.ltb_spec (n + 7) 0) as [L|_]; [lia|]. cbn [andb].
    cbn [fst snd].
    (* no title: the reader is exhausted *)
    assert (Esk2 : skipLinkSpace rfuel (Rend src (n + 7) 0 (n + 6)) = (false, Rend src (n + 7) 0 (n + 6))).
    { unfold skipLinkSpace. rewrite (current_Rend src (n + 7) 0 (n + 6)) by (rewrite ?Hat7; lia). rewrite Hat7.
      change (10 =? 0) with false. cbv iota. rewrite Erf. cbn [skipLinkSpace_loop].
      rewrite (current_Rend src (n + 7) 0 (n + 6)) by (rewrite ?Hat7; lia). rewrite Hat7.
      change (isSpaceTabOrLineEnding 10) with true. cbv iota. rewrite next_Rend. reflexivity. }
    rewrite Esk2. cbv iota beta. cbn [negb app].
    (* the label reference and the two text nodes *)
    cbn [paraClosed bik].
    pose proof def_from0 as F0. destruct (from_cons_inv src 0 91 _ ltac:(lia) F0) as (_ & _ & F0').
    assert (Hsub : sub src 1 (n + 1) = lab).
    { replace (n + 1) with (0 + 1 + len lab) by (unfold n; lia). apply (from_sub src (0 + 1) lab _ ltac:(lia) F0'). }
    assert (Hnz' : forall i, 1 <= i < n + 1 -> at_ src i <> 0) by (intros i Hi; apply noNul_at; [exact Hnz|lia]).
    rewrite (label_norm_single_gen src 0 (n + 7) 1 (n + 1) rfuel ltac:(lia) ltac:(lia) ltac:(lia) ltac:(lia)) by (try exact Hnz'; unfold rfuel; lia).
    rewrite Hsub.
    change (newReader src [mkI UnparsedKind 0 (n + 7)] 1) with (R1 src 0 b 1 0 (-1)).
    change (newReader src [mkI UnparsedKind 0 (n + 7)] (n + 4)) with (R1 src 0 b (n + 4) 0 (-1)).
    rewrite (collectTextNodes_plain src 0 b Ha Hb Hnz rfuel 1 0 (-1) (n + 1) TextKind false); try (unfold b; lia).
    2:{ intros i Hi. apply labB_noesc.
        apply (from_Forall_at (fun c => labB c = true) src (0 + 1) lab _ ltac:(lia) F0' HF). fold n. lia. }
    rewrite (collectTextNodes_plain src 0 b Ha Hb Hnz rfuel (n + 4) 0 (-1) (n + 6) TextKind true); try (unfold b; lia).
    2:{ intros i Hi. destruct (from_cons_inv src (n + 4) 47 _ ltac:(lia) F4) as (_ & A4 & _).
        destruct (from_cons_inv src (n + 5) 117 _ ltac:(lia) F5) as (_ & A5 & _).
        assert (Hi' : i = n + 4 \/ i = n + 5) by lia. destruct Hi' as [-> | ->]; [rewrite A4|rewrite A5]; split; reflexivity. }
    reflexivity.
  Qed.
End Def.

(* ---------------------------------------------------------------------------------------------- *)
(* 2. closing the paragraph "[use]": it stays a paragraph (no ':' after the label)                *)
(* ---------------------------------------------------------------------------------------------- *)
Definition L2 (use : bytes) : bytes := [91] ++ use ++ [93; 10].
Lemma len_L2 use : len (L2 use) = len use + 3.
Proof. unfold L2. rewrite !sl_len_app. change (len [91]) with 1. change (len [93; 10]) with 2. lia. Qed.

Section Use.
  Variable use : bytes.
  Hypothesis Hok : okUse use = true.
  Let n := len use.
  Let src := L2 use.

  Lemma use_src_nz : noNul src.
  Proof.
    destruct (okUse_inv use Hok) as (c0 & t & E & Hc & HF). rewrite <- E in HF. unfold src, L2.
    repeat apply noNul_app; try (apply Forall_labB_noNul; exact HF); repeat constructor; lia.
  Qed.

  Theorem ocp_use : onCloseParagraph src (paraClosed 0 (n + 3) (n + 3)) = [paraClosed 0 (n + 3) (n + 3)].
  Proof.
    destruct (okUse_inv use Hok) as (c0 & t & E & Hc0 & HF). rewrite <- E in HF.
    pose proof use_src_nz as Hnz. pose proof (len_L2 use) as Hlen. fold src n in Hlen.
    pose proof (sl_len_nonneg use) as Hn0. fold n in Hn0.
    assert (Hb : n + 3 <= len src) by lia. assert (Ha : 0 <= 0) by lia.
    assert (F0 : from_ src 0 = 91 :: use ++ [93; 10]) by (rewrite sl_from_0; reflexivity).
    assert (F2 : from_ src (n + 2) = [10]).
    { assert (H : from_ src 0 = (91 :: use ++ [93]) ++ [10]) by (rewrite F0; cbn [app]; rewrite <- app_assoc; reflexivity).
      apply (from_app_inv src 0 _ [10] ltac:(lia)) in H.
      replace (n + 2) with (0 + len (91 :: use ++ [93])); [exact H|]. rewrite sl_len_cons, sl_len_app. change (len [93]) with 1. fold n. lia. }
    unfold onCloseParagraph. cbn [paraClosed bik bkind length].
    change (ParagraphKind =? SetextHeadingKind) with false. cbv iota.
    change (istart (mkI UnparsedKind 0 (n + 3))) with 0.
    change (newReader src [mkI UnparsedKind 0 (n + 3)] 0) with (R1 src 0 (n + 3) 0 0 (-1)).
    set (rfuel := (2 * length src + 10)%nat).
    assert (Hlsrc : Z.of_nat (length src) = n + 3) by exact Hlen.
    rewrite ocp_loop_S. cbv zeta.
    destruct (parseLinkLabel_R1 src 0 (n + 3) Ha Hb Hnz c0 t rfuel 0 0 (-1) [10]) as [[Hbad _]|Hgood].
    - rewrite F0, E. reflexivity.
    - rewrite <- E. apply Forall_labB_lblB, HF.
    - apply plainCh_nws, Hc0.
    - lia.
    - rewrite <- E. fold n. lia.
    - assert (Z.of_nat (length t) + 1 = n) by (unfold n; rewrite E, sl_len_cons; reflexivity). unfold rfuel. lia.
    - destruct (parseLinkLabel rfuel (R1 src 0 (n + 3) 0 0 (-1))) as [[lspan linner] r1]. cbn [fst] in Hbad.
      rewrite Hbad. reflexivity.
    - rewrite Hgood. rewrite <- E. fold n. cbv iota beta. rewrite (spanValid_true 0 (0 + n + 2)) by lia. cbn [negb].
      unfold afterPos. destruct (Z.ltb_spec (0 + n + 2) (n + 3)) as [_|L]; [|lia].
      replace (0 + n + 2) with (n + 2) by lia.
      rewrite (cur_at src 0 (n + 3) Ha (n + 2) 0 (n + 2 - 1) 10 _ F2) by lia.
      change (negb (10 =? 58)) with true. reflexivity.
  Qed.
End Use.

(* ---------------------------------------------------------------------------------------------- *)
(* 3. the blank line after a one-line paragraph closes it                                         *)
(* ---------------------------------------------------------------------------------------------- *)
Lemma processLine_blank_para st src s ue ls X : from_ src ls = [10] ->
  onCloseParagraph src (paraClosed s ls ue) = [X] ->
  processLine st [paraOpen s ue] ls src = ([set_blast X true], stOpening, 0).
Proof.
  intros Hl Ho. unfold processLine, resetLP. rewrite Hl.
  change (computeTabRem [10] 0 0) with 0.
  set (p0 := {| source := src; root := Blk documentKind 0 (-1) [paraOpen s ue] [] 0 0 0 false false; container := Some 0%nat;
               lineStart := ls; line := [10]; li := 0; col := 0; tabRem := 0; state := st; panicked := 0 |}).
  assert (Hd : descendOpenBlocks p0 = (false, setLP p0 (root p0) (Some 0%nat) 0 0 0 stDescending 0)) by reflexivity.
  rewrite Hd. set (q := setLP p0 (root p0) (Some 0%nat) 0 0 0 stDescending 0).
  change (negb (state q =? stDescendTerminated)) with true. cbv iota.
  unfold openNewBlocks. change (len (line q) =? 0) with false. cbv iota.
  change (length (line q)) with 1%nat.
  assert (Hts : tryStarts blockStarts q = (false, withState q stOpening)) by reflexivity.
  assert (Hop : opening_loop 2 q = (true, withState q stOpening)).
  { cbn [opening_loop]. change (containerKind q) with documentKind.
    change ((documentKind =? ParagraphKind) || negb (acceptsLines documentKind)) with true. cbv iota. rewrite Hts. reflexivity. }
  rewrite Hop. cbv iota.
  set (q1 := withState q stOpening).
  assert (Hdc : deferredClose q1 = withRoot q1 (Blk documentKind 0 (-1) [X] [] 0 0 0 false false)).
  { unfold deferredClose. change (isRestBlank q1) with true. cbn [negb andb].
    unfold closeLastChildAt. change (cdepth q1) with O. cbn [updAt].
    change (lastBlock (root q1)) with (Some (paraOpen s ue)). cbv iota.
    change (bheight (root q1)) with 2%nat. change (source q1) with src. change (lineStart q1) with ls.
    rewrite (closeBlock_para 1 src (paraOpen s ue) ls eq_refl eq_refl).
    change (set_bend (paraOpen s ue) ls) with (paraClosed s ls ue). rewrite Ho. reflexivity. }
  rewrite Hdc.
  set (q2 := withRoot q1 (Blk documentKind 0 (-1) [X] [] 0 0 0 false false)).
  unfold addLineText. change (isRestBlank q2) with true. cbv iota zeta.
  destruct X as [k xs xe xk xi xa xn xc xl xlb]. reflexivity.
Qed.

(* ---------------------------------------------------------------------------------------------- *)
(* 4. the end of input closes a paragraph that onCloseParagraph leaves alone                      *)
(* ---------------------------------------------------------------------------------------------- *)
Lemma closeBlock_doc_para_gen src s ue e X : onCloseParagraph src (paraClosed s e ue) = [X] ->
  closeBlock 2 src (rootDoc [paraOpen s ue]) e = [Blk documentKind 0 e [X] [] 0 0 0 false false].
Proof.
  intros Ho. rewrite (closeBlock_plain 1 src (rootDoc [paraOpen s ue]) e eq_refl eq_refl).
  change (lastBlock (set_bend (rootDoc [paraOpen s ue]) e)) with (Some (paraOpen s ue)). cbv iota.
  rewrite (closeBlock_para 0 src (paraOpen s ue) e eq_refl eq_refl).
  change (set_bend (paraOpen s ue) e) with (paraClosed s e ue). rewrite Ho. reflexivity.
Qed.

Lemma processLine_eof_para_gen st src s ue X : onCloseParagraph src (paraClosed s (len src) ue) = [X] ->
  processLine st [paraOpen s ue] (len src) src = ([X], stDescending, 0).
Proof.
  intros Ho. unfold processLine, resetLP. rewrite sl_from_all.
  change (computeTabRem [] 0 0) with 0.
  set (p0 := {| source := src; root := Blk documentKind 0 (-1) [paraOpen s ue] [] 0 0 0 false false; container := Some 0%nat;
               lineStart := len src; line := []; li := 0; col := 0; tabRem := 0; state := st; panicked := 0 |}).
  assert (Hd : descendOpenBlocks p0 = (false, setLP p0 (root p0) (Some 0%nat) 0 0 0 stDescending 0)) by reflexivity.
  rewrite Hd. set (q := setLP p0 (root p0) (Some 0%nat) 0 0 0 stDescending 0).
  change (negb (state q =? stDescendTerminated)) with true. cbv iota.
  unfold openNewBlocks. change (len (line q) =? 0) with true. cbv iota.
  change (bheight (root q)) with 2%nat. change (root q) with (rootDoc [paraOpen s ue]).
  change (source q) with src. change (lineStart q) with (len src).
  rewrite (closeBlock_doc_para_gen src s ue (len src) X Ho).
  reflexivity.
Qed.

Lemma lineCount_noEol : forall body l, noEolB body -> lineCount (body ++ l) = lineCount l.
Proof.
  induction body as [|c body IH]; intros l H; [reflexivity|]. inversion H as [|x y [H10 H13] H' Exy].
  cbn [app lineCount]. destruct (Z.eqb_spec c 10); [contradiction|]. destruct (Z.eqb_spec c 13); [contradiction|].
  rewrite (IH l H'). reflexivity.
Qed.

(* one paragraph line at the end of the buffer, from any offset / line number *)
Lemma skipLoop_one_para f c r bo bl :
  let body := c :: r in let L := body ++ [10] in
  noEolB body -> noNul body -> paraStartByte c = true -> snd (parseListMarker L) < 0 ->
  onCloseParagraph L (paraClosed 0 (len L) (len L)) = [paraClosed 0 (len L) (len L)] ->
  skipLoop (S (S (S f))) {| buf := L; bi := 0; boff := bo; bline := bl; pending := [] |} =
  NBBlock {| rb_line := bl; rb_start := bo; rb_end := bo + len L; rb_src := L; rb_blk := paraClosed 0 (len L) (len L) |}
          {| buf := []; bi := 0; boff := bo + len L; bline := bl + 1; pending := [] |}.
Proof.
  intros body L Heol Hnul Hc Hm Ho.
  assert (HnulL : noNul L) by (apply noNul_app; [exact Hnul|constructor; [lia|constructor]]).
  assert (HL : L = c :: (r ++ [10])) by reflexivity.
  assert (Hlen : 0 < len L) by (rewrite HL, sl_len_cons; pose proof (sl_len_nonneg (r ++ [10])); lia).
  rewrite sl_skipLoop_S. cbv zeta. cbn [buf bi boff bline pending].
  assert (Hle : lineEnd L 0 = len L).
  { change L with ([] ++ body ++ [10]). change 0 with (len (@nil Z)) at 1. rewrite (lineEnd_lf [] body [] Heol).
    rewrite !sl_len_app. rewrite sl_len_nil. change (len [10]) with 1. lia. }
  rewrite Hle. destruct (Z.ltb_spec 0 (len L)); [|lia]. cbn [negb]. rewrite sl_upto_all.
  rewrite HL at 1. rewrite (noEolB_blank_hd c (r ++ [10]) (psb_ws c Hc)).
  rewrite sl_lineLoop_S. cbn [buf bi boff bline pending]. rewrite sl_upto_all.
  rewrite (processLine_first_para L 0 c (r ++ [10]) eq_refl Hc Hm).
  change (negb (0 =? 0)) with false. cbv iota. cbn [makeRoot paraOpen isOpen bend Z.ltb Z.compare].
  rewrite sl_lineLoop_S. cbn [buf bi boff bline pending].
  rewrite lineEnd_end. rewrite sl_upto_all.
  rewrite <- HL. rewrite Z.add_0_l.
  rewrite (processLine_eof_para_gen stOpenMatched L 0 (len L) _ Ho).
  change (negb (0 =? 0)) with false. cbv iota. unfold makeRoot, paraClosed. unfold isOpen. cbn [bend buf bi boff bline pending].
  destruct (Z.ltb_spec (len L) 0); [lia|]. rewrite sl_upto_all, sl_from_all, Z.sub_diag.
  rewrite (unpadded_noNul L HnulL), (fillNulls_noNul L HnulL).
  assert (Hlc : lineCount L = 1) by (unfold L; rewrite (lineCount_noEol body [10] Heol); reflexivity).
  rewrite Hlc. reflexivity.
Qed.

(* ---------------------------------------------------------------------------------------------- *)
(* 5. the block layer on the two-block document                                                   *)
(* ---------------------------------------------------------------------------------------------- *)
Definition D (lab use : bytes) : bytes := L1 lab ++ [10] ++ L2 use.

Definition rootDef (lab : bytes) : rootB :=
  {| rb_line := 1; rb_start := 0; rb_end := len (L1 lab); rb_src := L1 lab; rb_blk := refDefOf lab true |}.
Definition rootUse (lab use : bytes) (b : block) : rootB :=
  {| rb_line := 3; rb_start := len (L1 lab) + 1; rb_end := len (L1 lab) + 1 + len (L2 use); rb_src := L2 use; rb_blk := b |}.

Theorem parseBlocks_refslice lab use : okLab lab = true -> okUse use = true ->
  parseBlocks (D lab use) =
    ([rootDef lab; rootUse lab use (paraClosed 0 (len (L2 use)) (len (L2 use)))], 0).
Proof.
  intros Hlab Huse.
  destruct (okLab_inv lab Hlab) as (Hlab1 & _ & _). destruct (okUse_inv lab Hlab1) as (lc & lt & El & Hlc & HFl). rewrite <- El in HFl.
  destruct (okUse_inv use Huse) as (uc & ut & Eu & Huc & HFu). rewrite <- Eu in HFu.
  set (n := len lab). pose proof (sl_len_nonneg lab) as Hn0. fold n in Hn0.
  pose proof (len_L1 lab) as HlenL1. fold n in HlenL1. pose proof (len_L2 use) as HlenL2.
  pose proof (sl_len_nonneg use) as Hm0.
  set (body1 := 91 :: lab ++ [93; 58; 32; 47; 117]).
  assert (EL1 : L1 lab = body1 ++ [10]).
  { unfold L1, defTail, body1. cbn [app]. rewrite <- app_assoc. reflexivity. }
  assert (Hb1eol : noEolB body1).
  { unfold body1. constructor; [lia|]. apply Forall_app. split; [apply Forall_labB_noEol, HFl|repeat constructor; lia]. }
  assert (HnzL1 : noNul (L1 lab)).
  { unfold L1, defTail. repeat apply noNul_app; try (apply Forall_labB_noNul; exact HFl); repeat constructor; lia. }
  assert (HnzL2 : noNul (L2 use)).
  { unfold L2. repeat apply noNul_app; try (apply Forall_labB_noNul; exact HFu); repeat constructor; lia. }
  assert (HnzD : noNul (D lab use)).
  { unfold D. apply noNul_app; [exact HnzL1|]. apply noNul_app; [constructor; [lia|constructor]|exact HnzL2]. }
  unfold parseBlocks. rewrite (pad_noNul _ HnzD).
  assert (HlenD : len (D lab use) = n + 7 + 1 + (len use + 3)).
  { unfold D. rewrite !sl_len_app, HlenL1, HlenL2. change (len [10]) with 1. lia. }
  assert (Hfuel : exists f, length (D lab use) = S (S (S f))) by (exists (length (D lab use) - 3)%nat; unfold len in HlenD; lia).
  destruct Hfuel as [f Hf]. rewrite Hf.
  (* ---- first root ---- *)
  rewrite sl_allBlocks_S. cbn [buf]. rewrite Hf. rewrite sl_nextBlock_start.
  change (3 + S (S (S f)))%nat with (S (S (S (S (S (S f)))))). rewrite sl_skipLoop_S. cbv zeta. cbn [buf bi boff bline pending].
  assert (Hle1 : lineEnd (D lab use) 0 = n + 7).
  { unfold D. rewrite EL1. change ((body1 ++ [10]) ++ [10] ++ L2 use) with ((body1 ++ [10]) ++ 10 :: L2 use).
    rewrite <- app_assoc. change ([10] ++ 10 :: L2 use) with (10 :: 10 :: L2 use).
    change (body1 ++ 10 :: 10 :: L2 use) with ([] ++ body1 ++ 10 :: 10 :: L2 use). change 0 with (len (@nil Z)) at 1.
    rewrite (lineEnd_lf [] body1 _ Hb1eol). rewrite sl_len_nil.
    assert (len body1 + 1 = n + 7) by (rewrite <- HlenL1, EL1, sl_len_app; reflexivity). lia. }
  rewrite Hle1. destruct (Z.ltb_spec 0 (n + 7)); [|lia]. cbn [negb].
  assert (Hup1 : upto (D lab use) (n + 7) = L1 lab) by (rewrite <- HlenL1; unfold D; apply sl_upto_app_len).
  rewrite Hup1.
  assert (Hnb1 : isBlankLine (L1 lab) = false) by reflexivity.
  rewrite Hnb1.
  rewrite sl_lineLoop_S. cbn [buf bi boff bline pending]. rewrite Hup1.
  rewrite (processLine_first_para (L1 lab) 0 91 (lab ++ defTail) eq_refl eq_refl) by (cbn; lia).
  change (negb (0 =? 0)) with false. cbv iota. cbn [makeRoot paraOpen isOpen bend Z.ltb Z.compare].
  change (len (91 :: lab ++ defTail)) with (len (L1 lab)). rewrite HlenL1, Z.add_0_l.
  rewrite sl_lineLoop_S. cbn [buf bi boff bline pending].
  assert (Hle2 : lineEnd (D lab use) (n + 7) = n + 8).
  { unfold D. change (L1 lab ++ [10] ++ L2 use) with (L1 lab ++ [] ++ 10 :: L2 use). rewrite <- HlenL1.
    rewrite (lineEnd_lf (L1 lab) [] (L2 use)) by constructor. rewrite sl_len_nil. lia. }
  rewrite Hle2.
  assert (Hup2 : upto (D lab use) (n + 8) = L1 lab ++ [10]).
  { unfold D. rewrite app_assoc. replace (n + 8) with (len (L1 lab ++ [10])) by (rewrite sl_len_app, HlenL1; change (len [10]) with 1; lia).
    apply sl_upto_app_len. }
  rewrite Hup2.
  rewrite (processLine_blank_para stOpenMatched (L1 lab ++ [10]) 0 (n + 7) (n + 7) (refDefOf lab false)).
  2:{ rewrite <- HlenL1. apply sl_from_app_len. }
  2:{ apply (ocp_def lab Hlab). }
  change (negb (0 =? 0)) with false. cbv iota.
  change (set_blast (refDefOf lab false) true) with (refDefOf lab true).
  unfold makeRoot. change (isOpen (refDefOf lab true)) with (n + 7 <? 0).
  destruct (Z.ltb_spec (n + 7) 0); [lia|]. change (bend (refDefOf lab true)) with (n + 7).
  cbn [buf bi boff bline pending map]. rewrite Hup1.
  rewrite (unpadded_noNul _ HnzL1), (fillNulls_noNul _ HnzL1).
  assert (Hlc1 : lineCount (L1 lab) = 1) by (rewrite EL1, (lineCount_noEol body1 [10] Hb1eol); reflexivity).
  rewrite Hlc1.
  assert (Hfr1 : from_ (D lab use) (n + 7) = 10 :: L2 use) by (rewrite <- HlenL1; unfold D; apply sl_from_app_len).
  rewrite Hfr1. replace (n + 8 - (n + 7)) with 1 by lia.
  (* ---- second root ---- *)
  rewrite sl_allBlocks_S. cbn [buf app].
  unfold nextBlock. cbn [pending makeRoot buf bi boff bline].
  change (upto (10 :: L2 use) 1) with [10]. change (from_ (10 :: L2 use) 1) with (L2 use).
  change (unpadded [10]) with 1. change (lineCount [10]) with 1.
  assert (EL2 : L2 use = (91 :: use ++ [93]) ++ [10]) by (unfold L2; cbn [app]; rewrite <- app_assoc; reflexivity).
  assert (Hfuel2 : exists f2, (3 + length (10%Z :: L2 use))%nat = S (S (S f2))) by (exists (length (10%Z :: L2 use)); lia).
  destruct Hfuel2 as [f2 Hf2]. rewrite Hf2.
  pose proof (skipLoop_one_para f2 91 (use ++ [93]) (0 + len (L1 lab) + 1) (1 + 1 + 1)) as Hsk. cbv zeta in Hsk.
  rewrite <- EL2 in Hsk. rewrite Hsk; clear Hsk.
  2:{ constructor; [lia|]. apply Forall_app. split; [apply Forall_labB_noEol, HFu|repeat constructor; lia]. }
  2:{ constructor; [lia|]. apply Forall_app. split; [apply Forall_labB_noNul, HFu|repeat constructor; lia]. }
  2:{ reflexivity. }
  2:{ rewrite EL2. cbn. lia. }
  2:{ rewrite HlenL2. apply (ocp_use use Huse). }
  (* ---- end of input ---- *)
  destruct f as [|f']; [exfalso; unfold len in HlenD; lia|].
  rewrite sl_allBlocks_S. cbn [buf length Nat.add]. rewrite nextBlock_eof.
  unfold rootDef, rootUse. rewrite HlenL1. cbn [app]. repeat f_equal; lia.
Qed.
Print Assumptions parseBlocks_refslice.
