From Coq Require Import List ZArith Lia Bool.
Import ListNotations.
Require Import Base Tables Utf8 Tree Rdr Link Collect Html Recog Inl3a Inl3b Inl3c Inl3d Inl3e Render Props PEProof GI0 GI1 GI2 GI3.
Open Scope Z_scope.

(* ================================================================== *)
(* GI4: the invariant of the tokeniser loop (MI) and its elementary    *)
(* steps: adding a leaf node, pushing a delimiter, dropping delimiters.*)
(* ================================================================== *)

Definition actLink (d : delim) : bool := (d_typ d =? tLink) && hasFlag d fActive.

Record MI (tw : bool) (U : list inline) (st : ist) : Prop := {
  mi_unp : unp st = U;
  mi_nid : 1 <= nid st;
  mi_idb : forallb (idb (nid st)) (rk st) = true;
  mi_Sr : forall x, In x (sids (stk st)) -> 1 <= x < nid st;
  mi_nd : NoDup (sids (stk st));
  mi_al : fl (sids (stk st)) (ids (rk st)) = sids (stk st);
  mi_phr : forallb phr (rk st) = true;
  mi_gk : forallb (gk tw) (rk st) = true;
  mi_lvs : forallb (lvs (sids (stk st)) []) (rk st) = true;
  mi_LL : forall d, In d (stk st) -> actLink d = true -> forallb nl (snd (splitAtId (d_node d) (rk st))) = true
}.

(* MI only reads unp, nid, rk, stk *)
Lemma MI_same tw U st st' : unp st' = unp st -> nid st' = nid st -> rk st' = rk st -> stk st' = stk st -> MI tw U st -> MI tw U st'.
Proof. intros E1 E2 E3 E4 [M1 M2 M3 M4 M5 M6 M7 M8 M9 M10]. constructor; rewrite ?E1, ?E2, ?E3, ?E4; assumption. Qed.
Lemma MI_setIgn tw U st v : MI tw U st -> MI tw U (setIgn st v). Proof. apply MI_same; reflexivity. Qed.
Lemma MI_setUpos tw U st v : MI tw U st -> MI tw U (setUpos st v). Proof. apply MI_same; reflexivity. Qed.
Lemma MI_advanceTo tw U st p : MI tw U st -> MI tw U (advanceTo st p).
Proof. intros H. unfold advanceTo. destruct (0 <=? _); apply MI_setUpos, H. Qed.

(* ---------------------------------------------------------------- small facts *)
Lemma zid_idb b : 1 <= b -> forall n, zid n = true -> idb b n = true.
Proof.
  intros Hb. fix IH 1. intros [id k s e ind r ks] H. cbn [zid idb] in *. apply andb_true_iff in H. destruct H as [H0 Hk].
  apply Z.eqb_eq in H0. subst id. replace (0 <? b) with true by (symmetry; apply Z.ltb_lt; lia). cbn [Z.leb andb].
  induction ks as [|x l IHl]; [reflexivity|]. cbn [forallb] in *. apply andb_true_iff in Hk. destruct Hk as [Hx Hl].
  rewrite (IH x Hx). apply IHl, Hl.
Qed.
Lemma zidF_idbF b l : 1 <= b -> forallb zid l = true -> forallb (idb b) l = true.
Proof. intros Hb. apply forallb_imp. intros x _. apply zid_idb, Hb. Qed.

Lemma al_In S is x : fl S is = S -> In x S -> In x is.
Proof. intros H Hx. rewrite <- H in Hx. apply fl_In in Hx. tauto. Qed.

Lemma splitAtId_app_in id : forall l l2, In id (ids l) ->
  splitAtId id (l ++ l2) = (fst (splitAtId id l), snd (splitAtId id l) ++ l2).
Proof.
  induction l as [|x l IH]; intros l2 Hi; [contradiction|]. cbn [app splitAtId].
  destruct (Z.eqb_spec (pid x) id) as [E|E]; [reflexivity|].
  destruct Hi as [Hi|Hi]; [contradiction|]. rewrite (IH l2 Hi). destruct (splitAtId id l). reflexivity.
Qed.
Lemma splitAtId_app_notin id : forall l l2, ~ In id (ids l) ->
  splitAtId id (l ++ l2) = (l ++ fst (splitAtId id l2), snd (splitAtId id l2)).
Proof.
  induction l as [|x l IH]; intros l2 Hi; [cbn [app]; destruct (splitAtId id l2); reflexivity|]. cbn [app splitAtId].
  destruct (Z.eqb_spec (pid x) id) as [E|E]; [exfalso; apply Hi; left; exact E|].
  rewrite (IH l2); [reflexivity|]. intros H. apply Hi. right. exact H.
Qed.

Lemma fl_snoc_notin S x is : ~ In x is -> fl (S ++ [x]) is = fl S is.
Proof.
  intros Hx. induction is as [|y l IH]; [reflexivity|]. unfold fl in *. cbn [filter].
  assert (Hy : memZ y (S ++ [x]) = memZ y S).
  { destruct (memZ y S) eqn:E.
    - apply memZ_In. apply memZ_In in E. apply in_or_app. left. exact E.
    - apply memZ_false. apply memZ_false in E. intros Hi. apply in_app_or in Hi. destruct Hi as [Hi|[Hi|[]]]; [contradiction|].
      apply Hx. left. symmetry. exact Hi. }
  rewrite Hy. destruct (memZ y S); [f_equal|]; apply IH; intros Hi; apply Hx; right; exact Hi.
Qed.

Lemma NoDup_snoc {A} (l : list A) x : NoDup l -> ~ In x l -> NoDup (l ++ [x]).
Proof.
  induction l as [|a l IH]; intros Hn Hx; [constructor; [intros []|constructor]|]. cbn. inversion Hn; subst. constructor.
  - intros Hi. apply in_app_or in Hi. destruct Hi as [Hi|[Hi|[]]]; [contradiction|]. apply Hx. left. congruence.
  - apply IH; [assumption|]. intros Hi. apply Hx. right. exact Hi.
Qed.
Lemma NoDup_del3 {A} (S1 S2 S3 : list A) : NoDup (S1 ++ S2 ++ S3) -> NoDup (S1 ++ S3).
Proof.
  intros H. pose proof (NoDup_app_l _ _ H) as N1. pose proof (NoDup_app_r _ _ (NoDup_app_r _ _ H)) as N3.
  induction S1 as [|x l IH]; [exact N3|]. cbn in *. inversion H as [|? ? Hx Hn]; subst. inversion N1; subst. constructor.
  - intros Hi. apply Hx. apply in_app_or in Hi. apply in_or_app. destruct Hi; [left; assumption|right; apply in_or_app; right; assumption].
  - apply IH; assumption.
Qed.

(* weakening the foreign set of a closed forest *)
Lemma lvs_sub X X' n : (forall x, In x X' -> In x X) -> lvs X [] n = true -> lvs X' [] n = true.
Proof.
  intros Hs. apply lvs_impl. intros is H. apply andb_true_iff in H. destruct H as [H1 _].
  apply nilb_true in H1. rewrite (fl_nil_sub X' X is Hs H1). cbn [nilb andb]. apply lpb_spec. left. apply fl_emptyS.
Qed.
Lemma lvsF_sub X X' l : (forall x, In x X' -> In x X) -> forallb (lvs X []) l = true -> forallb (lvs X' []) l = true.
Proof. intros Hs. apply forallb_imp. intros x _. apply lvs_sub, Hs. Qed.
(* splitting the stack set into foreign and active identities *)
Lemma lvs_split X H n : lvs (X ++ H) [] n = true -> lvs X H n = true.
Proof.
  apply lvs_impl. intros is H0. apply andb_true_iff in H0. destruct H0 as [H1 _]. apply nilb_true in H1.
  rewrite (fl_nil_sub X (X ++ H) is) by (exact H1 || (intros x Hx; apply in_or_app; left; exact Hx)).
  cbn [nilb andb]. apply lpb_spec. left. apply (fl_nil_sub H (X ++ H) is); [|exact H1]. intros x Hx. apply in_or_app. right. exact Hx.
Qed.
Lemma lvsF_split X H l : forallb (lvs (X ++ H) []) l = true -> forallb (lvs X H) l = true.
Proof. apply forallb_imp. intros x _. apply lvs_split. Qed.

(* a fresh identity joins the stack *)
Lemma lvs_fresh b S n : idb b n = true -> lvs S [] n = true -> lvs (S ++ [b]) [] n = true.
Proof.
  apply lvs_impl_b. intros is Hr H. apply andb_true_iff in H. destruct H as [H1 _]. apply nilb_true in H1.
  rewrite fl_snoc_notin by (intros Hi; apply Hr in Hi; lia). rewrite H1. cbn [nilb andb]. apply lpb_spec. left. apply fl_emptyS.
Qed.

(* ---------------------------------------------------------------- appending a node to the root level *)
Section Steps.
  Variable tw : bool.
  Variable U : list inline.

  Lemma MI_append st n id' : MI tw U st ->
    (id' = nid st \/ id' = nid st + 1) -> idb id' n = true -> ~ In (pid n) (sids (stk st)) ->
    phr n = true -> gk tw n = true -> cont (pkind n) = false ->
    MI tw U {| rk := rk st ++ [n]; isrc := isrc st; unp := unp st; upos := upos st; stk := stk st; ign := ign st;
               nid := id'; rootEnd := rootEnd st; matcher := matcher st |}.
  Proof.
    intros [M1 M2 M3 M4 M5 M6 M7 M8 M9 M10] Hid Hn Hp Hphr Hgk Hc.
    constructor; cbn [rk nid stk unp]; try assumption.
    - lia.
    - rewrite forallb_app. cbn [forallb]. rewrite Hn, andb_true_r. apply (idbF_mono (nid st)); [lia|exact M3].
    - intros x Hx. specialize (M4 x Hx). lia.
    - rewrite ids_app, fl_app, M6. cbn [ids map]. rewrite fl_one_out by exact Hp. apply app_nil_r.
    - rewrite forallb_app, M7. cbn. rewrite Hphr. reflexivity.
    - rewrite forallb_app, M8. cbn. rewrite Hgk. reflexivity.
    - rewrite forallb_app, M9. cbn. rewrite lvs_eq, Hc. reflexivity.
    - intros d Hd Ha. assert (Hi : In (d_node d) (ids (rk st))).
      { apply (al_In _ _ _ M6). unfold sids. apply in_map. exact Hd. }
      rewrite (splitAtId_app_in _ _ _ Hi). cbn [snd]. rewrite forallb_app, (M10 d Hd Ha). cbn [forallb].
      rewrite nl_eq, Hc. destruct (pkind n =? LinkKind) eqn:E; [|reflexivity].
      apply Z.eqb_eq in E. rewrite E in Hc. discriminate.
  Qed.

  (* addNode with a leaf (non-container) kind *)
  Lemma MI_addLeaf st k s e kids : MI tw U st -> phrasing k = true -> cont k = false -> negb (k =? UnparsedKind) = true ->
    leafKids k kids = true -> forallb zid kids = true -> MI tw U (fst (addNode st k s e kids)).
  Proof.
    intros HM Hp Hc Hu Hl Hz. unfold addNode. destruct (spanLen s e =? 0); [exact HM|]. cbn [fst].
    pose proof HM as [M1 M2 M3 M4 M5 M6 M7 M8 M9 M10].
    apply (MI_append st (PN (nid st) k s e 0 [] kids) (nid st + 1) HM); cbn [pid pkind]; try assumption; try tauto.
    - cbn [idb]. replace (0 <=? nid st) with true by (symmetry; apply Z.leb_le; lia).
      replace (nid st <? nid st + 1) with true by (symmetry; apply Z.ltb_lt; lia). cbn [andb]. apply zidF_idbF; [lia|exact Hz].
    - intros Hi. specialize (M4 _ Hi). lia.
    - cbn [gk]. rewrite Hu, Hc, Hl, Hz. reflexivity.
  Qed.
  Lemma MI_addText st s e : MI tw U st -> MI tw U (addText st s e).
  Proof. intros H. unfold addText. apply MI_addLeaf; [exact H|reflexivity..]. Qed.

  (* copying an entry of the block (identity 0) *)
  Lemma MI_pushU st u : MI tw U st -> (ikind u = RawHTMLKind \/ ikind u = IndentKind) -> ikids u = [] ->
    MI tw U (setRk st (rk st ++ [ofInline u])).
  Proof.
    intros HM Hk Hkids. pose proof HM as [M1 M2 M3 M4 M5 M6 M7 M8 M9 M10].
    destruct u as [k s e ind r ks]. cbn [ikind ikids] in *. subst ks. cbn [ofInline map].
    refine (MI_same tw U _ _ _ _ _ _ (MI_append st (PN 0 k s e ind r []) (nid st) HM _ _ _ _ _ _)); try reflexivity; cbn [pid pkind]; try tauto.
    - cbn [idb forallb]. replace (0 <? nid st) with true by (symmetry; apply Z.ltb_lt; lia). reflexivity.
    - intros Hi. specialize (M4 _ Hi). lia.
    - destruct Hk as [-> | ->]; reflexivity.
    - destruct Hk as [-> | ->]; reflexivity.
    - destruct Hk as [-> | ->]; reflexivity.
  Qed.

  (* pushing a delimiter whose node has just been added *)
  Lemma MI_push st s e typ flags n : MI tw U st -> negb (spanLen s e =? 0) = true ->
    MI tw U (let '(st', id) := addNode st TextKind s e [] in
             setStk st' (stk st' ++ [{| d_typ := typ; d_flags := flags; d_n := n; d_node := id |}])).
  Proof.
    intros HM Hs. unfold addNode. apply negb_true_iff in Hs. rewrite Hs.
    pose proof HM as [M1 M2 M3 M4 M5 M6 M7 M8 M9 M10].
    pose proof (MI_append st (PN (nid st) TextKind s e 0 [] []) (nid st + 1) HM) as HA. cbn [pid pkind] in HA.
    destruct HA as [A1 A2 A3 A4 A5 A6 A7 A8 A9 A10]; try tauto; try reflexivity.
    { cbn [idb forallb]. replace (0 <=? nid st) with true by (symmetry; apply Z.leb_le; lia).
      replace (nid st <? nid st + 1) with true by (symmetry; apply Z.ltb_lt; lia). reflexivity. }
    { intros Hi. specialize (M4 _ Hi). lia. }
    cbn [rk nid stk unp] in *.
    assert (Hfresh : ~ In (nid st) (ids (rk st))) by (intros Hi; apply (idb_ids _ _ M3) in Hi; lia).
    assert (HfS : ~ In (nid st) (sids (stk st))) by (intros Hi; specialize (M4 _ Hi); lia).
    constructor; cbn [setStk bumpId setRk rk nid stk unp]; try assumption.
    - intros x Hx. rewrite sids_app in Hx. apply in_app_or in Hx. destruct Hx as [Hx|[Hx|[]]]; [apply A4, Hx|cbn in Hx; lia].
    - rewrite sids_app. cbn [sids map d_node]. apply NoDup_snoc; assumption.
    - rewrite sids_app. cbn [sids map d_node]. rewrite ids_app, fl_app. cbn [ids map pid].
      rewrite (fl_snoc_notin _ _ _ Hfresh), M6. rewrite fl_one_in by (apply in_or_app; right; left; reflexivity). reflexivity.
    - rewrite sids_app. cbn [sids map d_node]. rewrite forallb_app. cbn [forallb lvs]. change (cont TextKind) with false. rewrite andb_true_r.
      rewrite forallb_forall in *. intros x Hx. apply lvs_fresh; [apply M3, Hx|apply M9, Hx].
    - intros d Hd Ha. apply in_app_or in Hd. destruct Hd as [Hd|[<-|[]]]; [apply A10; assumption|]. cbn [d_node].
      rewrite (splitAtId_app_notin _ _ _ Hfresh). cbn [snd splitAtId pid]. rewrite Z.eqb_refl. reflexivity.
  Qed.

  (* dropping a chunk of the stack *)
  Lemma MI_stk_del st S1 S2 S3 : MI tw U st -> stk st = S1 ++ S2 ++ S3 -> MI tw U (setStk st (S1 ++ S3)).
  Proof.
    intros [M1 M2 M3 M4 M5 M6 M7 M8 M9 M10] Es. rewrite Es in *. rewrite !sids_app in *.
    assert (Hsub : forall x, In x (sids S1 ++ sids S3) -> In x (sids S1 ++ sids S2 ++ sids S3)).
    { intros x Hx. apply in_app_or in Hx. apply in_or_app. destruct Hx; [left; assumption|right; apply in_or_app; right; assumption]. }
    constructor; cbn [setStk rk nid stk unp]; rewrite ?sids_app; try assumption.
    - intros x Hx. apply M4, Hsub, Hx.
    - apply (NoDup_del3 _ _ _ M5).
    - apply (al_del (sids S1) (sids S2) (sids S3)); assumption.
    - apply (lvsF_sub (sids S1 ++ sids S2 ++ sids S3)); assumption.
    - intros d Hd Ha. apply M10; [|exact Ha]. apply in_app_or in Hd. apply in_or_app. destruct Hd; [left; assumption|right; apply in_or_app; right; assumption].
  Qed.
  Lemma MI_delStack st i j : MI tw U st -> 0 <= i -> i <= j -> j <= len (stk st) -> MI tw U (setStk st (delStack (stk st) i j)).
  Proof.
    intros HM Hi Hij Hj. destruct (delStack_split (stk st) i j Hi Hij Hj) as (S1 & S2 & S3 & E1 & E2 & _). rewrite E2.
    apply (MI_stk_del st S1 S2 S3 HM E1).
  Qed.

  (* the forest invariant of processEmphasis, for the whole stack *)
  Lemma MI_PEI st : MI tw U st -> PEI tw [] (sids (stk st)) st.
  Proof.
    intros [M1 M2 M3 M4 M5 M6 M7 M8 M9 M10]. constructor; try assumption; [intros x []|].
    repeat split; try assumption.
    - apply lpb_spec. right. split; [apply fl_emptyS|exact M6].
    - apply (lvsF_split [] (sids (stk st))). exact M9.
  Qed.
End Steps.
