From Coq Require Import List ZArith Lia Bool.
Import ListNotations.
Require Import Base Tree Rdr Link Collect Html Recog LP Rules Starts Driver L2Kind L2CC TDefs TOcp StreamFuel LA2 LA12 ShDef GramLP GramLP2 TilShift
  ReparseSwap ReparseOpen ReparsePass ReparseFrame ReparseSI ReparseSC.
Open Scope Z_scope.

(* T50 continuation, the shift: a line processed from no children at line start T in a source src is the line processed at
   line start 0 in from_ src T, with every position shifted by T. *)

(* ---- blocks ---- *)
Lemma bkind_shiftB m c : bkind (shiftB m c) = bkind c. Proof. destruct c; reflexivity. Qed.
Lemma bkids_shiftB m c : bkids (shiftB m c) = map (shiftB m) (bkids c). Proof. destruct c; reflexivity. Qed.
Lemma bik_shiftB m c : bik (shiftB m c) = map (shiftI m) (bik c). Proof. destruct c; reflexivity. Qed.
Lemma bloose_shiftB m c : bloose (shiftB m c) = bloose c. Proof. destruct c; reflexivity. Qed.
Lemma blast_shiftB m c : blastBlank (shiftB m c) = blastBlank c. Proof. destruct c; reflexivity. Qed.
Lemma bchar_shiftB m c : bchar (shiftB m c) = bchar c. Proof. destruct c; reflexivity. Qed.
Lemma bn_shiftB m c : bn (shiftB m c) = bn c. Proof. destruct c; reflexivity. Qed.
Lemma bindent_shiftB m c : bindent (shiftB m c) = bindent c. Proof. destruct c; reflexivity. Qed.
Lemma bstart_shiftB' m b : bstart (shiftB m b) = bstart b + m. Proof. destruct b; reflexivity. Qed.
Lemma isOpen_shiftB_pos m c : 0 <= m -> isOpen (shiftB m c) = isOpen c.
Proof.
  intros Hm. destruct c as [k s e bk ik a n ch l lb]. unfold isOpen. cbn [shiftB bend].
  destruct (Z.leb_spec 0 e); destruct (Z.ltb_spec e 0); destruct (Z.ltb_spec (e + m) 0); try lia; reflexivity.
Qed.
Lemma bheight_shiftB m : forall c, bheight (shiftB m c) = bheight c.
Proof.
  fix IH 1. intros [k s e bk ik a n ch l lb]. cbn [shiftB bheight]. f_equal.
  induction bk as [|x r IHr]; [reflexivity|]. cbn [map fold_right]. rewrite IH, IHr. reflexivity.
Qed.
Lemma lastBlock_shiftB m c : lastBlock (shiftB m c) = option_map (shiftB m) (lastBlock c).
Proof. unfold lastBlock. rewrite bkids_shiftB, <- map_rev. destruct (rev (bkids c)); reflexivity. Qed.
Lemma getAt_shiftB m : forall d c, getAt d (shiftB m c) = option_map (shiftB m) (getAt d c).
Proof.
  induction d as [|d IH]; intros c; [reflexivity|]. rewrite !getAt_S, lastBlock_shiftB. destruct (lastBlock c) as [x|]; [apply IH|reflexivity].
Qed.
Lemma set_lastBlocks_shiftB m c R : set_lastBlocks (shiftB m c) (map (shiftB m) R) = shiftB m (set_lastBlocks c R).
Proof.
  destruct c as [k s e bk ik a n ch l lb]. unfold set_lastBlocks. cbn [shiftB bkids set_bkids]. rewrite map_app, TilShift.removelast_map. reflexivity.
Qed.
Lemma set_bend_shiftB m c e : 0 <= e -> set_bend (shiftB m c) (e + m) = shiftB m (set_bend c e).
Proof. intros He. destruct c. cbn [shiftB set_bend]. replace (0 <=? e) with true by (symmetry; apply Z.leb_le; exact He). reflexivity. Qed.

(* endsWithBlankLine and onCloseList do not look at positions *)
Lemma ewb_shiftB m : forall f c, endsWithBlankLine f (shiftB m c) = endsWithBlankLine f c.
Proof.
  induction f as [|f IH]; intros c; [reflexivity|]. cbn [endsWithBlankLine]. rewrite blast_shiftB, bkind_shiftB, lastBlock_shiftB.
  destruct (blastBlank c); [reflexivity|]. destruct (negb _); [reflexivity|]. destruct (lastBlock c); [apply IH|reflexivity].
Qed.
Lemma existsb_combine_map {A} (g : A -> A) (f f' : nat * A -> bool) : (forall j x, f (j, g x) = f' (j, x)) ->
  forall l a, existsb f (combine (seq a (length l)) (map g l)) = existsb f' (combine (seq a (length l)) l).
Proof.
  intros H. induction l as [|x r IH]; intros a; [reflexivity|]. cbn [map length seq combine existsb]. rewrite H, IH. reflexivity.
Qed.
Lemma looseItem_shiftB m h n i item : looseItem h n (i, shiftB m item) = looseItem h n (i, item).
Proof.
  unfold looseItem. rewrite ewb_shiftB, bkids_shiftB, map_length. f_equal.
  apply existsb_combine_map. intros j x. unfold subTest. rewrite ewb_shiftB. reflexivity.
Qed.
Lemma onCloseList_shiftB m b : onCloseList (shiftB m b) = shiftB m (onCloseList b).
Proof.
  rewrite !onCloseList_eq. rewrite bloose_shiftB, bheight_shiftB, bkids_shiftB, map_length.
  assert (E : existsb (looseItem (bheight b) (length (bkids b))) (combine (seq 0 (length (bkids b))) (map (shiftB m) (bkids b))) =
              existsb (looseItem (bheight b) (length (bkids b))) (combine (seq 0 (length (bkids b))) (bkids b))).
  { apply existsb_combine_map. intros j x. apply looseItem_shiftB. }
  rewrite E. destruct (bloose b || _); [|reflexivity].
  destruct b as [k s e bk ik a n ch l lb]. cbn [shiftB set_bloose set_bkids bkids]. rewrite !map_map. f_equal. apply map_ext. intros x. destruct x; reflexivity.
Qed.

(* ---- closing a block whose last child is closed and which is no code block / paragraph ---- *)
Require Import ReparseTip TInv TDesc TStarts GramDefs GramTree GramLP3 GramLP4 BSLine1 BSLine3 TilLP1 TilLP3 TilLP6 TilLP7 TilLP10 TilLP11 TilFr ReparseFired.
Definition okC (x : block) : Prop :=
  isOpen x = false \/ (bkind x <> IndentedCodeBlockKind /\ bkind x <> ParagraphKind /\ bkind x <> SetextHeadingKind /\ lastClosedB x).

Lemma lastClosed_onCloseList b : lastClosedB b -> lastClosedB (onCloseList b).
Proof.
  unfold lastClosedB. intros H. destruct (lastBlock (onCloseList b)) as [c0|] eqn:El; [|exact Logic.I].
  destruct (lastBlock_onCloseList b c0 El) as (z & Ez & [-> | ->]); rewrite Ez in H; [exact H|rewrite isOpen_set_bloose; exact H].
Qed.
Lemma closeLast_noop f src e y : lastClosedB y ->
  match lastBlock y with Some z => set_lastBlocks y (closeBlock f src z e) | None => y end = y.
Proof.
  unfold lastClosedB. destruct (lastBlock y) as [z|] eqn:El; [|reflexivity]. intros Hz. rewrite (TOcp.closeBlock_closed f src z e Hz).
  destruct (lastBlock_some y z El) as (pre0 & Ek). unfold set_lastBlocks. destruct y. cbn [bkids set_bkids] in *. rewrite Ek, removelast_snoc. reflexivity.
Qed.
Lemma lastClosedB_set_bend y e : lastClosedB (set_bend y e) <-> lastClosedB y.
Proof. unfold lastClosedB. rewrite lastBlock_set_bend. tauto. Qed.

Lemma closeBlock_okC f src e x : isOpen x = true -> bkind x <> IndentedCodeBlockKind -> bkind x <> ParagraphKind -> bkind x <> SetextHeadingKind -> lastClosedB x ->
  closeBlock (S f) src x e = [if bkind x =? ListKind then onCloseList (set_bend x e) else set_bend x e].
Proof.
  intros Ho N1 N2 N3 Hl. cbn [closeBlock]. rewrite Ho. cbn [negb]. cbv zeta.
  assert (Ek : bkind (set_bend x e) = bkind x) by (destruct x; reflexivity). rewrite Ek.
  destruct (bkind x =? ListKind).
  - rewrite closeLast_noop; [reflexivity|]. apply lastClosed_onCloseList, lastClosedB_set_bend, Hl.
  - replace (bkind x =? IndentedCodeBlockKind) with false by (symmetry; apply Z.eqb_neq; exact N1).
    replace (bkind x =? ParagraphKind) with false by (symmetry; apply Z.eqb_neq; exact N2).
    replace (bkind x =? SetextHeadingKind) with false by (symmetry; apply Z.eqb_neq; exact N3). cbn [orb].
    rewrite closeLast_noop; [reflexivity|]. apply lastClosedB_set_bend, Hl.
Qed.

Lemma lastClosedB_shiftB m x : 0 <= m -> lastClosedB (shiftB m x) <-> lastClosedB x.
Proof. intros Hm. unfold lastClosedB. rewrite lastBlock_shiftB. destruct (lastBlock x); cbn [option_map]; [rewrite isOpen_shiftB_pos by exact Hm|]; tauto. Qed.

Lemma closeBlock_shift f src src' m e x : 0 <= m -> 0 <= e -> okC x ->
  closeBlock f src (shiftB m x) (e + m) = map (shiftB m) (closeBlock f src' x e).
Proof.
  intros Hm He Hx. destruct f as [|f]; [reflexivity|].
  destruct Hx as [Hc|(N1 & N2 & N3 & Hl)].
  - rewrite (TOcp.closeBlock_closed (S f) src' x e Hc), (TOcp.closeBlock_closed (S f) src (shiftB m x) (e + m)); [reflexivity|]. rewrite isOpen_shiftB_pos; assumption.
  - destruct (isOpen x) eqn:Ho.
    2:{ rewrite (TOcp.closeBlock_closed (S f) src' x e Ho), (TOcp.closeBlock_closed (S f) src (shiftB m x) (e + m)); [reflexivity|]. rewrite isOpen_shiftB_pos; assumption. }
    rewrite (closeBlock_okC f src' e x Ho N1 N2 N3 Hl).
    rewrite (closeBlock_okC f src (e + m) (shiftB m x)); try (rewrite ?bkind_shiftB; assumption).
    + rewrite bkind_shiftB. cbn [map]. f_equal. rewrite (set_bend_shiftB m x e He). destruct (bkind x =? ListKind); [apply onCloseList_shiftB|reflexivity].
    + rewrite isOpen_shiftB_pos; assumption.
    + apply lastClosedB_shiftB; assumption.
Qed.

(* ---- replacing source, tree, container and line start commutes with the cursor operations ---- *)
Definition reEnv (p : lp) (src : bytes) (rt : block) (ct : option nat) (ls : Z) : lp :=
  {| source := src; root := rt; container := ct; lineStart := ls; line := line p; li := li p; col := col p; tabRem := tabRem p;
     state := state p; panicked := panicked p |}.
Lemma opened_reEnv p src rt ct ls :
  (if state (reEnv p src rt ct ls) =? stOpening then withState (reEnv p src rt ct ls) stOpenMatched else reEnv p src rt ct ls) =
  reEnv (if state p =? stOpening then withState p stOpenMatched else p) src rt ct ls.
Proof. change (state (reEnv p src rt ct ls)) with (state p). destruct (state p =? stOpening); reflexivity. Qed.
Lemma advance_reEnv p src rt ct ls n : advance (reEnv p src rt ct ls) n = reEnv (advance p n) src rt ct ls.
Proof.
  unfold advance. destruct (n <? 0); [reflexivity|]. destruct (n =? 0); [reflexivity|]. cbv zeta.
  rewrite opened_reEnv. set (q := if state p =? stOpening then withState p stOpenMatched else p).
  change (li (reEnv q src rt ct ls)) with (li q). change (line (reEnv q src rt ct ls)) with (line q).
  destruct (len (line q) <? li q + n); reflexivity.
Qed.
Lemma consumeLine_reEnv p src rt ct ls : consumeLine (reEnv p src rt ct ls) = reEnv (consumeLine p) src rt ct ls.
Proof.
  unfold consumeLine. cbv zeta. change (line (reEnv p src rt ct ls)) with (line p). change (li (reEnv p src rt ct ls)) with (li p).
  rewrite advance_reEnv. set (q := advance p (len (line p) - li p)). change (state (reEnv q src rt ct ls)) with (state q).
  destruct ((state q =? stOpening) || (state q =? stOpenMatched)); [reflexivity|]. destruct (state q =? stDescending); reflexivity.
Qed.
Lemma consumeIndent_loop_reEnv src rt ct ls : forall fuel p n,
  consumeIndent_loop fuel (reEnv p src rt ct ls) n = reEnv (consumeIndent_loop fuel p n) src rt ct ls.
Proof.
  induction fuel as [|f IH]; intros p n; [reflexivity|]. cbn [consumeIndent_loop]. cbv zeta.
  destruct (n <=? 0); [reflexivity|]. rewrite opened_reEnv.
  set (q := if state p =? stOpening then withState p stOpenMatched else p).
  change (li (reEnv q src rt ct ls)) with (li q). change (line (reEnv q src rt ct ls)) with (line q).
  destruct ((li q <? len (line q)) && (at_ (line q) (li q) =? 32)).
  - change (withCursor (reEnv q src rt ct ls) (li q + 1) (col (reEnv q src rt ct ls) + 1) (computeTabRem (line q) (li q + 1) (col (reEnv q src rt ct ls) + 1)))
      with (reEnv (withCursor q (li q + 1) (col q + 1) (computeTabRem (line q) (li q + 1) (col q + 1))) src rt ct ls). apply IH.
  - destruct ((li q <? len (line q)) && (at_ (line q) (li q) =? 9)); [|reflexivity].
    change (tabRem (reEnv q src rt ct ls)) with (tabRem q). change (col (reEnv q src rt ct ls)) with (col q).
    destruct (n <? tabRem q); [reflexivity|].
    change (withCursor (reEnv q src rt ct ls) (li q + 1) (col q + tabRem q) (computeTabRem (line q) (li q + 1) (col q + tabRem q)))
      with (reEnv (withCursor q (li q + 1) (col q + tabRem q) (computeTabRem (line q) (li q + 1) (col q + tabRem q))) src rt ct ls). apply IH.
Qed.
Lemma consumeIndent_reEnv p src rt ct ls n : consumeIndent (reEnv p src rt ct ls) n = reEnv (consumeIndent p n) src rt ct ls.
Proof. unfold consumeIndent. change (line (reEnv p src rt ct ls)) with (line p). apply consumeIndent_loop_reEnv. Qed.

(* ---- the shifted state ---- *)
Definition shKids (m : Z) (rt : block) : block := set_bkids rt (map (shiftB m) (bkids rt)).
Definition shLP (m : Z) (src : bytes) (a : lp) : lp := reEnv a src (shKids m (root a)) (container a) (lineStart a + m).

Lemma source_advance p n : source (advance p n) = source p /\ lineStart (advance p n) = lineStart p.
Proof.
  unfold advance. destruct (n <? 0); [split; reflexivity|]. destruct (n =? 0); [split; reflexivity|]. cbv zeta.
  destruct (state p =? stOpening); match goal with |- context [if ?c then _ else _] => destruct c end; split; reflexivity.
Qed.
Lemma sh_advance m src a n : advance (shLP m src a) n = shLP m src (advance a n).
Proof. unfold shLP. rewrite advance_reEnv, root_advance, container_advance. destruct (source_advance a n) as [_ E]. rewrite E. reflexivity. Qed.
Lemma env_consumeIndent p n : lineStart (consumeIndent p n) = lineStart p.
Proof. destruct (BSLine1.cstep_consumeIndent p n) as (_ & (A & _) & _). exact A. Qed.
Lemma env_consumeLine p : lineStart (consumeLine p) = lineStart p.
Proof. destruct (BSLine1.cstep_consumeLine p) as (_ & (A & _) & _). exact A. Qed.
Lemma sh_consumeIndent m src a n : consumeIndent (shLP m src a) n = shLP m src (consumeIndent a n).
Proof. unfold shLP. rewrite consumeIndent_reEnv, root_consumeIndent, container_consumeIndent, env_consumeIndent. reflexivity. Qed.
Lemma sh_consumeLine m src a : consumeLine (shLP m src a) = shLP m src (consumeLine a).
Proof. unfold shLP. rewrite consumeLine_reEnv, root_consumeLine, container_consumeLine, env_consumeLine. reflexivity. Qed.
Lemma sh_opened m src a : (if state (shLP m src a) =? stOpening then withState (shLP m src a) stOpenMatched else shLP m src a) =
                          shLP m src (if state a =? stOpening then withState a stOpenMatched else a).
Proof. change (state (shLP m src a)) with (state a). destruct (state a =? stOpening); reflexivity. Qed.

(* ---- the tree under shKids ---- *)
Lemma bkids_shKids m rt : bkids (shKids m rt) = map (shiftB m) (bkids rt). Proof. destruct rt; reflexivity. Qed.
Lemma bkind_shKids m rt : bkind (shKids m rt) = bkind rt. Proof. destruct rt; reflexivity. Qed.
Lemma lastBlock_shKids m rt : lastBlock (shKids m rt) = option_map (shiftB m) (lastBlock rt).
Proof. unfold lastBlock. rewrite bkids_shKids, <- map_rev. destruct (rev (bkids rt)); reflexivity. Qed.
Lemma getAt_shKids_S m d rt : getAt (S d) (shKids m rt) = option_map (shiftB m) (getAt (S d) rt).
Proof. rewrite !getAt_S, lastBlock_shKids. destruct (lastBlock rt) as [x|]; [apply getAt_shiftB|reflexivity]. Qed.
Lemma bheight_shKids m rt : bheight (shKids m rt) = bheight rt.
Proof.
  destruct rt as [k s e bk ik a n ch l lb]. cbn [shKids set_bkids bkids bheight]. f_equal.
  induction bk as [|x r IH]; [reflexivity|]. cbn [map fold_right]. rewrite bheight_shiftB, IH. reflexivity.
Qed.
Lemma set_lastBlocks_shKids m rt R : set_lastBlocks (shKids m rt) (map (shiftB m) R) = shKids m (set_lastBlocks rt R).
Proof. destruct rt as [k s e bk ik a n ch l lb]. unfold set_lastBlocks, shKids. cbn [set_bkids bkids]. rewrite map_app, removelast_map. reflexivity. Qed.
Lemma tipDepth_shiftB m : 0 <= m -> forall f c, tipDepth f (shiftB m c) = tipDepth f c.
Proof.
  intros Hm. induction f as [|f IH]; intros c; [reflexivity|]. cbn [tipDepth]. rewrite lastBlock_shiftB.
  destruct (lastBlock c) as [x|]; cbn [option_map]; [|reflexivity]. rewrite isOpen_shiftB_pos by exact Hm. destruct (isOpen x); [rewrite IH|]; reflexivity.
Qed.
Lemma tipDepth_shKids m f rt : 0 <= m -> tipDepth f (shKids m rt) = tipDepth f rt.
Proof.
  intros Hm. destruct f as [|f]; [reflexivity|]. cbn [tipDepth]. rewrite lastBlock_shKids.
  destruct (lastBlock rt) as [x|]; cbn [option_map]; [|reflexivity]. rewrite isOpen_shiftB_pos by exact Hm. destruct (isOpen x); [rewrite tipDepth_shiftB by exact Hm|]; reflexivity.
Qed.

(* updates below the root *)
Lemma updAt_shiftB m g g' : (forall y, g' (shiftB m y) = shiftB m (g y)) -> forall d c, updAt d g' (shiftB m c) = shiftB m (updAt d g c).
Proof.
  intros Hg. induction d as [|d IH]; intros c; [apply Hg|]. cbn [updAt]. rewrite lastBlock_shiftB.
  destruct (lastBlock c) as [x|]; cbn [option_map]; [|reflexivity]. rewrite IH. apply (set_lastBlocks_shiftB m c [updAt d g x]).
Qed.
Lemma updAt_shKids_S m g g' : (forall y, g' (shiftB m y) = shiftB m (g y)) -> forall d rt, updAt (S d) g' (shKids m rt) = shKids m (updAt (S d) g rt).
Proof.
  intros Hg d rt. cbn [updAt]. rewrite lastBlock_shKids. destruct (lastBlock rt) as [x|]; cbn [option_map]; [|reflexivity].
  rewrite (updAt_shiftB m g g' Hg). apply (set_lastBlocks_shKids m rt [updAt d g x]).
Qed.

Lemma updAt_shiftB_at m g g' : forall d c, (forall y, getAt d c = Some y -> g' (shiftB m y) = shiftB m (g y)) -> updAt d g' (shiftB m c) = shiftB m (updAt d g c).
Proof.
  induction d as [|d IH]; intros c H; [apply H; reflexivity|]. cbn [updAt]. rewrite lastBlock_shiftB.
  destruct (lastBlock c) as [x|] eqn:El; cbn [option_map]; [|reflexivity]. rewrite IH; [apply (set_lastBlocks_shiftB m c [updAt d g x])|].
  intros y Hy. apply H. rewrite getAt_S, El. exact Hy.
Qed.
Lemma updAt_shKids_at m g g' : forall d rt, (forall y, getAt (S d) rt = Some y -> g' (shiftB m y) = shiftB m (g y)) ->
  updAt (S d) g' (shKids m rt) = shKids m (updAt (S d) g rt).
Proof.
  intros d rt H. cbn [updAt]. rewrite lastBlock_shKids. destruct (lastBlock rt) as [x|] eqn:El; cbn [option_map]; [|reflexivity].
  rewrite (updAt_shiftB_at m g g'); [apply (set_lastBlocks_shKids m rt [updAt d g x])|]. intros y Hy. apply H. rewrite getAt_S, El. exact Hy.
Qed.

Section ShiftLP.
  Variables (m : Z) (src : bytes).
  Hypothesis Hm : 0 <= m.
  Notation sh := (shLP m src).

  Lemma containerKind_sh a : containerKind (sh a) = containerKind a.
  Proof.
    unfold containerKind, contBlock. change (cdepth (sh a)) with (cdepth a). change (root (sh a)) with (shKids m (root a)).
    destruct (cdepth a) as [|d]; [apply bkind_shKids|]. rewrite getAt_shKids_S. destruct (getAt (S d) (root a)); [apply bkind_shiftB|reflexivity].
  Qed.
  Lemma tipKind_sh a : tipKind (sh a) = tipKind a.
  Proof.
    unfold tipKind. change (root (sh a)) with (shKids m (root a)). rewrite bheight_shKids, tipDepth_shKids by exact Hm.
    destruct (tipDepth (bheight (root a)) (root a)) as [|d]; [apply bkind_shKids|]. rewrite getAt_shKids_S.
    destruct (getAt (S d) (root a)); [apply bkind_shiftB|reflexivity].
  Qed.
  Lemma bchar_contBlock_sh a : bchar (contBlock (sh a)) = bchar (contBlock a).
  Proof.
    unfold contBlock. change (cdepth (sh a)) with (cdepth a). change (root (sh a)) with (shKids m (root a)).
    destruct (cdepth a) as [|d]; [destruct (root a); reflexivity|]. rewrite getAt_shKids_S. destruct (getAt (S d) (root a)); [apply bchar_shiftB|reflexivity].
  Qed.

  (* an update of the container, which is not the root *)
  Lemma updCont_sh a g g' : (1 <= cdepth a)%nat -> (forall y, g' (shiftB m y) = shiftB m (g y)) -> updCont (sh a) g' = sh (updCont a g).
  Proof.
    intros Hd Hg.
    change (updCont (sh a) g') with (withRoot (sh a) (updAt (cdepth a) g' (shKids m (root a)))).
    change (sh (updCont a g)) with (withRoot (sh a) (shKids m (updAt (cdepth a) g (root a)))).
    destruct (cdepth a) as [|d] eqn:Ed; [lia|]. rewrite (updAt_shKids_S m g g' Hg). reflexivity.
  Qed.
  (* a setter of a scalar field, at any depth *)
  Definition scalarOnly (g : block -> block) : Prop :=
    (forall y, g (shiftB m y) = shiftB m (g y)) /\ (forall rt, g (shKids m rt) = shKids m (g rt)).
  Lemma updCont_sh_scalar a g : scalarOnly g -> updCont (sh a) g = sh (updCont a g).
  Proof.
    intros [G1 G2].
    change (updCont (sh a) g) with (withRoot (sh a) (updAt (cdepth a) g (shKids m (root a)))).
    change (sh (updCont a g)) with (withRoot (sh a) (shKids m (updAt (cdepth a) g (root a)))).
    destruct (cdepth a) as [|d]; [cbn [updAt]; rewrite G2; reflexivity|]. rewrite (updAt_shKids_S m g g G1). reflexivity.
  Qed.
  Lemma scalar_bn v : scalarOnly (fun b => set_bn b v). Proof. split; intros y; destruct y; reflexivity. Qed.
  Lemma scalar_bchar v : scalarOnly (fun b => set_bchar b v). Proof. split; intros y; destruct y; reflexivity. Qed.
  Lemma scalar_bindent v : scalarOnly (fun b => set_bindent b v). Proof. split; intros y; destruct y; reflexivity. Qed.
  Lemma scalar_bn_bchar v w : scalarOnly (fun b => set_bn (set_bchar b v) w). Proof. split; intros y; destruct y; reflexivity. Qed.
  Lemma scalar_blast v : scalarOnly (fun b => set_blast b v). Proof. split; intros y; destruct y; reflexivity. Qed.

  Lemma append_sh a nb : updCont (sh a) (fun b => set_bkids b (bkids b ++ [shiftB m nb])) = sh (updCont a (fun b => set_bkids b (bkids b ++ [nb]))).
  Proof.
    set (g := fun b => set_bkids b (bkids b ++ [nb])). set (g' := fun b => set_bkids b (bkids b ++ [shiftB m nb])).
    change (updCont (sh a) g') with (withRoot (sh a) (updAt (cdepth a) g' (shKids m (root a)))).
    change (sh (updCont a g)) with (withRoot (sh a) (shKids m (updAt (cdepth a) g (root a)))).
    destruct (cdepth a) as [|d].
    - cbn [updAt]. unfold g, g'. destruct (root a). cbn [shKids set_bkids bkids]. rewrite map_app. reflexivity.
    - rewrite (updAt_shKids_S m g g'); [reflexivity|].
      intros y. unfold g, g'. destruct y. cbn [shiftB set_bkids bkids]. rewrite map_app. reflexivity.
  Qed.

  (* closing the last child of the node at depth d, when that child is closed or simple *)
  Lemma clF_shiftB h src' e y : 0 <= e -> (forall z, lastBlock y = Some z -> okC z) ->
    clF h src (e + m) (shiftB m y) = shiftB m (clF h src' e y).
  Proof.
    intros He Hz. unfold clF. rewrite lastBlock_shiftB. destruct (lastBlock y) as [z|] eqn:El; cbn [option_map]; [|reflexivity].
    rewrite (closeBlock_shift h src src' m e z Hm He (Hz z eq_refl)). apply set_lastBlocks_shiftB.
  Qed.
  Lemma clF_shKids h src' e rt : 0 <= e -> (forall z, lastBlock rt = Some z -> okC z) ->
    clF h src (e + m) (shKids m rt) = shKids m (clF h src' e rt).
  Proof.
    intros He Hz. unfold clF. rewrite lastBlock_shKids. destruct (lastBlock rt) as [z|] eqn:El; cbn [option_map]; [|reflexivity].
    rewrite (closeBlock_shift h src src' m e z Hm He (Hz z eq_refl)). apply set_lastBlocks_shKids.
  Qed.
  Lemma closeLastChildAt_sh a d e : 0 <= e -> (forall y z, getAt d (root a) = Some y -> lastBlock y = Some z -> okC z) ->
    closeLastChildAt (sh a) d (e + m) = sh (closeLastChildAt a d e).
  Proof.
    intros He Hz. rewrite !closeLastChildAt_clF.
    change (root (sh a)) with (shKids m (root a)). change (source (sh a)) with src. rewrite bheight_shKids.
    change (sh (withRoot a (updAt d (clF (bheight (root a)) (source a) e) (root a)))) with
           (withRoot (sh a) (shKids m (updAt d (clF (bheight (root a)) (source a) e) (root a)))).
    assert (E : updAt d (clF (bheight (root a)) src (e + m)) (shKids m (root a)) = shKids m (updAt d (clF (bheight (root a)) (source a) e) (root a))).
    { destruct d as [|d]; [cbn [updAt]; apply clF_shKids; [exact He|intros z; apply (Hz (root a) z eq_refl)]|].
      apply updAt_shKids_at. intros y Hy. apply clF_shiftB; [exact He|intros z; apply (Hz y z Hy)]. }
    rewrite E. reflexivity.
  Qed.

  (* ---- climbing out of the container: one step ---- *)
  Definition NPI (a : lp) : Prop :=
    containerKind a <> IndentedCodeBlockKind /\ containerKind a <> ParagraphKind /\ containerKind a <> SetextHeadingKind.

  Lemma getAt_parent : forall d r x, getAt (S d) r = Some x -> exists y, getAt d r = Some y /\ lastBlock y = Some x.
  Proof.
    induction d as [|d IH]; intros r x Hx.
    - exists r. split; [reflexivity|]. cbn [getAt] in Hx. destruct (lastBlock r); [exact Hx|discriminate].
    - rewrite getAt_S in Hx. destruct (lastBlock r) as [c|] eqn:El; [|discriminate]. destruct (IH c x Hx) as (y & A & B).
      exists y. split; [rewrite getAt_S, El; exact A|exact B].
  Qed.

  Lemma container_okC a d : GI a -> cdepth a = S d -> tipOK a -> NPI a ->
    forall y z, getAt d (root a) = Some y -> lastBlock y = Some z -> okC z.
  Proof.
    intros (Gc & Gg & Gs) Ed (_ & Ht) (N1 & N2 & N3) y z Hy Hz.
    assert (Hzc : getAt (S d) (root a) = Some z).
    { clear - Hy Hz. revert Hy. generalize (root a) as r. induction d as [|d IH]; intros r Hy.
      - cbn in Hy. inversion Hy; subst. cbn [getAt]. rewrite Hz. reflexivity.
      - rewrite getAt_S in Hy |- *. destruct (lastBlock r) as [c|]; [apply IH, Hy|discriminate]. }
    right. assert (Ek : bkind z = containerKind a) by (unfold containerKind, contBlock; rewrite Ed, Hzc; reflexivity).
    rewrite Ek. split; [exact N1|]. split; [exact N2|]. split; [exact N3|]. apply Ht. rewrite Ed. exact Hzc.
  Qed.

  Lemma climb_step a d e : GI a -> cdepth a = S d -> tipOK a -> NPI a -> 0 <= e ->
    let a' := withCont (closeLastChildAt a d e) (Some d) in GI a' /\ tipOK a' /\ NPI a'.
  Proof.
    intros HG Ed HT HN He. cbv zeta.
    split; [apply GI_closeAt; [exact HG|lia|lia]|].
    destruct HG as (Gc & Gg & Gs). rewrite Ed in Gs.
    destruct (so_getAt _ _ Gs) as (x & Hx & Hox). destruct (getAt_parent d (root a) x Hx) as (y & Hy & Hyx).
    destruct HN as (N1 & N2 & N3).
    assert (Kx : bkind x = containerKind a) by (unfold containerKind, contBlock; rewrite Ed, Hx; reflexivity).
    assert (Hlx : lastClosedB x) by (apply (proj2 HT); rewrite Ed; exact Hx).
    split.
    - split; [eexists; reflexivity|]. intros z.
      rewrite closeLastChildAt_eq. cbn [root container cdepth withCont withRoot setLP].
      rewrite L2Kind2.getAt_updAt_same, Hy. cbn [option_map]. intros E. inversion E; subst z. clear E.
      unfold TInv.closeF. rewrite Hyx. unfold lastClosedB.
      destruct (bheight_S (root a)) as [h Eh]. rewrite Eh.
      rewrite (closeBlock_okC h (source a) e x Hox ltac:(rewrite Kx; exact N1) ltac:(rewrite Kx; exact N2) ltac:(rewrite Kx; exact N3) Hlx).
      destruct (lastBlock_some y x Hyx) as (pre0 & Ey). unfold lastBlock. rewrite (bkids_set_lastBlocks y pre0 x _ Ey), rev_app_distr. cbn [rev app].
      unfold isOpen. destruct (bkind x =? ListKind); [rewrite StreamFuel.bend_onCloseList|]; rewrite StreamFuel.bend_set_bend; apply Z.ltb_ge; exact He.
    - assert (Hk' : containerKind (withCont (closeLastChildAt a d e) (Some d)) = bkind y).
      { unfold containerKind, contBlock. rewrite closeLastChildAt_eq. cbn [root container cdepth withCont withRoot setLP].
        rewrite L2Kind2.getAt_updAt_same, Hy. cbn [option_map]. unfold TInv.closeF. rewrite Hyx. apply bkind_set_lastBlocks'. }
      unfold NPI. rewrite Hk'. destruct Gc as (_ & Gcc & _).
      pose proof (cc_getAt d (root a) y Gcc Hy) as Hcy. destruct (cc_lastBlock y x Hcy Hyx) as [_ Hcan].
      repeat split; intros E; rewrite E in Hcan; discriminate.
  Qed.

  Lemma openBlock_up_sh K : forall fuel a, GI a -> tipOK a -> NPI a -> 0 <= lineStart a ->
    openBlock_up fuel (sh a) K = sh (openBlock_up fuel a K) /\
    GI (openBlock_up fuel a K) /\ tipOK (openBlock_up fuel a K) /\ lineStart (openBlock_up fuel a K) = lineStart a.
  Proof.
    induction fuel as [|f IH]; intros a HG HT HN Hls; [split; [reflexivity|]; split; [exact HG|]; split; [exact HT|reflexivity]|]. cbn [openBlock_up].
    rewrite containerKind_sh. destruct (canContain (containerKind a) K); [split; [reflexivity|]; split; [exact HG|]; split; [exact HT|reflexivity]|].
    change (cdepth (sh a)) with (cdepth a). destruct (cdepth a) as [|d] eqn:Ed.
    { split; [reflexivity|]. split; [eapply GI_same; [|exact HG]; split; reflexivity|]. split; [|reflexivity].
      destruct HT as (A & B). split; [exact A|exact B]. }
    change (lineStart (sh a)) with (lineStart a + m).
    rewrite (closeLastChildAt_sh a d (lineStart a) Hls (container_okC a d HG Ed HT HN)).
    change (withCont (sh (closeLastChildAt a d (lineStart a))) (Some d)) with (sh (withCont (closeLastChildAt a d (lineStart a)) (Some d))).
    destruct (climb_step a d (lineStart a) HG Ed HT HN Hls) as (G' & T' & N').
    destruct (IH _ G' T' N' Hls) as (E1 & E2 & E3 & E4). split; [exact E1|]. split; [exact E2|]. split; [exact E3|exact E4].
  Qed.

  Lemma shiftB_newBlock K pos : shiftB m (newBlock K pos) = newBlock K (pos + m).
  Proof. reflexivity. Qed.

  Lemma tip_okC a : tipOK a -> forall y z, getAt (cdepth a) (root a) = Some y -> lastBlock y = Some z -> okC z.
  Proof. intros (_ & Ht) y z Hy Hz. left. specialize (Ht y Hy). unfold lastClosedB in Ht. rewrite Hz in Ht. exact Ht. Qed.

  Lemma openBlock_sh a K : GI a -> tipOK a -> NPI a -> CU a -> openBlock (sh a) K = sh (openBlock a K).
  Proof.
    intros HG HT HN HC. unfold openBlock. change (state (sh a)) with (state a). destruct (_ || _); [reflexivity|]. cbv zeta.
    pose proof (sh_opened m src a) as Eo. change (state (sh a)) with (state a) in Eo. rewrite Eo. clear Eo.
    set (a0 := if state a =? stOpening then withState a stOpenMatched else a).
    assert (T0 : same_tree a a0) by (unfold a0; destruct (_ =? _); split; reflexivity).
    assert (G0 : GI a0) by (eapply GI_same; eassumption).
    assert (HT0 : tipOK a0) by (unfold a0; destruct (_ =? _); exact HT).
    assert (HN0 : NPI a0) by (unfold a0; destruct (_ =? _); exact HN).
    assert (L0 : 0 <= lineStart a0) by (unfold a0; destruct (_ =? _); apply HC).
    change (cdepth (sh a0)) with (cdepth a0).
    destruct (openBlock_up_sh K (S (cdepth a0)) a0 G0 HT0 HN0 L0) as (E1 & G2 & T2 & L2). rewrite E1.
    set (a2 := openBlock_up (S (cdepth a0)) a0 K) in *.
    change (cdepth (sh a2)) with (cdepth a2). change (lineStart (sh a2)) with (lineStart a2 + m).
    rewrite (closeLastChildAt_sh a2 (cdepth a2) (lineStart a2) ltac:(lia) (tip_okC a2 T2)).
    set (a3 := closeLastChildAt a2 (cdepth a2) (lineStart a2)).
    change (lineStart (sh a3)) with (lineStart a3 + m). change (li (sh a3)) with (li a3).
    replace (lineStart a3 + m + li a3) with (lineStart a3 + li a3 + m) by lia. rewrite <- shiftB_newBlock.
    rewrite (append_sh a3). reflexivity.
  Qed.

  Lemma endBlock_sh a : GI a -> tipOK a -> NPI a -> CU a -> endBlock (sh a) = sh (endBlock a).
  Proof.
    intros HG HT HN HC. unfold endBlock. change (state (sh a)) with (state a). destruct (_ || _); [reflexivity|]. cbv zeta.
    pose proof (sh_opened m src a) as Eo. change (state (sh a)) with (state a) in Eo. rewrite Eo. clear Eo.
    set (a0 := if state a =? stOpening then withState a stOpenMatched else a).
    assert (T0 : same_tree a a0) by (unfold a0; destruct (_ =? _); split; reflexivity).
    assert (G0 : GI a0) by (eapply GI_same; eassumption).
    assert (HT0 : tipOK a0) by (unfold a0; destruct (_ =? _); exact HT).
    assert (HN0 : NPI a0) by (unfold a0; destruct (_ =? _); exact HN).
    assert (L0 : 0 <= lineStart a0 + li a0) by (unfold a0; destruct (_ =? _); destruct HC; cbn; lia).
    change (cdepth (sh a0)) with (cdepth a0). destruct (cdepth a0) as [|d] eqn:Ed; [reflexivity|].
    change (lineStart (sh a0)) with (lineStart a0 + m). change (li (sh a0)) with (li a0).
    replace (lineStart a0 + m + li a0) with (lineStart a0 + li a0 + m) by lia.
    rewrite (closeLastChildAt_sh a0 d (lineStart a0 + li a0) L0 (container_okC a0 d G0 Ed HT0 HN0)). reflexivity.
  Qed.

  (* ---- the info string of a fenced code block ---- *)
  Lemma from_from (l : bytes) i : 0 <= i -> from_ l (i + m) = from_ (from_ l m) i.
  Proof.
    intros Hi. unfold from_. replace (Z.to_nat (i + m)) with (Z.to_nat i + Z.to_nat m)%nat by lia.
    generalize (Z.to_nat i) as a. generalize (Z.to_nat m) as b. clear. intros b a. revert l. induction b as [|b IH]; intros l.
    - rewrite Nat.add_0_r. reflexivity.
    - replace (a + S b)%nat with (S (a + b)) by lia. destruct l as [|x r]; [rewrite !skipn_nil; reflexivity|]. cbn [skipn]. apply IH.
  Qed.
  Lemma at_shift (l : bytes) i : 0 <= i -> at_ l (i + m) = at_ (from_ l m) i.
  Proof. intros Hi. rewrite <- (LA12.at_from' l m (i + m)) by lia. f_equal. lia. Qed.
  Lemma sub_shift (l : bytes) i e : 0 <= i -> sub l (i + m) (e + m) = sub (from_ l m) i e.
  Proof. intros Hi. unfold sub. rewrite (from_from l i Hi). f_equal. lia. Qed.
  Lemma shiftI_mkI k a b : 0 <= b -> shiftI m (mkI k a b) = mkI k (a + m) (b + m).
  Proof. intros Hb. unfold mkI. cbn [shiftI map]. replace (0 <=? b) with true by (symmetry; apply Z.leb_le; exact Hb). reflexivity. Qed.

  Lemma infoString_loop_shift l : forall fuel i e ps acc, 0 <= i ->
    infoString_loop fuel l (i + m) (e + m) (ps + m) (map (shiftI m) acc) =
    (map (shiftI m) (fst (infoString_loop fuel (from_ l m) i e ps acc)), snd (infoString_loop fuel (from_ l m) i e ps acc) + m).
  Proof.
    induction fuel as [|f IH]; intros i e ps acc Hi; [reflexivity|]. cbn [infoString_loop]. cbv zeta.
    replace (e + m <=? i + m) with (e <=? i) by (destruct (Z.leb_spec e i); destruct (Z.leb_spec (e + m) (i + m)); lia || reflexivity).
    destruct (e <=? i); [reflexivity|].
    rewrite (at_shift l i Hi). replace (i + m + 1) with (i + 1 + m) by lia. rewrite (at_shift l (i + 1) ltac:(lia)), (sub_shift l i e Hi).
    replace (e + m <=? i + 1 + m) with (e <=? i + 1) by (destruct (Z.leb_spec e (i + 1)); destruct (Z.leb_spec (e + m) (i + 1 + m)); lia || reflexivity).
    replace (ps + m <? i + m) with (ps <? i) by (destruct (Z.ltb_spec ps i); destruct (Z.ltb_spec (ps + m) (i + m)); lia || reflexivity).
    destruct (at_ (from_ l m) i =? 92).
    - destruct ((e <=? i + 1) || negb (isASCIIPunctuation (at_ (from_ l m) (i + 1)))); [apply IH; lia|].
      replace (i + m + 2) with (i + 2 + m) by lia.
      assert (E : (if ps <? i then map (shiftI m) acc ++ [mkI TextKind (ps + m) (i + m)] else map (shiftI m) acc) ++ [mkI TextKind (i + 1 + m) (i + 2 + m)] =
                  map (shiftI m) ((if ps <? i then acc ++ [mkI TextKind ps i] else acc) ++ [mkI TextKind (i + 1) (i + 2)])).
      { rewrite map_app. cbn [map]. rewrite (shiftI_mkI TextKind (i + 1) (i + 2)) by lia. destruct (ps <? i); [|reflexivity].
        rewrite map_app. cbn [map]. rewrite (shiftI_mkI TextKind ps i Hi). reflexivity. }
      rewrite E. apply IH. lia.
    - destruct (at_ (from_ l m) i =? 38); [|apply IH; lia].
      set (en := parseCharacterEscape (sub (from_ l m) i e)). destruct (Z.ltb_spec en 0) as [Le|Le]; [apply IH; lia|].
      replace (i + m + en) with (i + en + m) by lia.
      assert (E : (if ps <? i then map (shiftI m) acc ++ [mkI TextKind (ps + m) (i + m)] else map (shiftI m) acc) ++ [mkI CharacterReferenceKind (i + m) (i + en + m)] =
                  map (shiftI m) ((if ps <? i then acc ++ [mkI TextKind ps i] else acc) ++ [mkI CharacterReferenceKind i (i + en)])).
      { rewrite map_app. cbn [map]. rewrite (shiftI_mkI CharacterReferenceKind i (i + en)) by lia. destruct (ps <? i); [|reflexivity].
        rewrite map_app. cbn [map]. rewrite (shiftI_mkI TextKind ps i Hi). reflexivity. }
      rewrite E. apply IH. lia.
  Qed.
  Lemma parseInfoString_shift l s e : 0 <= s -> 0 <= e -> parseInfoString l (s + m) (e + m) = shiftI m (parseInfoString (from_ l m) s e).
  Proof.
    intros Hs He. unfold parseInfoString. replace (e + m - (s + m)) with (e - s) by lia.
    pose proof (infoString_loop_shift l (S (Z.to_nat (e - s))) s e s [] Hs) as H. cbn [map] in H. rewrite H.
    destruct (infoString_loop (S (Z.to_nat (e - s))) (from_ l m) s e s []) as [acc ps]. cbn [fst snd].
    replace (ps + m <? e + m) with (ps <? e) by (destruct (Z.ltb_spec ps e); destruct (Z.ltb_spec (ps + m) (e + m)); lia || reflexivity).
    cbn [shiftI]. replace (0 <=? e) with true by (symmetry; apply Z.leb_le; exact He). f_equal.
    destruct (ps <? e); [|reflexivity]. rewrite map_app. cbn [map]. rewrite (shiftI_mkI TextKind ps e He). reflexivity.
  Qed.

  Lemma addEntry_comm node : forall y, (fun b => set_bik b (bik b ++ [shiftI m node])) (shiftB m y) = shiftB m ((fun b => set_bik b (bik b ++ [node])) y).
  Proof. intros y. destruct y. cbn [shiftB set_bik bik]. rewrite map_app. reflexivity. Qed.

  Lemma cdepth_advance a n : cdepth (advance a n) = cdepth a. Proof. unfold cdepth. rewrite container_advance. reflexivity. Qed.
  Lemma CU_adv a n : CU a -> CU (advance a n). Proof. apply CU_advance. Qed.

  Lemma collectInline_sh a kind n : (1 <= cdepth a)%nat -> CU a -> from_ src m = source a ->
    collectInline (sh a) kind n = sh (collectInline a kind n).
  Proof.
    intros Hd HC Hsrc. unfold collectInline. change (state (sh a)) with (state a). destruct (_ =? stDescendTerminated); [reflexivity|]. cbv zeta.
    pose proof (sh_opened m src a) as Eo. change (state (sh a)) with (state a) in Eo. rewrite Eo. clear Eo.
    set (a1 := if state a =? stOpening then withState a stOpenMatched else a).
    assert (D1 : (1 <= cdepth a1)%nat) by (unfold a1; destruct (_ =? _); exact Hd).
    assert (C1 : CU a1) by (apply CU_opened, HC).
    assert (S1 : source a1 = source a) by (unfold a1; destruct (_ =? _); reflexivity).
    change (indent (sh a1)) with (indent a1).
    set (a2 := if 0 <? indent a1 then _ else a1).
    set (a2' := if 0 <? indent a1 then _ else sh a1).
    assert (E2 : a2' = sh a2 /\ (1 <= cdepth a2)%nat /\ CU a2 /\ source a2 = source a).
    { unfold a2, a2'. destruct (0 <? indent a1); [|split; [reflexivity|]; repeat split; try assumption; apply C1].
      change (lineStart (sh a1)) with (lineStart a1 + m). change (li (sh a1)) with (li a1). change (rest (sh a1)) with (rest a1).
      rewrite sh_advance. set (b1 := advance a1 (indentLength (rest a1))).
      change (lineStart (sh b1)) with (lineStart b1 + m). change (li (sh b1)) with (li b1).
      assert (Cb : CU b1) by (apply CU_advance, C1).
      split.
      - replace (Inl IndentKind (lineStart a1 + m + li a1) (lineStart b1 + m + li b1) (indent a1) [] []) with
                (shiftI m (Inl IndentKind (lineStart a1 + li a1) (lineStart b1 + li b1) (indent a1) [] [])).
        + apply updCont_sh; [unfold b1; rewrite cdepth_advance; exact D1|apply addEntry_comm].
        + cbn [shiftI map]. replace (0 <=? lineStart b1 + li b1) with true by (symmetry; apply Z.leb_le; destruct Cb; lia). f_equal; lia.
      - split; [unfold b1; change (cdepth (updCont (advance a1 _) _)) with (cdepth (advance a1 (indentLength (rest a1)))); rewrite cdepth_advance; exact D1|].
        split; [apply CU_updCont, Cb|]. change (source (updCont b1 _)) with (source b1). unfold b1. rewrite (proj1 (source_advance a1 _)). exact S1. }
    destruct E2 as (E2 & D2 & C2 & S2). rewrite E2.
    change (lineStart (sh a2)) with (lineStart a2 + m). change (li (sh a2)) with (li a2). rewrite sh_advance.
    set (b2 := advance a2 n). change (source (sh b2)) with src. change (lineStart (sh b2)) with (lineStart b2 + m). change (li (sh b2)) with (li b2).
    assert (Cb2 : CU b2) by (apply CU_advance, C2).
    assert (Sb2 : source b2 = source a) by (unfold b2; rewrite (proj1 (source_advance a2 n)); exact S2).
    set (node := if kind =? InfoStringKind then parseInfoString (source b2) (lineStart a2 + li a2) (lineStart b2 + li b2) else mkI kind (lineStart a2 + li a2) (lineStart b2 + li b2)).
    assert (En : (if kind =? InfoStringKind then parseInfoString src (lineStart a2 + m + li a2) (lineStart b2 + m + li b2) else mkI kind (lineStart a2 + m + li a2) (lineStart b2 + m + li b2)) = shiftI m node).
    { unfold node. destruct (kind =? InfoStringKind).
      - replace (lineStart a2 + m + li a2) with (lineStart a2 + li a2 + m) by lia. replace (lineStart b2 + m + li b2) with (lineStart b2 + li b2 + m) by lia.
        rewrite parseInfoString_shift; [rewrite Hsrc, Sb2; reflexivity|destruct C2; lia|destruct Cb2; lia].
      - rewrite shiftI_mkI by (destruct Cb2; lia). f_equal; lia. }
    rewrite En. apply updCont_sh; [unfold b2; rewrite cdepth_advance; exact D2|apply addEntry_comm].
  Qed.

  Lemma openBlock_sh_stay a K : canContain (containerKind a) K = true -> tipOK a -> CU a -> openBlock (sh a) K = sh (openBlock a K).
  Proof.
    intros Hcan HT HC. unfold openBlock. change (state (sh a)) with (state a). destruct (_ || _); [reflexivity|]. cbv zeta.
    pose proof (sh_opened m src a) as Eo. change (state (sh a)) with (state a) in Eo. rewrite Eo. clear Eo.
    set (a0 := if state a =? stOpening then withState a stOpenMatched else a).
    assert (K0 : containerKind a0 = containerKind a) by (unfold a0; destruct (_ =? _); reflexivity).
    assert (HT0 : tipOK a0) by (unfold a0; destruct (_ =? _); exact HT).
    assert (L0 : 0 <= lineStart a0) by (unfold a0; destruct (_ =? _); apply HC).
    change (cdepth (sh a0)) with (cdepth a0). cbn [openBlock_up]. rewrite containerKind_sh, K0, Hcan.
    change (cdepth (sh a0)) with (cdepth a0). change (lineStart (sh a0)) with (lineStart a0 + m).
    rewrite (closeLastChildAt_sh a0 (cdepth a0) (lineStart a0) L0 (tip_okC a0 HT0)).
    set (a3 := closeLastChildAt a0 (cdepth a0) (lineStart a0)).
    change (lineStart (sh a3)) with (lineStart a3 + m). change (li (sh a3)) with (li a3).
    replace (lineStart a3 + m + li a3) with (lineStart a3 + li a3 + m) by lia. rewrite <- shiftB_newBlock.
    rewrite (append_sh a3). reflexivity.
  Qed.

  (* ---- the block starts ---- *)
  Definition entryOK (a : lp) : Prop := IT a /\ st_open a /\ acceptsLines (containerKind a) = false /\ from_ src m = source a.
  Lemma NPI_of a : tipOK a /\ NP a -> acceptsLines (containerKind a) = false -> NPI a.
  Proof.
    intros (_ & (N1 & N2)) Ha. split; [|split; assumption]. intros E. rewrite E in Ha. discriminate.
  Qed.
  Lemma NPI_kind a K : containerKind a = K -> K <> IndentedCodeBlockKind -> K <> ParagraphKind -> K <> SetextHeadingKind -> NPI a.
  Proof. intros E A B C. unfold NPI. rewrite E. split; [exact A|split; assumption]. Qed.
  Lemma source_fr a a' : fr a a' -> source a' = source a. Proof. intros (A & _). exact A. Qed.

  Lemma IT_same a a' : cstep a a' -> IT a -> IT a'. Proof. apply (I_cstep JT JT_same). Qed.
  Lemma IT_open a K : st_open a -> IT a -> startK K -> K <> ListMarkerKind -> K <> ListItemKind ->
    (forall pos, bkind (newBlock K pos) = K /\ cc (newBlock K pos) = true /\ gb (newBlock K pos) = true /\ isOpen (newBlock K pos) = true) -> IT (openBlock a K).
  Proof. apply (I_openBlock_plain JT JT_upd JT_open). Qed.
  Lemma cdepth_open a K : st_open a -> (1 <= cdepth (openBlock a K))%nat.
  Proof. intros Hs. rewrite (cdepth_openBlock a K Hs). lia. Qed.

  Definition startSh (f : lp -> lp) : Prop := forall a, entryOK a -> f (sh a) = sh (f a).

  Lemma sh_BQ : startSh startBlockQuote.
  Proof.
    intros a ((HG & HC & HJ) & Hs & Ha & Hsrc). unfold startBlockQuote. cbv zeta.
    change (indent (sh a)) with (indent a). change (bytesAfterIndent (sh a)) with (bytesAfterIndent a).
    destruct (_ <=? _); [reflexivity|]. destruct (negb _); [reflexivity|].
    rewrite sh_consumeIndent. set (a1 := consumeIndent a (indent a)).
    assert (I1 : IT a1) by (apply (IT_same a); [apply cstep_consumeIndent|split; [exact HG|split; assumption]]).
    assert (K1 : containerKind a1 = containerKind a) by (apply containerKind_same, same_consumeIndent).
    rewrite (openBlock_sh a1 BlockQuoteKind (proj1 I1) (proj1 (proj2 (proj2 I1))) (NPI_of a1 (proj2 (proj2 I1)) ltac:(rewrite K1; exact Ha)) (proj1 (proj2 I1))).
    rewrite sh_advance. set (q := advance _ 1). change (indent (sh q)) with (indent q). destruct (0 <? indent q); [apply sh_consumeIndent|reflexivity].
  Qed.

  Lemma sh_Indented : startSh startIndented.
  Proof.
    intros a ((HG & HC & HJ) & Hs & Ha & Hsrc). unfold startIndented.
    change (indent (sh a)) with (indent a). change (isRestBlank (sh a)) with (isRestBlank a). rewrite tipKind_sh.
    destruct (_ || _ || _); [reflexivity|]. rewrite sh_consumeIndent. set (a1 := consumeIndent a codeBlockIndentLimit).
    assert (I1 : IT a1) by (apply (IT_same a); [apply cstep_consumeIndent|split; [exact HG|split; assumption]]).
    assert (K1 : containerKind a1 = containerKind a) by (apply containerKind_same, same_consumeIndent).
    apply (openBlock_sh a1 IndentedCodeBlockKind (proj1 I1) (proj1 (proj2 (proj2 I1))) (NPI_of a1 (proj2 (proj2 I1)) ltac:(rewrite K1; exact Ha)) (proj1 (proj2 I1))).
  Qed.

  Lemma sh_Thematic : startSh startThematic.
  Proof.
    intros a ((HG & HC & HJ) & Hs & Ha & Hsrc). unfold startThematic. cbv zeta.
    change (indent (sh a)) with (indent a). change (bytesAfterIndent (sh a)) with (bytesAfterIndent a).
    destruct (_ <=? _); [reflexivity|]. destruct (_ <? 0); [reflexivity|].
    rewrite sh_consumeIndent. set (a1 := consumeIndent a (indent a)).
    assert (S1 : st_open a1) by (apply st_open_consumeIndent, Hs).
    assert (I1 : IT a1) by (apply (IT_same a); [apply cstep_consumeIndent|split; [exact HG|split; assumption]]).
    assert (K1 : containerKind a1 = containerKind a) by (apply containerKind_same, same_consumeIndent).
    rewrite (openBlock_sh a1 ThematicBreakKind (proj1 I1) (proj1 (proj2 (proj2 I1))) (NPI_of a1 (proj2 (proj2 I1)) ltac:(rewrite K1; exact Ha)) (proj1 (proj2 I1))).
    rewrite sh_advance, sh_consumeLine.
    set (q := openBlock a1 ThematicBreakKind).
    assert (Iq : IT q) by (apply IT_open; [exact S1|exact I1|right; right; right; right; left; reflexivity|discriminate|discriminate|intros pos; repeat split; reflexivity]).
    set (q2 := consumeLine (advance q (parseThematicBreak (bytesAfterIndent a)))).
    assert (I2 : IT q2) by (apply (IT_same q); [eapply cstep_trans; [apply cstep_advance|apply cstep_consumeLine]|exact Iq]).
    assert (K2 : containerKind q2 = ThematicBreakKind).
    { apply containerKind_of; [apply I2|]. eapply ckind_same; [apply same_consumeLine|]. eapply ckind_same; [apply same_advance|]. apply ckind_openBlock, S1. }
    apply (endBlock_sh q2 (proj1 I2) (proj1 (proj2 (proj2 I2))) (NPI_kind q2 _ K2 ltac:(discriminate) ltac:(discriminate) ltac:(discriminate)) (proj1 (proj2 I2))).
  Qed.

  Lemma IT_open_init a K g : st_open a -> IT a -> startK K -> K <> ListMarkerKind -> K <> ListItemKind -> keepsShape g ->
    (forall pos, bkind (g (newBlock K pos)) = K /\ cc (g (newBlock K pos)) = true /\ gb (g (newBlock K pos)) = true /\ isOpen (g (newBlock K pos)) = true) ->
    IT (updCont (openBlock a K) g).
  Proof. apply (I_openBlock_init JT JT_upd JT_open). Qed.
  Lemma IT_collect a kind n K : IT a -> ckind a K -> nikK K = false -> IT (collectInline a kind n).
  Proof. apply (I_collectInline JT JT_same JT_upd). Qed.
  Lemma src_consumeIndent a n : source (consumeIndent a n) = source a.
  Proof. destruct (cstep_consumeIndent a n) as (_ & (_ & _ & A) & _). exact A. Qed.

  Lemma sh_ATX : startSh startATX.
  Proof.
    intros a ((HG & HC & HJ) & Hs & Ha & Hsrc). unfold startATX. cbv zeta.
    change (indent (sh a)) with (indent a). change (bytesAfterIndent (sh a)) with (bytesAfterIndent a).
    destruct (_ <=? _); [reflexivity|]. destruct (parseATXHeading _) as [[level cs] ce] eqn:Ep. destruct (level <? 1) eqn:El; [reflexivity|].
    apply Z.ltb_ge in El. pose proof (atx_level_le _ _ _ _ Ep) as Hl.
    rewrite sh_consumeIndent. set (a1 := consumeIndent a (indent a)).
    assert (S1 : st_open a1) by (apply st_open_consumeIndent, Hs).
    assert (I1 : IT a1) by (apply (IT_same a); [apply cstep_consumeIndent|split; [exact HG|split; assumption]]).
    assert (K1 : containerKind a1 = containerKind a) by (apply containerKind_same, same_consumeIndent).
    rewrite (openBlock_sh a1 ATXHeadingKind (proj1 I1) (proj1 (proj2 (proj2 I1))) (NPI_of a1 (proj2 (proj2 I1)) ltac:(rewrite K1; exact Ha)) (proj1 (proj2 I1))).
    rewrite (updCont_sh_scalar (openBlock a1 ATXHeadingKind) _ (scalar_bn level)).
    set (q1 := updCont (openBlock a1 ATXHeadingKind) (fun b => set_bn b level)).
    assert (Iq1 : IT q1).
    { apply IT_open_init; [exact S1|exact I1|right; left; reflexivity|discriminate|discriminate|apply keeps_set_bn|].
      intros pos. split; [reflexivity|]. split; [reflexivity|]. split; [apply gb_newATX; lia|reflexivity]. }
    assert (Kq1 : ckind q1 ATXHeadingKind) by (apply ckind_updCont; [intros b; destruct b; reflexivity|apply ckind_openBlock, S1]).
    assert (Dq1 : (1 <= cdepth q1)%nat) by (change (cdepth q1) with (cdepth (openBlock a1 ATXHeadingKind)); apply cdepth_open, S1).
    assert (Sq1 : source q1 = source a) by (change (source q1) with (source (openBlock a1 ATXHeadingKind)); rewrite (source_fr _ _ (fr_openBlock a1 ATXHeadingKind)); apply src_consumeIndent).
    rewrite sh_advance. set (q2 := advance q1 cs).
    assert (I2 : IT q2) by (apply (IT_same q1); [apply cstep_advance|exact Iq1]).
    rewrite (collectInline_sh q2 UnparsedKind (ce - cs)); [|unfold q2; rewrite cdepth_advance; exact Dq1|apply I2|unfold q2; rewrite (proj1 (source_advance q1 cs)), Sq1; exact Hsrc].
    set (q3 := collectInline q2 UnparsedKind (ce - cs)).
    assert (I3 : IT q3) by (apply (IT_collect q2 _ _ ATXHeadingKind); [exact I2|eapply ckind_same; [apply same_advance|exact Kq1]|reflexivity]).
    assert (K3 : ckind q3 ATXHeadingKind) by (apply TStarts.ckind_collectInline; eapply ckind_same; [apply same_advance|exact Kq1]).
    rewrite sh_consumeLine. set (q4 := consumeLine q3).
    assert (I4 : IT q4) by (apply (IT_same q3); [apply cstep_consumeLine|exact I3]).
    assert (K4 : containerKind q4 = ATXHeadingKind) by (apply containerKind_of; [apply I4|eapply ckind_same; [apply same_consumeLine|exact K3]]).
    apply (endBlock_sh q4 (proj1 I4) (proj1 (proj2 (proj2 I4))) (NPI_kind q4 _ K4 ltac:(discriminate) ltac:(discriminate) ltac:(discriminate)) (proj1 (proj2 I4))).
  Qed.

  Lemma sh_Fenced : startSh startFenced.
  Proof.
    intros a ((HG & HC & HJ) & Hs & Ha & Hsrc). unfold startFenced. cbv zeta.
    change (indent (sh a)) with (indent a). change (bytesAfterIndent (sh a)) with (bytesAfterIndent a).
    destruct (_ <=? _); [reflexivity|]. destruct (parseCodeFence _) as [[[fc fnn] is_] ie]. destruct (fnn =? 0); [reflexivity|].
    rewrite sh_consumeIndent. set (a1 := consumeIndent a (indent a)).
    assert (S1 : st_open a1) by (apply st_open_consumeIndent, Hs).
    assert (I1 : IT a1) by (apply (IT_same a); [apply cstep_consumeIndent|split; [exact HG|split; assumption]]).
    assert (K1 : containerKind a1 = containerKind a) by (apply containerKind_same, same_consumeIndent).
    rewrite (openBlock_sh a1 FencedCodeBlockKind (proj1 I1) (proj1 (proj2 (proj2 I1))) (NPI_of a1 (proj2 (proj2 I1)) ltac:(rewrite K1; exact Ha)) (proj1 (proj2 I1))).
    rewrite (updCont_sh_scalar (openBlock a1 FencedCodeBlockKind) _ (scalar_bn_bchar fc fnn)).
    set (q1 := updCont (openBlock a1 FencedCodeBlockKind) (fun b => set_bn (set_bchar b fc) fnn)).
    rewrite (updCont_sh_scalar q1 _ (scalar_bindent (indent a))).
    set (q2 := updCont q1 (fun b => set_bindent b (indent a))).
    assert (Iq2 : IT q2).
    { unfold q2. apply (I_bindent JT JT_upd). apply IT_open_init; [exact S1|exact I1|right; right; left; reflexivity|discriminate|discriminate|apply keeps_bn_bchar|].
      intros pos. repeat split; reflexivity. }
    assert (Dq2 : (1 <= cdepth q2)%nat) by (change (cdepth q2) with (cdepth (openBlock a1 FencedCodeBlockKind)); apply cdepth_open, S1).
    assert (Sq2 : source q2 = source a) by (change (source q2) with (source (openBlock a1 FencedCodeBlockKind)); rewrite (source_fr _ _ (fr_openBlock a1 FencedCodeBlockKind)); apply src_consumeIndent).
    destruct (spanValid _); [|apply sh_consumeLine].
    rewrite sh_advance, (collectInline_sh (advance q2 is_) InfoStringKind (ie - is_)); [apply sh_consumeLine|rewrite cdepth_advance; exact Dq2|apply CU_advance, Iq2|].
    rewrite (proj1 (source_advance q2 is_)), Sq2. exact Hsrc.
  Qed.

  Lemma sh_HTML : startSh startHTML.
  Proof.
    intros a ((HG & HC & HJ) & Hs & Ha & Hsrc). unfold startHTML. cbv zeta.
    change (indent (sh a)) with (indent a). change (bytesAfterIndent (sh a)) with (bytesAfterIndent a).
    rewrite containerKind_sh, tipKind_sh.
    destruct (_ <=? _); [reflexivity|]. destruct (negb _); [reflexivity|]. destruct (_ <? 0); [reflexivity|].
    destruct (negb _ && _); [reflexivity|].
    assert (I0 : IT a) by (split; [exact HG|split; assumption]).
    rewrite (openBlock_sh a HTMLBlockKind HG (proj1 HJ) (NPI_of a HJ Ha) HC).
    rewrite (updCont_sh_scalar (openBlock a HTMLBlockKind) _ (scalar_bn _)).
    set (q1 := updCont (openBlock a HTMLBlockKind) _).
    assert (Iq1 : IT q1).
    { apply IT_open_init; [exact Hs|exact I0|right; right; right; left; reflexivity|discriminate|discriminate|apply keeps_set_bn|].
      intros pos. repeat split; reflexivity. }
    assert (Kq1 : ckind q1 HTMLBlockKind) by (apply ckind_updCont; [intros b; destruct b; reflexivity|apply ckind_openBlock, Hs]).
    assert (Dq1 : (1 <= cdepth q1)%nat) by (change (cdepth q1) with (cdepth (openBlock a HTMLBlockKind)); apply cdepth_open, Hs).
    assert (Sq1 : source q1 = source a) by (change (source q1) with (source (openBlock a HTMLBlockKind)); apply (source_fr _ _ (fr_openBlock a HTMLBlockKind))).
    destruct (htmlEnd _ _); [|reflexivity].
    change (bytesAfterIndent (sh q1)) with (bytesAfterIndent q1).
    rewrite (collectInline_sh q1 RawHTMLKind _ Dq1 (proj1 (proj2 Iq1)) ltac:(rewrite Sq1; exact Hsrc)).
    set (q3 := collectInline q1 RawHTMLKind (len (bytesAfterIndent q1))).
    assert (I3 : IT q3) by (apply (IT_collect q1 _ _ HTMLBlockKind); [exact Iq1|exact Kq1|reflexivity]).
    rewrite sh_consumeLine. set (q4 := consumeLine q3).
    assert (I4 : IT q4) by (apply (IT_same q3); [apply cstep_consumeLine|exact I3]).
    assert (K4 : containerKind q4 = HTMLBlockKind).
    { apply containerKind_of; [apply I4|eapply ckind_same; [apply same_consumeLine|apply TStarts.ckind_collectInline, Kq1]]. }
    apply (endBlock_sh q4 (proj1 I4) (proj1 (proj2 (proj2 I4))) (NPI_kind q4 _ K4 ltac:(discriminate) ltac:(discriminate) ltac:(discriminate)) (proj1 (proj2 I4))).
  Qed.

  Lemma sh_Setext : startSh startSetext.
  Proof.
    intros a ((HG & HC & (HT & (N1 & N2))) & Hs & Ha & Hsrc). unfold startSetext. rewrite containerKind_sh.
    replace (containerKind a =? ParagraphKind) with false by (symmetry; apply Z.eqb_neq; exact N1). reflexivity.
  Qed.

  Lemma sh_itemTail a2 delim ind mend : st_open a2 -> GI a2 -> CU a2 -> tipOK a2 -> containerKind a2 = ListKind -> bchar (contBlock a2) = delim ->
    itemTail (sh a2) delim ind mend = sh (itemTail a2 delim ind mend).
  Proof.
    intros S2 G2 C2 T2 K2 B2. unfold itemTail. cbv zeta.
    assert (Hcan : canContain (containerKind a2) ListItemKind = true) by (rewrite K2; reflexivity).
    rewrite (openBlock_sh_stay a2 ListItemKind Hcan T2 C2).
    set (q1 := openBlock a2 ListItemKind).
    rewrite (updCont_sh_scalar q1 _ (scalar_bchar delim)).
    set (q := updCont q1 (fun b => set_bchar b delim)).
    assert (Sq : st_open q) by (apply st_open_updCont, L2Kind2.st_open_openBlock, S2).
    assert (Cq : ccP q).
    { apply ccP_updCont; [apply ccP_openBlock; [apply G2|right; exact Hcan]|].
      intros x _ Hx. rewrite cc_set_bchar, bkind_set_bchar. tauto. }
    assert (Jq : JT q).
    { apply JT_upd; [|apply keeps_set_bchar]. apply JT_open; [apply G2|split; [exact T2|split; rewrite K2; discriminate]|exact S2|do 6 right; left; reflexivity|right; exact Hcan]. }
    assert (CUq : CU q) by (apply CU_updCont; eapply CU_fr; [apply fr_openBlock|exact C2]).
    assert (Kq : containerKind q = ListItemKind).
    { apply containerKind_of; [exact Cq|]. apply ckind_updCont; [intros b; apply bkind_set_bchar|]. apply ckind_openBlock, S2. }
    rewrite (openBlock_sh_stay q ListMarkerKind ltac:(rewrite Kq; reflexivity) (proj1 Jq) CUq).
    rewrite sh_advance.
    set (q' := openBlock q ListMarkerKind).
    assert (G3 : GI q') by (apply (GI_openItemMarker a2 delim S2 G2 K2 B2)).
    assert (J3 : JT q') by (apply JT_open; [exact Cq|exact Jq|exact Sq|do 7 right; left; reflexivity|left; discriminate]).
    assert (C3 : CU q') by (eapply CU_fr; [apply fr_openBlock|exact CUq]).
    set (q3 := advance q' mend).
    assert (I3 : IT q3) by (apply (IT_same q'); [apply cstep_advance|split; [exact G3|split; assumption]]).
    assert (K3 : containerKind q3 = ListMarkerKind).
    { apply containerKind_of; [apply I3|]. eapply ckind_same; [apply same_advance|]. apply ckind_openBlock, Sq. }
    rewrite (endBlock_sh q3 (proj1 I3) (proj1 (proj2 (proj2 I3))) (NPI_kind q3 _ K3 ltac:(discriminate) ltac:(discriminate) ltac:(discriminate)) (proj1 (proj2 I3))).
    set (qe := endBlock q3). change (isRestBlank (sh qe)) with (isRestBlank qe). destruct (isRestBlank qe).
    - rewrite (updCont_sh_scalar qe _ (scalar_bindent _)). apply sh_consumeLine.
    - change (indent (sh qe)) with (indent qe). destruct (indent qe <? 1).
      + apply (updCont_sh_scalar qe _ (scalar_bindent _)).
      + destruct (4 <? indent qe); rewrite sh_consumeIndent; apply updCont_sh_scalar, scalar_bindent.
  Qed.

  Lemma sh_ListItem : startSh startListItem.
  Proof.
    intros a ((HG & HC & HJ) & Hs & Ha & Hsrc). unfold startListItem. cbv zeta.
    change (indent (sh a)) with (indent a). change (bytesAfterIndent (sh a)) with (bytesAfterIndent a). rewrite containerKind_sh.
    destruct (_ <=? _); [reflexivity|]. destruct (parseListMarker _) as [[delim n] mend].
    destruct (_ || _); [reflexivity|]. destruct (_ && _); [reflexivity|].
    rewrite sh_consumeIndent. set (a1 := consumeIndent a (indent a)).
    assert (S1 : st_open a1) by (apply st_open_consumeIndent, Hs).
    assert (I1 : IT a1) by (apply (IT_same a); [apply cstep_consumeIndent|split; [exact HG|split; assumption]]).
    assert (K1 : containerKind a1 = containerKind a) by (apply containerKind_same, same_consumeIndent).
    rewrite containerKind_sh, bchar_contBlock_sh.
    set (cdelim := if (containerKind a1 =? ListKind) || (containerKind a1 =? ListItemKind) then bchar (contBlock a1) else 0).
    set (a2 := if negb (containerKind a1 =? ListKind) || negb (cdelim =? delim) then updCont (openBlock a1 ListKind) (fun b => set_bchar b delim) else a1).
    assert (E2 : (if negb (containerKind a1 =? ListKind) || negb (cdelim =? delim)
                  then updCont (openBlock (sh a1) ListKind) (fun b => set_bchar b delim) else sh a1) = sh a2).
    { unfold a2. destruct (negb (containerKind a1 =? ListKind) || negb (cdelim =? delim)); [|reflexivity].
      rewrite (openBlock_sh a1 ListKind (proj1 I1) (proj1 (proj2 (proj2 I1))) (NPI_of a1 (proj2 (proj2 I1)) ltac:(rewrite K1; exact Ha)) (proj1 (proj2 I1))).
      apply updCont_sh_scalar, scalar_bchar. }
    assert (H2 : IT a2 /\ st_open a2 /\ containerKind a2 = ListKind /\ bchar (contBlock a2) = delim).
    { unfold a2. destruct (negb (containerKind a1 =? ListKind) || negb (cdelim =? delim)) eqn:Ec.
      - assert (Hq : IT (updCont (openBlock a1 ListKind) (fun b => set_bchar b delim))).
        { apply IT_open_init; [exact S1|exact I1|do 5 right; left; reflexivity|discriminate|discriminate|apply keeps_set_bchar|].
          intros pos. repeat split; reflexivity. }
        split; [exact Hq|]. split; [apply st_open_updCont, L2Kind2.st_open_openBlock, S1|]. split.
        + apply containerKind_of; [apply Hq|].
          apply ckind_updCont; [intros b; apply bkind_set_bchar|]. apply ckind_openBlock, S1.
        + rewrite contBlock_openBlock_init; [reflexivity|exact S1|apply I1|left; discriminate].
      - apply orb_false_iff in Ec. destruct Ec as [Ec1 Ec2]. apply negb_false_iff in Ec1, Ec2.
        split; [exact I1|]. split; [exact S1|]. split; [apply Z.eqb_eq, Ec1|].
        unfold cdelim in Ec2. rewrite Ec1 in Ec2. cbn [orb] in Ec2. apply Z.eqb_eq, Ec2. }
    destruct H2 as ((G2 & C2 & (T2 & _)) & S2 & K2 & B2).
    pose proof (sh_itemTail a2 delim (indent a) mend S2 G2 C2 T2 K2 B2) as ET. unfold itemTail in ET. cbv zeta in ET.
    rewrite E2. exact ET.
  Qed.

  Lemma blockStarts_sh : Forall startSh blockStarts.
  Proof.
    unfold blockStarts.
    apply Forall_cons; [apply sh_BQ|]. apply Forall_cons; [apply sh_ATX|]. apply Forall_cons; [apply sh_Fenced|].
    apply Forall_cons; [apply sh_HTML|]. apply Forall_cons; [apply sh_Setext|]. apply Forall_cons; [apply sh_Thematic|].
    apply Forall_cons; [apply sh_ListItem|]. apply Forall_cons; [apply sh_Indented|]. apply Forall_nil.
  Qed.

  (* ---- tryStarts, the opening loop ---- *)
  Lemma IT_withState a st0 : IT a -> IT (withState a st0). Proof. apply (I_withState JT JT_same). Qed.
  Lemma blockStarts_it : Forall (startOKi JT) blockStarts.
  Proof. apply (blockStarts_oki JT JT_same JT_upd JT_open JT_end JT_setext). Qed.

  Lemma tryStarts_sh : forall fs a, Forall startSh fs -> Forall firedOr fs -> Forall (startOKi JT) fs ->
    IT a -> acceptsLines (containerKind a) = false -> from_ src m = source a ->
    tryStarts fs (sh a) = (fst (tryStarts fs a), sh (snd (tryStarts fs a))).
  Proof.
    induction fs as [|f r IH]; intros a H1 H2 H3 HI Ha Hsrc; [reflexivity|]. cbn [tryStarts]. cbv zeta.
    inversion H1 as [|? ? Hf1 Hr1]; subst. inversion H2 as [|? ? Hf2 Hr2]; subst. inversion H3 as [|? ? Hf3 Hr3]; subst.
    set (a0 := withState a stOpening).
    assert (E0 : entryOK a0) by (split; [apply IT_withState, HI|split; [left; reflexivity|split; [exact Ha|exact Hsrc]]]).
    change (withState (sh a) stOpening) with (sh a0). rewrite (Hf1 a0 E0). change (state (sh (f a0))) with (state (f a0)).
    destruct (Hf2 a0 (or_introl eq_refl)) as [Ef|Hn].
    - rewrite Ef. change (state a0) with stOpening. cbn [Z.eqb orb]. change (stOpening =? stOpenMatched) with false. change (stOpening =? stLineConsumed) with false. cbn [orb].
      apply IH; try assumption; apply IT_withState, HI.
    - replace ((state (f a0) =? stOpenMatched) || (state (f a0) =? stLineConsumed)) with true; [reflexivity|].
      destruct Hn as [E|E]; rewrite E; reflexivity.
  Qed.

  Lemma guard_na a : IT a -> (containerKind a =? ParagraphKind) || negb (acceptsLines (containerKind a)) = true -> acceptsLines (containerKind a) = false.
  Proof.
    intros (_ & _ & (_ & (N1 & _))) H. apply orb_true_iff in H. destruct H as [H|H]; [apply Z.eqb_eq in H; contradiction|apply negb_true_iff, H].
  Qed.

  Lemma opening_loop_sh : forall fuel a, IT a -> from_ src m = source a ->
    opening_loop fuel (sh a) = (fst (opening_loop fuel a), sh (snd (opening_loop fuel a))).
  Proof.
    induction fuel as [|f IH]; intros a HI Hsrc; [reflexivity|]. cbn [opening_loop]. rewrite containerKind_sh.
    destruct ((containerKind a =? ParagraphKind) || negb (acceptsLines (containerKind a))) eqn:Eg; [|reflexivity].
    rewrite (tryStarts_sh blockStarts a blockStarts_sh blockStarts_fo blockStarts_it HI (guard_na a HI Eg) Hsrc).
    pose proof (I_tryStarts JT JT_same blockStarts a blockStarts_it HI) as I1.
    pose proof (fr_tryStarts blockStarts a blockStarts_fr) as F1.
    destruct (tryStarts blockStarts a) as [[|] a1]; cbn [fst snd] in *; [|reflexivity].
    change (state (sh a1)) with (state a1). destruct (_ =? stLineConsumed); [reflexivity|].
    apply IH; [exact I1|]. rewrite (source_fr _ _ F1). exact Hsrc.
  Qed.

  (* ---- addLineText ---- *)
  Lemma scalar_fblast : scalarOnly fblast.
  Proof.
    split.
    - intros y. unfold fblast. rewrite lastBlock_shiftB. destruct (lastBlock y) as [z|]; cbn [option_map]; [|reflexivity].
      replace [set_blast (shiftB m z) true] with (map (shiftB m) [set_blast z true]) by (destruct z; reflexivity). apply set_lastBlocks_shiftB.
    - intros rt. unfold fblast. rewrite lastBlock_shKids. destruct (lastBlock rt) as [z|]; cbn [option_map]; [|reflexivity].
      replace [set_blast (shiftB m z) true] with (map (shiftB m) [set_blast z true]) by (destruct z; reflexivity). apply set_lastBlocks_shKids.
  Qed.
  Lemma setLB_shKids v : forall d rt, setLastBlankUpTo d v (shKids m rt) = shKids m (setLastBlankUpTo d v rt).
  Proof.
    destruct (scalar_blast v) as [G1 G2].
    induction d as [|d IH]; intros rt; cbn [setLastBlankUpTo]; [cbn [updAt]; apply G2|].
    rewrite (updAt_shKids_S m _ _ G1). apply IH.
  Qed.
  Lemma childCount_shiftB y : childCount (shiftB m y) = childCount y.
  Proof.
    destruct y as [k s0 e bk ik a n ch l lb]. unfold childCount. cbn [shiftB bkids bik].
    destruct bk as [|x r]; cbn [map]; unfold len; [rewrite map_length; reflexivity|cbn [length]; rewrite map_length; reflexivity].
  Qed.

  Lemma goF_sh q : (1 <= cdepth q)%nat -> CU q -> goF (sh q) = sh (goF q).
  Proof.
    intros Hd HC. unfold goF. cbv zeta. rewrite containerKind_sh.
    change (lineStart (sh q)) with (lineStart q + m). change (li (sh q)) with (li q). change (line (sh q)) with (line q).
    set (k := containerKind q). set (ikd := if isCode k then TextKind else if k =? HTMLBlockKind then RawHTMLKind else UnparsedKind).
    assert (Hpos : 0 <= lineStart q + len (line q)) by (destruct HC as (A & B & C); lia).
    replace (mkI ikd (lineStart q + m + li q) (lineStart q + m + len (line q))) with (shiftI m (mkI ikd (lineStart q + li q) (lineStart q + len (line q))))
      by (rewrite shiftI_mkI by exact Hpos; f_equal; lia).
    rewrite (updCont_sh q _ _ Hd (addEntry_comm _)).
    set (q' := updCont q _). change (line (sh q')) with (line q'). change (lineStart (sh q')) with (lineStart q' + m).
    destruct (_ && _); [|reflexivity].
    change (line q') with (line q). change (lineStart q') with (lineStart q).
    replace (mkI SoftLineBreakKind (lineStart q + m + len (line q)) (lineStart q + m + len (line q))) with
            (shiftI m (mkI SoftLineBreakKind (lineStart q + len (line q)) (lineStart q + len (line q)))) by (rewrite shiftI_mkI by exact Hpos; f_equal; lia).
    apply updCont_sh; [exact Hd|apply addEntry_comm].
  Qed.

  (* ---- the flags set by addLineText do not matter for tipOK and the kinds ---- *)
  Lemma getAt_updAt_above v : forall d k r, (d < k)%nat -> getAt k (updAt d (fun b => set_blast b v) r) = getAt k r.
  Proof.
    induction d as [|d IH]; intros k r Hk.
    - destruct k as [|k]; [lia|]. cbn [updAt]. rewrite !getAt_S. destruct r; reflexivity.
    - destruct k as [|k]; [lia|]. cbn [updAt]. destruct (lastBlock r) as [c|] eqn:El; [|reflexivity].
      rewrite !getAt_S, El, (lastBlock_set_last r _ (lastBlock_ne _ _ El)). apply IH. lia.
  Qed.
  Lemma getAt_setLB v k : forall d r, (d <= k)%nat ->
    getAt k (setLastBlankUpTo d v r) = if Nat.eqb d k then option_map (fun b => set_blast b v) (getAt k r) else getAt k r.
  Proof.
    induction d as [|d IH]; intros r Hd; cbn [setLastBlankUpTo].
    - destruct k as [|k]; [cbn; reflexivity|]. cbn [Nat.eqb]. apply getAt_updAt_above. lia.
    - rewrite IH by lia. replace (Nat.eqb d k) with false by (symmetry; apply Nat.eqb_neq; lia).
      destruct (Nat.eqb (S d) k) eqn:E.
      + apply Nat.eqb_eq in E. subst k. apply L2Kind2.getAt_updAt_same.
      + apply Nat.eqb_neq in E. apply getAt_updAt_above. lia.
  Qed.

  Lemma JT_alP2 a : JT a -> JT (alP2 a).
  Proof.
    intros ((Hc & Ht) & (N1 & N2)).
    assert (E : getAt (cdepth a) (root (alP2 a)) = option_map (fun x => set_blast (if isRestBlank a then fblast x else x) (alLlb a)) (getAt (cdepth a) (root a))).
    { unfold alP2. cbn [root withRoot setLP]. assert (Ec : cdepth (alP1 a) = cdepth a) by (unfold alP1; destruct (isRestBlank a); reflexivity).
      rewrite Ec, getAt_setLB by lia. rewrite Nat.eqb_refl. unfold alP1. destruct (isRestBlank a).
      - change (root (updCont a fblast)) with (updAt (cdepth a) fblast (root a)). rewrite L2Kind2.getAt_updAt_same.
        destruct (getAt (cdepth a) (root a)); reflexivity.
      - destruct (getAt (cdepth a) (root a)); reflexivity. }
    assert (Ecd : cdepth (alP2 a) = cdepth a) by (unfold alP2, alP1; destruct (isRestBlank a); reflexivity).
    assert (Ecn : container (alP2 a) = container a) by (unfold alP2, alP1; destruct (isRestBlank a); reflexivity).
    split.
    - split; [rewrite Ecn; exact Hc|]. intros x. rewrite Ecd, E. destruct (getAt (cdepth a) (root a)) as [y|] eqn:Ey; [|discriminate].
      cbn [option_map]. intros Ex. inversion Ex; subst x. specialize (Ht y eq_refl). unfold lastClosedB in *.
      assert (El : forall z, lastBlock (set_blast z (alLlb a)) = lastBlock z) by (intros z; destruct z; reflexivity). rewrite El.
      destruct (isRestBlank a); [|exact Ht]. unfold fblast. destruct (lastBlock y) as [c0|] eqn:Ely; [|rewrite Ely; exact Logic.I].
      rewrite (lastBlock_set_last y _ (lastBlock_ne _ _ Ely)). destruct c0; exact Ht.
    - unfold NP, containerKind, contBlock in *. rewrite Ecd, E. destruct (getAt (cdepth a) (root a)) as [y|]; cbn [option_map]; [|split; assumption].
      assert (Ek : bkind (set_blast (if isRestBlank a then fblast y else y) (alLlb a)) = bkind y).
      { destruct (isRestBlank a); [|destruct y; reflexivity]. unfold fblast. destruct (lastBlock y); destruct y; reflexivity. }
      rewrite Ek. split; assumption.
  Qed.

  Lemma GI_alP2 a : GI a -> GI (alP2 a).
  Proof.
    intros H. unfold alP2. apply GI_setLastBlank. unfold alP1. destruct (isRestBlank a); [|assumption]. apply GI_updCont; [assumption| |].
    - intros b _ Hcb Hgb. unfold fblast. destruct (lastBlock b) as [c|] eqn:El; [|split; [exact Hcb|split; [exact Hgb|apply sameAs_refl]]].
      split; [|split; [|apply sameAs_set_lastBlocks]].
      + eapply cc_set_lastBlocks; [exact Hcb|exact El|]. constructor; [|constructor].
        rewrite cc_set_blast, bkind_set_blast. split; [eapply cc_lastBlock; eassumption|apply compat_refl].
      + eapply gb_set_lastBlocks; [exact Hgb|exact El|]. apply okRepl_one; [|left; apply sameAs_set_blast].
        rewrite gb_set_blast. eapply gb_lastBlock; eassumption.
    - intros b. unfold fblast. destruct (lastBlock b); [apply isOpen_set_lastBlocks|reflexivity].
  Qed.

  Lemma contBlock_sh_S a d : cdepth a = S d -> contBlock (sh a) = match getAt (S d) (root a) with Some x => shiftB m x | None => newBlock 0 0 end.
  Proof.
    intros Ed. unfold contBlock. change (cdepth (sh a)) with (cdepth a). change (root (sh a)) with (shKids m (root a)). rewrite Ed, getAt_shKids_S.
    destruct (getAt (S d) (root a)); reflexivity.
  Qed.
  Lemma accept_depth a : ccP a -> acceptsLines (containerKind a) = true -> (1 <= cdepth a)%nat.
  Proof.
    intros (A & _) Ha. destruct (cdepth a) as [|d] eqn:Ed; [|lia]. exfalso. rewrite (containerKind_root a Ed), A in Ha. discriminate.
  Qed.

  Lemma addLineText_sh a : IT a -> (acceptsLines (containerKind a) = false -> st_open a) -> addLineText (sh a) = sh (addLineText a).
  Proof.
    intros (HG & HC & HJ) Hst. rewrite !addLineText_eq.
    assert (E1 : alP1 (sh a) = sh (alP1 a)).
    { unfold alP1. change (isRestBlank (sh a)) with (isRestBlank a). destruct (isRestBlank a); [|reflexivity]. apply updCont_sh_scalar, scalar_fblast. }
    assert (K1 : containerKind (alP1 a) = containerKind a).
    { unfold alP1. destruct (isRestBlank a); [|reflexivity]. apply L2Kind2.containerKind_updCont.
      intros b. unfold fblast. destruct (lastBlock b); [destruct b; reflexivity|reflexivity]. }
    assert (Ellb : alLlb (sh a) = alLlb a).
    { unfold alLlb. cbv zeta. rewrite E1. change (isRestBlank (sh a)) with (isRestBlank a). change (lineStart (sh (alP1 a))) with (lineStart (alP1 a) + m).
      destruct (cdepth (alP1 a)) as [|d] eqn:Ed.
      - assert (Ekd : bkind (contBlock (sh (alP1 a))) = documentKind /\ bkind (contBlock (alP1 a)) = documentKind).
        { unfold contBlock. change (cdepth (sh (alP1 a))) with (cdepth (alP1 a)). rewrite Ed. cbn [getAt]. change (root (sh (alP1 a))) with (shKids m (root (alP1 a))).
          rewrite bkind_shKids. assert (X : bkind (root (alP1 a)) = documentKind).
          { unfold alP1. destruct (isRestBlank a); [|apply HG]. change (root (updCont a fblast)) with (updAt (cdepth a) fblast (root a)).
            rewrite bkind_updAt; [apply HG|]. intros _. unfold fblast. destruct (lastBlock (root a)); [destruct (root a); reflexivity|reflexivity]. }
          split; exact X. }
        destruct Ekd as [-> ->]. reflexivity.
      - rewrite (contBlock_sh_S (alP1 a) d Ed). unfold contBlock. rewrite Ed.
        destruct (getAt (S d) (root (alP1 a))) as [x|]; [|reflexivity].
        rewrite bkind_shiftB, childCount_shiftB, bstart_shiftB'.
        replace (lineStart (alP1 a) + m <=? bstart x + m) with (lineStart (alP1 a) <=? bstart x); [reflexivity|].
        destruct (Z.leb_spec (lineStart (alP1 a)) (bstart x)); destruct (Z.leb_spec (lineStart (alP1 a) + m) (bstart x + m)); lia || reflexivity. }
    assert (E2 : alP2 (sh a) = sh (alP2 a)).
    { unfold alP2. rewrite Ellb, E1. change (cdepth (sh (alP1 a))) with (cdepth (alP1 a)). change (root (sh (alP1 a))) with (shKids m (root (alP1 a))).
      rewrite setLB_shKids. reflexivity. }
    assert (J2 : JT (alP2 a)) by (apply JT_alP2, HJ).
    assert (G2 : GI (alP2 a)) by (apply GI_alP2, HG).
    assert (C2 : CU (alP2 a)) by (unfold alP2, alP1; destruct (isRestBlank a); exact HC).
    assert (K2 : containerKind (alP2 a) = containerKind a).
    { destruct HJ as (HT & _). destruct J2 as (HT2 & _). unfold containerKind, contBlock.
      assert (Ecd : cdepth (alP2 a) = cdepth a) by (unfold alP2, alP1; destruct (isRestBlank a); reflexivity). rewrite Ecd.
      unfold alP2. cbn [root withRoot setLP]. assert (Ec : cdepth (alP1 a) = cdepth a) by (unfold alP1; destruct (isRestBlank a); reflexivity).
      rewrite Ec, getAt_setLB by lia. rewrite Nat.eqb_refl. unfold alP1. destruct (isRestBlank a).
      - change (root (updCont a fblast)) with (updAt (cdepth a) fblast (root a)). rewrite L2Kind2.getAt_updAt_same.
        destruct (getAt (cdepth a) (root a)) as [y|]; cbn [option_map]; [|reflexivity]. unfold fblast. destruct (lastBlock y); destruct y; reflexivity.
      - destruct (getAt (cdepth a) (root a)) as [y|]; cbn [option_map]; [destruct y; reflexivity|reflexivity]. }
    rewrite E1, containerKind_sh, K1.
    destruct (acceptsLines (containerKind a)) eqn:Ea.
    - rewrite E2. change (tabCond (sh (alP2 a))) with (tabCond (alP2 a)).
      assert (D2 : (1 <= cdepth (alP2 a))%nat) by (apply accept_depth; [apply G2|rewrite K2; exact Ea]).
      destruct (tabCond (alP2 a)); [|apply goF_sh; assumption].
      assert (Ea' : addInd (sh (alP2 a)) = sh (addInd (alP2 a))).
      { unfold addInd. change (lineStart (sh (alP2 a))) with (lineStart (alP2 a) + m). change (li (sh (alP2 a))) with (li (alP2 a)).
        change (tabRem (sh (alP2 a))) with (tabRem (alP2 a)).
        replace (Inl IndentKind (lineStart (alP2 a) + m + li (alP2 a)) (lineStart (alP2 a) + m + li (alP2 a) + 1) (tabRem (alP2 a)) [] []) with
                (shiftI m (Inl IndentKind (lineStart (alP2 a) + li (alP2 a)) (lineStart (alP2 a) + li (alP2 a) + 1) (tabRem (alP2 a)) [] [])).
        - rewrite (updCont_sh (alP2 a) _ _ D2 (addEntry_comm _)). apply sh_consumeIndent.
        - cbn [shiftI map]. replace (0 <=? lineStart (alP2 a) + li (alP2 a) + 1) with true by (symmetry; apply Z.leb_le; destruct C2; lia). f_equal; lia. }
      rewrite Ea'. apply goF_sh.
      + unfold addInd. set (q := updCont (alP2 a) _). destruct (same_consumeIndent q (tabRem (alP2 a))) as [_ C]. unfold cdepth. rewrite C. exact D2.
      + unfold addInd. apply CU_consumeIndent, CU_updCont, C2.
    - change (isRestBlank (sh a)) with (isRestBlank a). destruct (negb (isRestBlank a)); [|exact E2].
      rewrite E2.
      rewrite (openBlock_sh (alP2 a) ParagraphKind G2 (proj1 J2) (NPI_of (alP2 a) J2 ltac:(rewrite K2; exact Ea)) C2).
      set (q := openBlock (alP2 a) ParagraphKind). change (indent (sh q)) with (indent q). rewrite sh_consumeIndent.
      assert (So : st_open (alP2 a)) by (unfold alP2, alP1; destruct (isRestBlank a); exact (Hst eq_refl)).
      apply goF_sh.
      + destruct (same_consumeIndent q (indent q)) as [_ C]. unfold cdepth. rewrite C. apply (cdepth_open (alP2 a) ParagraphKind So).
      + apply CU_consumeIndent. eapply CU_fr; [apply fr_openBlock|exact C2].
  Qed.
End ShiftLP.

(* ---- the shift theorem for one line ---- *)
Lemma IT_reset0 src : from_ src 0 <> [] -> IT (resetLP 0 [] 0 src).
Proof.
  intros Hn. split; [|split; [|split]].
  - split; [split; [reflexivity|split; [reflexivity|eexists; reflexivity]]|split; reflexivity].
  - unfold CU. cbn. unfold len. lia.
  - split; [eexists; reflexivity|]. intros x Hx. cbn in Hx. inversion Hx; subst. exact Logic.I.
  - split; discriminate.
Qed.

Theorem shift_line src T : 0 <= T -> from_ src T <> [] ->
  processLine 0 [] T src =
  (map (shiftB T) (fst (fst (processLine 0 [] 0 (from_ src T)))), snd (fst (processLine 0 [] 0 (from_ src T))), snd (processLine 0 [] 0 (from_ src T))).
Proof.
  intros HT Hln. set (src0 := from_ src T).
  assert (Hl0 : from_ src0 0 = src0) by reflexivity. assert (Hln0 : src0 <> []) by exact Hln.
  unfold processLine. cbv zeta. rewrite (descend_closed 0 [] T src (Forall_nil _)), (descend_closed 0 [] 0 src0 (Forall_nil _)).
  set (a0 := resetLP 0 [] 0 src0).
  assert (EK : resetLP 0 [] T src = shLP T src a0).
  { unfold shLP, a0, resetLP, reEnv. cbn [root container lineStart line li col tabRem state panicked source]. rewrite Hl0. reflexivity. }
  rewrite EK. change (state (shLP T src a0)) with (state a0). change (state a0 =? stDescendTerminated) with false. cbn [negb].
  assert (I0 : IT a0) by (apply IT_reset0; rewrite Hl0; exact Hln).
  unfold openNewBlocks. change (line (shLP T src a0)) with (line a0). change (line a0) with (from_ src0 0). rewrite Hl0.
  rewrite (len_ne0 _ Hln0).
  rewrite (opening_loop_sh T src HT _ a0 I0 eq_refl).
  pose proof (I_opening_loop JT JT_same JT_upd JT_open JT_end JT_setext (S (length src0)) a0 I0) as I2.
  pose proof (L2Kind2.openNewBlocks_good a0 true) as G2. unfold openNewBlocks in G2. change (line a0) with (from_ src0 0) in G2. rewrite Hl0, (len_ne0 _ Hln0) in G2.
  destruct (opening_loop (S (length src0)) a0) as [ht a2]. cbn [fst snd] in *.
  destruct ht.
  - rewrite (addLineText_sh T src HT a2 I2 (G2 eq_refl)). set (a3 := addLineText a2).
    change (root (shLP T src a3)) with (shKids T (root a3)). rewrite bkids_shKids. reflexivity.
  - change (root (shLP T src a2)) with (shKids T (root a2)). rewrite bkids_shKids. reflexivity.
Qed.
Print Assumptions shift_line.
