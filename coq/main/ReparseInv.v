From Coq Require Import List ZArith Lia Bool.
Import ListNotations.
Require Import Base Tree Rdr Link Collect Html Recog LP Rules Starts Driver Leaf3e RdrBound Rec16 Rec17 Rec18
  L2Kind L2Kind2 L2CC L2Bnd L2BndS NoPanicAll TPanicRange TRdr TDefs TOcp TInv TDesc TStarts TLine TLine2 TShift Total
  GramDefs GramLP4 ReparseLocal ReparseEof.
Open Scope Z_scope.

(* T50 continuation: the invariant of the line loop, carried to the state (T, stp, chp) just before the line that closed the root. *)
Definition LInv (B : bytes) (st : Z) (ch : list block) (ls : Z) : Prop :=
  0 <= ls <= len B /\ (exists ns, bndL ls ns ch = true /\ (ns = false -> ls = len B)) /\ ccF ch = true /\ gbL ch = true /\ GoodL 0 ch /\
  (ch = [] \/ (0 < ls /\ exists c, ch = [c])) /\ (st = stDescendTerminated -> HM ch) /\
  (ch = [] -> isBlankLine (from_ (upto B (lineEnd B ls)) ls) = false /\ (st = stOpening \/ st = stOpenMatched)) /\
  (ch = [] -> ls = 0) /\ (forall c, ch = [c] -> isOpen c = true).

Lemma lastLine_inv : forall f st ch ls B T stp chp, LInv B st ch ls -> lastLine f st ch ls B = Some (T, stp, chp) -> LInv B stp chp T.
Proof.
  induction f as [|f IH]; intros st ch ls B T stp chp HI E; [discriminate|].
  cbn [lastLine] in E. cbv zeta in E.
  destruct HI as (Hls & (ns & Hc & Hn) & Hcc & Hgb & HG & HK & Hst & Hemp & Hz & Hopn).
  set (bi := lineEnd B ls) in *.
  destruct (lineEnd_spec B ls Hls) as [A Bq]. fold bi in A, Bq.
  set (ln := from_ (upto B bi) ls).
  destruct (line_of B ls bi ltac:(lia) ltac:(lia)) as [Ll _]. fold ln in Ll.
  set (ns' := if ns then hasByteSuffixEOL ln else false).
  assert (Hc' : bndL bi ns' ch = true).
  { unfold ns'. destruct ns.
    - pose proof (bndL_mono ls bi ch ltac:(lia) Hc) as Hm. destruct (hasByteSuffixEOL ln); [exact Hm|apply bndL_weaken, Hm].
    - rewrite (Hn eq_refl) in *. replace bi with (len B) by lia. exact Hc. }
  assert (Hn' : ns' = false -> bi = len B).
  { unfold ns'. destruct ns; [|intros _; rewrite (Hn eq_refl) in *; lia].
    intros Ee. destruct (Z.lt_ge_cases bi (len B)) as [Lt|Ge]; [|lia].
    exfalso. pose proof (line_hasEOL B ls Hls Lt) as Hh. fold bi in Hh. fold ln in Hh. congruence. }
  pose proof (bnd_processLine bi ns' st ch ls (upto B bi) ltac:(lia) ltac:(lia) ltac:(fold ln; lia)
                ltac:(rewrite len_upto by lia; lia) ltac:(unfold ns'; fold ln; destruct ns; [tauto|discriminate]) Hc') as H1.
  pose proof (cc_processLine st ch ls (upto B bi) Hcc) as H2.
  pose proof (gb_processLine st ch ls (upto B bi) Hcc Hgb) as H2g.
  pose proof (processLine_good st ch ls (upto B bi) ltac:(lia) HG (UB_of_bnd ls ns ch ltac:(lia) Hc) Hcc HK Hst Hemp) as H4.
  cbv zeta in H4.
  destruct (processLine st ch ls (upto B bi)) as [[ch' st'] pn]. cbn [fst snd] in H1, H2, H2g, H4.
  destruct H4 as ((G1 & G1') & G2 & G3 & G4).
  destruct (Z.eqb_spec pn 0) as [Ep|Ep]; cbn [negb] in E; [|discriminate].
  destruct ch' as [|c rest]; [contradiction|].
  destruct (isOpen c) eqn:Eo.
  - pose proof (GoodL_first_open c rest G1 Eo) as Er. subst rest.
    assert (El : ls <> len B).
    { intros E0. assert (Hl0 : ln = []) by (apply len0_nil; rewrite Ll; lia).
      exact (lastClosed_single_open c (G3 Hl0) Eo). }
    assert (Lt : ls < bi) by (apply lineEnd_progress; lia).
    apply (IH st' [c] bi B T stp chp); [|exact E].
    split; [lia|]. split; [exists ns'; split; assumption|]. split; [exact H2|]. split; [exact H2g|]. split; [exact G1|].
    split; [right; split; [lia|exists c; reflexivity]|]. split.
    + intros E0. destruct (G4 E0) as [Hl|Hh]; [exfalso; exact (lastClosed_single_open c Hl Eo)|exact Hh].
    + split; [discriminate|]. split; [discriminate|]. intros c0 E0. inversion E0; subst. exact Eo.
  - inversion E; subst. split; [exact Hls|]. split; [exists ns; split; assumption|]. split; [exact Hcc|]. split; [exact Hgb|].
    split; [exact HG|]. split; [exact HK|]. split; [exact Hst|]. split; [exact Hemp|]. split; [exact Hz|exact Hopn].
Qed.

Lemma LInv_init B : 0 < lineEnd B 0 -> isBlankLine (upto B (lineEnd B 0)) = false -> LInv B 0 [] 0.
Proof.
  intros H1 H2. pose proof (len_nonneg B). split; [lia|]. split; [exists true; split; [reflexivity|discriminate]|].
  split; [reflexivity|]. split; [reflexivity|]. split; [exact Logic.I|]. split; [left; reflexivity|]. split; [discriminate|].
  split; [intros _; split; [|left; reflexivity]; unfold from_; cbn [Z.to_nat skipn]; exact H2|]. split; [reflexivity|discriminate].
Qed.

(* ---- the "lines accounted" invariant along the same loop (on a buffer without NUL) ---- *)
Require Import LADef LA1 LA2 LAOcp LA11 LA12 LA13 SliceBase.

Lemma bnd0_noNul B e : noNul B -> 0 <= e <= len B -> bnd0 B e.
Proof.
  intros HN He. destruct (Z.eq_dec e 0) as [E|N]; [left; exact E|]. right. right.
  unfold noNul in HN. rewrite Forall_forall in HN. apply HN. unfold at_. destruct (Z.ltb_spec (e - 1) 0); [lia|].
  apply nth_In. unfold len in He. lia.
Qed.

Definition LaInv (B : bytes) (ch : list block) (ls : Z) : Prop := la (upto B (lineEnd B ls)) ls (docRoot ch).

Lemma lastLine_la : forall f st ch ls B T stp chp, noNul B -> LInv B st ch ls -> LaInv B ch ls ->
  lastLine f st ch ls B = Some (T, stp, chp) -> LaInv B chp T.
Proof.
  induction f as [|f IH]; intros st ch ls B T stp chp HN HI Hla E; [discriminate|].
  pose proof HI as HI0.
  cbn [lastLine] in E. cbv zeta in E.
  destruct HI as (Hls & (ns & Hc & Hn) & Hcc & Hgb & HG & HK & Hst & Hemp & Hz & Hopn).
  set (bi := lineEnd B ls) in *.
  destruct (lineEnd_spec B ls Hls) as [A Bq]. fold bi in A, Bq.
  set (src := upto B bi) in *.
  assert (Hlen : len src = bi) by (apply len_upto; lia).
  assert (Hlbi : lbd B bi).
  { destruct (Z.eq_dec bi (len B)) as [E0|N]; [right; left; exact E0|]. destruct (Bq ltac:(lia)) as [B1 B2]. right; right. exact B2. }
  assert (Hst' : st = stDescendTerminated -> exists c1, getAt 1 (docRoot ch) = Some c1 /\ bend c1 < 0 /\ hasMatch (bkind c1) = true).
  { intros E0. destruct (Hst E0) as (pre & c & Ec & Ho & Hh). exists c. split; [|split; [unfold isOpen in Ho; apply Z.ltb_lt, Ho|exact Hh]].
    cbn [getAt]. unfold lastBlock, docRoot. cbn [bkids]. rewrite Ec, rev_app_distr. reflexivity. }
  pose proof (la_processLine st ch ls src ltac:(lia) (OcpLoopSpec_all src)
                ltac:(unfold src; apply bnd0_upto; [lia|lia|apply bnd0_noNul; [exact HN|lia]|intros El; lia])
                ltac:(unfold src, bi; apply eolEnd_line, Hls) Hcc Hla Hst') as HP.
  cbv zeta in HP.
  assert (Hll : ls + len (from_ src ls) = bi) by (rewrite len_from by lia; lia). rewrite Hll in HP.
  (* the same step as in lastLine_inv, to know the next state *)
  destruct (processLine st ch ls src) as [[ch' st'] pn] eqn:Epl. cbn [fst snd] in HP. destruct HP as [HP1 _].
  destruct (negb (pn =? 0)); [discriminate|].
  destruct ch' as [|c rest].
  - (* impossible, but the recursion covers it *)
    assert (Hls' : 0 <= bi <= len B) by lia. destruct (lineEnd_spec B bi Hls') as [A' _].
    exfalso.
    pose proof (processLine_good st ch ls src ltac:(lia) HG (UB_of_bnd ls ns ch ltac:(lia) Hc) Hcc HK Hst Hemp) as H4. cbv zeta in H4.
    rewrite Epl in H4. cbn [fst snd] in H4. destruct H4 as (_ & G2 & _). apply G2. reflexivity.
  - destruct (isOpen c) eqn:Eo; [|inversion E; subst; exact Hla].
    assert (Hls' : 0 <= bi <= len B) by lia. destruct (lineEnd_spec B bi Hls') as [A' _].
    (* the invariant LInv of the next state, from lastLine_inv's step: re-run one step of lastLine *)
    assert (HI1 : LInv B st' (c :: rest) bi).
    { destruct f as [|f']; [discriminate|].
      (* one step of lastLine from (st, ch, ls) with fuel 2 reaches the same recursive call; use lastLine_inv on a one-step run *)
      pose proof (lastLine_inv 1 st' (c :: rest) bi B) as _.
      (* direct: repeat the argument of lastLine_inv *)
      set (ln := from_ src ls).
      destruct (line_of B ls bi ltac:(lia) ltac:(lia)) as [Ll _]. fold src in Ll. fold ln in Ll.
      set (ns' := if ns then hasByteSuffixEOL ln else false).
      assert (Hc' : bndL bi ns' ch = true).
      { unfold ns'. destruct ns.
        - pose proof (bndL_mono ls bi ch ltac:(lia) Hc) as Hm. destruct (hasByteSuffixEOL ln); [exact Hm|apply bndL_weaken, Hm].
        - rewrite (Hn eq_refl) in *. replace bi with (len B) by lia. exact Hc. }
      assert (Hn' : ns' = false -> bi = len B).
      { unfold ns'. destruct ns; [|intros _; rewrite (Hn eq_refl) in *; lia].
        intros Ee. destruct (Z.lt_ge_cases bi (len B)) as [Lt|Ge]; [|lia].
        exfalso. pose proof (line_hasEOL B ls Hls Lt) as Hh. fold bi in Hh. fold src in Hh. fold ln in Hh. congruence. }
      pose proof (bnd_processLine bi ns' st ch ls src ltac:(lia) ltac:(lia) ltac:(fold ln; lia)
                    ltac:(lia) ltac:(unfold ns'; fold ln; destruct ns; [tauto|discriminate]) Hc') as H1.
      pose proof (cc_processLine st ch ls src Hcc) as H2.
      pose proof (gb_processLine st ch ls src Hcc Hgb) as H2g.
      pose proof (processLine_good st ch ls src ltac:(lia) HG (UB_of_bnd ls ns ch ltac:(lia) Hc) Hcc HK Hst Hemp) as H4.
      cbv zeta in H4. rewrite Epl in H1, H2, H2g, H4. cbn [fst snd] in H1, H2, H2g, H4.
      destruct H4 as ((G1 & G1') & G2 & G3 & G4).
      pose proof (GoodL_first_open c rest G1 Eo) as Er. subst rest.
      assert (El : ls <> len B).
      { intros E0. assert (Hl0 : ln = []) by (apply len0_nil; rewrite Ll; lia). exact (lastClosed_single_open c (G3 Hl0) Eo). }
      assert (Lt : ls < bi) by (apply lineEnd_progress; lia).
      split; [lia|]. split; [exists ns'; split; assumption|]. split; [exact H2|]. split; [exact H2g|]. split; [exact G1|].
      split; [right; split; [lia|exists c; reflexivity]|]. split.
      + intros E0. destruct (G4 E0) as [Hl|Hh]; [exfalso; exact (lastClosed_single_open c Hl Eo)|exact Hh].
      + split; [discriminate|]. split; [discriminate|]. intros c0 E0. inversion E0; subst. exact Eo. }
    apply (IH st' (c :: rest) bi B T stp chp HN HI1); [|exact E].
    unfold LaInv. apply (la_agree src); [apply agree_upto; lia| | |exact HP1].
    + intros e0 He0 Hbe0. unfold src in Hbe0. apply (bnd0_grow B bi); try lia; [apply bnd0_noNul; [exact HN|lia]|exact Hbe0].
    + apply growOK_upto; [lia|lia|exact Hlbi|]. intros El. lia.
Qed.

Lemma LaInv_init B : LaInv B [] 0.
Proof.
  unfold LaInv. apply docRoot_parts. pose proof (len_nonneg B). split; [lia|]. split; [cbn [tchain]; split; [lia|apply NT_empty; lia]|exact Logic.I].
Qed.
