(* QInlStep1.v -- T64 (asm): the context of one tokeniser step, the position relation, and the simple branches of Inl3e.istep
   (delimiter run, '[', '![', hard break by spaces, '&', line endings, backslash, autolink). *)
From Coq Require Import List ZArith Lia Bool.
Import ListNotations.
Require Import Base Tables Utf8 Tree Rdr Link Collect Html Recog Inl3a Inl3b Inl3c Inl3d Driver Inl3e.
Require Import ShapesBase ShapesR IFBase GI6 IS0 IS3 IS6a IS6b IS6 IFTokDef IFTokAux IFTokUm IFFrame IFTokLoop IFTk1 IFTk2 IFTk4.
Require Import SpanSmall.
Require Import QCutsDef QCuts QIRdrBase QInlDefs QInlBytes QInlBytesEmph QInlHtml QInlTree1 QInlTree2 QInlTree3 QInlTree QInlStep0.
Open Scope Z_scope.

Section Step1.
  Variables (sD sQ : bytes) (sg : Z -> Z) (U : list inline).
  Hypothesis SG : SGood sD sQ sg.
  Hypothesis GP : GapSp sD sQ sg.
  Hypothesis HG : Forall (gsp sD sg U) U.
  Hypothesis HOK : spOK sD U = true.
  Hypothesis HKl : forall u, In u U -> ikids u = [].
  Hypothesis HLn : IS6b.linesOK sD U = true.
  Hypothesis HNG : NoGtBehindLast sD U.
  Set Default Proof Using "All".
  Local Notation Hy l := (l sD sQ sg U SG GP HG HOK HKl HLn HNG) (only parsing).
  Notation tr := (QInlBytes.tr sg).
  Notation IR := (QInlDefs.IR sD sQ sg).
  Notation SL := (QInlTree1.SL sD).
  Notation eE := (QInlDefs.eE sg).
  Notation qPs := (QInlDefs.qPs sD sg).
  Notation curU := QInlTree3.curU.

  (* the context of a step: related states, the plain state reads U and its cursor is inside U, u is the current entry *)
  Definition Ctx (st st' : ist) (u : inline) : Prop :=
    IR st st' /\ SL (rk st) /\ unp st = U /\ 0 <= upos st < len U /\ u = curU st.

  Lemma Ctx_facts st st' u : Ctx st st' u ->
    In u U /\ gsp sD sg U u /\ isrc st = sD /\ isrc st' = sQ /\ spanEnd st = iend u /\ spanEnd st' = tr u (iend u) /\
    isLastSpan st' = isLastSpan st /\ stk st' = stk st /\ upos st' = upos st /\ 0 <= istart u /\ istart u < iend u /\ iend u <= len sD.
  Proof.
    intros (HI & HS & Eu & Hu & ->). assert (Hin : In (curU st) U).
    { unfold QInlTree3.curU. rewrite Eu. apply nth_In_Z. exact Hu. }
    pose proof ((Hy U_gsp) _ Hin) as Gu. pose proof Gu as (A & B & C & _).
    destruct (spanEnd_q sD sQ sg st st' HI ltac:(rewrite Eu; exact Hu)) as [E1 E2].
    split; [exact Hin|]. split; [exact Gu|]. split; [apply HI|]. split; [apply HI|]. split; [exact E1|]. split; [rewrite E2; unfold QInlBytes.tr; lia|].
    split; [apply (isLastSpan_q sD sQ sg), HI|]. split; [apply HI|]. split; [apply HI|]. split; [exact A|]. split; [exact B|exact C].
  Qed.
  (* a state with the same entries and the same cursor has the same context *)
  Lemma Ctx_same st st' u st1 st1' : Ctx st st' u -> IR st1 st1' -> SL (rk st1) -> unp st1 = unp st -> upos st1 = upos st -> Ctx st1 st1' u.
  Proof.
    intros (HI & HS & Eu & Hu & E) HI1 HS1 E1 E2. split; [exact HI1|]. split; [exact HS1|]. split; [congruence|]. split; [lia|].
    unfold QInlTree3.curU in *. rewrite E1, E2. exact E.
  Qed.

  (* positions after a step: inside the (new) current entry on the plain side and its image on the quoted side; when the cursor
     has left the entry list only the final addText matters, and it adds nothing on either side *)
  Definition PosR (st st' : ist) (pos pl pos' pl' : Z) : Prop :=
    (upos st < len U -> let u := curU st in istart u <= pl /\ pl <= pos /\ pos <= iend u /\ pos' = tr u pos /\ pl' = tr u pl) /\
    (len U <= upos st -> spanEnd st <= pl /\ spanEnd st' <= pl').
  Definition T3 (x y : ist * Z * Z) : Prop :=
    IR (fst (fst x)) (fst (fst y)) /\ SL (rk (fst (fst x))) /\
    PosR (fst (fst x)) (fst (fst y)) (snd (fst x)) (snd x) (snd (fst y)) (snd y).

  Lemma T3_same st st' u st1 st1' p q : Ctx st st' u -> IR st1 st1' -> SL (rk st1) -> unp st1 = unp st -> upos st1 = upos st ->
    istart u <= q -> q <= p -> p <= iend u -> T3 (st1, p, q) (st1', tr u p, tr u q).
  Proof.
    intros HC HI1 HS1 E1 E2 Hq Hqp Hp. pose proof HC as (_ & _ & Eu & Hu & E). split; [exact HI1|]. split; [exact HS1|]. cbn [fst snd]. split.
    - intros _. cbv zeta. unfold QInlTree3.curU in *. rewrite E1, E2, <- E. repeat split; assumption.
    - intros L. lia.
  Qed.
  (* the frame of a state transformer *)
  Definition frx (st st1 : ist) : Prop := unp st1 = unp st /\ upos st1 = upos st.
  Lemma frx_addText st a b : frx st (addText st a b). Proof. split; [apply unp_addText|apply upos_addText]. Qed.
  Lemma frx_addNode st k a b ks : frx st (fst (addNode st k a b ks)). Proof. split; [apply unp_addNode|apply upos_addNode]. Qed.
  Lemma frx_trans a b c : frx a b -> frx b c -> frx a c. Proof. intros [A B] [C D]. split; congruence. Qed.
  Lemma frx_refl a : frx a a. Proof. split; reflexivity. Qed.

  (* the text in front of a construct *)
  Lemma Ctx_addText st st' u pl pos : Ctx st st' u -> istart u <= pl -> pl <= pos -> pos <= iend u ->
    Ctx (addText st pl pos) (addText st' (tr u pl) (tr u pos)) u.
  Proof.
    intros HC H1 H2 H3. pose proof HC as (HI & HS & _). destruct (Ctx_facts st st' u HC) as (_ & Gu & _).
    destruct ((Hy addText_tr) st st' u pl pos HI HS Gu H1 H2 H3) as [A B].
    apply (Ctx_same st st' u); [exact HC|exact A|exact B|apply unp_addText|apply upos_addText].
  Qed.

  Lemma spanLen_tr u a b : gsp sD sg U u -> istart u <= a -> a <= b -> spanLen (tr u a) (tr u b) = spanLen a b.
  Proof.
    intros G Ha Hab. pose proof G as (A & _). pose proof (tr_nn sD sQ sg U SG u G a Ha). pose proof (tr_diff sg u a b).
    rewrite !spanLen_in by lia. lia.
  Qed.

  (* ---------------------------------------------------------------- parseDelimiterRun *)
  Lemma q_parseDelimiterRun st st' u start : Ctx st st' u -> istart u <= start < iend u -> at_ sD start <> 10 ->
    IR (fst (parseDelimiterRun st start)) (fst (parseDelimiterRun st' (tr u start))) /\
    snd (parseDelimiterRun st' (tr u start)) = tr u (snd (parseDelimiterRun st start)) /\
    SL (rk (fst (parseDelimiterRun st start))) /\ frx st (fst (parseDelimiterRun st start)) /\
    start < snd (parseDelimiterRun st start) <= iend u.
  Proof.
    intros HC Hs N. pose proof HC as (HI & HS & _). destruct (Ctx_facts st st' u HC) as (Hin & Gu & Es & Es' & Ee & Ee' & _).
    unfold parseDelimiterRun. cbv zeta. rewrite Es, Es', Ee, Ee'.
    destruct (emphasisFlags_run sD sQ sg SG GP U u Gu start (iend u) ltac:(lia) ltac:(lia) ltac:(lia) N) as (R1 & R2 & R3). cbv zeta in R1, R2, R3.
    set (e := runEnd (length sD) sD (start + 1) (iend u) (at_ sD start)) in *.
    rewrite R2, R1. rewrite (at_tr sD sQ sg U SG u Gu start) by lia.
    destruct ((Hy addNode_tr) st st' u TextKind start e [] HI HS Gu ltac:(lia) ltac:(lia) ltac:(lia) ltac:(constructor)) as (A1 & A2 & A3).
    pose proof (frx_addNode st TextKind start e []) as F.
    change (qPs []) with (@nil pn) in A1, A2.
    destruct (addNode st TextKind start e []) as [s1 id]. destruct (addNode st' TextKind (tr u start) (tr u e) []) as [s1' id']. cbn [fst snd] in *. subst id'.
    rewrite (IR_stk sD sQ sg s1 s1' A1), (spanLen_tr u start e Gu) by lia.
    split; [apply (IR_setStk sD sQ sg), A1|]. split; [reflexivity|]. split; [exact A3|]. split; [exact F|lia].
  Qed.

  (* the image of an end inside the entry *)
  Lemma eE_tr u a b : gsp sD sg U u -> istart u <= a -> a < iend u -> a <= b -> b <= iend u -> eE a b = tr u b.
  Proof.
    intros G Ha Hai Hab Hb. destruct (Z.eq_dec a b) as [<-|N].
    - rewrite (eE_ge sg a a) by lia. symmetry. apply ((Hy tr_in) u a G). lia.
    - symmetry. apply ((Hy tr_eE) u a b G); lia.
  Qed.

  (* ---------------------------------------------------------------- branch: '*' / '_' *)
  Lemma q_branch_delim st st' u pos pl : Ctx st st' u -> istart u <= pl -> pl <= pos -> pos < iend u -> at_ sD pos <> 10 ->
    T3 (let st := addText st pl pos in let '(st, e) := parseDelimiterRun st pos in (st, e, e))
       (let st := addText st' (tr u pl) (tr u pos) in let '(st, e) := parseDelimiterRun st (tr u pos) in (st, e, e)).
  Proof.
    intros HC H1 H2 H3 N. cbv zeta. pose proof (Ctx_addText st st' u pl pos HC H1 H2 ltac:(lia)) as HC1.
    destruct (q_parseDelimiterRun _ _ u pos HC1 ltac:(lia) N) as (A & B & C & (D1 & D2) & E).
    destruct (parseDelimiterRun (addText st pl pos) pos) as [s1 e]. destruct (parseDelimiterRun (addText st' (tr u pl) (tr u pos)) (tr u pos)) as [s1' e'].
    cbn [fst snd] in *. subst e'. apply (T3_same _ _ u s1 s1' e e HC1 A C D1 D2); lia.
  Qed.

  (* ---------------------------------------------------------------- branch: '[' and '![' (w = 1 or 2) *)
  Lemma q_branch_open st st' u pos pl w typ : Ctx st st' u -> istart u <= pl -> pl <= pos -> 0 <= w -> pos + w <= iend u ->
    T3 (let st := addText st pl pos in
        let '(st, id) := addNode st TextKind pos (pos + w) [] in
        let st := setStk st (stk st ++ [{| d_typ := typ; d_flags := fActive; d_n := 0; d_node := id |}]) in
        (st, pos + w, pos + w))
       (let st := addText st' (tr u pl) (tr u pos) in
        let '(st, id) := addNode st TextKind (tr u pos) (tr u pos + w) [] in
        let st := setStk st (stk st ++ [{| d_typ := typ; d_flags := fActive; d_n := 0; d_node := id |}]) in
        (st, tr u pos + w, tr u pos + w)).
  Proof.
    intros HC H1 H2 Hw H3. cbv zeta. pose proof (Ctx_addText st st' u pl pos HC H1 H2 ltac:(lia)) as HC1.
    pose proof HC1 as (HI1 & HS1 & _). destruct (Ctx_facts _ _ u HC1) as (_ & Gu & _).
    rewrite <- (tr_add sg u pos w).
    destruct ((Hy addNode_tr) _ _ u TextKind pos (pos + w) [] HI1 HS1 Gu ltac:(lia) ltac:(lia) H3 ltac:(constructor)) as (A1 & A2 & A3).
    change (qPs []) with (@nil pn) in A1, A2.
    pose proof (frx_addNode (addText st pl pos) TextKind pos (pos + w) []) as [F1 F2].
    destruct (addNode (addText st pl pos) TextKind pos (pos + w) []) as [s1 id].
    destruct (addNode (addText st' (tr u pl) (tr u pos)) TextKind (tr u pos) (tr u (pos + w)) []) as [s1' id']. cbn [fst snd] in *. subst id'.
    rewrite (IR_stk sD sQ sg s1 s1' A1).
    apply (T3_same _ _ u _ _ (pos + w) (pos + w) HC1); [apply (IR_setStk sD sQ sg), A1|exact A3|exact F1|exact F2|lia|lia|lia].
  Qed.

  (* ---------------------------------------------------------------- branches that only move the position *)
  Lemma q_branch_skip st st' u pos pl k : Ctx st st' u -> istart u <= pl -> pl <= pos -> 0 <= k -> pos + k <= iend u ->
    T3 (st, pos + k, pl) (st', tr u pos + k, tr u pl).
  Proof.
    intros HC H1 H2 Hk H3. pose proof HC as (HI & HS & _). rewrite <- tr_add.
    apply (T3_same st st' u st st' (pos + k) pl HC HI HS eq_refl eq_refl); lia.
  Qed.

  (* ---------------------------------------------------------------- branches: text, then one node [pos, pos + w) *)
  Lemma q_branch_node st st' u pos pl w k kids (g : ist -> ist) : Ctx st st' u -> istart u <= pl -> pl <= pos -> 0 <= w -> pos + w <= iend u ->
    SL kids -> (forall a a', IR a a' -> IR (g a) (g a')) -> (forall a, rk (g a) = rk a /\ frx a (g a)) ->
    T3 (let st := addText st pl pos in let st := fst (addNode st k pos (pos + w) kids) in (g st, pos + w, pos + w))
       (let st := addText st' (tr u pl) (tr u pos) in let st := fst (addNode st k (tr u pos) (tr u pos + w) (qPs kids)) in (g st, tr u pos + w, tr u pos + w)).
  Proof.
    intros HC H1 H2 Hw H3 HK Hg Hgf. cbv zeta. pose proof (Ctx_addText st st' u pl pos HC H1 H2 ltac:(lia)) as HC1.
    pose proof HC1 as (HI1 & HS1 & _). destruct (Ctx_facts _ _ u HC1) as (_ & Gu & _).
    rewrite <- (tr_add sg u pos w).
    destruct ((Hy addNode_tr) _ _ u k pos (pos + w) kids HI1 HS1 Gu ltac:(lia) ltac:(lia) H3 HK) as (A1 & _ & A3).
    pose proof (frx_addNode (addText st pl pos) k pos (pos + w) kids) as F.
    set (s1 := fst (addNode (addText st pl pos) k pos (pos + w) kids)) in *.
    destruct (Hgf s1) as [G1 G2]. destruct (frx_trans _ _ _ F G2) as [F1 F2].
    apply (T3_same _ _ u _ _ (pos + w) (pos + w) HC1); [apply Hg, A1|rewrite G1; exact A3|exact F1|exact F2|lia|lia|lia].
  Qed.
End Step1.
