From Coq Require Import List ZArith Lia Bool String Ascii.
Import ListNotations.
Require Import Base Tables Utf8 Tree Recog Inl3b Driver Inl3e Render Safe MainTok C17bytes C17chk ChkB T30test.
Open Scope Z_scope.
Eval vm_compute in map blocksOK tests.
Definition more : list bytes := [
  bs "# <a" ++ nl ++ bs "href>"; bs "[a]: b" ++ nl ++ bs "[c]: d" ++ nl ++ bs "text <b" ++ nl ++ bs "c>" ; bs "a" ++ nl ++ bs "===" ;
  bs "> a <b" ++ nl ++ bs "c> d" ++ nl ++ bs "- x" ++ nl ++ bs "  <div>" ++ nl ++ nl ++ bs "y";
  bs "```x &amp;" ++ nl ++ bs "code" ; bs "    code" ++ nl ++ bs "    more"; bs "- a" ++ nl ++ [9] ++ bs "b <i" ++ nl ++ [9] ++ bs "c>";
  bs "<x" ++ [0] ++ nl ++ [0] ++ bs "y>" ++ nl ++ nl ++ bs "<div>" ++ [0;10;0] ++ bs "z" ;
  bs "a" ++ nl ++ bs "[x]: y" ++ nl ++ bs "===" ++ nl ++ bs "b"; bs "[x]: y" ++ nl ++ bs "===" ++ nl ++ bs "b"
].
Eval vm_compute in map blocksOK more.
Eval vm_compute in map (chkDoc c0) more.
