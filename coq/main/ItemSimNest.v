(* ItemSimNest.v -- T65 (C09, list-item clause), stage 1: NESTING (QS2Nest.v, T58, adapted to the frame  document > list > list item).
   The line parser working under an open list item (the single child of an open list, the single child of the document; the item's
   children are a prefix `done` of closed children -- the list marker first -- followed by the plain children) behaves exactly as the
   line parser working directly under the document with the same cursor on the same line: relation IN between the plain state p
   (root = document with children ks) and the nested state q (root = document [list [item (done ++ ks)]], container TWO levels deeper),
   preserved by every operation of LP.v / Rules.v / Starts.v / addLineText.  The lastLineBlank flags of `done` are tracked exactly
   (blankFr); the flags of the list and of the item themselves are not (auxOf erases them). *)
From Coq Require Import List ZArith Lia Bool Arith.
Import ListNotations.
Require Import Base Tree Rdr Link Collect Html Recog LP Rules Starts Driver L2Kind L2CC NoPanic47 QuoteSimTree QuoteSimNest.
Open Scope Z_scope.

Section Nest.
(* the list block without its children and lastLineBlank flag *)
Variable lsk : block.

(* the frame: the closed children before the plain children, and the item block itself without children and lastLineBlank flag *)
Definition itopRel (done : frame) (bp bq : block) : Prop :=
  bkind bp = documentKind /\ bkind bq = ListItemKind /\ isOpen bq = true /\ auxOf bq = snd done /\
  exists done', done' = fst done /\ Forall closedB done' /\ bkids bq = done' ++ bkids bp.
Definition listRel (bl bq : block) : Prop := bkind bl = ListKind /\ isOpen bl = true /\ auxOf bl = lsk /\ bkids bl = [bq].
Definition iframeRel (done : frame) (rp rq : block) : Prop :=
  exists bl bq, bkids rq = [bl] /\ listRel bl bq /\ itopRel done rp bq.

Definition itreeRel (done : frame) (rp : block) (cp : option nat) (rq : block) (cq : option nat) : Prop :=
  (exists d, cp = Some d /\ cq = Some (S (S d)) /\ getAt d rp <> None) /\ iframeRel done rp rq.

Definition IN (done : frame) (p q : lp) : Prop :=
  source q = source p /\ lineStart q = lineStart p /\ line q = line p /\ li q = li p /\ col q = col p /\ tabRem q = tabRem p /\
  state q = state p /\ panicked q = panicked p /\ itreeRel done (root p) (container p) (root q) (container q).

Ltac flds := cbn [source line root container lineStart li col tabRem state panicked setLP withRoot withCont withState withCursor panic updCont cdepth].

Ltac insplit H :=
  match type of H with IN ?done ?p ?q =>
    let T := fresh "T" in
    let src := fresh "src" in let rt := fresh "rt" in let cont := fresh "cont" in let ls := fresh "ls" in let ln := fresh "ln" in
    let i := fresh "i" in let cl := fresh "cl" in let tr := fresh "tr" in let st := fresh "st" in let pn := fresh "pn" in
    let src' := fresh "src'" in let rt' := fresh "rt'" in let cont' := fresh "cont'" in let ls' := fresh "ls'" in let ln' := fresh "ln'" in
    let i' := fresh "i'" in let cl' := fresh "cl'" in let tr' := fresh "tr'" in let st' := fresh "st'" in let pn' := fresh "pn'" in
    destruct p as [src rt cont ls ln i cl tr st pn]; destruct q as [src' rt' cont' ls' ln' i' cl' tr' st' pn'];
    unfold IN in H; cbn [source line root container lineStart li col tabRem state panicked] in H;
    destruct H as (-> & -> & -> & -> & -> & -> & -> & -> & T) end.

Lemma IN_mk done src rp cp rq cq ls ln i cl tr st pn : itreeRel done rp cp rq cq ->
  IN done {| source := src; root := rp; container := cp; lineStart := ls; line := ln; li := i; col := cl; tabRem := tr; state := st; panicked := pn |}
         {| source := src; root := rq; container := cq; lineStart := ls; line := ln; li := i; col := cl; tabRem := tr; state := st; panicked := pn |}.
Proof. intros T. unfold IN. flds. exact (conj eq_refl (conj eq_refl (conj eq_refl (conj eq_refl (conj eq_refl (conj eq_refl (conj eq_refl (conj eq_refl T)))))))). Qed.
Ltac inmk := apply IN_mk; assumption.

Lemma IN_tree done p q : IN done p q -> itreeRel done (root p) (container p) (root q) (container q).
Proof. intros H. apply H. Qed.

(* ---- cursor-only operations ---- *)
Lemma IN_withState done p q s : IN done p q -> IN done (withState p s) (withState q s).
Proof. intros H. insplit H. unfold withState. flds. inmk. Qed.
Lemma IN_withCursor done p q i c t : IN done p q -> IN done (withCursor p i c t) (withCursor q i c t).
Proof. intros H. insplit H. unfold withCursor. flds. inmk. Qed.
Lemma IN_panic done p q n : IN done p q -> IN done (panic p n) (panic q n).
Proof. intros H. insplit H. unfold panic. flds. inmk. Qed.
Lemma IN_state done p q : IN done p q -> state q = state p. Proof. intros H. apply H. Qed.
Lemma IN_opened done p q : IN done p q ->
  IN done (if state p =? stOpening then withState p stOpenMatched else p) (if state q =? stOpening then withState q stOpenMatched else q).
Proof. intros H. rewrite (IN_state _ _ _ H). destruct (_ =? _); [apply IN_withState, H|exact H]. Qed.

Lemma IN_rest done p q : IN done p q -> rest q = rest p. Proof. intros H. insplit H. reflexivity. Qed.
Lemma IN_bai done p q : IN done p q -> bytesAfterIndent q = bytesAfterIndent p. Proof. intros H. insplit H. reflexivity. Qed.
Lemma IN_isRestBlank done p q : IN done p q -> isRestBlank q = isRestBlank p. Proof. intros H. insplit H. reflexivity. Qed.
Lemma IN_indent done p q : IN done p q -> indent q = indent p. Proof. intros H. insplit H. reflexivity. Qed.
Lemma IN_line done p q : IN done p q -> line q = line p. Proof. intros H. apply H. Qed.
Lemma IN_li done p q : IN done p q -> li q = li p. Proof. intros H. apply H. Qed.
Lemma IN_lineStart done p q : IN done p q -> lineStart q = lineStart p. Proof. intros H. apply H. Qed.
Lemma IN_source done p q : IN done p q -> source q = source p. Proof. intros H. apply H. Qed.
Lemma IN_tabRem done p q : IN done p q -> tabRem q = tabRem p. Proof. intros H. apply H. Qed.
Lemma IN_panicked done p q : IN done p q -> panicked q = panicked p. Proof. intros H. apply H. Qed.

Lemma IN_advance done p q n : IN done p q -> IN done (advance p n) (advance q n).
Proof.
  intros H. unfold advance. destruct (n <? 0); [apply IN_panic, H|]. destruct (n =? 0); [exact H|]. cbv zeta.
  pose proof (IN_opened _ _ _ H) as H1.
  set (p1 := if state p =? stOpening then withState p stOpenMatched else p) in *.
  set (q1 := if state q =? stOpening then withState q stOpenMatched else q) in *. clearbody p1 q1.
  insplit H1. flds. destruct (_ <? _); [unfold panic; flds; inmk|]. unfold withCursor. flds. inmk.
Qed.
Lemma IN_consumeLine done p q : IN done p q -> IN done (consumeLine p) (consumeLine q).
Proof.
  intros H. unfold consumeLine. cbv zeta. rewrite (IN_line _ _ _ H), (IN_li _ _ _ H).
  pose proof (IN_advance _ _ _ (len (line p) - li p) H) as H1. set (p1 := advance p _) in *. set (q1 := advance q _) in *. clearbody p1 q1.
  rewrite (IN_state _ _ _ H1). destruct (_ || _); [apply IN_withState, H1|]. destruct (_ =? stDescending); [apply IN_withState, H1|exact H1].
Qed.
Lemma IN_consumeIndent_loop done : forall fuel p q n, IN done p q -> IN done (consumeIndent_loop fuel p n) (consumeIndent_loop fuel q n).
Proof.
  induction fuel as [|f IH]; intros p q n H; [exact H|]. cbn [consumeIndent_loop]. destruct (n <=? 0); [exact H|]. cbv zeta.
  pose proof (IN_opened _ _ _ H) as H1.
  set (p1 := if state p =? stOpening then withState p stOpenMatched else p) in *.
  set (q1 := if state q =? stOpening then withState q stOpenMatched else q) in *. clearbody p1 q1.
  rewrite (IN_li _ _ _ H1), (IN_line _ _ _ H1), (IN_tabRem _ _ _ H1). replace (col q1) with (col p1) by (symmetry; apply H1).
  destruct (_ && (_ =? 32)); [apply IH, IN_withCursor, H1|].
  destruct (_ && (_ =? 9)); [|apply IN_panic, H1].
  destruct (n <? _); [apply IN_withCursor, H1|apply IH, IN_withCursor, H1].
Qed.
Lemma IN_consumeIndent done p q n : IN done p q -> IN done (consumeIndent p n) (consumeIndent q n).
Proof. intros H. unfold consumeIndent. rewrite (IN_line _ _ _ H). apply IN_consumeIndent_loop, H. Qed.

(* ---- the spine under the frame ---- *)
Lemma bkind_set_lastBlocks' b v : bkind (set_lastBlocks b v) = bkind b. Proof. destruct b; reflexivity. Qed.
Lemma isOpen_set_lastBlocks b v : isOpen (set_lastBlocks b v) = isOpen b. Proof. destruct b; reflexivity. Qed.
Lemma isOpen_set_bkids b v : isOpen (set_bkids b v) = isOpen b. Proof. destruct b; reflexivity. Qed.
Lemma bkind_set_bkids' b v : bkind (set_bkids b v) = bkind b. Proof. destruct b; reflexivity. Qed.

Lemma auxOf_set_lastBlocks b v : auxOf (set_lastBlocks b v) = auxOf b. Proof. destruct b; reflexivity. Qed.
Lemma auxOf_set_bkids b v : auxOf (set_bkids b v) = auxOf b. Proof. destruct b; reflexivity. Qed.
Lemma auxOf_set_blast b v : auxOf (set_blast b v) = auxOf b. Proof. destruct b; reflexivity. Qed.

(* two levels of the frame *)
Lemma fr_last rq bl : bkids rq = [bl] -> lastBlock rq = Some bl.
Proof. intros E. apply (lastBlock_snoc rq []). exact E. Qed.
Lemma fr_getAt rq bl bq k : bkids rq = [bl] -> listRel bl bq -> getAt (S (S k)) rq = getAt k bq.
Proof. intros E1 (_ & _ & _ & E2). rewrite getAt_S, (fr_last _ _ E1), getAt_S, (fr_last _ _ E2). reflexivity. Qed.
Lemma listRel_set bl bq bq' : listRel bl bq -> listRel (set_lastBlocks bl [bq']) bq'.
Proof.
  intros (A & B & C & D). unfold listRel. rewrite bkind_set_lastBlocks', isOpen_set_lastBlocks, auxOf_set_lastBlocks, bkids_set_lastBlocks, D.
  cbn [removelast app]. tauto.
Qed.
Lemma fr_updAt rq bl bq k g : bkids rq = [bl] -> listRel bl bq ->
  bkids (updAt (S (S k)) g rq) = [set_lastBlocks bl [updAt k g bq]].
Proof.
  intros E1 (_ & _ & _ & E2).
  change (updAt (S (S k)) g rq) with (match lastBlock rq with Some c => set_lastBlocks rq [updAt (S k) g c] | None => rq end).
  rewrite (fr_last _ _ E1).
  change (updAt (S k) g bl) with (match lastBlock bl with Some c => set_lastBlocks bl [updAt k g c] | None => bl end).
  rewrite (fr_last _ _ E2). rewrite bkids_set_lastBlocks, E1. reflexivity.
Qed.
Lemma fr_height rq bl bq : bkids rq = [bl] -> listRel bl bq -> (bheight bq + 2 <= bheight rq)%nat.
Proof.
  intros E1 (_ & _ & _ & E2).
  assert (A : (bheight bl < bheight rq)%nat) by (apply bheight_kid; rewrite E1; left; reflexivity).
  assert (B : (bheight bq < bheight bl)%nat) by (apply bheight_kid; rewrite E2; left; reflexivity). lia.
Qed.
Lemma iframe_set_root done rp rq rq' : iframeRel done rp rq -> bkids rq' = bkids rq -> iframeRel done rp rq'.
Proof. intros (bl & bq & E & L & T) Hk. exists bl, bq. rewrite Hk. tauto. Qed.

Lemma itop_lastBlock done bp bq : itopRel done bp bq -> bkids bp <> [] -> lastBlock bq = lastBlock bp.
Proof.
  intros (_ & _ & _ & _ & dn & _ & _ & E) Hn. rewrite (lastBlock_app_ne bq dn (bkids bp) Hn E).
  rewrite (lastBlock_app_ne bp [] (bkids bp) Hn eq_refl). reflexivity.
Qed.
Lemma itop_lastBlock_nil done bp bq : itopRel done bp bq -> bkids bp = [] ->
  match lastBlock bq with Some c => isOpen c = false | None => True end.
Proof.
  intros (_ & _ & _ & _ & dn & _ & Hc & E) Hn. rewrite Hn, app_nil_r in E. unfold lastBlock. rewrite E.
  destruct (rev dn) as [|x r] eqn:Er; [exact I|]. rewrite Forall_forall in Hc. apply Hc. apply in_rev. rewrite Er. left. reflexivity.
Qed.
Lemma itop_getAt_deep done bp bq d x : itopRel done bp bq -> getAt (S d) bp = Some x -> getAt (S d) bq = Some x.
Proof.
  intros T H. rewrite getAt_S in *. destruct (lastBlock bp) as [c|] eqn:E; [|discriminate].
  rewrite (itop_lastBlock _ _ _ T (lastBlock_some_ne _ _ E)), E. exact H.
Qed.
Lemma updAt_ext_at : forall d f g b x, getAt d b = Some x -> f x = g x -> updAt d f b = updAt d g b.
Proof.
  induction d as [|d IH]; intros f g b x H E; cbn [getAt updAt] in *.
  - inversion H; subst. exact E.
  - destruct (lastBlock b) as [c|]; [|discriminate]. rewrite (IH f g c x H E). reflexivity.
Qed.
Lemma itop_set_lastBlocks done bp bq repl : itopRel done bp bq -> bkids bp <> [] ->
  itopRel done (set_lastBlocks bp repl) (set_lastBlocks bq repl).
Proof.
  intros (K1 & K2 & K3 & KA & dn & E1 & E2 & E3) Hn. unfold itopRel. rewrite !bkind_set_lastBlocks', isOpen_set_lastBlocks, auxOf_set_lastBlocks.
  repeat split; try assumption. exists dn. repeat split; try assumption.
  rewrite !bkids_set_lastBlocks, E3, (removelast_app_ne dn (bkids bp) Hn), app_assoc. reflexivity.
Qed.
Lemma itop_updAt done bp bq d f g x : itopRel done bp bq -> getAt d bp = Some x ->
  (d = O -> itopRel done (f bp) (g bq)) -> ((1 <= d)%nat -> f x = g x) -> itopRel done (updAt d f bp) (updAt d g bq).
Proof.
  destruct d as [|d]; intros T H H0 H1; [cbn [updAt]; apply H0; reflexivity|].
  cbn [updAt]. cbn [getAt] in H. destruct (lastBlock bp) as [c|] eqn:E; [|discriminate].
  pose proof (lastBlock_some_ne _ _ E) as Hn. rewrite (itop_lastBlock _ _ _ T Hn), E.
  rewrite (updAt_ext_at d f g c x H (H1 ltac:(lia))). apply itop_set_lastBlocks; assumption.
Qed.

Lemma itree_upd done rp rq d dd f g : itreeRel done rp (Some d) rq (Some (S (S d))) -> (dd <= d)%nat ->
  (dd = O -> forall bq, itopRel done rp bq -> itopRel done (f rp) (g bq)) ->
  (forall x, (1 <= dd)%nat -> getAt dd rp = Some x -> f x = g x) ->
  itreeRel done (updAt dd f rp) (Some dd) (updAt (S (S dd)) g rq) (Some (S (S dd))).
Proof.
  intros ((d0 & E1 & E2 & V) & bl & bq & Eq & L & T) Hle H0 H1. inversion E1; subst d0. clear E1 E2.
  destruct (getAt d rp) as [y|] eqn:Ey; [|contradiction]. destruct (getAt_le d dd rp y Hle Ey) as (x & Hx).
  split.
  - exists dd. repeat split. destruct (getAt_updAt_exists f dd rp x Hx) as (z & Hz). rewrite Hz. discriminate.
  - exists (set_lastBlocks bl [updAt dd g bq]), (updAt dd g bq). split; [apply (fr_updAt rq bl bq dd g Eq L)|]. split; [apply (listRel_set bl bq), L|].
    apply (itop_updAt done rp bq dd f g x T Hx); [intros ->; apply H0; [reflexivity|exact T]|intros Hd; apply H1; assumption].
Qed.

Lemma IN_cont done p q : IN done p q -> exists d, container p = Some d /\ container q = Some (S (S d)) /\ getAt d (root p) <> None.
Proof. intros H. apply H. Qed.

(* update at depth dd <= cdepth, the container moved to depth dd *)
Lemma IN_updAt done p q dd f g : IN done p q -> (dd <= cdepth p)%nat ->
  (dd = O -> forall bq, itopRel done (root p) bq -> itopRel done (f (root p)) (g bq)) ->
  (forall x, (1 <= dd)%nat -> getAt dd (root p) = Some x -> f x = g x) ->
  IN done (withCont (withRoot p (updAt dd f (root p))) (Some dd)) (withCont (withRoot q (updAt (S (S dd)) g (root q))) (Some (S (S dd)))).
Proof.
  intros H Hle H0 H1. destruct (IN_cont _ _ _ H) as (d & Ep & Eq & V). insplit H. cbn [container] in Ep, Eq. subst cont cont'.
  cbn [cdepth container root] in *. unfold withCont, withRoot. flds. apply IN_mk. apply (itree_upd done rt rt' d dd f g T Hle H0 H1).
Qed.
Lemma IN_updCont done p q f g : IN done p q ->
  (cdepth p = O -> forall bq, itopRel done (root p) bq -> itopRel done (f (root p)) (g bq)) ->
  (forall x, (1 <= cdepth p)%nat -> getAt (cdepth p) (root p) = Some x -> f x = g x) ->
  IN done (updCont p f) (updCont q g).
Proof.
  intros H H0 H1. destruct (IN_cont _ _ _ H) as (d & Ep & Eq & V).
  pose proof (IN_updAt done p q (cdepth p) f g H (le_n _) H0 H1) as R.
  destruct p as [src rt cont ls ln i cl tr st pn]; destruct q as [src' rt' cont' ls' ln' i' cl' tr' st' pn'].
  cbn [container] in Ep, Eq. subst cont cont'. exact R.
Qed.
Lemma IN_updCont_same done p q f : IN done p q ->
  (cdepth p = O -> forall bq, itopRel done (root p) bq -> itopRel done (f (root p)) (f bq)) -> IN done (updCont p f) (updCont q f).
Proof. intros H H0. apply IN_updCont; [exact H|exact H0|reflexivity]. Qed.

(* the container block *)
Lemma IN_contBlock_deep done p q : IN done p q -> (1 <= cdepth p)%nat -> contBlock q = contBlock p.
Proof.
  intros H Hd. destruct (IN_cont _ _ _ H) as (d & Ep & Eq & V). destruct H as (_ & _ & _ & _ & _ & _ & _ & _ & _ & bl & bq & Ebq & L & T).
  unfold contBlock, cdepth in *. rewrite Ep, Eq in *. destruct d as [|d]; [lia|].
  destruct (getAt (S d) (root p)) as [x|] eqn:Ex; [|contradiction].
  rewrite (fr_getAt _ _ _ _ Ebq L). rewrite (itop_getAt_deep _ _ _ _ _ T Ex). reflexivity.
Qed.
Lemma IN_contBlock_top done p q : IN done p q -> cdepth p = O ->
  contBlock p = root p /\ itopRel done (root p) (contBlock q).
Proof.
  intros H Hd. destruct (IN_cont _ _ _ H) as (d & Ep & Eq & V). destruct H as (_ & _ & _ & _ & _ & _ & _ & _ & _ & bl & bq & Ebq & L & T).
  unfold contBlock, cdepth in *. rewrite Ep, Eq in *. subst d. split; [reflexivity|].
  rewrite (fr_getAt _ _ _ _ Ebq L). exact T.
Qed.
Lemma IN_cdepth done p q : IN done p q -> cdepth q = S (S (cdepth p)).
Proof. intros H. destruct (IN_cont _ _ _ H) as (d & Ep & Eq & V). unfold cdepth. rewrite Ep, Eq. reflexivity. Qed.

Definition ikindEq (kq kp : Z) : Prop := kq = kp \/ (kq = ListItemKind /\ kp = documentKind).
Lemma IN_containerKind done p q : IN done p q -> ikindEq (containerKind q) (containerKind p).
Proof.
  intros H. unfold containerKind. destruct (cdepth p) as [|d] eqn:Ed.
  - destruct (IN_contBlock_top _ _ _ H Ed) as [E (K1 & K2 & _)]. right. rewrite E. tauto.
  - left. rewrite (IN_contBlock_deep _ _ _ H); [reflexivity|lia].
Qed.
Lemma ikindEq_canContain kq kp k : ikindEq kq kp -> canContain kq k = canContain kp k.
Proof. intros [->|[-> ->]]; reflexivity. Qed.
Lemma ikindEq_test kq kp k : ikindEq kq kp -> k <> ListItemKind -> k <> documentKind -> (kq =? k) = (kp =? k).
Proof.
  intros [->|[-> ->]] H1 H2; [reflexivity|]. destruct (Z.eqb_spec ListItemKind k); [congruence|]. destruct (Z.eqb_spec documentKind k); [congruence|reflexivity].
Qed.
Lemma ikindEq_acceptsLines kq kp : ikindEq kq kp -> acceptsLines kq = acceptsLines kp.
Proof. intros [->|[-> ->]]; reflexivity. Qed.

(* ---- closing the last child at depth dd ---- *)
Lemma closeBlock_closed' f src c e : isOpen c = false -> closeBlock f src c e = [c].
Proof. intros H. destruct f; cbn [closeBlock]; [reflexivity|]. rewrite H. reflexivity. Qed.

Lemma IN_root_heights done p q : IN done p q -> forall dd x, getAt dd (root p) = Some x -> (1 <= dd)%nat ->
  (bheight x <= bheight (root p))%nat /\ (bheight x <= bheight (root q))%nat.
Proof.
  intros H dd x Hx Hd. destruct H as (_ & _ & _ & _ & _ & _ & _ & _ & _ & bl & bq & Ebq & L & T).
  pose proof (getAt_height dd (root p) x Hx). split; [lia|].
  destruct dd as [|dd]; [lia|]. pose proof (itop_getAt_deep _ _ _ _ _ T Hx) as Hq.
  assert (Hq' : getAt (S (S (S dd))) (root q) = Some x) by (rewrite (fr_getAt _ _ _ _ Ebq L); exact Hq).
  pose proof (getAt_height _ _ _ Hq'). lia.
Qed.

Lemma IN_closeAt done p q dd e : IN done p q -> (dd <= cdepth p)%nat ->
  IN done (withCont (closeLastChildAt p dd e) (Some dd)) (withCont (closeLastChildAt q (S (S dd)) e) (Some (S (S dd)))).
Proof.
  intros H Hle. unfold closeLastChildAt. rewrite (IN_source _ _ _ H).
  apply (IN_updAt done p q dd _ _ H Hle).
  - intros -> bq T. destruct H as (_ & _ & _ & _ & _ & _ & _ & _ & _ & bl0 & bq0 & Ebq & L0 & T0).
    assert (Hhq : (bheight bq0 < bheight (root q))%nat) by (pose proof (fr_height _ _ _ Ebq L0); lia).
    destruct (lastBlock (root p)) as [c|] eqn:El.
    + pose proof (lastBlock_some_ne _ _ El) as Hn. rewrite (itop_lastBlock _ _ _ T Hn), El.
      pose proof (bheight_last _ _ El) as Hc.
      assert (Hc0 : (bheight c < bheight bq0)%nat).
      { apply bheight_last. rewrite (itop_lastBlock _ _ _ T0 Hn). exact El. }
      rewrite (closeBlock_fuel (source p) e (bheight (root q)) (bheight (root p)) c); [|lia|lia].
      apply itop_set_lastBlocks; assumption.
    + pose proof (itop_lastBlock_nil _ _ _ T (lastBlock_none_nil _ El)) as Hc.
      destruct (lastBlock bq) as [c|] eqn:Elq; [|exact T].
      rewrite (closeBlock_closed' _ _ c e Hc), (set_lastBlocks_same bq c Elq). exact T.
  - intros x Hd Hx. destruct (lastBlock x) as [c|] eqn:El; [|reflexivity].
    destruct (IN_root_heights _ _ _ H dd x Hx Hd) as [A B]. pose proof (bheight_last _ _ El).
    rewrite (closeBlock_fuel (source p) e (bheight (root q)) (bheight (root p)) c); [reflexivity|lia|lia].
Qed.

Lemma withCont_self p d : container p = Some d -> withCont p (Some d) = p.
Proof. intros E. destruct p. cbn in E. subst. reflexivity. Qed.
Lemma IN_closeHere done p q e : IN done p q -> IN done (closeLastChildAt p (cdepth p) e) (closeLastChildAt q (cdepth q) e).
Proof.
  intros H. destruct (IN_cont _ _ _ H) as (d & Ep & Eq & V). pose proof (IN_closeAt done p q (cdepth p) e H (le_n _)) as R.
  rewrite (IN_cdepth _ _ _ H). unfold cdepth in *. rewrite Ep in *.
  rewrite withCont_self in R by (unfold closeLastChildAt, withRoot; flds; exact Ep).
  rewrite withCont_self in R by (unfold closeLastChildAt, withRoot; flds; exact Eq). exact R.
Qed.

(* ---- moving the container ---- *)
Lemma IN_withCont done p q d : IN done p q -> getAt d (root p) <> None -> IN done (withCont p (Some d)) (withCont q (Some (S (S d)))).
Proof.
  intros H V. insplit H. cbn [root] in V. unfold withCont. flds. apply IN_mk.
  destruct T as (_ & R). split; [exists d; repeat split; exact V|exact R].
Qed.

(* ---- openBlock / endBlock / collectInline ---- *)
Lemma IN_setter done p q f : IN done p q -> (1 <= cdepth p)%nat -> IN done (updCont p f) (updCont q f).
Proof. intros H Hd. apply IN_updCont_same; [exact H|]. intros E0. lia. Qed.

Lemma itop_append done bp bq nb : itopRel done bp bq ->
  itopRel done (set_bkids bp (bkids bp ++ [nb])) (set_bkids bq (bkids bq ++ [nb])).
Proof.
  intros (K1 & K2 & K3 & KA & dn & E1 & E2 & E3). unfold itopRel. rewrite !bkind_set_bkids', isOpen_set_bkids, !bkids_set_bkids, auxOf_set_bkids.
  repeat split; try assumption. exists dn. repeat split; try assumption. rewrite E3, app_assoc. reflexivity.
Qed.

Lemma IN_root_doc done p q : IN done p q -> bkind (root p) = documentKind.
Proof. intros H. destruct H as (_ & _ & _ & _ & _ & _ & _ & _ & _ & bl & bq & _ & _ & (K & _)). exact K. Qed.

Lemma IN_canContain done p q k : IN done p q -> canContain (containerKind q) k = canContain (containerKind p) k.
Proof. intros H. apply ikindEq_canContain, (IN_containerKind _ _ _ H). Qed.

Lemma IN_openBlock_up done kind : forall f f' p q, IN done p q -> (kind <> ListItemKind \/ canContain (containerKind p) kind = true) ->
  (cdepth p < f)%nat -> (cdepth q < f')%nat -> IN done (openBlock_up f p kind) (openBlock_up f' q kind).
Proof.
  induction f as [|f IH]; intros f' p q H Hk Hf Hf'; [lia|]. destruct f' as [|f']; [lia|]. cbn [openBlock_up].
  rewrite (IN_canContain _ _ _ kind H). destruct (canContain (containerKind p) kind) eqn:Ec; [exact H|].
  assert (Nk : kind <> ListItemKind) by (destruct Hk as [Hk|Hk]; [exact Hk|discriminate]).
  rewrite (IN_cdepth _ _ _ H) in *. destruct (cdepth p) as [|d] eqn:Ed.
  - exfalso. rewrite (containerKind_root p Ed), (IN_root_doc _ _ _ H) in Ec.
    unfold canContain in Ec. cbn in Ec. apply negb_false_iff, Z.eqb_eq in Ec. contradiction.
  - rewrite (IN_lineStart _ _ _ H). apply IH; [apply IN_closeAt; [exact H|lia]|left; exact Nk|cbn; lia|cbn; lia].
Qed.

Lemma cdepth_opened p : cdepth (if state p =? stOpening then withState p stOpenMatched else p) = cdepth p.
Proof. destruct (_ =? _); reflexivity. Qed.
Lemma containerKind_opened p : containerKind (if state p =? stOpening then withState p stOpenMatched else p) = containerKind p.
Proof. destruct (_ =? _); reflexivity. Qed.

Lemma IN_openBlock done p q kind : IN done p q -> (kind <> ListItemKind \/ canContain (containerKind p) kind = true) ->
  IN done (openBlock p kind) (openBlock q kind).
Proof.
  intros H Hk. unfold openBlock. rewrite (IN_state _ _ _ H). destruct (_ || _); [apply IN_panic, H|]. cbv zeta.
  pose proof (IN_opened _ _ _ H) as H1. rewrite (IN_state _ _ _ H) in H1.
  assert (Hk1 : kind <> ListItemKind \/ canContain (containerKind (if state p =? stOpening then withState p stOpenMatched else p)) kind = true)
    by (rewrite containerKind_opened; exact Hk).
  assert (Hc1 : cdepth (if state p =? stOpening then withState p stOpenMatched else p) = cdepth p) by apply cdepth_opened.
  set (p1 := if state p =? stOpening then withState p stOpenMatched else p) in *.
  set (q1 := if state p =? stOpening then withState q stOpenMatched else q) in *. clearbody p1 q1.
  pose proof (IN_openBlock_up done kind (S (cdepth p1)) (S (cdepth q1)) p1 q1 H1 Hk1 ltac:(lia) ltac:(lia)) as H2.
  set (p2 := openBlock_up _ p1 kind) in *. set (q2 := openBlock_up _ q1 kind) in *. clearbody p2 q2.
  pose proof (IN_closeHere done p2 q2 (lineStart p2) H2) as H3. rewrite <- (IN_lineStart _ _ _ H2) in H3 at 2.
  set (p3 := closeLastChildAt p2 (cdepth p2) (lineStart p2)) in *. set (q3 := closeLastChildAt q2 (cdepth q2) (lineStart q2)) in *.
  assert (Ec3 : cdepth p3 = cdepth p2) by reflexivity. assert (Ec3' : cdepth q3 = cdepth q2) by reflexivity. clearbody p3 q3.
  rewrite (IN_lineStart _ _ _ H3), (IN_li _ _ _ H3).
  set (nb := newBlock kind (lineStart p3 + li p3)).
  assert (H4 : IN done (updCont p3 (fun b => set_bkids b (bkids b ++ [nb]))) (updCont q3 (fun b => set_bkids b (bkids b ++ [nb])))).
  { apply IN_updCont_same; [exact H3|]. intros _ bq T. apply itop_append, T. }
  rewrite (IN_cdepth _ _ _ H2). apply IN_withCont; [exact H4|].
  destruct (IN_cont _ _ _ H3) as (d & Ep & _ & V). unfold updCont, withRoot. flds. rewrite <- Ec3. unfold cdepth. rewrite Ep in *.
  destruct (getAt d (root p3)) as [x|] eqn:Ex; [|contradiction]. rewrite (getAt_S_append_some nb d (root p3) x Ex). discriminate.
Qed.

Lemma IN_endBlock done p q : IN done p q -> ((1 <= cdepth p)%nat \/ (state p =? stDescending) || (state p =? stDescendTerminated) = true) ->
  IN done (endBlock p) (endBlock q).
Proof.
  intros H Hd. unfold endBlock. rewrite (IN_state _ _ _ H). destruct ((state p =? stDescending) || (state p =? stDescendTerminated)) eqn:Es; [apply IN_panic, H|].
  destruct Hd as [Hd|Hd]; [|discriminate]. cbv zeta.
  pose proof (IN_opened _ _ _ H) as H1. rewrite (IN_state _ _ _ H) in H1. pose proof (cdepth_opened p) as Hc1.
  set (p1 := if state p =? stOpening then withState p stOpenMatched else p) in *.
  set (q1 := if state p =? stOpening then withState q stOpenMatched else q) in *. clearbody p1 q1.
  rewrite (IN_cdepth _ _ _ H1). destruct (cdepth p1) as [|d] eqn:Ed; [lia|].
  rewrite (IN_lineStart _ _ _ H1), (IN_li _ _ _ H1). apply IN_closeAt; [exact H1|lia].
Qed.

Lemma IN_collectInline done p q kind n : IN done p q -> (1 <= cdepth p)%nat -> IN done (collectInline p kind n) (collectInline q kind n).
Proof.
  intros H Hd. unfold collectInline. rewrite (IN_state _ _ _ H). destruct (_ =? stDescendTerminated); [apply IN_panic, H|]. cbv zeta.
  pose proof (IN_opened _ _ _ H) as H1. rewrite (IN_state _ _ _ H) in H1. pose proof (cdepth_opened p) as Hc1.
  set (p1 := if state p =? stOpening then withState p stOpenMatched else p) in *.
  set (q1 := if state p =? stOpening then withState q stOpenMatched else q) in *. clearbody p1 q1.
  rewrite (IN_indent _ _ _ H1).
  match goal with |- IN done (updCont (advance ?a n) _) (updCont (advance ?b n) _) => assert (H2 : IN done a b /\ cdepth a = cdepth p) end.
  { destruct (0 <? indent p1); [|split; assumption]. rewrite (IN_lineStart _ _ _ H1), (IN_li _ _ _ H1), (IN_rest _ _ _ H1).
    pose proof (IN_advance done p1 q1 (indentLength (rest p1)) H1) as Ha. rewrite (IN_lineStart _ _ _ Ha), (IN_li _ _ _ Ha).
    split; [apply IN_setter; [exact Ha|rewrite cd_advance; lia]|rewrite cdepth_updCont, cd_advance; exact Hc1]. }
  match goal with |- IN done (updCont (advance ?a n) _) (updCont (advance ?b n) _) => set (p2 := a) in *; set (q2 := b) in *; clearbody p2 q2 end.
  destruct H2 as [H2 Hc2].
  pose proof (IN_advance done p2 q2 n H2) as H3. rewrite (IN_lineStart _ _ _ H2), (IN_li _ _ _ H2), (IN_lineStart _ _ _ H3), (IN_li _ _ _ H3), (IN_source _ _ _ H3).
  apply IN_setter; [exact H3|rewrite cd_advance; lia].
Qed.

(* ---- the match rules ---- *)
Definition irelBP (done : frame) (x y : bool * lp) : Prop := fst y = fst x /\ IN done (snd x) (snd y).
Lemma irelBP_mk done b p q : IN done p q -> irelBP done (b, p) (b, q). Proof. intros H. split; [reflexivity|exact H]. Qed.

Lemma IN_matchListItem done p q : IN done p q -> (1 <= cdepth p)%nat -> irelBP done (matchListItem p) (matchListItem q).
Proof.
  intros H Hd. unfold matchListItem, containerKind. rewrite (IN_isRestBlank _ _ _ H), (IN_contBlock_deep _ _ _ H Hd), (IN_indent _ _ _ H).
  destruct (isRestBlank p).
  - destruct (negb _); [apply irelBP_mk, H|apply irelBP_mk, IN_consumeIndent, H].
  - destruct (_ <=? _); [apply irelBP_mk, IN_consumeIndent, H|apply irelBP_mk, H].
Qed.
Lemma IN_eatQuoteMarker done p q n : IN done p q -> IN done (eatQuoteMarker p n) (eatQuoteMarker q n).
Proof.
  intros H. unfold eatQuoteMarker. cbv zeta. pose proof (IN_advance done _ _ 1 (IN_consumeIndent done p q n H)) as H1.
  rewrite (IN_indent _ _ _ H1). destruct (0 <? _); [apply IN_consumeIndent, H1|exact H1].
Qed.
Lemma IN_matchBlockQuote done p q : IN done p q -> irelBP done (matchBlockQuote p) (matchBlockQuote q).
Proof.
  intros H. unfold matchBlockQuote. cbv zeta. rewrite (IN_indent _ _ _ H), (IN_bai _ _ _ H).
  destruct (_ <=? _); [apply irelBP_mk, H|]. destruct (negb _); [apply irelBP_mk, H|]. apply irelBP_mk, IN_eatQuoteMarker, H.
Qed.
Lemma IN_matchFenced done p q : IN done p q -> (1 <= cdepth p)%nat -> irelBP done (matchFenced p) (matchFenced q).
Proof.
  intros H Hd. unfold matchFenced. cbv zeta. rewrite (IN_indent _ _ _ H), (IN_bai _ _ _ H), (IN_contBlock_deep _ _ _ H Hd).
  destruct (if _ <? _ then _ else false); [apply irelBP_mk, IN_consumeLine, H|apply irelBP_mk, IN_consumeIndent, H].
Qed.
Lemma IN_matchIndented done p q : IN done p q -> irelBP done (matchIndented p) (matchIndented q).
Proof.
  intros H. unfold matchIndented. cbv zeta. rewrite (IN_indent _ _ _ H), (IN_isRestBlank _ _ _ H).
  destruct (_ <? _); [destruct (negb _); [apply irelBP_mk, H|apply irelBP_mk, IN_consumeIndent, H]|apply irelBP_mk, IN_consumeIndent, H].
Qed.
Lemma IN_matchHTML done p q : IN done p q -> (1 <= cdepth p)%nat -> irelBP done (matchHTML p) (matchHTML q).
Proof.
  intros H Hd. unfold matchHTML. rewrite (IN_bai _ _ _ H), (IN_contBlock_deep _ _ _ H Hd), (IN_isRestBlank _ _ _ H).
  destruct (htmlEnd _ _); [|apply irelBP_mk, H]. destruct (isRestBlank p); [apply irelBP_mk, H|].
  apply irelBP_mk, IN_consumeLine, IN_collectInline; assumption.
Qed.
Lemma IN_matchRule done p q : IN done p q -> (1 <= cdepth p)%nat -> irelBP done (matchRule p) (matchRule q).
Proof.
  intros H Hd. unfold matchRule. cbv zeta. unfold containerKind. rewrite (IN_contBlock_deep _ _ _ H Hd).
  destruct (_ || _); [apply irelBP_mk, H|].
  destruct (_ =? ListItemKind); [apply IN_matchListItem; assumption|].
  destruct (_ =? BlockQuoteKind); [apply IN_matchBlockQuote; assumption|].
  destruct (_ =? FencedCodeBlockKind); [apply IN_matchFenced; assumption|].
  destruct (_ =? IndentedCodeBlockKind); [apply IN_matchIndented; assumption|].
  destruct (_ =? HTMLBlockKind); [apply IN_matchHTML; assumption|].
  rewrite (IN_isRestBlank _ _ _ H). apply irelBP_mk, H.
Qed.

(* ---- heights are not changed by the match rules ---- *)
Lemma bheight_set_lastBlocks_one b c c' : lastBlock b = Some c -> bheight c' = bheight c -> bheight (set_lastBlocks b [c']) = bheight b.
Proof.
  intros El Hc. apply bheight_kids_eq. rewrite bkids_set_lastBlocks. rewrite (lastBlock_split b c El) at 2.
  rewrite !map_app. cbn [map]. rewrite Hc. reflexivity.
Qed.
Lemma bheight_updAt f : (forall x, bheight (f x) = bheight x) -> forall d b, bheight (updAt d f b) = bheight b.
Proof.
  intros Hf. induction d as [|d IH]; intros b; cbn [updAt]; [apply Hf|].
  destruct (lastBlock b) as [c|] eqn:El; [|reflexivity]. apply (bheight_set_lastBlocks_one b c); [exact El|apply IH].
Qed.
Lemma same_root p p' : same_tree p p' -> root p' = root p. Proof. intros [E _]. exact E. Qed.
Lemma bheight_collectInline p kind n : bheight (root (collectInline p kind n)) = bheight (root p).
Proof.
  unfold collectInline. destruct (_ =? stDescendTerminated); [reflexivity|]. cbv zeta.
  unfold updCont at 1. unfold withRoot. flds. rewrite bheight_updAt by (intros x; apply bheight_set_bik).
  rewrite (same_root _ _ (same_advance _ _)).
  destruct (0 <? _).
  - unfold updCont, withRoot. flds. rewrite bheight_updAt by (intros x; apply bheight_set_bik).
    rewrite (same_root _ _ (same_advance _ _)). rewrite (same_root _ _ (same_opened p)). reflexivity.
  - rewrite (same_root _ _ (same_opened p)). reflexivity.
Qed.
Lemma bheight_matchRule p : bheight (root (snd (matchRule p))) = bheight (root p).
Proof.
  unfold matchRule. cbv zeta.
  destruct (_ || _); [reflexivity|].
  destruct (_ =? ListItemKind).
  { unfold matchListItem. destruct (isRestBlank p); [destruct (negb _); [reflexivity|cbn [snd]; rewrite (same_root _ _ (same_consumeIndent _ _)); reflexivity]|].
    destruct (_ <=? _); [cbn [snd]; rewrite (same_root _ _ (same_consumeIndent _ _))|]; reflexivity. }
  destruct (_ =? BlockQuoteKind).
  { unfold matchBlockQuote. cbv zeta. destruct (_ <=? _); [reflexivity|]. destruct (negb _); [reflexivity|]. cbn [snd].
    unfold eatQuoteMarker. cbv zeta. destruct (0 <? _).
    - rewrite (same_root _ _ (same_consumeIndent _ _)), (same_root _ _ (same_advance _ _)), (same_root _ _ (same_consumeIndent _ _)). reflexivity.
    - rewrite (same_root _ _ (same_advance _ _)), (same_root _ _ (same_consumeIndent _ _)). reflexivity. }
  destruct (_ =? FencedCodeBlockKind).
  { unfold matchFenced. cbv zeta. destruct (if _ <? _ then _ else false); cbn [snd];
      [rewrite (same_root _ _ (same_consumeLine _))|rewrite (same_root _ _ (same_consumeIndent _ _))]; reflexivity. }
  destruct (_ =? IndentedCodeBlockKind).
  { unfold matchIndented. cbv zeta. destruct (_ <? _); [destruct (negb _)|]; cbn [snd]; try reflexivity;
      rewrite (same_root _ _ (same_consumeIndent _ _)); reflexivity. }
  destruct (_ =? HTMLBlockKind); [|reflexivity].
  unfold matchHTML. destruct (htmlEnd _ _); [|reflexivity]. destruct (isRestBlank _); [reflexivity|]. cbn [snd].
  rewrite (same_root _ _ (same_consumeLine _)). apply bheight_collectInline.
Qed.

(* ---- descendOpenBlocks ---- *)
Lemma IN_valid_le done p q d : IN done p q -> (d <= cdepth p)%nat -> getAt d (root p) <> None.
Proof.
  intros H Hle. destruct (IN_cont _ _ _ H) as (d0 & Ep & _ & V). unfold cdepth in Hle. rewrite Ep in Hle.
  destruct (getAt d0 (root p)) as [x|] eqn:Ex; [|contradiction]. destruct (getAt_le d0 d (root p) x Hle Ex) as (y & Hy). rewrite Hy. discriminate.
Qed.

Lemma ibelow_closed done rp bq d : itopRel done rp bq -> getAt d rp <> None -> getAt (S d) rp = None ->
  match getAt (S d) bq with Some c => isOpen c = false | None => True end.
Proof.
  intros T V Hn. destruct d as [|d].
  - cbn [getAt] in *. destruct (lastBlock rp) eqn:El; [discriminate|].
    pose proof (itop_lastBlock_nil _ _ _ T (lastBlock_none_nil _ El)) as Hc. destruct (lastBlock bq); [exact Hc|exact I].
  - destruct (getAt (S d) rp) as [x|] eqn:Ex; [|contradiction]. rewrite getAt_S. rewrite getAt_S in Hn.
    destruct (lastBlock bq) as [c0|] eqn:Elq; [|exact I].
    assert (Hne : bkids rp <> []).
    { rewrite getAt_S in Ex. destruct (lastBlock rp) eqn:El; [|discriminate]. apply (lastBlock_some_ne _ _ El). }
    rewrite (itop_lastBlock _ _ _ T Hne) in Elq. rewrite Elq in Hn. rewrite Hn. exact I.
Qed.

Lemma IN_descend_loop done : forall f f' p q d, IN done p q -> getAt d (root p) <> None ->
  (bheight (root p) <= f + d)%nat -> (bheight (root q) <= f' + S (S d))%nat ->
  irelBP done (descend_loop f p d) (descend_loop f' q (S (S d))).
Proof.
  induction f as [|f IH]; intros f' p q d H V Hf Hf'.
  - (* the plain run is out of fuel: there is nothing below depth d *)
    assert (Hn : getAt (S d) (root p) = None).
    { destruct (getAt (S d) (root p)) as [x|] eqn:Ex; [|reflexivity]. pose proof (getAt_height _ _ _ Ex). pose proof (bheight_pos x). lia. }
    cbn [descend_loop]. destruct f' as [|f']; [apply irelBP_mk, IN_withCont; assumption|]. cbn [descend_loop].
    pose proof H as (_ & _ & _ & _ & _ & _ & _ & _ & _ & bl & bq & Ebq & L & T).
    assert (Hq : match getAt (S (S (S d))) (root q) with Some c => isOpen c = false | None => True end).
    { rewrite (fr_getAt _ _ _ _ Ebq L). apply (ibelow_closed done (root p) bq d T V Hn). }
    destruct (getAt (S (S (S d))) (root q)) as [c|]; [rewrite Hq; cbn [negb]|]; apply irelBP_mk, IN_withCont; assumption.
  - destruct f' as [|f'].
    { (* the quoted run is out of fuel: nothing below depth d either *)
      cbn [descend_loop].
      pose proof H as (_ & _ & _ & _ & _ & _ & _ & _ & _ & bl & bq & Ebq & L & T).
      destruct (getAt (S d) (root p)) as [c|] eqn:Ex; [|apply irelBP_mk, IN_withCont; assumption].
      exfalso. pose proof (itop_getAt_deep _ _ _ _ _ T Ex) as Hq.
      assert (Hq' : getAt (S (S (S d))) (root q) = Some c) by (rewrite (fr_getAt _ _ _ _ Ebq L); exact Hq).
      pose proof (getAt_height _ _ _ Hq'). pose proof (bheight_pos c). lia. }
    cbn [descend_loop].
    destruct (getAt (S d) (root p)) as [c|] eqn:Ex.
    + assert (Hq' : getAt (S (S (S d))) (root q) = Some c).
      { destruct H as (_ & _ & _ & _ & _ & _ & _ & _ & _ & bl & bq & Ebq & L & T). rewrite (fr_getAt _ _ _ _ Ebq L).
        apply (itop_getAt_deep _ _ _ _ _ T Ex). }
      rewrite Hq'. destruct (negb (isOpen c)); [apply irelBP_mk, IN_withCont; assumption|]. cbv zeta.
      assert (H1 : IN done (withCont p (Some (S d))) (withCont q (Some (S (S (S d)))))) by (apply IN_withCont; [exact H|rewrite Ex; discriminate]).
      destruct (negb (hasMatch (bkind c))); [apply irelBP_mk; apply (IN_withCont done _ _ d H1); exact V|].
      pose proof (IN_withState done _ _ stDescending H1) as H2.
      pose proof (IN_matchRule done _ _ H2 ltac:(cbn; lia)) as [Eok H3].
      pose proof (cdepth_matchRule (withState (withCont p (Some (S d))) stDescending)) as Hcd.
      pose proof (bheight_matchRule (withState (withCont p (Some (S d))) stDescending)) as Hbp.
      pose proof (bheight_matchRule (withState (withCont q (Some (S (S (S d))))) stDescending)) as Hbq.
      destruct (matchRule (withState (withCont p (Some (S d))) stDescending)) as [ok p3].
      destruct (matchRule (withState (withCont q (Some (S (S (S d))))) stDescending)) as [ok' q3]. cbn [fst snd] in *. subst ok'.
      change (cdepth (withState (withCont p (Some (S d))) stDescending)) with (S d) in Hcd.
      change (root (withState (withCont p (Some (S d))) stDescending)) with (root p) in Hbp.
      change (root (withState (withCont q (Some (S (S (S d))))) stDescending)) with (root q) in Hbq.
      rewrite (IN_state _ _ _ H3), (IN_lineStart _ _ _ H3), (IN_li _ _ _ H3).
      destruct (state p3 =? stDescendTerminated); [apply irelBP_mk, IN_closeAt; [exact H3|lia]|].
      assert (V3 : getAt d (root p3) <> None) by (apply (IN_valid_le _ _ _ _ H3); lia).
      destruct (negb ok); [apply irelBP_mk, IN_withCont; assumption|].
      apply IH; [exact H3|apply (IN_valid_le _ _ _ _ H3); lia|lia|lia].
    + (* nothing below in the plain tree: the quoted tree has nothing or a closed (finished) child *)
      pose proof H as (_ & _ & _ & _ & _ & _ & _ & _ & _ & bl & bq & Ebq & L & T).
      assert (Hq : match getAt (S (S (S d))) (root q) with Some c => isOpen c = false | None => True end).
      { rewrite (fr_getAt _ _ _ _ Ebq L). apply (ibelow_closed done (root p) bq d T V Ex). }
      destruct (getAt (S (S (S d))) (root q)) as [c|]; [rewrite Hq; cbn [negb]|]; apply irelBP_mk, IN_withCont; assumption.
Qed.

(* ---- the tip of the open spine ---- *)
Lemma tipDepth_exists : forall f b, getAt (tipDepth f b) b <> None.
Proof.
  induction f as [|f IH]; intros b; cbn [tipDepth]; [discriminate|].
  destruct (lastBlock b) as [c|] eqn:El; [|discriminate]. destruct (isOpen c); [|discriminate]. rewrite getAt_S, El. apply IH.
Qed.
Lemma itop_tipDepth done rp bq f f' : itopRel done rp bq -> (bheight rp <= f)%nat -> (bheight bq <= f')%nat -> tipDepth f' bq = tipDepth f rp.
Proof.
  intros T Hf Hf'. destruct f as [|f]; [pose proof (bheight_pos rp); lia|]. destruct f' as [|f']; [pose proof (bheight_pos bq); lia|].
  cbn [tipDepth]. destruct (lastBlock rp) as [c|] eqn:El.
  - pose proof (lastBlock_some_ne _ _ El) as Hn. pose proof (itop_lastBlock _ _ _ T Hn) as Elq. rewrite Elq, El.
    destruct (isOpen c); [|reflexivity]. f_equal.
    assert (Elq' : lastBlock bq = Some c) by (rewrite Elq; exact El).
    pose proof (bheight_last _ _ El). pose proof (bheight_last _ _ Elq'). apply tipDepth_fuel; lia.
  - pose proof (itop_lastBlock_nil _ _ _ T (lastBlock_none_nil _ El)) as Hc. destruct (lastBlock bq); [rewrite Hc|]; reflexivity.
Qed.
Lemma IN_tip done p q :
  IN done p q -> let tp := tipDepth (bheight (root p)) (root p) in let tq := tipDepth (bheight (root q)) (root q) in
  tq = S (S tp) /\ getAt tp (root p) <> None /\
  ((1 <= tp)%nat -> getAt tq (root q) = getAt tp (root p)) /\
  (tp = O -> exists bq, getAt tq (root q) = Some bq /\ bkind bq = ListItemKind).
Proof.
  intros H. cbv zeta. destruct H as (_ & _ & _ & _ & _ & _ & _ & _ & _ & bl & bq & Ebq & L & T).
  pose proof (fr_last _ _ Ebq) as Elq. pose proof (fr_height _ _ _ Ebq L) as Hh.
  pose proof L as (L1 & L2 & L3 & L4). pose proof (fr_last _ _ L4) as Ell.
  assert (E : tipDepth (bheight (root q)) (root q) = S (S (tipDepth (bheight (root p)) (root p)))).
  { destruct (bheight (root q)) as [|[|h]] eqn:Eh; [lia|lia|]. cbn [tipDepth]. rewrite Elq, L2, Ell. pose proof T as (K1 & K2 & K3 & R). rewrite K3.
    f_equal. f_equal. apply (itop_tipDepth done); [exact T|lia|lia]. }
  rewrite E. split; [reflexivity|]. split; [apply tipDepth_exists|]. split.
  - intros Ht. rewrite (fr_getAt _ _ _ _ Ebq L). destruct (tipDepth (bheight (root p)) (root p)) as [|t] eqn:Et; [lia|].
    pose proof (tipDepth_exists (bheight (root p)) (root p)) as V. rewrite Et in V.
    destruct (getAt (S t) (root p)) as [x|] eqn:Ex; [|contradiction]. apply (itop_getAt_deep _ _ _ _ _ T Ex).
  - intros ->. exists bq. rewrite (fr_getAt _ _ _ _ Ebq L). split; [reflexivity|apply T].
Qed.
Lemma IN_tipKind_para done p q : IN done p q -> (tipKind q =? ParagraphKind) = (tipKind p =? ParagraphKind).
Proof.
  intros H. unfold tipKind. destruct (IN_tip _ _ _ H) as (E & V & Hdeep & Htop).
  destruct (tipDepth (bheight (root p)) (root p)) as [|t] eqn:Et.
  - destruct (Htop eq_refl) as (bq & Eq & Kq). rewrite Eq, Kq. cbn [getAt]. rewrite (IN_root_doc _ _ _ H). reflexivity.
  - rewrite (Hdeep ltac:(lia)). reflexivity.
Qed.

(* ---- the block starts ---- *)
Definition INE (done : frame) (p q : lp) : Prop := E p /\ IN done p q.
Lemma INE_advance done p q n : INE done p q -> INE done (advance p n) (advance q n).
Proof. intros [a b]. split; [apply E_advance, a|apply IN_advance, b]. Qed.
Lemma INE_consumeIndent done p q n : INE done p q -> INE done (consumeIndent p n) (consumeIndent q n).
Proof. intros [a b]. split; [apply E_consumeIndent, a|apply IN_consumeIndent, b]. Qed.
Lemma INE_consumeLine done p q : INE done p q -> INE done (consumeLine p) (consumeLine q).
Proof. intros [a b]. split; [apply E_consumeLine, a|apply IN_consumeLine, b]. Qed.
Lemma INE_collectInline done p q k n : INE done p q -> (1 <= cdepth p)%nat -> INE done (collectInline p k n) (collectInline q k n).
Proof. intros [a b] Hd. split; [apply E_collectInline, a|apply IN_collectInline; assumption]. Qed.
Lemma INE_openBlock done p q k : INE done p q -> k <> ListItemKind -> INE done (openBlock p k) (openBlock q k) /\ (1 <= cdepth (openBlock p k))%nat.
Proof. intros [a b] Hk. destruct (E_openBlock p k a Hk) as [A B]. split; [split; [exact A|apply IN_openBlock; [exact b|left; exact Hk]]|exact B]. Qed.
Lemma INE_openBlock' done p q k : INE done p q -> canContain (containerKind p) k = true ->
  INE done (openBlock p k) (openBlock q k) /\ (1 <= cdepth (openBlock p k))%nat.
Proof. intros [a b] Hk. destruct (E_openBlock' p k a Hk) as [A B]. split; [split; [exact A|apply IN_openBlock; [exact b|right; exact Hk]]|exact B]. Qed.
Lemma INE_endBlock done p q : INE done p q -> (1 <= cdepth p)%nat -> INE done (endBlock p) (endBlock q).
Proof. intros [a b] Hd. split; [apply E_endBlock; assumption|apply IN_endBlock; [exact b|left; exact Hd]]. Qed.
Lemma INE_setters done p q f : INE done p q -> (forall x, cc (f x) = cc x /\ bkind (f x) = bkind x) ->
  (1 <= cdepth p)%nat -> INE done (updCont p f) (updCont q f).
Proof. intros [a b] H1 H2. split; [apply E_setters; assumption|apply IN_setter; assumption]. Qed.

Lemma IN_ckTest done p q k : IN done p q -> k <> ListItemKind -> k <> documentKind -> (containerKind q =? k) = (containerKind p =? k).
Proof. intros H. apply ikindEq_test, (IN_containerKind _ _ _ H). Qed.

Definition startOKIN (f : lp -> lp) : Prop := forall done p q, INE done p q -> INE done (f p) (f q).

Lemma okIN_startBlockQuote : startOKIN startBlockQuote.
Proof.
  intros done p q H. pose proof (proj2 H) as Hn. unfold startBlockQuote. cbv zeta. rewrite (IN_indent _ _ _ Hn), (IN_bai _ _ _ Hn).
  destruct (_ <=? _); [exact H|]. destruct (negb _); [exact H|].
  destruct (INE_openBlock done _ _ BlockQuoteKind (INE_consumeIndent done p q (indent p) H) ltac:(discriminate)) as [H2 _].
  pose proof (INE_advance done _ _ 1 H2) as H3. rewrite (IN_indent _ _ _ (proj2 H3)). destruct (0 <? _); [apply INE_consumeIndent, H3|exact H3].
Qed.
Lemma okIN_startATX : startOKIN startATX.
Proof.
  intros done p q H. pose proof (proj2 H) as Hn. unfold startATX. cbv zeta. rewrite (IN_indent _ _ _ Hn), (IN_bai _ _ _ Hn).
  destruct (_ <=? _); [exact H|]. destruct (parseATXHeading _) as [[level cs] ce]. destruct (level <? 1); [exact H|].
  destruct (INE_openBlock done _ _ ATXHeadingKind (INE_consumeIndent done p q (indent p) H) ltac:(discriminate)) as [H2 D2].
  apply INE_endBlock.
  - apply INE_consumeLine, INE_collectInline; [apply INE_advance, INE_setters; [exact H2|setters|exact D2]|rewrite cd_advance, cdepth_updCont; exact D2].
  - rewrite cd_consumeLine, cdepth_collectInline, cd_advance, cdepth_updCont. exact D2.
Qed.
Lemma okIN_startFenced : startOKIN startFenced.
Proof.
  intros done p q H. pose proof (proj2 H) as Hn. unfold startFenced. cbv zeta. rewrite (IN_indent _ _ _ Hn), (IN_bai _ _ _ Hn).
  destruct (_ <=? _); [exact H|]. destruct (parseCodeFence _) as [[[fc fnn] is_] ie]. destruct (fnn =? 0); [exact H|].
  destruct (INE_openBlock done _ _ FencedCodeBlockKind (INE_consumeIndent done p q (indent p) H) ltac:(discriminate)) as [H2 D2].
  assert (H4 : INE done (updCont (updCont (openBlock (consumeIndent p (indent p)) FencedCodeBlockKind) (fun b => set_bn (set_bchar b fc) fnn))
                         (fun b => set_bindent b (indent p)))
                      (updCont (updCont (openBlock (consumeIndent q (indent p)) FencedCodeBlockKind) (fun b => set_bn (set_bchar b fc) fnn))
                         (fun b => set_bindent b (indent p)))).
  { apply INE_setters; [apply INE_setters; [exact H2|setters|exact D2]|setters|rewrite cdepth_updCont; exact D2]. }
  apply INE_consumeLine. destruct (spanValid _); [apply INE_collectInline; [apply INE_advance, H4|rewrite cd_advance, !cdepth_updCont; exact D2]|exact H4].
Qed.
Lemma okIN_startHTML : startOKIN startHTML.
Proof.
  intros done p q H. pose proof (proj2 H) as Hn. unfold startHTML. cbv zeta. rewrite (IN_indent _ _ _ Hn), (IN_bai _ _ _ Hn).
  rewrite (IN_ckTest _ _ _ ParagraphKind Hn) by discriminate. rewrite (IN_tipKind_para _ _ _ Hn).
  destruct (_ <=? _); [exact H|]. destruct (negb _); [exact H|]. destruct (_ <? 0); [exact H|]. destruct (negb _ && _); [exact H|].
  destruct (INE_openBlock done p q HTMLBlockKind H ltac:(discriminate)) as [H2 D2].
  assert (H3 : INE done (updCont (openBlock p HTMLBlockKind) (fun b => set_bn b (firstHtmlCond 0 7 (bytesAfterIndent p))))
                      (updCont (openBlock q HTMLBlockKind) (fun b => set_bn b (firstHtmlCond 0 7 (bytesAfterIndent p)))))
    by (apply INE_setters; [exact H2|setters|exact D2]).
  match goal with |- INE done (if ?c then _ else _) _ => destruct c end; [|exact H3].
  rewrite (IN_bai _ _ _ (proj2 H3)). apply INE_endBlock.
  - apply INE_consumeLine, INE_collectInline; [exact H3|rewrite cdepth_updCont; exact D2].
  - rewrite cd_consumeLine, cdepth_collectInline, cdepth_updCont. exact D2.
Qed.
Lemma okIN_startThematic : startOKIN startThematic.
Proof.
  intros done p q H. pose proof (proj2 H) as Hn. unfold startThematic. cbv zeta. rewrite (IN_indent _ _ _ Hn), (IN_bai _ _ _ Hn).
  destruct (_ <=? _); [exact H|]. destruct (_ <? 0); [exact H|].
  destruct (INE_openBlock done _ _ ThematicBreakKind (INE_consumeIndent done p q (indent p) H) ltac:(discriminate)) as [H2 D2].
  apply INE_endBlock; [apply INE_consumeLine, INE_advance, H2|rewrite cd_consumeLine, cd_advance; exact D2].
Qed.
Lemma okIN_startIndented : startOKIN startIndented.
Proof.
  intros done p q H. pose proof (proj2 H) as Hn. unfold startIndented. rewrite (IN_indent _ _ _ Hn), (IN_isRestBlank _ _ _ Hn), (IN_tipKind_para _ _ _ Hn).
  destruct (_ || _ || _); [exact H|].
  apply (INE_openBlock done (consumeIndent p codeBlockIndentLimit) (consumeIndent q codeBlockIndentLimit) IndentedCodeBlockKind); [apply INE_consumeIndent, H|discriminate].
Qed.

Lemma okE_of (f : lp -> lp) : In f blockStarts -> forall p, E p -> E (f p).
Proof. intros Hin. exact (proj1 (Forall_forall _ _) blockStarts_okE f Hin). Qed.

Lemma ickPara_deep done p q : IN done p q -> containerKind p = ParagraphKind -> (1 <= cdepth p)%nat.
Proof.
  intros H Ek. destruct (cdepth p) eqn:Ed; [|lia]. exfalso. rewrite (containerKind_root p Ed), (IN_root_doc _ _ _ H) in Ek. discriminate.
Qed.

Lemma okIN_startSetext : startOKIN startSetext.
Proof.
  intros done p q [He Hn]. split; [apply (okE_of startSetext); [cbn; tauto|exact He]|].
  unfold startSetext. cbv zeta. rewrite (IN_ckTest _ _ _ ParagraphKind Hn) by discriminate.
  destruct (negb (containerKind p =? ParagraphKind)) eqn:Ek; [exact Hn|]. apply negb_false_iff, Z.eqb_eq in Ek.
  pose proof (ickPara_deep _ _ _ Hn Ek) as Hd.
  rewrite (IN_indent _ _ _ Hn), (IN_bai _ _ _ Hn). destruct (_ <=? _); [exact Hn|]. destruct (_ =? 0); [exact Hn|].
  assert (Ec : containerHasParagraphContent q = containerHasParagraphContent p).
  { unfold containerHasParagraphContent. rewrite (IN_ckTest _ _ _ ParagraphKind Hn) by discriminate.
    rewrite (IN_contBlock_deep _ _ _ Hn Hd), (IN_source _ _ _ Hn). reflexivity. }
  rewrite Ec. destruct (negb _); [exact Hn|].
  apply IN_endBlock; [apply IN_consumeLine|left; rewrite cd_consumeLine, cdepth_updCont; exact Hd].
  apply IN_updCont; [exact Hn|intros E0; lia|reflexivity].
Qed.

(* the container's delimiter differs at the top (the item has one, the document has none), but there a new list is opened anyway *)
Lemma IN_listCond done p q delim : IN done p q ->
  negb (containerKind q =? ListKind) || negb ((if (containerKind q =? ListKind) || (containerKind q =? ListItemKind) then bchar (contBlock q) else 0) =? delim) =
  negb (containerKind p =? ListKind) || negb ((if (containerKind p =? ListKind) || (containerKind p =? ListItemKind) then bchar (contBlock p) else 0) =? delim).
Proof.
  intros H. rewrite (IN_ckTest _ _ _ ListKind H) by discriminate.
  destruct (cdepth p) eqn:Ed.
  - rewrite (containerKind_root p Ed), (IN_root_doc _ _ _ H). reflexivity.
  - unfold containerKind. rewrite (IN_contBlock_deep _ _ _ H); [reflexivity|lia].
Qed.

Lemma st3_notdesc' p : L2Kind2.st3 p -> (state p =? stDescending) || (state p =? stDescendTerminated) = false.
Proof. intros H. destruct (L2Kind2.st3_cases p H) as [E0|[E0|E0]]; rewrite E0; reflexivity. Qed.
Lemma cdepth_openBlock_can p k : L2Kind2.st3 p -> canContain (containerKind p) k = true -> cdepth (openBlock p k) = S (cdepth p).
Proof.
  intros Hs Hc. unfold openBlock. rewrite (st3_notdesc' p Hs). cbv zeta. cbn [openBlock_up]. rewrite containerKind_opened, Hc.
  unfold withCont, cdepth at 1. flds. unfold closeLastChildAt, withRoot. flds. fold (cdepth (if state p =? stOpening then withState p stOpenMatched else p)).
  rewrite cdepth_opened. reflexivity.
Qed.
Lemma cdepth_endBlock' p : L2Kind2.st3 p -> cdepth (endBlock p) = pred (cdepth p).
Proof.
  intros Hs. unfold endBlock. rewrite (st3_notdesc' p Hs). cbv zeta. pose proof (cdepth_opened p) as Hc.
  destruct (cdepth (if state p =? stOpening then withState p stOpenMatched else p)) as [|d] eqn:Ed; rewrite <- Hc.
  - unfold panic, cdepth. flds. unfold cdepth in Ed. rewrite Ed. reflexivity.
  - reflexivity.
Qed.

Lemma okIN_startListItem : startOKIN startListItem.
Proof.
  intros done p q H. pose proof (proj2 H) as Hn. unfold startListItem. cbv zeta. rewrite (IN_indent _ _ _ Hn), (IN_bai _ _ _ Hn).
  rewrite (IN_ckTest _ _ _ ParagraphKind Hn) by discriminate.
  destruct (_ <=? _); [exact H|].
  destruct (parseListMarker _) as [[delim n] mend]. destruct (_ || _); [exact H|]. destruct (_ && _); [exact H|].
  pose proof (INE_consumeIndent done p q (indent p) H) as H1.
  set (p1 := consumeIndent p (indent p)) in *. set (q1 := consumeIndent q (indent p)) in *. clearbody p1 q1.
  rewrite (IN_listCond _ _ _ delim (proj2 H1)).
  set (cdelim := if (containerKind p1 =? ListKind) || (containerKind p1 =? ListItemKind) then bchar (contBlock p1) else 0).
  match goal with |- INE done ?X ?Y =>
    match X with context [openBlock ?a ListItemKind] => match Y with context [openBlock ?b ListItemKind] => set (p2 := a); set (q2 := b) end end end.
  assert (H2 : INE done p2 q2 /\ containerKind p2 = ListKind).
  { unfold p2, q2. destruct (negb (containerKind p1 =? ListKind) || negb (cdelim =? delim)) eqn:Ec.
    - destruct (INE_openBlock done p1 q1 ListKind H1 ltac:(discriminate)) as [Ho Do].
      assert (Hq : INE done (updCont (openBlock p1 ListKind) (fun b => set_bchar b delim)) (updCont (openBlock q1 ListKind) (fun b => set_bchar b delim)))
        by (apply INE_setters; [exact Ho|setters|exact Do]).
      split; [exact Hq|]. apply containerKind_of; [apply Hq|].
      apply ckind_updCont; [intros b; apply bkind_set_bchar|]. apply ckind_openBlock3. apply H1.
    - apply orb_false_iff in Ec. destruct Ec as [Ec _]. apply negb_false_iff, Z.eqb_eq in Ec. tauto. }
  destruct H2 as [H2 K2]. clearbody p2 q2.
  destruct (INE_openBlock' done p2 q2 ListItemKind H2 ltac:(rewrite K2; reflexivity)) as [H3 D3].
  assert (H3' : INE done (updCont (openBlock p2 ListItemKind) (fun b => set_bchar b delim)) (updCont (openBlock q2 ListItemKind) (fun b => set_bchar b delim)))
    by (apply INE_setters; [exact H3|setters|exact D3]).
  destruct (INE_openBlock done _ _ ListMarkerKind H3' ltac:(discriminate)) as [H4 D4].
  match goal with |- INE done ?X ?Y =>
    match X with context [endBlock ?a] => match Y with context [endBlock ?b] => assert (Hq : INE done (endBlock a) (endBlock b)); [|set (p5 := endBlock a) in *; set (q5 := endBlock b) in *] end end end.
  { apply INE_endBlock; [apply INE_advance, H4|rewrite cd_advance; exact D4]. }
  assert (D5 : (1 <= cdepth p5)%nat).
  { unfold p5. rewrite cdepth_endBlock' by (apply L2Kind2.st3_advance, H4). rewrite cd_advance.
    rewrite cdepth_openBlock_can; [rewrite cdepth_updCont; cbn; lia|apply H3'|].
    assert (K3 : containerKind (updCont (openBlock p2 ListItemKind) (fun b => set_bchar b delim)) = ListItemKind).
    { apply containerKind_of; [apply H3'|]. apply ckind_updCont; [intros b; apply bkind_set_bchar|]. apply ckind_openBlock3. apply H2. }
    rewrite K3. reflexivity. }
  clearbody p5 q5. rewrite (IN_isRestBlank _ _ _ (proj2 Hq)), (IN_indent _ _ _ (proj2 Hq)).
  destruct (isRestBlank p5); [apply INE_consumeLine, INE_setters; [exact Hq|setters|exact D5]|].
  destruct (indent p5 <? 1); [apply INE_setters; [exact Hq|setters|exact D5]|].
  destruct (4 <? indent p5); apply INE_setters; try (apply INE_consumeIndent, Hq); try setters; rewrite ?cd_consumeIndent; exact D5.
Qed.

Lemma blockStarts_okIN : Forall startOKIN blockStarts.
Proof.
  unfold blockStarts. repeat apply Forall_cons; try apply Forall_nil.
  - exact okIN_startBlockQuote. - exact okIN_startATX. - exact okIN_startFenced. - exact okIN_startHTML.
  - exact okIN_startSetext. - exact okIN_startThematic. - exact okIN_startListItem. - exact okIN_startIndented.
Qed.

(* ---- openNewBlocks ---- *)
Lemma F_withState p s : F p -> F (withState p s).
Proof. intros H. exact H. Qed.

Lemma IN_tryStarts done : forall fs p q, Forall startOKIN fs -> Forall startOKE fs -> F p -> IN done p q ->
  irelBP done (tryStarts fs p) (tryStarts fs q) /\ F (snd (tryStarts fs p)).
Proof.
  induction fs as [|f r IH]; intros p q Hn He Hf H; [split; [apply irelBP_mk, H|exact Hf]|].
  cbn [tryStarts]. cbv zeta. inversion Hn as [|? ? Hn1 Hnr]; subst. inversion He as [|? ? He1 Her]; subst.
  assert (H1 : INE done (f (withState p stOpening)) (f (withState q stOpening))).
  { apply Hn1. split; [split; [left; left; reflexivity|exact Hf]|apply IN_withState, H]. }
  rewrite (IN_state _ _ _ (proj2 H1)). destruct (_ || _); [split; [apply irelBP_mk, H1|apply H1]|].
  apply IH; [assumption|assumption|apply H1|apply H1].
Qed.

Lemma IN_opening_loop done : forall fuel p q, F p -> IN done p q ->
  irelBP done (opening_loop fuel p) (opening_loop fuel q) /\ F (snd (opening_loop fuel p)).
Proof.
  induction fuel as [|f IH]; intros p q Hf H; [split; [apply irelBP_mk, H|exact Hf]|]. cbn [opening_loop].
  rewrite (IN_ckTest _ _ _ ParagraphKind H) by discriminate. rewrite (ikindEq_acceptsLines _ _ (IN_containerKind _ _ _ H)).
  destruct (_ || _); [|split; [apply irelBP_mk, H|exact Hf]].
  destruct (IN_tryStarts done blockStarts p q blockStarts_okIN blockStarts_okE Hf H) as [[Eb H1] F1].
  destruct (tryStarts blockStarts p) as [b p1]. destruct (tryStarts blockStarts q) as [b' q1]. cbn [fst snd] in *. subst b'.
  destruct b; [|split; [apply irelBP_mk, H1|exact F1]].
  rewrite (IN_state _ _ _ H1). destruct (_ =? stLineConsumed); [split; [apply irelBP_mk, H1|exact F1]|]. apply IH; assumption.
Qed.

Lemma IN_deferredClose done p q : IN done p q -> IN done (deferredClose p) (deferredClose q).
Proof.
  intros H. unfold deferredClose. cbv zeta. rewrite (IN_isRestBlank _ _ _ H).
  destruct (IN_tip _ _ _ H) as (E & V & Hdeep & Htop). rewrite E.
  set (tp := tipDepth (bheight (root p)) (root p)) in *.
  assert (Ek : match getAt (S (S tp)) (root q) with Some t => bkind t =? ParagraphKind | None => false end =
               match getAt tp (root p) with Some t => bkind t =? ParagraphKind | None => false end).
  { rewrite <- E. destruct tp as [|t] eqn:Et.
    - destruct (Htop eq_refl) as (bq & Eq & Kq). rewrite Eq, Kq. cbn [getAt]. rewrite (IN_root_doc _ _ _ H). reflexivity.
    - rewrite (Hdeep ltac:(lia)). reflexivity. }
  rewrite Ek. destruct (_ && _); [apply IN_withCont; assumption|].
  rewrite (IN_lineStart _ _ _ H). apply IN_closeHere, H.
Qed.

Lemma IN_openNewBlocks done p q am : F p -> IN done p q -> len (line p) <> 0 -> irelBP done (openNewBlocks p am) (openNewBlocks q am).
Proof.
  intros Hf H Hl. unfold openNewBlocks. rewrite (IN_line _ _ _ H). destruct (Z.eqb_spec (len (line p)) 0) as [E0|_]; [contradiction|].
  destruct (IN_opening_loop done (S (length (line p))) p q Hf H) as [[Eb H1] _].
  destruct (opening_loop (S (length (line p))) p) as [ht p1]. destruct (opening_loop (S (length (line p))) q) as [ht' q1]. cbn [fst snd] in *. subst ht'.
  destruct am; [apply irelBP_mk, H1|apply irelBP_mk, IN_deferredClose, H1].
Qed.

(* ---- addLineText, decomposed ---- *)
Lemma addLineText_eq p : addLineText p =
  alt_tail (isRestBlank p) (containerKind (alt_blank p)) (alt_slb (alt_llb (isRestBlank p) (alt_blank p)) (alt_blank p)).
Proof. unfold addLineText, alt_tail, alt_slb, alt_llb, alt_blank, qgoF, qblankF, containerKind. cbv beta zeta. reflexivity. Qed.

(* the frame after a blank line seen by the quote itself *)
Definition setLast (l : list block) : list block := match rev l with [] => [] | c :: _ => removelast l ++ [set_blast c true] end.
Definition blankFr (b : bool) (done : frame) : frame := if b then (setLast (fst done), snd done) else done.
Definition isNil {A} (l : list A) : bool := match l with [] => true | _ => false end.
Definition blankX (p : lp) : bool := isRestBlank p && Nat.eqb (cdepth p) 0 && isNil (bkids (root p)).

Lemma itop_blankF done bp bq : itopRel done bp bq -> itopRel (blankFr (isNil (bkids bp)) done) (qblankF bp) (qblankF bq).
Proof.
  intros T. unfold qblankF. destruct (lastBlock bp) as [c|] eqn:El.
  - pose proof (lastBlock_some_ne _ _ El) as Hn. rewrite (itop_lastBlock _ _ _ T Hn), El.
    assert (En : isNil (bkids bp) = false) by (destruct (bkids bp); [contradiction|reflexivity]). rewrite En. cbn [blankFr]. apply itop_set_lastBlocks; assumption.
  - pose proof (lastBlock_none_nil _ El) as Hk. rewrite Hk. cbn [isNil blankFr].
    destruct T as (K1 & K2 & K3 & KA & dn & E1 & E2 & E3). rewrite Hk, app_nil_r in E3.
    destruct (lastBlock bq) as [c|] eqn:Elq.
    + unfold itopRel. rewrite bkind_set_lastBlocks', isOpen_set_lastBlocks, auxOf_set_lastBlocks. cbn [fst snd].
      repeat split; try assumption.
      exists (removelast dn ++ [set_blast c true]).
      assert (Ed : dn = removelast dn ++ [c]) by (rewrite <- E3; apply lastBlock_split, Elq).
      repeat split.
      * rewrite <- E1. unfold setLast. assert (Er : rev dn = c :: rev (removelast dn)) by (rewrite Ed at 1; rewrite rev_app_distr; reflexivity). rewrite Er. reflexivity.
      * rewrite Ed in E2. apply Forall_app in E2. destruct E2 as [A B]. apply Forall_app. split; [exact A|].
        constructor; [|constructor]. inversion B; subst. unfold closedB in *. destruct c; assumption.
      * rewrite bkids_set_lastBlocks, E3, Hk, app_nil_r. reflexivity.
    + unfold itopRel. cbn [fst snd]. repeat split; try assumption. exists dn.
      assert (Ed : dn = []) by (rewrite <- E3; apply lastBlock_none_nil, Elq).
      repeat split; [rewrite <- E1, Ed; reflexivity|exact E2|rewrite Hk, app_nil_r; exact E3].
Qed.
Lemma IN_updCont_top done done' p q f g : IN done p q -> cdepth p = O ->
  (forall bq, itopRel done (root p) bq -> itopRel done' (f (root p)) (g bq)) -> IN done' (updCont p f) (updCont q g).
Proof.
  intros H Hc H0. destruct (IN_cont _ _ _ H) as (d & Ep & Eq & V). insplit H. cbn [container] in Ep, Eq. subst cont cont'.
  unfold cdepth in Hc. cbn [container] in Hc. subst d. unfold updCont, withRoot, cdepth. flds. apply IN_mk.
  destruct T as (_ & bl & bq & Ebq & L & T). split.
  - exists O. repeat split. cbn [updAt getAt]. discriminate.
  - exists (set_lastBlocks bl [g bq]), (g bq). split; [apply (fr_updAt rt' bl bq O g Ebq L)|]. split; [apply (listRel_set bl bq), L|apply H0, T].
Qed.
Lemma IN_alt_blank done p q : IN done p q -> IN (blankFr (blankX p) done) (alt_blank p) (alt_blank q).
Proof.
  intros H. unfold alt_blank, blankX. rewrite (IN_isRestBlank _ _ _ H). destruct (isRestBlank p); [|exact H]. cbn [andb].
  destruct (cdepth p) as [|n] eqn:Ed.
  - cbn [Nat.eqb andb]. apply (IN_updCont_top done _ p q qblankF qblankF H Ed). intros bq T. apply itop_blankF, T.
  - cbn [Nat.eqb andb blankFr]. apply IN_updCont_same; [exact H|]. intros E0. rewrite Ed in E0. discriminate.
Qed.

Lemma iframe_upd done rp rq dd f g x : iframeRel done rp rq -> getAt dd rp = Some x ->
  (dd = O -> forall bq, itopRel done rp bq -> itopRel done (f rp) (g bq)) -> ((1 <= dd)%nat -> f x = g x) ->
  iframeRel done (updAt dd f rp) (updAt (S (S dd)) g rq).
Proof.
  intros (bl & bq & Eq & L & T) Hx H0 H1. exists (set_lastBlocks bl [updAt dd g bq]), (updAt dd g bq).
  split; [apply (fr_updAt rq bl bq dd g Eq L)|]. split; [apply (listRel_set bl bq), L|].
  apply (itop_updAt done rp bq dd f g x T Hx); [intros ->; apply H0; [reflexivity|exact T]|exact H1].
Qed.
Lemma iframe_list_blast done rp rq v : iframeRel done rp rq -> iframeRel done rp (updAt 1 (fun b => set_blast b v) rq).
Proof.
  intros (bl & bq & Eq & (L1 & L2 & L3 & L4) & T). exists (set_blast bl v), bq. split; [|split; [|exact T]].
  - cbn [updAt]. rewrite (fr_last _ _ Eq), bkids_set_lastBlocks, Eq. reflexivity.
  - unfold listRel. rewrite auxOf_set_blast. destruct bl; cbn [bkind isOpen bend bkids set_blast] in *. tauto.
Qed.
Lemma itop_blast done bp bq v v' : itopRel done bp bq -> itopRel done (set_blast bp v) (set_blast bq v').
Proof.
  intros (K1 & K2 & K3 & KA & dn & E1 & E2 & E3). unfold itopRel. rewrite auxOf_set_blast. destruct bp, bq. cbn [bkind isOpen bend bkids set_blast] in *. repeat split; try assumption. exists dn. repeat split; assumption.
Qed.
Lemma iframe_root_blast done rp rq v : iframeRel done rp rq -> iframeRel done rp (set_blast rq v).
Proof. intros (bl & bq & Eq & L & T). exists bl, bq. split; [destruct rq; exact Eq|tauto]. Qed.
Lemma SLB_keep v : forall d k rt x, getAt k rt = Some x -> exists y, getAt k (setLastBlankUpTo d v rt) = Some y.
Proof.
  induction d as [|d IH]; intros k rt x H; cbn [setLastBlankUpTo].
  - apply (getAt_updAt_keep (fun b => set_blast b v) (fun y => bkids_set_blast y v) O k rt x H).
  - destruct (getAt_updAt_keep (fun b => set_blast b v) (fun y => bkids_set_blast y v) (S d) k rt x H) as (y & Hy). apply (IH k _ y Hy).
Qed.
Lemma iframe_SLB done v v' : forall d rp rq, iframeRel done rp rq -> getAt d rp <> None -> ((1 <= d)%nat -> v = v') ->
  iframeRel done (setLastBlankUpTo d v rp) (setLastBlankUpTo (S (S d)) v' rq).
Proof.
  induction d as [|d IH]; intros rp rq Fr V Hv.
  - change (setLastBlankUpTo 2 v' rq) with (set_blast (updAt 1 (fun b => set_blast b v') (updAt 2 (fun b => set_blast b v') rq)) v').
    change (setLastBlankUpTo 0 v rp) with (updAt 0 (fun b => set_blast b v) rp).
    apply iframe_root_blast, iframe_list_blast. apply (iframe_upd done rp rq O _ _ rp Fr eq_refl); [|intros; lia].
    intros _ bq T. apply itop_blast, T.
  - assert (Ev : v = v') by (apply Hv; lia). subst v'. destruct (getAt (S d) rp) as [x|] eqn:Ex; [|contradiction].
    change (setLastBlankUpTo (S d) v rp) with (setLastBlankUpTo d v (updAt (S d) (fun b => set_blast b v) rp)).
    change (setLastBlankUpTo (S (S (S d))) v rq) with (setLastBlankUpTo (S (S d)) v (updAt (S (S (S d))) (fun b => set_blast b v) rq)).
    apply IH; [| |intros _; reflexivity].
    + apply (iframe_upd done rp rq (S d) _ _ x Fr Ex); [intros; lia|reflexivity].
    + destruct (getAt_prefix d rp x Ex) as (y & Hy).
      destruct (getAt_updAt_keep (fun b => set_blast b v) (fun z => bkids_set_blast z v) (S d) d rp y Hy) as (z & Hz). rewrite Hz. discriminate.
Qed.
Lemma IN_alt_slb done p q v v' : IN done p q -> ((1 <= cdepth p)%nat -> v = v') -> IN done (alt_slb v p) (alt_slb v' q).
Proof.
  intros H Hv. destruct (IN_cont _ _ _ H) as (d & Ep & Eq & V). unfold alt_slb, cdepth in *. rewrite Ep, Eq in *.
  insplit H. cbn [container root] in *. subst cont cont'. unfold withRoot. flds. apply IN_mk.
  destruct T as (_ & Fr). split.
  - exists d. repeat split. destruct (getAt d rt) as [x|] eqn:Ex; [|contradiction].
    destruct (SLB_keep v d d rt x Ex) as (y & Hy). rewrite Hy. discriminate.
  - apply (iframe_SLB done v v' d rt rt' Fr V Hv).
Qed.

Lemma IN_alt_llb done p q b : IN done p q -> (1 <= cdepth p)%nat -> alt_llb b q = alt_llb b p.
Proof. intros H Hd. unfold alt_llb. cbv zeta. rewrite (IN_contBlock_deep _ _ _ H Hd), (IN_lineStart _ _ _ H). reflexivity. Qed.

Lemma IN_qgoF done p q : IN done p q -> (1 <= cdepth p)%nat -> IN done (qgoF p) (qgoF q).
Proof.
  intros H Hd. unfold qgoF. cbv zeta.
  assert (Ec : isCode (containerKind q) = isCode (containerKind p)) by (destruct (IN_containerKind _ _ _ H) as [->|[-> ->]]; reflexivity).
  assert (Eh : (containerKind q =? HTMLBlockKind) = (containerKind p =? HTMLBlockKind)) by (apply (IN_ckTest _ _ _ _ H); discriminate).
  rewrite Ec, Eh, (IN_lineStart _ _ _ H), (IN_li _ _ _ H), (IN_line _ _ _ H).
  match goal with |- IN done (if _ then updCont ?a _ else _) (if _ then updCont ?b _ else _) => assert (H1 : IN done a b) by (apply IN_setter; assumption);
    assert (Hd1 : (1 <= cdepth a)%nat) by (rewrite cdepth_updCont; exact Hd);
    set (p1 := a) in *; set (q1 := b) in *; clearbody p1 q1 end.
  rewrite (IN_line _ _ _ H1), (IN_lineStart _ _ _ H1). destruct (_ && _); [apply IN_setter; assumption|exact H1].
Qed.

Lemma iacceptsLines_deep done p q : IN done p q -> acceptsLines (containerKind p) = true -> (1 <= cdepth p)%nat.
Proof.
  intros H Ha. destruct (cdepth p) eqn:Ed; [|lia]. exfalso. rewrite (containerKind_root p Ed), (IN_root_doc _ _ _ H) in Ha. discriminate.
Qed.

(* goodSt (NoPanic568): when the container does not accept lines, a block start was attempted, so the state is an "open" one *)
Lemma IN_alt_tail done p q b kp kq : IN done p q -> ikindEq kq kp ->
  (acceptsLines kp = true -> (1 <= cdepth p)%nat) -> (acceptsLines kp = false -> L2Kind2.st3 p) ->
  IN done (alt_tail b kp p) (alt_tail b kq q).
Proof.
  intros H Hk Hd Hs. unfold alt_tail. rewrite (ikindEq_acceptsLines _ _ Hk). destruct (acceptsLines kp) eqn:Ea.
  - specialize (Hd eq_refl). rewrite (IN_li _ _ _ H), (IN_line _ _ _ H), (IN_tabRem _ _ _ H), (IN_lineStart _ _ _ H).
    destruct (_ && _ && _ && _); [|apply IN_qgoF; assumption].
    apply IN_qgoF; [apply IN_consumeIndent, IN_setter; assumption|rewrite cd_consumeIndent, cdepth_updCont; exact Hd].
  - destruct (negb b); [|exact H]. cbv zeta. specialize (Hs eq_refl).
    pose proof (IN_openBlock done p q ParagraphKind H ltac:(left; discriminate)) as Ho. rewrite (IN_indent _ _ _ Ho).
    apply IN_qgoF; [apply IN_consumeIndent, Ho|]. rewrite cd_consumeIndent. apply cdepth_openBlock, st3_notdesc', Hs.
Qed.


Lemma containerKind_alt_blank p : containerKind (alt_blank p) = containerKind p.
Proof.
  unfold alt_blank. destruct (isRestBlank p); [|reflexivity]. apply L2Kind2.containerKind_updCont.
  intros b. unfold qblankF. destruct (lastBlock b); [destruct b; reflexivity|reflexivity].
Qed.
Lemma IN_addLineText done p q : IN done p q -> goodSt' p -> IN (blankFr (blankX p) done) (addLineText p) (addLineText q).
Proof.
  intros H Hg. rewrite !addLineText_eq. rewrite (IN_isRestBlank _ _ _ H). pose proof (IN_alt_blank _ _ _ H) as H1.
  set (done' := blankFr (blankX p) done) in *.
  assert (Hsl : IN done' (alt_slb (alt_llb (isRestBlank p) (alt_blank p)) (alt_blank p)) (alt_slb (alt_llb (isRestBlank p) (alt_blank q)) (alt_blank q))).
  { apply IN_alt_slb; [exact H1|]. intros Hd. symmetry. apply (IN_alt_llb _ _ _ _ H1 Hd). }
  apply IN_alt_tail; [exact Hsl|apply (IN_containerKind _ _ _ H1)| |].
  - intros Ha. change (cdepth (alt_slb (alt_llb (isRestBlank p) (alt_blank p)) (alt_blank p))) with (cdepth (alt_blank p)).
    apply (iacceptsLines_deep _ _ _ H1 Ha).
  - intros Ha. rewrite containerKind_alt_blank in Ha. specialize (Hg Ha). unfold alt_slb, alt_blank. destruct (isRestBlank p); exact Hg.
Qed.

(* when the blank-line rule fires at the top with no plain child, the plain run leaves the document without children *)
Lemma addLineText_blankX p : blankX p = true -> bkind (root p) = documentKind -> bkids (root (addLineText p)) = [].
Proof.
  intros HX Hk. unfold blankX in HX. apply andb_true_iff in HX. destruct HX as [HX Hn]. apply andb_true_iff in HX. destruct HX as [Hb Hd].
  apply Nat.eqb_eq in Hd. assert (Ek : bkids (root p) = []) by (destruct (bkids (root p)); [reflexivity|discriminate Hn]).
  rewrite addLineText_eq, Hb.
  assert (E1 : alt_blank p = p).
  { unfold alt_blank. rewrite Hb. unfold updCont. rewrite Hd. cbn [updAt]. unfold qblankF, lastBlock. rewrite Ek. cbn [rev].
    destruct p as [src rt cont ls ln i cl tr st pn]. unfold withRoot, cdepth in *. cbn [container root] in *.
    destruct cont as [d|]; cbn in Hd; subst; reflexivity. }
  rewrite E1.
  assert (Eck : containerKind p = documentKind) by (rewrite (containerKind_root p Hd); exact Hk).
  rewrite Eck. unfold alt_tail. change (acceptsLines documentKind) with false. cbv iota. cbn [negb].
  unfold alt_slb. rewrite Hd. cbn [setLastBlankUpTo updAt root withRoot setLP]. destruct (root p); cbn in *. exact Ek.
Qed.

(* ---- the line is never changed ---- *)
Lemma line_opened p : line (if state p =? stOpening then withState p stOpenMatched else p) = line p.
Proof. destruct (_ =? _); reflexivity. Qed.
Lemma line_advance p n : line (advance p n) = line p.
Proof.
  unfold advance. destruct (n <? 0); [reflexivity|]. destruct (n =? 0); [reflexivity|]. cbv zeta.
  destruct (_ <? _); unfold panic, withCursor; flds; apply line_opened.
Qed.
Lemma line_consumeLine p : line (consumeLine p) = line p.
Proof. unfold consumeLine. cbv zeta. destruct (_ || _); [|destruct (_ =? stDescending)]; unfold withState; flds; apply line_advance. Qed.
Lemma line_consumeIndent_loop : forall f p n, line (consumeIndent_loop f p n) = line p.
Proof.
  induction f as [|f IH]; intros p n; [reflexivity|]. cbn [consumeIndent_loop]. destruct (n <=? 0); [reflexivity|]. cbv zeta.
  destruct (_ && (_ =? 32)); [rewrite IH; unfold withCursor; flds; apply line_opened|].
  destruct (_ && (_ =? 9)); [|unfold panic; flds; apply line_opened].
  destruct (n <? _); [unfold withCursor; flds; apply line_opened|rewrite IH; unfold withCursor; flds; apply line_opened].
Qed.
Lemma line_consumeIndent p n : line (consumeIndent p n) = line p. Proof. apply line_consumeIndent_loop. Qed.
Lemma line_collectInline p k n : line (collectInline p k n) = line p.
Proof.
  unfold collectInline. destruct (_ =? stDescendTerminated); [reflexivity|]. cbv zeta. unfold updCont at 1, withRoot. flds.
  rewrite line_advance. destruct (0 <? _); [unfold updCont, withRoot; flds; rewrite line_advance|]; apply line_opened.
Qed.
Lemma line_matchRule p : line (snd (matchRule p)) = line p.
Proof.
  unfold matchRule. cbv zeta. destruct (_ || _); [reflexivity|].
  destruct (_ =? ListItemKind).
  { unfold matchListItem. destruct (isRestBlank p); [destruct (negb _); [reflexivity|apply line_consumeIndent]|].
    destruct (_ <=? _); [apply line_consumeIndent|reflexivity]. }
  destruct (_ =? BlockQuoteKind).
  { unfold matchBlockQuote. cbv zeta. destruct (_ <=? _); [reflexivity|]. destruct (negb _); [reflexivity|]. cbn [snd].
    unfold eatQuoteMarker. cbv zeta. destruct (0 <? _); rewrite ?line_consumeIndent, line_advance, line_consumeIndent; reflexivity. }
  destruct (_ =? FencedCodeBlockKind).
  { unfold matchFenced. cbv zeta. destruct (if _ <? _ then _ else false); cbn [snd]; [apply line_consumeLine|apply line_consumeIndent]. }
  destruct (_ =? IndentedCodeBlockKind).
  { unfold matchIndented. cbv zeta. destruct (_ <? _); [destruct (negb _)|]; cbn [snd]; try reflexivity; apply line_consumeIndent. }
  destruct (_ =? HTMLBlockKind); [|reflexivity].
  unfold matchHTML. destruct (htmlEnd _ _); [|reflexivity]. destruct (isRestBlank _); [reflexivity|]. cbn [snd].
  rewrite line_consumeLine. apply line_collectInline.
Qed.
Lemma line_descend_loop : forall f p d, line (snd (descend_loop f p d)) = line p.
Proof.
  induction f as [|f IH]; intros p d; [reflexivity|]. cbn [descend_loop]. cbv zeta.
  destruct (getAt (S d) (root p)) as [c|]; [|reflexivity]. destruct (negb (isOpen c)); [reflexivity|].
  destruct (negb (hasMatch _)); [reflexivity|].
  pose proof (line_matchRule (withState (withCont p (Some (S d))) stDescending)) as Hm.
  destruct (matchRule _) as [ok p2]. cbn [snd] in Hm. change (line (withState (withCont p (Some (S d))) stDescending)) with (line p) in Hm.
  destruct (state p2 =? stDescendTerminated); [exact Hm|]. destruct (negb ok); [exact Hm|]. rewrite IH. exact Hm.
Qed.

End Nest.

Print Assumptions IN_addLineText.
Print Assumptions IN_openNewBlocks.
Print Assumptions IN_descend_loop.
Print Assumptions addLineText_blankX.
