From Coq Require Import List ZArith Lia Bool.
Import ListNotations.
Require Import Base Tables Utf8 Tree Recog Inl3b Driver Inl3e Render.
Open Scope Z_scope.

(* formatWriter (format/format.go:374): the writer is healthy in this model; the sticky error is modelled separately *)
Record fw := { indents : list bytes; started : bool; hasWritten : bool; fout : bytes }.
Definition fwOut w o := {| indents := indents w; started := started w; hasWritten := hasWritten w; fout := fout w ++ o |}.
Definition fwSet w st hw := {| indents := indents w; started := st; hasWritten := hw; fout := fout w |}.
Definition push w i := {| indents := indents w ++ [i]; started := started w; hasWritten := hasWritten w; fout := fout w |}.
Definition pop w := {| indents := removelast (indents w); started := started w; hasWritten := hasWritten w; fout := fout w |}.

(* writeTrimmedIndent: drop trailing all-blank indents, cut the last one after its last non-space rune *)
Definition lastNonSpaceEnd (s : bytes) : Z :=   (* -1 if all space *)
  fold_left (fun acc irw => let '(i, r, w) := irw in if isSpaceRune r then acc else i + w) (runes (S (length s)) s 0) (-1).
Fixpoint trimmedIndent (rl : list bytes) : bytes :=   (* rl reversed *)
  match rl with
  | [] => []
  | last :: before =>
    let e := lastNonSpaceEnd last in
    if e <? 0 then trimmedIndent before else concat (rev before) ++ upto last e
  end.

Fixpoint findEol10 (s : bytes) (i : Z) : Z := match s with [] => -1 | c :: r => if c =? 10 then i else findEol10 r (i + 1) end.

(* fw.s *)
Fixpoint fws_loop (fuel : nat) (w : fw) (s : bytes) : fw :=
  match fuel with
  | O => w
  | S f =>
    let i := findEol10 s 0 in
    if i <? 0 then
      if len s =? 0 then w else
      let w := fwSet w (started w) true in
      let w := if negb (started w) then fwOut w (concat (indents w)) else w in
      fwSet (fwOut w s) true true
    else
      let w := fwSet w (started w) true in
      if negb (started w) && (i =? 0) then
        fws_loop f (fwOut (fwOut w (trimmedIndent (rev (indents w)))) [10]) (from_ s 1)
      else
        let w := if negb (started w) then fwOut w (concat (indents w)) else w in
        fws_loop f (fwSet (fwOut w (upto s (i + 1))) false true) (from_ s (i + 1))
  end.
Definition ws (w : fw) (s : bytes) : fw := fws_loop (S (length s)) w s.

(* codeFenceChar / codeFenceLength (format.go:310-372) *)
Definition infoOf (b : block) : option inline :=
  if bkind b =? FencedCodeBlockKind then
    match bik b with i0 :: _ => if ikind i0 =? InfoStringKind then Some i0 else None | [] => None end
  else None.
Definition codeFenceChar (src : bytes) (b : block) : Z :=
  match infoOf b with
  | Some i0 => if existsb (fun c => c =? 96) (spanOf src i0) then 126 else 96
  | None => 96
  end.
(* state: -1 start of line, 0 not fence-like, n>0 fence run *)
Definition cfl_text (fence : Z) (st : Z * Z * Z) (c : Z) : Z * Z * Z :=
  let '(state, indent, minFence) := st in
  if c =? 32 then
    if state =? -1 then (let indent := indent + 1 in if 4 <=? indent then (0, indent, minFence) else (state, indent, minFence))
    else (state, indent, minFence)
  else if c =? 10 then ((-1), 0, if minFence <? state then state else minFence)
  else if c =? fence then (if state <? 0 then (1, indent, minFence) else if 0 <? state then (state + 1, indent, minFence) else (state, indent, minFence))
  else (0, indent, minFence).
Definition codeFenceLength (src : bytes) (b : block) : Z :=
  let fence := codeFenceChar src b in
  let '(_, _, mf) :=
    fold_left (fun st i =>
      let '(state, indent, minFence) := st in
      if ikind i =? TextKind then fold_left (cfl_text fence) (spanOf src i) st
      else if (ikind i =? SoftLineBreakKind) || (ikind i =? HardLineBreakKind) then ((-1), 0, if minFence <? state then state else minFence)
      else if ikind i =? IndentKind then
        (if state =? -1 then (let indent := indent + iindent i in if 4 <=? indent then (0, indent, minFence) else (state, indent, minFence)) else st)
      else st) (bik b) ((-1), 0, 2) in
  mf + 1.

Definition textOf (src : bytes) (i : inline) : bytes := textOfChildren src i.

(* visitInline / postInline *)
Definition needsEscape (r : Z) : bool := existsb (Z.eqb r) [92;91;93;42;95;45;61;60;62;38;35;126;96].
(* a "+" at the start of a line, or a "." / ")" after one to nine digits at the start of a line, followed by a blank or
   the end of the text, would be read back as a list marker (format.go: leadingDigits, endsListMarker) *)
Definition endsListMarker (rest : bytes) : bool :=
  match rest with [] => true | c :: _ => (c =? 32) || (c =? 9) || (c =? 10) || (c =? 13) end.
Definition fmtText (src : bytes) (setext : bool) (dg : Z) (i : inline) : bytes :=
  let s := spanOf src i in
  snd (fold_left (fun st irw => let '(d, acc) := st in let '(ix, r, w) := irw in
         if (r =? 10) && setext then (d, acc) else
         let rest := from_ s (ix + w) in
         let esc := needsEscape r || ((d =? 0) && (r =? 43) && endsListMarker rest) ||
                    ((1 <=? d) && (d <=? 9) && ((r =? 46) || (r =? 41)) && endsListMarker rest) in
         let d' := if (0 <=? d) && (48 <=? r) && (r <=? 57) then d + 1 else -1 in
         (d', acc ++ (if esc then [92] else []) ++ sub s ix (ix + w)))
       (runes (S (length s)) s 0) (dg, [])).
(* leadingDigits over the previous siblings (nearest first) of a direct inline child of a block *)
Fixpoint leadingDigits (src : bytes) (prevs : list inline) (n : Z) : Z :=
  match prevs with
  | [] => n
  | p :: r =>
    if (ikind p =? SoftLineBreakKind) || (ikind p =? HardLineBreakKind) then n
    else if ikind p =? IndentKind then leadingDigits src r n
    else if ikind p =? TextKind then
      (if forallb (fun c => (48 <=? c) && (c <=? 57)) (spanOf src p) then leadingDigits src r (n + len (spanOf src p)) else -1)
    else -1
  end.
Definition isShortcut (i : inline) : bool :=
  if negb ((ikind i =? LinkKind) || (ikind i =? ImageKind)) || (len (ikids i) =? 0) then false else
  match rev (ikids i) with
  | l :: _ => if ikind l =? LinkLabelKind then false else negb (existsb (fun c => ikind c =? LinkDestinationKind) (lastTwo (ikids i)))
  | [] => false
  end.

Fixpoint fmtI (fuel : nat) (src : bytes) (pbKind : Z) (dg : Z) (w : fw) (i : inline) : fw :=
  match fuel with
  | O => w
  | S f =>
    let k := ikind i in
    if k =? LinkKind then
      let w := ws w [91] in
      let w := fold_left (fmtI f src pbKind (-1)) (ikids i) w in
      let w := ws w [93] in
      let ref := linkReference i in
      if negb (len ref =? 0) then
        if isShortcut i then ws w [91; 93] else ws (ws (ws w [91]) ref) [93]
      else
        let w := ws w [40] in
        let title := linkPart i LinkTitleKind in
        let w := match linkPart i LinkDestinationKind with
                 | Some d => let w := ws w (normalizeURI (textOf src d)) in
                             match title with Some _ => ws w [32] | None => w end
                 | None => w
                 end in
        let w := match title with Some t => ws (ws (ws w [34]) (textOf src t)) [34] | None => w end in
        ws w [41]
    else if k =? TextKind then
      if isCode pbKind then ws w (spanOf src i) else ws w (fmtText src (pbKind =? SetextHeadingKind) dg i)
    else if (k =? InfoStringKind) || (k =? LinkDestinationKind) || (k =? LinkLabelKind) || (k =? LinkTitleKind) then w
    else if negb ((0 <=? istart i) && (0 <=? iend i) && (istart i <=? iend i)) then w
    else ws w (spanOf src i)
  end.

(* preBlock / postBlock around the children; cursor facts are passed down *)
Definition spaces (n : Z) : bytes := repeat 32 (Z.to_nat n).
Fixpoint fmtB (fuel : nat) (src : bytes) (w : fw) (idx : Z) (parent : option block) (b : block) : fw :=
  match fuel with
  | O => w
  | S f =>
    let k := bkind b in
    let parentTight := match parent with Some p => isTightList p | None => false end in
    let kidsOf (w : fw) : fw :=
      match bkids b with
      | [] => fst (fold_left (fun wp i => let '(w, prevs) := wp in (fmtI (isize i) src k (leadingDigits src prevs 0) w i, i :: prevs)) (bik b) (w, []))
      | ks => fst (fold_left (fun wi c => let '(w, i) := wi in (fmtB f src w i (Some b) c, i + 1)) ks (w, 0))
      end in
    let around (w : fw) (ind : bytes) (post : fw -> fw) : fw := post (pop (kidsOf (push w ind))) in
    let nl (w : fw) := if hasWritten w then ws w [10] else w in
    if k =? ParagraphKind then
      let isFirst := (idx <=? 0) ||
                     ((idx =? 1) && match parent with
                                    | Some p => (bkind p =? ListItemKind) && match bkids p with m :: _ => bkind m =? ListMarkerKind | [] => false end
                                    | None => false end) in
      let w := if isFirst then w else ws w [10] in
      around w [] (fun w => if parentTight then w else ws w [10])
    else if k =? ThematicBreakKind then
      let w := if hasWritten w then ws w [10;45;45;45;10;10] else ws w [42;42;42;10;10] in
      around w [] (fun w => w)
    else if k =? ListKind then
      let w := if hasWritten w then ws w [10] else w in
      around w [] (fun w => w)
    else if k =? ListItemKind then
      let w := if (0 <? idx) && negb (isTightList b) then ws w [10] else w in
      let '(w, ind) :=
        match bkids b with
        | m :: _ => if bkind m =? ListMarkerKind then
                      let mb := sub src (bstart m) (bend m) in (ws (ws w mb) [32], spaces (len mb + 1))
                    else (w, [])
        | [] => (w, [])
        end in
      around w ind (fun w => ws w [10])
    else if k =? LinkReferenceDefinitionKind then
      let w := nl w in
      match bik b with
      | l :: d :: rest =>
        let w := ws (ws (ws w [91]) (iref l)) [93;58;32] in
        let w := ws w (textOf src d) in
        let w := match rest with t :: _ => ws (ws (ws w [32;34]) (textOf src t)) [34] | [] => w end in
        ws w [10]
      | _ => w
      end
    else if k =? BlockQuoteKind then
      let w := nl w in
      around (ws w [62;32]) [62;32] (fun w => w)
    else if k =? IndentedCodeBlockKind then
      let w := nl w in
      let fence := repeat (codeFenceChar src b) (Z.to_nat (codeFenceLength src b)) in
      around (ws (ws w (repeat 96 (Z.to_nat (codeFenceLength src b)))) [10]) [] (fun w => ws (ws w fence) [10])
    else if k =? FencedCodeBlockKind then
      let w := nl w in
      let fence := repeat (codeFenceChar src b) (Z.to_nat (codeFenceLength src b)) in
      let w := ws w fence in
      let w := match infoOf b with Some i0 => ws w (spanOf src i0) | None => w end in
      around (ws w [10]) [] (fun w => ws (ws w fence) [10])
    else if k =? ATXHeadingKind then
      let w := nl w in
      around (ws (ws w (repeat 35 (Z.to_nat (bn b)))) [32]) [] (fun w => ws w [10])
    else if k =? SetextHeadingKind then
      around (nl w) [] (fun w => ws w (if bn b =? 1 then [10;61;61;61;61;61;10] else [10;45;45;45;45;45;10]))
    else if k =? HTMLBlockKind then around (nl w) [] (fun w => w)
    else w
  end.

Definition formatDoc (input : bytes) : bytes :=
  let '(roots, _) := parseFull input in
  let w0 := {| indents := []; started := false; hasWritten := false; fout := [] |} in
  fout (fst (fold_left (fun wi r => let '(w, i) := wi in
                          (fmtB (bheight (rb_blk r)) (rb_src r) w i None (rb_blk r), i + 1)) roots (w0, 0))).
