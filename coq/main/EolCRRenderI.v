From Coq Require Import List ZArith Lia Bool.
Import ListNotations.
Require Import Base Tables Utf8 Tree Recog Inl3b Driver Inl3e Render EolCRDefs EolCRBytes EolCRRdr EolCRRenderDefs EolCRRenderRE.
Open Scope Z_scope.

(* ====================================================================================================
   C14, CR clause, renderer, part 2: renderI / renderB / extractDefs on ONE tree over two sources related
   by crRel, with reference maps related entry by entry, under the tree fact dokI / dokB.
   ==================================================================================================== *)

(* ---- reference maps ---- *)
Definition dR (d d' : linkDef) : Prop := ld_dest d' = ld_dest d /\ RE (ld_title d) (ld_title d') /\ ld_has d' = ld_has d.
Definition refsR (m m' : list (bytes * linkDef)) : Prop := Forall2 (fun kv kv' => fst kv' = fst kv /\ dR (snd kv) (snd kv')) m m'.
Lemma lookupDef_rel m m' k : refsR m m' -> dR (lookupDef m k) (lookupDef m' k).
Proof.
  induction 1 as [|[k1 v1] [k2 v2] m m' [Hk Hv] H IH]; [repeat split; constructor|]. cbn [fst snd] in Hk, Hv. subst k2. cbn [lookupDef].
  destruct (Utf8.bytes_eqb k1 k); [exact Hv|exact IH].
Qed.
Lemma refsR_keys m m' (p : bytes -> bool) : refsR m m' -> existsb (fun kv => p (fst kv)) m' = existsb (fun kv => p (fst kv)) m.
Proof. induction 1 as [|kv kv' m m' [Hk _] H IH]; [reflexivity|]. cbn [existsb]. rewrite Hk, IH. reflexivity. Qed.
Lemma refsR_snoc m m' k v v' : refsR m m' -> dR v v' -> refsR (m ++ [(k, v)]) (m' ++ [(k, v')]).
Proof. intros H Hv. apply Forall2_app; [exact H|]. constructor; [split; [reflexivity|exact Hv]|constructor]. Qed.

(* ---- parts of the tree fact ---- *)
Lemma dokI_eq src i : dokI src i =
  (if ikind i =? LinkDestinationKind then forallb (kidNoEol src) (ikids i) else true) &&
  (if ikind i =? AutolinkKind then match ikids i with c :: _ => spanNoEol src c | [] => true end else true) &&
  forallb (dokI src) (ikids i).
Proof. destruct i; reflexivity. Qed.
Lemma dokI_kids src i : dokI src i = true -> forall c, In c (ikids i) -> dokI src c = true.
Proof. rewrite dokI_eq. intros H c Hc. apply andb_true_iff in H. destruct H as [_ H]. rewrite forallb_forall in H. apply H, Hc. Qed.
Lemma dokI_dest src i : dokI src i = true -> ikind i = LinkDestinationKind -> forallb (kidNoEol src) (ikids i) = true.
Proof.
  rewrite dokI_eq. intros H E. apply andb_true_iff in H. destruct H as [H _]. apply andb_true_iff in H. destruct H as [H _].
  rewrite E in H. exact H.
Qed.
Lemma dokI_auto src i c r : dokI src i = true -> ikind i = AutolinkKind -> ikids i = c :: r -> spanNoEol src c = true.
Proof.
  rewrite dokI_eq. intros H E Ek. apply andb_true_iff in H. destruct H as [H _]. apply andb_true_iff in H. destruct H as [_ H].
  rewrite E, Ek in H. exact H.
Qed.
Lemma dokB_eq src b : dokB src b = forallb (dokI src) (bik b) && forallb (dokB src) (bkids b).
Proof. destruct b; reflexivity. Qed.

Lemma lastTwo_In {A} (l : list A) x : In x (lastTwo l) -> In x l.
Proof.
  unfold lastTwo. intros H. apply in_rev. destruct (rev l) as [|a [|b r]]; [destruct H| |].
  - destruct H as [<-|[]]. left. reflexivity.
  - destruct H as [<-|[<-|[]]]; [left; reflexivity|right; left; reflexivity].
Qed.
Lemma linkPart_spec i k d : linkPart i k = Some d -> In d (ikids i) /\ ikind d = k.
Proof.
  unfold linkPart. intros H. apply find_some in H. destruct H as [H1 H2]. split; [apply lastTwo_In, H1|apply Z.eqb_eq, H2].
Qed.

Section Tree.
  Variable c : cfg.
  Variables src src' : bytes.
  Hypothesis Hsrc : crRel src src'.
  Variables refs refs' : list (bytes * linkDef).
  Hypothesis Hrefs : refsR refs refs'.

  Lemma defOf_rel i : dokI src i = true -> dR (defOf refs src i) (defOf refs' src' i).
  Proof.
    intros Hi. unfold defOf. cbv zeta. destruct (negb (len (linkReference i) =? 0)); [apply lookupDef_rel, Hrefs|].
    repeat split; cbn [ld_dest ld_title ld_has].
    - destruct (linkPart i LinkDestinationKind) as [d|] eqn:E; [|reflexivity].
      destruct (linkPart_spec _ _ _ E) as [Hin Hk]. apply textOfChildren_eq; [exact Hsrc|].
      apply dokI_dest; [apply (dokI_kids src i Hi d Hin)|exact Hk].
    - destruct (linkPart i LinkTitleKind); [apply textOfChildren_RE, Hsrc|constructor].
  Qed.

  Lemma altText_RE : forall fuel i, RE (altText fuel src i) (altText fuel src' i).
  Proof.
    induction fuel as [|f IH]; intros i; [constructor|]. cbn [altText]. cbv zeta.
    destruct (ikind i =? TextKind); [apply escapeHTML_RE, spanOf_RE, Hsrc|].
    destruct (ikind i =? CharacterReferenceKind); [apply spanOf_RE, Hsrc|].
    destruct (_ || _ || _); [apply RE_refl|]. destruct (_ || _ || _); [constructor|].
    apply RE_flat_map. intros x _. apply IH.
  Qed.

  Lemma attr_RE n v v' : RE v v' -> RE (attr n v) (attr n v').
  Proof. intros H. unfold attr. repeat (apply RE_app; [apply RE_refl|]). apply RE_app; [exact H|apply RE_refl]. Qed.

  Lemma link_head_RE i name nm z z' : dokI src i = true -> RE z z' ->
    RE (openTagAttr c name ++ attr nm (escapeString (normalizeURI (ld_dest (defOf refs src i)))) ++
        (if ld_has (defOf refs src i) then attr s_title (escapeString (ld_title (defOf refs src i))) else []) ++ z)
       (openTagAttr c name ++ attr nm (escapeString (normalizeURI (ld_dest (defOf refs' src' i)))) ++
        (if ld_has (defOf refs' src' i) then attr s_title (escapeString (ld_title (defOf refs' src' i))) else []) ++ z').
  Proof.
    intros Hi Hz. destruct (defOf_rel i Hi) as (D1 & D2 & D3). rewrite D1, D3.
    apply RE_app; [apply RE_refl|]. apply RE_app; [apply RE_refl|]. apply RE_app; [|exact Hz].
    destruct (ld_has (defOf refs src i)); [apply attr_RE, escapeString_RE, D2|constructor].
  Qed.

  Lemma renderI_RE : forall fuel i, dokI src i = true -> RE (renderI fuel c refs src i) (renderI fuel c refs' src' i).
  Proof.
    induction fuel as [|f IH]; intros i Hi; [constructor|]. cbn [renderI]. cbv zeta.
    assert (Hkids : RE (flat_map (renderI f c refs src) (ikids i)) (flat_map (renderI f c refs' src') (ikids i))).
    { apply RE_flat_map. intros x Hx. apply IH. apply (dokI_kids src i Hi x Hx). }
    assert (Hwrap : forall a z, RE (a ++ flat_map (renderI f c refs src) (ikids i) ++ z) (a ++ flat_map (renderI f c refs' src') (ikids i) ++ z)).
    { intros a z. apply RE_app; [apply RE_refl|]. apply RE_app; [exact Hkids|apply RE_refl]. }
    destruct ((ikind i =? TextKind) || (ikind i =? UnparsedKind)); [apply escapeHTML_RE, spanOf_RE, Hsrc|].
    destruct (ikind i =? CharacterReferenceKind); [apply spanOf_RE, Hsrc|].
    destruct (ikind i =? RawHTMLKind).
    { destruct (ignoreRaw c); [constructor|]. destruct (filterOn c); [apply filterRaw_RE, spanOf_RE, Hsrc|apply spanOf_RE, Hsrc]. }
    destruct (ikind i =? SoftLineBreakKind).
    { destruct (softBreak c =? 2); [apply RE_refl|]. destruct (softBreak c =? 1); [apply RE_refl|].
      destruct (0 <? iend i - istart i); [apply spanOf_RE, Hsrc|apply RE_refl]. }
    destruct (ikind i =? HardLineBreakKind); [apply RE_refl|].
    destruct (ikind i =? EmphasisKind); [apply Hwrap|].
    destruct (ikind i =? StrongKind); [apply Hwrap|].
    destruct (ikind i =? CodeSpanKind); [apply Hwrap|].
    destruct (ikind i =? LinkKind).
    { apply (link_head_RE i [97] s_href _ _ Hi). apply RE_app; [apply RE_refl|]. apply RE_app; [exact Hkids|apply RE_refl]. }
    destruct (ikind i =? ImageKind).
    { apply (link_head_RE i [105; 109; 103] s_src _ _ Hi). apply RE_app; [apply attr_RE, altText_RE|apply RE_refl]. }
    destruct (ikind i =? AutolinkKind) eqn:Ea.
    { apply Z.eqb_eq in Ea.
      assert (Ed : match ikids i with t :: _ => spanOf src' t | [] => [] end = match ikids i with t :: _ => spanOf src t | [] => [] end).
      { destruct (ikids i) as [|t r] eqn:Ek; [reflexivity|]. pose proof (dokI_auto src i t r Hi Ea Ek) as Hn. unfold spanNoEol in Hn.
        unfold spanOf. apply crRel_noEol; [apply crRel_sub, Hsrc|exact Hn]. }
      rewrite Ed. apply RE_refl. }
    destruct (ikind i =? IndentKind); [apply RE_refl|].
    destruct (ikind i =? HTMLTagKind); [exact Hkids|constructor].
  Qed.

  Lemma listItemNumber_cr b : listItemNumber src' b = listItemNumber src b.
  Proof.
    unfold listItemNumber. destruct (_ || _); [reflexivity|]. destruct (bkids b) as [|m r]; [reflexivity|].
    destruct (negb _); [reflexivity|]. rewrite (cr_parseListMarker _ _ (crRel_sub src src' (bstart m) (bend m) Hsrc)). reflexivity.
  Qed.

  Lemma renderB_RE : forall fuel pt b, dokB src b = true -> RE (renderB fuel c refs src pt b) (renderB fuel c refs' src' pt b).
  Proof.
    induction fuel as [|f IH]; intros pt b Hb; [constructor|]. cbn [renderB]. cbv zeta.
    rewrite dokB_eq in Hb. apply andb_true_iff in Hb. destruct Hb as [Hbi Hbk]. rewrite forallb_forall in Hbi, Hbk.
    assert (HkB : RE (flat_map (renderB f c refs src (isTightList b)) (bkids b)) (flat_map (renderB f c refs' src' (isTightList b)) (bkids b))).
    { apply RE_flat_map. intros x Hx. apply IH, Hbk, Hx. }
    assert (HkI : RE (flat_map (fun i => renderI (isize i) c refs src i) (bik b)) (flat_map (fun i => renderI (isize i) c refs' src' i) (bik b))).
    { apply RE_flat_map. intros x Hx. apply renderI_RE, Hbi, Hx. }
    set (kids := match bkids b with [] => flat_map (fun i => renderI (isize i) c refs src i) (bik b) | _ => flat_map (renderB f c refs src (isTightList b)) (bkids b) end).
    set (kids' := match bkids b with [] => flat_map (fun i => renderI (isize i) c refs' src' i) (bik b) | _ => flat_map (renderB f c refs' src' (isTightList b)) (bkids b) end).
    assert (Hk : RE kids kids') by (unfold kids, kids'; destruct (bkids b); assumption).
    clearbody kids kids'.
    assert (Hwrap : forall a z, RE (a ++ kids ++ z) (a ++ kids' ++ z)).
    { intros a z. apply RE_app; [apply RE_refl|]. apply RE_app; [exact Hk|apply RE_refl]. }
    destruct (bkind b =? ParagraphKind); [destruct pt; [exact Hk|apply Hwrap]|].
    destruct (bkind b =? ThematicBreakKind); [apply RE_refl|].
    destruct (isHeading (bkind b)); [apply Hwrap|].
    destruct (isCode (bkind b)).
    { apply RE_app; [apply RE_refl|]. apply RE_app; [apply RE_refl|]. apply RE_app; [|apply RE_app; [apply RE_refl|apply RE_app; [exact Hk|apply RE_refl]]].
      destruct (if bkind b =? FencedCodeBlockKind then match bik b with i0 :: _ => if ikind i0 =? InfoStringKind then Some i0 else None | [] => None end else None) as [i0|]; [|constructor].
      pose proof (firstField_runes_RE _ _ (textOfChildren_RE src src' i0 Hsrc)) as Hw.
      rewrite (RE_len _ _ Hw). destruct (0 <? len _); [|constructor].
      apply RE_app; [apply RE_refl|]. apply RE_app; [apply escapeString_RE, Hw|apply RE_refl]. }
    destruct (bkind b =? BlockQuoteKind); [apply Hwrap|].
    destruct (bkind b =? ListKind).
    { destruct (isOrdered b); [|apply Hwrap].
      replace (match bkids b with it :: _ => listItemNumber src' it | [] => -1 end) with (match bkids b with it :: _ => listItemNumber src it | [] => -1 end)
        by (destruct (bkids b); [reflexivity|symmetry; apply listItemNumber_cr]).
      apply RE_app; [apply RE_refl|]. apply RE_app; [apply RE_refl|]. apply RE_app; [apply RE_refl|]. apply RE_app; [exact Hk|apply RE_refl]. }
    destruct (bkind b =? ListItemKind); [apply Hwrap|].
    destruct (bkind b =? HTMLBlockKind); [destruct (ignoreRaw c); [constructor|exact Hk]|constructor].
  Qed.
End Tree.

(* ---- extractDefs: the reference map with values ---- *)
(* the second entry of a definition block is its destination (from the node grammar C05) *)
Fixpoint refK (b : block) : bool :=
  match b with Blk k _ _ bk ik _ _ _ _ _ =>
    (if k =? LinkReferenceDefinitionKind then match ik with _ :: d :: _ => ikind d =? LinkDestinationKind | _ => true end else true) &&
    forallb refK bk
  end.
Lemma refK_eq b : refK b =
  (if bkind b =? LinkReferenceDefinitionKind then match bik b with _ :: d :: _ => ikind d =? LinkDestinationKind | _ => true end else true) &&
  forallb refK (bkids b).
Proof. destruct b; reflexivity. Qed.

Section Defs.
  Variables src src' : bytes.
  Hypothesis Hsrc : crRel src src'.

  Lemma extractDefs_rel : forall fuel b acc acc', dokB src b = true -> refK b = true -> refsR acc acc' ->
    refsR (extractDefs fuel src b acc) (extractDefs fuel src' b acc').
  Proof.
    induction fuel as [|f IH]; intros b acc acc' Hb Hr Ha; [exact Ha|]. cbn [extractDefs].
    rewrite dokB_eq in Hb. apply andb_true_iff in Hb. destruct Hb as [Hbi Hbk].
    rewrite refK_eq in Hr. apply andb_true_iff in Hr. destruct Hr as [Hr1 Hrk].
    destruct (bkind b =? LinkReferenceDefinitionKind).
    - destruct (bik b) as [|l [|d rest]]; [exact Ha|exact Ha|].
      rewrite (refsR_keys acc acc' (fun k => Utf8.bytes_eqb k (iref l)) Ha).
      destruct (_ || _); [exact Ha|]. apply refsR_snoc; [exact Ha|].
      cbn [forallb] in Hbi. apply andb_true_iff in Hbi. destruct Hbi as [_ Hbi]. apply andb_true_iff in Hbi. destruct Hbi as [Hd _].
      apply Z.eqb_eq in Hr1.
      repeat split; cbn [ld_dest ld_title ld_has].
      + apply textOfChildren_eq; [exact Hsrc|apply dokI_dest; assumption].
      + destruct rest; [constructor|apply textOfChildren_RE, Hsrc].
    - rewrite forallb_forall in Hbk, Hrk. clear Hr1 Hbi. revert acc acc' Ha Hbk Hrk. induction (bkids b) as [|x r IHr]; intros acc acc' Ha Hbk Hrk; [exact Ha|].
      cbn [fold_left]. apply IHr.
      + apply IH; [apply Hbk; left; reflexivity|apply Hrk; left; reflexivity|exact Ha].
      + intros y Hy. apply Hbk. right. exact Hy.
      + intros y Hy. apply Hrk. right. exact Hy.
  Qed.
End Defs.

(* ---- joinBlocks ---- *)
Lemma joinBlocks_RE l l' : Forall2 RE l l' -> RE (joinBlocks l) (joinBlocks l').
Proof.
  induction 1 as [|x y l l' Hxy H IH]; [constructor|]. cbn [joinBlocks].
  destruct H as [|x2 y2 l l' Hxy2 H]; [exact Hxy|].
  apply RE_app; [exact Hxy|]. apply RE_app; [apply RE_refl|exact IH].
Qed.
