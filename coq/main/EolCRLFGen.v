From Coq Require Import List ZArith Lia Bool.
Import ListNotations.
Require Import Base Tree Driver EolCRLFDefs EolCRLFGenHyp EolCRLFGenPlug EolGenCrlfRdrHyp EolGenCrlfRdrRefute.
Open Scope Z_scope.

(* C14 (ii), the CRLF clause at the block layer for EVERY input without CR, '[' allowed, under a label-limit condition.
   EolCRLFDefs.parseBlocks_crlf_statement (bound len (crlf s) < 999) is FALSE: parseLinkLabel gives up after 999 reader STEPS,
   CR bytes count, and every partly consumed tab (Indent entry) costs up to three extra steps
   (EolGenCrlfRdrRefute.parseBlocks_crlf_statement_refuted).  What holds: the same equation when the padded CR LF image is
   short enough that no label scan can reach the limit in either run: 2 * len (crlf (pad s)) + 9 < 999. *)
Definition parseBlocks_crlf_limit_statement : Prop :=
  forall s, ~ In 13 s -> 2 * len (crlf (pad s)) + 9 < 999 ->
    parseBlocks (crlf s) = (map (phiRoot s) (fst (parseBlocks s)), snd (parseBlocks s)).

Theorem parseBlocks_crlf_limit : parseBlocks_crlf_limit_statement.
Proof. intros s S13 HL. exact (parseBlocks_crlf_of_OcpHyp ocpHyp s S13 HL). Qed.
Print Assumptions parseBlocks_crlf_limit.

(* the statement asked for originally is refuted *)
Theorem parseBlocks_crlf_statement_false : ~ parseBlocks_crlf_statement.
Proof. exact parseBlocks_crlf_statement_refuted. Qed.
Print Assumptions parseBlocks_crlf_statement_false.
