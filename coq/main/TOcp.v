From Coq Require Import List ZArith Lia Bool.
Import ListNotations.
Require Import Base Tree Rdr Link Collect Html Recog LP Rules Starts Driver Leaf3e RdrBound TRdr TDefs.
Open Scope Z_scope.

(* ---- the replacement list of a closing paragraph: link reference definitions with strictly increasing ends,
        then possibly the rest of the paragraph ---- *)
Lemma bend_set_bik b v : bend (set_bik b v) = bend b. Proof. destruct b; reflexivity. Qed.
Lemma bend_set_bstart b v : bend (set_bstart b v) = bend b. Proof. destruct b; reflexivity. Qed.
Lemma bik_set_bik b v : bik (set_bik b v) = v. Proof. destruct b; reflexivity. Qed.
Lemma bik_set_bstart' b v : bik (set_bstart b v) = bik b. Proof. destruct b; reflexivity. Qed.
Lemma bend_refDef s e k : bend (refDefBlock s e k) = e. Proof. reflexivity. Qed.

Lemma Forall_from {A} (P : A -> Prop) (l : list A) k : Forall P l -> Forall P (from_ l k).
Proof.
  unfold from_. revert l. induction (Z.to_nat k) as [|n IH]; intros l H; [exact H|]. destruct l; [exact H|].
  inversion H; subst. apply IH. assumption.
Qed.

Lemma nodeIndex_has ik pos : 0 <= nodeIndexForPosition ik pos -> exists n, In n ik /\ spanHas n pos = true.
Proof.
  intros H. unfold nodeIndexForPosition in H. destruct (nodeIdx_has ik pos 0 ltac:(lia) H) as (n & E & Hh).
  exists n. split; [|exact Hh]. replace (nodeIdx ik pos 0 - 0) with (nodeIdx ik pos 0) in E by lia.
  unfold from_ in E. set (k := Z.to_nat (nodeIdx ik pos 0)) in E. clearbody k. revert k E. clear.
  induction ik as [|x r IH]; intros k E; [destruct k; discriminate|]. destruct k as [|k]; [cbn in E; inversion E; left; reflexivity|].
  right. apply (IH k). exact E.
Qed.

Section Ocp.
  Variables (lo0 M e : Z).
  Hypothesis Hlo0 : 0 <= lo0.
  Hypothesis HMe : M <= e.
  Hypothesis HM : -1 <= M.

  Definition OUT (L : list block) : Prop :=
    Forall closedB L /\ GoodL lo0 L /\
    exists pre x, L = pre ++ [x] /\ Forall (fun y => bend y <= M) pre /\ (bend x <= M \/ bend x = e).
  Definition PRE (result : list block) (lo : Z) : Prop :=
    Forall closedB result /\ GoodL lo0 result /\ Forall (fun y => bend y <= M) result /\ lo = endOf lo0 result /\ 0 <= lo.

  Lemma closed_of_bend x : 0 <= bend x -> closedB x. Proof. intros H. apply isOpen_closed. exact H. Qed.
  Lemma GoodL_one_closed lo x : 0 <= bend x -> lo < bend x -> GoodL lo [x].
  Proof. intros H0 H1. cbn [GoodL]. replace (isOpen x) with false by (symmetry; apply closed_of_bend; exact H0). split; [exact H1|exact I]. Qed.

  Lemma OUT_keep result lo orig : PRE result lo -> bend orig = e -> lo < e -> OUT (result ++ [orig]).
  Proof.
    intros (A & B & C & D & F) He Hlt. unfold OUT. split; [|split].
    - apply Forall_app. split; [exact A|]. constructor; [apply closed_of_bend; lia|constructor].
    - apply GoodL_app; [exact A|exact B|]. rewrite <- D. apply GoodL_one_closed; lia.
    - exists result, orig. split; [reflexivity|]. split; [exact C|right; exact He].
  Qed.
  Lemma PRE_add result lo x : PRE result lo -> lo < bend x -> bend x <= M -> PRE (result ++ [x]) (bend x).
  Proof.
    intros (A & B & C & D & F) H1 H2. unfold PRE. split; [|split; [|split; [|split]]].
    - apply Forall_app. split; [exact A|]. constructor; [apply closed_of_bend; lia|constructor].
    - apply GoodL_app; [exact A|exact B|]. rewrite <- D. apply GoodL_one_closed; lia.
    - apply Forall_app. split; [exact C|]. constructor; [exact H2|constructor].
    - rewrite endOf_snoc. reflexivity.
    - lia.
  Qed.
  Lemma OUT_final result lo x : PRE result lo -> lo < bend x -> bend x <= M -> OUT (result ++ [x]).
  Proof.
    intros HP H1 H2. pose proof (PRE_add result lo x HP H1 H2) as (A & B & C & D & F). destruct HP as (_ & _ & C0 & _).
    unfold OUT. split; [exact A|]. split; [exact B|]. exists result, x. split; [reflexivity|]. split; [exact C0|left; exact H2].
  Qed.

  Lemma ocp_chain : forall fuel rfuel src orig r result lo,
    (0 < rfuel)%nat -> bend orig = e ->
    Forall (fun u => istart u <= M /\ iend u <= M) (bik orig) ->
    RB M r -> RLw lo r -> PRE result lo -> lo < e ->
    OUT (ocp_loop fuel rfuel src orig None r result).
  Proof.
    induction fuel as [|f IH]; intros rfuel src orig r result lo Hrf He Hik HRB HRw HP Hlt.
    { cbn [ocp_loop]. eapply OUT_keep; eassumption. }
    assert (Hkeep : OUT (result ++ [orig])) by (eapply OUT_keep; eassumption).
    cbn [ocp_loop]. cbv zeta.
    pose proof (RB_parseLinkLabel M rfuel r HRB) as HB1.
    pose proof (RL_parseLinkLabel_valid lo rfuel r HRw) as HL1.
    destruct (parseLinkLabel rfuel r) as [[lspan linner] r1]. cbn [fst snd] in HB1, HL1.
    destruct (spanValid lspan) eqn:Ev; cbn [negb]; [|exact Hkeep]. specialize (HL1 eq_refl).
    pose proof (RB_current M r1 HB1) as HB2. pose proof (RLs_current lo r1 HL1) as HL2.
    destruct (current r1) as [c r2]. cbn [snd] in HB2, HL2. destruct (negb (c =? 58)); [exact Hkeep|].
    pose proof (RB_next' M r2 HB2) as HB3. pose proof (RLs_next lo r2 HL2) as HL3.
    destruct (next r2) as [? r3]. cbn [snd] in HB3, HL3.
    pose proof (RB_skipLinkSpace M rfuel r3 HB3) as HB4. pose proof (RLs_skipLinkSpace lo rfuel r3 HL3) as HL4.
    destruct (skipLinkSpace rfuel r3) as [ok r4]. cbn [snd] in HB4, HL4. destruct (negb ok); [exact Hkeep|].
    pose proof (RB_parseLinkDestination M rfuel r4 HB4) as HB5. pose proof (RLs_parseLinkDestination lo rfuel r4 HL4) as HL5.
    destruct (parseLinkDestination rfuel r4) as [[dspan dtext] r5]. cbn [snd] in HB5, HL5.
    destruct (negb (spanValid dspan)); [exact Hkeep|].
    pose proof (RB_readEOL M HM rfuel r5 HB5) as [HB6 HdM]. pose proof (RLs_readEOL lo rfuel r5 HL5) as [HL6 Hd].
    assert (Hlo : 0 <= lo) by (destruct HP as (_ & _ & _ & _ & F); exact F).
    pose proof (readEOL_neg_ok2 lo rfuel rfuel r5 Hlo HL5 Hrf) as Hneg.
    destruct (readEOL rfuel r5) as [destEOL r6]. cbn [fst snd] in HB6, HdM, HL6, Hd, Hneg.
    pose proof (RB_current M r6 HB6) as HB7. pose proof (RLs_current lo r6 HL6) as HL7.
    destruct (current r6) as [c6 r7]. cbn [snd] in HB7, HL7, Hneg.
    match goal with |- context [if ?cnd then _ else _] => destruct cnd end; [exact Hkeep|].
    set (labelInline := Inl LinkLabelKind _ _ 0 _ _). set (destInline := Inl LinkDestinationKind _ _ 0 [] _).
    set (rd := refDefBlock (fst lspan) destEOL [labelInline; destInline]).
    assert (Hrd : bend rd = destEOL) by reflexivity.
    pose proof (RB_skipLinkSpace M rfuel r7 HB7) as HB8. pose proof (RLs_skipLinkSpace lo rfuel r7 HL7) as HL8.
    destruct (skipLinkSpace rfuel r7) as [ok2 r8]. cbn [fst snd] in HB8, HL8, Hneg.
    assert (Hcut : forall pos, let fc := nodeIndexForPosition (bik orig) pos in
               0 <= fc -> pos < e /\ bend (set_bik (set_bstart orig pos) (from_ (bik orig) fc)) = e /\
                          Forall (fun u => istart u <= M /\ iend u <= M) (bik (set_bik (set_bstart orig pos) (from_ (bik orig) fc)))).
    { intros pos fc Hfc. destruct (nodeIndex_has (bik orig) pos Hfc) as (n & Hin & Hh).
      apply spanHas_lt in Hh. rewrite Forall_forall in Hik. destruct (Hik n Hin) as [_ Hn].
      split; [lia|]. rewrite bend_set_bik, bend_set_bstart, bik_set_bik. split; [exact He|].
      apply Forall_from. apply Forall_forall. exact Hik. }
    destruct ok2; cbn [negb].
    2:{ (* no further space: the definition ends here *)
      destruct Hd as [Hd|[Hd1 Hd2]]; [specialize (Hneg ltac:(lia)); discriminate|].
      apply (OUT_final result lo rd HP); rewrite Hrd; lia. }
    pose proof (RB_parseLinkTitle M rfuel r8 HB8) as HB9. pose proof (RLs_parseLinkTitle lo rfuel r8 HL8) as HL9.
    destruct (parseLinkTitle rfuel r8) as [[tspan ttext] r9]. cbn [snd] in HB9, HL9.
    destruct (negb (spanValid tspan)).
    { destruct (Z.ltb_spec destEOL 0) as [Ln|Ln]; [exact Hkeep|].
      destruct Hd as [Hd|[Hd1 Hd2]]; [lia|].
      specialize (Hcut (r_pos r6)). cbv zeta in Hcut.
      destruct (Z.ltb_spec (nodeIndexForPosition (bik orig) (r_pos r6)) 0) as [Lf|Lf].
      - apply (OUT_final result lo rd HP); rewrite Hrd; lia.
      - destruct (Hcut Lf) as (C1 & C2 & C3).
        apply (IH rfuel src _ r6 (result ++ [rd]) destEOL Hrf C2 C3 HB6).
        + eapply RLs_to_RLw; [exact HL6|exact Hd2].
        + rewrite <- Hrd. apply (PRE_add result lo rd HP); rewrite Hrd; lia.
        + lia. }
    pose proof (RB_readEOL M HM rfuel r9 HB9) as [HB10 HtM]. pose proof (RLs_readEOL lo rfuel r9 HL9) as [HL10 Ht].
    destruct (readEOL rfuel r9) as [titleEOL r10]. cbn [fst snd] in HB10, HtM, HL10, Ht.
    destruct (Z.ltb_spec titleEOL 0) as [Lt|Lt].
    { destruct (Z.ltb_spec destEOL 0) as [Ln|Ln]; [exact Hkeep|].
      destruct Hd as [Hd|[Hd1 Hd2]]; [lia|].
      specialize (Hcut (r_pos r6)). cbv zeta in Hcut.
      destruct (Z.ltb_spec (nodeIndexForPosition (bik orig) (r_pos r6)) 0) as [Lf|Lf].
      - apply (OUT_final result lo rd HP); rewrite Hrd; lia.
      - destruct (Hcut Lf) as (C1 & C2 & C3). rewrite app_assoc.
        apply (OUT_keep (result ++ [rd]) destEOL); [|exact C2|lia].
        rewrite <- Hrd. apply (PRE_add result lo rd HP); rewrite Hrd; lia. }
    set (titleInline := Inl LinkTitleKind _ _ 0 [] _).
    set (nb := refDefBlock (fst lspan) titleEOL [labelInline; destInline; titleInline]).
    assert (Hnb : bend nb = titleEOL) by reflexivity.
    destruct Ht as [Ht|[Ht1 Ht2]]; [lia|].
    specialize (Hcut (r_pos r10)). cbv zeta in Hcut.
    destruct (Z.ltb_spec (nodeIndexForPosition (bik orig) (r_pos r10)) 0) as [Lf|Lf].
    - apply (OUT_final result lo nb HP); rewrite Hnb; lia.
    - destruct (Hcut Lf) as (C1 & C2 & C3).
      apply (IH rfuel src _ r10 (result ++ [nb]) titleEOL Hrf C2 C3 HB10).
      + eapply RLs_to_RLw; [exact HL10|exact Ht2].
      + rewrite <- Hnb. apply (PRE_add result lo nb HP); rewrite Hnb; lia.
      + lia.
  Qed.
End Ocp.

(* the replacement list of a paragraph closed at e *)
Lemma PRE_nil lo0 M : 0 <= lo0 -> PRE lo0 M [] lo0.
Proof. intros H. unfold PRE. repeat split; try constructor; try reflexivity; exact H. Qed.
Lemma ocp_paragraph src orig lo0 M e :
  0 <= lo0 -> lo0 < e -> M <= e -> bend orig = e -> bkind orig <> SetextHeadingKind ->
  srt (bik orig) -> Forall (fun u => lo0 <= istart u) (bik orig) ->
  Forall (fun u => istart u <= M /\ iend u <= M) (bik orig) ->
  OUT lo0 M e (onCloseParagraph src orig).
Proof.
  intros H0 Hlt HMe He Hk Hs Hlo Hub. unfold onCloseParagraph.
  assert (Hone : OUT lo0 M e [orig]).
  { apply (OUT_keep lo0 M e [] lo0 orig); [apply PRE_nil; exact H0|exact He|exact Hlt]. }
  destruct (bik orig) as [|first rest] eqn:Eb; [exact Hone|]. cbv zeta.
  replace (bkind orig =? SetextHeadingKind) with false by (symmetry; apply Z.eqb_neq; exact Hk).
  rewrite <- Eb.
  assert (Hf : lo0 <= istart first /\ istart first <= M).
  { inversion Hlo; subst. inversion Hub; subst. tauto. }
  rewrite <- Eb in Hs, Hlo, Hub.
  apply (ocp_chain lo0 M e HMe ltac:(lia) _ _ src orig _ [] lo0); try assumption.
  - lia.
  - unfold RB, newReader. cbn [r_spans r_pos r_prev]. split; [|lia]. revert Hub. apply Forall_impl. intros u Hu. exact Hu.
  - apply RLw_newReader; [lia|lia|exact Hs].
  - apply PRE_nil; exact H0.
Qed.

(* ---- the orphan paragraph of a setext heading is never produced when the heading passed containerHasParagraphContent ---- *)
Definition lastPara (L : list block) : bool := match rev L with l :: _ => bkind l =? ParagraphKind | [] => false end.
Lemma lastPara_snoc L x : lastPara (L ++ [x]) = (bkind x =? ParagraphKind).
Proof. unfold lastPara. rewrite rev_app_distr. reflexivity. Qed.

Definition ocpN (src : bytes) (orig : block) : list block :=
  match bik orig with
  | [] => [orig]
  | first :: _ => ocp_loop (S (length (bik orig))) (2 * length src + 10)%nat src orig None (newReader src (bik orig) (istart first)) []
  end.

Lemma ocp_sim : forall fuel rf src o1 o2 orph r res1 res2,
  bik o1 = bik o2 -> lastPara (ocp_loop fuel rf src o1 None r res1) = true ->
  ocp_loop fuel rf src o2 orph r res2 = ocp_loop fuel rf src o2 None r res2.
Proof.
  induction fuel as [|f IH]; intros rf src o1 o2 orph r res1 res2 Hb H; [reflexivity|].
  cbn [ocp_loop] in H |- *. cbv zeta in H |- *. rewrite Hb in H.
  destruct (parseLinkLabel rf r) as [[lspan linner] r1].
  destruct (negb (spanValid lspan)); [reflexivity|].
  destruct (current r1) as [c r2]. destruct (negb (c =? 58)); [reflexivity|].
  destruct (next r2) as [? r3]. destruct (skipLinkSpace rf r3) as [ok r4]. destruct (negb ok); [reflexivity|].
  destruct (parseLinkDestination rf r4) as [[dspan dtext] r5]. destruct (negb (spanValid dspan)); [reflexivity|].
  destruct (readEOL rf r5) as [destEOL r6]. destruct (current r6) as [c6 r7].
  destruct ((destEOL <? 0) && (r_pos r6 =? r_pos r5) && negb (c6 =? 0)); [reflexivity|].
  destruct (skipLinkSpace rf r7) as [ok2 r8].
  destruct (negb ok2); [rewrite lastPara_snoc in H; discriminate|].
  destruct (parseLinkTitle rf r8) as [[tspan ttext] r9].
  destruct (negb (spanValid tspan)).
  { destruct (destEOL <? 0); [reflexivity|].
    destruct (nodeIndexForPosition (bik o2) (r_pos r6) <? 0); [rewrite lastPara_snoc in H; discriminate|].
    eapply IH; [|exact H]. rewrite !bik_set_bik. reflexivity. }
  destruct (readEOL rf r9) as [titleEOL r10].
  destruct (titleEOL <? 0).
  { destruct (destEOL <? 0); [reflexivity|].
    destruct (nodeIndexForPosition (bik o2) (r_pos r6) <? 0); [rewrite lastPara_snoc in H; discriminate|reflexivity]. }
  destruct (nodeIndexForPosition (bik o2) (r_pos r10) <? 0); [rewrite lastPara_snoc in H; discriminate|].
  eapply IH; [|exact H]. rewrite !bik_set_bik. reflexivity.
Qed.

Lemma ocp_para_eq src orig : bkind orig <> SetextHeadingKind -> onCloseParagraph src orig = ocpN src orig.
Proof.
  intros Hk. unfold onCloseParagraph, ocpN. destruct (bik orig) as [|first rest] eqn:Eb; [reflexivity|]. cbv zeta.
  replace (bkind orig =? SetextHeadingKind) with false by (symmetry; apply Z.eqb_neq; exact Hk). reflexivity.
Qed.
Lemma ocp_setext_eq src b b1 : bik b1 = bik b -> bkind b <> SetextHeadingKind ->
  lastPara (onCloseParagraph src b) = true -> onCloseParagraph src b1 = ocpN src b1.
Proof.
  intros Hb Hk H. rewrite (ocp_para_eq src b Hk) in H. unfold onCloseParagraph, ocpN in *. rewrite Hb in *.
  destruct (bik b) as [|first rest] eqn:Eb; [reflexivity|]. cbv zeta.
  eapply ocp_sim; [|exact H]. rewrite Hb, Eb. reflexivity.
Qed.

Lemma ocpN_OUT src orig lo0 M e :
  0 <= lo0 -> lo0 < e -> M <= e -> bend orig = e ->
  srt (bik orig) -> Forall (fun u => lo0 <= istart u) (bik orig) ->
  Forall (fun u => istart u <= M /\ iend u <= M) (bik orig) ->
  OUT lo0 M e (ocpN src orig).
Proof.
  intros H0 Hlt HMe He Hs Hlo Hub. unfold ocpN.
  assert (Hone : OUT lo0 M e [orig]).
  { apply (OUT_keep lo0 M e [] lo0 orig); [apply PRE_nil; exact H0|exact He|exact Hlt]. }
  destruct (bik orig) as [|first rest] eqn:Eb; [exact Hone|].
  assert (Hf : lo0 <= istart first /\ istart first <= M).
  { inversion Hlo; subst. inversion Hub; subst. tauto. }
  rewrite <- Eb in *.
  apply (ocp_chain lo0 M e HMe ltac:(lia) _ _ src orig _ [] lo0); try assumption.
  - lia.
  - unfold RB, newReader. cbn [r_spans r_pos r_prev]. split; [|lia]. revert Hub. apply Forall_impl. intros u Hu. exact Hu.
  - apply RLw_newReader; [lia|lia|exact Hs].
  - apply PRE_nil; exact H0.
Qed.

(* ---- closing a root child ---- *)
Lemma bend_onCloseList b : bend (onCloseList b) = bend b.
Proof. unfold onCloseList. cbv zeta. destruct (bloose b || _); [|reflexivity]. destruct b; reflexivity. Qed.
Lemma bend_onCloseIndented src b : bend (onCloseIndented src b) = bend b.
Proof. unfold onCloseIndented. apply bend_set_bik. Qed.
Lemma bend_set_bend b e : bend (set_bend b e) = e. Proof. destruct b; reflexivity. Qed.
Lemma bik_set_bend b e : bik (set_bend b e) = bik b. Proof. destruct b; reflexivity. Qed.
Lemma bkind_set_bend' b e : bkind (set_bend b e) = bkind b. Proof. destruct b; reflexivity. Qed.

Lemma closeBlock_closed fuel src c e : isOpen c = false -> closeBlock fuel src c e = [c].
Proof. intros H. destruct fuel; [reflexivity|]. cbn [closeBlock]. rewrite H. reflexivity. Qed.

Lemma closeBlock_OUT f src c e lo M :
  isOpen c = true -> paraOK lo c -> 0 <= lo -> lo < e -> M <= e ->
  (bkind c = ParagraphKind -> Forall (fun u => istart u <= M /\ iend u <= M) (bik c)) ->
  OUT lo M e (closeBlock (S f) src c e).
Proof.
  intros Ho [Hns Hp] H0 Hlt HMe Hub. cbn [closeBlock]. rewrite Ho. cbn [negb]. cbv zeta.
  assert (Hone : forall x, bend x = e -> OUT lo M e [x]).
  { intros x Hx. apply (OUT_keep lo M e [] lo x); [apply PRE_nil; exact H0|exact Hx|exact Hlt]. }
  assert (Hcl : forall x, bend (match lastBlock x with Some c0 => set_lastBlocks x (closeBlock f src c0 e) | None => x end) = bend x).
  { intros x. destruct (lastBlock x); [apply bend_set_lastBlocks|reflexivity]. }
  rewrite !bkind_set_bend'.
  destruct (bkind c =? ListKind); [apply Hone; rewrite Hcl, bend_onCloseList; apply bend_set_bend|].
  destruct (bkind c =? IndentedCodeBlockKind); [apply Hone; rewrite Hcl, bend_onCloseIndented; apply bend_set_bend|].
  destruct (Z.eqb_spec (bkind c) ParagraphKind) as [Ek|Ek].
  - cbn [orb]. rewrite ocp_para_eq by (rewrite bkind_set_bend'; exact Hns).
    destruct (Hp Ek) as [Hs Hl]. apply ocpN_OUT; try assumption; rewrite ?bik_set_bend; try assumption.
    + apply bend_set_bend.
    + apply Hub, Ek.
  - cbn [orb]. replace (bkind c =? SetextHeadingKind) with false by (symmetry; apply Z.eqb_neq; exact Hns).
    apply Hone. rewrite Hcl. apply bend_set_bend.
Qed.

(* the setext variant: the block was a paragraph whose replacement list ended with a paragraph *)
Lemma closeBlock_setext_OUT f src b c e lo M :
  isOpen c = true -> bkind c = SetextHeadingKind -> bik c = bik b -> bkind b <> SetextHeadingKind ->
  lastPara (onCloseParagraph src b) = true ->
  srt (bik c) -> Forall (fun u => lo <= istart u) (bik c) -> 0 <= lo -> lo < e -> M <= e ->
  Forall (fun u => istart u <= M /\ iend u <= M) (bik c) ->
  OUT lo M e (closeBlock (S f) src c e).
Proof.
  intros Ho Hk Hb Hkb Hl Hs Hlo H0 Hlt HMe Hub. cbn [closeBlock]. rewrite Ho. cbn [negb]. cbv zeta.
  rewrite !bkind_set_bend', Hk. cbn [Z.eqb Pos.eqb orb SetextHeadingKind ListKind IndentedCodeBlockKind ParagraphKind].
  rewrite (ocp_setext_eq src b (set_bend c e)); [|rewrite bik_set_bend; exact Hb|exact Hkb|exact Hl].
  apply ocpN_OUT; rewrite ?bik_set_bend; try assumption. apply bend_set_bend.
Qed.
