From Coq Require Import List ZArith Lia Bool.
Import ListNotations.
Require Import Base Tables Utf8 Tree Rdr Link Collect Html Recog Inl3a Inl3b Inl3c Inl3d Inl3e Driver.
Open Scope Z_scope.

(* ================================================================ C04 (4): the inline parser with its fuels made explicit
   rf : the fuel handed to every reader loop (the model: rfuelOf st = 2 * len src + 10)
   tf : the fuel of transformLinkReference over the COLLECTED label nodes of a full reference link (the model: the same rfuelOf st)
   lf : the fuel of the tokeniser loop iloop (the model: S (length src))
   ofu: the fuel of the loop over the entries (the model: S (length entries))
   Everything else is a verbatim copy of Inl3e.v. *)

Definition parseEndBracketF (rf tf : nat) (st : ist) (start : Z) : ist * Z :=
  let fuel := rf in
  let src := isrc st in
  let '(st, odi) := lookForLinkOrImage st in
  if odi <? 0 then (addText st start (start + 1), start + 1) else
  let od := nthD (stk st) odi in
  let kind := if d_typ od =? tImage then ImageKind else LinkKind in
  let bracket := nodeOf st (d_node od) in
  let tryInline :=
    if (start + 1 <? spanEnd st) && (at_ src (start + 1) =? 40) then
      let '(ispan, (dspan, dtext), (tspan, ttext)) := parseInlineLink fuel st (start + 1) in
      if spanValid ispan then Some (ispan, dspan, dtext, tspan, ttext) else None
    else None in
  match tryInline with
  | Some (ispan, dspan, dtext, tspan, ttext) =>
    let '(st, lid) := wrap st kind (d_node od) None in
    let st := updN st lid (fun n => setSpan n (ps bracket) (snd ispan)) in
    let st :=
      if spanValid dspan then
        let kids := if spanValid dtext then kidsOf (collectTextNodes fuel (newReader src (unpFrom st) (fst dtext)) (snd dtext) TextKind true) else [] in
        appendKid st lid (PN 0 LinkDestinationKind (fst dspan) (snd dspan) 0 [] kids)
      else st in
    let st :=
      if spanValid tspan then
        let kids := if spanValid ttext then kidsOf (collectTextNodes fuel (newReader src (unpFrom st) (fst ttext)) (snd ttext) TextKind true) else [] in
        appendKid st lid (PN 0 LinkTitleKind (fst tspan) (snd tspan) 0 [] kids)
      else st in
    let st := advanceTo st (snd ispan - 1) in
    (finishLink st kind odi, snd ispan)
  | None =>
    let fail (st : ist) := (setStk (addText st start (start + 1)) (delStack (stk st) odi (odi + 1)), start + 1) in
    let isCollapsed := (start + 2 <? spanEnd st) && (at_ src (start + 1) =? 91) && (at_ src (start + 2) =? 93) in
    let '(lspan, linner) :=
      if negb isCollapsed && (start + 1 <? spanEnd st) && (at_ src (start + 1) =? 91) then
        let '(a, b, _) := parseLinkLabel fuel (newReader src (unpFrom st) (start + 1)) in (a, b)
      else (nullSpan, nullSpan) in
    if isCollapsed then
      let label := transformLinkReferenceSpan fuel src (unp st) (pe bracket) start in
      if negb (matchRef st label) then fail st else
      let '(st, lid) := wrap st kind (d_node od) None in
      let st := updN st lid (fun n => setRef (setSpan n (ps bracket) (start + 3)) label) in
      (finishLink st kind odi, start + 3)
    else if spanValid lspan then
      let lkids := collectTextNodes fuel (newReader src (unpFrom st) (fst linner)) (snd linner) TextKind false in
      let lref := transformLinkReference tf src lkids in
      if negb (matchRef st lref) then fail st else
      let '(st, lid) := wrap st kind (d_node od) None in
      let st := appendKid st lid (PN 0 LinkLabelKind (fst lspan) (snd lspan) 0 lref (kidsOf lkids)) in
      let st := updN st lid (fun n => setSpan n (ps bracket) (snd lspan)) in
      let st := advanceTo st (snd lspan - 1) in
      (finishLink st kind odi, snd lspan)
    else
      let label := transformLinkReferenceSpan fuel src (unp st) (pe bracket) start in
      if negb (matchRef st label) then fail st else
      let '(st, lid) := wrap st kind (d_node od) None in
      let st := updN st lid (fun n => setRef (setSpan n (ps bracket) (start + 1)) label) in
      (finishLink st kind odi, start + 1)
  end.

Definition istepF (rf tf : nat) (st : ist) (pos plainStart : Z) : ist * Z * Z :=
  let src := isrc st in
  let fuel := rf in
  let c := at_ src pos in
  if (c =? 42) || (c =? 95) then
    let st := addText st plainStart pos in
    let '(st, e) := parseDelimiterRun st pos in (st, e, e)
  else if c =? 91 then
    let st := addText st plainStart pos in
    let '(st, id) := addNode st TextKind pos (pos + 1) [] in
    let st := setStk st (stk st ++ [{| d_typ := tLink; d_flags := fActive; d_n := 0; d_node := id |}]) in
    (st, pos + 1, pos + 1)
  else if c =? 93 then
    let st := addText st plainStart pos in
    let '(st, e) := parseEndBracketF rf tf st pos in (st, e, e)
  else if c =? 33 then
    if (spanEnd st <=? pos + 1) || negb (at_ src (pos + 1) =? 91) then (st, pos + 1, plainStart) else
    let st := addText st plainStart pos in
    let '(st, id) := addNode st TextKind pos (pos + 2) [] in
    let st := setStk st (stk st ++ [{| d_typ := tImage; d_flags := fActive; d_n := 0; d_node := id |}]) in
    (st, pos + 2, pos + 2)
  else if c =? 32 then
    let '(e, ok) := parseHardLineBreakSpace (sub src pos (spanEnd st)) in
    if ok && negb (isLastSpan st) then
      let st := addText st plainStart pos in
      let st := fst (addNode st HardLineBreakKind pos (pos + e) []) in
      (setIgn st true, pos + e, pos + e)
    else (st, pos + e, plainStart)
  else if c =? 96 then
    let '(cS, cE, sE) := parseCodeSpan fuel st pos in
    if 0 <=? sE then
      let st := addText st plainStart pos in
      let st := collectCodeSpan st pos sE cS cE in
      (st, sE, sE)
    else (st, cS, plainStart)
  else if c =? 60 then
    let ae := parseAutolink (sub src pos (spanEnd st)) in
    if 0 <=? ae then
      let e := ae + pos in
      let st := addText st plainStart pos in
      let st := fst (addNode st AutolinkKind pos e [PN 0 TextKind (pos + 1) (e - 1) 0 [] []]) in
      (st, e, e)
    else
      let '(ts, te) := parseHTMLTag fuel (newReader src (unpFrom st) pos) in
      if negb (spanValid (ts, te)) then (st, pos + 1, plainStart) else
      let st := addText st plainStart ts in
      let kids := kidsOf (collectTextNodes fuel (newReader src (unpFrom st) ts) te RawHTMLKind false) in
      let st := fst (addNode st HTMLTagKind ts te kids) in
      (advanceTo st te, te, te)
  else if c =? 92 then
    let st := addText st plainStart pos in
    let '(st, e) := parseBackslash st pos in (st, e, e)
  else if c =? 38 then
    let e := parseCharacterEscape (sub src pos (spanEnd st)) in
    if e <? 0 then (st, pos + 1, plainStart) else
    let st := addText st plainStart pos in
    let st := fst (addNode st CharacterReferenceKind pos (pos + e) []) in
    (st, pos + e, pos + e)
  else if c =? 10 then
    let st := addText st plainStart pos in
    let st := if negb (isLastSpan st) then fst (addNode st SoftLineBreakKind pos (pos + 1) []) else st in
    (st, pos + 1, pos + 1)
  else if c =? 13 then
    let st := addText st plainStart pos in
    let w := if (pos + 1 <? spanEnd st) && (at_ src (pos + 1) =? 10) then 2 else 1 in
    let st := if negb (isLastSpan st) then fst (addNode st SoftLineBreakKind pos (pos + w) []) else st in
    (st, pos + w, pos + w)
  else (st, pos + 1, plainStart).

Fixpoint iloopF (rf tf : nat) (fuel : nat) (st : ist) (pos plainStart : Z) : ist * Z :=
  match fuel with
  | O => (st, plainStart)
  | S f =>
    if (upos st <? len (unp st)) && (pos <? spanEnd st) then
      let '(st, pos, plainStart) := istepF rf tf st pos plainStart in iloopF rf tf f st pos plainStart
    else (st, plainStart)
  end.

Fixpoint outerF (rf tf lf : nat) (fuel : nat) (st : ist) : ist :=
  match fuel with
  | O => st
  | S f =>
    if len (unp st) <=? upos st then st else
    let u := nth (Z.to_nat (upos st)) (unp st) (mkI 0 0 0) in
    let k := ikind u in
    let st :=
      if k =? 0 then setIgn st false
      else if k =? IndentKind then (if negb (ign st) then setRk st (rk st ++ [ofInline u]) else st)
      else if k =? UnparsedKind then
        let pos := istart u in
        let pos := if ign st then skipSpTab (length (isrc st)) (isrc st) pos (spanEnd st) else pos in
        let st := setIgn st false in
        let '(st, plainStart) := iloopF rf tf lf st pos pos in
        addText st plainStart (spanEnd st)
      else setRk (setIgn st false) (rk st ++ [ofInline u]) in
    outerF rf tf lf f (setUpos st (upos st + 1))
  end.

Definition st0 (src : bytes) (matcher : list bytes) (container : block) : ist :=
  {| rk := []; isrc := src; unp := bik container; upos := 0; stk := []; ign := false; nid := 1;
     rootEnd := bend container; matcher := matcher |}.

Definition parseInlinesF (rf tf lf ofu : nat) (src : bytes) (matcher : list bytes) (container : block) : list inline :=
  let st := outerF rf tf lf ofu (st0 src matcher container) in
  let st := processEmphasis st 0 in
  map toInline (rk st).

(* ---- at the model's fuels the copies ARE the model ---- *)
Definition fr (st st' : ist) : Prop := isrc st' = isrc st /\ unp st' = unp st.
Lemma fr_refl st : fr st st. Proof. split; reflexivity. Qed.
Lemma fr_trans a b c : fr a b -> fr b c -> fr a c. Proof. intros [A B] [C D]. split; congruence. Qed.
Lemma fr_rfuel st st' : fr st st' -> rfuelOf st' = rfuelOf st. Proof. intros [A _]. unfold rfuelOf. rewrite A. reflexivity. Qed.

Lemma fr_addNode st k s e ks : fr st (fst (addNode st k s e ks)).
Proof. unfold addNode. destruct (_ =? 0); split; reflexivity. Qed.
Lemma fr_addText st s e : fr st (addText st s e). Proof. apply fr_addNode. Qed.

Lemma parseEndBracketF_model st start : parseEndBracketF (rfuelOf st) (rfuelOf st) st start = parseEndBracket st start.
Proof. reflexivity. Qed.

Lemma istepF_model st pos ps : istepF (rfuelOf st) (rfuelOf st) st pos ps = istep st pos ps.
Proof.
  unfold istepF, istep. cbv zeta. rewrite <- (fr_rfuel _ _ (fr_addText st ps pos)) at 1 2. rewrite parseEndBracketF_model. reflexivity.
Qed.
