From Coq Require Import List ZArith Lia Bool.
Import ListNotations.
Require Import Base Tables Utf8 Tree Rdr Link Collect Html Recog Inl3a Inl3b Inl3c Inl3d Inl3e.
Require Import IFSmall CoverTok SpanSmall.
Require Import EolCRLFDefs EolCRLFSimBytes EolCRLFSimStream EolGenCrlfRdrStep EolGenCrlfRdrColl EolGenCrlfRdrLink EolCRLFFullNode.
Open Scope Z_scope.

(* C14 (ii), CRLF clause, inline layer: the small counting loops of the inline parser commute with crlf
   (positions mapped by phiP R).  Part 1: eolRun, runEnd, skipSpTab. *)

Lemma at_m13 R p : at_ (crlf R) (phiP R p) = m13 (at_ R p).
Proof. rewrite at_P. reflexivity. Qed.

Lemma P_ltb' R a b : (phiP R a <? phiP R b) = (a <? b). Proof. apply phiP_ltb. Qed.

(* ---------------------------------------------------------------- eolRun *)
Lemma eolRun_crlf_gen R lim : ~ In 13 R -> forall (n : nat) e f f', 0 <= e -> lim - e <= Z.of_nat n ->
  lim - e <= Z.of_nat f -> phiP R lim - phiP R e <= Z.of_nat f' ->
  eolRun f' (crlf R) (phiP R e) (phiP R lim) = phiP R (eolRun f R e lim).
Proof.
  intros R13. induction n as [|n IH]; intros e f f' He Hn Hf Hf'.
  - assert (L : lim <= e) by lia. pose proof (phiP_mono R lim e L) as L'.
    destruct f as [|f]; destruct f' as [|f']; cbn [eolRun]; try reflexivity;
      repeat (match goal with |- context [?a <? ?b] => destruct (Z.ltb_spec a b); [lia|] end); reflexivity.
  - destruct (Z.lt_ge_cases e lim) as [L|L].
    2:{ pose proof (phiP_mono R lim e L) as L'.
        destruct f as [|f]; destruct f' as [|f']; cbn [eolRun]; try reflexivity;
          repeat (match goal with |- context [?a <? ?b] => destruct (Z.ltb_spec a b); [lia|] end); reflexivity. }
    pose proof (phiP_lt R e lim L) as L'.
    destruct f as [|f]; [lia|]. destruct f' as [|f']; [lia|]. cbn [eolRun].
    rewrite P_ltb'. destruct (Z.ltb_spec e lim) as [_|?]; [|lia]. cbn [andb]. rewrite at_m13.
    destruct (Z.eqb_spec (at_ R e) 10) as [E|E].
    + unfold m13. rewrite E. cbn [Z.eqb orb]. change (10 =? 10) with true. change (13 =? 10) with false. change (13 =? 13) with true. cbn [orb].
      pose proof (P_succ_lf R e E) as Hs. pose proof (phiP_mono R (e + 1) lim ltac:(lia)) as Hm.
      destruct f' as [|f']; [lia|]. cbn [eolRun].
      destruct (Z.ltb_spec (phiP R e + 1) (phiP R lim)) as [_|?]; [|lia]. rewrite (at_P1 R e E). cbn [andb].
      change (10 =? 10) with true. cbn [orb]. replace (phiP R e + 1 + 1) with (phiP R (e + 1)) by lia.
      apply IH; lia.
    + rewrite (m13_n _ E). pose proof (at_not13 R R13 e) as N13.
      destruct (Z.eqb_spec (at_ R e) 10) as [?|_]; [contradiction|].
      destruct (Z.eqb_spec (at_ R e) 13) as [?|_]; [contradiction|]. reflexivity.
Qed.

Theorem eolRun_crlf R f f' e lim : ~ In 13 R -> 0 <= e -> lim <= len R -> len R <= Z.of_nat f -> len (crlf R) <= Z.of_nat f' ->
  eolRun f' (crlf R) (phiP R e) (phiP R lim) = phiP R (eolRun f R e lim).
Proof.
  intros R13 He Hl Hf Hf'. apply (eolRun_crlf_gen R lim R13 (Z.to_nat (lim - e))); try lia.
  rewrite len_R' in Hf'. pose proof (phiP_mono R lim (len R) Hl). pose proof (phiP_ge R e He). lia.
Qed.
Print Assumptions eolRun_crlf.

(* ---------------------------------------------------------------- runEnd *)
Lemma runEnd_crlf_gen R lim c : c <> 10 -> c <> 13 -> forall (n : nat) e f f', 0 <= e -> lim - e <= Z.of_nat n ->
  lim - e <= Z.of_nat f -> phiP R lim - phiP R e <= Z.of_nat f' ->
  runEnd f' (crlf R) (phiP R e) (phiP R lim) c = phiP R (runEnd f R e lim c).
Proof.
  intros C10 C13. induction n as [|n IH]; intros e f f' He Hn Hf Hf'.
  - assert (L : lim <= e) by lia. pose proof (phiP_mono R lim e L) as L'.
    destruct f as [|f]; destruct f' as [|f']; cbn [runEnd]; try reflexivity;
      repeat (match goal with |- context [?a <? ?b] => destruct (Z.ltb_spec a b); [lia|] end); reflexivity.
  - destruct (Z.lt_ge_cases e lim) as [L|L].
    2:{ pose proof (phiP_mono R lim e L) as L'.
        destruct f as [|f]; destruct f' as [|f']; cbn [runEnd]; try reflexivity;
          repeat (match goal with |- context [?a <? ?b] => destruct (Z.ltb_spec a b); [lia|] end); reflexivity. }
    pose proof (phiP_lt R e lim L) as L'.
    destruct f as [|f]; [lia|]. destruct f' as [|f']; [lia|]. cbn [runEnd].
    rewrite P_ltb'. destruct (Z.ltb_spec e lim) as [_|?]; [|lia]. cbn [andb]. rewrite at_m13, (m13_eqb _ c C10 C13).
    destruct (Z.eqb_spec (at_ R e) c) as [E|E]; [|reflexivity].
    assert (N : at_ R e <> 10) by congruence. pose proof (P_succ_n R e N) as Hs. rewrite <- Hs.
    pose proof (phiP_mono R (e + 1) lim ltac:(lia)) as Hm. apply IH; lia.
Qed.

Theorem runEnd_crlf R f f' e lim c : ~ In 13 R -> c <> 10 -> c <> 13 -> 0 <= e -> lim <= len R -> len R <= Z.of_nat f -> len (crlf R) <= Z.of_nat f' ->
  runEnd f' (crlf R) (phiP R e) (phiP R lim) c = phiP R (runEnd f R e lim c) /\
  (forall k, e <= k < runEnd f R e lim c -> at_ R k = c).
Proof.
  intros R13 C10 C13 He Hl Hf Hf'. split; [|intros k Hk; eapply runEnd_all; exact Hk].
  apply (runEnd_crlf_gen R lim c C10 C13 (Z.to_nat (lim - e))); try lia.
  rewrite len_R' in Hf'. pose proof (phiP_mono R lim (len R) Hl). pose proof (phiP_ge R e He). lia.
Qed.
Print Assumptions runEnd_crlf.

(* ---------------------------------------------------------------- skipSpTab *)
Lemma skipSpTab_crlf_gen R lim : forall (n : nat) e f f', 0 <= e -> lim - e <= Z.of_nat n ->
  lim - e <= Z.of_nat f -> phiP R lim - phiP R e <= Z.of_nat f' ->
  skipSpTab f' (crlf R) (phiP R e) (phiP R lim) = phiP R (skipSpTab f R e lim).
Proof.
  induction n as [|n IH]; intros e f f' He Hn Hf Hf'.
  - assert (L : lim <= e) by lia. pose proof (phiP_mono R lim e L) as L'.
    destruct f as [|f]; destruct f' as [|f']; cbn [skipSpTab]; try reflexivity;
      repeat (match goal with |- context [?a <? ?b] => destruct (Z.ltb_spec a b); [lia|] end); reflexivity.
  - destruct (Z.lt_ge_cases e lim) as [L|L].
    2:{ pose proof (phiP_mono R lim e L) as L'.
        destruct f as [|f]; destruct f' as [|f']; cbn [skipSpTab]; try reflexivity;
          repeat (match goal with |- context [?a <? ?b] => destruct (Z.ltb_spec a b); [lia|] end); reflexivity. }
    pose proof (phiP_lt R e lim L) as L'.
    destruct f as [|f]; [lia|]. destruct f' as [|f']; [lia|]. cbn [skipSpTab].
    rewrite P_ltb'. destruct (Z.ltb_spec e lim) as [_|?]; [|lia]. cbn [andb]. rewrite at_m13, m13_sptab.
    destruct (isSpTab (at_ R e)) eqn:E; [|reflexivity].
    assert (N : at_ R e <> 10) by (intros Q; rewrite Q in E; discriminate E). pose proof (P_succ_n R e N) as Hs. rewrite <- Hs.
    pose proof (phiP_mono R (e + 1) lim ltac:(lia)) as Hm. apply IH; lia.
Qed.

Theorem skipSpTab_crlf R f f' pos lim : ~ In 13 R -> 0 <= pos -> lim <= len R -> len R <= Z.of_nat f -> len (crlf R) <= Z.of_nat f' ->
  skipSpTab f' (crlf R) (phiP R pos) (phiP R lim) = phiP R (skipSpTab f R pos lim).
Proof.
  intros R13 He Hl Hf Hf'. apply (skipSpTab_crlf_gen R lim (Z.to_nat (lim - pos))); try lia.
  rewrite len_R' in Hf'. pose proof (phiP_mono R lim (len R) Hl). pose proof (phiP_ge R pos He). lia.
Qed.
Print Assumptions skipSpTab_crlf.
