From Coq Require Import List ZArith Lia Bool.
Import ListNotations.
Require Import Base Tables Utf8 Tree Rdr Link Collect Html Inl3a EolCRLFDefs EolCRLFSimBytes EolCRLFSimStream.
Open Scope Z_scope.

(* C14 (ii), CRLF clause, inline layer: the node store of the inline parser (Inl3a.v) under the position map phiP R. *)

Fixpoint phiN (R : bytes) (n : pn) : pn :=
  match n with PN i k s e ind r ks => PN i k (phiP R s) (phiP R e) ind r (map (phiN R) ks) end.

(* every node of a forest satisfies Q *)
Fixpoint faN (Q : pn -> Prop) (n : pn) : Prop :=
  Q n /\ (fix go (ks : list pn) : Prop := match ks with [] => True | k :: r => faN Q k /\ go r end) (pkids n).
Fixpoint faL (Q : pn -> Prop) (l : list pn) : Prop := match l with [] => True | n :: r => faN Q n /\ faL Q r end.
Lemma faN_eq Q n : faN Q n <-> Q n /\ faL Q (pkids n).
Proof.
  destruct n as [i k s e ind r ks]. cbn [faN pkids]. split; intros [A B]; (split; [exact A|]); clear A.
  - induction ks as [|x ks IH]; [exact I|]. destruct B as [B1 B2]. split; [exact B1|apply IH, B2].
  - induction ks as [|x ks IH]; [exact I|]. destruct B as [B1 B2]. split; [exact B1|apply IH, B2].
Qed.
Lemma faL_app Q a b : faL Q (a ++ b) <-> faL Q a /\ faL Q b.
Proof. induction a as [|x a IH]; cbn [app faL]; [tauto|]. rewrite IH. tauto. Qed.
Lemma faL_In Q l n : faL Q l -> In n l -> faN Q n.
Proof. induction l as [|x l IH]; intros H Hi; [destruct Hi|]. destruct H as [H1 H2]. destruct Hi as [->|Hi]; [exact H1|apply IH; assumption]. Qed.
Lemma faL_intro Q l : (forall n, In n l -> faN Q n) -> faL Q l.
Proof. induction l as [|x l IH]; intros H; [exact I|]. split; [apply H; left; reflexivity|apply IH; intros n Hn; apply H; right; exact Hn]. Qed.
Lemma faN_impl (Q Q' : pn -> Prop) : (forall n, Q n -> Q' n) -> forall n, faN Q n -> faN Q' n.
Proof.
  intros HQ. fix IH 1. intros [i k s e ind r ks]. cbn [faN pkids]. intros [A B]. split; [apply HQ, A|]. clear A.
  induction ks as [|x ks IHk]; [exact I|]. destruct B as [B1 B2]. split; [apply IH, B1|apply IHk, B2].
Qed.
Lemma faL_impl (Q Q' : pn -> Prop) : (forall n, Q n -> Q' n) -> forall l, faL Q l -> faL Q' l.
Proof.
  intros HQ. induction l as [|n l IH]; intros H; [exact I|]. destruct H as [H1 H2]. split; [eapply faN_impl; eassumption|apply IH, H2].
Qed.

Section Node.
  Variable R : bytes.
  Notation P := (phiP R).
  Notation F := (phiI R).
  Notation N := (phiN R).

  Lemma pid_N n : pid (N n) = pid n. Proof. destruct n; reflexivity. Qed.
  Lemma pkind_N n : pkind (N n) = pkind n. Proof. destruct n; reflexivity. Qed.
  Lemma ps_N n : ps (N n) = P (ps n). Proof. destruct n; reflexivity. Qed.
  Lemma pe_N n : pe (N n) = P (pe n). Proof. destruct n; reflexivity. Qed.
  Lemma pind_N n : pind (N n) = pind n. Proof. destruct n; reflexivity. Qed.
  Lemma pref_N n : pref (N n) = pref n. Proof. destruct n; reflexivity. Qed.
  Lemma pkids_N n : pkids (N n) = map N (pkids n). Proof. destruct n; reflexivity. Qed.
  Lemma setSpan_N n s e : setSpan (N n) (P s) (P e) = N (setSpan n s e). Proof. destruct n; reflexivity. Qed.
  Lemma setKids_N n ks : setKids (N n) (map N ks) = N (setKids n ks). Proof. destruct n; reflexivity. Qed.
  Lemma setRef_N n r : setRef (N n) r = N (setRef n r). Proof. destruct n; reflexivity. Qed.
  Lemma setInd_N n v : setInd (N n) v = N (setInd n v). Proof. destruct n; reflexivity. Qed.

  Lemma ofInline_F : forall u, ofInline (F u) = N (ofInline u).
  Proof.
    fix IH 1. intros [k s e ind r ks]. cbn [phiI ofInline phiN]. f_equal. rewrite !map_map.
    induction ks as [|x ks IHk]; [reflexivity|]. cbn [map]. f_equal; [apply IH|exact IHk].
  Qed.
  Lemma toInline_N : forall n, toInline (N n) = F (toInline n).
  Proof.
    fix IH 1. intros [i k s e ind r ks]. cbn [phiI toInline phiN]. f_equal. rewrite !map_map.
    induction ks as [|x ks IHk]; [reflexivity|]. cbn [map]. f_equal; [apply IH|exact IHk].
  Qed.
  Lemma map_toInline_N l : map toInline (map N l) = map F (map toInline l).
  Proof. rewrite !map_map. apply map_ext. intros n. apply toInline_N. Qed.
  Lemma map_ofInline_F l : map ofInline (map F l) = map N (map ofInline l).
  Proof. rewrite !map_map. apply map_ext. intros n. apply ofInline_F. Qed.

  Lemma psize_N : forall n, psize (N n) = psize n.
  Proof.
    fix IH 1. intros [i k s e ind r ks]. cbn [phiN psize]. f_equal.
    induction ks as [|x ks IHk]; [reflexivity|]. cbn [map fold_right]. rewrite IH, IHk. reflexivity.
  Qed.
  Lemma fsize_N l : fsize (map N l) = fsize l.
  Proof. unfold fsize. f_equal. induction l as [|x l IH]; [reflexivity|]. cbn [map fold_right]. rewrite psize_N, IH. reflexivity. Qed.

  Lemma spanLen_P0 s e : (spanLen (P s) (P e) =? 0) = (spanLen s e =? 0).
  Proof.
    unfold spanLen. rewrite !Z.leb_antisym, !phiP_sign, phiP_ltb.
    destruct (negb (s <? 0) && negb (e <? 0) && negb (e <? s)) eqn:E; [|reflexivity].
    destruct (Z.eqb_spec (e - s) 0) as [Q|Q].
    - replace e with s by lia. replace (P s - P s) with 0 by lia. reflexivity.
    - apply Z.eqb_neq. intros G. apply Q. assert (P e = P s) by lia. apply phiP_inj in H. lia.
  Qed.
  Lemma spanLen_Ppos s e : (0 <? spanLen (P s) (P e)) = (0 <? spanLen s e).
  Proof.
    pose proof (spanLen_P0 s e) as H.
    assert (G : forall a b, 0 <= spanLen a b) by (intros a b; unfold spanLen; destruct (_ && _ && _) eqn:E; [|lia];
      apply andb_true_iff in E; destruct E as [_ E]; apply Z.leb_le in E; lia).
    pose proof (G s e). pose proof (G (P s) (P e)).
    destruct (Z.eqb_spec (spanLen (P s) (P e)) 0); destruct (Z.eqb_spec (spanLen s e) 0); try discriminate.
    - replace (0 <? spanLen (P s) (P e)) with false by (symmetry; apply Z.ltb_ge; lia). symmetry. apply Z.ltb_ge. lia.
    - replace (0 <? spanLen (P s) (P e)) with true by (symmetry; apply Z.ltb_lt; lia). symmetry. apply Z.ltb_lt. lia.
  Qed.
  Lemma plen_N0 n : (plen (N n) =? 0) = (plen n =? 0).
  Proof. unfold plen. rewrite ps_N, pe_N. apply spanLen_P0. Qed.

  (* ---- search ---- *)
  Lemma findNode_N : forall f id l, findNode f id (map N l) = option_map N (findNode f id l).
  Proof.
    induction f as [|f IH]; intros id l; [reflexivity|]. cbn [findNode]. destruct l as [|n r]; [reflexivity|]. cbn [map].
    rewrite pid_N. destruct (pid n =? id); [reflexivity|]. rewrite pkids_N, IH. destruct (findNode f id (pkids n)); [reflexivity|apply IH].
  Qed.
  Lemma hasId_N id l : hasId id (map N l) = hasId id l.
  Proof. unfold hasId. induction l as [|n r IH]; [reflexivity|]. cbn [map existsb]. rewrite pid_N, IH. reflexivity. Qed.

  (* ---- update by identity: the new function must agree on the nodes that carry the identity ---- *)
  Lemma updNode_N (Q : pn -> Prop) g g' id : (forall n, Q n -> pid n = id -> g' (N n) = N (g n)) ->
    forall f l, faL Q l -> updNode f id g' (map N l) = map N (updNode f id g l).
  Proof.
    intros Hg. induction f as [|f IH]; intros l Hl; [reflexivity|]. cbn [updNode]. rewrite !map_map. apply map_ext_in. intros n Hn.
    pose proof (faL_In Q l n Hl Hn) as Hq. apply faN_eq in Hq. destruct Hq as [Hq Hk].
    rewrite pid_N. destruct (Z.eqb_spec (pid n) id) as [E|E]; [apply Hg; assumption|].
    rewrite pkids_N, (IH _ Hk). apply setKids_N.
  Qed.

  (* ---- wrap ---- *)
  Lemma splitAtId_N id : forall l, splitAtId id (map N l) = (map N (fst (splitAtId id l)), map N (snd (splitAtId id l))).
  Proof.
    induction l as [|n r IH]; [reflexivity|]. cbn [map splitAtId]. rewrite pid_N. destruct (pid n =? id); [reflexivity|].
    rewrite IH. destruct (splitAtId id r) as [a b]. reflexivity.
  Qed.
  Lemma splitBeforeId_N id : forall l, splitBeforeId id (map N l) = (map N (fst (splitBeforeId id l)), map N (snd (splitBeforeId id l))).
  Proof.
    induction l as [|n r IH]; [reflexivity|]. cbn [map splitBeforeId]. destruct id as [i|].
    - rewrite pid_N. destruct (pid n =? i); [reflexivity|]. rewrite IH. destruct (splitBeforeId (Some i) r) as [a b]. reflexivity.
    - rewrite IH. destruct (splitBeforeId None r) as [a b]. reflexivity.
  Qed.
  Lemma wrapLevel_N newId kind sid eid es pe0 l :
    wrapLevel newId kind sid eid (option_map P es) (P pe0) (map N l) = map N (wrapLevel newId kind sid eid es pe0 l).
  Proof.
    unfold wrapLevel. rewrite splitAtId_N. destruct (splitAtId sid l) as [pre post]. cbn [fst snd].
    rewrite splitBeforeId_N. destruct (splitBeforeId eid post) as [mid rest]. cbn [fst snd].
    rewrite !map_app. cbn [map phiN].
    assert (E1 : pe (match rev (map N pre) with n :: _ => n | [] => PN 0 0 0 0 0 [] [] end) = P (pe (match rev pre with n :: _ => n | [] => PN 0 0 0 0 0 [] [] end))).
    { rewrite <- map_rev. destruct (rev pre) as [|x y]; [cbn [map pe]; rewrite phiP_0; reflexivity|]. cbn [map]. apply pe_N. }
    assert (E2 : match option_map P es with Some v => v | None => P pe0 end = P (match es with Some v => v | None => pe0 end)) by (destruct es; reflexivity).
    rewrite E1, E2. reflexivity.
  Qed.
  Lemma wrapIn_N newId kind sid eid es : forall f pe0 l,
    wrapIn f newId kind sid eid (option_map P es) (P pe0) (map N l) = map N (wrapIn f newId kind sid eid es pe0 l).
  Proof.
    induction f as [|f IH]; intros pe0 l; [reflexivity|]. cbn [wrapIn]. rewrite hasId_N. destruct (hasId sid l); [apply wrapLevel_N|].
    rewrite !map_map. apply map_ext. intros n. rewrite pkids_N, pe_N, IH. apply setKids_N.
  Qed.
  Lemma removeId_N id : forall f l, removeId f id (map N l) = map N (removeId f id l).
  Proof.
    induction f as [|f IH]; intros l; [reflexivity|]. cbn [removeId]. rewrite hasId_N. destruct (hasId id l).
    - induction l as [|n r IHl]; [reflexivity|]. cbn [map filter]. rewrite pid_N. destruct (negb (pid n =? id)); cbn [map]; rewrite IHl; reflexivity.
    - rewrite !map_map. apply map_ext. intros n. rewrite pkids_N, IH. apply setKids_N.
  Qed.

  (* ---- forest predicates through the operations ---- *)
  Lemma faL_updNode (Q : pn -> Prop) id g : (forall n, Q n -> pid n = id -> faN Q (g n)) -> (forall n ks, Q n -> Q (setKids n ks)) ->
    forall f l, faL Q l -> faL Q (updNode f id g l).
  Proof.
    intros Hg Hk. induction f as [|f IH]; intros l Hl; [exact Hl|]. cbn [updNode]. apply faL_intro. intros m Hm.
    apply in_map_iff in Hm. destruct Hm as (n & <- & Hn). pose proof (faL_In Q l n Hl Hn) as Hq. apply faN_eq in Hq. destruct Hq as [Hq Hks].
    destruct (Z.eqb_spec (pid n) id) as [E|E]; [apply Hg; assumption|]. apply faN_eq. split; [apply Hk, Hq|].
    destruct n; cbn [setKids pkids] in *. apply IH, Hks.
  Qed.
  Lemma faL_filter Q (p : pn -> bool) l : faL Q l -> faL Q (filter p l).
  Proof. induction l as [|n r IH]; intros H; [exact I|]. destruct H as [H1 H2]. cbn [filter]. destruct (p n); [split; [exact H1|apply IH, H2]|apply IH, H2]. Qed.
  Lemma faL_removeId (Q : pn -> Prop) id : (forall n ks, Q n -> Q (setKids n ks)) -> forall f l, faL Q l -> faL Q (removeId f id l).
  Proof.
    intros Hk. induction f as [|f IH]; intros l Hl; [exact Hl|]. cbn [removeId]. destruct (hasId id l); [apply faL_filter, Hl|].
    apply faL_intro. intros m Hm. apply in_map_iff in Hm. destruct Hm as (n & <- & Hn).
    pose proof (faL_In Q l n Hl Hn) as Hq. apply faN_eq in Hq. destruct Hq as [Hq Hks]. apply faN_eq. split; [apply Hk, Hq|].
    destruct n; cbn [setKids pkids] in *. apply IH, Hks.
  Qed.
  Lemma splitAtId_app id : forall l, fst (splitAtId id l) ++ snd (splitAtId id l) = l.
  Proof. induction l as [|n r IH]; [reflexivity|]. cbn [splitAtId]. destruct (pid n =? id); [reflexivity|]. destruct (splitAtId id r) as [a b]. cbn [fst snd app] in *. rewrite IH. reflexivity. Qed.
  Lemma splitBeforeId_app id : forall l, fst (splitBeforeId id l) ++ snd (splitBeforeId id l) = l.
  Proof.
    induction l as [|n r IH]; [reflexivity|]. cbn [splitBeforeId]. destruct id as [i|].
    - destruct (pid n =? i); [reflexivity|]. destruct (splitBeforeId (Some i) r) as [a b]. cbn [fst snd app] in *. rewrite IH. reflexivity.
    - destruct (splitBeforeId None r) as [a b]. cbn [fst snd app] in *. rewrite IH. reflexivity.
  Qed.
  Lemma faL_wrapLevel (Q : pn -> Prop) newId kind sid eid es pe0 l : (forall s e ks, Q (PN newId kind s e 0 [] ks)) ->
    faL Q l -> faL Q (wrapLevel newId kind sid eid es pe0 l).
  Proof.
    intros Hnew Hl. unfold wrapLevel. pose proof (splitAtId_app sid l) as E1. destruct (splitAtId sid l) as [pre post]. cbn [fst snd] in E1.
    pose proof (splitBeforeId_app eid post) as E2. destruct (splitBeforeId eid post) as [mid rest]. cbn [fst snd] in E2.
    rewrite <- E1, <- E2 in Hl. apply faL_app in Hl. destruct Hl as [A B]. apply faL_app in B. destruct B as [B C].
    apply faL_app. split; [exact A|]. apply faL_app. split; [|exact C]. split; [|exact I]. apply faN_eq. split; [apply Hnew|exact B].
  Qed.
  Lemma faL_wrapIn (Q : pn -> Prop) newId kind sid eid es : (forall s e ks, Q (PN newId kind s e 0 [] ks)) -> (forall n ks, Q n -> Q (setKids n ks)) ->
    forall f pe0 l, faL Q l -> faL Q (wrapIn f newId kind sid eid es pe0 l).
  Proof.
    intros Hnew Hk. induction f as [|f IH]; intros pe0 l Hl; [exact Hl|]. cbn [wrapIn]. destruct (hasId sid l); [apply faL_wrapLevel; assumption|].
    apply faL_intro. intros m Hm. apply in_map_iff in Hm. destruct Hm as (n & <- & Hn).
    pose proof (faL_In Q l n Hl Hn) as Hq. apply faN_eq in Hq. destruct Hq as [Hq Hks]. apply faN_eq. split; [apply Hk, Hq|].
    destruct n; cbn [setKids pkids pe] in *. apply IH, Hks.
  Qed.
  Lemma faL_findNode (Q : pn -> Prop) : forall f id l n, faL Q l -> findNode f id l = Some n -> Q n.
  Proof.
    induction f as [|f IH]; intros id l n Hl H; [discriminate|]. cbn [findNode] in H. destruct l as [|x r]; [discriminate|].
    destruct Hl as [Hx Hr]. apply faN_eq in Hx. destruct Hx as [Hx Hks].
    destruct (pid x =? id); [inversion H; subst; exact Hx|].
    destruct (findNode f id (pkids x)) as [y|] eqn:E; [inversion H; subst; apply (IH id (pkids x)); assumption|apply (IH id r); assumption].
  Qed.
  Lemma findNode_pid : forall f id l n, findNode f id l = Some n -> pid n = id.
  Proof.
    induction f as [|f IH]; intros id l n H; [discriminate|]. cbn [findNode] in H. destruct l as [|x r]; [discriminate|].
    destruct (Z.eqb_spec (pid x) id) as [E|E]; [injection H as <-; exact E|].
    destruct (findNode f id (pkids x)) as [y|] eqn:E2; [inversion H; subst; apply (IH id (pkids x)); assumption|apply (IH id r); assumption].
  Qed.
End Node.
